(* C01 proofs: comparisons.  Every comparison overload = the comparison of Z, for every big operand and every word
   operand in the C type's range; double / float operands d = m * 2^e are compared exactly (dy x m e has the sign of x - d). *)
From Coq Require Import ZArith Bool Lia.
From C01 Require Import Model Model2 ProofsBase.
Local Open Scope Z_scope.
Ltac Zify.zify_post_hook ::= Z.div_mod_to_equations.

#[export] Hint Unfold
  compare_I absCompare_I absCompare_d absCompare_f absCompare_u64 absCompare_u32 absCompare_i64 absCompare_i32 absCompare_i32_tree
  absCompareT_u64 absCompareT_i64 absCompareT_u32 absCompareT_i32 absCompareT_d
  isOne isMOne nonZero isZero_i16 isZero_i32 isZero_u16 isZero_u32 priv_sign sign_m sign_f isleq_T abs_v isOdd
  dom_isUnit dom_areEqual dom_areNEqual dom_areAssociates dom_isgeq dom_isleq dom_isgt dom_islt
  dom_isgeq_iI dom_isleq_iI dom_isgeq_Ii dom_isleq_Ii dom_isgt_iI dom_islt_iI dom_isgt_Ii dom_islt_Ii
  opNe_I opNe_d opNe_f opNe_i32 opNe_u32 opNe_i64 opNe_u64 fr_ne_d fr_ne_f fr_ne_i32 fr_ne_u32 fr_ne_i64 fr_ne_u64 opEq_I opEq_d opEq_f opEq_i32 opEq_u32 opEq_i64 opEq_u64 fr_eq_d fr_eq_f fr_eq_i32 fr_eq_u32 fr_eq_i64 fr_eq_u64 opGt_I opGt_d opGt_f opGt_i32 opGt_u32 opGt_i64 opGt_u64 fr_gt_d fr_gt_f fr_gt_i32 fr_gt_u32 fr_gt_i64 fr_gt_u64 opLt_I opLt_d opLt_f opLt_i32 opLt_u32 opLt_i64 opLt_u64 fr_lt_d fr_lt_f fr_lt_i32 fr_lt_u32 fr_lt_i64 fr_lt_u64 opGe_I opGe_d opGe_f opGe_i32 opGe_u32 opGe_i64 opGe_u64 fr_ge_d fr_ge_f fr_ge_i32 fr_ge_u32 fr_ge_i64 fr_ge_u64 opLe_I opLe_d opLe_f opLe_i32 opLe_u32 opLe_i64 opLe_u64 fr_le_d fr_le_f fr_le_i32 fr_le_u32 fr_le_i64 fr_le_u64 : c01.
#[export] Hint Unfold mpz_cmp_d mpz_cmpabs_d mpz_tstbit0 : gmpspec.

(* sign of x - m * 2^e, computed on integers *)
Definition dy (x m e : Z) : Z := if 0 <=? e then x - m * 2 ^ e else x * 2 ^ (- e) - m.
Lemma cmp_d_dy x m e : mpz_cmp_d x m e = Z.sgn (dy x m e).
Proof. unfold mpz_cmp_d, dy. destruct (0 <=? e); reflexivity. Qed.

Ltac c01_bool := intros; c01_unfold_nowrap; unfold dy in *; split_ifs; c01_wraps;
  try reflexivity; try lia; try (exfalso; lia); c01_unfold; try reflexivity; try lia; try (exfalso; lia).

Definition OpNe_exact : Prop :=
  (forall x l, opNe_I x l = negb (x =? l)) /\
  (forall x l, in_i32 l -> opNe_i32 x l = negb (x =? l)) /\
  (forall x l, in_u32 l -> opNe_u32 x l = negb (x =? l)) /\
  (forall x l, in_i64 l -> opNe_i64 x l = negb (x =? l)) /\
  (forall x l, in_u64 l -> opNe_u64 x l = negb (x =? l)) /\
  (forall l n, in_i32 l -> fr_ne_i32 l n = negb (l =? n)) /\
  (forall l n, in_u32 l -> fr_ne_u32 l n = negb (l =? n)) /\
  (forall l n, in_i64 l -> fr_ne_i64 l n = negb (l =? n)) /\
  (forall l n, in_u64 l -> fr_ne_u64 l n = negb (l =? n)) /\
  (forall x m e, opNe_d x m e = negb (dy x m e =? 0)) /\
  (forall m e n, fr_ne_d m e n = negb (0 =? dy n m e)) /\
  (forall x m e, opNe_f x m e = negb (dy x m e =? 0)) /\
  (forall m e n, fr_ne_f m e n = negb (0 =? dy n m e)).
Lemma opne_exact : OpNe_exact.
Proof. unfold OpNe_exact; repeat apply conj; c01_bool. Qed.

Definition OpEq_exact : Prop :=
  (forall x l, opEq_I x l = (x =? l)) /\
  (forall x l, in_i32 l -> opEq_i32 x l = (x =? l)) /\
  (forall x l, in_u32 l -> opEq_u32 x l = (x =? l)) /\
  (forall x l, in_i64 l -> opEq_i64 x l = (x =? l)) /\
  (forall x l, in_u64 l -> opEq_u64 x l = (x =? l)) /\
  (forall l n, in_i32 l -> fr_eq_i32 l n = (l =? n)) /\
  (forall l n, in_u32 l -> fr_eq_u32 l n = (l =? n)) /\
  (forall l n, in_i64 l -> fr_eq_i64 l n = (l =? n)) /\
  (forall l n, in_u64 l -> fr_eq_u64 l n = (l =? n)) /\
  (forall x m e, opEq_d x m e = (dy x m e =? 0)) /\
  (forall m e n, fr_eq_d m e n = (0 =? dy n m e)) /\
  (forall x m e, opEq_f x m e = (dy x m e =? 0)) /\
  (forall m e n, fr_eq_f m e n = (0 =? dy n m e)).
Lemma opeq_exact : OpEq_exact.
Proof. unfold OpEq_exact; repeat apply conj; c01_bool. Qed.

Definition OpGt_exact : Prop :=
  (forall x l, opGt_I x l = (l <? x)) /\
  (forall x l, in_i32 l -> opGt_i32 x l = (l <? x)) /\
  (forall x l, in_u32 l -> opGt_u32 x l = (l <? x)) /\
  (forall x l, in_i64 l -> opGt_i64 x l = (l <? x)) /\
  (forall x l, in_u64 l -> opGt_u64 x l = (l <? x)) /\
  (forall l n, in_i32 l -> fr_gt_i32 l n = (n <? l)) /\
  (forall l n, in_u32 l -> fr_gt_u32 l n = (n <? l)) /\
  (forall l n, in_i64 l -> fr_gt_i64 l n = (n <? l)) /\
  (forall l n, in_u64 l -> fr_gt_u64 l n = (n <? l)) /\
  (forall x m e, opGt_d x m e = (0 <? dy x m e)) /\
  (forall m e n, fr_gt_d m e n = (dy n m e <? 0)) /\
  (forall x m e, opGt_f x m e = (0 <? dy x m e)) /\
  (forall m e n, fr_gt_f m e n = (dy n m e <? 0)).
Lemma opgt_exact : OpGt_exact.
Proof. unfold OpGt_exact; repeat apply conj; c01_bool. Qed.

Definition OpLt_exact : Prop :=
  (forall x l, opLt_I x l = (x <? l)) /\
  (forall x l, in_i32 l -> opLt_i32 x l = (x <? l)) /\
  (forall x l, in_u32 l -> opLt_u32 x l = (x <? l)) /\
  (forall x l, in_i64 l -> opLt_i64 x l = (x <? l)) /\
  (forall x l, in_u64 l -> opLt_u64 x l = (x <? l)) /\
  (forall l n, in_i32 l -> fr_lt_i32 l n = (l <? n)) /\
  (forall l n, in_u32 l -> fr_lt_u32 l n = (l <? n)) /\
  (forall l n, in_i64 l -> fr_lt_i64 l n = (l <? n)) /\
  (forall l n, in_u64 l -> fr_lt_u64 l n = (l <? n)) /\
  (forall x m e, opLt_d x m e = (dy x m e <? 0)) /\
  (forall m e n, fr_lt_d m e n = (0 <? dy n m e)) /\
  (forall x m e, opLt_f x m e = (dy x m e <? 0)) /\
  (forall m e n, fr_lt_f m e n = (0 <? dy n m e)).
Lemma oplt_exact : OpLt_exact.
Proof. unfold OpLt_exact; repeat apply conj; c01_bool. Qed.

Definition OpGe_exact : Prop :=
  (forall x l, opGe_I x l = (l <=? x)) /\
  (forall x l, in_i32 l -> opGe_i32 x l = (l <=? x)) /\
  (forall x l, in_u32 l -> opGe_u32 x l = (l <=? x)) /\
  (forall x l, in_i64 l -> opGe_i64 x l = (l <=? x)) /\
  (forall x l, in_u64 l -> opGe_u64 x l = (l <=? x)) /\
  (forall l n, in_i32 l -> fr_ge_i32 l n = (n <=? l)) /\
  (forall l n, in_u32 l -> fr_ge_u32 l n = (n <=? l)) /\
  (forall l n, in_i64 l -> fr_ge_i64 l n = (n <=? l)) /\
  (forall l n, in_u64 l -> fr_ge_u64 l n = (n <=? l)) /\
  (forall x m e, opGe_d x m e = (0 <=? dy x m e)) /\
  (forall m e n, fr_ge_d m e n = (dy n m e <=? 0)) /\
  (forall x m e, opGe_f x m e = (0 <=? dy x m e)) /\
  (forall m e n, fr_ge_f m e n = (dy n m e <=? 0)).
Lemma opge_exact : OpGe_exact.
Proof. unfold OpGe_exact; repeat apply conj; c01_bool. Qed.

Definition OpLe_exact : Prop :=
  (forall x l, opLe_I x l = (x <=? l)) /\
  (forall x l, in_i32 l -> opLe_i32 x l = (x <=? l)) /\
  (forall x l, in_u32 l -> opLe_u32 x l = (x <=? l)) /\
  (forall x l, in_i64 l -> opLe_i64 x l = (x <=? l)) /\
  (forall x l, in_u64 l -> opLe_u64 x l = (x <=? l)) /\
  (forall l n, in_i32 l -> fr_le_i32 l n = (l <=? n)) /\
  (forall l n, in_u32 l -> fr_le_u32 l n = (l <=? n)) /\
  (forall l n, in_i64 l -> fr_le_i64 l n = (l <=? n)) /\
  (forall l n, in_u64 l -> fr_le_u64 l n = (l <=? n)) /\
  (forall x m e, opLe_d x m e = (dy x m e <=? 0)) /\
  (forall m e n, fr_le_d m e n = (0 <=? dy n m e)) /\
  (forall x m e, opLe_f x m e = (dy x m e <=? 0)) /\
  (forall m e n, fr_le_f m e n = (0 <=? dy n m e)).
Lemma ople_exact : OpLe_exact.
Proof. unfold OpLe_exact; repeat apply conj; c01_bool. Qed.

(* compare / absCompare: the SIGN of the difference (GMP specifies no more) *)
Definition Compare_exact : Prop :=
  (forall a b, compare_I a b = Z.sgn (a - b)) /\
  (forall a b, absCompare_I a b = Z.sgn (Z.abs a - Z.abs b)) /\
  (forall a b, in_u64 b -> absCompare_u64 a b = Z.sgn (Z.abs a - Z.abs b)) /\
  (forall a b, in_u32 b -> absCompare_u32 a b = Z.sgn (Z.abs a - Z.abs b)) /\
  (forall a b, in_i64 b -> absCompare_i64 a b = Z.sgn (Z.abs a - Z.abs b)) /\
  (forall a b, in_i32 b -> absCompare_i32 a b = Z.sgn (Z.abs a - Z.abs b)) /\
  (forall a b, in_u64 a -> absCompareT_u64 a b = Z.sgn (Z.abs b - Z.abs a)) /\
  (forall a b, in_u32 a -> absCompareT_u32 a b = Z.sgn (Z.abs b - Z.abs a)) /\
  (forall a b, in_i64 a -> absCompareT_i64 a b = Z.sgn (Z.abs b - Z.abs a)) /\
  (forall a b, in_i32 a -> absCompareT_i32 a b = Z.sgn (Z.abs b - Z.abs a)) /\
  (forall a m e, absCompare_d a m e = Z.sgn (dy (Z.abs a) (Z.abs m) e)) /\
  (forall a m e, absCompare_f a m e = Z.sgn (dy (Z.abs a) (Z.abs m) e)) /\
  (forall m e b, absCompareT_d m e b = Z.sgn (dy (Z.abs b) (Z.abs m) e)).
Lemma compare_exact : Compare_exact.
Proof.
  unfold Compare_exact; repeat apply conj; intros; c01_unfold_nowrap; unfold dy; split_ifs; c01_wraps;
  try reflexivity; try (f_equal; lia); try lia.
Qed.
(* the body of absCompare(Integer, int32_t) before frag/C01.fix-2.diff *)
Lemma absCompare_i32_tree_refuted : exists a b, in_i32 b /\ absCompare_i32_tree a b <> Z.sgn (Z.abs a - Z.abs b).
Proof. exists 2147483648, (-2147483648). split; [unfold in_i32, H32; lia | vm_compute; discriminate]. Qed.
Lemma absCompare_i32_tree_ok_above_min a b : - H32 < b < H32 -> absCompare_i32_tree a b = Z.sgn (Z.abs a - Z.abs b).
Proof. intros; c01_unfold; f_equal; lia. Qed.

Definition Tests_exact : Prop :=
  (forall a, isZero_I a = (a =? 0)) /\ (forall a, isZero_i64 a = (a =? 0)) /\ (forall a, isZero_u64 a = (a =? 0)) /\
  (forall a, isZero_i32 a = (a =? 0)) /\ (forall a, isZero_u32 a = (a =? 0)) /\
  (forall a, isZero_i16 a = (a =? 0)) /\ (forall a, isZero_u16 a = (a =? 0)) /\
  (forall a, isOne a = (a =? 1)) /\ (forall a, isMOne a = (a =? - 1)) /\ (forall a, (nonZero a =? 0) = (a =? 0)) /\
  (forall a, priv_sign a = Z.sgn a) /\ (forall a, sign_m a = Z.sgn a) /\ (forall a, sign_f a = Z.sgn a) /\
  (forall a b, isleq_T a b = (a <=? b)) /\ (forall a, abs_v a = Z.abs a) /\ (forall a, isOdd a = Z.odd a) /\
  (forall a, dom_isUnit a = (Z.abs a =? 1)) /\
  (forall a b, dom_areEqual a b = (a =? b)) /\ (forall a b, dom_areNEqual a b = negb (a =? b)) /\
  (forall a b, dom_areAssociates a b = (Z.abs a =? Z.abs b)) /\
  (forall a b, dom_isgeq a b = (b <=? a)) /\ (forall a b, dom_isleq a b = (a <=? b)) /\
  (forall a b, dom_isgt a b = (b <? a)) /\ (forall a b, dom_islt a b = (a <? b)) /\
  (forall b a, in_i64 b -> dom_isgeq_iI b a = (a <=? b)) /\ (forall b a, in_i64 b -> dom_isleq_iI b a = (b <=? a)) /\
  (forall b a, in_i64 b -> dom_isgt_iI b a = (a <? b)) /\ (forall b a, in_i64 b -> dom_islt_iI b a = (b <? a)) /\
  (forall a b, in_i64 b -> dom_isgeq_Ii a b = (b <=? a)) /\ (forall a b, in_i64 b -> dom_isleq_Ii a b = (a <=? b)) /\
  (forall a b, in_i64 b -> dom_isgt_Ii a b = (b <? a)) /\ (forall a b, in_i64 b -> dom_islt_Ii a b = (a <? b)).
Lemma tests_exact : Tests_exact.
Proof. unfold Tests_exact; repeat apply conj; c01_bool. Qed.
