(* C01 proofs: gcd / lcm / Bezout / modular inverse, square and n-th roots. *)
From Coq Require Import ZArith Bool Lia Znumtheory.
From C01 Require Import Model Model2 Model3 ProofsBase ProofsCmp.
Local Open Scope Z_scope.
Ltac Zify.zify_post_hook ::= Z.div_mod_to_equations.

(* ---------------------------------------------------------------- extended Euclid *)
(* Bezout's identity holds whatever the fuel *)
Lemma egcd_bezout f : forall a b g s t, egcd f a b = (g, s, t) -> a * s + b * t = g.
Proof.
  induction f as [| f IH]; intros a b g s t E; cbn [egcd] in E.
  - inversion E; lia.
  - destruct (Z.eqb_spec b 0) as [-> | Hb].
    + inversion E; lia.
    + destruct (egcd f b (a mod b)) as [[g' s'] t'] eqn:E'. inversion E; subst. apply IH in E'.
      pose proof (Z.div_mod a b Hb). nia.
Qed.
(* the measure that halves at every step: a b when a >= b, 2 a b otherwise *)
Definition meas (a b : Z) : Z := if b <=? a then a * b else 2 * a * b.
Lemma egcd_S f a b : egcd (S f) a b =
  if b =? 0 then (a, 1, 0) else match egcd f b (a mod b) with (g, s, t) => (g, t, s - (a / b) * t) end.
Proof. reflexivity. Qed.
Lemma egcd_gcd f : forall a b g s t, 0 <= a -> 0 <= b -> meas a b < 2 ^ Z.of_nat f ->
  egcd (S f) a b = (g, s, t) -> g = Z.gcd a b.
Proof.
  induction f as [| f IH]; intros a b g s t Ha Hb Hm E; rewrite egcd_S in E.
  - (* a b = 0 *)
    unfold meas in Hm. change (2 ^ Z.of_nat 0) with 1 in Hm.
    destruct (Z.eqb_spec b 0) as [-> | Hb0].
    + inversion E; subst. rewrite Z.gcd_0_r. lia.
    + assert (a = 0) by (destruct (Z.leb_spec b a); nia). subst a.
      cbn [egcd] in E. inversion E; subst. rewrite Z.gcd_0_l. lia.
  - destruct (Z.eqb_spec b 0) as [-> | Hb0].
    + inversion E; subst. rewrite Z.gcd_0_r. lia.
    + destruct (egcd (S f) b (a mod b)) as [[g' s'] t'] eqn:E'. inversion E; subst.
      rewrite (Z.gcd_comm a b), <- (Z.gcd_mod a b Hb0), Z.gcd_comm.
      pose proof (Z.mod_pos_bound a b ltac:(lia)) as Hrb.
      eapply (IH b (a mod b)); try lia; [| exact E'].
      unfold meas in *. rewrite Nat2Z.inj_succ, Z.pow_succ_r in Hm by lia.
      destruct (Z.leb_spec (a mod b) b); [| lia].
      destruct (Z.leb_spec b a).
      * (* a >= b: 2 (a mod b) < a *)
        pose proof (Z.div_mod a b Hb0). assert (1 <= a / b) by (apply Z.div_le_lower_bound; lia). nia.
      * rewrite Z.mod_small by lia. nia.
Qed.
Lemma fuel_enough a b : 0 <= a -> 0 <= b -> meas a b < 2 ^ Z.of_nat (Z.to_nat (Z.log2 (2 * a * b) + 1)).
Proof.
  intros Ha Hb. pose proof (Z.log2_nonneg (2 * a * b)). rewrite Z2Nat.id by lia.
  assert (meas a b <= 2 * a * b) by (unfold meas; destruct (Z.leb_spec b a); nia).
  destruct (Z.eq_dec (2 * a * b) 0) as [E0 | En].
  - rewrite E0 in *. cbn. lia.
  - pose proof (Z.log2_spec (2 * a * b) ltac:(nia)). replace (Z.log2 (2 * a * b) + 1) with (Z.succ (Z.log2 (2 * a * b))) by lia. lia.
Qed.
Lemma egcd_spec a b g s t : 0 <= a -> 0 <= b -> egcd (egcd_fuel a b) a b = (g, s, t) -> g = Z.gcd a b /\ a * s + b * t = g.
Proof.
  intros Ha Hb E. split; [| eapply egcd_bezout; exact E].
  unfold egcd_fuel in E. eapply egcd_gcd; [exact Ha | exact Hb | apply fuel_enough; assumption | exact E].
Qed.

Lemma gcdext_spec a b g u v : mpz_gcdext a b = (g, u, v) -> g = Z.gcd a b /\ a * u + b * v = g.
Proof.
  unfold mpz_gcdext. destruct (Z.eqb_spec a 0) as [-> | Ha]; cbn [andb].
  - destruct (Z.eqb_spec b 0) as [-> | Hb].
    + intros E; inversion E; subst. cbn. lia.
    + destruct (egcd _ _ _) as [[g' s] t] eqn:E. intros E'; inversion E'; subst.
      apply egcd_spec in E; [| cbn; lia | lia]. destruct E as [Eg Eb]. rewrite Z.gcd_abs_l, Z.gcd_abs_r in Eg.
      split; [exact Eg |]. rewrite <- Eb. pose proof (Z.sgn_abs b). cbn [Z.abs] in *. nia.
  - destruct (egcd _ _ _) as [[g' s] t] eqn:E. intros E'; inversion E'; subst.
    apply egcd_spec in E; try lia. destruct E as [Eg Eb]. rewrite Z.gcd_abs_l, Z.gcd_abs_r in Eg.
    split; [exact Eg |]. rewrite <- Eb. pose proof (Z.sgn_abs a). pose proof (Z.sgn_abs b). nia.
Qed.

#[export] Hint Unfold lcm_v lcm3 gcd_v gcd3 gcdext_v gcdext5 inv3 invin sqrt2 sqrtrem3 sqrt_v sqrtrem_v root
  dom_gcdin dom_lcmin dom_dxgcd dom_inv_unit dom_invin_unit dom_abs2 : c01.
#[export] Hint Unfold mpz_gcd mpz_lcm mpz_sqrt mpz_sqrtrem : gmpspec.

Definition Gcd_exact : Prop :=
  (forall a b, gcd_v a b = Z.gcd a b) /\ (forall a b, gcd3 a b = Z.gcd a b) /\ (forall g a, dom_gcdin g a = Z.gcd g a) /\
  (forall a b, lcm_v a b = Z.lcm a b) /\ (forall a b, lcm3 a b = Z.lcm a b) /\ (forall l a, dom_lcmin l a = Z.lcm l a) /\
  (forall a b g u v, gcdext_v a b = (g, u, v) -> g = Z.gcd a b /\ a * u + b * v = g) /\
  (forall a b g u v, gcdext5 a b = (g, u, v) -> g = Z.gcd a b /\ a * u + b * v = g) /\
  (forall a b g s t u v, dom_dxgcd a b = (g, s, t, u, v) -> g <> 0 ->
     g = Z.gcd a b /\ a * s + b * t = g /\ a = g * u /\ b = g * v).
Lemma gcd_exact : Gcd_exact.
Proof.
  unfold Gcd_exact; repeat apply conj; intros.
  1-3: c01_unfold_nowrap; match goal with |- context[Z.gcd ?x ?y] => pose proof (Z.gcd_nonneg x y) end; split_ifs; lia.
  1-3: c01_unfold_nowrap; match goal with |- context[Z.lcm ?x ?y] => pose proof (Z.lcm_nonneg x y) end; split_ifs; lia.
  - unfold gcdext_v in H. destruct (mpz_gcdext a b) as [[g' u'] v'] eqn:E. apply gcdext_spec in E.
    pose proof (Z.gcd_nonneg a b). unfold priv_sign, mpz_sgn in H.
    destruct (Z.ltb_spec (Z.sgn g') 0); [lia |]. inversion H; subst. exact E.
  - unfold gcdext5 in H. destruct (mpz_gcdext a b) as [[g' u'] v'] eqn:E. apply gcdext_spec in E.
    pose proof (Z.gcd_nonneg a b). unfold priv_sign, mpz_sgn in H.
    destruct (Z.ltb_spec (Z.sgn g') 0); [lia |]. inversion H; subst. exact E.
  - unfold dom_dxgcd, ctor_copy, gcdext5 in H. cbv zeta in H. destruct (mpz_gcdext a b) as [[g' u'] v'] eqn:E. apply gcdext_spec in E.
    pose proof (Z.gcd_nonneg a b). unfold priv_sign, mpz_sgn in H.
    destruct (Z.ltb_spec (Z.sgn g') 0); [lia |]. inversion H; subst. destruct E as [Eg Eb].
    repeat split; try assumption.
    + pose proof (Z.gcd_divide_l a b) as [k Hk]. rewrite <- Eg in Hk. rewrite Hk at 2. rewrite Z.quot_mul by assumption. lia.
    + pose proof (Z.gcd_divide_r a b) as [k Hk]. rewrite <- Eg in Hk. rewrite Hk at 2. rewrite Z.quot_mul by assumption. lia.
Qed.

(* ---------------------------------------------------------------- modular inverse *)
Lemma invert_spec r a m fl u : m <> 0 -> Z.gcd a m = 1 -> mpz_invert r a m = (fl, u) ->
  fl = true /\ 0 <= u < Z.abs m /\ (a * u) mod Z.abs m = 1 mod Z.abs m.
Proof.
  intros Hm Hg. unfold mpz_invert. destruct (egcd _ _ _) as [[g s] t] eqn:E.
  apply egcd_spec in E; try lia. destruct E as [Eg Eb]. rewrite Z.gcd_abs_l, Z.gcd_abs_r, Hg in Eg. subst g.
  cbn [Z.eqb Pos.eqb]. intros E; inversion E; subst. split; [reflexivity |].
  assert (Hp : 0 < Z.abs m) by lia. split; [apply Z.mod_pos_bound; exact Hp |].
  rewrite Z.mul_mod_idemp_r by lia.
  replace (a * (Z.sgn a * s)) with (Z.abs a * s) by (pose proof (Z.sgn_abs a); nia).
  replace (Z.abs a * s) with (1 + (- t) * Z.abs m) by lia. apply Z.mod_add. lia.
Qed.
Definition Inv_exact : Prop :=
  (forall r a m, m <> 0 -> Z.gcd a m = 1 -> let u := inv3 r a m in 0 <= u < Z.abs m /\ (a * u) mod Z.abs m = 1 mod Z.abs m) /\
  (forall a m, m <> 0 -> Z.gcd a m = 1 -> let u := invin a m in 0 <= u < Z.abs m /\ (a * u) mod Z.abs m = 1 mod Z.abs m) /\
  (* inverse in Z: defined exactly on the units, where it is the element itself *)
  (forall r a, dom_inv_unit r a = if Z.abs a =? 1 then Some a else None) /\
  (forall a, dom_invin_unit a = if Z.abs a =? 1 then Some a else None) /\
  (forall a, Z.abs a = 1 -> a * a = 1).
Lemma inv_exact : Inv_exact.
Proof.
  unfold Inv_exact; repeat apply conj; intros.
  - unfold inv3. destruct (mpz_invert r a m) as [fl w] eqn:E. eapply invert_spec in E; try eassumption. cbn [snd]. tauto.
  - unfold invin, inv3. destruct (mpz_invert a a m) as [fl w] eqn:E. eapply invert_spec in E; try eassumption. cbn [snd]. tauto.
  - c01_unfold_nowrap. unfold dom_isUnit, isOne, isMOne, mpz_cmp_ui, mpz_cmp_si. split_ifs; cbn [orb]; try reflexivity; lia.
  - c01_unfold_nowrap. unfold dom_isUnit, isOne, isMOne, mpz_cmp_ui, mpz_cmp_si. split_ifs; cbn [orb]; try reflexivity; lia.
  - nia.
Qed.

(* ---------------------------------------------------------------- roots *)
Lemma iroot_loop_spec n a : 0 <= a -> 1 <= n -> forall i q, 0 <= q -> q ^ n <= a < (q + 2 ^ Z.of_nat i) ^ n ->
  let r := iroot_loop i a n q in 0 <= r /\ r ^ n <= a < (r + 1) ^ n.
Proof.
  intros Ha Hn. induction i as [| i IH]; intros q Hq Hinv.
  - cbn [iroot_loop]. change (2 ^ Z.of_nat 0) with 1 in Hinv. split; [exact Hq | exact Hinv].
  - cbn [iroot_loop]. rewrite Nat2Z.inj_succ, Z.pow_succ_r in Hinv by lia.
    assert (0 < 2 ^ Z.of_nat i) by (apply Z.pow_pos_nonneg; lia).
    destruct (Z.leb_spec ((q + 2 ^ Z.of_nat i) ^ n) a).
    + apply IH; [lia |]. split; [assumption |]. replace (q + 2 ^ Z.of_nat i + 2 ^ Z.of_nat i) with (q + 2 * 2 ^ Z.of_nat i) by lia. tauto.
    + apply IH; [lia |]. split; [tauto | assumption].
Qed.
Lemma iroot_spec a n : 0 <= a -> 1 <= n -> let r := iroot a n in 0 <= r /\ r ^ n <= a < (r + 1) ^ n.
Proof.
  intros Ha Hn. unfold iroot. apply iroot_loop_spec; try lia. split; [rewrite Z.pow_0_l by lia; lia |].
  rewrite Z.add_0_l. pose proof (Z.log2_nonneg a). assert (0 <= Z.log2 a / n) by (apply Z.div_pos; lia).
  rewrite Z2Nat.id by lia. rewrite <- Z.pow_mul_r by lia.
  destruct (Z.eq_dec a 0) as [-> | Hn0]; [apply Z.pow_pos_nonneg; nia |].
  pose proof (Z.log2_spec a ltac:(lia)) as [_ Hl]. eapply Z.lt_le_trans; [exact Hl |].
  apply Z.pow_le_mono_r; [lia |]. pose proof (Z.div_mod (Z.log2 a) n ltac:(lia)). pose proof (Z.mod_pos_bound (Z.log2 a) n ltac:(lia)). nia.
Qed.
Definition Roots_exact : Prop :=
  (forall a, 0 <= a -> let s := sqrt2 a in s * s <= a < (s + 1) * (s + 1)) /\
  (forall a, 0 <= a -> let s := sqrt_v a in s * s <= a < (s + 1) * (s + 1)) /\
  (forall a s r, 0 <= a -> sqrtrem3 a = (s, r) -> a = s * s + r /\ 0 <= r <= 2 * s) /\
  (forall a s r, 0 <= a -> sqrtrem_v a = (s, r) -> a = s * s + r /\ 0 <= r <= 2 * s) /\
  (* n-th root of a >= 0: the truncated root, and the flag says whether it is exact *)
  (forall a n q ex, 0 <= a -> in_u32 n -> 1 <= n -> root a n = (q, ex) -> 0 <= q /\ q ^ n <= a < (q + 1) ^ n /\ (ex = true <-> q ^ n = a)) /\
  (* a < 0 (n odd): the mirror image of the root of |a| *)
  (forall a n, fst (root a n) = Z.sgn a * iroot (Z.abs a) n).
Lemma roots_exact : Roots_exact.
Proof.
  unfold Roots_exact; repeat apply conj; intros.
  - unfold sqrt2, mpz_sqrt. pose proof (Z.sqrt_spec a H). unfold Z.succ in *. lia.
  - unfold sqrt_v, sqrt2, mpz_sqrt. pose proof (Z.sqrt_spec a H). unfold Z.succ in *. lia.
  - unfold sqrtrem3, mpz_sqrtrem in H0. pose proof (Z.sqrtrem_spec a H). rewrite H0 in H1. exact H1.
  - unfold sqrtrem_v, sqrtrem3, mpz_sqrtrem in H0. pose proof (Z.sqrtrem_spec a H). rewrite H0 in H1. exact H1.
  - unfold root, mpz_root, u32_to_u64 in H2. inversion H2; subst; clear H2.
    destruct (Z.eq_dec a 0) as [-> | Ha0].
    + cbn [Z.sgn Z.abs]. rewrite Z.mul_0_l. rewrite Z.pow_0_l by lia. repeat split; try lia;
      try (rewrite Z.add_0_l, Z.pow_1_l by lia; lia); intros _; reflexivity.
    + rewrite (Z.sgn_pos a) by lia. rewrite (Z.abs_eq a) by lia. rewrite Z.mul_1_l.
      pose proof (iroot_spec a n H H1) as [Hq Hr]. repeat split; try tauto; intros E; apply Z.eqb_eq; exact E.
  - reflexivity.
Qed.
