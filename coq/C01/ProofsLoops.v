(* C01 proofs: the operations that are loops of givaro's own rather than one GMP call:
   logp (integer logarithm by repeated squaring), pp (the part of P prime to Q), Integer(vect_t) / operator vect_t (limbs). *)
From Coq Require Import ZArith Bool Lia List Znumtheory Zpow_facts.
From C01 Require Import Model Model2 Model3 ProofsBase ProofsAdd ProofsMul ProofsCmp ProofsBits ProofsGcd.
Import ListNotations.
Local Open Scope Z_scope.
Ltac Zify.zify_post_hook ::= Z.div_mod_to_equations.

Lemma opLe_I_ok x l : opLe_I x l = (x <=? l).
Proof. destruct ople_exact as [H _]. apply H. Qed.
Lemma opNe_I_ok x l : opNe_I x l = negb (x =? l).
Proof. destruct opne_exact as [H _]. apply H. Qed.
Lemma gcd_v_ok a b : gcd_v a b = Z.gcd a b.
Proof. destruct gcd_exact as [H _]. apply H. Qed.

(* ================================================================ logp *)
Section Logp.
Variables a p : Z.
Hypothesis Hp : 2 <= p.

(* the saved powers: head = p^(2^(n-1)), ..., last = p^(2^0) *)
Inductive plist : list Z -> Prop :=
| pnil : plist []
| pcons l : plist l -> plist (p ^ (2 ^ Z.of_nat (List.length l)) :: l).

Lemma pow2_pos n : 0 < 2 ^ Z.of_nat n. Proof. apply Z.pow_pos_nonneg; lia. Qed.

Lemma down_spec l : plist l -> forall puiss res, 0 <= res -> puiss = p ^ res ->
  p ^ res <= a < p ^ (res + 2 ^ Z.of_nat (List.length l)) ->
  let r := logp_down a puiss l res in 0 <= r /\ p ^ r <= a < p ^ (r + 1).
Proof.
  induction 1 as [| l Hl IH]; intros puiss res Hres Hpu Hb; cbn [logp_down].
  - cbn [List.length] in Hb. change (2 ^ Z.of_nat 0) with 1 in Hb. split; [exact Hres | exact Hb].
  - cbn [List.length] in Hb. rewrite Nat2Z.inj_succ, Z.pow_succ_r in Hb by lia.
    pose proof (pow2_pos (List.length l)) as H2. cbv zeta. rewrite opMul_I_ok, opLe_I_ok. subst puiss.
    rewrite <- Z.pow_add_r by lia.
    destruct (Z.leb_spec (p ^ (res + 2 ^ Z.of_nat (List.length l))) a).
    + apply IH; [lia | reflexivity |]. split; [assumption |].
      replace (res + 2 ^ Z.of_nat (List.length l) + 2 ^ Z.of_nat (List.length l)) with (res + 2 * 2 ^ Z.of_nat (List.length l)) by lia. tauto.
    + apply IH; [lia | reflexivity |]. split; [tauto | assumption].
Qed.

Lemma pow_base_le k : 0 <= k -> 2 ^ k <= p ^ k.
Proof. intros. apply Z.pow_le_mono_l. lia. Qed.

Lemma up_spec f : forall pows puiss, plist pows -> puiss = p ^ (2 ^ Z.of_nat (List.length pows)) -> puiss <= a ->
  a < 2 ^ (2 ^ (Z.of_nat (List.length pows) + Z.of_nat f + 1)) ->
  exists q rest, logp_up f a puiss pows = q :: rest /\ plist (q :: rest) /\ q <= a < q * q.
Proof.
  induction f as [| f IH]; intros pows puiss Hl Hpu Hle Hb; cbn [logp_up]; cbv zeta.
  - exists puiss, pows. split; [reflexivity |]. split; [subst puiss; constructor; exact Hl |]. split; [exact Hle |].
    pose proof (pow2_pos (List.length pows)). subst puiss. rewrite <- Z.pow_add_r by lia.
    replace (2 ^ Z.of_nat (List.length pows) + 2 ^ Z.of_nat (List.length pows)) with (2 ^ (Z.of_nat (List.length pows) + 1)) by (rewrite Z.pow_add_r by lia; lia).
    eapply Z.lt_le_trans; [| apply pow_base_le; apply Z.pow_nonneg; lia].
    replace (Z.of_nat (List.length pows) + Z.of_nat 0 + 1) with (Z.of_nat (List.length pows) + 1) in Hb by lia. exact Hb.
  - rewrite opMulEq_I_ok, opLe_I_ok. destruct (Z.leb_spec (puiss * puiss) a).
    + apply IH.
      * subst puiss. constructor. exact Hl.
      * cbn [List.length]. rewrite Nat2Z.inj_succ, Z.pow_succ_r by lia. subst puiss. pose proof (pow2_pos (List.length pows)).
        rewrite <- Z.pow_add_r by lia. f_equal. lia.
      * assumption.
      * cbn [List.length]. rewrite Nat2Z.inj_succ in *. replace (Z.succ (Z.of_nat (List.length pows)) + Z.of_nat f + 1) with (Z.of_nat (List.length pows) + Z.succ (Z.of_nat f) + 1) by lia. exact Hb.
    + exists puiss, pows. split; [reflexivity |]. split; [subst puiss; constructor; exact Hl |]. lia.
Qed.

Lemma opLt_I_ok x l : opLt_I x l = (x <? l).
Proof. destruct oplt_exact as [H _]. apply H. Qed.
(* for 2 <= p and 1 <= a: logp a p is the integer logarithm, p^r <= a < p^(r+1) (r = 0 for a < p) *)
Lemma logp_spec : 1 <= a -> let r := logp a p in 0 <= r /\ p ^ r <= a < p ^ (r + 1).
Proof.
  intros Ha1. unfold logp, ctor_copy. rewrite opLt_I_ok. destruct (Z.ltb_spec a p) as [Hlt | Hpa].
  { cbv zeta. rewrite Z.pow_0_r. replace (0 + 1) with 1 by lia. rewrite Z.pow_1_r. lia. }
  assert (Hf : a < 2 ^ (2 ^ (Z.of_nat (@List.length Z []) + Z.of_nat (Z.to_nat (Z.log2 a)) + 1))).
  { cbn [List.length]. pose proof (Z.log2_nonneg a). rewrite Z2Nat.id by lia. change (Z.of_nat 0) with 0. rewrite Z.add_0_l.
    pose proof (Z.log2_spec a ltac:(lia)) as [_ Hl]. eapply Z.lt_le_trans; [exact Hl |].
    apply Z.pow_le_mono_r; [lia |]. pose proof (Z.pow_gt_lin_r 2 (Z.log2 a + 1) ltac:(lia) ltac:(lia)). lia. }
  destruct (up_spec (Z.to_nat (Z.log2 a)) [] p pnil) as (q & rest & E & Hpl & Hq).
  - cbn [List.length]. change (2 ^ Z.of_nat 0) with 1. rewrite Z.pow_1_r. reflexivity.
  - exact Hpa.
  - exact Hf.
  - rewrite E. inversion Hpl as [| l Hl Eq]; subst.
    pose proof (pow2_pos (List.length rest)). apply (down_spec rest Hl); [lia | reflexivity |].
    split; [tauto |]. rewrite Z.pow_add_r by lia. tauto.
Qed.

(* the loop-faithful model returns exactly where the total companion does: the fuel is never used up for 2 <= p *)
Lemma up_o f : forall pows puiss, plist pows -> puiss = p ^ (2 ^ Z.of_nat (List.length pows)) -> puiss <= a ->
  a < 2 ^ (2 ^ (Z.of_nat (List.length pows) + Z.of_nat f + 1)) ->
  logp_up_o f a puiss pows = Some (logp_up f a puiss pows).
Proof.
  induction f as [| f IH]; intros pows puiss Hl Hpu Hle Hb.
  - destruct (up_spec 0 pows puiss Hl Hpu Hle Hb) as (q & rest & E & _ & Hq). cbn [logp_up] in E. inversion E; subst q rest.
    cbn [logp_up_o logp_up]; cbv zeta. rewrite opMulEq_I_ok, opLe_I_ok. destruct (Z.leb_spec (puiss * puiss) a); [lia | reflexivity].
  - cbn [logp_up_o logp_up]; cbv zeta. rewrite opMulEq_I_ok, opLe_I_ok. destruct (Z.leb_spec (puiss * puiss) a); [| reflexivity].
    apply IH.
    + subst puiss. constructor. exact Hl.
    + cbn [List.length]. rewrite Nat2Z.inj_succ, Z.pow_succ_r by lia. subst puiss. pose proof (pow2_pos (List.length pows)).
      rewrite <- Z.pow_add_r by lia. f_equal. lia.
    + assumption.
    + cbn [List.length]. rewrite Nat2Z.inj_succ in *. replace (Z.succ (Z.of_nat (List.length pows)) + Z.of_nat f + 1) with (Z.of_nat (List.length pows) + Z.succ (Z.of_nat f) + 1) by lia. exact Hb.
Qed.
Lemma logp_o_ret : 1 <= a -> logp_o a p = Ret (logp a p).
Proof.
  intros Ha1. unfold logp_o, logp, ctor_copy. rewrite opLt_I_ok. destruct (Z.ltb_spec a p) as [Hlt | Hpa]; [reflexivity |].
  rewrite (up_o (Z.to_nat (Z.log2 a)) [] p pnil).
  - destruct (logp_up (Z.to_nat (Z.log2 a)) a p []); reflexivity.
  - cbn [List.length]. change (2 ^ Z.of_nat 0) with 1. rewrite Z.pow_1_r. reflexivity.
  - exact Hpa.
  - cbn [List.length]. pose proof (Z.log2_nonneg a). rewrite Z2Nat.id by lia. change (Z.of_nat 0) with 0. rewrite Z.add_0_l.
    pose proof (Z.log2_spec a ltac:(lia)) as [_ Hl]. eapply Z.lt_le_trans; [exact Hl |].
    apply Z.pow_le_mono_r; [lia |]. pose proof (Z.pow_gt_lin_r 2 (Z.log2 a + 1) ltac:(lia) ltac:(lia)). lia.
Qed.
End Logp.

(* ================================================================ pp *)
Lemma pp_loop_spec P Q : forall f U V, U <> 0 -> (U | P) -> (V | U) -> 0 <= V ->
  (forall d, (d | U) -> (d | Q) -> (d | V)) -> Z.abs U < 2 ^ Z.of_nat f ->
  let r := pp_loop f U V in (r | P) /\ Z.gcd r Q = 1.
Proof.
  induction f as [| f IH]; intros U V HU HUP HVU HV Hd Hb.
  - change (2 ^ Z.of_nat 0) with 1 in Hb. lia.
  - cbn [pp_loop]. rewrite opNe_I_ok. unfold Integer_one. destruct (Z.eqb_spec V 1) as [-> | HV1]; cbn [negb].
    + split; [exact HUP |]. pose proof (Z.gcd_nonneg U Q).
      assert (Hg : (Z.gcd U Q | 1)) by (apply Hd; [apply Z.gcd_divide_l | apply Z.gcd_divide_r]).
      apply Z.divide_1_r_nonneg in Hg; lia.
    + cbv zeta. rewrite gcd_v_ok. destruct HVU as [k Hk].
      assert (V <> 0) by (intros ->; lia). assert (2 <= V) by lia.
      assert (Eq : Z.quot U V = k) by (subst U; apply Z.quot_mul; assumption). rewrite Eq.
      assert (k <> 0) by (intros ->; lia).
      apply IH.
      * assumption.
      * eapply Z.divide_trans; [| exact HUP]. exists V. lia.
      * apply Z.gcd_divide_l.
      * apply Z.gcd_nonneg.
      * intros d Hd1 Hd2. apply Z.gcd_greatest; [exact Hd1 |]. apply Hd; [| exact Hd2].
        eapply Z.divide_trans; [exact Hd1 |]. exists V. lia.
      * rewrite Nat2Z.inj_succ, Z.pow_succ_r in Hb by lia. subst U. rewrite Z.abs_mul in Hb. nia.
Qed.
(* pp(P,Q) for P <> 0: a divisor of P that is coprime to Q (the loop terminates within the fuel: every step at least halves |U|) *)
Lemma pp_spec P Q : P <> 0 -> let r := pp P Q in (r | P) /\ Z.gcd r Q = 1.
Proof.
  intros HP. unfold pp, ctor_copy. rewrite gcd_v_ok. apply pp_loop_spec.
  - exact HP.
  - apply Z.divide_refl.
  - apply Z.gcd_divide_l.
  - apply Z.gcd_nonneg.
  - intros d H1 H2. apply Z.gcd_greatest; assumption.
  - rewrite Nat2Z.inj_succ, Z2Nat.id by apply Z.log2_nonneg. apply Z.log2_spec. lia.
Qed.

(* ================================================================ limbs *)
Fixpoint eval_limbs (base : Z) (l : list Z) : Z := match l with [] => 0 | v :: r => v + base * eval_limbs base r end.

Lemma ctor_vect_loop_spec base : forall vs this prod, ctor_vect_loop vs this prod base = this + prod * eval_limbs base vs.
Proof.
  induction vs as [| v r IH]; intros this prod; cbn [ctor_vect_loop eval_limbs].
  - lia.
  - cbv zeta. rewrite IH, opPlusEq_I_ok, opMulEq_I_ok. unfold mpz_mul_ui. lia.
Qed.
(* Integer(vect_t): the value whose base-2^64 digits are the vector (least significant first) *)
Lemma ctor_vect_spec l : ctor_vect l = eval_limbs (2 ^ 64) l.
Proof.
  destruct l as [| v0 r]; [reflexivity |]. unfold ctor_vect. cbv zeta. rewrite ctor_vect_loop_spec.
  unfold mpz_set_ui. cbn [eval_limbs]. change (256 ^ 8) with (2 ^ 64). reflexivity.
Qed.
Lemma limbs_from_spec x : forall n i, 0 <= i ->
  eval_limbs (2 ^ 64) (limbs_from n x i) = (Z.abs x / 2 ^ (64 * i)) mod 2 ^ (64 * Z.of_nat n).
Proof.
  induction n as [| n IH]; intros i Hi; cbn [limbs_from eval_limbs].
  - change (2 ^ (64 * Z.of_nat 0)) with 1. rewrite Z.mod_1_r. reflexivity.
  - rewrite IH by lia. unfold mpz_getlimbn, W64. change 18446744073709551616 with (2 ^ 64).
    rewrite Nat2Z.inj_succ. replace (64 * Z.succ (Z.of_nat n)) with (64 + 64 * Z.of_nat n) by lia.
    rewrite (Z.pow_add_r 2 64) by lia. rewrite Z.rem_mul_r; [| lia | apply Z.pow_pos_nonneg; lia].
    f_equal. f_equal. f_equal. replace (64 * (i + 1)) with (64 * i + 64) by lia.
    rewrite Z.pow_add_r by lia. rewrite Z.div_div; [reflexivity | | ]; [assert (0 < 2 ^ (64 * i)) by (apply Z.pow_pos_nonneg; lia); lia | lia].
Qed.
(* operator vect_t followed by Integer(vect_t) gives |x|; every limb is a 64-bit word *)
Lemma vect_roundtrip x : ctor_vect (cast_vect x) = Z.abs x.
Proof.
  rewrite ctor_vect_spec. unfold cast_vect. rewrite limbs_from_spec by lia. change (2 ^ (64 * 0)) with 1. rewrite Z.div_1_r.
  apply Z.mod_small. split; [lia |]. unfold mpz_size. destruct (Z.eqb_spec x 0) as [-> | Hx].
  - cbn. lia.
  - pose proof (Z.log2_nonneg (Z.abs x)). assert (0 <= Z.log2 (Z.abs x) / 64) by (apply Z.div_pos; lia).
    rewrite Z2Nat.id by lia. pose proof (Z.log2_spec (Z.abs x) ltac:(lia)) as [_ Hl].
    eapply Z.lt_le_trans; [exact Hl |]. apply Z.pow_le_mono_r; lia.
Qed.

Definition Loops_exact : Prop :=
  (forall a p, 2 <= p -> 1 <= a -> let r := logp a p in 0 <= r /\ p ^ r <= a < p ^ (r + 1)) /\
  (forall a p, a < p -> logp a p = 0) /\
  (forall l, ctor_vect l = eval_limbs (2 ^ 64) l) /\
  (forall x, ctor_vect (cast_vect x) = Z.abs x).
Lemma loops_exact : Loops_exact.
Proof.
  unfold Loops_exact; repeat apply conj; intros.
  - apply logp_spec; assumption.
  - unfold logp. rewrite opLt_I_ok. destruct (Z.ltb_spec a p); [reflexivity | lia].
  - apply ctor_vect_spec.
  - apply vect_roundtrip.
Qed.
(* pp, second half: the cofactor P / U only collects factors of Q (P divides U * Q^k), hence every divisor of P coprime to Q
   divides pp(P,Q) (Gauss): pp(P,Q) is the LARGEST divisor of P coprime to Q *)
Lemma pp_loop_cofactor P Q : forall f U V k, 0 <= k -> (P | U * Q ^ k) -> (V | U) -> (V | Q) ->
  exists k', 0 <= k' /\ (P | pp_loop f U V * Q ^ k').
Proof.
  induction f as [| f IH]; intros U V k Hk HP HVU HVQ.
  - cbn [pp_loop]. exists k. split; assumption.
  - cbn [pp_loop]. rewrite opNe_I_ok. unfold Integer_one. destruct (Z.eqb_spec V 1) as [-> | HV1]; cbn [negb].
    + exists k. split; assumption.
    + cbv zeta. rewrite gcd_v_ok.
      destruct (Z.eq_dec V 0) as [-> | HV0].
      * destruct HVU as [c Hc]. rewrite Z.mul_0_r in Hc. subst U.
        change (Z.quot 0 0) with 0. apply (IH 0 (Z.gcd 0 0) k); [assumption | assumption | apply Z.gcd_divide_l |].
        eapply Z.divide_trans; [apply Z.gcd_divide_r | exact HVQ].
      * destruct HVU as [c Hc].
        assert (Eq : Z.quot U V = c) by (subst U; apply Z.quot_mul; assumption). rewrite Eq.
        apply (IH c (Z.gcd c V) (k + 1)).
        -- lia.
        -- rewrite Z.pow_add_r, Z.pow_1_r by lia. destruct HVQ as [q Hq]. destruct HP as [p Hp].
           exists (q * p). subst U.
           set (t := Q ^ k) in *. clearbody t. rewrite Hq.
           transitivity (q * (c * V * t)); [ring | rewrite Hp; ring].
        -- apply Z.gcd_divide_l.
        -- eapply Z.divide_trans; [apply Z.gcd_divide_r | exact HVQ].
Qed.
Lemma pp_cofactor P Q : exists k, 0 <= k /\ (P | pp P Q * Q ^ k).
Proof.
  unfold pp, ctor_copy. rewrite gcd_v_ok. apply (pp_loop_cofactor P Q _ P (Z.gcd P Q) 0).
  - lia.
  - rewrite Z.pow_0_r, Z.mul_1_r. apply Z.divide_refl.
  - apply Z.gcd_divide_l.
  - apply Z.gcd_divide_r.
Qed.
Lemma pp_greatest P Q d : (d | P) -> Z.gcd d Q = 1 -> (d | pp P Q).
Proof.
  intros HdP Hg. destruct (pp_cofactor P Q) as [k [Hk HP]].
  assert (Hd : (d | pp P Q * Q ^ k)) by (eapply Z.divide_trans; eassumption).
  rewrite Z.mul_comm in Hd. apply Gauss with (b := Q ^ k); [exact Hd |].
  apply rel_prime_Zpower_r; [exact Hk |]. apply Zgcd_1_rel_prime. exact Hg.
Qed.

(* pp(P,Q), P <> 0: a divisor of P, coprime to Q, divisible by every divisor of P that is coprime to Q (so it is the largest one up to
   sign), and P / pp(P,Q) divides a power of Q.  Termination within the fuel is part of the statement (pp is the fuelled loop). *)
Definition Pp_exact : Prop := forall P Q, P <> 0 ->
  let r := pp P Q in
  (r | P) /\ Z.gcd r Q = 1 /\ (forall d, (d | P) -> Z.gcd d Q = 1 -> (d | r)) /\ (exists k, 0 <= k /\ (P | r * Q ^ k)).
Lemma pp_exact : Pp_exact.
Proof.
  unfold Pp_exact; intros P Q HP. cbv zeta. destruct (pp_spec P Q HP) as [H1 H2].
  repeat split; try assumption.
  - intros d; apply pp_greatest.
  - apply pp_cofactor.
Qed.

(* ================================================================ the loops as they are: where they return, where they do not *)
(* a base whose square is itself (0, 1; -1 after one squaring) never leaves the do-while loop of logp, whatever the fuel *)
Lemma logp_up_o_stuck f : forall a puiss pows, puiss * puiss = puiss -> puiss <= a -> logp_up_o f a puiss pows = None.
Proof.
  induction f as [| f IH]; intros a puiss pows Hsq Hle; cbn [logp_up_o]; cbv zeta; rewrite opMulEq_I_ok, opLe_I_ok, Hsq;
    destruct (Z.leb_spec puiss a); try lia; [reflexivity |].
  apply IH; assumption.
Qed.
Lemma logp_no_return a p : ((p = 0 \/ p = 1) /\ p <= a) \/ (p = -1 /\ 1 <= a) -> forall f, logp_up_o f a (ctor_copy p) nil = None.
Proof.
  intros H f. unfold ctor_copy. destruct H as [[Hp Ha] | [-> Ha]].
  - apply logp_up_o_stuck; [destruct Hp; subst; reflexivity | exact Ha].
  - destruct f as [| f]; cbn [logp_up_o]; cbv zeta; rewrite opMulEq_I_ok, opLe_I_ok; change (-1 * -1) with 1;
      destruct (Z.leb_spec 1 a); try lia; [reflexivity |].
    apply logp_up_o_stuck; [reflexivity | exact Ha].
Qed.
Lemma logp_o_no_return a p : ((p = 0 \/ p = 1) /\ p <= a) \/ (p = -1 /\ 1 <= a) -> logp_o a p = NoReturn.
Proof.
  intros H. unfold logp_o. rewrite opLt_I_ok. destruct (Z.ltb_spec a p) as [Hlt | _]; [lia |].
  rewrite (logp_no_return a p H). reflexivity.
Qed.

Lemma pp_loop_o_ret : forall f U V, U <> 0 -> (V | U) -> 0 <= V -> Z.abs U < 2 ^ Z.of_nat f ->
  pp_loop_o (S f) U V = Ret (pp_loop f U V).
Proof.
  induction f as [| f IH]; intros U V HU HVU HV Hb.
  - change (2 ^ Z.of_nat 0) with 1 in Hb. lia.
  - change (pp_loop_o (S (S f)) U V) with
      (if opNe_I V Integer_one then let U1 := Z.quot U V in pp_loop_o (S f) U1 (gcd_v U1 V) else Ret U).
    cbn [pp_loop]. rewrite opNe_I_ok. unfold Integer_one. destruct (Z.eqb_spec V 1) as [-> | HV1]; cbn [negb]; [reflexivity |].
    cbv zeta. rewrite !gcd_v_ok. destruct HVU as [k Hk].
    assert (V <> 0) by (intros ->; lia). assert (2 <= V) by lia.
    assert (Eq : Z.quot U V = k) by (subst U; apply Z.quot_mul; assumption). rewrite Eq.
    assert (k <> 0) by (intros ->; lia).
    apply IH; [assumption | apply Z.gcd_divide_l | apply Z.gcd_nonneg |].
    rewrite Nat2Z.inj_succ, Z.pow_succ_r in Hb by lia. subst U. rewrite Z.abs_mul in Hb. nia.
Qed.
Lemma pp_o_ret P Q : P <> 0 -> pp_o P Q = Ret (pp P Q).
Proof.
  intros HP. unfold pp_o, pp, pp_fuel, ctor_copy. rewrite gcd_v_ok. apply pp_loop_o_ret.
  - exact HP.
  - apply Z.gcd_divide_l.
  - apply Z.gcd_nonneg.
  - rewrite Nat2Z.inj_succ, Z2Nat.id by apply Z.log2_nonneg. apply Z.log2_spec. lia.
Qed.
(* U = 0 with V <> 1 is a fixed point of the loop of pp: no fuel is enough *)
Lemma pp_loop_o_stuck f : forall V, 2 <= V -> pp_loop_o f 0 V = NoReturn.
Proof.
  induction f as [| f IH]; intros V HV; [reflexivity |].
  cbn [pp_loop_o]. rewrite opNe_I_ok. unfold Integer_one. destruct (Z.eqb_spec V 1); [lia |]. cbn [negb]. cbv zeta.
  rewrite Z.quot_0_l by lia. rewrite gcd_v_ok. rewrite Z.gcd_0_l, Z.abs_eq by lia. apply IH. exact HV.
Qed.
Lemma pp_zero_no_return Q : 2 <= Z.abs Q -> forall f, pp_loop_o f (ctor_copy 0) (gcd_v 0 Q) = NoReturn.
Proof. intros HQ f. unfold ctor_copy. rewrite gcd_v_ok, Z.gcd_0_l. apply pp_loop_o_stuck. exact HQ. Qed.

Lemma pp_fixed_nonzero P Q : P <> 0 -> pp_fixed_o P Q = pp_o P Q.
Proof.
  intros HP. unfold pp_fixed_o, pp_o, ctor_copy, isZero_I, mpz_cmp_ui. cbv zeta.
  destruct (Z.eqb_spec (Z.sgn (P - 0)) 0) as [E | _]; [| reflexivity]. destruct P; cbn in E; try discriminate; contradiction.
Qed.
(* pp before the repair: returns for P <> 0, with the value characterised by Pp_exact; does not return for P = 0, |Q| >= 2
   (whatever the fuel: the finding C01 `pp ... does not return`); the body repaired by frag/C01.fix-5.diff returns 0 there and is
   the same function elsewhere *)
Definition Pp_returns : Prop :=
  (forall P Q, P <> 0 -> exists r, pp_o P Q = Ret r /\ r = pp P Q) /\
  (forall Q, 2 <= Z.abs Q -> forall f, pp_loop_o f (ctor_copy 0) (gcd_v 0 Q) = NoReturn) /\
  (forall Q, pp_fixed_o 0 Q = Ret 0) /\ (forall P Q, P <> 0 -> pp_fixed_o P Q = pp_o P Q) /\
  (* the body in the tree returns for EVERY P, Q *)
  (forall P Q, exists r, pp_fixed_o P Q = Ret r /\ (P <> 0 -> r = pp P Q) /\ (P = 0 -> r = 0)).
Lemma pp_returns : Pp_returns.
Proof.
  unfold Pp_returns; repeat apply conj.
  - intros P Q HP. exists (pp P Q). split; [apply pp_o_ret; exact HP | reflexivity].
  - exact pp_zero_no_return.
  - reflexivity.
  - exact pp_fixed_nonzero.
  - intros P Q. destruct (Z.eq_dec P 0) as [-> | HP].
    + exists 0. split; [reflexivity |]. split; [intros H; contradiction | reflexivity].
    + exists (pp P Q). rewrite pp_fixed_nonzero, pp_o_ret by exact HP. split; [reflexivity |]. split; [reflexivity | intros; contradiction].
Qed.
(* logp as it is in the source: for 2 <= p and 1 <= a it returns the integer logarithm; for a < p it returns 0; for p in {0, 1} (p <= a)
   and p = -1 (1 <= a) it does not return, whatever the fuel (the finding C01 `logp ... does not return`); the body repaired by
   frag/C01.fix-6.diff throws for every p < 2 and is the same function for p >= 2 *)
Definition Logp_returns : Prop :=
  (forall a p, 2 <= p -> 1 <= a -> exists r, logp_o a p = Ret r /\ 0 <= r /\ p ^ r <= a < p ^ (r + 1)) /\
  (forall a p, a < p -> logp_o a p = Ret 0) /\
  (forall a p, ((p = 0 \/ p = 1) /\ p <= a) \/ (p = -1 /\ 1 <= a) -> forall f, logp_up_o f a (ctor_copy p) nil = None) /\
  (forall a p, p < 2 -> logp_fixed_o a p = Throws) /\ (forall a p, 2 <= p -> logp_fixed_o a p = logp_o a p) /\
  (* the body in the tree returns or throws for EVERY a, p *)
  (forall a p, 2 <= p -> exists r, logp_fixed_o a p = Ret r /\ 0 <= r /\ (1 <= a -> p ^ r <= a < p ^ (r + 1)) /\ (a < p -> r = 0)).
Lemma logp_returns : Logp_returns.
Proof.
  unfold Logp_returns; repeat apply conj.
  - intros a p Hp Ha. exists (logp a p). split; [apply logp_o_ret; assumption | apply logp_spec; assumption].
  - intros a p H. unfold logp_o. rewrite opLt_I_ok. destruct (Z.ltb_spec a p); [reflexivity | lia].
  - exact logp_no_return.
  - intros a p H. unfold logp_fixed_o. destruct oplt_exact as (_ & Hi & _). rewrite Hi by (unfold in_i32, H32; lia).
    destruct (Z.ltb_spec p 2); [reflexivity | lia].
  - intros a p H. unfold logp_fixed_o. destruct oplt_exact as (_ & Hi & _). rewrite Hi by (unfold in_i32, H32; lia).
    destruct (Z.ltb_spec p 2); [lia | reflexivity].
  - intros a p Hp. assert (Efix : logp_fixed_o a p = logp_o a p).
    { unfold logp_fixed_o. destruct oplt_exact as (_ & Hi & _). rewrite Hi by (unfold in_i32, H32; lia). destruct (Z.ltb_spec p 2); [lia | reflexivity]. }
    rewrite Efix. destruct (Z_lt_le_dec a p) as [Hlt | Hge].
    + exists 0. unfold logp_o. rewrite opLt_I_ok. destruct (Z.ltb_spec a p); [| lia].
      split; [reflexivity |]. split; [lia |]. split; [intros Ha; rewrite Z.pow_0_r, Z.pow_1_r; lia | reflexivity].
    + exists (logp a p). rewrite (logp_o_ret a p Hp) by lia. pose proof (logp_spec a p Hp ltac:(lia)) as Hs. cbv zeta in Hs.
      split; [reflexivity |]. split; [tauto |]. split; [intros; tauto | intros; lia].
Qed.
