(* C01 proofs (phase 3): the single-GMP-call operations that were oracle-only before (fact, swap, size_in_base, isperfectpower)
   and the multi-step sequences on one object driven by the harness. *)
From Coq Require Import ZArith Lia List Bool.
From C01 Require Import Model Model2 Model3 ProofsBase ProofsAdd ProofsSub ProofsMul ProofsGcd.
Local Open Scope Z_scope.
Ltac Zify.zify_post_hook ::= Z.div_mod_to_equations.

(* ---------------------------------------------------------------- fact *)
Lemma fact_succ l : 0 <= l -> fact (l + 1) = (l + 1) * fact l.
Proof.
  intros Hl. unfold fact, mpz_fac_ui. replace (l + 1) with (Z.succ l) by lia. rewrite Z2Nat.inj_succ by lia.
  cbn [fac_nat]. rewrite Nat2Z.inj_succ, Z2Nat.id by lia. reflexivity.
Qed.
Lemma fac_nat_pos n : 0 < fac_nat n.
Proof. induction n as [| n IH]; [reflexivity |]. cbn [fac_nat]. apply Z.mul_pos_pos; [lia | exact IH]. Qed.
Lemma fac_nat_div n : forall k, 1 <= k <= Z.of_nat n -> (k | fac_nat n).
Proof.
  induction n as [| n IH]; intros k Hk; [lia |]. cbn [fac_nat].
  destruct (Z.eq_dec k (Z.of_nat (S n))) as [-> | Hne].
  - apply Z.divide_factor_l.
  - apply Z.divide_mul_r. apply IH. lia.
Qed.

(* ---------------------------------------------------------------- size_in_base, base = 2^k *)
Lemma size_in_base_spec x k : x <> 0 -> 1 <= k ->
  let s := size_in_base x (2 ^ k) in (2 ^ k) ^ (s - 1) <= Z.abs x < (2 ^ k) ^ s.
Proof.
  intros Hx Hk. unfold size_in_base, mpz_sizeinbase, i32_to_i64. destruct (Z.eqb_spec x 0); [contradiction |]. cbv zeta.
  rewrite Z.log2_pow2 by lia.
  set (L := Z.log2 (Z.abs x)). pose proof (Z.log2_nonneg (Z.abs x)) as HL0. fold L in HL0.
  destruct (Z.log2_spec (Z.abs x) ltac:(lia)) as [Hlo Hhi]. fold L in Hlo, Hhi.
  assert (Hq : 0 <= L / k) by (apply Z.div_pos; lia).
  replace (L / k + 1 - 1) with (L / k) by lia.
  rewrite <- !Z.pow_mul_r by lia. split.
  - eapply Z.le_trans; [| exact Hlo]. apply Z.pow_le_mono_r; [lia |]. nia.
  - eapply Z.lt_le_trans; [exact Hhi |]. apply Z.pow_le_mono_r; [lia |]. nia.
Qed.

(* ---------------------------------------------------------------- isperfectpower *)
Lemma iroot_exact a e : 0 <= a -> 1 <= e -> iroot (a ^ e) e = a.
Proof.
  intros Ha He. assert (Hp : 0 <= a ^ e) by (apply Z.pow_nonneg; exact Ha).
  destruct (iroot_spec (a ^ e) e Hp He) as [H0 [Hlo Hhi]]. set (r := iroot (a ^ e) e) in *.
  destruct (Z.lt_trichotomy r a) as [H | [H | H]]; [| exact H |].
  - assert (r + 1 <= a) by lia. pose proof (Z.pow_le_mono_l (r + 1) a e ltac:(lia)). lia.
  - pose proof (Z.pow_lt_mono_l a r e ltac:(lia) ltac:(lia)). lia.
Qed.
Lemma in_exps e L : In e (map Z.of_nat (seq 2 (Z.to_nat L))) <-> 2 <= e < 2 + Z.of_nat (Z.to_nat L).
Proof.
  rewrite in_map_iff. split.
  - intros [k [<- Hk]]. apply in_seq in Hk. lia.
  - intros He. exists (Z.to_nat e). split; [lia |]. apply in_seq. lia.
Qed.
Lemma perfect_power_spec n : mpz_perfect_power_p n = true <-> exists a b, 1 < b /\ a ^ b = n.
Proof.
  unfold mpz_perfect_power_p. destruct (Z.leb_spec (Z.abs n) 1) as [Hs | Hbig].
  - split; [intros _ | reflexivity].
    assert (Hc : n = 0 \/ n = 1 \/ n = -1) by lia. destruct Hc as [-> | [-> | ->]].
    + exists 0, 2. split; [lia | reflexivity].
    + exists 1, 2. split; [lia | reflexivity].
    + exists (-1), 3. split; [lia | reflexivity].
  - rewrite existsb_exists. split.
    + intros [e [Hin Hat]]. apply in_exps in Hin. unfold ppow_at in Hat. apply andb_prop in Hat as [Hq Hsg].
      apply Z.eqb_eq in Hq. destruct (Z.ltb_spec n 0) as [Hneg | Hpos].
      * exists (- iroot (Z.abs n) e), e. split; [lia |]. rewrite Z.pow_opp_odd by (apply Z.odd_spec; rewrite Hsg; reflexivity).
        rewrite Hq. lia.
      * exists (iroot (Z.abs n) e), e. split; [lia |]. rewrite Hq. lia.
    + intros [a [b [Hb E]]].
      assert (Habs : Z.abs a ^ b = Z.abs n) by (rewrite <- E; symmetry; apply Z.abs_pow).
      assert (Ha2 : 2 <= Z.abs a).
      { destruct (Z.le_gt_cases 2 (Z.abs a)) as [H | H]; [exact H |]. exfalso.
        assert (Hc : Z.abs a = 0 \/ Z.abs a = 1) by lia. destruct Hc as [Hc | Hc]; rewrite Hc in Habs.
        - rewrite Z.pow_0_l in Habs by lia. lia.
        - rewrite Z.pow_1_l in Habs by lia. lia. }
      assert (Hlog : b <= Z.log2 (Z.abs n)).
      { apply Z.log2_le_pow2; [lia |]. rewrite <- Habs. apply Z.pow_le_mono_l. lia. }
      exists b. split.
      * apply in_exps. pose proof (Z.log2_nonneg (Z.abs n)). rewrite Z2Nat.id by lia. lia.
      * unfold ppow_at. cbv zeta. rewrite <- Habs. rewrite iroot_exact by lia. rewrite Z.eqb_refl. cbn [andb].
        destruct (Z.ltb_spec n 0) as [Hneg | Hpos]; [| reflexivity].
        destruct (Z.odd b) eqn:Ho; [reflexivity |]. exfalso.
        assert (Hev : Z.even b = true) by (rewrite <- Z.negb_odd, Ho; reflexivity).
        pose proof (Z.pow_even_nonneg a b ltac:(apply Z.even_spec; exact Hev)). lia.
Qed.

(* fact: 0! = 1, (l+1)! = (l+1) l!, positive, divisible by every 1 <= k <= l;  swap exchanges the two values;
   size_in_base for a base 2^k: the number s of base-2^k digits, (2^k)^(s-1) <= |x| < (2^k)^s, and 1 for x = 0;
   isperfectpower(n) <> 0 exactly when n = a^b for some integer a and some b > 1 (so 0, 1, -1 are, negative n need an odd b) *)
Definition Misc_exact : Prop :=
  fact 0 = 1 /\ (forall l, 0 <= l -> fact (l + 1) = (l + 1) * fact l) /\ (forall l, 0 < fact l) /\
  (forall l k, 1 <= k <= l -> (k | fact l)) /\
  (forall a b, swap a b = (b, a)) /\
  (forall x k, x <> 0 -> 1 <= k -> let s := size_in_base x (2 ^ k) in (2 ^ k) ^ (s - 1) <= Z.abs x < (2 ^ k) ^ s) /\
  (forall b, size_in_base 0 b = 1) /\
  (forall n, isperfectpower n = 1 <-> exists a b, 1 < b /\ a ^ b = n) /\ (forall n, isperfectpower n = 0 \/ isperfectpower n = 1).
Lemma isperfectpower_spec n : isperfectpower n = 1 <-> exists a b, 1 < b /\ a ^ b = n.
Proof.
  rewrite <- perfect_power_spec. unfold isperfectpower, b2z. destruct (mpz_perfect_power_p n); split; intros H; try reflexivity; discriminate.
Qed.
Lemma misc_exact : Misc_exact.
Proof.
  unfold Misc_exact. split; [reflexivity |]. split; [exact fact_succ |]. split; [intros l; apply fac_nat_pos |].
  split. { intros l k Hk. unfold fact, mpz_fac_ui. apply fac_nat_div. rewrite Z2Nat.id by lia. exact Hk. }
  split; [intros; reflexivity |]. split; [intros; apply size_in_base_spec; assumption |]. split; [intros; reflexivity |].
  split; [exact isperfectpower_spec |].
  intros n. unfold isperfectpower, b2z. destruct (mpz_perfect_power_p n); [right | left]; reflexivity.
Qed.

(* ---------------------------------------------------------------- sequences of in-place operations on one object *)
Definition Sequences_exact : Prop :=
  (forall x a b, in_u64 a -> in_u64 b -> seq_acc_u64 x a b = x + a + b + a) /\
  (forall x a, in_u64 a -> seq_addsub_u64 x a = x) /\
  (forall x a, in_i64 a -> seq_addsub_i64 x a = x) /\
  (forall x a b c, in_i64 a -> in_u64 b -> in_i32 c -> seq_mixed x a b c = - ((x + a) * c - b) + 1 + a - b) /\
  (forall x a, in_u64 a -> seq_mul_u64 x a = x * a * a + a).
Lemma sequences_exact : Sequences_exact.
Proof.
  assert (U1 : in_u64 1) by (unfold in_u64, W64; lia).
  unfold Sequences_exact; repeat apply conj; intros.
  - unfold seq_acc_u64. rewrite !opPlusEq_u64_ok by assumption. reflexivity.
  - unfold seq_addsub_u64. rewrite opPlusEq_u64_ok, !opMinusEq_u64_ok, opPlusEq_u64_ok by assumption. lia.
  - unfold seq_addsub_i64. rewrite opPlusEq_i64_ok, !opMinusEq_i64_ok, opPlusEq_i64_ok by assumption. lia.
  - unfold seq_mixed. cbv zeta. destruct neg_exact as (_ & Hn & _).
    rewrite subin_u64_ok, addin_i64_ok, opPlusEq_u64_ok, Hn, opMinusEq_u64_ok, opMulEq_i32_ok, opPlusEq_i64_ok by assumption. reflexivity.
  - unfold seq_mul_u64. rewrite opPlusEq_u64_ok, !opMulEq_u64_ok by assumption. reflexivity.
Qed.

(* ---------------------------------------------------------------- template operator forms at double / unsigned char *)
Definition Template_exact : Prop :=
  (forall x m e, opPlusEq_Td x m e = x + ctor_d m e) /\ (forall x m e, opMinusEq_Td x m e = x - ctor_d m e) /\
  (forall x m e, opMulEq_Td x m e = x * ctor_d m e) /\
  (forall m e, 0 <= e -> ctor_d m e = m * 2 ^ e) /\ (forall m e, e < 0 -> ctor_d m e = Z.quot m (2 ^ (- e))) /\
  (forall x n, in_u8 n -> opPlusEq_Tu8 x n = x + n) /\ (forall x n, in_u8 n -> opMinusEq_Tu8 x n = x - n) /\
  (forall x n, in_u8 n -> opMulEq_Tu8 x n = x * n).
Lemma template_exact : Template_exact.
Proof.
  unfold Template_exact, opPlusEq_Td, opMinusEq_Td, opMulEq_Td, opPlusEq_Tu8, opMinusEq_Tu8, opMulEq_Tu8.
  repeat apply conj; intros.
  - apply opPlusEq_I_ok.
  - c01_solve.
  - c01_solve.
  - unfold ctor_d, mpz_set_d. destruct (Z.leb_spec 0 e); [reflexivity | lia].
  - unfold ctor_d, mpz_set_d. destruct (Z.leb_spec 0 e); [lia | reflexivity].
  - rewrite opPlusEq_I_ok. reflexivity.
  - c01_solve.
  - c01_solve.
Qed.

(* ---------------------------------------------------------------- audit items: root of a negative operand, the abs(x, a) wrapper *)
(* root(q, a, n) for a < 0 and odd n: q <= 0 is the root truncated towards 0: (q-1)^n < a <= q^n, flag = exactness *)
Lemma root_neg_spec a n q ex : a < 0 -> in_u32 n -> Z.odd n = true -> root a n = (q, ex) ->
  q <= 0 /\ (q - 1) ^ n < a <= q ^ n /\ (ex = true <-> q ^ n = a).
Proof.
  intros Ha Hn Ho H. unfold root, mpz_root, u32_to_u64 in H. inversion H; subst; clear H.
  assert (Hn1 : 1 <= n) by (unfold in_u32 in Hn; destruct (Z.eq_dec n 0) as [-> | ]; [discriminate | lia]).
  rewrite (Z.sgn_neg a) by lia. rewrite (Z.abs_neq a) by lia.
  pose proof (iroot_spec (- a) n ltac:(lia) Hn1) as [Hq [Hlo Hhi]]. set (r := iroot (- a) n) in *.
  assert (Hodd : Z.Odd n) by (apply Z.odd_spec; exact Ho).
  replace (-1 * r) with (- r) by lia. replace (- r - 1) with (- (r + 1)) by lia. rewrite !Z.pow_opp_odd by exact Hodd.
  split; [lia |]. split; [lia |]. split; intros E; [apply Z.eqb_eq in E | apply Z.eqb_eq]; exact E.
Qed.
Definition Audit_exact : Prop :=
  (forall a n q ex, a < 0 -> in_u32 n -> Z.odd n = true -> root a n = (q, ex) ->
     q <= 0 /\ (q - 1) ^ n < a <= q ^ n /\ (ex = true <-> q ^ n = a)) /\
  (forall x a, dom_abs2 x a = Z.abs a).
Lemma audit_exact : Audit_exact.
Proof.
  split; [exact root_neg_spec |]. intros x a. unfold dom_abs2, assign, logcpy, abs_v, sign_f, priv_sign, mpz_sgn, opNeg, mpz_neg.
  destruct (Z.leb_spec 0 (Z.sgn a)); lia.
Qed.
