(* C01 proofs: multiplication and fused families *)
From Coq Require Import ZArith Bool Lia.
From C01 Require Import Model ProofsBase.
Local Open Scope Z_scope.
Ltac Zify.zify_post_hook ::= Z.div_mod_to_equations.

(* ---------------------------------------------------------------- multiplication *)
Lemma mulin_I_ok x n : mulin_I x n = x * n. Proof. c01_solve. Qed.
Lemma mulin_i64_ok x n : in_i64 n -> mulin_i64 x n = x * n. Proof. c01_solve. Qed.
Lemma mulin_u64_ok x n : in_u64 n -> mulin_u64 x n = x * n. Proof. c01_solve. Qed.
Lemma mulin_i32_ok x n : in_i32 n -> mulin_i32 x n = x * n. Proof. c01_solve. Qed.
Lemma mulin_u32_ok x n : in_u32 n -> mulin_u32 x n = x * n. Proof. c01_solve. Qed.
Lemma mul_I_ok x n : mul_I x n = x * n. Proof. c01_solve. Qed.
Lemma mul_i64_ok x n : in_i64 n -> mul_i64 x n = x * n. Proof. c01_solve. Qed.
Lemma mul_u64_ok x n : in_u64 n -> mul_u64 x n = x * n. Proof. c01_solve. Qed.
Lemma mul_i32_ok x n : in_i32 n -> mul_i32 x n = x * n. Proof. c01_solve. Qed.
Lemma mul_u32_ok x n : in_u32 n -> mul_u32 x n = x * n. Proof. c01_solve. Qed.
Lemma opMulEq_I_ok x n : opMulEq_I x n = x * n. Proof. c01_solve. Qed.
Lemma opMulEq_u64_ok x n : in_u64 n -> opMulEq_u64 x n = x * n. Proof. c01_solve. Qed.
Lemma opMulEq_i64_ok x n : in_i64 n -> opMulEq_i64 x n = x * n. Proof. c01_solve. Qed.
Lemma opMulEq_u32_ok x n : in_u32 n -> opMulEq_u32 x n = x * n. Proof. c01_solve. Qed.
Lemma opMulEq_i32_ok x n : in_i32 n -> opMulEq_i32 x n = x * n. Proof. c01_solve. Qed.
Lemma opMulEq_T_ok x n : in_i32 n -> opMulEq_T x n = x * n. Proof. c01_solve. Qed.
Lemma opMul_I_ok x n : opMul_I x n = x * n. Proof. c01_solve. Qed.
Lemma opMul_u64_ok x n : in_u64 n -> opMul_u64 x n = x * n. Proof. c01_solve. Qed.
Lemma opMul_i64_ok x n : in_i64 n -> opMul_i64 x n = x * n. Proof. c01_solve. Qed.
Lemma opMul_u32_ok x n : in_u32 n -> opMul_u32 x n = x * n. Proof. c01_solve. Qed.
Lemma opMul_i32_ok x n : in_i32 n -> opMul_i32 x n = x * n. Proof. c01_solve. Qed.
Lemma fr_mul_i32_ok l n : in_i32 l -> fr_mul_i32 l n = l * n. Proof. c01_solve. Qed.
Lemma fr_mul_u32_ok l n : in_u32 l -> fr_mul_u32 l n = l * n. Proof. c01_solve. Qed.
Lemma fr_mul_i64_ok l n : in_i64 l -> fr_mul_i64 l n = l * n. Proof. c01_solve. Qed.
Lemma fr_mul_u64_ok l n : in_u64 l -> fr_mul_u64 l n = l * n. Proof. c01_solve. Qed.

Definition Mul_family_exact : Prop :=
  (forall x n, mulin_I x n = x * n) /\
  (forall x n, in_i64 n -> mulin_i64 x n = x * n) /\ (forall x n, in_u64 n -> mulin_u64 x n = x * n) /\
  (forall x n, in_i32 n -> mulin_i32 x n = x * n) /\ (forall x n, in_u32 n -> mulin_u32 x n = x * n) /\
  (forall x n, mul_I x n = x * n) /\
  (forall x n, in_i64 n -> mul_i64 x n = x * n) /\ (forall x n, in_u64 n -> mul_u64 x n = x * n) /\
  (forall x n, in_i32 n -> mul_i32 x n = x * n) /\ (forall x n, in_u32 n -> mul_u32 x n = x * n) /\
  (forall x n, opMulEq_I x n = x * n) /\
  (forall x n, in_u64 n -> opMulEq_u64 x n = x * n) /\ (forall x n, in_i64 n -> opMulEq_i64 x n = x * n) /\
  (forall x n, in_u32 n -> opMulEq_u32 x n = x * n) /\ (forall x n, in_i32 n -> opMulEq_i32 x n = x * n) /\
  (forall x n, in_i32 n -> opMulEq_T x n = x * n) /\
  (forall x n, opMul_I x n = x * n) /\
  (forall x n, in_u64 n -> opMul_u64 x n = x * n) /\ (forall x n, in_i64 n -> opMul_i64 x n = x * n) /\
  (forall x n, in_u32 n -> opMul_u32 x n = x * n) /\ (forall x n, in_i32 n -> opMul_i32 x n = x * n) /\
  (forall l n, in_i32 l -> fr_mul_i32 l n = l * n) /\ (forall l n, in_u32 l -> fr_mul_u32 l n = l * n) /\
  (forall l n, in_i64 l -> fr_mul_i64 l n = l * n) /\ (forall l n, in_u64 l -> fr_mul_u64 l n = l * n).
Lemma mul_family_exact : Mul_family_exact.
Proof. repeat split; c01_solve. Qed.

Definition Mul_family_agree : Prop := forall x n, 0 <= n < H32 ->
  let r := x * n in
  mulin_I x n = r /\ mulin_i64 x n = r /\ mulin_u64 x n = r /\ mulin_i32 x n = r /\ mulin_u32 x n = r /\
  mul_I x n = r /\ mul_i64 x n = r /\ mul_u64 x n = r /\ mul_i32 x n = r /\ mul_u32 x n = r /\
  opMulEq_I x n = r /\ opMulEq_u64 x n = r /\ opMulEq_i64 x n = r /\ opMulEq_u32 x n = r /\ opMulEq_i32 x n = r /\
  opMul_I x n = r /\ opMul_u64 x n = r /\ opMul_i64 x n = r /\ opMul_u32 x n = r /\ opMul_i32 x n = r /\
  fr_mul_i32 n x = r /\ fr_mul_u32 n x = r /\ fr_mul_i64 n x = r /\ fr_mul_u64 n x = r.
Lemma mul_family_agree : Mul_family_agree.
Proof.
  intros x n Hn r; subst r.
  assert (in_i32 n) by (unfold in_i32, H32 in *; lia). assert (in_u32 n) by (unfold in_u32, W32, H32 in *; lia).
  assert (in_i64 n) by (unfold in_i64, H64, H32 in *; lia). assert (in_u64 n) by (unfold in_u64, W64, H32 in *; lia).
  rewrite mulin_I_ok, mulin_i64_ok, mulin_u64_ok, mulin_i32_ok, mulin_u32_ok, mul_I_ok, mul_i64_ok, mul_u64_ok, mul_i32_ok,
    mul_u32_ok, opMulEq_I_ok, opMulEq_u64_ok, opMulEq_i64_ok, opMulEq_u32_ok, opMulEq_i32_ok, opMul_I_ok, opMul_u64_ok,
    opMul_i64_ok, opMul_u32_ok, opMul_i32_ok, fr_mul_i32_ok, fr_mul_u32_ok, fr_mul_i64_ok, fr_mul_u64_ok by assumption.
  repeat split; lia.
Qed.

(* ---------------------------------------------------------------- fused forms *)
(* `alias = true` means the call passed one object as res and b, so res = b as values *)
Definition Fused_exact : Prop :=
  (forall res a x, axpyin_I res a x = res + a * x) /\
  (forall res a x, in_u64 x -> axpyin_u64 res a x = res + a * x) /\
  (forall res a x, maxpyin_I res a x = res - a * x) /\
  (forall res a x, in_u64 x -> maxpyin_u64 res a x = res - a * x) /\
  (forall res a x, axmyin_I res a x = a * x - res) /\
  (forall res a x, in_u64 x -> axmyin_u64 res a x = a * x - res) /\
  (forall alias res a x b, (alias = true -> res = b) -> axpy_I alias res a x b = a * x + b) /\
  (forall alias res a x b, in_u64 x -> (alias = true -> res = b) -> axpy_u64 alias res a x b = a * x + b) /\
  (forall alias res a x b, (alias = true -> res = b) -> maxpy_I alias res a x b = b - a * x) /\
  (forall alias res a x b, in_u64 x -> (alias = true -> res = b) -> maxpy_u64 alias res a x b = b - a * x) /\
  (forall alias res a x b, (alias = true -> res = b) -> axmy_I alias res a x b = a * x - b) /\
  (forall alias res a x b, in_u64 x -> (alias = true -> res = b) -> axmy_u64 alias res a x b = a * x - b).
Lemma fused_exact : Fused_exact.
Proof.
  repeat split; intros;
  try match goal with al : bool |- _ => destruct al; [ match goal with H : true = true -> _ |- _ => specialize (H eq_refl); subst end
                                                   | match goal with H : false = true -> _ |- _ => clear H end ] end;
  c01_solve.
Qed.
