(* C01 proofs: powers and modular powers. *)
From Coq Require Import ZArith Bool Lia Zpow_facts.
From C01 Require Import Model Model2 Model3 ProofsBase ProofsCmp ProofsGcd.
Local Open Scope Z_scope.
Ltac Zify.zify_post_hook ::= Z.div_mod_to_equations.

#[export] Hint Unfold pow3_u64 pow3_uu pow_u64 pow3_i64 pow_i64 pow3_i32 pow3_u32 pow_i32 pow_u32
  dom_pow_i64 dom_pow_u64 dom_pow_i32 dom_pow_u32 Integer_one
  powmod3_I powmod_I powmod_I_tree powmod3_u64 powmod_u64 powmod_u64_tree powmod3_i64 powmod_i64 powmod3_u32 powmod3_i32 powmod_u32 powmod_i32
  dom_powmod_i64 dom_powmod_I : c01.
#[export] Hint Unfold mpz_pow_ui mpz_ui_pow_ui mpz_powm mpz_powm_ui : gmpspec.

(* ---------------------------------------------------------------- pow: exponent l >= 0 carried by any word type *)
Definition Pow_exact : Prop :=
  (forall n l, in_u64 l -> pow3_u64 n l = n ^ l) /\ (forall n l, in_u32 l -> pow3_u32 n l = n ^ l) /\
  (forall n l, in_i64 l -> 0 <= l -> pow3_i64 n l = n ^ l) /\ (forall n l, in_i32 l -> 0 <= l -> pow3_i32 n l = n ^ l) /\
  (forall n l, in_u64 n -> in_u64 l -> pow3_uu n l = n ^ l) /\
  (forall n l, in_u64 l -> pow_u64 n l = n ^ l) /\ (forall n l, in_u32 l -> pow_u32 n l = n ^ l) /\
  (forall n l, in_i64 l -> 0 <= l -> pow_i64 n l = n ^ l) /\ (forall n l, in_i32 l -> 0 <= l -> pow_i32 n l = n ^ l) /\
  (forall r n l, in_u64 l -> dom_pow_u64 r n l = n ^ l) /\ (forall r n l, in_u32 l -> dom_pow_u32 r n l = n ^ l) /\
  (forall r n l, in_i64 l -> 0 <= l -> dom_pow_i64 r n l = n ^ l) /\ (forall r n l, in_i32 l -> 0 <= l -> dom_pow_i32 r n l = n ^ l) /\
  (* a negative signed exponent is replaced by its absolute value (n^l is not an integer then) *)
  (forall n l, in_i64 l -> pow3_i64 n l = n ^ Z.abs l).
Lemma pow_exact : Pow_exact.
Proof.
  unfold Pow_exact; repeat apply conj; intros; c01_unfold_nowrap; split_ifs; c01_wraps;
  try reflexivity; try (subst; reflexivity); try (f_equal; lia).
Qed.

(* ---------------------------------------------------------------- powmod: modulus m <> 0, result in [0, |m|) *)
Lemma powm_spec n e m : m <> 0 -> Zpow_mod n e (Z.abs m) = (n ^ e) mod Z.abs m.
Proof. intros. apply Zpow_mod_correct. lia. Qed.

Definition Powmod_exact : Prop :=
  (forall n e m, m <> 0 -> powmod3_I n e m = (n ^ e) mod Z.abs m) /\
  (forall n e m, m <> 0 -> 0 <= e -> powmod_I n e m = (n ^ e) mod Z.abs m) /\
  (forall r n e m, m <> 0 -> 0 <= e -> dom_powmod_I r n e m = (n ^ e) mod Z.abs m) /\
  (forall n e m, m <> 0 -> in_u64 e -> powmod3_u64 n e m = (n ^ e) mod Z.abs m) /\
  (forall n e m, m <> 0 -> in_u64 e -> powmod_u64 n e m = (n ^ e) mod Z.abs m) /\
  (forall n e m, m <> 0 -> in_u32 e -> powmod3_u32 n e m = (n ^ e) mod Z.abs m) /\
  (forall n e m, m <> 0 -> in_u32 e -> powmod_u32 n e m = (n ^ e) mod Z.abs m) /\
  (forall n e m, m <> 0 -> in_i64 e -> 0 <= e -> powmod3_i64 n e m = (n ^ e) mod Z.abs m) /\
  (forall n e m, m <> 0 -> in_i64 e -> 0 <= e -> powmod_i64 n e m = (n ^ e) mod Z.abs m) /\
  (forall n e m, m <> 0 -> in_i32 e -> 0 <= e -> powmod3_i32 n e m = (n ^ e) mod Z.abs m) /\
  (forall n e m, m <> 0 -> in_i32 e -> 0 <= e -> powmod_i32 n e m = (n ^ e) mod Z.abs m) /\
  (forall r n e m, m <> 0 -> in_i64 e -> 0 <= e -> dom_powmod_i64 r n e m = (n ^ e) mod Z.abs m) /\
  (* a negative signed exponent: the power of the inverse, i.e. result * n^(-e) = 1 modulo |m|, when n is invertible *)
  (forall n e m, m <> 0 -> in_i64 e -> e < 0 -> Z.gcd n m = 1 ->
     let w := powmod3_i64 n e m in 0 <= w < Z.abs m /\ (w * n ^ (- e)) mod Z.abs m = 1 mod Z.abs m).
Lemma powmod_neg n e m : m <> 0 -> in_i64 e -> e < 0 -> Z.gcd n m = 1 ->
  let w := powmod3_i64 n e m in 0 <= w < Z.abs m /\ (w * n ^ (- e)) mod Z.abs m = 1 mod Z.abs m.
Proof.
  intros Hm He Hneg Hg. unfold powmod3_i64. destruct (Z.ltb_spec e 0); [| lia]. cbv zeta.
  unfold powmod3_u64, mpz_powm_ui. unfold in_i64, H64 in He. rewrite to_u64_abs_i64 by lia.
  rewrite powm_spec by assumption. rewrite (Z.abs_neq e) by lia.
  destruct (inv_exact) as [Hinv _]. specialize (Hinv (ctor_i32 0) n m Hm Hg). cbv zeta in Hinv. destruct Hinv as [Hr Hu].
  assert (Hp : 0 < Z.abs m) by lia. split; [apply Z.mod_pos_bound; exact Hp |].
  rewrite Z.mul_mod_idemp_l by lia. rewrite <- Z.pow_mul_l.
  rewrite Zpower_mod by lia. rewrite (Z.mul_comm (inv3 (ctor_i32 0) n m) n), Hu. rewrite <- Zpower_mod by lia.
  rewrite Z.pow_1_l by lia. reflexivity.
Qed.
Lemma powmod_exact : Powmod_exact.
Proof.
  unfold Powmod_exact; repeat apply conj; intros; try (apply powmod_neg; assumption);
  c01_unfold_nowrap; unfold opLt_i32, mpz_cmp_si, i32_to_i64; split_ifs; c01_wraps; rewrite ?powm_spec by assumption;
  try reflexivity; try lia.
Qed.
(* the bodies before frag/C01.fix-4.diff *)
Lemma powmod_u64_tree_refuted : exists n e m, m <> 0 /\ in_u64 e /\ powmod_u64_tree n e m <> (n ^ e) mod Z.abs m.
Proof. exists 5, 0, 1. split; [lia |]. split; [unfold in_u64, W64; lia |]. vm_compute; discriminate. Qed.
Lemma powmod_I_tree_refuted : exists n e m, m <> 0 /\ 0 <= e /\ powmod_I_tree n e m <> (n ^ e) mod Z.abs m.
Proof. exists 5, 0, 1. split; [lia |]. split; [lia |]. vm_compute; discriminate. Qed.
