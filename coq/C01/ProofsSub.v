(* C01 proofs: subtraction family *)
From Coq Require Import ZArith Bool Lia.
From C01 Require Import Model ProofsBase.
Local Open Scope Z_scope.
Ltac Zify.zify_post_hook ::= Z.div_mod_to_equations.

(* ---------------------------------------------------------------- subtraction *)
Lemma subin_I_ok x n : subin_I x n = x - n. Proof. c01_solve. Qed.
Lemma subin_i64_ok x n : in_i64 n -> subin_i64 x n = x - n. Proof. c01_solve. Qed.
Lemma subin_u64_ok x n : in_u64 n -> subin_u64 x n = x - n. Proof. c01_solve. Qed.
Lemma subin_i32_ok x n : in_i32 n -> subin_i32 x n = x - n. Proof. c01_solve. Qed.
Lemma subin_u32_ok x n : in_u32 n -> subin_u32 x n = x - n. Proof. c01_solve. Qed.
Lemma sub_I_ok x n : sub_I x n = x - n. Proof. c01_solve. Qed.
Lemma sub_i64_ok x n : in_i64 n -> sub_i64 x n = x - n. Proof. c01_solve. Qed.
Lemma sub_u64_ok x n : in_u64 n -> sub_u64 x n = x - n. Proof. c01_solve. Qed.
Lemma sub_u32_ok x n : in_u32 n -> sub_u32 x n = x - n. Proof. c01_solve. Qed.
Lemma opMinusEq_I_ok x n : opMinusEq_I x n = x - n. Proof. c01_solve. Qed.
Lemma opMinusEq_u64_ok x n : in_u64 n -> opMinusEq_u64 x n = x - n. Proof. c01_solve. Qed.
Lemma opMinusEq_i64_ok x n : in_i64 n -> opMinusEq_i64 x n = x - n. Proof. c01_solve. Qed.
Lemma opMinusEq_u32_ok x n : in_u32 n -> opMinusEq_u32 x n = x - n. Proof. c01_solve. Qed.
Lemma opMinusEq_i32_ok x n : in_i32 n -> opMinusEq_i32 x n = x - n. Proof. c01_solve. Qed.
Lemma opMinusEq_T_ok x n : in_i32 n -> opMinusEq_T x n = x - n. Proof. c01_solve. Qed.
Lemma opMinus_I_ok x n : opMinus_I x n = x - n. Proof. c01_solve. Qed.
Lemma opMinus_u64_ok x n : in_u64 n -> opMinus_u64 x n = x - n. Proof. c01_solve. Qed.
Lemma opMinus_i64_ok x n : in_i64 n -> opMinus_i64 x n = x - n. Proof. c01_solve. Qed.
Lemma opMinus_u32_ok x n : in_u32 n -> opMinus_u32 x n = x - n. Proof. c01_solve. Qed.
Lemma opMinus_i32_ok x n : in_i32 n -> opMinus_i32 x n = x - n. Proof. c01_solve. Qed.
Lemma fr_minus_i32_ok l n : in_i32 l -> fr_minus_i32 l n = l - n. Proof. c01_solve. Qed.
Lemma fr_minus_u32_ok l n : in_u32 l -> fr_minus_u32 l n = l - n. Proof. c01_solve. Qed.
Lemma fr_minus_i64_ok l n : in_i64 l -> fr_minus_i64 l n = l - n. Proof. c01_solve. Qed.
Lemma fr_minus_u64_ok l n : in_u64 l -> fr_minus_u64 l n = l - n. Proof. c01_solve. Qed.
Lemma predec_ok x : predec x = x - 1. Proof. c01_solve. Qed.
Lemma postdec_ok x : postdec x = (x, x - 1). Proof. unfold postdec. rewrite predec_ok. reflexivity. Qed.

Lemma sub_i32_ok x n : in_i32 n -> sub_i32 x n = x - n. Proof. c01_solve. Qed.

Definition Sub_family_exact : Prop :=
  (forall x n, subin_I x n = x - n) /\
  (forall x n, in_i64 n -> subin_i64 x n = x - n) /\ (forall x n, in_u64 n -> subin_u64 x n = x - n) /\
  (forall x n, in_i32 n -> subin_i32 x n = x - n) /\ (forall x n, in_u32 n -> subin_u32 x n = x - n) /\
  (forall x n, sub_I x n = x - n) /\
  (forall x n, in_i64 n -> sub_i64 x n = x - n) /\ (forall x n, in_u64 n -> sub_u64 x n = x - n) /\
  (forall x n, in_u32 n -> sub_u32 x n = x - n) /\
  (forall x n, opMinusEq_I x n = x - n) /\
  (forall x n, in_u64 n -> opMinusEq_u64 x n = x - n) /\ (forall x n, in_i64 n -> opMinusEq_i64 x n = x - n) /\
  (forall x n, in_u32 n -> opMinusEq_u32 x n = x - n) /\ (forall x n, in_i32 n -> opMinusEq_i32 x n = x - n) /\
  (forall x n, in_i32 n -> opMinusEq_T x n = x - n) /\
  (forall x n, opMinus_I x n = x - n) /\
  (forall x n, in_u64 n -> opMinus_u64 x n = x - n) /\ (forall x n, in_i64 n -> opMinus_i64 x n = x - n) /\
  (forall x n, in_u32 n -> opMinus_u32 x n = x - n) /\ (forall x n, in_i32 n -> opMinus_i32 x n = x - n) /\
  (forall l n, in_i32 l -> fr_minus_i32 l n = l - n) /\ (forall l n, in_u32 l -> fr_minus_u32 l n = l - n) /\
  (forall l n, in_i64 l -> fr_minus_i64 l n = l - n) /\ (forall l n, in_u64 l -> fr_minus_u64 l n = l - n) /\
  (forall x, predec x = x - 1) /\ (forall x, postdec x = (x, x - 1)) /\
  (forall x n, in_i32 n -> sub_i32 x n = x - n).
Lemma sub_family_exact : Sub_family_exact.
Proof. repeat split; c01_solve. Qed.

Definition Sub_family_agree : Prop := forall x n, 0 <= n < H32 ->
  let r := x - n in
  subin_I x n = r /\ subin_i64 x n = r /\ subin_u64 x n = r /\ subin_i32 x n = r /\ subin_u32 x n = r /\
  sub_I x n = r /\ sub_i64 x n = r /\ sub_u64 x n = r /\ sub_i32 x n = r /\ sub_u32 x n = r /\
  opMinusEq_I x n = r /\ opMinusEq_u64 x n = r /\ opMinusEq_i64 x n = r /\ opMinusEq_u32 x n = r /\ opMinusEq_i32 x n = r /\
  opMinus_I x n = r /\ opMinus_u64 x n = r /\ opMinus_i64 x n = r /\ opMinus_u32 x n = r /\ opMinus_i32 x n = r /\
  fr_minus_i32 n x = - r /\ fr_minus_u32 n x = - r /\ fr_minus_i64 n x = - r /\ fr_minus_u64 n x = - r.
Lemma sub_family_agree : Sub_family_agree.
Proof.
  intros x n Hn r; subst r.
  assert (in_i32 n) by (unfold in_i32, H32 in *; lia). assert (in_u32 n) by (unfold in_u32, W32, H32 in *; lia).
  assert (in_i64 n) by (unfold in_i64, H64, H32 in *; lia). assert (in_u64 n) by (unfold in_u64, W64, H32 in *; lia).
  rewrite subin_I_ok, subin_i64_ok, subin_u64_ok, subin_i32_ok, subin_u32_ok, sub_I_ok, sub_i64_ok, sub_u64_ok, sub_i32_ok,
    sub_u32_ok, opMinusEq_I_ok, opMinusEq_u64_ok, opMinusEq_i64_ok, opMinusEq_u32_ok, opMinusEq_i32_ok, opMinus_I_ok, opMinus_u64_ok,
    opMinus_i64_ok, opMinus_u32_ok, opMinus_i32_ok, fr_minus_i32_ok, fr_minus_u32_ok, fr_minus_i64_ok, fr_minus_u64_ok by assumption.
  repeat split; lia.
Qed.

