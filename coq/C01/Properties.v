(* C01 property theorems.  Nothing but statements closed by `exact`, each followed by Print Assumptions.
   Every statement is a conjunction with one clause per overload body of Model.v:
   "for all big-integer operands and all word operands in the C type's range, the body = the Z operation". *)
From Coq Require Import ZArith.
From C01 Require Import Model ProofsBase ProofsAdd ProofsSub ProofsMul.
Local Open Scope Z_scope.

Theorem C01_constructors_exact : Ctor_exact.            Proof. exact ctor_exact. Qed.
Print Assumptions C01_constructors_exact.
Theorem C01_negation_exact : Neg_exact.                 Proof. exact neg_exact. Qed.
Print Assumptions C01_negation_exact.
Theorem C01_addition_every_overload_exact : Add_family_exact.  Proof. exact add_family_exact. Qed.
Print Assumptions C01_addition_every_overload_exact.
Theorem C01_addition_overloads_agree : Add_family_agree.       Proof. exact add_family_agree. Qed.
Print Assumptions C01_addition_overloads_agree.
Theorem C01_subtraction_every_overload_exact : Sub_family_exact.  Proof. exact sub_family_exact. Qed.
Print Assumptions C01_subtraction_every_overload_exact.
Theorem C01_subtraction_overloads_agree : Sub_family_agree.    Proof. exact sub_family_agree. Qed.
Print Assumptions C01_subtraction_overloads_agree.
Theorem C01_multiplication_every_overload_exact : Mul_family_exact.  Proof. exact mul_family_exact. Qed.
Print Assumptions C01_multiplication_every_overload_exact.
Theorem C01_multiplication_overloads_agree : Mul_family_agree. Proof. exact mul_family_agree. Qed.
Print Assumptions C01_multiplication_overloads_agree.
Theorem C01_fused_forms_exact : Fused_exact.             Proof. exact fused_exact. Qed.
Print Assumptions C01_fused_forms_exact.
