(* C01 property theorems.  Nothing but statements closed by `exact`, each followed by Print Assumptions.
   Every statement is a conjunction with one clause per overload body of Model*.v:
   "for all big-integer operands and all word operands in the C type's range, the body = the Z operation".
   The statements themselves are the Definitions `..._exact` in the Proofs*.v files. *)
From Coq Require Import ZArith.
From C01 Require Import Model Model2 Model3 ProofsBase ProofsAdd ProofsSub ProofsMul ProofsCmp ProofsBits ProofsGcd ProofsPow ProofsLoops ProofsMisc.
Local Open Scope Z_scope.

Theorem C01_constructors_exact : Ctor_exact.            Proof. exact ctor_exact. Qed.
Print Assumptions C01_constructors_exact.
Theorem C01_negation_exact : Neg_exact.                 Proof. exact neg_exact. Qed.
Print Assumptions C01_negation_exact.
Theorem C01_addition_every_overload_exact : Add_family_exact.  Proof. exact add_family_exact. Qed.
Print Assumptions C01_addition_every_overload_exact.
Theorem C01_addition_overloads_agree : Add_family_agree.       Proof. exact add_family_agree. Qed.
Print Assumptions C01_addition_overloads_agree.
Theorem C01_subtraction_every_overload_exact : Sub_family_exact.  Proof. exact sub_family_exact. Qed.
Print Assumptions C01_subtraction_every_overload_exact.
Theorem C01_subtraction_overloads_agree : Sub_family_agree.    Proof. exact sub_family_agree. Qed.
Print Assumptions C01_subtraction_overloads_agree.
Theorem C01_multiplication_every_overload_exact : Mul_family_exact.  Proof. exact mul_family_exact. Qed.
Print Assumptions C01_multiplication_every_overload_exact.
Theorem C01_multiplication_overloads_agree : Mul_family_agree. Proof. exact mul_family_agree. Qed.
Print Assumptions C01_multiplication_overloads_agree.
Theorem C01_fused_forms_exact : Fused_exact.             Proof. exact fused_exact. Qed.
Print Assumptions C01_fused_forms_exact.
Theorem C01_compare_absCompare_sign_exact : Compare_exact.  Proof. exact compare_exact. Qed.
Print Assumptions C01_compare_absCompare_sign_exact.
Theorem C01_operator_ne_every_overload_exact : OpNe_exact.  Proof. exact opne_exact. Qed.
Print Assumptions C01_operator_ne_every_overload_exact.
Theorem C01_operator_eq_every_overload_exact : OpEq_exact.  Proof. exact opeq_exact. Qed.
Print Assumptions C01_operator_eq_every_overload_exact.
Theorem C01_operator_gt_every_overload_exact : OpGt_exact.  Proof. exact opgt_exact. Qed.
Print Assumptions C01_operator_gt_every_overload_exact.
Theorem C01_operator_lt_every_overload_exact : OpLt_exact.  Proof. exact oplt_exact. Qed.
Print Assumptions C01_operator_lt_every_overload_exact.
Theorem C01_operator_ge_every_overload_exact : OpGe_exact.  Proof. exact opge_exact. Qed.
Print Assumptions C01_operator_ge_every_overload_exact.
Theorem C01_operator_le_every_overload_exact : OpLe_exact.  Proof. exact ople_exact. Qed.
Print Assumptions C01_operator_le_every_overload_exact.
Theorem C01_zero_one_sign_tests_exact : Tests_exact.     Proof. exact tests_exact. Qed.
Print Assumptions C01_zero_one_sign_tests_exact.
Theorem C01_shifts_exact : Shift_exact.                  Proof. exact shift_exact. Qed.
Print Assumptions C01_shifts_exact.
Theorem C01_bit_logic_every_overload_exact : Bitlogic_exact.  Proof. exact bitlogic_exact. Qed.
Print Assumptions C01_bit_logic_every_overload_exact.
Theorem C01_native_conversions_exact : Casts_exact.      Proof. exact casts_exact. Qed.
Print Assumptions C01_native_conversions_exact.
Theorem C01_size_queries_exact : Size_exact.             Proof. exact size_exact. Qed.
Print Assumptions C01_size_queries_exact.
Theorem C01_pow_every_overload_exact : Pow_exact.        Proof. exact pow_exact. Qed.
Print Assumptions C01_pow_every_overload_exact.
Theorem C01_powmod_every_overload_exact : Powmod_exact.  Proof. exact powmod_exact. Qed.
Print Assumptions C01_powmod_every_overload_exact.
Theorem C01_gcd_lcm_bezout_exact : Gcd_exact.            Proof. exact gcd_exact. Qed.
Print Assumptions C01_gcd_lcm_bezout_exact.
Theorem C01_modular_inverse_exact : Inv_exact.           Proof. exact inv_exact. Qed.
Print Assumptions C01_modular_inverse_exact.
Theorem C01_roots_exact : Roots_exact.                   Proof. exact roots_exact. Qed.
Print Assumptions C01_roots_exact.
(* operations that are loops of givaro's own: logp (2 <= p, 1 <= a: p^r <= a < p^(r+1); 0 for a < p), Integer(vect_t) = the base-2^64 value of the limbs,
   operator vect_t followed by Integer(vect_t) = |x| *)
Theorem C01_logp_and_limb_vector_exact : Loops_exact.    Proof. exact loops_exact. Qed.
Print Assumptions C01_logp_and_limb_vector_exact.
(* pp(P,Q), P <> 0 (a loop of givaro's own): a divisor of P, coprime to Q, divisible by EVERY divisor of P coprime to Q (the largest
   such divisor), and P / pp(P,Q) divides a power of Q; termination within the fuel included *)
Theorem C01_pp_largest_coprime_divisor_exact : Pp_exact.   Proof. exact pp_exact. Qed.
Print Assumptions C01_pp_largest_coprime_divisor_exact.
Example C01_pp_hyp_satisfiable : exists P Q, P <> 0 /\ pp P Q = 5 /\ (2 | P) /\ (2 | Q).
Proof. exists 360, 6. repeat split; [discriminate | exists 180; reflexivity | exists 3; reflexivity]. Qed.
(* the loops as they are in the source (model with a "does not return" outcome).  pp in the tree (since /repo 348f995 = frag/C01.fix-5.diff) returns for
   EVERY P, Q (0 for P = 0, the value of the theorem above otherwise).  HISTORY clauses: the body before the repair returned exactly for P <> 0 and did
   NOT return for P = 0, |Q| >= 2, whatever the fuel *)
Theorem C01_pp_returns_for_every_input_since_fix5 : Pp_returns.   Proof. exact pp_returns. Qed.
Print Assumptions C01_pp_returns_for_every_input_since_fix5.
Example C01_pp_returns_hyp_satisfiable : pp_o 360 6 = Ret 5 /\ pp_o 0 5 = NoReturn /\ pp_fixed_o 0 5 = Ret 0.
Proof. repeat split. Qed.
(* logp in the tree (since /repo 2291e98 = frag/C01.fix-6.diff) throws for every p < 2 and returns the integer logarithm for 2 <= p (0 for a < p).
   HISTORY clauses: the body before the repair did NOT return for p in {0,1} (p <= a), p = -1 (1 <= a), whatever the fuel *)
Theorem C01_logp_returns_or_throws_for_every_input_since_fix6 : Logp_returns.   Proof. exact logp_returns. Qed.
Print Assumptions C01_logp_returns_or_throws_for_every_input_since_fix6.
Example C01_logp_returns_hyp_satisfiable : logp_o 1000 10 = Ret 3 /\ logp_o 5 1 = NoReturn /\ logp_fixed_o 5 1 = Throws /\ logp_o 3 7 = Ret 0.
Proof. repeat split. Qed.
(* root(q,a,n) of a NEGATIVE a with odd n: truncation towards 0 ((q-1)^n < a <= q^n, exactness flag); ZRing::abs(x,a) = |a| *)
Theorem C01_root_of_negative_and_abs_wrapper_exact : Audit_exact.   Proof. exact audit_exact. Qed.
Print Assumptions C01_root_of_negative_and_abs_wrapper_exact.
Example C01_root_negative_hyp_satisfiable : -28 < 0 /\ in_u32 3 /\ Z.odd 3 = true /\ root (-28) 3 = (-3, false) /\ root (-27) 3 = (-3, true).
Proof. repeat split; discriminate. Qed.
(* satisfiability of the hypotheses of the conditional clauses of the older theorems (audit 1) *)
Example C01_powmod_negative_exponent_hyp_satisfiable :
  in_i64 (-1) /\ -1 < 0 /\ Z.gcd 3 7 = 1 /\ 7 <> 0 /\ powmod3_i64 3 (-1) 7 = 5 /\ (5 * 3 ^ 1) mod 7 = 1.
Proof. repeat split; discriminate. Qed.
Example C01_inverse_hyp_satisfiable : Z.gcd 3 (-7) = 1 /\ -7 <> 0 /\ inv3 0 3 (-7) = 5.
Proof. repeat split; discriminate. Qed.
Example C01_roots_hyp_satisfiable : 0 <= 26 /\ in_u32 3 /\ 1 <= 3 /\ root 26 3 = (2, false) /\ sqrtrem3 26 = (5, 1).
Proof. repeat split; discriminate. Qed.
Example C01_dxgcd_hyp_satisfiable : dom_dxgcd 12 (-18) = (6, -1, -1, 2, -3) /\ 6 <> 0.
Proof. split; [reflexivity | discriminate]. Qed.
Example C01_logp_hyp_satisfiable : 2 <= 10 /\ 1 <= 1000 /\ logp 1000 10 = 3.
Proof. repeat split; discriminate. Qed.
Example C01_fused_alias_hyp_satisfiable : axpy_I true 7 2 3 7 = 13 /\ axpy_I false 99 2 3 7 = 13.
Proof. split; reflexivity. Qed.
(* fact = l!, swap, size_in_base for bases 2^k, isperfectpower(n) <> 0 <-> n = a^b with b > 1 (were oracle-only before phase 3) *)
Theorem C01_fact_swap_sizeinbase_perfectpower_exact : Misc_exact.   Proof. exact misc_exact. Qed.
Print Assumptions C01_fact_swap_sizeinbase_perfectpower_exact.
Example C01_misc_hyp_satisfiable : fact 5 = 120 /\ size_in_base 255 (2 ^ 4) = 2 /\ isperfectpower (-27) = 1 /\ isperfectpower (-16) = 0.
Proof. repeat split. Qed.
(* template<class XXX> operator +=, -=, *= instantiated at double (adds / subtracts / multiplies by the truncation of the double) and at unsigned char *)
Theorem C01_template_operator_forms_exact : Template_exact.   Proof. exact template_exact. Qed.
Print Assumptions C01_template_operator_forms_exact.
Example C01_template_hyp_satisfiable : in_u8 255 /\ opPlusEq_Tu8 (-1) 255 = 254 /\ opPlusEq_Td 0 5 (-1) = 2.
Proof. repeat split; discriminate. Qed.
(* consecutive in-place operations on one object (as the harness drives them) compose to the Z value *)
Theorem C01_sequences_on_one_object_exact : Sequences_exact.   Proof. exact sequences_exact. Qed.
Print Assumptions C01_sequences_on_one_object_exact.
Example C01_sequences_hyp_satisfiable : in_u64 (2 ^ 63) /\ seq_acc_u64 0 (2 ^ 63) (2 ^ 63) = 3 * 2 ^ 63.
Proof. split; [split; [discriminate | reflexivity] | reflexivity]. Qed.
(* the bodies as they were before the repairs frag/C01.fix-2/3/4.diff do NOT satisfy their clause (witnesses) *)
Theorem C01_absCompare_i32_before_fix2_refuted :
  exists a b, in_i32 b /\ absCompare_i32_tree a b <> Z.sgn (Z.abs a - Z.abs b).   Proof. exact absCompare_i32_tree_refuted. Qed.
Print Assumptions C01_absCompare_i32_before_fix2_refuted.
Theorem C01_and_u64_before_fix3_refuted :
  exists x a, in_u64 a /\ opAnd_u64_tree x a <> Z.land x a.                       Proof. exact opAnd_u64_tree_refuted. Qed.
Print Assumptions C01_and_u64_before_fix3_refuted.
Theorem C01_powmod_u64_before_fix4_refuted :
  exists n e m, m <> 0 /\ in_u64 e /\ powmod_u64_tree n e m <> (n ^ e) mod Z.abs m.  Proof. exact powmod_u64_tree_refuted. Qed.
Print Assumptions C01_powmod_u64_before_fix4_refuted.
