From Coq Require Import ZArith.
From C01 Require Import Model ProofsArith.
