(* C01 property theorems.  Nothing but statements closed by `exact`, each followed by Print Assumptions.
   Every statement is a conjunction with one clause per overload body of Model*.v:
   "for all big-integer operands and all word operands in the C type's range, the body = the Z operation".
   The statements themselves are the Definitions `..._exact` in the Proofs*.v files. *)
From Coq Require Import ZArith.
From C01 Require Import Model Model2 Model3 ProofsBase ProofsAdd ProofsSub ProofsMul ProofsCmp ProofsBits ProofsGcd ProofsPow ProofsLoops ProofsMisc.
Local Open Scope Z_scope.

Theorem C01_constructors_exact : Ctor_exact.            Proof. exact ctor_exact. Qed.
Print Assumptions C01_constructors_exact.
Theorem C01_negation_exact : Neg_exact.                 Proof. exact neg_exact. Qed.
Print Assumptions C01_negation_exact.
Theorem C01_addition_every_overload_exact : Add_family_exact.  Proof. exact add_family_exact. Qed.
Print Assumptions C01_addition_every_overload_exact.
Theorem C01_addition_overloads_agree : Add_family_agree.       Proof. exact add_family_agree. Qed.
Print Assumptions C01_addition_overloads_agree.
Theorem C01_subtraction_every_overload_exact : Sub_family_exact.  Proof. exact sub_family_exact. Qed.
Print Assumptions C01_subtraction_every_overload_exact.
Theorem C01_subtraction_overloads_agree : Sub_family_agree.    Proof. exact sub_family_agree. Qed.
Print Assumptions C01_subtraction_overloads_agree.
Theorem C01_multiplication_every_overload_exact : Mul_family_exact.  Proof. exact mul_family_exact. Qed.
Print Assumptions C01_multiplication_every_overload_exact.
Theorem C01_multiplication_overloads_agree : Mul_family_agree. Proof. exact mul_family_agree. Qed.
Print Assumptions C01_multiplication_overloads_agree.
Theorem C01_fused_forms_exact : Fused_exact.             Proof. exact fused_exact. Qed.
Print Assumptions C01_fused_forms_exact.
Theorem C01_compare_absCompare_sign_exact : Compare_exact.  Proof. exact compare_exact. Qed.
Print Assumptions C01_compare_absCompare_sign_exact.
Theorem C01_operator_ne_every_overload_exact : OpNe_exact.  Proof. exact opne_exact. Qed.
Print Assumptions C01_operator_ne_every_overload_exact.
Theorem C01_operator_eq_every_overload_exact : OpEq_exact.  Proof. exact opeq_exact. Qed.
Print Assumptions C01_operator_eq_every_overload_exact.
Theorem C01_operator_gt_every_overload_exact : OpGt_exact.  Proof. exact opgt_exact. Qed.
Print Assumptions C01_operator_gt_every_overload_exact.
Theorem C01_operator_lt_every_overload_exact : OpLt_exact.  Proof. exact oplt_exact. Qed.
Print Assumptions C01_operator_lt_every_overload_exact.
Theorem C01_operator_ge_every_overload_exact : OpGe_exact.  Proof. exact opge_exact. Qed.
Print Assumptions C01_operator_ge_every_overload_exact.
Theorem C01_operator_le_every_overload_exact : OpLe_exact.  Proof. exact ople_exact. Qed.
Print Assumptions C01_operator_le_every_overload_exact.
Theorem C01_zero_one_sign_tests_exact : Tests_exact.     Proof. exact tests_exact. Qed.
Print Assumptions C01_zero_one_sign_tests_exact.
Theorem C01_shifts_exact : Shift_exact.                  Proof. exact shift_exact. Qed.
Print Assumptions C01_shifts_exact.
Theorem C01_bit_logic_every_overload_exact : Bitlogic_exact.  Proof. exact bitlogic_exact. Qed.
Print Assumptions C01_bit_logic_every_overload_exact.
Theorem C01_native_conversions_exact : Casts_exact.      Proof. exact casts_exact. Qed.
Print Assumptions C01_native_conversions_exact.
Theorem C01_size_queries_exact : Size_exact.             Proof. exact size_exact. Qed.
Print Assumptions C01_size_queries_exact.
Theorem C01_pow_every_overload_exact : Pow_exact.        Proof. exact pow_exact. Qed.
Print Assumptions C01_pow_every_overload_exact.
Theorem C01_powmod_every_overload_exact : Powmod_exact.  Proof. exact powmod_exact. Qed.
Print Assumptions C01_powmod_every_overload_exact.
Theorem C01_gcd_lcm_bezout_exact : Gcd_exact.            Proof. exact gcd_exact. Qed.
Print Assumptions C01_gcd_lcm_bezout_exact.
Theorem C01_modular_inverse_exact : Inv_exact.           Proof. exact inv_exact. Qed.
Print Assumptions C01_modular_inverse_exact.
Theorem C01_roots_exact : Roots_exact.                   Proof. exact roots_exact. Qed.
Print Assumptions C01_roots_exact.
(* operations that are loops of givaro's own: logp (2 <= p, 1 <= a: p^r <= a < p^(r+1); 0 for a < p), Integer(vect_t) = the base-2^64 value of the limbs,
   operator vect_t followed by Integer(vect_t) = |x| *)
Theorem C01_logp_and_limb_vector_exact : Loops_exact.    Proof. exact loops_exact. Qed.
Print Assumptions C01_logp_and_limb_vector_exact.
(* pp(P,Q), P <> 0 (a loop of givaro's own): a divisor of P, coprime to Q, divisible by EVERY divisor of P coprime to Q (the largest
   such divisor), and P / pp(P,Q) divides a power of Q; termination within the fuel included *)
Theorem C01_pp_largest_coprime_divisor_exact : Pp_exact.   Proof. exact pp_exact. Qed.
Print Assumptions C01_pp_largest_coprime_divisor_exact.
Example C01_pp_hyp_satisfiable : exists P Q, P <> 0 /\ pp P Q = 5 /\ (2 | P) /\ (2 | Q).
Proof. exists 360, 6. repeat split; [discriminate | exists 180; reflexivity | exists 3; reflexivity]. Qed.
(* fact = l!, swap, size_in_base for bases 2^k, isperfectpower(n) <> 0 <-> n = a^b with b > 1 (were oracle-only before phase 3) *)
Theorem C01_fact_swap_sizeinbase_perfectpower_exact : Misc_exact.   Proof. exact misc_exact. Qed.
Print Assumptions C01_fact_swap_sizeinbase_perfectpower_exact.
Example C01_misc_hyp_satisfiable : fact 5 = 120 /\ size_in_base 255 (2 ^ 4) = 2 /\ isperfectpower (-27) = 1 /\ isperfectpower (-16) = 0.
Proof. repeat split. Qed.
(* template<class XXX> operator +=, -=, *= instantiated at double (adds / subtracts / multiplies by the truncation of the double) and at unsigned char *)
Theorem C01_template_operator_forms_exact : Template_exact.   Proof. exact template_exact. Qed.
Print Assumptions C01_template_operator_forms_exact.
Example C01_template_hyp_satisfiable : in_u8 255 /\ opPlusEq_Tu8 (-1) 255 = 254 /\ opPlusEq_Td 0 5 (-1) = 2.
Proof. repeat split; discriminate. Qed.
(* consecutive in-place operations on one object (as the harness drives them) compose to the Z value *)
Theorem C01_sequences_on_one_object_exact : Sequences_exact.   Proof. exact sequences_exact. Qed.
Print Assumptions C01_sequences_on_one_object_exact.
Example C01_sequences_hyp_satisfiable : in_u64 (2 ^ 63) /\ seq_acc_u64 0 (2 ^ 63) (2 ^ 63) = 3 * 2 ^ 63.
Proof. split; [split; [discriminate | reflexivity] | reflexivity]. Qed.
(* the bodies as they were before the repairs frag/C01.fix-2/3/4.diff do NOT satisfy their clause (witnesses) *)
Theorem C01_absCompare_i32_before_fix2_refuted :
  exists a b, in_i32 b /\ absCompare_i32_tree a b <> Z.sgn (Z.abs a - Z.abs b).   Proof. exact absCompare_i32_tree_refuted. Qed.
Print Assumptions C01_absCompare_i32_before_fix2_refuted.
Theorem C01_and_u64_before_fix3_refuted :
  exists x a, in_u64 a /\ opAnd_u64_tree x a <> Z.land x a.                       Proof. exact opAnd_u64_tree_refuted. Qed.
Print Assumptions C01_and_u64_before_fix3_refuted.
Theorem C01_powmod_u64_before_fix4_refuted :
  exists n e m, m <> 0 /\ in_u64 e /\ powmod_u64_tree n e m <> (n ^ e) mod Z.abs m.  Proof. exact powmod_u64_tree_refuted. Qed.
Print Assumptions C01_powmod_u64_before_fix4_refuted.
