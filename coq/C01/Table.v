(* C01: dispatch table of the executable model for the correspondence run.
   One entry per modelled overload body: variant name -> function on the argument list.
   (doubles are passed as two integers m e meaning m * 2^e; alias flags as 0/1).  No proofs. *)
From Coq Require Import ZArith Bool List String.
From C01 Require Import Model.
Local Open Scope Z_scope.
Local Open Scope string_scope.

Definition A (i : nat) (l : list Z) : Z := nth i l 0.
Definition f1 (f : Z -> Z) : list Z -> list Z := fun l => f (A 0 l) :: nil.
Definition f2 (f : Z -> Z -> Z) : list Z -> list Z := fun l => f (A 0 l) (A 1 l) :: nil.
Definition f3 (f : Z -> Z -> Z -> Z) : list Z -> list Z := fun l => f (A 0 l) (A 1 l) (A 2 l) :: nil.
Definition p1 (f : Z -> Z * Z) : list Z -> list Z := fun l => let r := f (A 0 l) in fst r :: snd r :: nil.
(* fused: args res a x b alias *)
Definition fz (f : bool -> Z -> Z -> Z -> Z -> Z) : list Z -> list Z :=
  fun l => f (negb (Z.eqb (A 4 l) 0)) (A 0 l) (A 1 l) (A 2 l) (A 3 l) :: nil.

Definition table1 : list (string * (list Z -> list Z)) :=
  ("ctor_i32", f1 ctor_i32) :: ("ctor_u8", f1 ctor_u8) :: ("ctor_u32", f1 ctor_u32) ::
  ("ctor_i64", f1 ctor_i64) :: ("ctor_u64", f1 ctor_u64) :: ("ctor_copy", f1 ctor_copy) ::
  ("logcpy", f2 logcpy) :: ("assign", f2 assign) :: ("copy", f2 copy) ::
  ("neg", f1 neg) :: ("negin", f1 negin) :: ("opNeg", f1 opNeg) ::
  ("addin_I", f2 addin_I) :: ("addin_i64", f2 addin_i64) :: ("addin_u64", f2 addin_u64) ::
  ("addin_i32", f2 addin_i32) :: ("addin_u32", f2 addin_u32) ::
  ("add_I", f2 add_I) :: ("add_i64", f2 add_i64) :: ("add_u64", f2 add_u64) ::
  ("add_i32", f2 add_i32) :: ("add_u32", f2 add_u32) ::
  ("opPlusEq_I", f2 opPlusEq_I) :: ("opPlusEq_u64", f2 opPlusEq_u64) :: ("opPlusEq_i64", f2 opPlusEq_i64) ::
  ("opPlusEq_u32", f2 opPlusEq_u32) :: ("opPlusEq_i32", f2 opPlusEq_i32) ::
  ("opPlusEq_T", f2 opPlusEq_T) ::
  ("opPlus_I", f2 opPlus_I) :: ("opPlus_u64", f2 opPlus_u64) :: ("opPlus_i64", f2 opPlus_i64) ::
  ("opPlus_u32", f2 opPlus_u32) :: ("opPlus_i32", f2 opPlus_i32) ::
  ("fr_plus_i32", f2 fr_plus_i32) :: ("fr_plus_u32", f2 fr_plus_u32) ::
  ("fr_plus_i64", f2 fr_plus_i64) :: ("fr_plus_u64", f2 fr_plus_u64) ::
  ("preinc", f1 preinc) :: ("postinc", p1 postinc) ::
  ("subin_I", f2 subin_I) :: ("subin_i64", f2 subin_i64) :: ("subin_u64", f2 subin_u64) ::
  ("subin_i32", f2 subin_i32) :: ("subin_u32", f2 subin_u32) ::
  ("sub_I", f2 sub_I) :: ("sub_i64", f2 sub_i64) :: ("sub_u64", f2 sub_u64) ::
  ("sub_i32", f2 sub_i32) :: ("sub_u32", f2 sub_u32) ::
  ("opMinusEq_I", f2 opMinusEq_I) :: ("opMinusEq_u64", f2 opMinusEq_u64) :: ("opMinusEq_i64", f2 opMinusEq_i64) ::
  ("opMinusEq_u32", f2 opMinusEq_u32) :: ("opMinusEq_i32", f2 opMinusEq_i32) :: ("opMinusEq_T", f2 opMinusEq_T) ::
  ("opMinus_I", f2 opMinus_I) :: ("opMinus_u64", f2 opMinus_u64) :: ("opMinus_i64", f2 opMinus_i64) ::
  ("opMinus_u32", f2 opMinus_u32) :: ("opMinus_i32", f2 opMinus_i32) ::
  ("fr_minus_i32", f2 fr_minus_i32) :: ("fr_minus_u32", f2 fr_minus_u32) ::
  ("fr_minus_i64", f2 fr_minus_i64) :: ("fr_minus_u64", f2 fr_minus_u64) ::
  ("predec", f1 predec) :: ("postdec", p1 postdec) ::
  ("mulin_I", f2 mulin_I) :: ("mulin_i64", f2 mulin_i64) :: ("mulin_u64", f2 mulin_u64) ::
  ("mulin_i32", f2 mulin_i32) :: ("mulin_u32", f2 mulin_u32) ::
  ("mul_I", f2 mul_I) :: ("mul_i64", f2 mul_i64) :: ("mul_u64", f2 mul_u64) ::
  ("mul_i32", f2 mul_i32) :: ("mul_u32", f2 mul_u32) ::
  ("opMulEq_I", f2 opMulEq_I) :: ("opMulEq_u64", f2 opMulEq_u64) :: ("opMulEq_i64", f2 opMulEq_i64) ::
  ("opMulEq_u32", f2 opMulEq_u32) :: ("opMulEq_i32", f2 opMulEq_i32) :: ("opMulEq_T", f2 opMulEq_T) ::
  ("opMul_I", f2 opMul_I) :: ("opMul_u64", f2 opMul_u64) :: ("opMul_i64", f2 opMul_i64) ::
  ("opMul_u32", f2 opMul_u32) :: ("opMul_i32", f2 opMul_i32) ::
  ("fr_mul_i32", f2 fr_mul_i32) :: ("fr_mul_u32", f2 fr_mul_u32) ::
  ("fr_mul_i64", f2 fr_mul_i64) :: ("fr_mul_u64", f2 fr_mul_u64) ::
  ("axpy_I", fz axpy_I) :: ("axpy_u64", fz axpy_u64) ::
  ("maxpy_I", fz maxpy_I) :: ("maxpy_u64", fz maxpy_u64) ::
  ("axmy_I", fz axmy_I) :: ("axmy_u64", fz axmy_u64) ::
  ("axpyin_I", f3 axpyin_I) :: ("axpyin_u64", f3 axpyin_u64) ::
  ("maxpyin_I", f3 maxpyin_I) :: ("maxpyin_u64", f3 maxpyin_u64) ::
  ("axmyin_I", f3 axmyin_I) :: ("axmyin_u64", f3 axmyin_u64) :: nil.

