(* C01: dispatch table, part 2 (Model2.v, Model3.v) and the entry point of the extracted model. No proofs. *)
From Coq Require Import ZArith Bool List String.
From C01 Require Import Model Model2 Model3 Table.
Local Open Scope Z_scope.
Local Open Scope string_scope.

Definition f4 (f : Z -> Z -> Z -> Z -> Z) : list Z -> list Z := fun l => f (A 0 l) (A 1 l) (A 2 l) (A 3 l) :: nil.
Definition b1 (f : Z -> bool) : list Z -> list Z := fun l => b2z (f (A 0 l)) :: nil.
Definition b2 (f : Z -> Z -> bool) : list Z -> list Z := fun l => b2z (f (A 0 l) (A 1 l)) :: nil.
Definition b3 (f : Z -> Z -> Z -> bool) : list Z -> list Z := fun l => b2z (f (A 0 l) (A 1 l) (A 2 l)) :: nil.
Definition t2 (f : Z -> Z -> Z * Z * Z) : list Z -> list Z :=
  fun l => match f (A 0 l) (A 1 l) with (g, u, v) => g :: u :: v :: nil end.
Definition q2 (f : Z -> Z -> Z * Z * Z * Z * Z) : list Z -> list Z :=
  fun l => match f (A 0 l) (A 1 l) with (g, s, t, u, v) => g :: s :: t :: u :: v :: nil end.
Definition rb2 (f : Z -> Z -> Z * bool) : list Z -> list Z :=
  fun l => match f (A 0 l) (A 1 l) with (q, e) => q :: b2z e :: nil end.
Definition o1 (f : Z -> option Z) : list Z -> list Z := fun l => match f (A 0 l) with Some v => v :: nil | None => nil end.
Definition o2 (f : Z -> Z -> option Z) : list Z -> list Z :=
  fun l => match f (A 0 l) (A 1 l) with Some v => v :: nil | None => nil end.

Definition table2 : list (string * (list Z -> list Z)) :=
  ("ctor_vect", fun l => ctor_vect l :: nil) :: ("cast_vect", fun l => cast_vect (A 0 l)) ::
  ("isZero_I", b1 isZero_I) :: ("isZero_i64", b1 isZero_i64) :: ("isZero_u64", b1 isZero_u64) :: ("priv_sign", f1 priv_sign) ::
  
  ("fact", f1 fact) :: ("swap", fun l => let r := swap (A 0 l) (A 1 l) in fst r :: snd r :: nil) ::
  ("size_in_base", f2 size_in_base) :: ("isperfectpower", f1 isperfectpower) ::
  ("seq_acc_u64", f3 seq_acc_u64) :: ("seq_addsub_u64", f2 seq_addsub_u64) :: ("seq_addsub_i64", f2 seq_addsub_i64) ::
  ("seq_mixed", f4 seq_mixed) :: ("seq_mul_u64", f2 seq_mul_u64) ::
  ("opPlusEq_Td", f3 opPlusEq_Td) :: ("opMinusEq_Td", f3 opMinusEq_Td) :: ("opMulEq_Td", f3 opMulEq_Td) ::
  ("opPlusEq_Tu8", f2 opPlusEq_Tu8) :: ("opMinusEq_Tu8", f2 opMinusEq_Tu8) :: ("opMulEq_Tu8", f2 opMulEq_Tu8) ::
  ("config", fun _ => config) ::
  ("logp_total", f2 logp) :: ("pp_total", f2 pp) :: ("vect_roundtrip", fun l => ctor_vect (cast_vect (A 0 l)) :: nil) ::
  ("nonZero", fun l => b2z (negb (Z.eqb (nonZero (A 0 l)) 0)) :: nil) ::
  ("compare_I", f2 compare_I) :: ("absCompare_I", f2 absCompare_I) :: ("absCompare_d", f3 absCompare_d) ::
  ("absCompare_f", f3 absCompare_f) :: ("absCompare_u64", f2 absCompare_u64) :: ("absCompare_u32", f2 absCompare_u32) ::
  ("absCompare_i64", f2 absCompare_i64) :: ("absCompare_i32", f2 absCompare_i32) ::
  ("absCompareT_u64", f2 absCompareT_u64) ::
  ("absCompareT_i64", f2 absCompareT_i64) :: ("absCompareT_u32", f2 absCompareT_u32) ::
  ("absCompareT_i32", f2 absCompareT_i32) :: 
  ("absCompareT_d", f3 absCompareT_d) :: ("opNe_I", b2 opNe_I) :: ("opNe_d", b3 opNe_d) :: ("opNe_f", b3 opNe_f) ::
  ("opNe_i32", b2 opNe_i32) :: ("opNe_u32", b2 opNe_u32) :: ("opNe_i64", b2 opNe_i64) :: ("opNe_u64", b2 opNe_u64) ::
  ("opEq_I", b2 opEq_I) :: ("opEq_d", b3 opEq_d) :: ("opEq_f", b3 opEq_f) :: ("opEq_i32", b2 opEq_i32) ::
  ("opEq_u32", b2 opEq_u32) :: ("opEq_i64", b2 opEq_i64) :: ("opEq_u64", b2 opEq_u64) :: ("opGt_I", b2 opGt_I) ::
  ("opGt_d", b3 opGt_d) :: ("opGt_f", b3 opGt_f) :: ("opGt_i32", b2 opGt_i32) :: ("opGt_u32", b2 opGt_u32) ::
  ("opGt_i64", b2 opGt_i64) :: ("opGt_u64", b2 opGt_u64) :: ("opLt_I", b2 opLt_I) :: ("opLt_d", b3 opLt_d) ::
  ("opLt_f", b3 opLt_f) :: ("opLt_i32", b2 opLt_i32) :: ("opLt_u32", b2 opLt_u32) :: ("opLt_i64", b2 opLt_i64) ::
  ("opLt_u64", b2 opLt_u64) :: ("opGe_I", b2 opGe_I) :: ("opGe_d", b3 opGe_d) :: ("opGe_f", b3 opGe_f) ::
  ("opGe_i32", b2 opGe_i32) :: ("opGe_u32", b2 opGe_u32) :: ("opGe_i64", b2 opGe_i64) :: ("opGe_u64", b2 opGe_u64) ::
  ("opLe_I", b2 opLe_I) :: ("opLe_d", b3 opLe_d) :: ("opLe_f", b3 opLe_f) :: ("opLe_i32", b2 opLe_i32) ::
  ("opLe_u32", b2 opLe_u32) :: ("opLe_i64", b2 opLe_i64) :: ("opLe_u64", b2 opLe_u64) :: ("fr_ne_d", b3 fr_ne_d) ::
  ("fr_ne_f", b3 fr_ne_f) :: ("fr_ne_i32", b2 fr_ne_i32) :: ("fr_ne_i64", b2 fr_ne_i64) :: ("fr_ne_u64", b2 fr_ne_u64) ::
  ("fr_ne_u32", b2 fr_ne_u32) :: ("fr_eq_d", b3 fr_eq_d) :: ("fr_eq_f", b3 fr_eq_f) :: ("fr_eq_i32", b2 fr_eq_i32) ::
  ("fr_eq_i64", b2 fr_eq_i64) :: ("fr_eq_u64", b2 fr_eq_u64) :: ("fr_eq_u32", b2 fr_eq_u32) :: ("fr_gt_d", b3 fr_gt_d) ::
  ("fr_gt_f", b3 fr_gt_f) :: ("fr_gt_i32", b2 fr_gt_i32) :: ("fr_gt_i64", b2 fr_gt_i64) :: ("fr_gt_u64", b2 fr_gt_u64) ::
  ("fr_gt_u32", b2 fr_gt_u32) :: ("fr_lt_d", b3 fr_lt_d) :: ("fr_lt_f", b3 fr_lt_f) :: ("fr_lt_i32", b2 fr_lt_i32) ::
  ("fr_lt_i64", b2 fr_lt_i64) :: ("fr_lt_u64", b2 fr_lt_u64) :: ("fr_lt_u32", b2 fr_lt_u32) :: ("fr_ge_d", b3 fr_ge_d) ::
  ("fr_ge_f", b3 fr_ge_f) :: ("fr_ge_i32", b2 fr_ge_i32) :: ("fr_ge_i64", b2 fr_ge_i64) :: ("fr_ge_u64", b2 fr_ge_u64) ::
  ("fr_ge_u32", b2 fr_ge_u32) :: ("fr_le_d", b3 fr_le_d) :: ("fr_le_f", b3 fr_le_f) :: ("fr_le_i32", b2 fr_le_i32) ::
  ("fr_le_i64", b2 fr_le_i64) :: ("fr_le_u64", b2 fr_le_u64) :: ("fr_le_u32", b2 fr_le_u32) :: ("isOne", b1 isOne) ::
  ("isMOne", b1 isMOne) :: ("isZero_i16", b1 isZero_i16) :: ("isZero_i32", b1 isZero_i32) ::
  ("isZero_u16", b1 isZero_u16) :: ("isZero_u32", b1 isZero_u32) :: ("sign_m", f1 sign_m) :: ("sign_f", f1 sign_f) ::
  ("isleq_T", b2 isleq_T) :: ("abs_v", f1 abs_v) :: ("isOdd", b1 isOdd) :: ("opShl_u64", f2 opShl_u64) ::
  ("opShl_i32", f2 opShl_i32) :: ("opShl_u32", f2 opShl_u32) :: ("opShl_i64", f2 opShl_i64) ::
  ("opShr_u64", f2 opShr_u64) :: ("opShr_i32", f2 opShr_i32) :: ("opShr_i64", f2 opShr_i64) ::
  ("opShr_u32", f2 opShr_u32) :: ("opShlEq_u64", f2 opShlEq_u64) :: ("opShlEq_i32", f2 opShlEq_i32) ::
  ("opShlEq_u32", f2 opShlEq_u32) :: ("opShlEq_i64", f2 opShlEq_i64) :: ("opShrEq_u64", f2 opShrEq_u64) ::
  ("opShrEq_i32", f2 opShrEq_i32) :: ("opShrEq_i64", f2 opShrEq_i64) :: ("opShrEq_u32", f2 opShrEq_u32) ::
  ("opXorEq_I", f2 opXorEq_I) :: ("opOrEq_I", f2 opOrEq_I) :: ("opAndEq_I", f2 opAndEq_I) ::
  ("opXorEq_u64", f2 opXorEq_u64) :: ("opOrEq_u64", f2 opOrEq_u64) :: ("opAndEq_u64", f2 opAndEq_u64) ::
  ("opXorEq_u32", f2 opXorEq_u32) :: ("opOrEq_u32", f2 opOrEq_u32) :: ("opAndEq_u32", f2 opAndEq_u32) ::
  ("opXor_I", f2 opXor_I) :: ("opOr_I", f2 opOr_I) :: ("opAnd_I", f2 opAnd_I) :: ("opXor_u64", f2 opXor_u64) ::
  ("opOr_u64", f2 opOr_u64) :: ("opXor_u32", f2 opXor_u32) :: ("opOr_u32", f2 opOr_u32) :: ("opAnd_u64", f2 opAnd_u64) ::
  ("opAnd_u32", f2 opAnd_u32) :: ("opNot", f1 opNot) :: ("cast_i32", f1 cast_i32) :: ("cast_u32", f1 cast_u32) ::
  ("cast_i64", f1 cast_i64) :: ("cast_u64", f1 cast_u64) :: ("cast_d", f1 cast_d) :: ("cast_f", f1 cast_f) ::
  ("cast_b", b1 cast_b) :: ("cast_i16", f1 cast_i16) :: ("cast_u16", f1 cast_u16) :: ("cast_u8", f1 cast_u8) ::
  ("cast_i8", f1 cast_i8) :: ("ctor_d", f2 ctor_d) :: ("size", f1 size) :: ("bitsize", f1 bitsize) ::
  ("length", f1 length) :: ("limb", f2 limb) :: ("dom_logtwo", f1 dom_logtwo) :: ("dom_isUnit", b1 dom_isUnit) ::
  ("dom_areEqual", b2 dom_areEqual) :: ("dom_areNEqual", b2 dom_areNEqual) ::
  ("dom_areAssociates", b2 dom_areAssociates) :: ("dom_isgeq", b2 dom_isgeq) :: ("dom_isleq", b2 dom_isleq) ::
  ("dom_isgt", b2 dom_isgt) :: ("dom_islt", b2 dom_islt) :: ("dom_isgeq_iI", b2 dom_isgeq_iI) ::
  ("dom_isleq_iI", b2 dom_isleq_iI) :: ("dom_isgeq_Ii", b2 dom_isgeq_Ii) :: ("dom_isleq_Ii", b2 dom_isleq_Ii) ::
  ("dom_isgt_iI", b2 dom_isgt_iI) :: ("dom_islt_iI", b2 dom_islt_iI) :: ("dom_isgt_Ii", b2 dom_isgt_Ii) ::
  ("dom_islt_Ii", b2 dom_islt_Ii) :: ("pow3_u64", f2 pow3_u64) :: ("pow3_uu", f2 pow3_uu) :: ("pow_u64", f2 pow_u64) ::
  ("pow3_i64", f2 pow3_i64) :: ("pow_i64", f2 pow_i64) :: ("pow3_i32", f2 pow3_i32) :: ("pow3_u32", f2 pow3_u32) ::
  ("pow_i32", f2 pow_i32) :: ("pow_u32", f2 pow_u32) :: ("inv3", f3 inv3) :: ("invin", f2 invin) ::
  ("powmod3_I", f3 powmod3_I) :: ("powmod_I", f3 powmod_I) :: 
  ("powmod3_u64", f3 powmod3_u64) :: ("powmod_u64", f3 powmod_u64) :: 
  ("powmod3_i64", f3 powmod3_i64) :: ("powmod_i64", f3 powmod_i64) :: ("powmod3_u32", f3 powmod3_u32) ::
  ("powmod3_i32", f3 powmod3_i32) :: ("powmod_u32", f3 powmod_u32) :: 
  ("powmod_i32", f3 powmod_i32) :: ("lcm_v", f2 lcm_v) :: ("lcm3", f2 lcm3) :: ("gcd_v", f2 gcd_v) ::
  ("gcd3", f2 gcd3) :: ("gcdext_v", t2 gcdext_v) :: ("gcdext5", t2 gcdext5) :: ("sqrt2", f1 sqrt2) ::
  ("sqrtrem3", p1 sqrtrem3) :: ("sqrt_v", f1 sqrt_v) :: ("sqrtrem_v", p1 sqrtrem_v) :: ("root", rb2 root) ::
  ("dom_pow_i64", f3 dom_pow_i64) :: ("dom_pow_u64", f3 dom_pow_u64) :: ("dom_pow_i32", f3 dom_pow_i32) ::
  ("dom_pow_u32", f3 dom_pow_u32) :: ("dom_powmod_i64", f4 dom_powmod_i64) :: ("dom_powmod_I", f4 dom_powmod_I) ::
  ("dom_gcdin", f2 dom_gcdin) :: ("dom_lcmin", f2 dom_lcmin) ::
  ("dom_dxgcd", q2 dom_dxgcd) :: ("dom_inv_unit", o2 dom_inv_unit) :: ("dom_invin_unit", o1 dom_invin_unit) ::
  ("dom_abs2", f2 dom_abs2) :: nil.

Definition table : list (string * (list Z -> list Z)) := table1 ++ table2.

Fixpoint lookup (name : string) (t : list (string * (list Z -> list Z))) : option (list Z -> list Z) :=
  match t with
  | nil => None
  | (n, f) :: r => if String.eqb n name then Some f else lookup name r
  end.

(* the loops of givaro's own have three outcomes (value / exception / does not return): looked up first by the driver *)
Definition table_o : list (string * (list Z -> outcome)) :=
  ("logp", fun l => logp_fixed_o (A 0 l) (A 1 l)) :: ("pp", fun l => pp_fixed_o (A 0 l) (A 1 l)) ::
  ("logp_before_fix6", fun l => logp_o (A 0 l) (A 1 l)) :: ("pp_before_fix5", fun l => pp_o (A 0 l) (A 1 l)) :: nil.
Fixpoint lookup_o (name : string) (t : list (string * (list Z -> outcome))) : option (list Z -> outcome) :=
  match t with
  | nil => None
  | (n, f) :: r => if String.eqb n name then Some f else lookup_o name r
  end.
Definition run_o (name : string) (args : list Z) : option outcome :=
  match lookup_o name table_o with Some f => Some (f args) | None => None end.

Definition run (name : string) (args : list Z) : option (list Z) :=
  match lookup name table with Some f => Some (f args) | None => None end.
