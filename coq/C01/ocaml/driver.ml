(* C01 driver: one case per line "<model name> <decimal args...>" -> result integers in decimal.
   The variant name is turned into the extracted Coq string (inductive String/Ascii). *)
let coq_ascii (c : char) : Model.ascii =
  let n = Char.code c in
  let b i = (n lsr i) land 1 = 1 in
  Model.Ascii (b 0, b 1, b 2, b 3, b 4, b 5, b 6, b 7)
let coq_string (s : string) : Model.string =
  let r = ref Model.EmptyString in
  for i = String.length s - 1 downto 0 do r := Model.String (coq_ascii s.[i], !r) done; !r
let () = run_lines (fun toks ->
  match toks with
  | name :: args ->
    let zargs = List.map z_of_string args in
    (match Model.run_o (coq_string name) zargs with
     | Some (Model.Ret z) -> string_of_z z
     | Some Model.Throws -> "THROWS"
     | Some Model.NoReturn -> "DOES-NOT-RETURN"
     | None ->
    (match Model.run (coq_string name) zargs with
     | Some res -> String.concat " " (List.map string_of_z res)
     | None -> "UNKNOWN-OP"))
  | _ -> "BAD-LINE")
