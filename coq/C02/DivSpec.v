(* C02 — the four rounding conventions on Z, as relations between (n, d, q, r), with existence
   (the Coq library functions satisfy them) and uniqueness (they determine q and r).
   The property theorems are stated with these relations, not with Z.quot / Z.div directly. *)
From Coq Require Import ZArith Lia Zquot.
Local Open Scope Z_scope.

(* truncation: q rounded towards 0; r has the sign of the dividend n *)
Definition is_trunc (n d q r : Z) : Prop := n = d * q + r /\ Z.abs r < Z.abs d /\ 0 <= n * r.
(* floor: q rounded towards -oo; r has the sign of the divisor d *)
Definition is_floor (n d q r : Z) : Prop := n = d * q + r /\ Z.abs r < Z.abs d /\ 0 <= d * r.
(* ceiling: q rounded towards +oo; r has the sign opposite to d *)
Definition is_ceil (n d q r : Z) : Prop := n = d * q + r /\ Z.abs r < Z.abs d /\ d * r <= 0.
(* euclidean ("division algorithm", mpz_mod): 0 <= r < |d| *)
Definition is_eucl (n d q r : Z) : Prop := n = d * q + r /\ 0 <= r < Z.abs d.

Definition tquo (n d : Z) : Z := Z.quot n d.
Definition trem (n d : Z) : Z := Z.rem n d.
Definition fquo (n d : Z) : Z := n / d.
Definition frem (n d : Z) : Z := n mod d.
Definition cquo (n d : Z) : Z := - ((- n) / d).
Definition crem (n d : Z) : Z := - ((- n) mod d).
Definition emod (n d : Z) : Z := n mod (Z.abs d).
Definition equo (n d : Z) : Z := Z.sgn d * (n / Z.abs d).

(* quotient-only / remainder-only views *)
Definition trunc_quotient (n d q : Z) : Prop := exists r, is_trunc n d q r.
Definition trunc_remainder (n d r : Z) : Prop := exists q, is_trunc n d q r.
Definition floor_quotient (n d q : Z) : Prop := exists r, is_floor n d q r.
Definition floor_remainder (n d r : Z) : Prop := exists q, is_floor n d q r.
Definition ceil_quotient (n d q : Z) : Prop := exists r, is_ceil n d q r.
Definition ceil_remainder (n d r : Z) : Prop := exists q, is_ceil n d q r.
Definition eucl_remainder (n d r : Z) : Prop := exists q, is_eucl n d q r.
Definition eucl_quotient (n d q : Z) : Prop := exists r, is_eucl n d q r.

Lemma tspec : forall n d, d <> 0 -> is_trunc n d (tquo n d) (trem n d).
Proof.
  intros n d Hd. unfold is_trunc, tquo, trem. split; [apply Z.quot_rem'|]. split.
  - apply Z.rem_bound_abs; assumption.
  - destruct (Z.le_gt_cases 0 n) as [H|H].
    + pose proof (Zrem_lt_pos n d H Hd). nia.
    + pose proof (Zrem_lt_neg n d ltac:(lia) Hd). nia.
Qed.

Lemma tuniq : forall n d q r, is_trunc n d q r -> q = tquo n d /\ r = trem n d.
Proof.
  intros n d q r (E & B & S). unfold tquo, trem.
  apply Zquot_mod_unique_full; [|exact E]. unfold Remainder.
  destruct (Z.le_gt_cases 0 n) as [H|H].
  - destruct (Z.eq_dec n 0) as [->|Hn].
    + destruct (Z.le_gt_cases 0 r); [left|right]; lia.
    + left. split; [lia|]. split; [nia|lia].
  - right. split; [lia|]. split; [lia|nia].
Qed.

Lemma fspec : forall n d, d <> 0 -> is_floor n d (fquo n d) (frem n d).
Proof.
  intros n d Hd. unfold is_floor, fquo, frem. split; [apply Z.div_mod; assumption|].
  destruct (Z.lt_trichotomy d 0) as [H|[H|H]]; [|lia|].
  - pose proof (Z.mod_neg_bound n d H). split; [lia|nia].
  - pose proof (Z.mod_pos_bound n d H). split; [lia|nia].
Qed.

Lemma funiq : forall n d q r, is_floor n d q r -> q = fquo n d /\ r = frem n d.
Proof.
  intros n d q r (E & B & S). unfold fquo, frem.
  assert (Hd : d <> 0) by lia.
  assert (R : Zdiv.Remainder r d).
  { unfold Zdiv.Remainder. destruct (Z.lt_trichotomy d 0) as [H|[H|H]]; [right|lia|left].
    - split; [lia|nia].
    - split; [nia|lia]. }
  pose proof (Z.div_mod n d Hd) as E2.
  assert (R2 : Zdiv.Remainder (n mod d) d).
  { unfold Zdiv.Remainder. destruct (Z.lt_trichotomy d 0) as [H|[H|H]]; [right|lia|left].
    - apply Z.mod_neg_bound; assumption.
    - apply Z.mod_pos_bound; assumption. }
  apply (Zdiv_mod_unique_2 d q (n / d) r (n mod d) R R2). lia.
Qed.

Lemma ceil_floor_iff : forall n d q r, is_ceil n d q r <-> is_floor (- n) d (- q) (- r).
Proof. intros. unfold is_ceil, is_floor. rewrite Z.abs_opp. split; intros (E & B & S); repeat split; nia. Qed.

Lemma cspec : forall n d, d <> 0 -> is_ceil n d (cquo n d) (crem n d).
Proof.
  intros n d Hd. apply ceil_floor_iff. unfold cquo, crem. rewrite !Z.opp_involutive.
  apply (fspec (- n) d Hd).
Qed.

Lemma cuniq : forall n d q r, is_ceil n d q r -> q = cquo n d /\ r = crem n d.
Proof.
  intros n d q r H. apply ceil_floor_iff in H. apply funiq in H. unfold fquo, frem, cquo, crem in *. lia.
Qed.

Lemma abs_sgn_mul : forall d q, Z.abs d * (Z.sgn d * q) = d * q.
Proof. intros. destruct d; cbn [Z.abs Z.sgn]; lia. Qed.

Lemma eucl_floor_abs : forall n d q r, is_eucl n d q r <-> is_floor n (Z.abs d) (Z.sgn d * q) r /\ d <> 0.
Proof.
  intros. unfold is_eucl, is_floor. rewrite Z.abs_involutive, abs_sgn_mul.
  split.
  - intros (E & B). split; [|lia]. split; [assumption|split; [lia|nia]].
  - intros ((E & B & S) & Hd). split; [assumption|]. split; [nia|lia].
Qed.

Lemma espec : forall n d, d <> 0 -> is_eucl n d (equo n d) (emod n d).
Proof.
  intros n d Hd. apply eucl_floor_abs. split; [|assumption]. unfold equo, emod.
  replace (Z.sgn d * (Z.sgn d * (n / Z.abs d))) with (n / Z.abs d).
  - apply (fspec n (Z.abs d)). lia.
  - rewrite Z.mul_assoc. destruct d; cbn [Z.sgn]; lia.
Qed.

Lemma euniq : forall n d q r, is_eucl n d q r -> q = equo n d /\ r = emod n d.
Proof.
  intros n d q r H. apply eucl_floor_abs in H. destruct H as (H & Hd). apply funiq in H.
  unfold fquo, frem, equo, emod in *. destruct H as (H1 & H2). split; [|assumption].
  rewrite <- H1. rewrite Z.mul_assoc. destruct d; cbn [Z.sgn]; lia.
Qed.

(* the direction of rounding, said without remainders *)
Lemma trunc_toward_zero : forall n d q r, is_trunc n d q r ->
  Z.abs (d * q) <= Z.abs n /\ Z.abs n < Z.abs (d * q) + Z.abs d.
Proof.
  intros n d q r (E & B & S).
  assert (P : d * q = 0 \/ Z.abs d <= Z.abs (d * q)).
  { destruct (Z.eq_dec q 0) as [->|Hq]; [left; lia|right]. rewrite Z.abs_mul. nia. }
  assert (Sg : (0 <= n /\ 0 <= r) \/ (n <= 0 /\ r <= 0)) by nia.
  remember (d * q) as p. lia.
Qed.

Lemma floor_is_floor : forall n d q r, is_floor n d q r ->
  (0 < d -> d * q <= n < d * (q + 1)) /\ (d < 0 -> d * (q + 1) < n <= d * q).
Proof. intros n d q r (E & B & S). split; intro; nia. Qed.

Lemma ceil_is_ceil : forall n d q r, is_ceil n d q r ->
  (0 < d -> d * (q - 1) < n <= d * q) /\ (d < 0 -> d * q <= n < d * (q - 1)).
Proof. intros n d q r (E & B & S). split; intro; nia. Qed.

(* the conventions coincide exactly where the header says they do *)
Lemma trunc_eucl_agree_nonneg : forall n d q r, 0 <= n -> is_trunc n d q r -> is_eucl n d q r.
Proof.
  intros n d q r Hn H. pose proof (trunc_toward_zero _ _ _ _ H) as T. destruct H as (E & B & S).
  split; [assumption|]. split; [|lia].
  destruct (Z.eq_dec n 0) as [Hz|Hz]; [lia|nia].
Qed.

Lemma exact_all_agree : forall n d q, d <> 0 -> n = d * q ->
  is_trunc n d q 0 /\ is_floor n d q 0 /\ is_ceil n d q 0 /\ is_eucl n d q 0.
Proof. intros. unfold is_trunc, is_floor, is_ceil, is_eucl. repeat split; lia. Qed.

Example conventions_differ : is_trunc (-7) 2 (-3) (-1) /\ is_floor (-7) 2 (-4) 1 /\ is_ceil (-7) 2 (-3) (-1)
  /\ is_eucl (-7) 2 (-4) 1 /\ is_eucl (-7) (-2) 4 1 /\ is_floor 7 (-2) (-4) (-1) /\ is_ceil 7 (-2) (-3) 1.
Proof. unfold is_trunc, is_floor, is_ceil, is_eucl. repeat split; lia. Qed.
