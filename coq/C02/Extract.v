(* Extraction of the executable model for the correspondence run (ExtrOcamlBasic; ExtrOcamlNativeString for the form
   names of the overload table: Coq strings become OCaml strings). *)
From Coq Require Import ZArith.
From Coq Require Extraction.
From Coq Require Import ExtrOcamlBasic ExtrOcamlNativeString.
From C02 Require Import Model Table.
Extraction Language OCaml.
Cd "ocaml".
Extraction "model.ml"
  nat mpz_tdiv_q mpz_tdiv_r mpz_tdiv_qr mpz_fdiv_q mpz_fdiv_r mpz_cdiv_q mpz_cdiv_r mpz_fdiv_qr mpz_cdiv_qr mpz_mod
  mpz_tdiv_q_ui mpz_tdiv_r_ui mpz_tdiv_ui mpz_cdiv_r_ui mpz_cdiv_ui mpz_fdiv_r_ui mpz_fdiv_ui mpz_mod_ui
  mpz_divexact mpz_divexact_ui
  divin_I divin_l divin_ul div_I div_l div_i div_ul
  divexact_q_I divexact_q_ul divexact_q_l divexact_I divexact_ul divexact_l
  op_diveq_I op_diveq_ul op_diveq_l op_diveq_u op_diveq_i op_diveq_T
  op_div_I op_div_ul op_div_l op_div_u op_div_i
  divmod_I divmod_l divmod_ul
  ceil_r floor_r trunc_r ceil_v floor_v trunc_v
  trem_I crem_I frem_I trem_ul crem_ul frem_ul trem_w crem_w frem_w
  w_div_I
  modin_I modin_ul modin_l mod_I mod_l mod_ul mod_i mod_u
  op_modeq_I op_modeq_ul op_modeq_l op_modeq_u op_modeq_i op_modeq_T
  op_mod_I op_mod_ul op_mod_l op_mod_u op_mod_i op_mod_us op_mod_Ts op_mod_Tf round53 op_mod_d op_mod_dx w_mod_I
  dom_div dom_divin dom_mod dom_modin dom_divmod dom_divexact dom_quo dom_quo_floor dom_rem
  dom_quoin dom_remin dom_quoRem dom_isDivisor
  forms form_rows
  cast_i64_u64 cast_u64_i64 cast_i64_i32 cast_i64_i16 cast_abs64 cast_neg64 cast_i64_dbl cast_mpz_dbl cast_dbl_u64
  cfg_sizeof_long cfg_limb_bits cfg_i64_min cfg_i64_max cfg_u64_max cfg_i32_min cfg_u32_max cfg_i16_min cfg_u16_max cfg_dbl_mant_dig.
Cd "..".
