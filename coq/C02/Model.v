(* C02 — executable model of givaro's Integer division / remainder entry points.

   One Gallina definition PER OVERLOAD BODY of
     src/kernel/gmp++/gmp++_int_div.C, src/kernel/gmp++/gmp++_int_mod.C,
     the inline forwarding operators of src/kernel/gmp++/gmp++_int.h (lines 1060-1262)
     and the IntegerDom wrappers of src/kernel/integer/givinteger.h (lines 59-98, 135-139, 288-293),
   written after the code (branch by branch, LP64: __GIVARO_SIZEOF_LONG = 8), over Z.
   No proofs in this file.

   Conventions.  An `Integer` is the Z it denotes.  A machine-word parameter is a Z that the
   theorems assume to lie in the range of its C type (in_i64, in_u64, ...); every cast the code
   performs is explicit (to_u64, to_i64, ...), and so are `std::abs` and unary minus on int64_t
   (two's-complement wrap, what g++/x86-64 produce).  In-place forms return the new value of
   the destination.  Aliasing is not this property's subject (C15). *)
From Coq Require Import ZArith.
Local Open Scope Z_scope.

(* ------------------------------------------------------------------ CInt : the C integer types *)
Definition W16 : Z := 65536.
Definition W32 : Z := 4294967296.
Definition W64 : Z := 18446744073709551616.
Definition H16 : Z := 32768.
Definition H32 : Z := 2147483648.
Definition H64 : Z := 9223372036854775808.

Definition to_u64 (z : Z) : Z := z mod W64.
Definition to_i64 (z : Z) : Z := (z + H64) mod W64 - H64.
Definition to_u32 (z : Z) : Z := z mod W32.
Definition to_i32 (z : Z) : Z := (z + H32) mod W32 - H32.
Definition to_i16 (z : Z) : Z := (z + H16) mod W16 - H16.

Definition in_u64 (z : Z) : Prop := 0 <= z < W64.
Definition in_i64 (z : Z) : Prop := - H64 <= z < H64.
Definition in_u32 (z : Z) : Prop := 0 <= z < W32.
Definition in_i32 (z : Z) : Prop := - H32 <= z < H32.
Definition in_u16 (z : Z) : Prop := 0 <= z < W16.

(* std::abs(long) and unary minus on long: results are long again *)
Definition c_abs64 (n : Z) : Z := to_i64 (Z.abs n).
Definition c_neg64 (n : Z) : Z := to_i64 (- n).
(* template<class T> int32_t Givaro::sign(const T a) { return (a>0)-(a<0); } *)
Definition c_sign (a : Z) : Z := (if 0 <? a then 1 else 0) - (if a <? 0 then 1 else 0).

(* ------------------------------------------------------------------ GmpSpec (TRUSTED)
   Z-level meaning of the mpz primitives the anchored code calls, restating the GMP manual
   (section "Integer Division"): q rounded towards 0 / -oo / +oo for tdiv / fdiv / cdiv,
   n = q d + r, |r| < |d|; the _ui functions return |r| as an unsigned long; mpz_mod is
   non-negative whatever the sign of d; mpz_divexact is only specified when d | n.
   Each definition below is run against the real primitive on every check (forms "gmp.*"). *)
Definition mpz_tdiv_q (n d : Z) : Z := Z.quot n d.
Definition mpz_tdiv_r (n d : Z) : Z := Z.rem n d.
Definition mpz_tdiv_qr (n d : Z) : Z * Z := (Z.quot n d, Z.rem n d).
Definition mpz_fdiv_q (n d : Z) : Z := Z.div n d.
Definition mpz_fdiv_r (n d : Z) : Z := Z.modulo n d.
Definition mpz_cdiv_q (n d : Z) : Z := - Z.div (- n) d.
Definition mpz_cdiv_r (n d : Z) : Z := - Z.modulo (- n) d.
Definition mpz_fdiv_qr (n d : Z) : Z * Z := (Z.div n d, Z.modulo n d).
Definition mpz_cdiv_qr (n d : Z) : Z * Z := (mpz_cdiv_q n d, mpz_cdiv_r n d).
Definition mpz_mod (n d : Z) : Z := Z.modulo n (Z.abs d).
(* _ui variants: d is an unsigned long; result = (value stored, word returned) *)
Definition mpz_tdiv_q_ui (n d : Z) : Z * Z := (Z.quot n d, Z.abs (Z.rem n d)).
Definition mpz_tdiv_r_ui (n d : Z) : Z * Z := (Z.rem n d, Z.abs (Z.rem n d)).
Definition mpz_tdiv_ui (n d : Z) : Z := Z.abs (Z.rem n d).
Definition mpz_cdiv_r_ui (n d : Z) : Z * Z := (mpz_cdiv_r n d, Z.abs (mpz_cdiv_r n d)).
Definition mpz_cdiv_ui (n d : Z) : Z := Z.abs (mpz_cdiv_r n d).
Definition mpz_fdiv_r_ui (n d : Z) : Z * Z := (Z.modulo n d, Z.modulo n d).
Definition mpz_fdiv_ui (n d : Z) : Z := Z.modulo n d.
Definition mpz_mod_ui (n d : Z) : Z := Z.modulo n d.          (* gmp.h: #define mpz_mod_ui mpz_fdiv_r_ui *)
Definition mpz_divexact (n d : Z) : Z := Z.quot n d.           (* meaningful only when d | n *)
Definition mpz_divexact_ui (n d : Z) : Z := Z.quot n d.        (* meaningful only when d | n *)
Definition mpz_neg (n : Z) : Z := - n.

(* Integer-level helpers whose exactness is C01's subject; restated with their Z meaning:
   isZero, Integer(word), Integer::zero, unary operator-, negin, comparison with a word,
   addin/subin with a word, operator+= / -= with an Integer. *)
Definition isZero (x : Z) : bool := x =? 0.

(* ================================================================== gmp++_int_div.C *)

(* Integer& Integer::divin(Integer& res, const Integer& n) *)
Definition divin_I (res n : Z) : Z :=
  if isZero res then res else mpz_tdiv_q res n.

(* Integer& Integer::divin(Integer& res, const int64_t n) *)
Definition divin_l (res n : Z) : Z :=
  if isZero res then res else
  let sgn := c_sign n in
  let res1 := fst (mpz_tdiv_q_ui res (to_u64 (c_abs64 n))) in
  if sgn <? 0 then - res1 (* return res = -res *) else res1.

(* Integer& Integer::divin(Integer& res, const uint64_t n) *)
Definition divin_ul (res n : Z) : Z :=
  if isZero res then res else fst (mpz_tdiv_q_ui res n).

(* Integer& Integer::div(Integer& res, const Integer& n1, const Integer& n2) *)
Definition div_I (n1 n2 : Z) : Z :=
  if isZero n1 then 0 else mpz_tdiv_q n1 n2.

(* Integer& Integer::div(Integer& res, const Integer& n1, const int64_t n2) *)
Definition div_l (n1 n2 : Z) : Z :=
  if isZero n1 then 0 else
  let sgn := c_sign n2 in
  let res1 := fst (mpz_tdiv_q_ui n1 (to_u64 (c_abs64 n2))) in
  if sgn <? 0 then - res1 else res1.

(* Integer& Integer::div(Integer& res, const Integer& n1, const int32_t n2) { return div(res,n1,int64_t(n2)); } *)
Definition div_i (n1 n2 : Z) : Z := div_l n1 (to_i64 n2).

(* Integer& Integer::div(Integer& res, const Integer& n1, const uint64_t n2) *)
Definition div_ul (n1 n2 : Z) : Z :=
  if isZero n1 then 0 else fst (mpz_tdiv_q_ui n1 n2).

(* Integer& Integer::divexact(Integer& q, const Integer& n1, const Integer& n2) *)
Definition divexact_q_I (n1 n2 : Z) : Z :=
  if isZero n1 then 0 else mpz_divexact n1 n2.
(* Integer& Integer::divexact(Integer& q, const Integer& n1, const uint64_t& n2) *)
Definition divexact_q_ul (n1 n2 : Z) : Z :=
  if isZero n1 then 0 else mpz_divexact_ui n1 n2.
(* Integer& Integer::divexact(Integer& q, const Integer& n1, const int64_t& n2) *)
Definition divexact_q_l (n1 n2 : Z) : Z :=
  if isZero n1 then 0 else
  let q := mpz_divexact_ui n1 (to_u64 (c_abs64 n2)) in
  if n2 <? 0 then - q (* negin(q) *) else q.
(* Integer Integer::divexact(const Integer& n1, const Integer& n2) *)
Definition divexact_I (n1 n2 : Z) : Z :=
  if isZero n1 then 0 else mpz_divexact n1 n2.
(* Integer Integer::divexact(const Integer& n1, const uint64_t& n2) *)
Definition divexact_ul (n1 n2 : Z) : Z :=
  if isZero n1 then 0 else mpz_divexact_ui n1 n2.
(* Integer Integer::divexact(const Integer& n1, const int64_t& n2) *)
Definition divexact_l (n1 n2 : Z) : Z :=
  if isZero n1 then 0 else
  let q := mpz_divexact_ui n1 (to_u64 (c_abs64 n2)) in
  if n2 <? 0 then - q else q.

(* Integer& Integer::operator /= (const Integer& n) *)
Definition op_diveq_I (this n : Z) : Z :=
  if isZero this then this else mpz_tdiv_q this n.
(* Integer& Integer::operator /= (const uint64_t l) *)
Definition op_diveq_ul (this l : Z) : Z :=
  if isZero this then this else fst (mpz_tdiv_q_ui this l).
(* Integer& Integer::operator /= (const int64_t l) *)
Definition op_diveq_l (this l : Z) : Z :=
  if isZero this then this else
  let sgn := c_sign l in
  let t1 := fst (mpz_tdiv_q_ui this (to_u64 (c_abs64 l))) in
  if sgn <? 0 then mpz_neg t1 else t1.
(* gmp++_int.h: operator /= (const uint32_t d) { return this->operator/=((uint64_t)d); } *)
Definition op_diveq_u (this d : Z) : Z := op_diveq_ul this (to_u64 d).
(* gmp++_int.h: operator /= (const int32_t d) { return this->operator/=((int64_t)d); } *)
Definition op_diveq_i (this d : Z) : Z := op_diveq_l this (to_i64 d).
(* gmp++_int.h: template<class XXX> operator /=(const XXX& d) { return this->operator /= ( (Integer)d ); } *)
Definition op_diveq_T (this d : Z) : Z := op_diveq_I this d.

(* Integer Integer::operator / (const Integer& n) const *)
Definition op_div_I (this n : Z) : Z :=
  if isZero this then 0 else mpz_tdiv_q this n.
(* Integer Integer::operator / (const uint64_t l) const *)
Definition op_div_ul (this l : Z) : Z :=
  if isZero this then 0 else fst (mpz_tdiv_q_ui this l).
(* Integer Integer::operator / (const int64_t l) const *)
Definition op_div_l (this l : Z) : Z :=
  if isZero this then 0 else
  let sgn := c_sign l in
  let res := fst (mpz_tdiv_q_ui this (to_u64 (c_abs64 l))) in
  if sgn <? 0 then - res (* negin(res) *) else res.
(* gmp++_int.h: operator / (const uint32_t d) const { return this->operator/((uint64_t)d); } *)
Definition op_div_u (this d : Z) : Z := op_div_ul this (to_u64 d).
(* gmp++_int.h: operator / (const int32_t d) const { return this->operator/((int64_t)d); } *)
Definition op_div_i (this d : Z) : Z := op_div_l this (to_i64 d).

(* Integer& Integer::divmod(Integer& q, Integer& r, const Integer& a, const Integer& b)     (body since 4a612f5)
     if (b > 0) mpz_fdiv_qr(q, r, a, b); else mpz_cdiv_qr(q, r, a, b);  *)
Definition divmod_I (a b : Z) : Z * Z :=
  if 0 <? b then mpz_fdiv_qr a b else mpz_cdiv_qr a b.

(* Integer& Integer::divmod(Integer& q, int64_t& r, const Integer& a, const int64_t b)
     const bool aneg = (a<0);   (read before q is written: b47935c)
     r = (int64_t)mpz_tdiv_q_ui(q, a, std::abs(b));
     if (aneg && r) { subin(q,(int64_t)1); r = std::abs(b) - r; }      (int64_t arithmetic)
     if (b<0) negin(q);                                                                   *)
Definition divmod_l (a b : Z) : Z * Z :=
  let (q, w) := mpz_tdiv_q_ui a (to_u64 (c_abs64 b)) in
  let r := to_i64 w in
  let (q1, r1) :=
    if andb (a <? 0) (negb (r =? 0)) then (q - 1, to_i64 (c_abs64 b - r)) else (q, r) in
  (if b <? 0 then - q1 (* negin(q) *) else q1, r1).

(* Integer& Integer::divmod(Integer& q, uint64_t& r, const Integer& a, const uint64_t b) *)
Definition divmod_ul (a b : Z) : Z * Z :=
  let (q, r) := mpz_tdiv_q_ui a b in
  if andb (a <? 0) (negb (r =? 0)) then (q - 1, to_u64 (b - r)) else (q, r).

(* ceil / floor / trunc, both signatures (same bodies) *)
Definition ceil_r (n d : Z) : Z := mpz_cdiv_q n d.
Definition floor_r (n d : Z) : Z := mpz_fdiv_q n d.
Definition trunc_r (n d : Z) : Z := mpz_tdiv_q n d.
Definition ceil_v (n d : Z) : Z := mpz_cdiv_q n d.
Definition floor_v (n d : Z) : Z := mpz_fdiv_q n d.
Definition trunc_v (n d : Z) : Z := mpz_tdiv_q n d.

(* Integer& Integer::trem/crem/frem(Integer& r, const Integer& n, const Integer& d) *)
Definition trem_I (n d : Z) : Z := mpz_tdiv_r n d.
Definition crem_I (n d : Z) : Z := mpz_cdiv_r n d.
Definition frem_I (n d : Z) : Z := mpz_fdiv_r n d.
(* Integer& Integer::trem/crem/frem(Integer& r, const Integer& n, const uint64_t& d) *)
Definition trem_ul (n d : Z) : Z := fst (mpz_tdiv_r_ui n d).
Definition crem_ul (n d : Z) : Z := fst (mpz_cdiv_r_ui n d).
Definition frem_ul (n d : Z) : Z := fst (mpz_fdiv_r_ui n d).
(* uint64_t Integer::trem/crem/frem(const Integer& n, const uint64_t& d) *)
Definition trem_w (n d : Z) : Z := mpz_tdiv_ui n d.
Definition crem_w (n d : Z) : Z := mpz_cdiv_ui n d.
Definition frem_w (n d : Z) : Z := mpz_fdiv_ui n d.

(* Integer operator / (const int32_t/int64_t/uint32_t/uint64_t l, const Integer& n) { return Integer(l)/n; } *)
Definition w_div_I (l n : Z) : Z := op_div_I l n.

(* ================================================================== gmp++_int_mod.C *)

(* Integer& Integer::modin(Integer& res, const Integer& n) *)
Definition modin_I (res n : Z) : Z :=
  if isZero res then res else mpz_mod res n.
(* Integer& Integer::modin(Integer& res, const uint64_t n) *)
Definition modin_ul (res n : Z) : Z :=
  if isZero res then res else mpz_mod_ui res n.
(* Integer& Integer::modin(Integer& res, const int64_t n) *)
Definition modin_l (res n : Z) : Z :=
  if isZero res then res else
  if 0 <? n then mpz_mod_ui res (to_u64 n) else mpz_mod_ui res (to_u64 (c_neg64 n)).

(* Integer& Integer::mod(Integer& res, const Integer& n1, const Integer& n2) *)
Definition mod_I (n1 n2 : Z) : Z :=
  if isZero n1 then 0 else mpz_mod n1 n2.
(* Integer& Integer::mod(Integer& res, const Integer& n1, const int64_t n2) *)
Definition mod_l (n1 n2 : Z) : Z :=
  if isZero n1 then 0 else
  if 0 <? n2 then mpz_mod_ui n1 (to_u64 n2) else mpz_mod_ui n1 (to_u64 (c_neg64 n2)).
(* Integer& Integer::mod(Integer& res, const Integer& n1, const uint64_t n2) *)
Definition mod_ul (n1 n2 : Z) : Z :=
  if isZero n1 then 0 else mpz_mod_ui n1 n2.
(* gmp++_int.h: mod(r, n, const int32_t d) { return Integer::mod(r,n,(int64_t)d); } *)
Definition mod_i (n d : Z) : Z := mod_l n (to_i64 d).
(* gmp++_int.h: mod(r, n, const uint32_t d) { return Integer::mod(r,n,(uint64_t)d); } *)
Definition mod_u (n d : Z) : Z := mod_ul n (to_u64 d).

(* Integer& Integer::operator %= (const Integer& n) *)
Definition op_modeq_I (this n : Z) : Z :=
  if isZero this then this else mpz_tdiv_r this n.
(* Integer& Integer::operator %= (const uint64_t l) *)
Definition op_modeq_ul (this l : Z) : Z :=
  if isZero this then this else fst (mpz_tdiv_r_ui this l).
(* Integer& Integer::operator %= (const int64_t l) *)
Definition op_modeq_l (this l : Z) : Z :=
  if isZero this then this else fst (mpz_tdiv_r_ui this (to_u64 (c_abs64 l))).
(* gmp++_int.h: operator %= (const uint32_t n) { return this->operator%=((uint64_t)n); } *)
Definition op_modeq_u (this n : Z) : Z := op_modeq_ul this (to_u64 n).
(* gmp++_int.h: operator %= (const int32_t n) { return this->operator%=((int64_t)n); } *)
Definition op_modeq_i (this n : Z) : Z := op_modeq_l this (to_i64 n).
(* gmp++_int.h: template<class XXX> operator %=(const XXX& n) { return this->operator %= ( (Integer)n ); } *)
Definition op_modeq_T (this n : Z) : Z := op_modeq_I this n.

(* Integer Integer::operator % (const Integer& n) const *)
Definition op_mod_I (this n : Z) : Z :=
  if isZero this then 0 else mpz_tdiv_r this n.

(* int64_t Integer::operator % (const uint64_t l) const *)
Definition op_mod_ul (this l : Z) : Z :=
  if isZero this then 0 else
  let isneg := this <? 0 in
  let res := mpz_tdiv_ui this l in                      (* uint64_t *)
  if res =? 0 then to_i64 res
  else if isneg then c_neg64 (to_i64 res)                (* -(int64_t)res *)
  else to_i64 res.

(* int64_t Integer::operator % (const int64_t l) const *)
Definition op_mod_l (this l : Z) : Z :=
  if 0 <? l then to_i64 (op_mod_ul this (to_u64 l))
  else to_i64 (op_mod_ul this (to_u64 (c_neg64 l))).

(* gmp++_int.h (since e502f6c = frag/C02.fix-3.diff): int64_t operator % (const uint32_t n) const { return this->operator%((uint64_t)n); } *)
Definition op_mod_u (this n : Z) : Z := op_mod_ul this (to_u64 n).
(* HISTORY: the body before e502f6c, int32_t ... { return (int32_t)this->operator%((uint64_t)n); } (refuted: C02_percent_narrow_return_refuted) *)
Definition op_mod_u_old (this n : Z) : Z := to_i32 (op_mod_ul this (to_u64 n)).
(* gmp++_int.h: int32_t operator % (const int32_t n) const { return (int32_t)this->operator%((int64_t)n); } *)
Definition op_mod_i (this n : Z) : Z := to_i32 (op_mod_l this (to_i64 n)).
(* gmp++_int.h (since e502f6c): int32_t operator % (const uint16_t n) const { return (int32_t)(this->operator%((uint64_t)n)); } *)
Definition op_mod_us (this n : Z) : Z := to_i32 (op_mod_ul this (to_u64 n)).
(* HISTORY: the body before e502f6c, int16_t ... { return (int16_t)(...); } *)
Definition op_mod_us_old (this n : Z) : Z := to_i16 (op_mod_ul this (to_u64 n)).

(* gmp++_int.h: template<class XXX> XXX operator %(const XXX& n) const { return (XXX)this->operator % ( Integer(n) ); }
   instantiated at XXX = short (Integer(short) goes through Integer(int32_t); the result, of magnitude
   < 2^15, is converted back by operator int16_t) *)
Definition op_mod_Ts (this n : Z) : Z := to_i16 (op_mod_I this n).

(* ... and at XXX = float, for an integer-valued float l (|l| <= 2^24): Integer(float) goes through Integer(double),
   the remainder (|r| < 2^24) is converted back exactly by operator float *)
Definition op_mod_Tf (this l : Z) : Z := op_mod_I this l.

(* int64_t -> double (static_cast<double>): round to nearest, ties to even, 53-bit significand *)
Definition round53 (z : Z) : Z :=
  let a := Z.abs z in
  if a <? 9007199254740992 then z else
  let k := Z.log2 a - 52 in
  let q := a / 2 ^ k in
  let r := a mod 2 ^ k in
  let h := 2 ^ (k - 1) in
  let q' := if orb (h <? r) (andb (r =? h) (Z.odd q)) then q + 1 else q in
  Z.sgn z * (q' * 2 ^ k).

(* Integer -> double (operator double = mpz_get_d): truncation TOWARDS ZERO to a 53-bit significand *)
Definition trunc53 (z : Z) : Z :=
  let a := Z.abs z in
  if a <? 9007199254740992 then z else
  let k := Z.log2 a - 52 in
  Z.sgn z * ((a / 2 ^ k) * 2 ^ k).

(* double Integer::operator % (const double l) const          (body since 2c6554a = frag/C02.fix-5.diff)
     const double res = static_cast<double>( this->operator%( Integer(l) ) );
   The double l is given as the dyadic K / 2^s (s >= 0 fractional bits); Integer(double) = mpz_init_set_d truncates towards
   zero; the remainder goes back through operator double = mpz_get_d.  op_mod_d: integer-valued l (s = 0); op_mod_dx: s = 4. *)
Definition op_mod_dfrac (this K s : Z) : Z := trunc53 (op_mod_I this (Z.quot K (2 ^ s))).
Definition op_mod_d (this l : Z) : Z := op_mod_dfrac this l 0.
Definition op_mod_dx (this K : Z) : Z := op_mod_dfrac this K 4.
(* HISTORY: the body before 2c6554a went through the uint64_t overload (int64_t result, wraps for |l| > 2^63) and rounded the
   int64_t to double to NEAREST (round53):
     if (l>0) res = static_cast<double>(this->operator%( static_cast<uint64_t>(l) ) );
     else     res = static_cast<double>(this->operator%( static_cast<uint64_t>(-l) ) );  *)
Definition op_mod_dfrac_old (this K s : Z) : Z :=
  if 0 <? K then round53 (op_mod_ul this (to_u64 (K / 2 ^ s)))
  else round53 (op_mod_ul this (to_u64 ((- K) / 2 ^ s))).
Definition op_mod_d_old (this l : Z) : Z := op_mod_dfrac_old this l 0.
Definition op_mod_dx_old (this K : Z) : Z := op_mod_dfrac_old this K 4.

(* Integer operator % (const int32_t/int64_t/uint32_t/uint64_t l, const Integer& n) { return Integer(l) % n; } *)
Definition w_mod_I (l n : Z) : Z := op_mod_I l n.

(* ================================================================== givinteger.h (IntegerDom) *)
Definition dom_div (a b : Z) : Z := div_I a b.
Definition dom_divin (r b : Z) : Z := divin_I r b.
Definition dom_mod (a b : Z) : Z := mod_I a b.
Definition dom_modin (r b : Z) : Z := modin_I r b.
Definition dom_divmod (a b : Z) : Z * Z := divmod_I a b.
Definition dom_divexact (a b : Z) : Z := divexact_q_I a b.
(* quo(q,a,b) { return (b < 0) ? Integer::ceil(q,a,b) : Integer::floor(q,a,b); }      (since a7f1360 = frag/C02.fix-1.diff;
   before it the body was `return Integer::floor(q,a,b);` = dom_quo_floor below, which disagrees with rem / quoRem for
   b < 0: lemma quo_floor_inconsistent) *)
Definition dom_quo (a b : Z) : Z := if b <? 0 then ceil_r a b else floor_r a b.
Definition dom_quo_floor (a b : Z) : Z := floor_r a b.
(* rem(r,a,b) { return Integer::mod(r,a,b); } *)
Definition dom_rem (a b : Z) : Z := mod_I a b.
(* quoin(a,b) { return quo(a,a,b); }   remin(a,b) { return modin(a,b); } *)
Definition dom_quoin (a b : Z) : Z := dom_quo a b.
Definition dom_remin (a b : Z) : Z := dom_modin a b.
(* quoRem(q,r,a,b) { Integer::divmod(q,r,a,b); } *)
Definition dom_quoRem (a b : Z) : Z * Z := divmod_I a b.
(* isDivisor(a,b) { Element r; if (isZero(b)) return isZero(a); return isZero(mod(r,a,b)); } *)
Definition dom_isDivisor (a b : Z) : bool :=
  if isZero b then isZero a else isZero (dom_mod a b).

(* ================================================================== phase 3 *)
(* ------------------------------------------------------------------ 8-bit types (template instantiations) *)
Definition W8 : Z := 256.
Definition H8 : Z := 128.
Definition to_i8 (z : Z) : Z := (z + H8) mod W8 - H8.
Definition to_u8 (z : Z) : Z := z mod W8.
Definition in_i8 (z : Z) : Prop := - H8 <= z < H8.
Definition in_u8 (z : Z) : Prop := 0 <= z < W8.

(* gmp++_int.h: template<class XXX> XXX operator %(const XXX& n) const { return (XXX)this->operator % ( Integer(n) ); }
   at XXX = signed char:   operator signed char() const { return (signed char) (int) *this; }  (int = mpz_get_si narrowed) *)
Definition op_mod_Tc (this n : Z) : Z := to_i8 (to_i32 (op_mod_I this n)).
(* at XXX = unsigned char: operator unsigned char() const { return (unsigned char) (uint32_t) *this; }
   and operator uint32_t() = (uint32_t) mpz_get_ui: the ABSOLUTE value ("Cast towards unsigned consider only the absolute value") *)
Definition op_mod_Tuc (this n : Z) : Z := to_u8 (to_u32 (Z.abs (op_mod_I this n))).

(* unparametric-operations.h, UnparametricOperations<Integer> (the non-virtual base of ZRing<Integer>):
     div(x,y,z) { return x = y / z; }   divin(x,y) { return x /= y; }
     mod(x,y,z) { return x = Moder(y,z); } = y % z      modin(x,y) { return Moderin(x,y); } = x %= y *)
Definition zbase_div (y z : Z) : Z := op_div_I y z.
Definition zbase_divin (x y : Z) : Z := op_diveq_I x y.
Definition zbase_mod (y z : Z) : Z := op_mod_I y z.
Definition zbase_modin (x y : Z) : Z := op_modeq_I x y.

(* ------------------------------------------------------------------ raw conversions of the CInt layer, as the code uses them
   (each is run against the compiled C conversion on every check: forms "cast.*") *)
Definition cast_i64_u64 (z : Z) : Z := to_u64 z.                  (* (uint64_t)(int64_t) *)
Definition cast_u64_i64 (z : Z) : Z := to_i64 z.                  (* (int64_t)(uint64_t) *)
Definition cast_i64_i32 (z : Z) : Z := to_i32 z.                  (* (int32_t)(int64_t) *)
Definition cast_i64_i16 (z : Z) : Z := to_i16 z.                  (* (int16_t)(int64_t) *)
Definition cast_abs64 (z : Z) : Z := to_u64 (c_abs64 z).          (* unsigned long a = std::abs(long) *)
Definition cast_neg64 (z : Z) : Z := to_u64 (c_neg64 z).          (* unsigned long a = -long *)
Definition cast_i64_dbl (z : Z) : Z := round53 z.                 (* static_cast<double>(int64_t) *)
Definition cast_mpz_dbl (z : Z) : Z := trunc53 z.                 (* mpz_get_d / Integer::operator double *)
Definition cast_dbl_u64 (K : Z) : Z := to_u64 (K / 2 ^ 4).        (* static_cast<uint64_t>(K / 16.0), 0 <= K/16 < 2^64 *)

(* configuration the model is written for (printed by the compiled harness on every check: forms "cfg.*") *)
Definition cfg_sizeof_long : Z := 8.
Definition cfg_limb_bits : Z := 64.
Definition cfg_i64_min : Z := - H64.
Definition cfg_i64_max : Z := H64 - 1.
Definition cfg_u64_max : Z := W64 - 1.
Definition cfg_i32_min : Z := - H32.
Definition cfg_u32_max : Z := W32 - 1.
Definition cfg_i16_min : Z := - H16.
Definition cfg_u16_max : Z := W16 - 1.
Definition cfg_dbl_mant_dig : Z := 53.
