(* C02 — lemmas: C integer layer, the truncating / floor / ceiling / euclidean entry points of gmp++_int_div.C *)
From Coq Require Import ZArith Lia Zquot Bool.
From C02 Require Import Model DivSpec.
Local Open Scope Z_scope.
Ltac Zify.zify_post_hook ::= Z.to_euclidean_division_equations.

(* ------------------------------------------------------------------ C integer layer *)
Ltac cint := unfold c_abs64, c_neg64 in *;
             unfold in_i64, in_u64, in_i32, in_u32, in_u16, to_u64, to_i64, to_u32, to_i32, to_i16,
                    H64, W64, H32, W32, H16, W16 in *.

Lemma to_u64_abs64 : forall n, in_i64 n -> to_u64 (c_abs64 n) = Z.abs n.
Proof. intros n H. cint. lia. Qed.
Lemma to_u64_neg64 : forall n, in_i64 n -> n <= 0 -> to_u64 (c_neg64 n) = Z.abs n.
Proof. intros n H Hn. cint. lia. Qed.
Lemma to_u64_id : forall z, in_u64 z -> to_u64 z = z.
Proof. intros z H. cint. lia. Qed.
Lemma to_i64_id : forall z, in_i64 z -> to_i64 z = z.
Proof. intros z H. cint. lia. Qed.
Lemma to_i32_id : forall z, in_i32 z -> to_i32 z = z.
Proof. intros z H. cint. lia. Qed.
Lemma i32_i64 : forall z, in_i32 z -> in_i64 z.
Proof. intros z H. cint. lia. Qed.
Lemma u32_u64 : forall z, in_u32 z -> in_u64 z.
Proof. intros z H. cint. lia. Qed.
Lemma to_u64_pos : forall z, in_i64 z -> 0 < z -> to_u64 z = Z.abs z.
Proof. intros z H Hz. cint. lia. Qed.
Lemma sign_neg : forall n, (c_sign n <? 0) = (n <? 0).
Proof.
  intros n. unfold c_sign. destruct (Z.ltb_spec 0 n), (Z.ltb_spec n 0); try lia; reflexivity.
Qed.

(* ------------------------------------------------------------------ arithmetic glue *)
Lemma quot_abs_r : forall n d, d <> 0 -> (if d <? 0 then - Z.quot n (Z.abs d) else Z.quot n (Z.abs d)) = Z.quot n d.
Proof.
  intros n d Hd. destruct (Z.ltb_spec d 0).
  - rewrite Z.abs_neq by lia. rewrite Z.quot_opp_r by lia. lia.
  - rewrite Z.abs_eq by lia. reflexivity.
Qed.

Lemma tq_of_val : forall n d q, d <> 0 -> q = Z.quot n d -> trunc_quotient n d q.
Proof. intros n d q Hd ->. exists (Z.rem n d). apply (tspec n d Hd). Qed.
Lemma tr_of_val : forall n d r, d <> 0 -> r = Z.rem n d -> trunc_remainder n d r.
Proof. intros n d r Hd ->. exists (Z.quot n d). apply (tspec n d Hd). Qed.
Lemma fq_of_val : forall n d q, d <> 0 -> q = n / d -> floor_quotient n d q.
Proof. intros n d q Hd ->. exists (n mod d). apply (fspec n d Hd). Qed.
Lemma fr_of_val : forall n d r, d <> 0 -> r = n mod d -> floor_remainder n d r.
Proof. intros n d r Hd ->. exists (n / d). apply (fspec n d Hd). Qed.
Lemma cq_of_val : forall n d q, d <> 0 -> q = cquo n d -> ceil_quotient n d q.
Proof. intros n d q Hd ->. exists (crem n d). apply (cspec n d Hd). Qed.
Lemma cr_of_val : forall n d r, d <> 0 -> r = crem n d -> ceil_remainder n d r.
Proof. intros n d r Hd ->. exists (cquo n d). apply (cspec n d Hd). Qed.
Lemma er_of_val : forall n d r, d <> 0 -> r = n mod Z.abs d -> eucl_remainder n d r.
Proof. intros n d r Hd ->. exists (equo n d). apply (espec n d Hd). Qed.

Lemma trunc_quotient_unique : forall n d q q', trunc_quotient n d q -> trunc_quotient n d q' -> q = q'.
Proof. intros n d q q' (r & H) (r' & H'). apply tuniq in H, H'. lia. Qed.
Lemma trunc_remainder_unique : forall n d r r', trunc_remainder n d r -> trunc_remainder n d r' -> r = r'.
Proof. intros n d r r' (q & H) (q' & H'). apply tuniq in H, H'. lia. Qed.
Lemma eucl_remainder_unique : forall n d r r', eucl_remainder n d r -> eucl_remainder n d r' -> r = r'.
Proof. intros n d r r' (q & H) (q' & H'). apply euniq in H, H'. lia. Qed.
Lemma is_eucl_unique : forall n d q r q' r', is_eucl n d q r -> is_eucl n d q' r' -> q = q' /\ r = r'.
Proof. intros n d q r q' r' H H'. apply euniq in H, H'. lia. Qed.

(* ------------------------------------------------------------------ statements *)
Definition anyZ (_ : Z) : Prop := True.
Definition Trunc_quot (dom : Z -> Prop) (f : Z -> Z -> Z) : Prop :=
  forall n d, dom d -> d <> 0 -> trunc_quotient n d (f n d).
Definition Floor_quot (dom : Z -> Prop) (f : Z -> Z -> Z) : Prop :=
  forall n d, dom d -> d <> 0 -> floor_quotient n d (f n d).
Definition Ceil_quot (dom : Z -> Prop) (f : Z -> Z -> Z) : Prop :=
  forall n d, dom d -> d <> 0 -> ceil_quotient n d (f n d).
Definition Exact_quot (dom : Z -> Prop) (f : Z -> Z -> Z) : Prop :=
  forall n d q, dom d -> d <> 0 -> n = d * q -> f n d = q.
Definition Eucl_divmod (dom : Z -> Prop) (f : Z -> Z -> Z * Z) : Prop :=
  forall n d, dom d -> d <> 0 -> is_eucl n d (fst (f n d)) (snd (f n d)) /\ dom (snd (f n d)).
Definition Trunc_rem (dom : Z -> Prop) (f : Z -> Z -> Z) : Prop :=
  forall n d, dom d -> d <> 0 -> trunc_remainder n d (f n d).
Definition Floor_rem (dom : Z -> Prop) (f : Z -> Z -> Z) : Prop :=
  forall n d, dom d -> d <> 0 -> floor_remainder n d (f n d).
Definition Ceil_rem (dom : Z -> Prop) (f : Z -> Z -> Z) : Prop :=
  forall n d, dom d -> d <> 0 -> ceil_remainder n d (f n d).
(* word-returning remainders: the word is the absolute value of the named remainder *)
Definition Abs_trunc_rem_word (f : Z -> Z -> Z) : Prop :=
  forall n d, in_u64 d -> d <> 0 -> in_u64 (f n d) /\ exists r, trunc_remainder n d r /\ f n d = Z.abs r.
Definition Abs_ceil_rem_word (f : Z -> Z -> Z) : Prop :=
  forall n d, in_u64 d -> d <> 0 -> in_u64 (f n d) /\ exists r, ceil_remainder n d r /\ f n d = Z.abs r.
Definition Floor_rem_word (f : Z -> Z -> Z) : Prop :=
  forall n d, in_u64 d -> d <> 0 -> in_u64 (f n d) /\ floor_remainder n d (f n d).

(* ------------------------------------------------------------------ truncating quotients *)
Ltac zcase x := unfold isZero; destruct (Z.eqb_spec x 0) as [?Hz|?Hz]; [subst x|].

Lemma quot0 : forall d, Z.quot 0 d = 0. Proof. intros. apply Zquot_0_l. Qed.

Lemma tq_I : forall n d, d <> 0 -> (if isZero n then n else mpz_tdiv_q n d) = Z.quot n d.
Proof. intros n d Hd. zcase n; [rewrite quot0|]; reflexivity. Qed.
Lemma tq_I0 : forall n d, d <> 0 -> (if isZero n then 0 else mpz_tdiv_q n d) = Z.quot n d.
Proof. intros n d Hd. zcase n; [rewrite quot0|]; reflexivity. Qed.

Lemma tq_l_core : forall n d, in_i64 d -> d <> 0 ->
  (if c_sign d <? 0 then - fst (mpz_tdiv_q_ui n (to_u64 (c_abs64 d))) else fst (mpz_tdiv_q_ui n (to_u64 (c_abs64 d)))) = Z.quot n d.
Proof.
  intros n d H Hd. rewrite sign_neg, to_u64_abs64 by assumption. cbn [mpz_tdiv_q_ui fst]. apply quot_abs_r; assumption.
Qed.

Lemma divin_I_tq : Trunc_quot anyZ divin_I.
Proof. intros n d _ Hd. apply tq_of_val; [assumption|]. unfold divin_I. apply tq_I; assumption. Qed.
Lemma div_I_tq : Trunc_quot anyZ div_I.
Proof. intros n d _ Hd. apply tq_of_val; [assumption|]. unfold div_I. apply tq_I0; assumption. Qed.
Lemma op_diveq_I_tq : Trunc_quot anyZ op_diveq_I.
Proof. intros n d _ Hd. apply tq_of_val; [assumption|]. unfold op_diveq_I. apply tq_I; assumption. Qed.
Lemma op_div_I_tq : Trunc_quot anyZ op_div_I.
Proof. intros n d _ Hd. apply tq_of_val; [assumption|]. unfold op_div_I. apply tq_I0; assumption. Qed.
Lemma op_diveq_T_tq : Trunc_quot anyZ op_diveq_T.
Proof. exact op_diveq_I_tq. Qed.
Lemma trunc_r_tq : Trunc_quot anyZ trunc_r.
Proof. intros n d _ Hd. apply tq_of_val; [assumption|reflexivity]. Qed.
Lemma trunc_v_tq : Trunc_quot anyZ trunc_v.
Proof. intros n d _ Hd. apply tq_of_val; [assumption|reflexivity]. Qed.
(* word / Integer: the dividend is the word, any value of it *)
Lemma w_div_I_tq : Trunc_quot anyZ w_div_I.
Proof. exact op_div_I_tq. Qed.

Lemma divin_l_val : forall n d, in_i64 d -> d <> 0 -> divin_l n d = Z.quot n d.
Proof. intros n d H Hd. unfold divin_l. zcase n; [rewrite quot0; reflexivity|]. cbv zeta. apply tq_l_core; assumption. Qed.
Lemma div_l_val : forall n d, in_i64 d -> d <> 0 -> div_l n d = Z.quot n d.
Proof. intros n d H Hd. unfold div_l. zcase n; [rewrite quot0; reflexivity|]. cbv zeta. apply tq_l_core; assumption. Qed.
Lemma op_diveq_l_val : forall n d, in_i64 d -> d <> 0 -> op_diveq_l n d = Z.quot n d.
Proof. intros n d H Hd. unfold op_diveq_l, mpz_neg. zcase n; [rewrite quot0; reflexivity|]. cbv zeta. apply tq_l_core; assumption. Qed.
Lemma op_div_l_val : forall n d, in_i64 d -> d <> 0 -> op_div_l n d = Z.quot n d.
Proof. intros n d H Hd. unfold op_div_l. zcase n; [rewrite quot0; reflexivity|]. cbv zeta. apply tq_l_core; assumption. Qed.

Lemma divin_l_tq : Trunc_quot in_i64 divin_l.
Proof. intros n d H Hd. apply tq_of_val; [assumption|]. apply divin_l_val; assumption. Qed.
Lemma div_l_tq : Trunc_quot in_i64 div_l.
Proof. intros n d H Hd. apply tq_of_val; [assumption|]. apply div_l_val; assumption. Qed.
Lemma op_diveq_l_tq : Trunc_quot in_i64 op_diveq_l.
Proof. intros n d H Hd. apply tq_of_val; [assumption|]. apply op_diveq_l_val; assumption. Qed.
Lemma op_div_l_tq : Trunc_quot in_i64 op_div_l.
Proof. intros n d H Hd. apply tq_of_val; [assumption|]. apply op_div_l_val; assumption. Qed.
Lemma div_i_tq : Trunc_quot in_i32 div_i.
Proof.
  intros n d H Hd. apply tq_of_val; [assumption|]. unfold div_i. pose proof (i32_i64 d H).
  rewrite to_i64_id by assumption. apply div_l_val; assumption.
Qed.
Lemma op_diveq_i_tq : Trunc_quot in_i32 op_diveq_i.
Proof.
  intros n d H Hd. apply tq_of_val; [assumption|]. unfold op_diveq_i. pose proof (i32_i64 d H).
  rewrite to_i64_id by assumption. apply op_diveq_l_val; assumption.
Qed.
Lemma op_div_i_tq : Trunc_quot in_i32 op_div_i.
Proof.
  intros n d H Hd. apply tq_of_val; [assumption|]. unfold op_div_i. pose proof (i32_i64 d H).
  rewrite to_i64_id by assumption. apply op_div_l_val; assumption.
Qed.

Lemma tq_ul : forall n d, (if isZero n then n else fst (mpz_tdiv_q_ui n d)) = Z.quot n d.
Proof. intros n d. zcase n; [rewrite quot0|]; reflexivity. Qed.
Lemma tq_ul0 : forall n d, (if isZero n then 0 else fst (mpz_tdiv_q_ui n d)) = Z.quot n d.
Proof. intros n d. zcase n; [rewrite quot0|]; reflexivity. Qed.

Lemma divin_ul_tq : Trunc_quot in_u64 divin_ul.
Proof. intros n d _ Hd. apply tq_of_val; [assumption|]. apply tq_ul. Qed.
Lemma div_ul_tq : Trunc_quot in_u64 div_ul.
Proof. intros n d _ Hd. apply tq_of_val; [assumption|]. apply tq_ul0. Qed.
Lemma op_diveq_ul_tq : Trunc_quot in_u64 op_diveq_ul.
Proof. intros n d _ Hd. apply tq_of_val; [assumption|]. apply tq_ul. Qed.
Lemma op_div_ul_tq : Trunc_quot in_u64 op_div_ul.
Proof. intros n d _ Hd. apply tq_of_val; [assumption|]. apply tq_ul0. Qed.
Lemma op_diveq_u_tq : Trunc_quot in_u32 op_diveq_u.
Proof.
  intros n d H Hd. apply tq_of_val; [assumption|]. unfold op_diveq_u. rewrite to_u64_id by (apply u32_u64; assumption). apply tq_ul.
Qed.
Lemma op_div_u_tq : Trunc_quot in_u32 op_div_u.
Proof.
  intros n d H Hd. apply tq_of_val; [assumption|]. unfold op_div_u. rewrite to_u64_id by (apply u32_u64; assumption). apply tq_ul0.
Qed.

(* ------------------------------------------------------------------ floor / ceil *)
Lemma floor_r_fq : Floor_quot anyZ floor_r.
Proof. intros n d _ Hd. apply fq_of_val; [assumption|reflexivity]. Qed.
Lemma floor_v_fq : Floor_quot anyZ floor_v.
Proof. intros n d _ Hd. apply fq_of_val; [assumption|reflexivity]. Qed.
Lemma ceil_r_cq : Ceil_quot anyZ ceil_r.
Proof. intros n d _ Hd. apply cq_of_val; [assumption|reflexivity]. Qed.
Lemma ceil_v_cq : Ceil_quot anyZ ceil_v.
Proof. intros n d _ Hd. apply cq_of_val; [assumption|reflexivity]. Qed.

(* ------------------------------------------------------------------ exact division *)
Lemma quot_exact : forall n d q, d <> 0 -> n = d * q -> Z.quot n d = q.
Proof.
  intros n d q Hd E. destruct (exact_all_agree n d q Hd E) as (T & _). apply tuniq in T. unfold tquo in T. lia.
Qed.

Lemma quot_if0 : forall n d, (if isZero n then 0 else Z.quot n d) = Z.quot n d.
Proof. intros n d. zcase n; [rewrite quot0|]; reflexivity. Qed.

Lemma divexact_q_I_ex : Exact_quot anyZ divexact_q_I.
Proof. intros n d q _ Hd E. unfold divexact_q_I, mpz_divexact. rewrite quot_if0. apply quot_exact; assumption. Qed.
Lemma divexact_I_ex : Exact_quot anyZ divexact_I.
Proof. exact divexact_q_I_ex. Qed.
Lemma divexact_q_ul_ex : Exact_quot in_u64 divexact_q_ul.
Proof. intros n d q _ Hd E. unfold divexact_q_ul, mpz_divexact_ui. rewrite quot_if0. apply quot_exact; assumption. Qed.
Lemma divexact_ul_ex : Exact_quot in_u64 divexact_ul.
Proof. exact divexact_q_ul_ex. Qed.
Lemma divexact_q_l_ex : Exact_quot in_i64 divexact_q_l.
Proof.
  intros n d q H Hd E. rewrite <- (quot_exact n d q Hd E). clear E. unfold divexact_q_l, mpz_divexact_ui.
  zcase n; [rewrite quot0; reflexivity|]. cbv zeta. rewrite to_u64_abs64 by assumption. apply quot_abs_r; assumption.
Qed.
Lemma divexact_l_ex : Exact_quot in_i64 divexact_l.
Proof. exact divexact_q_l_ex. Qed.

(* ------------------------------------------------------------------ euclidean division *)
Lemma divmod_I_eucl : Eucl_divmod anyZ divmod_I.
Proof.
  intros n d _ Hd. split; [|exact I]. unfold divmod_I, mpz_fdiv_qr, mpz_cdiv_qr, mpz_cdiv_q, mpz_cdiv_r.
  destruct (Z.ltb_spec 0 d); cbn [fst snd].
  - destruct (fspec n d Hd) as (E & B & S). unfold fquo, frem in *. unfold is_eucl. split; [exact E|]. split; nia.
  - destruct (cspec n d Hd) as (E & B & S). unfold cquo, crem in *. unfold is_eucl. split; [exact E|]. split; nia.
Qed.

Lemma divmod_ul_eucl : Eucl_divmod in_u64 divmod_ul.
Proof.
  intros n d H Hd. unfold divmod_ul, mpz_tdiv_q_ui.
  destruct (tspec n d Hd) as (E & B & S). unfold tquo, trem in *.
  assert (Sg : (0 <= n /\ 0 <= Z.rem n d) \/ (n < 0 /\ Z.rem n d <= 0)) by nia.
  destruct (Z.ltb_spec n 0); destruct (Z.eqb_spec (Z.abs (Z.rem n d)) 0); cbn [andb negb fst snd]; unfold is_eucl; cint; lia.
Qed.

(* the int64_t overload (body after cf0f25d): |b| through std::abs, q re-signed at the end; INT64_MIN included *)
Lemma divmod_l_eucl : Eucl_divmod in_i64 divmod_l.
Proof.
  intros n d H Hd. unfold divmod_l, mpz_tdiv_q_ui. rewrite to_u64_abs64 by assumption.
  assert (Ha : Z.abs d <> 0) by lia.
  destruct (tspec n (Z.abs d) Ha) as (E & B & S). unfold tquo, trem in *. rewrite Z.abs_involutive in B.
  assert (Sg : (0 <= n /\ 0 <= Z.rem n (Z.abs d)) \/ (n < 0 /\ Z.rem n (Z.abs d) <= 0)) by nia.
  cbv zeta.
  assert (R : to_i64 (Z.abs (Z.rem n (Z.abs d))) = Z.abs (Z.rem n (Z.abs d))) by (cint; lia).
  rewrite R.
  destruct (Z.ltb_spec n 0); destruct (Z.eqb_spec (Z.abs (Z.rem n (Z.abs d))) 0); cbn [andb negb fst snd];
    destruct (Z.ltb_spec d 0); cbn [fst snd]; unfold is_eucl; cint; lia.
Qed.

(* ------------------------------------------------------------------ named remainders *)
Lemma trem_I_tr : Trunc_rem anyZ trem_I.
Proof. intros n d _ Hd. apply tr_of_val; [assumption|reflexivity]. Qed.
Lemma frem_I_fr : Floor_rem anyZ frem_I.
Proof. intros n d _ Hd. apply fr_of_val; [assumption|reflexivity]. Qed.
Lemma crem_I_cr : Ceil_rem anyZ crem_I.
Proof. intros n d _ Hd. apply cr_of_val; [assumption|reflexivity]. Qed.
Lemma trem_ul_tr : Trunc_rem in_u64 trem_ul.
Proof. intros n d _ Hd. apply tr_of_val; [assumption|reflexivity]. Qed.
Lemma frem_ul_fr : Floor_rem in_u64 frem_ul.
Proof. intros n d _ Hd. apply fr_of_val; [assumption|reflexivity]. Qed.
Lemma crem_ul_cr : Ceil_rem in_u64 crem_ul.
Proof. intros n d _ Hd. apply cr_of_val; [assumption|reflexivity]. Qed.

Lemma frem_w_fr : Floor_rem_word frem_w.
Proof.
  intros n d H Hd. unfold frem_w, mpz_fdiv_ui. split.
  - pose proof (Z.mod_pos_bound n d). cint. lia.
  - apply fr_of_val; [assumption|reflexivity].
Qed.
Lemma trem_w_tr : Abs_trunc_rem_word trem_w.
Proof.
  intros n d H Hd. unfold trem_w, mpz_tdiv_ui. split.
  - pose proof (Z.rem_bound_abs n d Hd). cint. lia.
  - exists (Z.rem n d). split; [apply tr_of_val; [assumption|reflexivity]|reflexivity].
Qed.
Lemma crem_w_cr : Abs_ceil_rem_word crem_w.
Proof.
  intros n d H Hd. unfold crem_w, mpz_cdiv_ui, mpz_cdiv_r. split.
  - pose proof (Z.mod_pos_bound (- n) d). cint. lia.
  - exists (crem n d). split; [apply cr_of_val; [assumption|reflexivity]|reflexivity].
Qed.
