From Coq Require Import ZArith.
