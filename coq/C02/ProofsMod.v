(* C02 — lemmas: gmp++_int_mod.C (mod / modin / %= / %), the IntegerDom view, agreement of the overloads *)
From Coq Require Import ZArith Lia Zquot Bool.
From C02 Require Import Model DivSpec ProofsDiv.
Local Open Scope Z_scope.
Ltac Zify.zify_post_hook ::= Z.to_euclidean_division_equations.

Definition in_i16 (z : Z) : Prop := - H16 <= z < H16.
Definition in_d53 (z : Z) : Prop := - 9007199254740992 <= z <= 9007199254740992.   (* integer-valued doubles, |l| <= 2^53 *)
Ltac cint' := unfold in_i16, in_d53 in *; cint.

(* ------------------------------------------------------------------ statements *)
Definition Eucl_rem (dom : Z -> Prop) (f : Z -> Z -> Z) : Prop :=
  forall n d, dom d -> d <> 0 -> eucl_remainder n d (f n d).
(* word-returning %: whenever the truncated remainder is representable in the return type, it is returned *)
Definition Trunc_rem_when (dom ret : Z -> Prop) (f : Z -> Z -> Z) : Prop :=
  forall n d r, dom d -> d <> 0 -> trunc_remainder n d r -> ret r -> f n d = r.

(* ------------------------------------------------------------------ values *)
Lemma mod0 : forall d, 0 mod d = 0. Proof. intros. apply Zmod_0_l. Qed.
Lemma rem0 : forall d, Z.rem 0 d = 0. Proof. intros. apply Zrem_0_l. Qed.

Lemma mod_if0 : forall n d, (if isZero n then 0 else n mod d) = n mod d.
Proof. intros n d. zcase n; [rewrite mod0|]; reflexivity. Qed.
Lemma mod_ifn : forall n d, (if isZero n then n else n mod d) = n mod d.
Proof. intros n d. zcase n; [rewrite mod0|]; reflexivity. Qed.
Lemma rem_if0 : forall n d, (if isZero n then 0 else Z.rem n d) = Z.rem n d.
Proof. intros n d. zcase n; [rewrite rem0|]; reflexivity. Qed.
Lemma rem_ifn : forall n d, (if isZero n then n else Z.rem n d) = Z.rem n d.
Proof. intros n d. zcase n; [rewrite rem0|]; reflexivity. Qed.

Lemma mod_I_val : forall n d, mod_I n d = n mod Z.abs d.
Proof. intros. unfold mod_I, mpz_mod. apply mod_if0. Qed.
Lemma modin_I_val : forall n d, modin_I n d = n mod Z.abs d.
Proof. intros. unfold modin_I, mpz_mod. apply mod_ifn. Qed.
Lemma mod_ul_val : forall n d, in_u64 d -> mod_ul n d = n mod Z.abs d.
Proof. intros n d H. unfold mod_ul, mpz_mod_ui. rewrite mod_if0. rewrite Z.abs_eq by (cint; lia). reflexivity. Qed.
Lemma modin_ul_val : forall n d, in_u64 d -> modin_ul n d = n mod Z.abs d.
Proof. intros n d H. unfold modin_ul, mpz_mod_ui. rewrite mod_ifn. rewrite Z.abs_eq by (cint; lia). reflexivity. Qed.

(* the signed-word bodies: `if (n>0) mpz_mod_ui(.., n) else mpz_mod_ui(.., -n)`; -INT64_MIN wraps to INT64_MIN, whose
   conversion to unsigned long is 2^63 = |INT64_MIN| *)
Lemma sgn_split_abs : forall d, in_i64 d -> d <> 0 ->
  (if 0 <? d then to_u64 d else to_u64 (c_neg64 d)) = Z.abs d.
Proof.
  intros d H Hd. destruct (Z.ltb_spec 0 d).
  - apply to_u64_pos; assumption.
  - apply to_u64_neg64; [assumption|lia].
Qed.

Lemma mod_l_val : forall n d, in_i64 d -> d <> 0 -> mod_l n d = n mod Z.abs d.
Proof.
  intros n d H Hd. unfold mod_l, mpz_mod_ui. rewrite <- (sgn_split_abs d H Hd).
  zcase n; [destruct (0 <? d); rewrite mod0; reflexivity|]. destruct (0 <? d); reflexivity.
Qed.
Lemma modin_l_val : forall n d, in_i64 d -> d <> 0 -> modin_l n d = n mod Z.abs d.
Proof.
  intros n d H Hd. unfold modin_l, mpz_mod_ui. rewrite <- (sgn_split_abs d H Hd).
  zcase n; [destruct (0 <? d); rewrite mod0; reflexivity|]. destruct (0 <? d); reflexivity.
Qed.
Lemma mod_i_val : forall n d, in_i32 d -> d <> 0 -> mod_i n d = n mod Z.abs d.
Proof. intros n d H Hd. unfold mod_i. pose proof (i32_i64 d H). rewrite to_i64_id by assumption. apply mod_l_val; assumption. Qed.
Lemma mod_u_val : forall n d, in_u32 d -> mod_u n d = n mod Z.abs d.
Proof. intros n d H. unfold mod_u. pose proof (u32_u64 d H). rewrite to_u64_id by assumption. apply mod_ul_val; assumption. Qed.

(* ------------------------------------------------------------------ mod / modin : 0 <= r < |d| *)
Lemma mod_I_er : Eucl_rem anyZ mod_I.
Proof. intros n d _ Hd. apply er_of_val; [assumption|apply mod_I_val]. Qed.
Lemma modin_I_er : Eucl_rem anyZ modin_I.
Proof. intros n d _ Hd. apply er_of_val; [assumption|apply modin_I_val]. Qed.
Lemma mod_ul_er : Eucl_rem in_u64 mod_ul.
Proof. intros n d H Hd. apply er_of_val; [assumption|apply mod_ul_val; assumption]. Qed.
Lemma modin_ul_er : Eucl_rem in_u64 modin_ul.
Proof. intros n d H Hd. apply er_of_val; [assumption|apply modin_ul_val; assumption]. Qed.
Lemma mod_l_er : Eucl_rem in_i64 mod_l.
Proof. intros n d H Hd. apply er_of_val; [assumption|apply mod_l_val; assumption]. Qed.
Lemma modin_l_er : Eucl_rem in_i64 modin_l.
Proof. intros n d H Hd. apply er_of_val; [assumption|apply modin_l_val; assumption]. Qed.
Lemma mod_i_er : Eucl_rem in_i32 mod_i.
Proof. intros n d H Hd. apply er_of_val; [assumption|apply mod_i_val; assumption]. Qed.
Lemma mod_u_er : Eucl_rem in_u32 mod_u.
Proof. intros n d H Hd. apply er_of_val; [assumption|apply mod_u_val; assumption]. Qed.

(* ------------------------------------------------------------------ %= : truncated remainder, sign of the dividend *)
Lemma op_modeq_I_val : forall n d, op_modeq_I n d = Z.rem n d.
Proof. intros. unfold op_modeq_I, mpz_tdiv_r. apply rem_ifn. Qed.
Lemma op_modeq_ul_val : forall n d, op_modeq_ul n d = Z.rem n d.
Proof. intros. unfold op_modeq_ul, mpz_tdiv_r_ui. cbn [fst]. apply rem_ifn. Qed.
Lemma op_modeq_l_val : forall n d, in_i64 d -> d <> 0 -> op_modeq_l n d = Z.rem n d.
Proof.
  intros n d H Hd. unfold op_modeq_l, mpz_tdiv_r_ui. cbn [fst]. rewrite rem_ifn, to_u64_abs64 by assumption.
  apply Z.rem_abs_r; assumption.
Qed.

Lemma op_modeq_I_tr : Trunc_rem anyZ op_modeq_I.
Proof. intros n d _ Hd. apply tr_of_val; [assumption|apply op_modeq_I_val]. Qed.
Lemma op_modeq_T_tr : Trunc_rem anyZ op_modeq_T.
Proof. exact op_modeq_I_tr. Qed.
Lemma op_modeq_ul_tr : Trunc_rem in_u64 op_modeq_ul.
Proof. intros n d _ Hd. apply tr_of_val; [assumption|apply op_modeq_ul_val]. Qed.
Lemma op_modeq_l_tr : Trunc_rem in_i64 op_modeq_l.
Proof. intros n d H Hd. apply tr_of_val; [assumption|apply op_modeq_l_val; assumption]. Qed.
Lemma op_modeq_u_tr : Trunc_rem in_u32 op_modeq_u.
Proof.
  intros n d H Hd. apply tr_of_val; [assumption|]. unfold op_modeq_u. rewrite to_u64_id by (apply u32_u64; assumption).
  apply op_modeq_ul_val.
Qed.
Lemma op_modeq_i_tr : Trunc_rem in_i32 op_modeq_i.
Proof.
  intros n d H Hd. apply tr_of_val; [assumption|]. unfold op_modeq_i. pose proof (i32_i64 d H).
  rewrite to_i64_id by assumption. apply op_modeq_l_val; assumption.
Qed.

(* ------------------------------------------------------------------ % *)
Lemma op_mod_I_val : forall n d, op_mod_I n d = Z.rem n d.
Proof. intros. unfold op_mod_I, mpz_tdiv_r. apply rem_if0. Qed.
Lemma op_mod_I_tr : Trunc_rem anyZ op_mod_I.
Proof. intros n d _ Hd. apply tr_of_val; [assumption|apply op_mod_I_val]. Qed.
Lemma w_mod_I_tr : Trunc_rem anyZ w_mod_I.
Proof. exact op_mod_I_tr. Qed.

(* int64_t Integer::operator%(uint64_t): |r| is computed as an unsigned long and re-signed in int64_t *)
Lemma op_mod_ul_val : forall n d, in_u64 d -> d <> 0 -> in_i64 (Z.rem n d) -> op_mod_ul n d = Z.rem n d.
Proof.
  intros n d H Hd Hr. unfold op_mod_ul, mpz_tdiv_ui.
  zcase n; [rewrite rem0; reflexivity|]. cbv zeta.
  destruct (tspec n d Hd) as (E & B & S). unfold tquo, trem in *.
  assert (Sg : (0 < n /\ 0 <= Z.rem n d) \/ (n < 0 /\ Z.rem n d <= 0)) by nia.
  remember (Z.rem n d) as r. clear Heqr E.
  destruct (Z.eqb_spec (Z.abs r) 0); [cint; lia|].
  destruct (Z.ltb_spec n 0); cint; lia.
Qed.

Lemma trunc_remainder_val : forall n d r, trunc_remainder n d r -> r = Z.rem n d.
Proof. intros n d r (q & H). apply tuniq in H. apply H. Qed.

Lemma op_mod_ul_trw : Trunc_rem_when in_u64 in_i64 op_mod_ul.
Proof.
  intros n d r H Hd T Hr. apply trunc_remainder_val in T. subst r. apply op_mod_ul_val; assumption.
Qed.

Lemma rem_small : forall n d, d <> 0 -> Z.abs (Z.rem n d) < Z.abs d.
Proof. intros. apply Z.rem_bound_abs; assumption. Qed.

Lemma op_mod_l_val : forall n d, in_i64 d -> d <> 0 -> op_mod_l n d = Z.rem n d.
Proof.
  intros n d H Hd. unfold op_mod_l. rewrite <- (Z.rem_abs_r n d Hd).
  pose proof (rem_small n (Z.abs d) ltac:(lia)) as B. rewrite Z.abs_involutive in B.
  assert (U : in_u64 (Z.abs d)) by (cint; lia).
  assert (R : in_i64 (Z.rem n (Z.abs d))) by (cint; lia).
  destruct (Z.ltb_spec 0 d).
  - rewrite to_u64_pos by assumption. rewrite op_mod_ul_val by (assumption || lia). apply to_i64_id; assumption.
  - rewrite to_u64_neg64 by (assumption || lia). rewrite op_mod_ul_val by (assumption || lia). apply to_i64_id; assumption.
Qed.
Lemma op_mod_l_tr : Trunc_rem in_i64 op_mod_l.
Proof. intros n d H Hd. apply tr_of_val; [assumption|apply op_mod_l_val; assumption]. Qed.

(* int32_t operator%(int32_t): |r| < |d| <= 2^31, always representable *)
Lemma op_mod_i_val : forall n d, in_i32 d -> d <> 0 -> op_mod_i n d = Z.rem n d.
Proof.
  intros n d H Hd. unfold op_mod_i. pose proof (i32_i64 d H). rewrite to_i64_id by assumption.
  rewrite op_mod_l_val by assumption. pose proof (rem_small n d Hd). cint. lia.
Qed.
Lemma op_mod_i_tr : Trunc_rem in_i32 op_mod_i.
Proof. intros n d H Hd. apply tr_of_val; [assumption|apply op_mod_i_val; assumption]. Qed.

(* int32_t operator%(uint32_t), int16_t operator%(uint16_t): the return type is narrower than the divisor's *)
Lemma op_mod_u_trw_old : Trunc_rem_when in_u32 in_i32 op_mod_u_old.
Proof.
  intros n d r H Hd T Hr. apply trunc_remainder_val in T. subst r. unfold op_mod_u_old.
  pose proof (u32_u64 d H). rewrite to_u64_id by assumption.
  rewrite op_mod_ul_val; [apply to_i32_id; assumption|assumption|assumption|cint; lia].
Qed.
Lemma op_mod_us_trw_old : Trunc_rem_when in_u16 in_i16 op_mod_us_old.
Proof.
  intros n d r H Hd T Hr. apply trunc_remainder_val in T. subst r. unfold op_mod_us_old.
  assert (in_u64 d) by (cint; lia). rewrite to_u64_id by assumption.
  rewrite op_mod_ul_val; [cint'; lia|assumption|assumption|cint'; lia].
Qed.
(* template operator%(XXX) at XXX = short: through Integer, result narrowed; always representable *)
Lemma op_mod_Ts_val : forall n d, in_i16 d -> d <> 0 -> op_mod_Ts n d = Z.rem n d.
Proof.
  intros n d H Hd. unfold op_mod_Ts. rewrite op_mod_I_val. pose proof (rem_small n d Hd). cint'. lia.
Qed.
Lemma op_mod_Ts_tr : Trunc_rem in_i16 op_mod_Ts.
Proof. intros n d H Hd. apply tr_of_val; [assumption|apply op_mod_Ts_val; assumption]. Qed.
(* template operator%(XXX) at XXX = float, integer-valued |l| <= 2^24 *)
Definition in_f24 (z : Z) : Prop := - 16777216 <= z <= 16777216.
Lemma op_mod_Tf_tr : Trunc_rem in_f24 op_mod_Tf.
Proof. intros n d _ Hd. apply tr_of_val; [assumption|apply op_mod_I_val]. Qed.

(* --- the narrow-return overloads for EVERY divisor: the truncated remainder converted to the return type
       (two's-complement conversion, as for any C integer narrowing); it is the remainder itself when that fits *)
Lemma to_i64_0 : to_i64 0 = 0. Proof. reflexivity. Qed.

Lemma op_mod_ul_wrap : forall n d, in_u64 d -> d <> 0 -> op_mod_ul n d = to_i64 (Z.rem n d).
Proof.
  intros n d H Hd. unfold op_mod_ul, mpz_tdiv_ui.
  zcase n; [rewrite rem0; reflexivity|]. cbv zeta.
  destruct (tspec n d Hd) as (E & B & S). unfold tquo, trem in *.
  assert (Sg : (0 < n /\ 0 <= Z.rem n d) \/ (n < 0 /\ Z.rem n d <= 0)) by nia.
  remember (Z.rem n d) as r. clear Heqr E S.
  destruct (Z.eqb_spec (Z.abs r) 0) as [Ez|Ez].
  - replace r with 0 by lia. reflexivity.
  - destruct (Z.ltb_spec n 0).
    + rewrite (Z.abs_neq r) by lia. cint. lia.
    + rewrite (Z.abs_eq r) by lia. reflexivity.
Qed.
Lemma op_mod_u_wrap_old : forall n d, in_u32 d -> d <> 0 -> op_mod_u_old n d = to_i32 (Z.rem n d).
Proof.
  intros n d H Hd. unfold op_mod_u_old. pose proof (u32_u64 d H). rewrite to_u64_id by assumption.
  rewrite op_mod_ul_wrap by assumption. pose proof (rem_small n d Hd). rewrite to_i64_id by (cint; lia). reflexivity.
Qed.
Lemma op_mod_us_wrap_old : forall n d, in_u16 d -> d <> 0 -> op_mod_us_old n d = to_i16 (Z.rem n d).
Proof.
  intros n d H Hd. unfold op_mod_us_old. assert (in_u64 d) by (cint; lia). rewrite to_u64_id by assumption.
  rewrite op_mod_ul_wrap by assumption. pose proof (rem_small n d Hd). rewrite to_i64_id by (cint; lia). reflexivity.
Qed.

(* --- double operator%(double): l = K / 2^s, integer part t = trunc(l), 1 <= |t| < 2^64 *)
Lemma round53_small : forall z, Z.abs z <= 9007199254740992 -> round53 z = z.
Proof.
  intros z H. unfold round53. cbv zeta. destruct (Z.ltb_spec (Z.abs z) 9007199254740992); [reflexivity|].
  assert (A : Z.abs z = 9007199254740992) by lia.
  destruct z as [|p|p]; cbn [Z.abs] in A; try discriminate; injection A as ->; vm_compute; reflexivity.
Qed.

(* round53 is a nearest 53-bit-significand value: a multiple of the unit 2^k in the last place, at most half a unit away *)
Definition Round53_nearest_stmt : Prop :=
  forall z, 9007199254740992 <= Z.abs z ->
    let k := Z.log2 (Z.abs z) - 52 in
    1 <= k /\ (exists m, round53 z = Z.sgn z * (m * 2 ^ k) /\ 2 ^ 52 <= m <= 2 ^ 53) /\ 2 * Z.abs (round53 z - z) <= 2 ^ k.
Lemma round53_nearest : Round53_nearest_stmt.
Proof.
  intros z Hz k.
  assert (L : 53 <= Z.log2 (Z.abs z)) by (apply (Z.log2_le_mono (2 ^ 53)); exact Hz).
  assert (K1 : 1 <= k) by (subst k; lia). split; [exact K1|].
  unfold round53. cbv zeta. destruct (Z.ltb_spec (Z.abs z) 9007199254740992); [lia|]. fold k.
  remember (Z.abs z) as a.
  assert (P : 0 < 2 ^ k) by (apply Z.pow_pos_nonneg; lia).
  assert (Hh : 2 ^ k = 2 * 2 ^ (k - 1)).
  { replace k with (Z.succ (k - 1)) at 1 by lia. rewrite Z.pow_succ_r by lia. reflexivity. }
  pose proof (Z.div_mod a (2 ^ k) ltac:(lia)) as DM. pose proof (Z.mod_pos_bound a (2 ^ k) P) as MB.
  destruct (Z.log2_spec a ltac:(lia)) as (Lo & Hi).
  assert (Ek : Z.log2 a = 52 + k) by (subst k; lia).
  rewrite Ek in Lo, Hi. rewrite Z.pow_add_r in Lo by lia.
  replace (Z.succ (52 + k)) with (53 + k) in Hi by lia. rewrite Z.pow_add_r in Hi by lia.
  remember (a / 2 ^ k) as q. remember (a mod 2 ^ k) as r. remember (2 ^ (k - 1)) as h. remember (2 ^ k) as u.
  change (2 ^ 52) with 4503599627370496 in *. change (2 ^ 53) with 9007199254740992 in *.
  assert (Q : 4503599627370496 <= q < 9007199254740992) by nia.
  assert (Sz : z = Z.sgn z * a) by (subst a; destruct z; cbn [Z.sgn Z.abs]; lia).
  assert (S1 : Z.sgn z = 1 \/ Z.sgn z = -1) by (destruct z; cbn [Z.sgn Z.abs] in *; lia).
  destruct (orb (h <? r) (andb (r =? h) (Z.odd q))) eqn:Eo.
  - assert (R : h <= r).
    { apply Bool.orb_true_iff in Eo. destruct Eo as [Eo|Eo]; [apply Z.ltb_lt in Eo; lia|].
      apply Bool.andb_true_iff in Eo. destruct Eo as (Eo & _). apply Z.eqb_eq in Eo. lia. }
    split; [exists (q + 1); split; [reflexivity|lia]|]. destruct S1 as [S1|S1]; rewrite S1 in *; nia.
  - assert (R : r <= h).
    { apply Bool.orb_false_iff in Eo. destruct Eo as (Eo & _). apply Z.ltb_ge in Eo. lia. }
    split; [exists q; split; [reflexivity|lia]|]. destruct S1 as [S1|S1]; rewrite S1 in *; nia.
Qed.

Definition Percent_double_stmt_old : Prop :=
  forall n K s, 0 <= s -> let t := Z.quot K (2 ^ s) in t <> 0 -> Z.abs t < W64 ->
    op_mod_dfrac_old n K s = round53 (to_i64 (Z.rem n t)).
Lemma percent_double_old : Percent_double_stmt_old.
Proof.
  intros n K s Hs t Ht Hb. subst t. unfold op_mod_dfrac_old.
  assert (P : 0 < 2 ^ s) by (apply Z.pow_pos_nonneg; lia).
  destruct (Z.ltb_spec 0 K).
  - rewrite <- Z.quot_div_nonneg by lia.
    rewrite Z.abs_eq in Hb by (apply Z.quot_pos; lia).
    rewrite to_u64_id by (cint; split; [apply Z.quot_pos; lia|lia]).
    rewrite op_mod_ul_wrap; [reflexivity|cint; split; [apply Z.quot_pos; lia|lia]|assumption].
  - rewrite <- Z.quot_div_nonneg by lia. rewrite Z.quot_opp_l by lia.
    assert (Q : Z.quot K (2 ^ s) <= 0).
    { pose proof (Z.quot_pos (- K) (2 ^ s) ltac:(lia) P) as Q0. rewrite Z.quot_opp_l in Q0 by lia. lia. }
    rewrite Z.abs_neq in Hb by lia.
    rewrite to_u64_id by (cint; lia).
    rewrite op_mod_ul_wrap by (cint; lia). rewrite Z.rem_opp_r by lia. reflexivity.
Qed.

Lemma op_mod_d_wrap_old : forall n d, d <> 0 -> Z.abs d < W64 -> op_mod_d_old n d = round53 (to_i64 (Z.rem n d)).
Proof.
  intros n d Hd Hb. unfold op_mod_d_old. pose proof (percent_double_old n d 0 ltac:(lia)) as P. cbv zeta in P.
  change (2 ^ 0) with 1 in P. rewrite Z.quot_1_r in P. apply P; assumption.
Qed.
Lemma op_mod_dx_wrap_old : forall n K, Z.quot K 16 <> 0 -> Z.abs (Z.quot K 16) < W64 ->
  op_mod_dx_old n K = round53 (to_i64 (Z.rem n (Z.quot K 16))).
Proof. intros n K H1 H2. unfold op_mod_dx_old. apply (percent_double_old n K 4 ltac:(lia)); assumption. Qed.

(* integer-valued doubles of magnitude <= 2^53: everything is exact *)
Lemma op_mod_d_val_old : forall n d, in_d53 d -> d <> 0 -> op_mod_d_old n d = Z.rem n d.
Proof.
  intros n d H Hd. rewrite op_mod_d_wrap_old by (assumption || (cint'; lia)).
  pose proof (rem_small n d Hd). rewrite to_i64_id by (cint'; lia). apply round53_small. cint'. lia.
Qed.
Lemma op_mod_d_tr_old : Trunc_rem in_d53 op_mod_d_old.
Proof. intros n d H Hd. apply tr_of_val; [assumption|apply op_mod_d_val_old; assumption]. Qed.

(* ------------------------------------------------------------------ `/` with `%`, divmod with mod (header warning) *)
Definition Div_mod_pair_stmt : Prop :=
  forall n d, d <> 0 -> is_trunc n d (op_div_I n d) (op_mod_I n d).
Lemma div_mod_pair : Div_mod_pair_stmt.
Proof.
  intros n d Hd. unfold op_div_I, mpz_tdiv_q. rewrite quot_if0, op_mod_I_val. apply (tspec n d Hd).
Qed.

Definition Divmod_mod_stmt : Prop :=
  forall n d, d <> 0 -> snd (divmod_I n d) = mod_I n d.
Lemma divmod_mod : Divmod_mod_stmt.
Proof.
  intros n d Hd. destruct (divmod_I_eucl n d I Hd) as (H & _).
  apply (eucl_remainder_unique n d).
  - exists (fst (divmod_I n d)). exact H.
  - apply mod_I_er; [exact I|assumption].
Qed.

(* "one should not mix the two conventions and expect equalities (except if a >= 0)" *)
Definition Conventions_agree_nonneg_stmt : Prop :=
  forall n d, 0 <= n -> d <> 0 -> op_mod_I n d = mod_I n d /\ op_div_I n d = fst (divmod_I n d).
Lemma conventions_agree_nonneg : Conventions_agree_nonneg_stmt.
Proof.
  intros n d Hn Hd. pose proof (div_mod_pair n d Hd) as T.
  apply (trunc_eucl_agree_nonneg _ _ _ _ Hn) in T.
  destruct (divmod_I_eucl n d I Hd) as (H & _).
  destruct (is_eucl_unique _ _ _ _ _ _ T H) as (Eq & Er).
  split; [|assumption]. rewrite Er. apply divmod_mod; assumption.
Qed.

(* ------------------------------------------------------------------ IntegerDom *)
Lemma dom_mod_er : Eucl_rem anyZ dom_mod.   Proof. exact mod_I_er. Qed.
Lemma dom_modin_er : Eucl_rem anyZ dom_modin. Proof. exact modin_I_er. Qed.
Lemma dom_rem_er : Eucl_rem anyZ dom_rem.   Proof. exact mod_I_er. Qed.
Lemma dom_remin_er : Eucl_rem anyZ dom_remin. Proof. exact modin_I_er. Qed.
Lemma dom_div_tq : Trunc_quot anyZ dom_div. Proof. exact div_I_tq. Qed.
Lemma dom_divin_tq : Trunc_quot anyZ dom_divin. Proof. exact divin_I_tq. Qed.
Lemma dom_divexact_ex : Exact_quot anyZ dom_divexact. Proof. exact divexact_q_I_ex. Qed.
Lemma dom_divmod_eucl : Eucl_divmod anyZ dom_divmod. Proof. exact divmod_I_eucl. Qed.
Lemma dom_quoRem_eucl : Eucl_divmod anyZ dom_quoRem. Proof. exact divmod_I_eucl. Qed.

(* the Euclidean-ring view: quo, rem, quoin, remin and quoRem describe ONE division a = b q + r, 0 <= r < |b| *)
Definition Euclidean_ring_consistent_stmt : Prop :=
  forall a b, b <> 0 ->
    is_eucl a b (dom_quo a b) (dom_rem a b) /\
    dom_quoRem a b = (dom_quo a b, dom_rem a b) /\
    dom_quoin a b = dom_quo a b /\ dom_remin a b = dom_rem a b.

Lemma dom_quo_eucl : forall a b, b <> 0 -> is_eucl a b (dom_quo a b) (dom_rem a b).
Proof.
  intros a b Hb. unfold dom_quo, dom_rem, ceil_r, floor_r, mpz_cdiv_q, mpz_fdiv_q. rewrite mod_I_val.
  destruct (Z.ltb_spec b 0).
  - destruct (cspec a b Hb) as (E & B & S). unfold cquo, crem in *.
    assert (M : a mod Z.abs b = - (- a mod b)).
    { rewrite (Z.abs_neq b) by lia.
      pose proof (Z.mod_opp_opp a (- b) ltac:(lia)) as O. rewrite Z.opp_involutive in O. lia. }
    rewrite M. unfold is_eucl. split; [exact E|]. split; nia.
  - destruct (fspec a b Hb) as (E & B & S). unfold fquo, frem in *.
    rewrite (Z.abs_eq b) by lia. unfold is_eucl. rewrite (Z.abs_eq b) in * by lia. split; [exact E|]. split; nia.
Qed.

Lemma euclidean_ring_consistent : Euclidean_ring_consistent_stmt.
Proof.
  intros a b Hb. pose proof (dom_quo_eucl a b Hb) as Q.
  split; [exact Q|]. split; [|split].
  - destruct (divmod_I_eucl a b I Hb) as (H & _).
    destruct (is_eucl_unique _ _ _ _ _ _ H Q) as (E1 & E2).
    unfold dom_quoRem. rewrite (surjective_pairing (divmod_I a b)). rewrite E1, E2. reflexivity.
  - reflexivity.
  - unfold dom_remin, dom_rem, dom_modin. rewrite modin_I_val, mod_I_val. reflexivity.
Qed.

(* why the repair frag/C02.fix-1.diff was needed: with quo = floor the three members describe two divisions *)
Lemma quo_floor_inconsistent : exists a b, b <> 0 /\
  a <> b * dom_quo_floor a b + dom_rem a b /\ dom_quo_floor a b <> fst (dom_quoRem a b).
Proof. exists 7, (-2). split; [lia|]. vm_compute. split; discriminate. Qed.
(* ... and it only matters for a negative divisor that does not divide a *)
Lemma quo_floor_same_pos : forall a b, 0 < b -> dom_quo_floor a b = dom_quo a b.
Proof. intros a b Hb. unfold dom_quo. destruct (Z.ltb_spec b 0); [lia|reflexivity]. Qed.

(* isDivisor(a, b): "b | a", with b = 0 dividing only 0 *)
Definition IsDivisor_stmt : Prop := forall a b, dom_isDivisor a b = true <-> exists k, a = b * k.
Lemma isDivisor_spec : IsDivisor_stmt.
Proof.
  intros a b. unfold dom_isDivisor, isZero, dom_mod. destruct (Z.eqb_spec b 0) as [->|Hb].
  - destruct (Z.eqb_spec a 0) as [->|Ha]; split; intro H; try reflexivity; try discriminate.
    + exists 0. reflexivity.
    + destruct H as (k & H). lia.
  - rewrite mod_I_val. destruct (Z.eqb_spec (a mod Z.abs b) 0) as [E|E]; split; intro H; try reflexivity; try discriminate.
    + apply Z.mod_divide in E; [|lia]. destruct E as (k & E). exists (k * Z.sgn b).
      rewrite E. rewrite <- (abs_sgn_mul b (k * Z.sgn b)). pose proof (Z.sgn_abs b).
      destruct b; cbn [Z.sgn Z.abs] in *; lia.
    + exfalso. apply E. destruct H as (k & ->). apply Z.mod_divide; [lia|]. exists (k * Z.sgn b).
      destruct b; cbn [Z.sgn Z.abs]; lia.
Qed.

(* ------------------------------------------------------------------ all overloads of one operation agree *)
(* on the common domain of their divisor types every form of the operation returns the same value *)
Definition Quotient_overloads_agree_stmt : Prop :=
  forall n d, d <> 0 ->
    let q := Z.quot n d in
    (op_div_I n d = q /\ op_diveq_I n d = q /\ op_diveq_T n d = q /\ div_I n d = q /\ divin_I n d = q /\
     trunc_r n d = q /\ trunc_v n d = q /\ w_div_I n d = q /\ dom_div n d = q /\ dom_divin n d = q) /\
    (in_i64 d -> op_div_l n d = q /\ op_diveq_l n d = q /\ div_l n d = q /\ divin_l n d = q) /\
    (in_u64 d -> op_div_ul n d = q /\ op_diveq_ul n d = q /\ div_ul n d = q /\ divin_ul n d = q) /\
    (in_i32 d -> op_div_i n d = q /\ op_diveq_i n d = q /\ div_i n d = q) /\
    (in_u32 d -> op_div_u n d = q /\ op_diveq_u n d = q).

Lemma tq_val : forall n d q, trunc_quotient n d q -> q = Z.quot n d.
Proof. intros n d q (r & H). apply tuniq in H. apply H. Qed.

Lemma quotient_overloads_agree : Quotient_overloads_agree_stmt.
Proof.
  intros n d Hd q. subst q. repeat split; intros;
    match goal with |- ?f n d = _ => apply (tq_val n d) end;
    first [ apply op_div_I_tq | apply op_diveq_I_tq | apply op_diveq_T_tq | apply div_I_tq | apply divin_I_tq
          | apply trunc_r_tq | apply trunc_v_tq | apply w_div_I_tq | apply dom_div_tq | apply dom_divin_tq
          | apply op_div_l_tq | apply op_diveq_l_tq | apply div_l_tq | apply divin_l_tq
          | apply op_div_ul_tq | apply op_diveq_ul_tq | apply div_ul_tq | apply divin_ul_tq
          | apply op_div_i_tq | apply op_diveq_i_tq | apply div_i_tq | apply op_div_u_tq | apply op_diveq_u_tq ];
    first [ exact I | assumption ].
Qed.

Definition Remainder_overloads_agree_stmt : Prop :=
  forall n d, d <> 0 ->
    let r := Z.rem n d in
    (op_mod_I n d = r /\ op_modeq_I n d = r /\ op_modeq_T n d = r /\ trem_I n d = r /\ w_mod_I n d = r) /\
    (in_i64 d -> op_mod_l n d = r /\ op_modeq_l n d = r) /\
    (in_u64 d -> op_modeq_ul n d = r /\ trem_ul n d = r /\ trem_w n d = Z.abs r /\ (in_i64 r -> op_mod_ul n d = r)) /\
    (in_i32 d -> op_mod_i n d = r /\ op_modeq_i n d = r) /\
    (in_u32 d -> op_modeq_u n d = r /\ (in_i32 r -> op_mod_u_old n d = r)) /\
    (in_u16 d -> in_i16 r -> op_mod_us_old n d = r) /\
    (in_i16 d -> op_mod_Ts n d = r) /\
    (in_d53 d -> op_mod_d_old n d = r).

Lemma tr_val : forall n d r, trunc_remainder n d r -> r = Z.rem n d.
Proof. exact trunc_remainder_val. Qed.

Lemma remainder_overloads_agree : Remainder_overloads_agree_stmt.
Proof.
  intros n d Hd r. subst r. repeat split; intros;
    try (match goal with |- ?f n d = Z.rem n d => apply (tr_val n d) end;
         first [ apply op_mod_I_tr | apply op_modeq_I_tr | apply op_modeq_T_tr | apply trem_I_tr | apply w_mod_I_tr
               | apply op_mod_l_tr | apply op_modeq_l_tr | apply op_modeq_ul_tr | apply trem_ul_tr
               | apply op_mod_i_tr | apply op_modeq_i_tr | apply op_modeq_u_tr | apply op_mod_Ts_tr | apply op_mod_d_tr_old ];
         first [ exact I | assumption ]).
  - apply op_mod_ul_val; assumption.
  - apply (op_mod_u_trw_old n d); [assumption|assumption|apply tr_of_val; [assumption|reflexivity]|assumption].
  - apply (op_mod_us_trw_old n d); [assumption|assumption|apply tr_of_val; [assumption|reflexivity]|assumption].
Qed.

Definition Mod_overloads_agree_stmt : Prop :=
  forall n d, d <> 0 ->
    let r := n mod Z.abs d in
    0 <= r < Z.abs d /\
    (mod_I n d = r /\ modin_I n d = r /\ snd (divmod_I n d) = r /\
     dom_mod n d = r /\ dom_modin n d = r /\ dom_rem n d = r /\ dom_remin n d = r /\ snd (dom_quoRem n d) = r) /\
    (in_i64 d -> mod_l n d = r /\ modin_l n d = r /\ snd (divmod_l n d) = r) /\
    (in_u64 d -> mod_ul n d = r /\ modin_ul n d = r /\ snd (divmod_ul n d) = r /\ frem_ul n d = r /\ frem_w n d = r) /\
    (in_i32 d -> mod_i n d = r) /\ (in_u32 d -> mod_u n d = r).

Lemma eucl_r_val : forall n d q r, is_eucl n d q r -> r = n mod Z.abs d.
Proof. intros n d q r H. apply euniq in H. apply H. Qed.

Lemma mod_overloads_agree : Mod_overloads_agree_stmt.
Proof.
  intros n d Hd r. subst r. split; [apply Z.mod_pos_bound; lia|].
  repeat split; intros;
    first [ apply mod_I_val | apply modin_I_val | apply mod_l_val; assumption | apply modin_l_val; assumption
          | apply mod_ul_val; assumption | apply modin_ul_val; assumption | apply mod_i_val; assumption
          | apply mod_u_val; assumption | idtac ].
  - rewrite divmod_mod by assumption. apply mod_I_val.
  - unfold dom_quoRem. rewrite divmod_mod by assumption. apply mod_I_val.
  - destruct (divmod_l_eucl n d H Hd) as (E & _). apply (eucl_r_val _ _ _ _ E).
  - destruct (divmod_ul_eucl n d H Hd) as (E & _). apply (eucl_r_val _ _ _ _ E).
  - unfold frem_ul, mpz_fdiv_r_ui. cbn [fst]. rewrite Z.abs_eq by (cint; lia). reflexivity.
  - unfold frem_w, mpz_fdiv_ui. rewrite Z.abs_eq by (cint; lia). reflexivity.
Qed.

(* quotients of the euclidean forms agree as well *)
Definition Divmod_overloads_agree_stmt : Prop :=
  forall n d, d <> 0 ->
    (in_i64 d -> divmod_l n d = divmod_I n d) /\ (in_u64 d -> divmod_ul n d = divmod_I n d) /\
    dom_divmod n d = divmod_I n d /\ dom_quoRem n d = divmod_I n d.
Lemma divmod_overloads_agree : Divmod_overloads_agree_stmt.
Proof.
  intros n d Hd. destruct (divmod_I_eucl n d I Hd) as (HI & _). repeat split; try reflexivity; intro H.
  - destruct (divmod_l_eucl n d H Hd) as (E & _). destruct (is_eucl_unique _ _ _ _ _ _ E HI) as (E1 & E2).
    rewrite (surjective_pairing (divmod_l n d)), (surjective_pairing (divmod_I n d)), E1, E2. reflexivity.
  - destruct (divmod_ul_eucl n d H Hd) as (E & _). destruct (is_eucl_unique _ _ _ _ _ _ E HI) as (E1 & E2).
    rewrite (surjective_pairing (divmod_ul n d)), (surjective_pairing (divmod_I n d)), E1, E2. reflexivity.
Qed.

(* hypotheses are satisfiable / the statements say something: the boundary divisors *)
(* ------------------------------------------------------------------ the bodies as repaired (e502f6c, 2c6554a) *)
Lemma op_mod_u_val : forall n d, in_u32 d -> d <> 0 -> op_mod_u n d = Z.rem n d.
Proof.
  intros n d H Hd. unfold op_mod_u. pose proof (u32_u64 d H). rewrite to_u64_id by assumption.
  apply op_mod_ul_val; [assumption|assumption|]. pose proof (rem_small n d Hd). cint. lia.
Qed.
Lemma op_mod_u_tr : Trunc_rem in_u32 op_mod_u.
Proof. intros n d H Hd. apply tr_of_val; [assumption|apply op_mod_u_val; assumption]. Qed.
Lemma op_mod_us_val : forall n d, in_u16 d -> d <> 0 -> op_mod_us n d = Z.rem n d.
Proof.
  intros n d H Hd. unfold op_mod_us. assert (in_u64 d) by (cint; lia). rewrite to_u64_id by assumption.
  pose proof (rem_small n d Hd). rewrite op_mod_ul_val by (assumption || (cint; lia)). cint. lia.
Qed.
Lemma op_mod_us_tr : Trunc_rem in_u16 op_mod_us.
Proof. intros n d H Hd. apply tr_of_val; [assumption|apply op_mod_us_val; assumption]. Qed.

(* Integer -> double towards zero *)
Lemma trunc53_small : forall z, Z.abs z <= 9007199254740992 -> trunc53 z = z.
Proof.
  intros z H. unfold trunc53. cbv zeta. destruct (Z.ltb_spec (Z.abs z) 9007199254740992); [reflexivity|].
  assert (A : Z.abs z = 9007199254740992) by lia.
  destruct z as [|p|p]; cbn [Z.abs] in A; try discriminate; injection A as ->; vm_compute; reflexivity.
Qed.
(* never larger in magnitude, never of the other sign, less than one last-place unit away *)
Lemma trunc53_toward_zero : forall z, Z.abs (trunc53 z) <= Z.abs z /\ 0 <= z * trunc53 z /\
  (9007199254740992 <= Z.abs z -> Z.abs z - Z.abs (trunc53 z) < 2 ^ (Z.log2 (Z.abs z) - 52) /\ exists m, trunc53 z = m * 2 ^ (Z.log2 (Z.abs z) - 52)).
Proof.
  intros z. unfold trunc53. cbv zeta. destruct (Z.ltb_spec (Z.abs z) 9007199254740992) as [L|L].
  - split; [lia|]. split; [nia|]. intro. lia.
  - set (k := Z.log2 (Z.abs z) - 52).
    assert (Lg : 53 <= Z.log2 (Z.abs z)) by (apply (Z.log2_le_mono (2 ^ 53)); exact L).
    assert (P : 0 < 2 ^ k) by (apply Z.pow_pos_nonneg; subst k; lia).
    pose proof (Z.div_mod (Z.abs z) (2 ^ k) ltac:(lia)) as DM. pose proof (Z.mod_pos_bound (Z.abs z) (2 ^ k) P) as MB.
    remember (Z.abs z / 2 ^ k) as q. remember (Z.abs z mod 2 ^ k) as r. remember (2 ^ k) as u.
    assert (Q0 : 0 <= q) by (subst q; apply Z.div_pos; lia).
    assert (Q : 0 <= q * u) by nia.
    assert (S1 : (Z.sgn z = 1 /\ z = Z.abs z) \/ (Z.sgn z = -1 /\ z = - Z.abs z)) by (destruct z; cbn [Z.sgn Z.abs] in *; lia).
    assert (DM' : Z.abs z = q * u + r) by lia.
    remember (q * u) as w. remember (Z.abs z) as a.
    destruct S1 as [(S & Ez)|(S & Ez)]; rewrite S; (split; [lia|]); (split; [rewrite Ez; nia|]); intros _; (split; [lia|]); subst w.
    + exists q. ring.
    + exists (- q). ring.
Qed.

Definition Percent_double_stmt : Prop :=
  forall n K s, 0 <= s -> let t := Z.quot K (2 ^ s) in t <> 0 ->
    let res := op_mod_dfrac n K s in
    res = trunc53 (Z.rem n t) /\ Z.abs res < Z.abs t /\ 0 <= n * res /\ (trunc53 (Z.rem n t) = Z.rem n t -> trunc_remainder n t res).
Lemma percent_double : Percent_double_stmt.
Proof.
  intros n K s Hs t Ht res. subst res. unfold op_mod_dfrac. fold t. rewrite op_mod_I_val.
  destruct (tspec n t Ht) as (E & B & S). unfold tquo, trem in *.
  destruct (trunc53_toward_zero (Z.rem n t)) as (T1 & T2 & _).
  split; [reflexivity|]. split; [lia|]. split.
  - remember (Z.rem n t) as r. remember (trunc53 r) as w. clear Heqr Heqw E.
    destruct (Z.eq_dec r 0) as [->|Hr]; [assert (w = 0) by lia; subst; lia|].
    assert ((0 < r /\ 0 <= w /\ 0 <= n) \/ (r < 0 /\ w <= 0 /\ n <= 0)) by nia. nia.
  - intro Ex. rewrite Ex. apply tr_of_val; [assumption|reflexivity].
Qed.
Lemma op_mod_d_val : forall n d, d <> 0 -> op_mod_d n d = trunc53 (Z.rem n d).
Proof.
  intros n d Hd. unfold op_mod_d. pose proof (percent_double n d 0 ltac:(lia)) as P. cbv zeta in P.
  change (2 ^ 0) with 1 in P. rewrite Z.quot_1_r in P. apply P; assumption.
Qed.
Lemma op_mod_dx_val : forall n K, Z.quot K 16 <> 0 -> op_mod_dx n K = trunc53 (Z.rem n (Z.quot K 16)).
Proof. intros n K H1. unfold op_mod_dx. apply (percent_double n K 4 ltac:(lia)); assumption. Qed.
Lemma op_mod_d_tr : Trunc_rem in_d53 op_mod_d.
Proof.
  intros n d H Hd. apply tr_of_val; [assumption|]. rewrite op_mod_d_val by assumption. apply trunc53_small.
  pose proof (rem_small n d Hd). cint'. lia.
Qed.

Example divmod_l_int64_min : divmod_l (-1) (- H64) = (1, H64 - 1) /\ divmod_l (W64) (- H64) = (-2, 0)
  /\ op_mod_l (-(10^30)) (- H64) = Z.rem (-(10^30)) (- H64) /\ op_mod_ul (-(W64 - 2)) (W64 - 1) = 2 (* not representable: wraps *).
Proof. vm_compute. repeat split; reflexivity. Qed.
