(* C02 — the property theorems' statements grouped by operation family (conjunctions of the per-overload lemmas) *)
From Coq Require Import ZArith.
From C02 Require Import Model DivSpec ProofsDiv ProofsMod.
Local Open Scope Z_scope.

(* each rounding convention determines q and r uniquely (so 'the' truncated / floor / ceiling / euclidean quotient and remainder exist), and rounds in the direction its name says *)
Definition Conventions_well_defined_stmt : Prop :=
  (forall n d q r, is_trunc n d q r -> q = tquo n d /\ r = trem n d) /\
  (forall n d q r, is_floor n d q r -> q = fquo n d /\ r = frem n d) /\
  (forall n d q r, is_ceil n d q r -> q = cquo n d /\ r = crem n d) /\
  (forall n d q r, is_eucl n d q r -> q = equo n d /\ r = emod n d) /\
  (forall n d q r, is_trunc n d q r ->
  Z.abs (d * q) <= Z.abs n /\ Z.abs n < Z.abs (d * q) + Z.abs d) /\
  (forall n d q r, is_floor n d q r ->
  (0 < d -> d * q <= n < d * (q + 1)) /\ (d < 0 -> d * (q + 1) < n <= d * q)) /\
  (forall n d q r, is_ceil n d q r ->
  (0 < d -> d * (q - 1) < n <= d * q) /\ (d < 0 -> d * q <= n < d * (q - 1))).
Lemma conventions_well_defined : Conventions_well_defined_stmt.
Proof.
  unfold Conventions_well_defined_stmt. repeat apply conj.
  - exact tuniq.
  - exact funiq.
  - exact cuniq.
  - exact euniq.
  - exact trunc_toward_zero.
  - exact floor_is_floor.
  - exact ceil_is_ceil.
Qed.

(* `/`, `/=`, div, divin — every overload (Integer, int64_t, uint64_t, int32_t, uint32_t, template, word/Integer) — return the quotient rounded towards 0 *)
Definition Truncating_quotients_stmt : Prop :=
  (Trunc_quot anyZ op_div_I) /\
  (Trunc_quot in_i64 op_div_l) /\
  (Trunc_quot in_u64 op_div_ul) /\
  (Trunc_quot in_i32 op_div_i) /\
  (Trunc_quot in_u32 op_div_u) /\
  (Trunc_quot anyZ w_div_I) /\
  (Trunc_quot anyZ op_diveq_I) /\
  (Trunc_quot anyZ op_diveq_T) /\
  (Trunc_quot in_i64 op_diveq_l) /\
  (Trunc_quot in_u64 op_diveq_ul) /\
  (Trunc_quot in_i32 op_diveq_i) /\
  (Trunc_quot in_u32 op_diveq_u) /\
  (Trunc_quot anyZ div_I) /\
  (Trunc_quot in_i64 div_l) /\
  (Trunc_quot in_i32 div_i) /\
  (Trunc_quot in_u64 div_ul) /\
  (Trunc_quot anyZ divin_I) /\
  (Trunc_quot in_i64 divin_l) /\
  (Trunc_quot in_u64 divin_ul).
Lemma truncating_quotients : Truncating_quotients_stmt.
Proof.
  unfold Truncating_quotients_stmt. repeat apply conj.
  - exact op_div_I_tq.
  - exact op_div_l_tq.
  - exact op_div_ul_tq.
  - exact op_div_i_tq.
  - exact op_div_u_tq.
  - exact w_div_I_tq.
  - exact op_diveq_I_tq.
  - exact op_diveq_T_tq.
  - exact op_diveq_l_tq.
  - exact op_diveq_ul_tq.
  - exact op_diveq_i_tq.
  - exact op_diveq_u_tq.
  - exact div_I_tq.
  - exact div_l_tq.
  - exact div_i_tq.
  - exact div_ul_tq.
  - exact divin_I_tq.
  - exact divin_l_tq.
  - exact divin_ul_tq.
Qed.

(* divexact, all six overloads: when d | n the result is the q with n = d q (negative int64_t divisors, INT64_MIN included) *)
Definition Exact_divisions_stmt : Prop :=
  (Exact_quot anyZ divexact_q_I) /\
  (Exact_quot in_u64 divexact_q_ul) /\
  (Exact_quot in_i64 divexact_q_l) /\
  (Exact_quot anyZ divexact_I) /\
  (Exact_quot in_u64 divexact_ul) /\
  (Exact_quot in_i64 divexact_l).
Lemma exact_divisions : Exact_divisions_stmt.
Proof.
  unfold Exact_divisions_stmt. repeat apply conj.
  - exact divexact_q_I_ex.
  - exact divexact_q_ul_ex.
  - exact divexact_q_l_ex.
  - exact divexact_I_ex.
  - exact divexact_ul_ex.
  - exact divexact_l_ex.
Qed.

(* floor / ceil / trunc (reference-returning and value-returning) round as their names say *)
Definition Named_roundings_stmt : Prop :=
  (Floor_quot anyZ floor_r) /\
  (Floor_quot anyZ floor_v) /\
  (Ceil_quot anyZ ceil_r) /\
  (Ceil_quot anyZ ceil_v) /\
  (Trunc_quot anyZ trunc_r) /\
  (Trunc_quot anyZ trunc_v).
Lemma named_roundings : Named_roundings_stmt.
Proof.
  unfold Named_roundings_stmt. repeat apply conj.
  - exact floor_r_fq.
  - exact floor_v_fq.
  - exact ceil_r_cq.
  - exact ceil_v_cq.
  - exact trunc_r_tq.
  - exact trunc_v_tq.
Qed.

(* trem / crem / frem with an Integer divisor, a uint64_t divisor, and the uint64_t-returning forms (which return |r|) *)
Definition Named_remainders_stmt : Prop :=
  (Trunc_rem anyZ trem_I) /\
  (Ceil_rem anyZ crem_I) /\
  (Floor_rem anyZ frem_I) /\
  (Trunc_rem in_u64 trem_ul) /\
  (Ceil_rem in_u64 crem_ul) /\
  (Floor_rem in_u64 frem_ul) /\
  (Abs_trunc_rem_word trem_w) /\
  (Abs_ceil_rem_word crem_w) /\
  (Floor_rem_word frem_w).
Lemma named_remainders : Named_remainders_stmt.
Proof.
  unfold Named_remainders_stmt. repeat apply conj.
  - exact trem_I_tr.
  - exact crem_I_cr.
  - exact frem_I_fr.
  - exact trem_ul_tr.
  - exact crem_ul_cr.
  - exact frem_ul_fr.
  - exact trem_w_tr.
  - exact crem_w_cr.
  - exact frem_w_fr.
Qed.

(* divmod (Integer, int64_t, uint64_t): n = d q + r with 0 <= r < |d| for every sign of n and d; r fits its word type *)
Definition Divmods_stmt : Prop :=
  (Eucl_divmod anyZ divmod_I) /\
  (Eucl_divmod in_i64 divmod_l) /\
  (Eucl_divmod in_u64 divmod_ul).
Lemma divmods : Divmods_stmt.
Proof.
  unfold Divmods_stmt. repeat apply conj.
  - exact divmod_I_eucl.
  - exact divmod_l_eucl.
  - exact divmod_ul_eucl.
Qed.

(* mod / modin, every overload: 0 <= r < |d| and r = n (mod d) *)
Definition Mods_stmt : Prop :=
  (Eucl_rem anyZ mod_I) /\
  (Eucl_rem in_i64 mod_l) /\
  (Eucl_rem in_u64 mod_ul) /\
  (Eucl_rem in_i32 mod_i) /\
  (Eucl_rem in_u32 mod_u) /\
  (Eucl_rem anyZ modin_I) /\
  (Eucl_rem in_i64 modin_l) /\
  (Eucl_rem in_u64 modin_ul).
Lemma mods : Mods_stmt.
Proof.
  unfold Mods_stmt. repeat apply conj.
  - exact mod_I_er.
  - exact mod_l_er.
  - exact mod_ul_er.
  - exact mod_i_er.
  - exact mod_u_er.
  - exact modin_I_er.
  - exact modin_l_er.
  - exact modin_ul_er.
Qed.

(* `%=` and `%`, every overload whose return type can hold every remainder: truncated remainder (sign of the dividend, |r| < |d|) *)
Definition Percent_operators_stmt : Prop :=
  (Trunc_rem anyZ op_modeq_I) /\
  (Trunc_rem anyZ op_modeq_T) /\
  (Trunc_rem in_i64 op_modeq_l) /\
  (Trunc_rem in_u64 op_modeq_ul) /\
  (Trunc_rem in_i32 op_modeq_i) /\
  (Trunc_rem in_u32 op_modeq_u) /\
  (Trunc_rem anyZ op_mod_I) /\
  (Trunc_rem anyZ w_mod_I) /\
  (Trunc_rem in_i64 op_mod_l) /\
  (Trunc_rem in_i32 op_mod_i) /\
  (Trunc_rem in_i16 op_mod_Ts) /\
  (Trunc_rem in_d53 op_mod_d) /\
  (Trunc_rem in_f24 op_mod_Tf).
Lemma percent_operators : Percent_operators_stmt.
Proof.
  unfold Percent_operators_stmt. repeat apply conj.
  - exact op_modeq_I_tr.
  - exact op_modeq_T_tr.
  - exact op_modeq_l_tr.
  - exact op_modeq_ul_tr.
  - exact op_modeq_i_tr.
  - exact op_modeq_u_tr.
  - exact op_mod_I_tr.
  - exact w_mod_I_tr.
  - exact op_mod_l_tr.
  - exact op_mod_i_tr.
  - exact op_mod_Ts_tr.
  - exact op_mod_d_tr.
  - exact op_mod_Tf_tr.
Qed.

(* int64_t %(uint64_t), int32_t %(uint32_t), int16_t %(uint16_t): the truncated remainder is returned whenever the return type can represent it *)
Definition Percent_narrow_return_stmt : Prop :=
  (Trunc_rem_when in_u64 in_i64 op_mod_ul) /\
  (Trunc_rem in_u32 op_mod_u) /\            (* since e502f6c the uint32_t / uint16_t overloads return int64_t / int32_t: every remainder *)
  (Trunc_rem in_u16 op_mod_us).
Lemma percent_narrow_return : Percent_narrow_return_stmt.
Proof.
  unfold Percent_narrow_return_stmt. repeat apply conj.
  - exact op_mod_ul_trw.
  - exact op_mod_u_tr.
  - exact op_mod_us_tr.
Qed.

(* IntegerDom::div/divin/divexact/mod/modin/divmod/quoRem carry the conventions of the Integer functions they forward to *)
Definition Dom_wrappers_stmt : Prop :=
  (Trunc_quot anyZ dom_div) /\
  (Trunc_quot anyZ dom_divin) /\
  (Exact_quot anyZ dom_divexact) /\
  (Eucl_rem anyZ dom_mod) /\
  (Eucl_rem anyZ dom_modin) /\
  (Eucl_divmod anyZ dom_divmod) /\
  (Eucl_divmod anyZ dom_quoRem).
Lemma dom_wrappers : Dom_wrappers_stmt.
Proof.
  unfold Dom_wrappers_stmt. repeat apply conj.
  - exact dom_div_tq.
  - exact dom_divin_tq.
  - exact dom_divexact_ex.
  - exact dom_mod_er.
  - exact dom_modin_er.
  - exact dom_divmod_eucl.
  - exact dom_quoRem_eucl.
Qed.

(* the same three overloads for EVERY divisor of their type: the result is the truncated remainder converted to the return
   type by the C narrowing conversion (two's complement); the header documents the value r, the return type fixes how an r
   that does not fit comes back *)
Definition Percent_narrow_wrap_stmt : Prop :=
  (forall n d, in_u64 d -> d <> 0 -> op_mod_ul n d = to_i64 (Z.rem n d)) /\
  (forall n d, in_u32 d -> d <> 0 -> op_mod_u_old n d = to_i32 (Z.rem n d)) /\     (* HISTORY: bodies before e502f6c *)
  (forall n d, in_u16 d -> d <> 0 -> op_mod_us_old n d = to_i16 (Z.rem n d)).
Lemma percent_narrow_wrap : Percent_narrow_wrap_stmt.
Proof. unfold Percent_narrow_wrap_stmt. repeat apply conj. - exact op_mod_ul_wrap. - exact op_mod_u_wrap_old. - exact op_mod_us_wrap_old. Qed.

(* double operator%(double l) (body since 2c6554a), l = K / 2^s any dyadic (every double is one) with integer part t = trunc(l) <> 0,
   of ANY magnitude: the result is the truncated remainder n rem t converted to double TOWARDS ZERO (mpz_get_d): it is the
   remainder itself whenever that is a double (always for |l| <= 2^53), and in every case |res| < |t| and n res >= 0 - the
   clause of the property holds for this overload up to the precision of its return type.
   HISTORY (last two conjuncts): the body before 2c6554a returned round53 (to_i64 (n rem t)) for |t| < 2^64. *)
Definition Percent_double_all_stmt : Prop :=
  Percent_double_stmt /\
  (forall n d, d <> 0 -> op_mod_d n d = trunc53 (Z.rem n d)) /\
  (forall n K, Z.quot K 16 <> 0 -> op_mod_dx n K = trunc53 (Z.rem n (Z.quot K 16))) /\
  (forall z, Z.abs z <= 9007199254740992 -> trunc53 z = z) /\
  (forall z, Z.abs (trunc53 z) <= Z.abs z /\ 0 <= z * trunc53 z /\
     (9007199254740992 <= Z.abs z -> Z.abs z - Z.abs (trunc53 z) < 2 ^ (Z.log2 (Z.abs z) - 52) /\ exists m, trunc53 z = m * 2 ^ (Z.log2 (Z.abs z) - 52))) /\
  Percent_double_stmt_old /\ Round53_nearest_stmt.
Lemma percent_double_all : Percent_double_all_stmt.
Proof.
  unfold Percent_double_all_stmt. repeat apply conj.
  - exact percent_double. - exact op_mod_d_val. - exact op_mod_dx_val. - exact trunc53_small. - exact trunc53_toward_zero.
  - exact percent_double_old. - exact round53_nearest.
Qed.
