(* C02 — theorems quantified over the overload table (Table.v): every call form meets the convention it is listed with;
   all forms listed with the same convention agree; plus the relations between the conventions, the IEEE character of
   round53, the C conversions of the CInt layer, and isDivisor / divexact / quo / rem consistency. *)
From Coq Require Import ZArith Lia Zquot Bool List String.
From C02 Require Import Model DivSpec ProofsDiv ProofsMod ProofsProps Table.
Import ListNotations.
Local Open Scope Z_scope.
Ltac Zify.zify_post_hook ::= Z.to_euclidean_division_equations.

Ltac cint8 := unfold in_i8, in_u8, to_i8, to_u8, H8, W8, in_f24 in *; cint'.

(* ------------------------------------------------------------------ closed forms per model function *)
Lemma tq_val' : forall (dom : Z -> Prop) f, Trunc_quot dom f -> forall n d, dom d -> d <> 0 -> f n d = Z.quot n d.
Proof. intros dom f H n d Hd Hz. apply (tq_val n d). apply H; assumption. Qed.
Lemma tr_val' : forall (dom : Z -> Prop) f, Trunc_rem dom f -> forall n d, dom d -> d <> 0 -> f n d = Z.rem n d.
Proof. intros dom f H n d Hd Hz. apply (tr_val n d). apply H; assumption. Qed.
Lemma er_val' : forall (dom : Z -> Prop) f, Eucl_rem dom f -> forall n d, dom d -> d <> 0 -> f n d = n mod Z.abs d.
Proof.
  intros dom f H n d Hd Hz. destruct (H n d Hd Hz) as (q & E). apply euniq in E. apply E.
Qed.
Lemma fq_val' : forall (dom : Z -> Prop) f, Floor_quot dom f -> forall n d, dom d -> d <> 0 -> f n d = n / d.
Proof. intros dom f H n d Hd Hz. destruct (H n d Hd Hz) as (r & E). apply funiq in E. apply E. Qed.
Lemma cq_val' : forall (dom : Z -> Prop) f, Ceil_quot dom f -> forall n d, dom d -> d <> 0 -> f n d = cquo n d.
Proof. intros dom f H n d Hd Hz. destruct (H n d Hd Hz) as (r & E). apply cuniq in E. apply E. Qed.
Lemma fr_val' : forall (dom : Z -> Prop) f, Floor_rem dom f -> forall n d, dom d -> d <> 0 -> f n d = n mod d.
Proof. intros dom f H n d Hd Hz. destruct (H n d Hd Hz) as (q & E). apply funiq in E. apply E. Qed.
Lemma cr_val' : forall (dom : Z -> Prop) f, Ceil_rem dom f -> forall n d, dom d -> d <> 0 -> f n d = crem n d.
Proof. intros dom f H n d Hd Hz. destruct (H n d Hd Hz) as (q & E). apply cuniq in E. apply E. Qed.
Lemma dm_val' : forall (dom : Z -> Prop) f, Eucl_divmod dom f -> forall n d, dom d -> d <> 0 ->
  fst (f n d) = equo n d /\ snd (f n d) = emod n d.
Proof. intros dom f H n d Hd Hz. destruct (H n d Hd Hz) as (E & _). apply euniq in E. exact E. Qed.
Lemma ex_val' : forall (dom : Z -> Prop) f, Exact_quot dom f -> forall n d, dom d -> d <> 0 -> (exists q, n = d * q) -> f n d = Z.quot n d.
Proof.
  intros dom f H n d Hd Hz (q & E). rewrite (H n d q Hd Hz E). symmetry. apply quot_exact; assumption.
Qed.

Lemma i8_i32 : forall z, in_i8 z -> in_i32 z.   Proof. intros z H. cint8. lia. Qed.
Lemma u8_i32 : forall z, in_u8 z -> in_i32 z.   Proof. intros z H. cint8. lia. Qed.
Lemma i16_i32 : forall z, in_i16 z -> in_i32 z. Proof. intros z H. cint8. lia. Qed.
Lemma u16_i32 : forall z, in_u16 z -> in_i32 z. Proof. intros z H. cint8. lia. Qed.

Lemma dom_quo_val : forall a b, b <> 0 -> dom_quo a b = equo a b.
Proof. intros a b Hb. pose proof (dom_quo_eucl a b Hb) as E. apply euniq in E. apply E. Qed.

Lemma op_mod_Tc_val : forall n d, in_i8 d -> d <> 0 -> op_mod_Tc n d = Z.rem n d.
Proof.
  intros n d H Hd. unfold op_mod_Tc. rewrite op_mod_I_val. pose proof (rem_small n d Hd). cint8. lia.
Qed.
Lemma op_mod_Tuc_val : forall n d, in_u8 d -> d <> 0 -> op_mod_Tuc n d = Z.abs (Z.rem n d).
Proof.
  intros n d H Hd. unfold op_mod_Tuc. rewrite op_mod_I_val. pose proof (rem_small n d Hd). cint8. lia.
Qed.

Lemma isDivisor_val : forall a b, dom_isDivisor a b = (if b =? 0 then a =? 0 else (a mod b =? 0)).
Proof.
  intros a b. unfold dom_isDivisor, isZero, dom_mod. destruct (Z.eqb_spec b 0) as [|Hb]; [reflexivity|].
  rewrite mod_I_val.
  destruct (Z.eqb_spec (a mod Z.abs b) 0) as [E|E]; destruct (Z.eqb_spec (a mod b) 0) as [E'|E']; try reflexivity; exfalso.
  - apply E'. apply Z.mod_divide in E; [|lia]. apply Z.mod_divide; [assumption|].
    destruct E as (k & E). exists (k * Z.sgn b). rewrite E. destruct b; cbn [Z.abs Z.sgn]; lia.
  - apply E. apply Z.mod_divide in E'; [|assumption]. apply Z.mod_divide; [lia|].
    destruct E' as (k & E'). exists (k * Z.sgn b). rewrite E'. destruct b; cbn [Z.abs Z.sgn]; lia.
Qed.

(* ------------------------------------------------------------------ every call form meets its convention (value form) *)
Definition Form_meets_spec (f : form) : Prop :=
  forall n d, in_ty (fnty f) n -> in_ty (fdty f) d -> pre (fconv f) n d -> fsem f n d = spec (fconv f) n d.

Ltac domt := first [ exact I | assumption
                   | apply i32_i64; first [ assumption | apply i8_i32; assumption | apply u8_i32; assumption | apply i16_i32; assumption | apply u16_i32; assumption ]
                   | apply i8_i32; assumption | apply u8_i32; assumption | apply i16_i32; assumption | apply u16_i32; assumption
                   | (cint8; lia) ].

Ltac one_tq := first
  [ apply (tq_val' anyZ); [ first [ exact divin_I_tq | exact div_I_tq | exact op_diveq_I_tq | exact op_diveq_T_tq | exact op_div_I_tq
                                | exact w_div_I_tq | exact trunc_r_tq | exact trunc_v_tq | exact dom_div_tq | exact dom_divin_tq
                                | exact op_div_I_tq | exact op_diveq_I_tq ] | exact I | assumption ]
  | apply (tq_val' in_i64); [ first [ exact divin_l_tq | exact div_l_tq | exact op_diveq_l_tq | exact op_div_l_tq ] | domt | assumption ]
  | apply (tq_val' in_u64); [ first [ exact divin_ul_tq | exact div_ul_tq | exact op_diveq_ul_tq | exact op_div_ul_tq ] | domt | assumption ]
  | apply (tq_val' in_i32); [ first [ exact div_i_tq | exact op_diveq_i_tq | exact op_div_i_tq ] | domt | assumption ]
  | apply (tq_val' in_u32); [ first [ exact op_diveq_u_tq | exact op_div_u_tq ] | domt | assumption ] ].

Ltac one_tr := first
  [ apply (tr_val' anyZ); [ first [ exact op_modeq_I_tr | exact op_modeq_T_tr | exact op_mod_I_tr | exact w_mod_I_tr | exact trem_I_tr ] | exact I | assumption ]
  | apply (tr_val' in_i64); [ first [ exact op_modeq_l_tr | exact op_mod_l_tr ] | domt | assumption ]
  | apply (tr_val' in_u64); [ first [ exact op_modeq_ul_tr | exact trem_ul_tr ] | domt | assumption ]
  | apply (tr_val' in_i32); [ first [ exact op_modeq_i_tr | exact op_mod_i_tr ] | domt | assumption ]
  | apply (tr_val' in_u32); [ exact op_modeq_u_tr | domt | assumption ]
  | apply (tr_val' in_i16); [ exact op_mod_Ts_tr | domt | assumption ]
  | apply (tr_val' in_f24); [ exact op_mod_Tf_tr | domt | assumption ]
  | apply op_mod_Tc_val; [ domt | assumption ] ].

Ltac one_er := first
  [ apply (er_val' anyZ); [ first [ exact mod_I_er | exact modin_I_er | exact dom_mod_er | exact dom_modin_er | exact dom_rem_er | exact dom_remin_er ] | exact I | assumption ]
  | apply (er_val' in_i64); [ first [ exact mod_l_er | exact modin_l_er ] | domt | assumption ]
  | apply (er_val' in_u64); [ first [ exact mod_ul_er | exact modin_ul_er ] | domt | assumption ]
  | apply (er_val' in_i32); [ exact mod_i_er | domt | assumption ]
  | apply (er_val' in_u32); [ exact mod_u_er | domt | assumption ] ].

Ltac one_ex := first
  [ apply (ex_val' anyZ); [ first [ exact divexact_q_I_ex | exact divexact_I_ex | exact dom_divexact_ex ] | exact I | tauto | tauto ]
  | apply (ex_val' in_u64); [ first [ exact divexact_q_ul_ex | exact divexact_ul_ex ] | domt | tauto | tauto ]
  | apply (ex_val' in_i64); [ first [ exact divexact_q_l_ex | exact divexact_l_ex ] | domt | tauto | tauto ] ].

Ltac one_dm := first
  [ apply (dm_val' anyZ); [ first [ exact divmod_I_eucl | exact dom_divmod_eucl | exact dom_quoRem_eucl ] | exact I | assumption ]
  | apply (dm_val' in_i64); [ exact divmod_l_eucl | domt | assumption ]
  | apply (dm_val' in_u64); [ exact divmod_ul_eucl | domt | assumption ] ].

Ltac solve_form :=
  let n := fresh "n" in let d := fresh "d" in let Hn := fresh "Hn" in let Hd := fresh "Hd" in let Hp := fresh "Hp" in
  unfold Form_meets_spec; cbn [fsem fconv fnty fdty F1 F2 FB spec pre in_ty]; intros n d Hn Hd Hp;
  unfold tquo, trem, fquo, frem, emod in *;
  first
  [ (* pairs *) (assert (fst_snd : forall f : Z -> Z -> Z * Z, fst (f n d) = equo n d /\ snd (f n d) = emod n d -> [fst (f n d); snd (f n d)] = [equo n d; n mod Z.abs d])
                  by (intros f0 (E1 & E2); rewrite E1, E2; reflexivity)); apply fst_snd; one_dm
  | f_equal; first
      [ one_tq | one_tr | one_er | one_ex
      | apply (fq_val' anyZ); [ first [ exact floor_r_fq | exact floor_v_fq ] | exact I | assumption ]
      | apply (cq_val' anyZ); [ first [ exact ceil_r_cq | exact ceil_v_cq ] | exact I | assumption ]
      | apply (fr_val' anyZ); [ exact frem_I_fr | exact I | assumption ]
      | apply (fr_val' in_u64); [ exact frem_ul_fr | domt | assumption ]
      | apply (cr_val' anyZ); [ exact crem_I_cr | exact I | assumption ]
      | apply (cr_val' in_u64); [ exact crem_ul_cr | domt | assumption ]
      | apply dom_quo_val; assumption
      | reflexivity
      | (destruct Hp as (Hp & Hfit); rewrite op_mod_ul_wrap by assumption; apply to_i64_id; exact Hfit)
      | apply op_mod_u_val; assumption
      | apply op_mod_us_val; assumption
      | apply op_mod_Tuc_val; assumption
      | apply op_mod_d_val; assumption
      | apply op_mod_dx_val; assumption
      | (f_equal; apply isDivisor_val) ] ].

Lemma forms_meet_spec : Forall Form_meets_spec forms.
Proof.
  unfold forms.
  repeat (apply Forall_cons; [ solve_form | ]).
  apply Forall_nil.
Qed.

(* ------------------------------------------------------------------ ... said with the relations of DivSpec.v *)
Definition meets (k : conv) (n d : Z) (out : list Z) : Prop :=
  match k, out with
  | KTq, [q] => trunc_quotient n d q
  | KTr, [r] => trunc_remainder n d r
  | KFq, [q] => floor_quotient n d q
  | KFr, [r] => floor_remainder n d r
  | KCq, [q] => ceil_quotient n d q
  | KCr, [r] => ceil_remainder n d r
  | KEq, [q] => eucl_quotient n d q
  | KEr, [r] => eucl_remainder n d r
  | KEqr, [q; r] => is_eucl n d q r
  | KExact, [q] => n = d * q
  | KAbsTr, [w] => exists r, trunc_remainder n d r /\ w = Z.abs r
  | KAbsCr, [w] => exists r, ceil_remainder n d r /\ w = Z.abs r
  | KTrFit64, [r] => trunc_remainder n d r
  | KTrDbl, [w] => exists r, trunc_remainder n d r /\ w = trunc53 r /\ Z.abs w < Z.abs d /\ 0 <= n * w /\ (trunc53 r = r -> w = r)
  | KTrDblx, [w] => exists r, trunc_remainder n (Z.quot d 16) r /\ w = trunc53 r /\ Z.abs w < Z.abs (Z.quot d 16) /\ 0 <= n * w /\ (trunc53 r = r -> w = r)
  | KIsDiv, [b] => (b = 1 \/ b = 0) /\ (b = 1 <-> exists k, n = d * k)
  | _, _ => False
  end.

Lemma spec_meets : forall k n d, pre k n d -> meets k n d (spec k n d).
Proof.
  intros k n d Hp. destruct k; cbn [pre spec meets] in *.
  - exists (trem n d). apply tspec; assumption.
  - exists (tquo n d). apply tspec; assumption.
  - exists (frem n d). apply fspec; assumption.
  - exists (fquo n d). apply fspec; assumption.
  - exists (crem n d). apply cspec; assumption.
  - exists (cquo n d). apply cspec; assumption.
  - exists (emod n d). apply espec; assumption.
  - exists (equo n d). apply espec; assumption.
  - apply espec; assumption.
  - destruct Hp as (Hd & q & E). unfold tquo. rewrite (quot_exact n d q Hd E). exact E.
  - exists (trem n d). split; [exists (tquo n d); apply tspec; assumption|reflexivity].
  - exists (crem n d). split; [exists (cquo n d); apply cspec; assumption|reflexivity].
  - exists (tquo n d). apply tspec; tauto.
  - exists (trem n d). pose proof (percent_double n d 0 ltac:(lia)) as P. cbv zeta in P. change (2 ^ 0) with 1 in P.
    rewrite Z.quot_1_r in P. destruct (P Hp) as (P1 & P2 & P3 & _). fold (op_mod_d n d) in *. rewrite P1 in P2, P3. unfold trem.
    split; [exists (tquo n d); apply tspec; assumption|]. repeat split; (assumption || (intro X; exact X) || idtac).
  - exists (trem n (Z.quot d 16)). pose proof (percent_double n d 4 ltac:(lia)) as P. cbv zeta in P. change (2 ^ 4) with 16 in P.
    destruct (P Hp) as (P1 & P2 & P3 & _). rewrite P1 in P2, P3. unfold trem.
    split; [exists (tquo n (Z.quot d 16)); apply tspec; assumption|]. repeat split; (assumption || (intro X; exact X) || idtac).
  - rewrite <- isDivisor_val. split; [destruct (dom_isDivisor n d); [left|right]; reflexivity|].
    rewrite <- (isDivisor_spec n d). destruct (dom_isDivisor n d); cbn [Z.b2z]; split; intro H; (reflexivity || discriminate || lia).
Qed.

Definition Every_form_meets_its_convention_stmt : Prop :=
  forall f, List.In f forms -> forall n d, in_ty (fnty f) n -> in_ty (fdty f) d -> pre (fconv f) n d ->
    fsem f n d = spec (fconv f) n d /\ meets (fconv f) n d (fsem f n d).
Lemma every_form_meets_its_convention : Every_form_meets_its_convention_stmt.
Proof.
  intros f Hf n d Hn Hd Hp. pose proof (proj1 (Forall_forall _ _) forms_meet_spec f Hf n d Hn Hd Hp) as E.
  split; [exact E|]. rewrite E. apply spec_meets; assumption.
Qed.

(* all overloads / call forms listed with one convention return the same thing wherever both are defined *)
Definition Overloads_of_one_operation_agree_stmt : Prop :=
  forall f g, List.In f forms -> List.In g forms -> fconv f = fconv g ->
    forall n d, in_ty (fnty f) n -> in_ty (fdty f) d -> in_ty (fnty g) n -> in_ty (fdty g) d -> pre (fconv f) n d ->
      fsem f n d = fsem g n d.
Lemma overloads_of_one_operation_agree : Overloads_of_one_operation_agree_stmt.
Proof.
  intros f g Hf Hg E n d Hn Hd Hn' Hd' Hp.
  rewrite (proj1 (every_form_meets_its_convention f Hf n d Hn Hd Hp)).
  assert (Hp' : pre (fconv g) n d) by (rewrite <- E; exact Hp).
  rewrite (proj1 (every_form_meets_its_convention g Hg n d Hn' Hd' Hp')). rewrite E. reflexivity.
Qed.

(* the driver's dispatch by name is unambiguous, and the table has the size the check expects *)
Definition Form_names_distinct_stmt : Prop := NoDup (map fname forms).
Lemma form_names_distinct : Form_names_distinct_stmt.
Proof.
  unfold Form_names_distinct_stmt.
  assert (D : forall l : list string, (fix nd (l : list string) : bool :=
             match l with [] => true | x :: t => negb (existsb (String.eqb x) t) && nd t end) l = true -> NoDup l).
  { induction l as [|x t IH]; intro H; [constructor|]. apply andb_true_iff in H. destruct H as (H1 & H2).
    constructor; [|apply IH; exact H2]. intro Hin. apply negb_true_iff in H1.
    assert (existsb (String.eqb x) t = true) by (apply existsb_exists; exists x; split; [exact Hin|apply String.eqb_refl]). congruence. }
  apply D. vm_compute. reflexivity.
Qed.

(* ------------------------------------------------------------------ how the conventions relate (one division, three roundings) *)
Lemma small_multiple : forall d x r, d * x = r -> Z.abs r < Z.abs d -> r = 0 /\ x = 0.
Proof.
  intros d x r E B. destruct (Z.eq_dec x 0) as [->|Hx]; [lia|].
  assert (Z.abs d <= Z.abs (d * x)) by (rewrite Z.abs_mul; nia). lia.
Qed.

Lemma same_sign_unique : forall d q1 r1 q2 r2, d * q1 + r1 = d * q2 + r2 -> Z.abs r1 < Z.abs d -> Z.abs r2 < Z.abs d ->
  0 <= r1 * r2 -> q1 = q2 /\ r1 = r2.
Proof.
  intros d q1 r1 q2 r2 E B1 B2 S.
  assert (SS : (0 <= r1 /\ 0 <= r2) \/ (r1 <= 0 /\ r2 <= 0)) by nia.
  destruct (small_multiple d (q1 - q2) (r2 - r1) ltac:(lia) ltac:(lia)). lia.
Qed.

Definition Roundings_relate_stmt : Prop :=
  forall n d, d <> 0 ->
    floor_r n d <= trunc_r n d <= ceil_r n d /\
    ((exists k, n = d * k) -> floor_r n d = ceil_r n d /\ frem_I n d = 0 /\ crem_I n d = 0 /\ trem_I n d = 0 /\ mod_I n d = 0) /\
    (~ (exists k, n = d * k) -> ceil_r n d = floor_r n d + 1 /\ frem_I n d - crem_I n d = d) /\
    (0 <= n * d -> trunc_r n d = floor_r n d /\ trem_I n d = frem_I n d) /\
    (n * d <= 0 -> trunc_r n d = ceil_r n d /\ trem_I n d = crem_I n d) /\
    (0 < d -> dom_quo n d = floor_r n d /\ mod_I n d = frem_I n d) /\
    (d < 0 -> dom_quo n d = ceil_r n d /\ mod_I n d = crem_I n d).
Lemma roundings_relate : Roundings_relate_stmt.
Proof.
  intros n d Hd.
  unfold floor_r, trunc_r, ceil_r, frem_I, crem_I, trem_I, mpz_fdiv_q, mpz_tdiv_q, mpz_cdiv_q, mpz_fdiv_r, mpz_cdiv_r, mpz_tdiv_r.
  rewrite mod_I_val.
  destruct (tspec n d Hd) as (Et & Bt & St). destruct (fspec n d Hd) as (Ef & Bf & Sf). destruct (cspec n d Hd) as (Ec & Bc & Sc).
  unfold tquo, trem, fquo, frem, cquo, crem in *.
  assert (Em : n mod Z.abs d = if 0 <? d then n mod d else - (- n mod d)).
  { destruct (Z.ltb_spec 0 d); [rewrite Z.abs_eq by lia; reflexivity|].
    rewrite (Z.abs_neq d) by lia. pose proof (Z.mod_opp_opp n (- d) ltac:(lia)) as O. rewrite Z.opp_involutive in O. lia. }
  assert (Eq : dom_quo n d = if 0 <? d then n / d else - (- n / d)).
  { unfold dom_quo, ceil_r, floor_r, mpz_cdiv_q, mpz_fdiv_q. destruct (Z.ltb_spec d 0), (Z.ltb_spec 0 d); try lia; reflexivity. }
  rewrite Em, Eq.
  remember (Z.quot n d) as qt. remember (Z.rem n d) as rt. remember (n / d) as qf. remember (n mod d) as rf.
  remember (- n / d) as qc'. remember (- n mod d) as rc'.
  clear Heqqt Heqrt Heqqf Heqrf Heqqc' Heqrc' Em Eq.
  assert (Hdiv : (exists k, n = d * k) -> rf = 0 /\ rt = 0 /\ rc' = 0 /\ qt = qf /\ - qc' = qf).
  { intros (k & E). subst n.
    destruct (small_multiple d (k - qf) rf ltac:(lia) ltac:(lia)) as (R1 & X1).
    destruct (small_multiple d (k - qt) rt ltac:(lia) ltac:(lia)) as (R2 & X2).
    destruct (small_multiple d (k + qc') (- rc') ltac:(lia) ltac:(lia)) as (R3 & X3). lia. }
  assert (Hnd : ~ (exists k, n = d * k) -> rf <> 0 /\ rc' <> 0).
  { intro H. split; intro Z0; apply H; [exists qf|exists (- qc')]; lia. }
  assert (G1 : qf <= qt <= - qc').
  { destruct (Z.lt_trichotomy d 0) as [D|[D|D]]; [|lia|]; destruct (Z.le_gt_cases 0 n); split; nia. }
  split; [exact G1|].
  split; [intro H; apply Hdiv in H; destruct (Z.ltb_spec 0 d); lia|].
  split.
  { intro H. apply Hnd in H. destruct H as (H1 & H2).
    assert (B3 : Z.abs (rf + rc' - d) < Z.abs d).
    { destruct (Z.lt_trichotomy d 0) as [D|[D|D]]; [|lia|].
      - assert (rf <= 0) by nia. assert (rc' <= 0) by nia. lia.
      - assert (0 <= rf) by nia. assert (0 <= rc') by nia. lia. }
    destruct (small_multiple d (- qc' - qf - 1) (rf + rc' - d) ltac:(lia) B3) as (R & X). lia. }
  assert (N0 : n = 0 -> rt = 0 /\ rf = 0 /\ rc' = 0).
  { intro E0. assert (Ex : exists k, n = d * k) by (exists 0; lia). apply Hdiv in Ex. lia. }
  split.
  { intro H. destruct (Z.eq_dec n 0) as [E0|E0].
    - destruct (N0 E0) as (-> & -> & _). destruct (small_multiple d (qt - qf) 0 ltac:(lia) ltac:(lia)). lia.
    - assert (SS : 0 <= rt * rf).
      { destruct (Z.lt_trichotomy d 0) as [D|[D|D]]; [|lia|].
        - assert (n < 0) by nia. assert (rt <= 0) by nia. assert (rf <= 0) by nia. nia.
        - assert (0 < n) by nia. assert (0 <= rt) by nia. assert (0 <= rf) by nia. nia. }
      destruct (same_sign_unique d qt rt qf rf ltac:(lia) Bt Bf SS). lia. }
  split.
  { intro H. destruct (Z.eq_dec n 0) as [E0|E0].
    - destruct (N0 E0) as (-> & _ & ->). destruct (small_multiple d (qt + qc') 0 ltac:(lia) ltac:(lia)). lia.
    - assert (SS : 0 <= rt * - rc').
      { destruct (Z.lt_trichotomy d 0) as [D|[D|D]]; [|lia|].
        - assert (0 < n) by nia. assert (0 <= rt) by nia. assert (0 <= - rc') by nia. nia.
        - assert (n < 0) by nia. assert (rt <= 0) by nia. assert (- rc' <= 0) by nia. nia. }
      destruct (same_sign_unique d qt rt (- qc') (- rc') ltac:(lia) Bt Bc SS). lia. }
  split; intro H.
  - destruct (Z.ltb_spec 0 d); [split; reflexivity|lia].
  - destruct (Z.ltb_spec 0 d); [lia|split; reflexivity].
Qed.

(* ------------------------------------------------------------------ divisibility, exact division and the ring view *)
Definition IsDivisor_consistent_stmt : Prop :=
  forall a b, b <> 0 ->
    (dom_isDivisor a b = true <-> dom_rem a b = 0) /\
    (dom_isDivisor a b = true <-> op_mod_I a b = 0) /\
    (dom_isDivisor a b = true ->
       a = b * dom_divexact a b /\ dom_quo a b = dom_divexact a b /\ dom_div a b = dom_divexact a b /\
       floor_r a b = dom_divexact a b /\ ceil_r a b = dom_divexact a b /\ fst (dom_quoRem a b) = dom_divexact a b /\
       (in_i64 b -> divexact_q_l a b = dom_divexact a b /\ divexact_l a b = dom_divexact a b) /\
       (in_u64 b -> divexact_q_ul a b = dom_divexact a b /\ divexact_ul a b = dom_divexact a b)).
Lemma isDivisor_consistent : IsDivisor_consistent_stmt.
Proof.
  intros a b Hb. split; [|split].
  - unfold dom_isDivisor, isZero. destruct (Z.eqb_spec b 0); [contradiction|]. unfold dom_rem, dom_mod.
    destruct (Z.eqb_spec (mod_I a b) 0); split; intro; (reflexivity || discriminate || lia).
  - rewrite (isDivisor_spec a b). rewrite op_mod_I_val. split.
    + intros (k & ->). apply Z.rem_divide; [assumption|]. exists k. lia.
    + intro E. apply Z.rem_divide in E; [|assumption]. destruct E as (k & E). exists k. lia.
  - intro H. apply (isDivisor_spec a b) in H. destruct H as (k & E).
    assert (X : dom_divexact a b = k) by (apply (dom_divexact_ex a b k I Hb E)).
    rewrite X. split; [exact E|].
    destruct (exact_all_agree a b k Hb E) as (T & F & C & U).
    apply tuniq in T. apply funiq in F. apply cuniq in C. apply euniq in U.
    unfold tquo, fquo, cquo in *.
    split; [rewrite dom_quo_val by assumption; lia|].
    split; [rewrite (tq_val' anyZ dom_div dom_div_tq a b I Hb); lia|].
    split; [unfold floor_r, mpz_fdiv_q; lia|].
    split; [unfold ceil_r, mpz_cdiv_q; lia|].
    split; [destruct (dm_val' anyZ dom_quoRem dom_quoRem_eucl a b I Hb) as (Q & _); rewrite Q; lia|].
    split; intro Hr.
    + split; [apply (divexact_q_l_ex a b k Hr Hb E)|apply (divexact_l_ex a b k Hr Hb E)].
    + split; [apply (divexact_q_ul_ex a b k Hr Hb E)|apply (divexact_ul_ex a b k Hr Hb E)].
Qed.

(* ------------------------------------------------------------------ round53 is THE IEEE-754 conversion int64_t -> binary64:
   nearest representable value, ties to the even significand.  For |z| >= 2^53 with 2^(52+k) <= |z| < 2^(53+k) the doubles in
   reach are the multiples of 2^k (significand 52+1 bits); the coarser grid above 2^(53+k) is a subset of it. *)
Lemma nearest_grid : forall u h q r q' c, 0 < h -> u = 2 * h -> 0 <= r < u ->
  (q' = q + 1 /\ h <= r) \/ (q' = q /\ r <= h) ->
  Z.abs (q' * u - (q * u + r)) <= Z.abs (c * u - (q * u + r)).
Proof.
  intros u h q r q' c Hh Hu Hr Hq. set (e := c - q).
  assert (Ec : c * u = q * u + e * u) by (subst e; ring). rewrite Ec.
  assert (Ee : e <= 0 \/ 1 <= e) by lia.
  destruct Ee as [Ee|Ee]; [assert (e * u <= 0) by nia|assert (u <= e * u) by nia];
    destruct Hq as [(-> & Hq)|(-> & Hq)]; try (replace ((q + 1) * u) with (q * u + u) by ring); lia.
Qed.
Lemma nearest_tie : forall u h q r q' c, 0 < h -> u = 2 * h -> 0 <= r < u ->
  (q' = q + 1 /\ h <= r) \/ (q' = q /\ r <= h) -> c * u <> q' * u ->
  Z.abs (c * u - (q * u + r)) = Z.abs (q' * u - (q * u + r)) -> r = h.
Proof.
  intros u h q r q' c Hh Hu Hr Hq Hne E. set (e := c - q).
  assert (Ec : c * u = q * u + e * u) by (subst e; ring). rewrite Ec in *.
  destruct Hq as [(-> & Hq)|(-> & Hq)].
  - replace ((q + 1) * u) with (q * u + u) in * by ring.
    assert (Ee : e <= 0 \/ e = 1 \/ 2 <= e) by lia.
    destruct Ee as [Ee|[Ee|Ee]]; [assert (e * u <= 0) by nia|rewrite Ee in *|assert (2 * u <= e * u) by nia]; lia.
  - assert (Ee : e <= -1 \/ e = 0 \/ 1 <= e) by lia.
    destruct Ee as [Ee|[Ee|Ee]]; [assert (e * u <= - u) by nia|rewrite Ee in *|assert (u <= e * u) by nia]; lia.
Qed.

Definition Round53_ieee_stmt : Prop :=
  forall z, 9007199254740992 <= Z.abs z ->
    let k := Z.log2 (Z.abs z) - 52 in
    (exists m, round53 z = m * 2 ^ k /\ Z.abs m <= 2 ^ 53) /\
    (forall c, Z.abs (round53 z - z) <= Z.abs (c * 2 ^ k - z)) /\
    (forall c, Z.abs (c * 2 ^ k - z) = Z.abs (round53 z - z) -> c * 2 ^ k <> round53 z -> Z.even (round53 z / 2 ^ k) = true).
Lemma round53_ieee : Round53_ieee_stmt.
Proof.
  intros z Hz k.
  assert (L : 53 <= Z.log2 (Z.abs z)) by (apply (Z.log2_le_mono (2 ^ 53)); exact Hz).
  assert (K1 : 1 <= k) by (subst k; lia).
  unfold round53. cbv zeta. destruct (Z.ltb_spec (Z.abs z) 9007199254740992); [lia|]. fold k.
  remember (Z.abs z) as a.
  assert (P : 0 < 2 ^ k) by (apply Z.pow_pos_nonneg; lia).
  assert (Hh : 2 ^ k = 2 * 2 ^ (k - 1)).
  { replace k with (Z.succ (k - 1)) at 1 by lia. rewrite Z.pow_succ_r by lia. reflexivity. }
  assert (Ph : 0 < 2 ^ (k - 1)) by (apply Z.pow_pos_nonneg; lia).
  pose proof (Z.div_mod a (2 ^ k) ltac:(lia)) as DM. pose proof (Z.mod_pos_bound a (2 ^ k) P) as MB.
  destruct (Z.log2_spec a ltac:(lia)) as (Lo & Hi).
  assert (Ek : Z.log2 a = 52 + k) by (subst k; lia).
  rewrite Ek in Lo, Hi. rewrite Z.pow_add_r in Lo by lia.
  replace (Z.succ (52 + k)) with (53 + k) in Hi by lia. rewrite Z.pow_add_r in Hi by lia.
  remember (a / 2 ^ k) as q. remember (a mod 2 ^ k) as r. remember (2 ^ (k - 1)) as h. remember (2 ^ k) as u.
  change (2 ^ 52) with 4503599627370496 in *. change (2 ^ 53) with 9007199254740992 in *.
  assert (Q : 4503599627370496 <= q < 9007199254740992) by nia.
  assert (S1 : (Z.sgn z = 1 /\ z = a) \/ (Z.sgn z = -1 /\ z = - a)) by (subst a; destruct z; cbn [Z.sgn Z.abs] in *; lia).
  set (q' := if (h <? r) || (r =? h) && Z.odd q then q + 1 else q).
  assert (Eq' : (q' = q + 1 /\ (h < r \/ (r = h /\ Z.odd q = true))) \/ (q' = q /\ (r < h \/ (r = h /\ Z.odd q = false)))).
  { subst q'. destruct (Z.ltb_spec h r); cbn [orb]; [left; split; [reflexivity|left; assumption]|].
    destruct (Z.eqb_spec r h); cbn [andb].
    - destruct (Z.odd q) eqn:Eo; [left|right]; split; try reflexivity; right; split; (assumption || reflexivity).
    - right. split; [reflexivity|left; lia]. }
  assert (Ediv : Z.sgn z * (q' * u) / u = Z.sgn z * q').
  { replace (Z.sgn z * (q' * u)) with (Z.sgn z * q' * u) by ring. apply Z.div_mul. lia. }
  assert (Cases : (q' = q + 1 /\ h <= r) \/ (q' = q /\ r <= h)) by lia.
  assert (Ea : a = q * u + r) by lia.
  split; [|split].
  - exists (Z.sgn z * q'). split; [ring|]. destruct S1 as [(S & _)|(S & _)]; rewrite S; destruct Eq' as [(-> & _)|(-> & _)]; lia.
  - intro c. destruct S1 as [(S & Ez)|(S & Ez)]; rewrite S, Ez, Ea.
    + replace (1 * (q' * u)) with (q' * u) by ring. apply (nearest_grid u h q r q' c); assumption || lia.
    + replace (-1 * (q' * u) - - (q * u + r)) with (- (q' * u - (q * u + r))) by ring.
      replace (c * u - - (q * u + r)) with (- ((- c) * u - (q * u + r))) by ring.
      rewrite !Z.abs_opp. apply (nearest_grid u h q r q' (- c)); assumption || lia.
  - intros c Hc Hne. rewrite Ediv.
    assert (Tie : r = h).
    { destruct S1 as [(S & Ez)|(S & Ez)]; rewrite S, Ez, Ea in *.
      - apply (nearest_tie u h q r q' c); try assumption; lia.
      - apply (nearest_tie u h q r q' (- c)); try assumption; lia. }
    assert (Ev : Z.even q' = true).
    { destruct Eq' as [(E1 & [E2|(_ & E2)])|(E1 & [E2|(_ & E2)])]; try lia; rewrite E1.
      - replace (q + 1) with (Z.succ q) by lia. rewrite Z.even_succ. exact E2.
      - rewrite <- Z.negb_odd. rewrite E2. reflexivity. }
    destruct S1 as [(S & _)|(S & _)]; rewrite S.
    + rewrite Z.mul_1_l. exact Ev.
    + replace (-1 * q') with (- q') by lia. rewrite Z.even_opp. exact Ev.
Qed.

(* ------------------------------------------------------------------ the CInt layer: each cast is the C conversion
   (the unique value of the destination type congruent to the source modulo 2^N), and std::abs / unary minus on long
   followed by the conversion to unsigned long give |n| for EVERY long, INT64_MIN included *)
Definition CInt_casts_stmt : Prop :=
  (forall z, in_u64 (to_u64 z) /\ (to_u64 z - z) mod W64 = 0 /\ (in_u64 z -> to_u64 z = z)) /\
  (forall z, in_i64 (to_i64 z) /\ (to_i64 z - z) mod W64 = 0 /\ (in_i64 z -> to_i64 z = z)) /\
  (forall z, in_u32 (to_u32 z) /\ (to_u32 z - z) mod W32 = 0 /\ (in_u32 z -> to_u32 z = z)) /\
  (forall z, in_i32 (to_i32 z) /\ (to_i32 z - z) mod W32 = 0 /\ (in_i32 z -> to_i32 z = z)) /\
  (forall z, in_i16 (to_i16 z) /\ (to_i16 z - z) mod W16 = 0 /\ (in_i16 z -> to_i16 z = z)) /\
  (forall z, in_i8 (to_i8 z) /\ (to_i8 z - z) mod W8 = 0 /\ (in_i8 z -> to_i8 z = z)) /\
  (forall z, in_u8 (to_u8 z) /\ (to_u8 z - z) mod W8 = 0 /\ (in_u8 z -> to_u8 z = z)) /\
  (forall n, in_i64 n -> cast_abs64 n = Z.abs n /\ (n <= 0 -> cast_neg64 n = Z.abs n) /\ in_u64 (Z.abs n)) /\
  (forall z, in_i64 z -> to_i32 (to_i64 z) = to_i32 z /\ to_i16 (to_i64 z) = to_i16 z) /\
  (forall K, 0 <= K -> K / 16 < W64 -> cast_dbl_u64 K = Z.quot K 16).
Lemma cint_casts : CInt_casts_stmt.
Proof.
  unfold CInt_casts_stmt, cast_abs64, cast_neg64, cast_dbl_u64.
  repeat apply conj; intros; cint8; lia.
Qed.

Example table_examples :
  List.In (F1 "trem.ul"%string KTr TZ Tu64 trem_ul) forms /\ in_ty Tu64 (W64 - 1) /\ pre KTr (W64 - 2) (W64 - 1) /\
  fsem (F1 "trem.ul"%string KTr TZ Tu64 trem_ul) (W64 - 2) (W64 - 1) = [W64 - 2] /\
  fsem (F1 "op%.ul"%string KTrFit64 TZ Tu64 op_mod_ul) (W64 - 2) (W64 - 1) = [-2] (* finding: not the remainder *) /\
  pre KTrFit64 (H64 - 1) (W64 - 1) /\ pre KExact 14 (-7) /\
  fsem (F1 "mod.ul"%string KEr TZ Tu64 mod_ul) 0 7 = [0] /\ List.length forms = 149%nat /\
  round53 (2 ^ 53 + 1) = 2 ^ 53 /\ round53 (2 ^ 53 + 3) = 2 ^ 53 + 4 /\ round53 (- (2 ^ 63 - 1)) = - 2 ^ 63 /\
  dom_isDivisor (-14) (-7) = true /\ dom_divexact (-14) (-7) = 2.
Proof.
  split; [unfold forms; repeat (first [left; reflexivity | right])|].
  assert (E : pre KExact 14 (-7)) by (split; [discriminate|exists (-2); reflexivity]).
  repeat match goal with |- _ /\ _ => split end; try exact E;
    try (vm_compute; first [reflexivity | discriminate | (split; [discriminate|reflexivity])
                            | (repeat split; first [discriminate | reflexivity | (intro; discriminate)]) ]).
Qed.

(* ------------------------------------------------------------------ FINDINGS (phase 4): `%` overloads whose return type cannot
   hold every truncated remainder do NOT meet the header's "r = a % b: |r| < |b|, a r >= 0" for every divisor of their type.
   These are the refutations of the property's clause for those overloads; Percent_narrow_wrap_stmt / Percent_double_stmt say
   what the code returns instead. *)
Definition Percent_narrow_return_refuted_stmt : Prop :=
  (* LIVE: int64_t operator%(uint64_t) - the known finding *)
  (exists n d, in_u64 d /\ d <> 0 /\ op_mod_ul n d <> Z.rem n d /\ op_mod_ul n d * n < 0) /\
  (* LIVE: double operator%(double) is not exact when the remainder is not a double (inherent in the return type) *)
  (exists n d, d <> 0 /\ op_mod_d n d <> Z.rem n d) /\
  (* HISTORY: the bodies before e502f6c (uint32_t -> int32_t, uint16_t -> int16_t) and before 2c6554a (double through int64_t,
     rounded to nearest): wrong sign; a double result equal to the divisor *)
  (exists n d, in_u32 d /\ d <> 0 /\ op_mod_u_old n d <> Z.rem n d /\ op_mod_u_old n d * n < 0) /\
  (exists n d, in_u16 d /\ d <> 0 /\ op_mod_us_old n d <> Z.rem n d /\ op_mod_us_old n d * n < 0) /\
  (exists n d, d <> 0 /\ Z.abs d < W64 /\ round53 d = d /\ op_mod_d_old n d * n < 0) /\
  (exists n d, d <> 0 /\ Z.abs d < H64 /\ round53 d = d /\ op_mod_d_old n d = d).
Lemma percent_narrow_return_refuted : Percent_narrow_return_refuted_stmt.
Proof.
  unfold Percent_narrow_return_refuted_stmt. repeat apply conj.
  - exists (W64 - 2), (W64 - 1). vm_compute. repeat split; (discriminate || reflexivity || (intro; discriminate)).
  - exists (2 ^ 53 + 1), (2 ^ 60). vm_compute. repeat split; (discriminate || reflexivity || (intro; discriminate)).
  - exists 3000000000, 4000000000. vm_compute. repeat split; (discriminate || reflexivity || (intro; discriminate)).
  - exists 40000, 50000. vm_compute. repeat split; (discriminate || reflexivity || (intro; discriminate)).
  - exists H64, (W64 - 2048). vm_compute. repeat split; (discriminate || reflexivity || (intro; discriminate)).
  - exists (2 ^ 60 - 1), (2 ^ 60). vm_compute. repeat split; (discriminate || reflexivity || (intro; discriminate)).
Qed.

(* hypotheses of the conditional theorems are satisfiable (one instance each, at a limit where there is one) *)
Example phase4_examples :
  (in_i64 (- H64) /\ - H64 <> 0 /\ 2 ^ 126 = - H64 * (- 2 ^ 63) /\ divexact_l (2 ^ 126) (- H64) = - 2 ^ 63) /\           (* Exact_quot *)
  (in_u64 (W64 - 1) /\ trunc_remainder (H64 - 1) (W64 - 1) (H64 - 1) /\ in_i64 (H64 - 1) /\ op_mod_ul (H64 - 1) (W64 - 1) = H64 - 1) /\   (* Trunc_rem_when *)
  (~ (exists k, 7 = -2 * k) /\ ceil_r 7 (-2) = floor_r 7 (-2) + 1 /\ 7 * -2 <= 0 /\ trunc_r 7 (-2) = ceil_r 7 (-2)) /\   (* Roundings_relate *)
  (dom_isDivisor (W64 * 3) (- W64) = true /\ dom_divexact (W64 * 3) (- W64) = -3).                                     (* IsDivisor_consistent *)
Proof.
  repeat match goal with |- _ /\ _ => split end; try (vm_compute; first [reflexivity | discriminate | (split; discriminate) | (intro; discriminate)]).
  - cint; lia.
  - cint; lia.
  - exists 0. unfold is_trunc. cint; lia.
  - cint; lia.
  - intros (k & E). lia.
Qed.
