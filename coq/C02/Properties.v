(* C02 property theorems.  Nothing but statements closed by `exact`, each followed by Print Assumptions.
   The statements are spelled out in ProofsProps.v (families: conjunctions, one conjunct per overload) and ProofsMod.v.
   Reading guide (definitions in DivSpec.v / ProofsDiv.v / ProofsMod.v):
     is_trunc n d q r : n = d q + r, |r| < |d|, n r >= 0        (C `/` and `%`)
     is_floor / is_ceil : same with r of the sign of d / of the opposite sign
     is_eucl  n d q r : n = d q + r, 0 <= r < |d|               (mod, divmod, quoRem)
     Trunc_quot dom f : forall n d, dom d -> d <> 0 -> exists r, is_trunc n d (f n d) r     (likewise Floor_/Ceil_quot)
     Trunc_rem / Floor_rem / Ceil_rem / Eucl_rem dom f : ... exists q, is_xxx n d q (f n d)
     Eucl_divmod dom f : ... is_eucl n d (fst (f n d)) (snd (f n d)) and the remainder fits the word type
     Exact_quot dom f : forall n d q, dom d -> d <> 0 -> n = d q -> f n d = q
     Trunc_rem_when dom ret f : the truncated remainder is returned whenever it is representable in the return type
   n ranges over all of Z; d over all non-zero values of the divisor's C type (in_i64, in_u64, in_i32, in_u32, ...),
   INT64_MIN / 2^63 / 2^64-1 included.  The functions are the Gallina bodies of Model.v, one per overload. *)
From Coq Require Import ZArith.
From C02 Require Import Model DivSpec ProofsDiv ProofsMod ProofsProps Table ProofsTable.
Local Open Scope Z_scope.

(* each rounding convention determines q and r uniquely (so 'the' truncated / floor / ceiling / euclidean quotient and remainder exist), and rounds in the direction its name says *)
Theorem C02_conventions_well_defined : Conventions_well_defined_stmt. Proof. exact conventions_well_defined. Qed.
Print Assumptions C02_conventions_well_defined.
(* `/`, `/=`, div, divin — every overload (Integer, int64_t, uint64_t, int32_t, uint32_t, template, word/Integer) — return the quotient rounded towards 0 *)
Theorem C02_truncating_quotients : Truncating_quotients_stmt. Proof. exact truncating_quotients. Qed.
Print Assumptions C02_truncating_quotients.
(* divexact, all six overloads: when d | n the result is the q with n = d q (negative int64_t divisors, INT64_MIN included) *)
Theorem C02_exact_divisions : Exact_divisions_stmt. Proof. exact exact_divisions. Qed.
Print Assumptions C02_exact_divisions.
(* floor / ceil / trunc (reference-returning and value-returning) round as their names say *)
Theorem C02_floor_ceil_trunc : Named_roundings_stmt. Proof. exact named_roundings. Qed.
Print Assumptions C02_floor_ceil_trunc.
(* trem / crem / frem with an Integer divisor, a uint64_t divisor, and the uint64_t-returning forms (which return |r|) *)
Theorem C02_trem_crem_frem : Named_remainders_stmt. Proof. exact named_remainders. Qed.
Print Assumptions C02_trem_crem_frem.
(* divmod (Integer, int64_t, uint64_t): n = d q + r with 0 <= r < |d| for every sign of n and d; r fits its word type *)
Theorem C02_divmod : Divmods_stmt. Proof. exact divmods. Qed.
Print Assumptions C02_divmod.
(* mod / modin, every overload: 0 <= r < |d| and r = n (mod d) *)
Theorem C02_mod_modin : Mods_stmt. Proof. exact mods. Qed.
Print Assumptions C02_mod_modin.
(* `%=` and `%`, every overload whose return type can hold every remainder: truncated remainder (sign of the dividend, |r| < |d|) *)
Theorem C02_percent_operators : Percent_operators_stmt. Proof. exact percent_operators. Qed.
Print Assumptions C02_percent_operators.
(* int64_t %(uint64_t): the truncated remainder is returned whenever int64_t can represent it; int64_t %(uint32_t), int32_t %(uint16_t) (return types since e502f6c): always *)
Theorem C02_percent_operators_narrow_return_type : Percent_narrow_return_stmt. Proof. exact percent_narrow_return. Qed.
Print Assumptions C02_percent_operators_narrow_return_type.
(* WHAT THE CODE RETURNS (documentation of a finding, not a convention): narrow-return `%` overloads for every divisor give the
   truncated remainder converted to the return type (C narrowing), which is NOT the remainder when it does not fit *)
Theorem C02_percent_operators_narrow_return_wrap : Percent_narrow_wrap_stmt. Proof. exact percent_narrow_wrap. Qed.
Print Assumptions C02_percent_operators_narrow_return_wrap.
(* double operator%(double) (body since 2c6554a): every double l with trunc l <> 0: the remainder converted to double towards zero; |res| < |trunc l|, n res >= 0, exact whenever a double holds it (HISTORY conjuncts: the old body through int64_t / round-to-nearest) *)
Theorem C02_percent_double : Percent_double_all_stmt. Proof. exact percent_double_all. Qed.
Print Assumptions C02_percent_double.
(* IntegerDom::div/divin/divexact/mod/modin/divmod/quoRem carry the conventions of the Integer functions they forward to *)
Theorem C02_IntegerDom_wrappers : Dom_wrappers_stmt. Proof. exact dom_wrappers. Qed.
Print Assumptions C02_IntegerDom_wrappers.
(* q = a / b and r = a % b satisfy a = b q + r, |r| < |b|, a r >= 0 (header: 'a = b q + r is always true') *)
Theorem C02_div_and_mod_operators_pair : Div_mod_pair_stmt. Proof. exact div_mod_pair. Qed.
Print Assumptions C02_div_and_mod_operators_pair.
(* the remainder of divmod is mod *)
Theorem C02_divmod_remainder_is_mod : Divmod_mod_stmt. Proof. exact divmod_mod. Qed.
Print Assumptions C02_divmod_remainder_is_mod.
(* header warning: the two conventions coincide when a >= 0 *)
Theorem C02_conventions_agree_for_nonneg_dividend : Conventions_agree_nonneg_stmt. Proof. exact conventions_agree_nonneg. Qed.
Print Assumptions C02_conventions_agree_for_nonneg_dividend.
(* all overloads of the truncating quotient return the same value on their common domain *)
Theorem C02_quotient_overloads_agree : Quotient_overloads_agree_stmt. Proof. exact quotient_overloads_agree. Qed.
Print Assumptions C02_quotient_overloads_agree.
(* all overloads of the truncated remainder return the same value on their common domain *)
Theorem C02_remainder_overloads_agree : Remainder_overloads_agree_stmt. Proof. exact remainder_overloads_agree. Qed.
Print Assumptions C02_remainder_overloads_agree.
(* all overloads of the non-negative remainder (mod, modin, divmod's r, rem, remin, frem for d > 0) agree *)
Theorem C02_mod_overloads_agree : Mod_overloads_agree_stmt. Proof. exact mod_overloads_agree. Qed.
Print Assumptions C02_mod_overloads_agree.
(* divmod overloads and the IntegerDom forms return the same pair *)
Theorem C02_divmod_overloads_agree : Divmod_overloads_agree_stmt. Proof. exact divmod_overloads_agree. Qed.
Print Assumptions C02_divmod_overloads_agree.
(* quo, rem, quoin, remin, quoRem describe one division a = b q + r, 0 <= r < |b| (quo as repaired by a7f1360 = frag/C02.fix-1.diff) *)
Theorem C02_euclidean_ring_view_consistent : Euclidean_ring_consistent_stmt. Proof. exact euclidean_ring_consistent. Qed.
Print Assumptions C02_euclidean_ring_view_consistent.
(* with quo = floor (the body before the repair) the ring view is inconsistent for a negative divisor *)
Theorem C02_quo_as_floor_refuted : exists a b, b <> 0 /\ a <> b * dom_quo_floor a b + dom_rem a b /\ dom_quo_floor a b <> fst (dom_quoRem a b). Proof. exact quo_floor_inconsistent. Qed.
Print Assumptions C02_quo_as_floor_refuted.
(* isDivisor(a, b) <-> b | a *)
Theorem C02_isDivisor : IsDivisor_stmt. Proof. exact isDivisor_spec. Qed.
Print Assumptions C02_isDivisor.

(* ---- phase 3: statements quantified over the overload table `forms` of Table.v (131 call forms; the extracted driver
   dispatches through this very table and the check compares it with the forms it drives on every run).
     in_ty t z : z lies in the range of the C type t;  pre k n d : d <> 0 (d | n for divexact; nothing for isDivisor)
     spec k n d : the closed form of convention k (tquo / trem / fquo / ... of DivSpec.v);  meets k n d out : the relation *)
(* EVERY call form of the table, for all operands of its C types: it returns the closed form of the convention it is listed
   with, and that output satisfies the convention's defining relation (n = d q + r, bound and sign of r) *)
Theorem C02_every_call_form_meets_its_convention : Every_form_meets_its_convention_stmt. Proof. exact every_form_meets_its_convention. Qed.
Print Assumptions C02_every_call_form_meets_its_convention.
(* ALL overloads / call forms of one operation agree: any two table entries listed with the same convention return the same
   output wherever both are defined (one statement over the table instead of one per pair) *)
Theorem C02_all_overloads_of_one_operation_agree : Overloads_of_one_operation_agree_stmt. Proof. exact overloads_of_one_operation_agree. Qed.
Print Assumptions C02_all_overloads_of_one_operation_agree.
(* the table's form names are pairwise distinct (the dispatch by name is a function) *)
Theorem C02_form_names_distinct : Form_names_distinct_stmt. Proof. exact form_names_distinct. Qed.
Print Assumptions C02_form_names_distinct.
(* floor <= trunc <= ceil; they coincide iff d | n, else ceil = floor + 1 and frem - crem = d; trunc is floor when n d >= 0 and
   ceil when n d <= 0; quo / mod are floor / frem for d > 0 and ceil / crem for d < 0 *)
Theorem C02_roundings_relate : Roundings_relate_stmt. Proof. exact roundings_relate. Qed.
Print Assumptions C02_roundings_relate.
(* isDivisor(a,b) <-> rem(a,b) = 0 <-> a % b = 0, and then every quotient form (divexact x6, quo, div, floor, ceil, quoRem) is the k with a = b k *)
Theorem C02_isDivisor_divexact_consistent : IsDivisor_consistent_stmt. Proof. exact isDivisor_consistent. Qed.
Print Assumptions C02_isDivisor_divexact_consistent.
(* round53 (the int64_t -> double conversion in operator%(double)) is IEEE round-to-nearest-even: the result is a multiple
   m 2^k of the last-place unit with |m| <= 2^53, no multiple of 2^k is nearer, and when another one is equally near the
   chosen significand is even *)
Theorem C02_round53_is_ieee_nearest_even : Round53_ieee_stmt. Proof. exact round53_ieee. Qed.
Print Assumptions C02_round53_is_ieee_nearest_even.
(* the casts of the CInt layer are the C conversions (the value of the destination type congruent modulo 2^N; identity on
   it), std::abs / unary minus on long followed by the conversion to unsigned long give |n| (INT64_MIN included), a cast
   chain through int64_t narrows like the direct cast, static_cast<uint64_t>(double) truncates *)
Theorem C02_cint_casts_are_C_conversions : CInt_casts_stmt. Proof. exact cint_casts. Qed.
Print Assumptions C02_cint_casts_are_C_conversions.

(* ---- phase 4: the clause "`%` returns r with the sign of n and |r| < |d|" is REFUTED for int64_t %(uint64_t) (LIVE, known finding:
   witness with the wrong sign; the table row states the property's convention under the hypothesis that r fits int64_t), double
   %(double) is not exact when r is not a double (LIVE, inherent), and - HISTORY - it was refuted for the bodies of %(uint32_t),
   %(uint16_t), %(double) before the repairs e502f6c / 2c6554a (wrong sign; double result equal to the divisor). *)
Theorem C02_percent_narrow_return_refuted : Percent_narrow_return_refuted_stmt. Proof. exact percent_narrow_return_refuted. Qed.
Print Assumptions C02_percent_narrow_return_refuted.
