(* C02 — the OVERLOAD TABLE: every call form the harness drives, with its name, the C types of its operands, the rounding
   convention the header's convention block (gmp++_int.h, "Division/euclidean division/modulo") and the names give it, and the
   Gallina body of Model.v that models it.  Definitions only.  Where a return type cannot hold every result of that convention
   (`%` returning int64_t for a uint64_t divisor) the row keeps the PROPERTY's convention and carries the representability
   condition in `pre`; what the code returns outside it is a recorded finding, not a convention.  `double operator%(double)`
   returns the remainder converted to double towards zero (exact whenever a double can hold it).
   `op%.Tuc` (template at unsigned char) is KAbsTr because the header DOES document it: "Cast towards unsigned consider only the
   absolute value" (gmp++_int.h, "Cast operators"), and the template body is that cast applied to `*this % Integer(n)`.
   The extracted driver dispatches through this table (coq/C02/ocaml/driver.ml looks the form name up in `forms`), the check
   compares the table with its own list of forms / oracle kinds on every run, and the theorems of ProofsTable.v quantify
   over it: one statement for all overloads instead of one per overload. *)
From Coq Require Import ZArith List String.
From C02 Require Import Model DivSpec ProofsDiv ProofsMod.
Import ListNotations.
Local Open Scope Z_scope.

(* C type of an operand *)
Inductive cty := TZ | Ti64 | Tu64 | Ti32 | Tu32 | Ti16 | Tu16 | Ti8 | Tu8 | Td53 | Tf24 | Tdbl | Tdblx.

Definition in_ty (t : cty) (z : Z) : Prop :=
  match t with
  | TZ => True | Ti64 => in_i64 z | Tu64 => in_u64 z | Ti32 => in_i32 z | Tu32 => in_u32 z
  | Ti16 => in_i16 z | Tu16 => in_u16 z | Ti8 => in_i8 z | Tu8 => in_u8 z
  | Td53 => in_d53 z                      (* integer-valued double, |l| <= 2^53 *)
  | Tf24 => in_f24 z                      (* integer-valued float, |l| <= 2^24 *)
  | Tdbl => True                          (* integer-valued double of any magnitude *)
  | Tdblx => True                         (* the double z / 16 (4 fractional bits) *)
  end.

(* what the form is documented to return *)
Inductive conv :=
  | KTq | KTr                  (* truncated quotient / remainder:  `/`, `/=`, div, divin, trunc / `%`, `%=`, trem *)
  | KFq | KFr | KCq | KCr      (* floor / ceiling quotient and remainder *)
  | KEq | KEr | KEqr           (* euclidean: 0 <= r < |d|  (quo / mod, modin, rem / divmod, quoRem) *)
  | KExact                     (* divexact: the q with n = d q *)
  | KAbsTr | KAbsCr            (* unsigned-word-returning trem / crem: |r| *)
  | KTrFit64                   (* int64_t operator%(uint64_t): the header documents no exception to "r = a % b, |r| < |b|, a r >= 0",
                                  so the convention is KTr; the extra precondition says when the code meets it: r representable in
                                  int64_t.  Outside it the code returns r wrapped - a FINDING (known; no repair without changing
                                  the return type).  The uint32_t / uint16_t overloads were repaired (e502f6c) and are plain KTr. *)
  | KTrDbl | KTrDblx           (* double operator%(double) (body since 2c6554a): the remainder converted to double towards zero -
                                  the remainder itself whenever it is a double; |res| < |l| and the sign of n for every l *)
  | KIsDiv.

Definition spec (k : conv) (n d : Z) : list Z :=
  match k with
  | KTq => [tquo n d] | KTr => [trem n d]
  | KFq => [fquo n d] | KFr => [frem n d] | KCq => [cquo n d] | KCr => [crem n d]
  | KEq => [equo n d] | KEr => [emod n d] | KEqr => [equo n d; emod n d]
  | KExact => [tquo n d]
  | KAbsTr => [Z.abs (trem n d)] | KAbsCr => [Z.abs (crem n d)]
  | KTrFit64 => [trem n d]
  | KTrDbl => [trunc53 (trem n d)]
  | KTrDblx => [trunc53 (trem n (Z.quot d 16))]
  | KIsDiv => [Z.b2z (if d =? 0 then n =? 0 else (n mod d =? 0))]
  end.

(* the contract: d <> 0 (division by zero is outside it), d | n for divexact; isDivisor is defined for every b *)
Definition pre (k : conv) (n d : Z) : Prop :=
  match k with
  | KIsDiv => True
  | KExact => d <> 0 /\ exists q, n = d * q
  | KTrFit64 => d <> 0 /\ in_i64 (trem n d)
  | KTrDblx => Z.quot d 16 <> 0
  | _ => d <> 0
  end.

Record form := { fname : string; fconv : conv; fnty : cty; fdty : cty; fsem : Z -> Z -> list Z }.

Definition F1 (name : string) (k : conv) (nt dt : cty) (f : Z -> Z -> Z) : form :=
  {| fname := name; fconv := k; fnty := nt; fdty := dt; fsem := fun n d => [f n d] |}.
Definition F2 (name : string) (k : conv) (nt dt : cty) (f : Z -> Z -> Z * Z) : form :=
  {| fname := name; fconv := k; fnty := nt; fdty := dt; fsem := fun n d => [fst (f n d); snd (f n d)] |}.
Definition FB (name : string) (k : conv) (nt dt : cty) (f : Z -> Z -> bool) : form :=
  {| fname := name; fconv := k; fnty := nt; fdty := dt; fsem := fun n d => [Z.b2z (f n d)] |}.

Local Open Scope string_scope.
Definition forms : list form := [
  (* ---- truncating quotient: gmp++_int_div.C, gmp++_int.h forwarders, promotions, template instances *)
  F1 "divin.I" KTq TZ TZ divin_I; F1 "divin.l" KTq TZ Ti64 divin_l; F1 "divin.ul" KTq TZ Tu64 divin_ul;
  F1 "div.I" KTq TZ TZ div_I; F1 "div.l" KTq TZ Ti64 div_l; F1 "div.i" KTq TZ Ti32 div_i; F1 "div.ul" KTq TZ Tu64 div_ul;
  F1 "div.s" KTq TZ Ti16 div_i; F1 "div.c" KTq TZ Ti8 div_i;                       (* short / signed char promote to int *)
  F1 "op/=.I" KTq TZ TZ op_diveq_I; F1 "op/=.ul" KTq TZ Tu64 op_diveq_ul; F1 "op/=.l" KTq TZ Ti64 op_diveq_l;
  F1 "op/=.u" KTq TZ Tu32 op_diveq_u; F1 "op/=.i" KTq TZ Ti32 op_diveq_i;
  F1 "op/=.T" KTq TZ TZ op_diveq_T; F1 "op/=.Ts" KTq TZ Ti16 op_diveq_T; F1 "op/=.Tus" KTq TZ Tu16 op_diveq_T;
  F1 "op/=.Tc" KTq TZ Ti8 op_diveq_T; F1 "op/=.Tuc" KTq TZ Tu8 op_diveq_T; F1 "op/=.Td" KTq TZ Td53 op_diveq_T;
  F1 "op/=.Tf" KTq TZ Tf24 op_diveq_T;
  F1 "op/.I" KTq TZ TZ op_div_I; F1 "op/.ul" KTq TZ Tu64 op_div_ul; F1 "op/.l" KTq TZ Ti64 op_div_l;
  F1 "op/.u" KTq TZ Tu32 op_div_u; F1 "op/.i" KTq TZ Ti32 op_div_i;
  F1 "op/.s" KTq TZ Ti16 op_div_i; F1 "op/.us" KTq TZ Tu16 op_div_i; F1 "op/.c" KTq TZ Ti8 op_div_i;
  F1 "op/.L" KTq TZ Ti64 op_div_l;                                                 (* long = int64_t *)
  F1 "w/I.i" KTq Ti32 TZ w_div_I; F1 "w/I.l" KTq Ti64 TZ w_div_I; F1 "w/I.u" KTq Tu32 TZ w_div_I; F1 "w/I.ul" KTq Tu64 TZ w_div_I;
  F1 "w/I.s" KTq Ti16 TZ w_div_I;
  F1 "trunc.r" KTq TZ TZ trunc_r; F1 "trunc.v" KTq TZ TZ trunc_v;
  F1 "dom.div" KTq TZ TZ dom_div; F1 "dom.divin" KTq TZ TZ dom_divin;
  F1 "zbase.div" KTq TZ TZ zbase_div; F1 "zbase.divin" KTq TZ TZ zbase_divin;
  F1 "seq.div" KTq TZ TZ div_I; F1 "seq.div.ul" KTq TZ Tu64 div_ul; F1 "seq.div.l" KTq TZ Ti64 div_l;   (* the last call of the sequence *)
  (* ---- floor / ceiling quotients *)
  F1 "floor.r" KFq TZ TZ floor_r; F1 "floor.v" KFq TZ TZ floor_v; F1 "ceil.r" KCq TZ TZ ceil_r; F1 "ceil.v" KCq TZ TZ ceil_v;
  (* ---- exact division *)
  F1 "divexact.qI" KExact TZ TZ divexact_q_I; F1 "divexact.qul" KExact TZ Tu64 divexact_q_ul; F1 "divexact.ql" KExact TZ Ti64 divexact_q_l;
  F1 "divexact.I" KExact TZ TZ divexact_I; F1 "divexact.ul" KExact TZ Tu64 divexact_ul; F1 "divexact.l" KExact TZ Ti64 divexact_l;
  F1 "divexact.qUL" KExact TZ Tu64 divexact_q_ul; F1 "dom.divexact" KExact TZ TZ dom_divexact;
  F1 "seq.divexact" KExact TZ TZ divexact_q_I; F1 "seq.divexact.ul" KExact TZ Tu64 divexact_q_ul; F1 "seq.divexact.l" KExact TZ Ti64 divexact_q_l;
  (* ---- euclidean division *)
  F2 "divmod.I" KEqr TZ TZ divmod_I; F2 "divmod.l" KEqr TZ Ti64 divmod_l; F2 "divmod.ul" KEqr TZ Tu64 divmod_ul;
  F2 "dom.divmod" KEqr TZ TZ dom_divmod; F2 "dom.quoRem" KEqr TZ TZ dom_quoRem; F2 "seq.divmod" KEqr TZ TZ divmod_I;
  (* every two-output form with each output being each input object ("q or r may be the same object as a or b", gmp++_int_div.C);
     the model has no objects, hence the same bodies: these rows exist so that the aliased calls are driven and compared *)
  F2 "divmod.I@qa" KEqr TZ TZ divmod_I; F2 "divmod.I@qb" KEqr TZ TZ divmod_I; F2 "divmod.I@ra" KEqr TZ TZ divmod_I; F2 "divmod.I@rb" KEqr TZ TZ divmod_I;
  F2 "divmod.I@qa.rb" KEqr TZ TZ divmod_I; F2 "divmod.I@qb.ra" KEqr TZ TZ divmod_I;
  F2 "dom.divmod@qa" KEqr TZ TZ dom_divmod; F2 "dom.divmod@qb" KEqr TZ TZ dom_divmod; F2 "dom.divmod@ra" KEqr TZ TZ dom_divmod; F2 "dom.divmod@rb" KEqr TZ TZ dom_divmod;
  F2 "dom.quoRem@qa" KEqr TZ TZ dom_quoRem; F2 "dom.quoRem@qb" KEqr TZ TZ dom_quoRem; F2 "dom.quoRem@ra" KEqr TZ TZ dom_quoRem; F2 "dom.quoRem@rb" KEqr TZ TZ dom_quoRem;
  F2 "dom.quoRem@qa.rb" KEqr TZ TZ dom_quoRem; F2 "dom.quoRem@qb.ra" KEqr TZ TZ dom_quoRem;
  F2 "divmod.l@qa" KEqr TZ Ti64 divmod_l; F2 "divmod.ul@qa" KEqr TZ Tu64 divmod_ul;
  F1 "dom.quo" KEq TZ TZ dom_quo; F1 "dom.quoin" KEq TZ TZ dom_quoin; F1 "dom.quo@qb" KEq TZ TZ dom_quo;
  (* ---- remainders by name *)
  F1 "trem.I" KTr TZ TZ trem_I; F1 "crem.I" KCr TZ TZ crem_I; F1 "frem.I" KFr TZ TZ frem_I;
  F1 "trem.ul" KTr TZ Tu64 trem_ul; F1 "crem.ul" KCr TZ Tu64 crem_ul; F1 "frem.ul" KFr TZ Tu64 frem_ul;
  F1 "trem.w" KAbsTr TZ Tu64 trem_w; F1 "crem.w" KAbsCr TZ Tu64 crem_w; F1 "frem.w" KFr TZ Tu64 frem_w;
  F1 "seq.trem.ul" KTr TZ Tu64 trem_ul;
  (* ---- mod / modin (non-negative remainder) *)
  F1 "modin.I" KEr TZ TZ modin_I; F1 "modin.ul" KEr TZ Tu64 modin_ul; F1 "modin.l" KEr TZ Ti64 modin_l;
  F1 "mod.I" KEr TZ TZ mod_I; F1 "mod.l" KEr TZ Ti64 mod_l; F1 "mod.ul" KEr TZ Tu64 mod_ul; F1 "mod.i" KEr TZ Ti32 mod_i;
  F1 "mod.u" KEr TZ Tu32 mod_u; F1 "mod.s" KEr TZ Ti16 mod_i; F1 "mod.us" KEr TZ Tu16 mod_i; F1 "mod.c" KEr TZ Ti8 mod_i;
  F1 "mod.uc" KEr TZ Tu8 mod_i; F1 "mod.L" KEr TZ Ti64 mod_l;
  F1 "dom.mod" KEr TZ TZ dom_mod; F1 "dom.modin" KEr TZ TZ dom_modin; F1 "dom.rem" KEr TZ TZ dom_rem; F1 "dom.remin" KEr TZ TZ dom_remin;
  F1 "seq.mod" KEr TZ TZ mod_I; F1 "seq.mod.ul" KEr TZ Tu64 mod_ul; F1 "seq.mod.l" KEr TZ Ti64 mod_l;
  (* ---- `%=`, `%` (truncated remainder) *)
  F1 "op%=.I" KTr TZ TZ op_modeq_I; F1 "op%=.ul" KTr TZ Tu64 op_modeq_ul; F1 "op%=.l" KTr TZ Ti64 op_modeq_l;
  F1 "op%=.u" KTr TZ Tu32 op_modeq_u; F1 "op%=.i" KTr TZ Ti32 op_modeq_i;
  F1 "op%=.T" KTr TZ TZ op_modeq_T; F1 "op%=.Ts" KTr TZ Ti16 op_modeq_T; F1 "op%=.Tus" KTr TZ Tu16 op_modeq_T;
  F1 "op%=.Tc" KTr TZ Ti8 op_modeq_T; F1 "op%=.Tuc" KTr TZ Tu8 op_modeq_T; F1 "op%=.Td" KTr TZ Td53 op_modeq_T;
  F1 "op%=.Tf" KTr TZ Tf24 op_modeq_T;
  F1 "op%.I" KTr TZ TZ op_mod_I; F1 "op%.l" KTr TZ Ti64 op_mod_l; F1 "op%.i" KTr TZ Ti32 op_mod_i;
  F1 "op%.Ts" KTr TZ Ti16 op_mod_Ts; F1 "op%.Tc" KTr TZ Ti8 op_mod_Tc; F1 "op%.Tf" KTr TZ Tf24 op_mod_Tf;
  F1 "op%.ul" KTrFit64 TZ Tu64 op_mod_ul; F1 "op%.UL" KTrFit64 TZ Tu64 op_mod_ul;
  F1 "op%.u" KTr TZ Tu32 op_mod_u; F1 "op%.us" KTr TZ Tu16 op_mod_us;
  F1 "op%.Tuc" KAbsTr TZ Tu8 op_mod_Tuc;
  F1 "op%.d" KTrDbl TZ Tdbl op_mod_d; F1 "op%.dx" KTrDblx TZ Tdblx op_mod_dx;
  F1 "w%I.i" KTr Ti32 TZ w_mod_I; F1 "w%I.l" KTr Ti64 TZ w_mod_I; F1 "w%I.u" KTr Tu32 TZ w_mod_I; F1 "w%I.ul" KTr Tu64 TZ w_mod_I;
  F1 "w%I.us" KTr Tu16 TZ w_mod_I;
  F1 "zbase.mod" KTr TZ TZ zbase_mod; F1 "zbase.modin" KTr TZ TZ zbase_modin;
  (* ---- divisibility *)
  FB "dom.isDivisor" KIsDiv TZ TZ dom_isDivisor
].

(* names for the driver / the check *)
Definition cty_name (t : cty) : string :=
  match t with
  | TZ => "Z" | Ti64 => "i64" | Tu64 => "u64" | Ti32 => "i32" | Tu32 => "u32" | Ti16 => "i16" | Tu16 => "u16"
  | Ti8 => "i8" | Tu8 => "u8" | Td53 => "d53" | Tf24 => "f24" | Tdbl => "dbl" | Tdblx => "dblx"
  end.
Definition conv_name (k : conv) : string :=
  match k with
  | KTq => "tq" | KTr => "tr" | KFq => "fq" | KFr => "fr" | KCq => "cq" | KCr => "cr"
  | KEq => "equo" | KEr => "emod" | KEqr => "divmod" | KExact => "exact" | KAbsTr => "abs_tr" | KAbsCr => "abs_cr"
  | KTrFit64 => "tr|fits:i64" | KTrDbl => "tr>dbl" | KTrDblx => "tr_x16>dbl"
  | KIsDiv => "isdiv"
  end.
Definition form_row (f : form) : string * (string * (string * string)) :=
  (fname f, (conv_name (fconv f), (cty_name (fnty f), cty_name (fdty f)))).
Definition form_rows : list (string * (string * (string * string))) := map form_row forms.
