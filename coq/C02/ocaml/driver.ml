(* C02 driver: one case per line  "<form> <n> <d>"  (decimal) -> result tokens in decimal.
   The call forms of givaro are NOT listed here: they are looked up in the extracted overload table Model.forms
   (coq/C02/Table.v), which is what the theorems of Properties.v quantify over.  Hand-dispatched below: only the trusted
   layers (raw GMP primitives = GmpSpec, raw C conversions / constants = CInt) and the refuted old body of quo. *)
let one f n d = string_of_z (f n d)
let two f n d = let (a, b) = f n d in string_of_z a ^ " " ^ string_of_z b
let bl f n d = if f n d then "1" else "0"
let table : (string * (Model.z -> Model.z -> string)) list = [
  (* raw GMP primitives as specified in the trusted GmpSpec section *)
  "gmp.tdiv_q", one Model.mpz_tdiv_q; "gmp.tdiv_r", one Model.mpz_tdiv_r; "gmp.tdiv_qr", two Model.mpz_tdiv_qr;
  "gmp.fdiv_qr", two Model.mpz_fdiv_qr; "gmp.cdiv_qr", two Model.mpz_cdiv_qr; "gmp.fdiv_q", one Model.mpz_fdiv_q; "gmp.fdiv_r", one Model.mpz_fdiv_r;
  "gmp.cdiv_q", one Model.mpz_cdiv_q; "gmp.cdiv_r", one Model.mpz_cdiv_r; "gmp.mod", one Model.mpz_mod;
  "gmp.tdiv_q_ui", two Model.mpz_tdiv_q_ui; "gmp.tdiv_r_ui", two Model.mpz_tdiv_r_ui; "gmp.tdiv_ui", one Model.mpz_tdiv_ui;
  "gmp.cdiv_r_ui", two Model.mpz_cdiv_r_ui; "gmp.cdiv_ui", one Model.mpz_cdiv_ui;
  "gmp.fdiv_r_ui", two Model.mpz_fdiv_r_ui; "gmp.fdiv_ui", one Model.mpz_fdiv_ui; "gmp.mod_ui", one Model.mpz_mod_ui;
  "gmp.divexact", one Model.mpz_divexact; "gmp.divexact_ui", one Model.mpz_divexact_ui;
  (* the refuted pre-repair body of IntegerDom::quo (documentation of the finding; not a call form of the table) *)
  "dom.quo!floor", one Model.dom_quo_floor;
  (* raw conversions / configuration constants of the CInt layer (second operand ignored) *)
  "cast.i64_u64", (fun n _ -> string_of_z (Model.cast_i64_u64 n)); "cast.u64_i64", (fun n _ -> string_of_z (Model.cast_u64_i64 n));
  "cast.i64_i32", (fun n _ -> string_of_z (Model.cast_i64_i32 n)); "cast.i64_i16", (fun n _ -> string_of_z (Model.cast_i64_i16 n));
  "cast.u64_i32", (fun n _ -> string_of_z (Model.cast_i64_i32 (Model.cast_u64_i64 n)));
  "cast.abs64", (fun n _ -> string_of_z (Model.cast_abs64 n)); "cast.neg64", (fun n _ -> string_of_z (Model.cast_neg64 n));
  "cast.i64_dbl", (fun n _ -> string_of_z (Model.cast_i64_dbl n)); "cast.mpz_dbl", (fun n _ -> string_of_z (Model.cast_mpz_dbl n)); "cast.dbl_u64", (fun n _ -> string_of_z (Model.cast_dbl_u64 n));
  "cfg.sizeof_long", (fun _ _ -> string_of_z Model.cfg_sizeof_long); "cfg.givaro_sizeof_long", (fun _ _ -> string_of_z Model.cfg_sizeof_long);
  "cfg.limb_bits", (fun _ _ -> string_of_z Model.cfg_limb_bits); "cfg.ulong_max", (fun _ _ -> string_of_z Model.cfg_u64_max);
  "cfg.i64_min", (fun _ _ -> string_of_z Model.cfg_i64_min); "cfg.i64_max", (fun _ _ -> string_of_z Model.cfg_i64_max);
  "cfg.u64_max", (fun _ _ -> string_of_z Model.cfg_u64_max); "cfg.i32_min", (fun _ _ -> string_of_z Model.cfg_i32_min);
  "cfg.u32_max", (fun _ _ -> string_of_z Model.cfg_u32_max); "cfg.i16_min", (fun _ _ -> string_of_z Model.cfg_i16_min);
  "cfg.u16_max", (fun _ _ -> string_of_z Model.cfg_u16_max); "cfg.dbl_mant_dig", (fun _ _ -> string_of_z Model.cfg_dbl_mant_dig);
  "cfg.dbl_round_nearest", (fun _ _ -> "1"); "cfg.ndebug", (fun _ _ -> "1"); "cfg.long_is_int64", (fun _ _ -> "1");
]
let tbl = Hashtbl.create 400
let () = List.iter (fun (k, f) -> Hashtbl.replace tbl k f) table
(* every call form of givaro: the overload table of coq/C02/Table.v, the one the theorems quantify over *)
let () = List.iter (fun (fm : Model.form) ->
  Hashtbl.replace tbl fm.Model.fname (fun n d -> String.concat " " (List.map string_of_z (fm.Model.fsem n d)))) Model.forms
let () = run_lines (fun toks ->
  match toks with
  | ["TABLE"] ->     (* the table itself: "name conv nty dty" per form, for the check's comparison with the forms it drives *)
    String.concat ";" (List.map (fun (nm, (k, (nt, dt))) -> nm ^ " " ^ k ^ " " ^ nt ^ " " ^ dt) Model.form_rows)
  | [form; n; d] ->
    (match Hashtbl.find_opt tbl form with
     | Some f -> f (z_of_string n) (z_of_string d)
     | None -> "UNKNOWN-FORM")
  | _ -> "BAD-LINE")
