(* C02 driver: one case per line  "<form> <n> <d>"  (decimal) -> result tokens in decimal.
   "dom.quo!floor" is the body of IntegerDom::quo before frag/C02.fix-1.diff (documentation of the finding). *)
let one f n d = string_of_z (f n d)
let two f n d = let (a, b) = f n d in string_of_z a ^ " " ^ string_of_z b
let bl f n d = if f n d then "1" else "0"
let table : (string * (Model.z -> Model.z -> string)) list = [
  (* raw GMP primitives as specified in the trusted GmpSpec section *)
  "gmp.tdiv_q", one Model.mpz_tdiv_q; "gmp.tdiv_r", one Model.mpz_tdiv_r; "gmp.tdiv_qr", two Model.mpz_tdiv_qr;
  "gmp.fdiv_qr", two Model.mpz_fdiv_qr; "gmp.cdiv_qr", two Model.mpz_cdiv_qr; "gmp.fdiv_q", one Model.mpz_fdiv_q; "gmp.fdiv_r", one Model.mpz_fdiv_r;
  "gmp.cdiv_q", one Model.mpz_cdiv_q; "gmp.cdiv_r", one Model.mpz_cdiv_r; "gmp.mod", one Model.mpz_mod;
  "gmp.tdiv_q_ui", two Model.mpz_tdiv_q_ui; "gmp.tdiv_r_ui", two Model.mpz_tdiv_r_ui; "gmp.tdiv_ui", one Model.mpz_tdiv_ui;
  "gmp.cdiv_r_ui", two Model.mpz_cdiv_r_ui; "gmp.cdiv_ui", one Model.mpz_cdiv_ui;
  "gmp.fdiv_r_ui", two Model.mpz_fdiv_r_ui; "gmp.fdiv_ui", one Model.mpz_fdiv_ui; "gmp.mod_ui", one Model.mpz_mod_ui;
  "gmp.divexact", one Model.mpz_divexact; "gmp.divexact_ui", one Model.mpz_divexact_ui;
  (* gmp++_int_div.C *)
  "divin.I", one Model.divin_I; "divin.l", one Model.divin_l; "divin.ul", one Model.divin_ul;
  "div.I", one Model.div_I; "div.l", one Model.div_l; "div.i", one Model.div_i; "div.ul", one Model.div_ul;
  "divexact.qI", one Model.divexact_q_I; "divexact.qul", one Model.divexact_q_ul; "divexact.ql", one Model.divexact_q_l;
  "divexact.I", one Model.divexact_I; "divexact.ul", one Model.divexact_ul; "divexact.l", one Model.divexact_l;
  "op/=.I", one Model.op_diveq_I; "op/=.ul", one Model.op_diveq_ul; "op/=.l", one Model.op_diveq_l;
  "op/=.u", one Model.op_diveq_u; "op/=.i", one Model.op_diveq_i; "op/=.T", one Model.op_diveq_T; "op/=.Ts", one Model.op_diveq_T;
  "op/.I", one Model.op_div_I; "op/.ul", one Model.op_div_ul; "op/.l", one Model.op_div_l;
  "op/.u", one Model.op_div_u; "op/.i", one Model.op_div_i;
  "divmod.I", two Model.divmod_I; "divmod.l", two Model.divmod_l;
  "divmod.ul", two Model.divmod_ul;
  "ceil.r", one Model.ceil_r; "floor.r", one Model.floor_r; "trunc.r", one Model.trunc_r;
  "ceil.v", one Model.ceil_v; "floor.v", one Model.floor_v; "trunc.v", one Model.trunc_v;
  "trem.I", one Model.trem_I; "crem.I", one Model.crem_I; "frem.I", one Model.frem_I;
  "trem.ul", one Model.trem_ul; "crem.ul", one Model.crem_ul; "frem.ul", one Model.frem_ul;
  "trem.w", one Model.trem_w; "crem.w", one Model.crem_w; "frem.w", one Model.frem_w;
  "w/I.i", one Model.w_div_I; "w/I.l", one Model.w_div_I; "w/I.u", one Model.w_div_I; "w/I.ul", one Model.w_div_I;
  (* gmp++_int_mod.C *)
  "modin.I", one Model.modin_I; "modin.ul", one Model.modin_ul; "modin.l", one Model.modin_l;
  "mod.I", one Model.mod_I; "mod.l", one Model.mod_l; "mod.ul", one Model.mod_ul; "mod.i", one Model.mod_i; "mod.u", one Model.mod_u;
  "op%=.I", one Model.op_modeq_I; "op%=.ul", one Model.op_modeq_ul; "op%=.l", one Model.op_modeq_l;
  "op%=.u", one Model.op_modeq_u; "op%=.i", one Model.op_modeq_i;
  "op%=.T", one Model.op_modeq_T; "op%=.Ts", one Model.op_modeq_T;
  "op%.I", one Model.op_mod_I; "op%.ul", one Model.op_mod_ul; "op%.l", one Model.op_mod_l;
  "op%.u", one Model.op_mod_u; "op%.i", one Model.op_mod_i; "op%.us", one Model.op_mod_us; "op%.d", one Model.op_mod_d; "op%.dx", one Model.op_mod_dx; "op%.Tf", one Model.op_mod_Tf;
  "op/.s", one Model.op_div_i; "op/.us", one Model.op_div_i; "op/.c", one Model.op_div_i;
  "op/=.Tus", one Model.op_diveq_T; "op/=.Tc", one Model.op_diveq_T; "op/=.Tuc", one Model.op_diveq_T; "op/=.Td", one Model.op_diveq_T;
  "op%=.Tus", one Model.op_modeq_T; "op%=.Tc", one Model.op_modeq_T; "op%=.Tuc", one Model.op_modeq_T; "op%=.Td", one Model.op_modeq_T;
  "mod.s", one Model.mod_i; "mod.us", one Model.mod_i; "mod.c", one Model.mod_i; "div.s", one Model.div_i; "div.c", one Model.div_i;
  "op%.Ts", one Model.op_mod_Ts;
  "w%I.i", one Model.w_mod_I; "w%I.l", one Model.w_mod_I; "w%I.u", one Model.w_mod_I; "w%I.ul", one Model.w_mod_I;
  (* givinteger.h *)
  "dom.div", one Model.dom_div; "dom.divin", one Model.dom_divin; "dom.mod", one Model.dom_mod; "dom.modin", one Model.dom_modin;
  "dom.divmod", two Model.dom_divmod; "dom.divexact", one Model.dom_divexact;
  "dom.quo", one Model.dom_quo; "dom.quo!floor", one Model.dom_quo_floor; "dom.quo@qb", one Model.dom_quo; "dom.rem", one Model.dom_rem;
  "dom.quoin", one Model.dom_quoin; "dom.remin", one Model.dom_remin;
  "dom.quoRem", two Model.dom_quoRem; "dom.isDivisor", bl Model.dom_isDivisor;
]
let tbl = Hashtbl.create 200
let () = List.iter (fun (k, f) -> Hashtbl.replace tbl k f) table
let () = run_lines (fun toks ->
  match toks with
  | [form; n; d] ->
    (match Hashtbl.find_opt tbl form with
     | Some f -> f (z_of_string n) (z_of_string d)
     | None -> "UNKNOWN-FORM")
  | _ -> "BAD-LINE")
