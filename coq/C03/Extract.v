(* Extraction of the executable model for the correspondence run (ExtrOcamlBasic only). *)
From Coq Require Import ZArith.
From Coq Require Extraction.
From Coq Require Import ExtrOcamlBasic.
From C03 Require Import Model.
Extraction Language OCaml.
Cd "ocaml".
Extraction "model.ml" mulZ addZ addinZ subZ negZ axpyZ axmyZ maxpyZ maxpyinZ reduceZ invZ divZ divinZ isUnitZ gcdextZ mOneZ
  precomp_pZ mul_precomp_pZ mul_precomp_bZ.
Cd "..".
