(* Extraction of the executable models for the correspondence run (ExtrOcamlBasic only). *)
From Coq Require Import ZArith.
From Coq Require Extraction.
From Coq Require Import ExtrOcamlBasic.
From C03 Require Import Model ModelF ModelDK ModelIn.
Extraction Language OCaml.
Cd "ocaml".
Extraction "model.ml" mulZ addZ addinZ subZ negZ axpyZ axmyZ maxpyZ maxpyinZ reduceZ invZ divZ divinZ isUnitZ gcdextZ mOneZ
  precomp_pZ mul_precomp_pZ mul_precomp_bZ
  fm_neg fm_mul fm_add fm_sub fm_subin fm_axpy fm_axmy fm_maxpy fm_maxpyin fm_axmyin fm_reduce fm_inv fm_div fm_divin fm_isUnit
  bf_reduce bf_mul bf_add bf_sub bf_neg bf_axpy bf_axpyin bf_axmy bf_maxpy bf_inv bf_div bf_isUnit
  bi_mul bi_add bi_sub bi_neg bi_axpy bi_axmy bi_maxpy bi_reduce bi_inv bi_div bi_isUnit
  ex_mul ex_reduce ex_add ex_sub ex_neg ex_axpy ex_axmy ex_maxpy ex_inv ex_div ex_divin ex_isUnit
  dk_mul dk_reduce fb_mul fb_reduce xb_mul xb_reduce xb_axpy xb_axmy xb_maxpy xb_div bf_negn bi_negn bi_maxpyn
  ru_mul ru_sub ru_subin ru_add ru_neg ru_axpy ru_maxpy ru_axmy ru_maxpyin ru_reduce ru_isUnit
  subinZ mulinZ neginZ invinZ axpyinZ axmyinZ constsZ
  fm_addin fm_mulin fm_negin fm_invin fm_axpyin fm_consts
  bf_addin bf_subin bf_mulin bf_negin bf_invin bf_divin bf_axmyin bf_maxpyin bf_consts
  bi_addin bi_subin bi_mulin bi_negin bi_invin bi_divin bi_axpyin bi_axmyin bi_maxpyin bi_consts
  xb_addin xb_subin xb_mulin xb_negin xb_invin xb_divin xb_axpyin xb_axmyin xb_maxpyin xb_consts
  ru_addin ru_mulin ru_negin ru_axpyin ru_axmyin ru_consts
  zz_addin zz_subin zz_mulin zz_negin zz_axpyin zz_maxpyin zz_consts
  zz_mul zz_sub zz_add zz_neg zz_axpy zz_axmy zz_maxpy zz_axmyin zz_reduce.
Cd "..".
