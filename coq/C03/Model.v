(* C03 — executable model of givaro's word-sized modular rings, written after the code
   (src/kernel/ring/modular-integral.inl, modular-general.inl, modular-mulprecomp.inl, modular-implem.h).
   No proofs here.  Every C++ expression is modelled with explicit C integer semantics:
     - a value of an integer type T of w bits is a Z in T's range;
     - every conversion to T (Caster<T>, static_cast<T>, initialisation, assignment) is [cast T];
     - every arithmetic operator is evaluated in the *promoted* type of its operands ([promote]: types
       narrower than int compute in int = signed 32 bit) and its result wrapped to that type ([ar]);
       for signed types this two's-complement wrap stands for what is undefined behaviour in ISO C++; the
       theorems show it is never reached inside the advertised range;
     - C's / and % are Z.quot and Z.rem.
   The model is parametrised by the storage type (bits, signedness) and the compute width, so one definition
   covers every (Storage_t, Compute_t) pair accepted by the enable_if of modular-integral.h. *)
From Coq Require Import ZArith Bool.
Local Open Scope Z_scope.

Record ity := mk_ity { bits : Z; sgn : bool }.

Definition wrap_u (n z : Z) : Z := z mod 2 ^ n.
Definition wrap_s (n z : Z) : Z := (z + 2 ^ (n - 1)) mod 2 ^ n - 2 ^ (n - 1).
Definition cast (t : ity) (z : Z) : Z := if sgn t then wrap_s (bits t) z else wrap_u (bits t) z.
(* integer promotion: every type narrower than int is computed in int *)
Definition promote (t : ity) : ity := if bits t <? 32 then mk_ity 32 true else t.
(* result of an arithmetic operator whose (converted) operands have type t *)
Definition ar (t : ity) (z : Z) : Z := cast (promote t) z.
Definition unsigned_of (t : ity) : ity := mk_ity (bits t) false.

(* ------------------------------------------------------------------ the ring object *)
(* Modular<S,C>: Element = S, Residu_t = unsigned S, Compute_t = unsigned C.
   Fields _p : Residu_t, _pc : Compute_t; constants zero, one, mOne : Element (modular-implem.h ctor). *)
Record ring := mk_ring { RS : ity; RC : ity; Rp : Z; Rpc : Z; Rone : Z; RmOne : Z }.

Definition mk_modular (sbits : Z) (ssgn : bool) (cbits : Z) (p : Z) : ring :=
  let s := mk_ity sbits ssgn in
  let r := unsigned_of s in
  let c := mk_ity cbits false in
  mk_ring s c (cast r p) (cast c p) (cast s 1) (cast s (ar r (cast r p - cast r (cast s 1)))).

Section Ops.
Variable F : ring.
Let s := RS F.
Let c := RC F.
Let u := unsigned_of (RS F).
Let p := Rp F.
Let pc := Rpc F.
Let cS := cast s.
Let cC := cast c.
Let cU := cast u.
Let aS := ar s.
Let aC := ar c.
Let aU := ar u.

(* _reduce<E,R>(x, y, p): signed: x = y % Caster<E>(p); (x<0 ? x = Caster<E>(x+p) : x);  unsigned: x = y % p *)
Definition reduce (y : Z) : Z :=
  if sgn s then
    let x := cS (aS (Z.rem y (cS p))) in
    (* x + p: Element + Residu_t -> usual arithmetic conversions: int if narrow, else the unsigned type *)
    if x <? 0 then cS (ar u ((if bits s <? 32 then x else cU x) + p)) else x
  else cS (aS (Z.rem y p)).

(* mul: r = Caster<Element>(Caster<Compute_t>(a)*Caster<Compute_t>(b) % _pc) *)
Definition mul (a b : Z) : Z := cS (aC (Z.rem (aC (cC a * cC b)) pc)).

(* sub: r = (a < b) ? (Caster<Element>(_p) - b) + a : a - b *)
Definition sub (a b : Z) : Z :=
  cS (if a <? b then aS (aS (cS p - b) + a) else aS (a - b)).

(* GenericAdd, unsigned TElem:  const TElem s = Caster<TElem>(a + b); r = (s >= Caster<TElem>(_p) || s < a) ? Caster<TElem>(s - Caster<TElem>(_p)) : s
   GenericAdd, signed TElem: U rr(Caster<U>(a)+Caster<U>(b));
        r = Caster<TElem>(rr >= Caster<U>(_p) || rr < Caster<U>(a) ? rr -= Caster<U>(_p) : rr) *)
Definition add (a b : Z) : Z :=
  if sgn s then
    let rr := cU (aU (cU a + cU b)) in
    cS (if (cU p <=? rr) || (rr <? cU a) then cU (aU (rr - cU p)) else rr)
  else
    let r := cS (aS (a + b)) in
    if (cS p <=? r) || (r <? a) then cS (aS (r - cS p)) else r.

(* GenericAddIN, unsigned: const TElem s = Caster<TElem>(r + a); r = (s >= Caster<TElem>(_p) || s < a) ? Caster<TElem>(s - Caster<TElem>(_p)) : s   (a = the SECOND operand)
   GenericAddIN, signed:   U rr(r); rr += Caster<U>(a); r = Caster<TElem>(rr >= Caster<U>(_p) || rr < Caster<U>(a) ? rr -= Caster<U>(_p) : rr) *)
Definition addin (r0 a : Z) : Z :=
  if sgn s then
    let rr := cU (aU (cU r0 + cU a)) in
    cS (if (cU p <=? rr) || (rr <? cU a) then cU (aU (rr - cU p)) else rr)
  else
    let r := cS (aS (r0 + a)) in
    cS (if (cS p <=? r) || (r <? a) then aS (r - cS p) else r).

(* neg: r = (a == 0) ? Caster<Element>(0) : Caster<Element>(_p) - a *)
Definition neg (a : Z) : Z := cS (if a =? 0 then cS 0 else aS (cS p - a)).

(* axpy: r = Caster<Element>((Caster<Compute_t>(a)*Caster<Compute_t>(b) + Caster<Compute_t>(c)) % _pc) *)
Definition axpy (a b y : Z) : Z := cS (aC (Z.rem (aC (aC (cC a * cC b) + cC y)) pc)).
(* axmy: r = Caster<Element>((a*b + _pc - Caster<Compute_t>(c)) % _pc)   [left-assoc: (a*b + _pc) - c] *)
Definition axmy (a b y : Z) : Z := cS (aC (Z.rem (aC (aC (aC (cC a * cC b) + pc) - cC y)) pc)).
(* maxpy: r = Caster<Element>((a*b + (_pc - Caster<Compute_t>(c))) % _pc); r = negin(r) *)
Definition maxpy (a b y : Z) : Z := neg (cS (aC (Z.rem (aC (aC (cC a * cC b) + aC (pc - cC y))) pc))).
(* maxpyin: r = Caster<Element>((a*b + _pc - Caster<Compute_t>(r)) % _pc); r = negin(r) *)
Definition maxpyin (r a b : Z) : Z := neg (axmy a b r).

(* ---- extended_euclid<Storage_t> (modular-general.inl), every variable of type T = Storage_t *)
Section Euclid.
Variable T : ity.
Let cT := cast T.
Let aT := ar T.
Fixpoint egcd_loop (fuel : nat) (u0 u1 r1 d : Z) (ng : bool) : option (Z * Z * bool) :=
  if r1 =? cT 0 then Some (u0, d, ng) else
  match fuel with
  | O => None
  | S f =>
    let q := cT (aT (Z.quot d r1)) in
    let u1' := cT (aT (aT (q * u1) + u0)) in
    let r1' := cT (aT (d - aT (q * r1))) in
    egcd_loop f u1 u1' r1' r1 (negb ng)
  end.
(* returns (x, d);  x = (neg && u0 > 0) ? b - u0 : u0 *)
Definition extended_euclid (fuel : nat) (a b : Z) : option (Z * Z) :=
  match egcd_loop fuel (cT 0) (cT 1) a b true with
  | Some (u0, d, ng) => Some ((if ng && (0 <? u0) then cT (aT (b - u0)) else u0), d)
  | None => None
  end.
(* gcdext: extended_euclid(u,d,a,b); v = (d - u*a)/b *)
Definition gcdext (fuel : nat) (a b : Z) : option (Z * Z * Z) :=
  match extended_euclid fuel a b with
  | Some (x, d) => Some (d, x, cT (aT (Z.quot (aT (d - aT (x * a))) b)))
  | None => None
  end.
End Euclid.

(* inv: invext(r, a, Caster<Element>(_p)); return (r < 0) ? r += Caster<Element>(_p) : r *)
Definition inv (fuel : nat) (a : Z) : option Z :=
  match extended_euclid s fuel a (cS p) with
  | Some (x, _) => Some (if x <? 0 then cS (aS (x + cS p)) else x)
  | None => None
  end.
(* div: Element ib; mul(r, a, inv(ib, b))     divin: mulin(r, inv(ia, a)) *)
Definition div (fuel : nat) (a b : Z) : option Z :=
  match inv fuel b with Some ib => Some (mul a ib) | None => None end.
Definition divin (fuel : nat) (r a : Z) : option Z :=
  match inv fuel a with Some ia => Some (mul r ia) | None => None end.
(* isUnit (modular-implem.h): extended_euclid(u,d,a,Caster<Element>(_p)); return isOne(d) || isMOne(d) *)
Definition isUnit (fuel : nat) (a : Z) : option bool :=
  match extended_euclid s fuel a (cS p) with
  | Some (_, d) => Some ((d =? Rone F) || (d =? RmOne F))
  | None => None
  end.

(* ---- modular-mulprecomp.inl;  s4 = 4*sizeof(Compute_t) = half the compute width *)
Let s4 := bits c / 2.
(* Element tmp = _p; while (tmp != 0) { bitsizep++; tmp >>= 1; }   (>> on the promoted type) *)
Fixpoint bitsize_loop (fuel : nat) (tmp n : Z) : Z :=
  if tmp =? 0 then n else
  match fuel with O => n | S f => bitsize_loop f (cS (aS (Z.shiftr tmp 1))) (n + 1) end.
Definition bitsizep : Z := bitsize_loop 130 (cS p) 0.
(* invp = (static_cast<Compute_t>(1) << (4*s + bitsizep - 1)) / static_cast<Compute_t>(_p) *)
Definition precomp_p : Z := cC (aC (Z.quot (aC (Z.shiftl (cC 1) (s4 + bitsizep - 1))) (cC p))).
(* mul_precomp_p *)
Definition mul_precomp_p (a b invp bs : Z) : Z :=
  let prod := cC (aC (cC (cU a) * cC (cU b))) in
  let prodhi := cC (aC (Z.shiftr prod (bs - 2))) in
  let q := cU (aC (Z.shiftr (aC (prodhi * invp)) (s4 + 1))) in
  let rr := cU (aU (cU prod - aU (q * p))) in
  let rr := cU (aU (rr - (if p <=? rr then p else 0))) in
  cS rr.
(* precomp_b(invb, b): invb = (Compute_t(1) << 4s) * Compute_t(Residu_t(b)) / Compute_t(_p) *)
Definition precomp_b (b : Z) : Z :=
  cC (aC (Z.quot (aC (aC (Z.shiftl (cC 1) s4) * cC (cU b))) (cC p))).
(* mul_precomp_b:  q = Residu_t((Compute_t(a) * invb) >> 4s); rr = Residu_t(a)*Residu_t(b) - q*_p; rr -= (rr >= _p) ? _p : 0 *)
Definition mul_precomp_b (a b invb : Z) : Z :=
  let q := cU (aC (Z.shiftr (aC (cC a * invb)) s4)) in
  let rr := cU (aU (aU (cU a * cU b) - aU (q * p))) in
  let rr := cU (aU (rr - (if p <=? rr then p else 0))) in
  cS rr.
End Ops.

(* ------------------------------------------------------------------ Z-level wrappers for extraction.
   in-place forms are the same bodies with r in the place of an operand:
     mulin(r,a) = mul(r,a); addin(r,a) = GenericAddIN (own definition: the wrap test is against the second operand);
     subin(r,a) = sub(r,a); negin(r) = neg(r); axpyin(r,a,b) = axpy(a,b,r); axmyin(r,a,b) = axmy(a,b,r). *)
Definition mulZ sb sg cb p a b := mul (mk_modular sb sg cb p) a b.
Definition addZ sb sg cb p a b := add (mk_modular sb sg cb p) a b.
Definition addinZ sb sg cb p r a := addin (mk_modular sb sg cb p) r a.
Definition subZ sb sg cb p a b := sub (mk_modular sb sg cb p) a b.
Definition negZ sb sg cb p a := neg (mk_modular sb sg cb p) a.
Definition axpyZ sb sg cb p a b y := axpy (mk_modular sb sg cb p) a b y.
Definition axmyZ sb sg cb p a b y := axmy (mk_modular sb sg cb p) a b y.
Definition maxpyZ sb sg cb p a b y := maxpy (mk_modular sb sg cb p) a b y.
Definition maxpyinZ sb sg cb p r a b := maxpyin (mk_modular sb sg cb p) r a b.
Definition reduceZ sb sg cb p y := reduce (mk_modular sb sg cb p) y.
Definition invZ sb sg cb p fuel a := inv (mk_modular sb sg cb p) fuel a.
Definition divZ sb sg cb p fuel a b := div (mk_modular sb sg cb p) fuel a b.
Definition divinZ sb sg cb p fuel r a := divin (mk_modular sb sg cb p) fuel r a.
Definition isUnitZ sb sg cb p fuel a := isUnit (mk_modular sb sg cb p) fuel a.
Definition gcdextZ sb sg fuel a b := gcdext (mk_ity sb sg) fuel a b.
Definition mOneZ sb sg cb p := RmOne (mk_modular sb sg cb p).
Definition precomp_pZ sb sg cb p := (precomp_p (mk_modular sb sg cb p), bitsizep (mk_modular sb sg cb p)).
Definition mul_precomp_pZ sb sg cb p a b :=
  let F := mk_modular sb sg cb p in mul_precomp_p F a b (precomp_p F) (bitsizep F).
Definition mul_precomp_bZ sb sg cb p a b :=
  let F := mk_modular sb sg cb p in mul_precomp_b F a b (precomp_b F b).
