(* C03 — the OTHER preprocessor-selected branches of ModularExtended<float|double>::mul / ::reduce
   (modular-extended.inl; ModelF.v section EX is the `#ifdef FP_FAST_FMA[F]` branch):
     DK  `#elif defined __SSE_MATH__`: error-free product by Veltkamp splitting + Dekker's algorithm
         (modular-extended.h: split, mult_dekker), compiled whenever the translation unit is built without FMA
         (plain g++ -O2 on x86-64, -mno-fma);
     FB  `#else` fallback (no SSE math, e.g. -mfpmath=387): float: fmod of the double product; double: RecInt lmul + mod_n.
   Written after the code, one [rn pe] per IEEE operation (every value here is an integer: the operands, _p and q are
   integers and rounding an integer to pe significant bits yields an integer).  No proofs here. *)
From Coq Require Import ZArith Bool.
From C03 Require Import Model ModelF.
Local Open Scope Z_scope.

Section DK.
Variables (pe p : Z).
Let r_ := rn pe.
Let invp := div_dy pe 1 (r_ p).                 (* (Element)1 / (Element)_p *)
(* split: c = (Element)((1 << 27)+1) for double, (Element)((1 << 13)+1) for float *)
Definition dk_splitc : Z := if pe =? 53 then 2 ^ 27 + 1 else 2 ^ 13 + 1.
(* c = c*x; x_h = c-(c-x); x_l = x - x_h *)
Definition dk_split (x : Z) : Z * Z :=
  let c := r_ (r_ dk_splitc * x) in
  let xh := r_ (c - r_ (c - x)) in
  (xh, r_ (x - xh)).
(* s = a*b; split(a); split(b); t = (al*bl-(((s-ah*bh)-al*bh)-ah*bl)) *)
Definition dk_mult (a b : Z) : Z * Z :=
  let s := r_ (a * b) in
  let '(ah, al) := dk_split a in
  let '(bh, bl) := dk_split b in
  (s, r_ (r_ (al * bl) - r_ (r_ (r_ (s - r_ (ah * bh)) - r_ (al * bh)) - r_ (ah * bl)))).
(* mult_dekker(a,b,abh,abl); q = floor(abh*_invp); mult_dekker(-q,_p,pqh,pql); r = (abh + pqh) + (abl + pql) *)
Definition dk_mul_raw (a b : Z) : Z :=
  let '(abh, abl) := dk_mult a b in
  let q := floor_dy (mul_dy pe abh invp) in
  let '(pqh, pql) := dk_mult (- q) p in
  r_ (r_ (abh + pqh) + r_ (abl + pql)).
(* if (r >= _p) r -= _p; else if (r < 0) r += _p; *)
Definition dk_mul (a b : Z) : Z := ex_fix pe p (dk_mul_raw a b).
(* q = floor(a*_invp); mult_dekker(-q,_p,pqh,pql); a = (a + pqh) + pql; fix *)
Definition dk_reduce (a : Z) : Z :=
  let q := floor_dy (mul_dy pe a invp) in
  let '(pqh, pql) := dk_mult (- q) p in
  ex_fix pe p (r_ (r_ (a + pqh) + pql)).
Definition dk_axpy (a x y : Z) : Z := ex_add pe p (dk_mul a x) y.
Definition dk_axmy (a x y : Z) : Z := ex_sub pe p (dk_mul a x) y.
Definition dk_maxpy (a x y : Z) : Z := ex_sub pe p y (dk_mul a x).
Definition dk_div (fuel : nat) (a b : Z) : option Z :=
  match ex_inv pe p fuel b with Some ib => Some (dk_mul a ib) | None => None end.
(* the seeded change C03-m6: the `else if (r < 0) r += _p` step removed *)
Definition dk_mul_no_neg_fix (a b : Z) : Z := let r := dk_mul_raw a b in if p <=? r then r_ (r - p) else r.
Definition dk_mul_no_hi_fix (a b : Z) : Z := let r := dk_mul_raw a b in if r <? 0 then r_ (r + p) else r.

(* FB, float: return r = static_cast<float>(fmod(static_cast<double>(a) * static_cast<int64_t>(b), static_cast<double>(_p)));
       double: ruint<6> ari(a), bri(b), pri(_lp); lmul(rri7, bri, ari); mod_n(rri6, rri7, pri); r = static_cast<double>(rri6) *)
Definition fb_mul (a b : Z) : Z :=
  if pe =? 53 then r_ ((((b mod 2 ^ 64) * (a mod 2 ^ 64)) mod 2 ^ 128) mod p)
  else r_ (Z.rem (rn 53 (rn 53 a * rn 53 b)) (rn 53 (r_ p))).
(* float: a = static_cast<float>(fmod(static_cast<double>(a), static_cast<double>(_p))); double: a = fmod(a,_p); then the fix *)
Definition fb_reduce (a : Z) : Z := ex_fix pe p (r_ (Z.rem a (r_ p))).
End DK.

(* ------------------------------------------------------------------ the branch the compiler selected, as reported by the harness
   (checks/C03.py reads the index of the selected branch of each #if chain of modular-extended.inl from the compiled
   implementation on every run): 0 = FMA (ModelF.v, the ex_ functions), 1 = Dekker (dk_), anything else = fallback (fb_).
   axpy/axmy/maxpy/div are mul followed by add/sub resp. preceded by inv (modular-extended.h), whatever the branch. *)
Section XB.
Variables (mb rb : Z) (pe p : Z).     (* branch of ::mul, branch of ::reduce *)
Definition xb_mul (a b : Z) : Z :=
  if mb =? 0 then ex_mul pe p a b else if mb =? 1 then dk_mul pe p a b else fb_mul pe p a b.
Definition xb_reduce (a : Z) : Z :=
  if rb =? 0 then ex_reduce pe p a else if rb =? 1 then dk_reduce pe p a else fb_reduce pe p a.
Definition xb_axpy (a x y : Z) : Z := ex_add pe p (xb_mul a x) y.
Definition xb_axmy (a x y : Z) : Z := ex_sub pe p (xb_mul a x) y.
Definition xb_maxpy (a x y : Z) : Z := ex_sub pe p y (xb_mul a x).
Definition xb_div (fuel : nat) (a b : Z) : option Z :=
  match ex_inv pe p fuel b with Some ib => Some (xb_mul a ib) | None => None end.
End XB.

(* ------------------------------------------------------------------ ModularBalanced<T>::neg as repaired by frag/C03.fix-1.diff:
     r = -a; if (r < _mhalfp) r += _p;
   checks/C03.py asks the compiled implementation (neg of 2 modulo 4) which variant /repo contains and drives this model
   or bf_neg / bi_neg (ModelF.v: the unrepaired `return r = -a`) accordingly. *)
Section BN.
Variables (pe w p : Z).
Let r_ := rn pe.
Let halfp := floor_dy (div_dy pe p 2).
Let mhalfp := r_ (r_ (halfp - p) + 1).
Definition bf_negn (a : Z) : Z := let r := - a in if r <? mhalfp then r_ (r + p) else r.
Let t := mk_ity w true.
Let ci := cast t.
Let ai := ar t.
Let ihalfp := ci (ai (Z.shiftr p 1)).
Let imhalfp := ci (ai (ai (ihalfp - p) + 1)).
Definition bi_negn (a : Z) : Z := let r := ci (ai (- a)) in if r <? imhalfp then ci (ai (r + p)) else r.
Definition bi_maxpyn (a x y : Z) : Z := bi_negn (bi_axmy w p a x y).
End BN.
