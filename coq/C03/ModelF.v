(* C03 — executable models of the remaining residue rings, written after the code:
     Modular<float|double[,double]>          modular-floating.inl      (FM)
     ModularBalanced<float|double>           modular-balanced-{float,double}.inl  (BF)
     ModularBalanced<int32_t|int64_t>        modular-balanced-int{32,64}.inl      (BI)
     ModularExtended<float|double>           modular-extended.{h,inl}, FMA path   (EX)
     Modular<ruint<K>,ruint<K|K+1>>          modular-ruint.inl         (RU)
     Modular<Integer>                        modular-integer.inl       (ZZ)
   No proofs here.
   Floating point is modelled on the integers/dyadics the values carry, with EXPLICIT rounding: every IEEE
   operation is the exact operation followed by [rn prec] / [rnd_dy prec] (round to nearest, ties to even, to
   prec significant bits; prec = 24 for float, 53 for double).  Exponent range (overflow/subnormals) is not
   modelled: every value occurring here has magnitude in [2^-70, 2^110].  RecInt arithmetic wraps modulo 2^w. *)
From Coq Require Import ZArith Bool.
From C03 Require Import Model.
Local Open Scope Z_scope.

(* ------------------------------------------------------------------ floating-point layer *)
Definition bitlen (m : Z) : Z := if m =? 0 then 0 else Z.log2 (Z.abs m) + 1.

(* round the dyadic m * 2^e to prec significant bits *)
Definition rnd_dy (prec m e : Z) : Z * Z :=
  let n := bitlen m in
  if n <=? prec then (m, e) else
  let s := n - prec in
  let q := m / 2 ^ s in
  let r := m mod 2 ^ s in
  let h := 2 ^ (s - 1) in
  ((if r <? h then q else if h <? r then q + 1 else if Z.even q then q else q + 1), e + s).

(* an integer rounded to prec significant bits (still an integer) *)
Definition rn (prec z : Z) : Z := let '(m, e) := rnd_dy prec z 0 in m * 2 ^ e.

(* n / d correctly rounded to prec bits, d <> 0: quotient with >= prec+2 bits and a sticky bit, then rounded *)
Definition div_dy (prec n d : Z) : Z * Z :=
  if n =? 0 then (0, 0) else
  let sg := Z.sgn n * Z.sgn d in
  let k := Z.max 0 (prec + 2 + bitlen d - bitlen n) in
  let q := (Z.abs n * 2 ^ k) / Z.abs d in
  let r := (Z.abs n * 2 ^ k) mod Z.abs d in
  rnd_dy prec (sg * (2 * q + (if r =? 0 then 0 else 1))) (- k - 1).

Definition floor_dy (x : Z * Z) : Z := let '(m, e) := x in if 0 <=? e then m * 2 ^ e else m / 2 ^ (- e).
Definition trunc_dy (x : Z * Z) : Z := let '(m, e) := x in if 0 <=? e then m * 2 ^ e else Z.quot m (2 ^ (- e)).
(* product of an integer-valued float with a dyadic float *)
Definition mul_dy (prec z : Z) (x : Z * Z) : Z * Z := let '(m, e) := x in rnd_dy prec (z * m) e.

(* extended_euclid<floating Storage_t> (modular-general.inl): q = floor(u3 / v3), everything in precision prec *)
Fixpoint feuclid_loop (prec : Z) (fuel : nat) (u1 v1 u3 v3 : Z) : option (Z * Z) :=
  if v3 =? 0 then Some (u1, u3) else
  match fuel with
  | O => None
  | S f =>
    let q := floor_dy (div_dy prec u3 v3) in
    feuclid_loop prec f v1 (rn prec (u1 - rn prec (q * v1))) v3 (rn prec (u3 - rn prec (q * v3)))
  end.
(* returns (x, d) *)
Definition feuclid (prec : Z) (fuel : nat) (a b : Z) : option (Z * Z) := feuclid_loop prec fuel 1 0 a b.

(* ------------------------------------------------------------------ FM: Modular<float|double, Compute_t> *)
Section FM.
Variables (pe pc : Z) (p : Z).       (* precision of Element, of Compute_t; the modulus (_p, an integer) *)
Let cE := rn pe.
Let cC := rn pc.
Let pcv := rn pc p.                  (* _pc = static_cast<Compute_t>(p) *)
Definition fm_neg (y : Z) : Z := if y =? cE 0 then cE 0 else rn pe (cE pcv - y).
Definition fm_mul (y z : Z) : Z := cE (Z.rem (rn pc (cC y * cC z)) pcv).
Definition fm_add (y z : Z) : Z :=
  let tmp := rn pc (cC y + cC z) in cE (if tmp <? pcv then tmp else rn pc (tmp - pcv)).
Definition fm_sub (y z : Z) : Z := if z <=? y then rn pe (y - z) else rn pe (rn pe (cE pcv - z) + y).
Definition fm_subin (x y : Z) : Z := if x <? y then rn pe (x + rn pe (cE pcv - y)) else rn pe (x - y).
Definition fm_axpy (a x y : Z) : Z := cE (Z.rem (rn pc (rn pc (cC a * cC x) + cC y)) pcv).
Definition fm_axmy (a x y : Z) : Z := cE (Z.rem (rn pc (rn pc (cC a * cC x) + rn pc (pcv - cC y))) pcv).
Definition fm_maxpy (a x y : Z) : Z := fm_neg (fm_axmy a x y).
Definition fm_maxpyin (r a x : Z) : Z :=
  let tmp := rn pc (rn pc (cC a * cC x) + rn pc (pcv - cC r)) in
  fm_neg (if tmp <? pcv then cE tmp else cE (Z.rem tmp pcv)).
Definition fm_axmyin (r a x : Z) : Z := fm_neg (fm_maxpyin r a x).
Definition fm_reduce (y : Z) : Z := let x := Z.rem y (cE pcv) in if x <? 0 then rn pe (x + cE pcv) else x.
Definition fm_inv (fuel : nat) (y : Z) : option Z :=
  match feuclid pe fuel y (cE pcv) with
  | Some (x, _) => Some (if x <? cE 0 then rn pe (x + cE pcv) else x)
  | None => None
  end.
Definition fm_div (fuel : nat) (y z : Z) : option Z :=
  match fm_inv fuel z with Some iz => Some (fm_mul y iz) | None => None end.      (* mul(x, y, inv(iz, z)) *)
Definition fm_divin (fuel : nat) (x y : Z) : option Z :=
  match fm_inv fuel y with Some iy => Some (fm_mul x iy) | None => None end.
(* Modular_implem::isUnit: mOne = (Element)(p - (Element)1) *)
Definition fm_isUnit (fuel : nat) (a : Z) : option bool :=
  match feuclid pe fuel a (cE p) with
  | Some (_, d) => Some ((d =? 1) || (d =? cE (rn pe (p - 1))))
  | None => None
  end.
End FM.

(* ------------------------------------------------------------------ BF: ModularBalanced<float|double> *)
Section BF.
Variables (pe : Z) (p : Z).
Let r_ := rn pe.
Let halfp := floor_dy (div_dy pe p 2).          (* std::floor(_p / 2.f) *)
Let mhalfp := r_ (r_ (halfp - p) + 1).          (* _halfp - _p + 1.f *)
Definition bf_norm (x : Z) : Z := if x <? mhalfp then r_ (x + p) else if halfp <? x then r_ (x - p) else x.
Definition bf_reduce (y : Z) : Z := bf_norm (Z.rem y p).
Definition bf_mul (a b : Z) : Z := bf_reduce (r_ (a * b)).
Definition bf_add (a b : Z) : Z := bf_norm (r_ (a + b)).
Definition bf_sub (a b : Z) : Z := bf_norm (r_ (a - b)).
Definition bf_neg (a : Z) : Z := - a.
Definition bf_axpy (a x y : Z) : Z := bf_reduce (r_ (r_ (a * x) + y)).
Definition bf_axpyin (r a x : Z) : Z := bf_reduce (r_ (r + r_ (a * x))).
Definition bf_axmy (a x y : Z) : Z := bf_reduce (r_ (r_ (a * x) - y)).
Definition bf_maxpy (a x y : Z) : Z := bf_reduce (r_ (y - r_ (a * x))).
Definition bf_inv (fuel : nat) (a : Z) : option Z :=
  match feuclid pe fuel a p with Some (x, _) => Some (bf_norm x) | None => None end.
Definition bf_div (fuel : nat) (a b : Z) : option Z :=
  match bf_inv fuel b with Some ib => Some (bf_mul a ib) | None => None end.
Definition bf_isUnit (fuel : nat) (a : Z) : option bool :=
  match feuclid pe fuel a p with Some (_, d) => Some ((d =? 1) || (d =? -1)) | None => None end.
End BF.

(* ------------------------------------------------------------------ BI: ModularBalanced<int32_t|int64_t> *)
Section BI.
Variables (w : Z) (p : Z).
Let t := mk_ity w true.
Let ci := cast t.
Let ai := ar t.
Let halfp := ci (ai (Z.shiftr p 1)).
Let mhalfp := ci (ai (ai (halfp - p) + 1)).
Let dinvp := div_dy 53 1 (rn 53 p).             (* 1. / static_cast<double>(p) *)
Definition bi_norm (x : Z) : Z := if x <? mhalfp then ci (ai (x + p)) else if halfp <? x then ci (ai (x - p)) else x.
(* q = static_cast<Element>(<double expression> * _dinvp) *)
Definition bi_quot (d : Z) : Z := ci (trunc_dy (mul_dy 53 d dinvp)).
Definition bi_mul (a b : Z) : Z :=
  let q := bi_quot (rn 53 (rn 53 a * rn 53 b)) in bi_norm (ci (ai (ai (a * b) - ai (q * p)))).
Definition bi_add (a b : Z) : Z := bi_norm (ci (ai (a + b))).
Definition bi_sub (a b : Z) : Z := bi_norm (ci (ai (a - b))).
Definition bi_neg (a : Z) : Z := ci (ai (- a)).
Definition bi_axpy (a x y : Z) : Z :=
  let q := bi_quot (rn 53 (rn 53 (rn 53 a * rn 53 x) + rn 53 y)) in
  bi_norm (ci (ai (ai (ai (a * x) + y) - ai (q * p)))).
Definition bi_axmy (a x y : Z) : Z :=
  let q := bi_quot (rn 53 (rn 53 (rn 53 a * rn 53 x) - rn 53 y)) in
  bi_norm (ci (ai (ai (ai (a * x) - y) - ai (q * p)))).
Definition bi_maxpy (a x y : Z) : Z := bi_neg (bi_axmy a x y).
Definition bi_reduce (y : Z) : Z := bi_norm (ci (ai (Z.rem y p))).
Definition bi_inv (fuel : nat) (a : Z) : option Z :=
  match extended_euclid t fuel (if a <? 0 then ci (ai (a + p)) else a) p with
  | Some (x, _) => Some (bi_norm x) | None => None end.
Definition bi_div (fuel : nat) (a b : Z) : option Z :=
  match bi_inv fuel b with Some ib => Some (bi_mul a ib) | None => None end.
Definition bi_isUnit (fuel : nat) (a : Z) : option bool :=
  match extended_euclid t fuel a p with Some (_, d) => Some ((d =? 1) || (d =? -1)) | None => None end.
End BI.

(* ------------------------------------------------------------------ EX: ModularExtended<float|double>, FMA path *)
Section EX.
Variables (pe : Z) (p : Z).
Let r_ := rn pe.
Let invp := div_dy pe 1 (r_ p).                 (* (Element)1 / (Element)_p *)
Definition ex_fix (r : Z) : Z := if p <=? r then r_ (r - p) else if r <? 0 then r_ (r + p) else r.
(* abh = a*b; abl = fma(a,b,-abh); q = floor(abh*_invp); pql = fma(-q,_p,abh); r = abl + pql; fix *)
Definition ex_mul (a b : Z) : Z :=
  let abh := r_ (a * b) in
  let abl := r_ (a * b - abh) in
  let q := floor_dy (mul_dy pe abh invp) in
  let pql := r_ (- q * p + abh) in
  ex_fix (r_ (abl + pql)).
(* q = floor(a*_invp); a = fma(-q,_p,a); fix *)
Definition ex_reduce (a : Z) : Z :=
  let q := floor_dy (mul_dy pe a invp) in ex_fix (r_ (- q * p + a)).
Definition ex_add (a b : Z) : Z := let r := r_ (a + b) in if p <=? r then r_ (r + (- p)) else r.
Definition ex_sub (a b : Z) : Z := let r := r_ (a - b) in if r <? 0 then r_ (r + p) else r.
Definition ex_neg (a : Z) : Z := let r := - a in if r <? 0 then r_ (r + p) else r.
Definition ex_axpy (a x y : Z) : Z := ex_add (ex_mul a x) y.
Definition ex_axmy (a x y : Z) : Z := ex_sub (ex_mul a x) y.
Definition ex_maxpy (a x y : Z) : Z := ex_sub y (ex_mul a x).
Definition ex_inv (fuel : nat) (y : Z) : option Z :=
  match feuclid pe fuel y p with Some (x, _) => Some (if x <? 0 then r_ (x + p) else x) | None => None end.
Definition ex_div (fuel : nat) (a b : Z) : option Z :=
  match ex_inv fuel b with Some ib => Some (ex_mul a ib) | None => None end.      (* mul(r, a, inv(ib, b)) *)
Definition ex_divin (fuel : nat) (r y : Z) : option Z :=
  match ex_inv fuel y with Some iy => Some (ex_mul r iy) | None => None end.
Definition ex_isUnit (fuel : nat) (a : Z) : option bool :=
  match feuclid pe fuel a p with Some (_, d) => Some ((d =? 1) || (d =? r_ (r_ p - 1))) | None => None end.
End EX.

(* ------------------------------------------------------------------ RU: Modular<ruint<K>, ruint<K'>> *)
Section RU.
Variables (w : Z) (dbl : bool) (p : Z).     (* w = 2^K bits of Element; dbl: Compute_t = ruint<K+1> *)
Let wr (z : Z) : Z := z mod 2 ^ w.
Let wr2 (z : Z) : Z := z mod 2 ^ (2 * w).
(* _mul: lmul into Compute_t then mod_n   |   mul (truncating) then mod_n *)
Definition ru_mul (a b : Z) : Z := if dbl then wr (wr2 (a * b) mod p) else wr (a * b) mod p.
(* const bool lt = (a < b); RecInt::sub(r, a, b); if (lt) RecInt::add(r, _p);   -- the difference wraps when a < b *)
Definition ru_sub (a b : Z) : Z := let r := wr (a - b) in if a <? b then wr (r + p) else r.
Definition ru_subin (r a : Z) : Z := if r <? a then wr (r + wr (p - a)) else wr (r - a).
Definition ru_add (a b : Z) : Z := let r := wr (a + b) in if p <=? r then wr (r - p) else r.
Definition ru_neg (a : Z) : Z := if a =? 0 then 0 else wr (p - a).
Definition ru_axpy (a b c : Z) : Z :=
  if dbl then ru_add (ru_mul a b) c        (* lmul; mod_n; add(r,c); if (r >= p) sub(r,p) *)
  else wr (c + a * b) mod p.               (* copy(r,c); addmul(r,a,b); mod_n(r,p) *)
Definition ru_maxpy (a b c : Z) : Z := ru_sub c (ru_mul a b).
Definition ru_axmy (a b c : Z) : Z := ru_sub (ru_mul a b) c.
Definition ru_maxpyin (r a b : Z) : Z :=
  if dbl then ru_subin r (ru_mul a b)      (* same shape: if (r < tmp) { tmp = p - tmp; r += tmp } else r -= tmp *)
  else ru_neg (wr (ru_neg r + a * b) mod p).
Definition ru_reduce (y : Z) : Z := y mod p.
Definition ru_isUnit (fuel : nat) (a : Z) : option bool :=
  match extended_euclid (mk_ity w false) fuel a (wr p) with
  | Some (_, d) => Some ((d =? 1) || (d =? wr (p - 1)))
  | None => None
  end.
End RU.

(* ------------------------------------------------------------------ ZZ: Modular<Integer> (no machine bound anywhere) *)
Section ZZ.
Variable p : Z.
Definition zz_mul (a b : Z) : Z := (a * b) mod p.                       (* Integer::mul; Integer::modin *)
Definition zz_sub (a b : Z) : Z := let r := a - b in if r <? 0 then r + p else r.
Definition zz_add (a b : Z) : Z := let r := a + b in if p <=? r then r - p else r.
Definition zz_neg (a : Z) : Z := if a =? 0 then a else p - a.
Definition zz_axpy (a b c : Z) : Z := (a * b + c) mod p.
Definition zz_axmy (a b c : Z) : Z := (a * b - c) mod p.
Definition zz_maxpy (a b c : Z) : Z := (c - a * b) mod p.
Definition zz_axmyin (r a b : Z) : Z := zz_neg ((r - a * b) mod p).
Definition zz_reduce (y : Z) : Z := let r := Z.rem y p in if r <? 0 then r + p else r.
End ZZ.

