(* C03 — the IN-PLACE call forms (addin subin mulin negin invin divin axpyin axmyin maxpyin) and the ring constants
   (zero, one, mOne, minElement(), maxElement()) of every residue-ring family, each written after ITS OWN C++ body
   (not after the three-address sibling).  Same conventions as Model.v / ModelF.v / ModelDK.v: every Caster / static_cast /
   promotion explicit (cS cC cU aS aC aU), every IEEE operation followed by its rounding (rn), RecInt wraps modulo 2^w.
   Where the C++ body literally delegates (`return op(r, r, a);`) the in-place function is DEFINED as that call and the source
   line is quoted.  In-place functions take the destination first: xin r a [x]  models  F.xin(r, a [, x]).
   No proofs here (ProofsIn.v). *)
From Coq Require Import ZArith Bool.
From C03 Require Import Model ModelF ModelDK.
Local Open Scope Z_scope.

(* ------------------------------------------------------------------ integral Modular<S,C>  (modular-integral.inl, modular-implem.h) *)
Section IntIn.
Variable F : ring.
Let s := RS F.
Let c := RC F.
Let u := unsigned_of (RS F).
Let p := Rp F.
Let pc := Rpc F.
Let cS := cast s.
Let cC := cast c.
Let aS := ar s.
Let aC := ar c.

(* subin: return r = (r < a) ? (Caster<Element>(_p) - a) + r : r - a; *)
Definition subin (r a : Z) : Z := cS (if r <? a then aS (aS (cS p - a) + r) else aS (r - a)).
(* mulin: return r = Caster<Element>(Caster<Compute_t>(r)*Caster<Compute_t>(a) % _pc); *)
Definition mulin (r a : Z) : Z := cS (aC (Z.rem (aC (cC r * cC a)) pc)).
(* negin: return r = (r == 0) ? (Element)0 : Caster<Element>(_p) - r; *)
Definition negin (r : Z) : Z := cS (if r =? 0 then cS 0 else aS (cS p - r)).
(* invin: return inv(r, r);   [inv: invext(r, a, Caster<Element>(_p)) takes a BY VALUE: the alias is harmless] *)
Definition invin (fuel : nat) (r : Z) : option Z := inv F fuel r.
(* axpyin: return r = Caster<Element>((Caster<Compute_t>(a)*Caster<Compute_t>(b) + Caster<Compute_t>(r)) % _pc); *)
Definition axpyin (r a b : Z) : Z := cS (aC (Z.rem (aC (aC (cC a * cC b) + cC r)) pc)).
(* axmyin: return r = Caster<Element>((Caster<Compute_t>(a)*Caster<Compute_t>(b) + _pc-Caster<Compute_t>(r)) % _pc);
   [left-assoc: (a*b + _pc) - r] *)
Definition axmyin (r a b : Z) : Z := cS (aC (Z.rem (aC (aC (aC (cC a * cC b) + pc) - cC r)) pc)).
(* Modular_implem(const Residu_t p): zero(static_cast<Element>(0)), one(static_cast<Element>(1)),
   mOne(static_cast<Element>(p-static_cast<Element>(1)))  [= Rone / RmOne of mk_modular];
   minElement() { return zero; }  maxElement() { return mOne; } *)
Definition consts : Z * Z * Z * Z * Z := (cS 0, Rone F, RmOne F, cS 0, RmOne F).
End IntIn.

Definition subinZ sb sg cb p r a := subin (mk_modular sb sg cb p) r a.
Definition mulinZ sb sg cb p r a := mulin (mk_modular sb sg cb p) r a.
Definition neginZ sb sg cb p r := negin (mk_modular sb sg cb p) r.
Definition invinZ sb sg cb p fuel r := invin (mk_modular sb sg cb p) fuel r.
Definition axpyinZ sb sg cb p r a b := axpyin (mk_modular sb sg cb p) r a b.
Definition axmyinZ sb sg cb p r a b := axmyin (mk_modular sb sg cb p) r a b.
Definition constsZ sb sg cb p := consts (mk_modular sb sg cb p).

(* ------------------------------------------------------------------ FM: Modular<float|double, Compute_t>  (modular-floating.inl) *)
Section FMIn.
Variables (pe pc : Z) (p : Z).
Let cE := rn pe.
Let cC := rn pc.
Let pcv := rn pc p.                  (* _pc = static_cast<Compute_t>(p) *)
(* addin: Compute_t tmp = Caster<Compute_t>(x) + Caster<Compute_t>(y); return x = Caster<Element>(tmp < _pc? tmp : tmp - _pc); *)
Definition fm_addin (x y : Z) : Z :=
  let tmp := rn pc (cC x + cC y) in cE (if tmp <? pcv then tmp else rn pc (tmp - pcv)).
(* mulin: return x = Caster<Element>(std::fmod(Caster<Compute_t>(x)*Caster<Compute_t>(y), _pc)); *)
Definition fm_mulin (x y : Z) : Z := cE (Z.rem (rn pc (cC x * cC y)) pcv).
(* negin: return x = (x==Caster<Element>(0)?Caster<Element>(0):Caster<Element>(_pc)-x); *)
Definition fm_negin (x : Z) : Z := if x =? cE 0 then cE 0 else rn pe (cE pcv - x).
(* invin: return inv(x, x);   [invext takes its operands by value] *)
Definition fm_invin (fuel : nat) (x : Z) : option Z := fm_inv pe pc p fuel x.
(* axpyin: return r = Caster<Element>(std::fmod(Caster<Compute_t>(a)*Caster<Compute_t>(x)+Caster<Compute_t>(r), _pc)); *)
Definition fm_axpyin (r a x : Z) : Z := cE (Z.rem (rn pc (rn pc (cC a * cC x) + cC r)) pcv).
(* Modular_implem(const Residu_t p) with Residu_t = uint32_t / uint64_t: mOne(static_cast<Element>(p-static_cast<Element>(1))):
   p is converted to Element, the difference is an Element operation *)
Definition fm_consts : Z * Z * Z * Z * Z :=
  let mOne := cE (rn pe (cE p - cE 1)) in (cE 0, cE 1, mOne, cE 0, mOne).
End FMIn.

(* ------------------------------------------------------------------ BF: ModularBalanced<float|double>  (modular-balanced-{float,double}.inl/.h) *)
Section BFIn.
Variables (pe : Z) (p : Z).
Let r_ := rn pe.
Let halfp := floor_dy (div_dy pe p 2).          (* std::floor(_p / 2.f) *)
Let mhalfp := r_ (r_ (halfp - p) + 1).          (* _halfp - _p + 1.f *)
(* addin: return add(r, r, a);     subin: return sub(r, r, a);     mulin: return mul(r, r, a);   [r = a op b is evaluated before r is written] *)
Definition bf_addin (r a : Z) : Z := bf_add pe p r a.
Definition bf_subin (r a : Z) : Z := bf_sub pe p r a.
Definition bf_mulin (r a : Z) : Z := bf_mul pe p r a.
(* negin: return neg(r, r);   neg: r = -a; if (r < _mhalfp) r += _p;  (= bf_negn of ModelDK.v) *)
Definition bf_negin (r : Z) : Z := bf_negn pe p r.
(* invin: return inv(r, r);   inv: r = invext(a, _p); NORMALISE(r) *)
Definition bf_invin (fuel : nat) (r : Z) : option Z := bf_inv pe p fuel r.
(* divin: return div(r, r, a);   div: Element tmp; return mul (r, a, inv(tmp, b)); *)
Definition bf_divin (fuel : nat) (r a : Z) : option Z := bf_div pe p fuel r a.
(* axmyin: return reduce(r = a * x - r); *)
Definition bf_axmyin (r a x : Z) : Z := bf_reduce pe p (r_ (r_ (a * x) - r)).
(* maxpyin: return reduce(r -= a * x); *)
Definition bf_maxpyin (r a x : Z) : Z := bf_reduce pe p (r_ (r - r_ (a * x))).
(* zero = 0.f, one = 1.f, mOne = -1.f; minElement() { return _mhalfp; }  maxElement() { return _halfp; } *)
Definition bf_consts : Z * Z * Z * Z * Z := (0, 1, -1, mhalfp, halfp).
End BFIn.

(* ------------------------------------------------------------------ BI: ModularBalanced<int32_t|int64_t>  (modular-balanced-int{32,64}.inl/.h) *)
Section BIIn.
Variables (w : Z) (p : Z).
Let t := mk_ity w true.
Let ci := cast t.
Let ai := ar t.
Let halfp := ci (ai (Z.shiftr p 1)).             (* _halfp(p >> 1) *)
Let mhalfp := ci (ai (ai (halfp - p) + 1)).      (* _mhalfp(_halfp - p + 1) *)
(* addin: return add(r, r, a);   subin: return sub(r, r, a);   mulin: return mul(r, r, a);   [q is computed from a, b before r is written] *)
Definition bi_addin (r a : Z) : Z := bi_add w p r a.
Definition bi_subin (r a : Z) : Z := bi_sub w p r a.
Definition bi_mulin (r a : Z) : Z := bi_mul w p r a.
(* negin: return neg(r, r);   neg: r = -a; if (r < _mhalfp) r += _p;  (= bi_negn of ModelDK.v) *)
Definition bi_negin (r : Z) : Z := bi_negn w p r.
(* invin: return inv(r, r);   inv: r = invext(r, (a < 0)? a + _p : a, _p); NORMALISE(r)   [operands by value] *)
Definition bi_invin (fuel : nat) (r : Z) : option Z := bi_inv w p fuel r.
(* divin: return div(r, r, a); *)
Definition bi_divin (fuel : nat) (r a : Z) : option Z := bi_div w p fuel r a.
(* axpyin: Element q = static_cast<Element>(((((double) a) * ((double) x)) + (double) r) * _dinvp);
           r = static_cast<Element>(a * x + r - q * _p); NORMALISE(r); *)
Definition bi_axpyin (r a x : Z) : Z :=
  let q := bi_quot w p (rn 53 (rn 53 (rn 53 a * rn 53 x) + rn 53 r)) in
  bi_norm w p (ci (ai (ai (ai (a * x) + r) - ai (q * p)))).
(* axmyin: Element q = static_cast<Element>(((((double) a) * ((double) x)) - (double) r) * _dinvp);
           r = static_cast<Element>(a * x - r - q * _p); NORMALISE(r); *)
Definition bi_axmyin (r a x : Z) : Z :=
  let q := bi_quot w p (rn 53 (rn 53 (rn 53 a * rn 53 x) - rn 53 r)) in
  bi_norm w p (ci (ai (ai (ai (a * x) - r) - ai (q * p)))).
(* maxpyin: return negin(axmyin(r, a, x)); *)
Definition bi_maxpyin (r a x : Z) : Z := bi_negin (bi_axmyin r a x).
(* zero = 0, one = 1, mOne = -1; minElement() { return _mhalfp; }  maxElement() { return _halfp; } *)
Definition bi_consts : Z * Z * Z * Z * Z := (ci 0, ci 1, ci (-1), mhalfp, halfp).
End BIIn.

(* ------------------------------------------------------------------ XB: ModularExtended<float|double>  (modular-extended.h), mb = branch of ::mul *)
Section XBIn.
Variables (mb : Z) (pe p : Z).
Let r_ := rn pe.
(* addin: return add(r, r, a);   subin: return sub(r, r, a);   negin: return neg(r, r); *)
Definition xb_addin (r a : Z) : Z := ex_add pe p r a.
Definition xb_subin (r a : Z) : Z := ex_sub pe p r a.
Definition xb_negin (r : Z) : Z := ex_neg pe p r.
(* mulin: return mul(r, r, a);   [every branch of ::mul reads a, b completely before it writes r] *)
Definition xb_mulin (r a : Z) : Z := xb_mul mb pe p r a.
(* invin: return inv(r, r);   inv: invext(x,y,_p); if (x<0) x += _p; *)
Definition xb_invin (fuel : nat) (r : Z) : option Z := ex_inv pe p fuel r.
(* divin: Element iy; return mulin(r, inv(iy, y)); *)
Definition xb_divin (fuel : nat) (r y : Z) : option Z :=
  match ex_inv pe p fuel y with Some iy => Some (xb_mulin r iy) | None => None end.
(* axpyin: Element tmp(r); return axpy(r, a, x, tmp); *)
Definition xb_axpyin (r a x : Z) : Z := xb_axpy mb pe p a x r.
(* axmyin: return axmy(r, a, x, r);   axmy: mul(tmp, a, x); return sub(r, tmp, y);   [r = tmp - y reads y = r before writing] *)
Definition xb_axmyin (r a x : Z) : Z := xb_axmy mb pe p a x r.
(* maxpyin: return maxpy(r, a, x, r); *)
Definition xb_maxpyin (r a x : Z) : Z := xb_maxpy mb pe p a x r.
(* ModularExtended(const XXX& p): zero(0.0), one(1.0), mOne((Element)p - 1.0) [a double subtraction, converted to Element],
   minElement() { return zero; }  maxElement() { return mOne; } *)
Definition xb_consts : Z * Z * Z * Z * Z :=
  let mOne := r_ (rn 53 (r_ p - 1)) in (0, 1, mOne, 0, mOne).
End XBIn.

(* ------------------------------------------------------------------ RU: Modular<ruint<K>, ruint<K'>>  (modular-ruint.inl) *)
Section RUIn.
Variables (w : Z) (dbl : bool) (p : Z).
Let wr (z : Z) : Z := z mod 2 ^ w.
Let wr2 (z : Z) : Z := z mod 2 ^ (2 * w).
(* addin: RecInt::add(r, a); if (r >= _p) RecInt::sub(r, _p); *)
Definition ru_addin (r a : Z) : Z := let r1 := wr (r + a) in if p <=? r1 then wr (r1 - p) else r1.
(* _mulin, Compute_t wider: C tmp; RecInt::lmul(tmp, r, a); RecInt::mod_n(r, tmp, p);
           same type:      RecInt::mod_n(RecInt::mul(r, a), p); *)
Definition ru_mulin (r a : Z) : Z := if dbl then wr (wr2 (r * a) mod p) else wr (r * a) mod p.
(* negin: if (r == 0) RecInt::reset(r); else RecInt::sub(r, _p, r); *)
Definition ru_negin (r : Z) : Z := if r =? 0 then 0 else wr (p - r).
(* _axpyin, Compute_t wider: E tmp = r; return r = _axpy<E, C>(r, a, b, tmp, p);
            same type:      RecInt::addmul(r, a, b); RecInt::mod_n(r, p); *)
Definition ru_axpyin (r a b : Z) : Z :=
  if dbl then ru_axpy w dbl p a b r else wr (r + a * b) mod p.
(* axmyin: Element rc(r); axmy(r, a, b, rc); *)
Definition ru_axmyin (r a b : Z) : Z := ru_axmy w dbl p a b r.
(* Modular_implem(const Residu_t p), Residu_t = Element = ruint<K> *)
Definition ru_consts : Z * Z * Z * Z * Z :=
  let mOne := wr (wr p - wr 1) in (wr 0, wr 1, mOne, wr 0, mOne).
End RUIn.

(* ------------------------------------------------------------------ ZZ: Modular<Integer>  (modular-integer.inl) *)
Section ZZIn.
Variable p : Z.
(* addin: Integer::addin(r,a); if (r >= _p) Integer::subin(r,_p); *)
Definition zz_addin (r a : Z) : Z := let r1 := r + a in if p <=? r1 then r1 - p else r1.
(* subin: Integer::subin(r,a); if ( sign(r) < 0) Integer::addin(r,_p); *)
Definition zz_subin (r a : Z) : Z := let r1 := r - a in if r1 <? 0 then r1 + p else r1.
(* mulin: Integer::mulin(r,a); Integer::modin(r,_p);   [modin = mpz_mod: the non-negative remainder] *)
Definition zz_mulin (r a : Z) : Z := (r * a) mod p.
(* negin: if (! isZero(r)) Integer::sub(r,_p,r); *)
Definition zz_negin (r : Z) : Z := if r =? 0 then r else p - r.
(* axpyin: Integer::axpyin(r,a,b) [r += a*b]; Integer::modin(r,_p); *)
Definition zz_axpyin (r a b : Z) : Z := (r + a * b) mod p.
(* maxpyin: Integer::maxpyin(r,a,b) [r -= a*b]; Integer::modin(r,_p); *)
Definition zz_maxpyin (r a b : Z) : Z := (r - a * b) mod p.
(* Modular_implem(const Residu_t p), Residu_t = Element = Integer *)
Definition zz_consts : Z * Z * Z * Z * Z := (0, 1, p - 1, 0, p - 1).
End ZZIn.
