(* C03 — ModularBalanced<float|double> (modular-balanced-{float,double}.{h,inl}) as modelled in ModelF.v (every IEEE operation
   followed by an explicit rounding): the constants _halfp, _mhalfp are exact, and for every modulus 3 <= p <= maxCardinality and
   canonical balanced operands every operation returns the canonical balanced representative of the exact value. *)
From Coq Require Import ZArith Bool Lia List.
From C03 Require Import Model ModelF ProofsBase ProofsInt ProofsFM ProofsBI.
Local Open Scope Z_scope.
Ltac Zify.zify_post_hook ::= idtac.

(* the canonical balanced representative *)
Definition bal_rep (p x : Z) : Z := let r := x mod p in if p / 2 <? r then r - p else r.

Lemma bal_rep_unique p x r : 0 < p -> bal_canon p r -> (exists k, x = r + k * p) -> bal_rep p x = r.
Proof.
  intros Hp [Hl Hh] [k ->]. unfold bal_rep. rewrite Z.mod_add by lia.
  assert (Hd := Z.div_mod p 2 ltac:(lia)). assert (Hm := Z.mod_pos_bound p 2 ltac:(lia)).
  destruct (Z_le_gt_dec 0 r).
  - rewrite Z.mod_small by lia. destruct (Z.ltb_spec (p / 2) r); lia.
  - assert (E : r mod p = r + p) by (symmetry; apply Z.mod_unique with (-1); lia).
    rewrite E. destruct (Z.ltb_spec (p / 2) (r + p)); lia.
Qed.

(* std::floor(_p / 2.f) is p/2: the division by two is exact in the float layer *)
Lemma halfp_ok prec p : 0 < prec -> 1 <= p < 2 ^ prec -> floor_dy (div_dy prec p 2) = p / 2.
Proof.
  intros Hprec Hp. unfold div_dy.
  destruct (Z.eqb_spec p 0); [ lia | ].
  assert (HL : 1 <= bitlen p <= prec).
  { split; [ unfold bitlen; destruct (Z.eqb_spec p 0); [ lia | pose proof (Z.log2_nonneg (Z.abs p)); lia ] | apply bitlen_le; lia ]. }
  change (bitlen 2) with 2. change (Z.sgn 2) with 1. change (Z.abs 2) with 2.
  rewrite Z.sgn_pos, Z.abs_eq by lia.
  set (k := Z.max 0 (prec + 2 + 2 - bitlen p)). assert (Hk : k = prec + 4 - bitlen p) by lia.
  assert (Hk4 : 4 <= k) by lia.
  assert (E2k : 2 ^ k = 2 * 2 ^ (k - 1)) by (replace k with (Z.succ (k - 1)) at 1 by lia; rewrite Z.pow_succ_r by lia; reflexivity).
  assert (H2k1 : 0 < 2 ^ (k - 1)) by (apply Z.pow_pos_nonneg; lia).
  assert (Eq : p * 2 ^ k / 2 = p * 2 ^ (k - 1)) by (rewrite E2k; replace (p * (2 * 2 ^ (k - 1))) with (p * 2 ^ (k - 1) * 2) by ring; apply Z.div_mul; lia).
  assert (Er : (p * 2 ^ k) mod 2 = 0) by (rewrite E2k; replace (p * (2 * 2 ^ (k - 1))) with (p * 2 ^ (k - 1) * 2) by ring; apply Z.mod_mul; lia).
  rewrite Eq, Er. cbn [Z.eqb]. replace (1 * 1 * (2 * (p * 2 ^ (k - 1)) + 0)) with (p * 2 ^ k) by (rewrite E2k; ring).
  (* the rounding drops four zero bits *)
  unfold rnd_dy.
  assert (Hbl : bitlen (p * 2 ^ k) = prec + 4).
  { unfold bitlen in *. assert (0 < p * 2 ^ k) by (apply Z.mul_pos_pos; [ lia | apply Z.pow_pos_nonneg; lia ]).
    destruct (Z.eqb_spec (p * 2 ^ k) 0); [ lia | ]. destruct (Z.eqb_spec p 0); [ lia | ].
    rewrite (Z.abs_eq (p * 2 ^ k)) by lia. rewrite Z.abs_eq in Hk by lia. rewrite Z.log2_mul_pow2 by lia. lia. }
  rewrite Hbl. destruct (Z.leb_spec (prec + 4) prec); [ lia | ].
  replace (prec + 4 - prec) with 4 by lia. change (2 ^ 4) with 16. change (2 ^ (4 - 1)) with 8.
  assert (E16 : 2 ^ k = 16 * 2 ^ (k - 4)).
  { change 16 with (2 ^ 4). rewrite <- Z.pow_add_r by lia. f_equal; lia. }
  assert (H2k4 : 0 < 2 ^ (k - 4)) by (apply Z.pow_pos_nonneg; lia).
  assert (Em : (p * 2 ^ k) mod 16 = 0) by (rewrite E16; replace (p * (16 * 2 ^ (k - 4))) with (p * 2 ^ (k - 4) * 16) by ring; apply Z.mod_mul; lia).
  assert (Ed : p * 2 ^ k / 16 = p * 2 ^ (k - 4)) by (rewrite E16; replace (p * (16 * 2 ^ (k - 4))) with (p * 2 ^ (k - 4) * 16) by ring; apply Z.div_mul; lia).
  rewrite Em, Ed. cbn [Z.ltb Z.compare]. unfold floor_dy.
  destruct (Z.leb_spec 0 (- k - 1 + 4)); [ lia | ].
  replace (- (- k - 1 + 4)) with (k - 3) by lia.
  assert (E3 : 2 ^ (k - 3) = 2 * 2 ^ (k - 4)) by (replace (k - 3) with (Z.succ (k - 4)) by lia; rewrite Z.pow_succ_r by lia; reflexivity).
  rewrite E3. apply Z.div_mul_cancel_r; lia.
Qed.

Section BFgen.
Variables (pe p B : Z).
Hypothesis Hrn : forall z, - B <= z <= B -> rn pe z = z.
Hypothesis Hhalf : floor_dy (div_dy pe p 2) = p / 2.
Hypothesis Hp : 3 <= p.
Hypothesis H2p : 2 * p <= B.
Hypothesis Hsq : (p / 2) * (p / 2) + p / 2 <= B.

Let Hd := Z.div_mod p 2 ltac:(lia).
Let Hm := Z.mod_pos_bound p 2 ltac:(lia).

Lemma bf_norm_exact x : p / 2 - p + 1 - p <= x <= p / 2 + p ->
  bal_canon p (bf_norm pe p x) /\ exists k, x = bf_norm pe p x + k * p.
Proof.
  intros Hx. pose proof Hd. pose proof Hm. unfold bf_norm, bal_canon. rewrite Hhalf.
  rewrite (Hrn (p / 2 - p)) by lia. rewrite (Hrn (p / 2 - p + 1)) by lia.
  destruct (Z.ltb_spec x (p / 2 - p + 1)).
  - rewrite (Hrn (x + p)) by lia. split; [ lia | exists (-1); lia ].
  - destruct (Z.ltb_spec (p / 2) x).
    + rewrite (Hrn (x - p)) by lia. split; [ lia | exists 1; lia ].
    + split; [ lia | exists 0; lia ].
Qed.

Lemma bf_norm_rep x : p / 2 - p + 1 - p <= x <= p / 2 + p -> bf_norm pe p x = bal_rep p x.
Proof.
  intros Hx. destruct (bf_norm_exact x Hx) as [Hc Hk]. symmetry. apply bal_rep_unique; [ lia | exact Hc | exact Hk ].
Qed.

(* reduce: any integer-valued element *)
Lemma bf_reduce_exact y : bf_reduce pe p y = bal_rep p y.
Proof.
  pose proof Hd. pose proof Hm. unfold bf_reduce.
  assert (Hq := Z.quot_rem' y p).
  assert (Ht : - p < Z.rem y p < p).
  { destruct (Z_le_gt_dec 0 y).
    - pose proof (Z.rem_bound_pos_pos y p ltac:(lia) ltac:(lia)). lia.
    - replace y with (- - y) by lia. rewrite Z.rem_opp_l' . pose proof (Z.rem_bound_pos_pos (- y) p ltac:(lia) ltac:(lia)). lia. }
  destruct (bf_norm_exact (Z.rem y p) ltac:(lia)) as [Hc [k Hk]].
  symmetry. apply bal_rep_unique; [ lia | exact Hc | ].
  exists (Z.quot y p + k). rewrite Hq at 1. rewrite Hk at 1. ring.
Qed.

Lemma prod_bound a b : bal_canon p a -> bal_canon p b -> - (p / 2 * (p / 2)) <= a * b <= p / 2 * (p / 2).
Proof.
  pose proof Hd. pose proof Hm. unfold bal_canon. intros Ha Hb.
  assert (Z.abs a <= p / 2) by lia. assert (Z.abs b <= p / 2) by lia.
  assert (Z.abs (a * b) <= p / 2 * (p / 2)) by (rewrite Z.abs_mul; apply Z.mul_le_mono_nonneg; lia).
  lia.
Qed.

Definition BF_ops_exact : Prop := forall a b c, bal_canon p a -> bal_canon p b -> bal_canon p c ->
  bf_add pe p a b = bal_rep p (a + b) /\ bf_sub pe p a b = bal_rep p (a - b) /\ bf_mul pe p a b = bal_rep p (a * b) /\
  bf_axpy pe p a b c = bal_rep p (a * b + c) /\ bf_axpyin pe p c a b = bal_rep p (c + a * b) /\
  bf_axmy pe p a b c = bal_rep p (a * b - c) /\ bf_maxpy pe p a b c = bal_rep p (c - a * b).

Lemma bf_ops_exact : BF_ops_exact.
Proof.
  intros a b c Ha Hb Hc. pose proof Hd. pose proof Hm. pose proof (prod_bound a b Ha Hb) as Hab. unfold bal_canon in *.
  unfold bf_add, bf_sub, bf_mul, bf_axpy, bf_axpyin, bf_axmy, bf_maxpy.
  rewrite (Hrn (a * b)) by lia.
  rewrite (Hrn (a + b)), (Hrn (a - b)), (Hrn (a * b + c)), (Hrn (c + a * b)), (Hrn (a * b - c)), (Hrn (c - a * b)) by lia.
  rewrite !bf_reduce_exact. rewrite !bf_norm_rep by lia. repeat split; reflexivity.
Qed.
End BFgen.

(* the two instantiated rings: (precision, maxCardinality) = (24, 8191), (53, 189812531) *)
Definition bf_cfg (pe mx : Z) : Prop := (pe, mx) = (24, 8191) \/ (pe, mx) = (53, 189812531).
Definition BF_stmt (pe mx p : Z) : Prop := bf_cfg pe mx -> 3 <= p <= mx ->
  (forall y, bf_reduce pe p y = bal_rep p y) /\ BF_ops_exact pe p.

Lemma bf_exact pe mx p : BF_stmt pe mx p.
Proof.
  intros Hc Hp.
  assert (Hd := Z.div_mod p 2 ltac:(lia)). assert (Hm := Z.mod_pos_bound p 2 ltac:(lia)).
  destruct Hc as [Hc | Hc]; injection Hc as -> ->.
  - assert (Hh : floor_dy (div_dy 24 p 2) = p / 2) by (apply halfp_ok; [ lia | change (2 ^ 24) with 16777216; lia ]).
    assert (Hsq : p / 2 * (p / 2) + p / 2 <= 16777216).
    { assert (p / 2 <= 4095) by lia. assert (p / 2 * (p / 2) <= 4095 * 4095) by (apply Z.mul_le_mono_nonneg; lia). lia. }
    split.
    + intros y. apply (bf_reduce_exact 24 p 16777216 rn24_id Hh); lia.
    + apply (bf_ops_exact 24 p 16777216 rn24_id Hh); lia.
  - assert (Hh : floor_dy (div_dy 53 p 2) = p / 2) by (apply halfp_ok; [ lia | change (2 ^ 53) with 9007199254740992; lia ]).
    assert (Hsq : p / 2 * (p / 2) + p / 2 <= 9007199254740992).
    { assert (p / 2 <= 94906265) by lia. assert (p / 2 * (p / 2) <= 94906265 * 94906265) by (apply Z.mul_le_mono_nonneg; lia). lia. }
    split.
    + intros y. apply (bf_reduce_exact 53 p 9007199254740992 rn53_id Hh); lia.
    + apply (bf_ops_exact 53 p 9007199254740992 rn53_id Hh); lia.
Qed.

(* neg: r = -a.  Known finding (kept open): for an even modulus the element p/2 is mapped to -(p/2), outside the canonical range. *)
Lemma bf_neg_exact_partial p a : 3 <= p -> bal_canon p a -> (p mod 2 = 1 \/ a <> p / 2) -> bf_neg a = bal_rep p (- a).
Proof.
  intros Hp Ha Hodd. assert (Hd := Z.div_mod p 2 ltac:(lia)). assert (Hm := Z.mod_pos_bound p 2 ltac:(lia)).
  unfold bf_neg, bal_canon in *. symmetry. apply bal_rep_unique; [ lia | unfold bal_canon; lia | exists 0; lia ].
Qed.
Lemma bf_neg_refuted : exists p a, 3 <= p /\ bal_canon p a /\ ~ bal_canon p (bf_neg a).
Proof. exists 4, 2. unfold bal_canon, bf_neg. cbn. lia. Qed.
