(* C03 — ModularBalanced<int32_t|int64_t> (modular-balanced-int{32,64}.inl) as modelled in ModelF.v.
   PARTIAL: what is proved is the integer part — if the quotient estimate q (computed in double arithmetic, bi_quot)
   is close enough that a*b - q*p lies within one modulus of the canonical interval, then the wrapped machine
   computation  r = a*b - q*_p; NORMALISE(r)  returns the canonical balanced representative of the exact value,
   whatever wraps happen in a*b and q*p.  That bi_quot meets this tolerance for all canonical operands up to
   maxCardinality is a floating-point error bound that is NOT proved here; it is exercised by the correspondence run
   (the executable model computes the estimate bit-exactly) and by the oracle. *)
From Coq Require Import ZArith Bool Lia List.
From C03 Require Import Model ModelF ProofsBase ProofsInt.
Local Open Scope Z_scope.
Ltac Zify.zify_post_hook ::= Z.to_euclidean_division_equations.

Definition bal_canon (p r : Z) : Prop := p / 2 - p + 1 <= r <= p / 2.
(* the tolerance on the quotient estimate *)
Definition q_tolerance (p x q : Z) : Prop := p / 2 - p + 1 - p <= x - q * p <= p / 2 + p.

Lemma shiftr1 p : Z.shiftr p 1 = p / 2.
Proof. rewrite Z.shiftr_div_pow2 by lia. reflexivity. Qed.

(* the common tail of mul/axpy/axmy: r = x - q*_p in wrapping Element arithmetic, then NORMALISE *)
Lemma bi_tail_exact w p x x' q : (w = 32 \/ w = 64) -> 3 <= p <= 2 ^ (w - 3) -> q_tolerance p x q ->
  (exists j, x' = x + j * 2 ^ w) ->          (* x' is x computed with wrapping Element arithmetic *)
  let t := mk_ity w true in
  let r := bi_norm w p (cast t (ar t (x' - ar t (q * p)))) in
  bal_canon p r /\ (r = x - q * p \/ r = x - q * p + p \/ r = x - q * p - p).
Proof.
  intros Hw Hp Ht [j Hj]. unfold q_tolerance, bal_canon in *. cbv zeta. unfold bi_norm. rewrite !shiftr1.
  set (Y := q * p) in *. set (h := p / 2) in *. assert (Hh : 0 <= 2 * h <= p /\ p <= 2 * h + 1) by (unfold h; lia).
  clearbody h Y.
  destruct Hw as [-> | ->].
  - change (2 ^ (32 - 3)) with 536870912 in Hp. change (2 ^ 32) with 4294967296 in Hj. autorewrite with ctypes.
    repeat match goal with |- context[?z mod 4294967296] =>
      lazymatch z with context[_ mod _] => fail | _ => idtac end;
      let k := fresh "k" in let v := fresh "v" in
      pose proof (Z.div_mod z 4294967296 ltac:(lia)); pose proof (Z.mod_pos_bound z 4294967296 ltac:(lia));
      set (k := z / 4294967296) in *; set (v := z mod 4294967296) in *; clearbody k v end.
    split_all; lia.
  - change (2 ^ (64 - 3)) with 2305843009213693952 in Hp. change (2 ^ 64) with 18446744073709551616 in Hj. autorewrite with ctypes.
    repeat match goal with |- context[?z mod 18446744073709551616] =>
      lazymatch z with context[_ mod _] => fail | _ => idtac end;
      let k := fresh "k" in let v := fresh "v" in
      pose proof (Z.div_mod z 18446744073709551616 ltac:(lia)); pose proof (Z.mod_pos_bound z 18446744073709551616 ltac:(lia));
      set (k := z / 18446744073709551616) in *; set (v := z mod 18446744073709551616) in *; clearbody k v end.
    split_all; lia.
Qed.

Lemma ar_wraps w z : (w = 32 \/ w = 64) -> exists j, ar (mk_ity w true) z = z + j * 2 ^ w.
Proof.
  intros [-> | ->]; autorewrite with ctypes.
  - exists (- ((z + 2147483648) / 4294967296)). change (2 ^ 32) with 4294967296. lia.
  - exists (- ((z + 9223372036854775808) / 18446744073709551616)). change (2 ^ 64) with 18446744073709551616. lia.
Qed.

Lemma of_tail p x q r : (r = x - q * p \/ r = x - q * p + p \/ r = x - q * p - p) -> exists k, r = x + k * p.
Proof. intros [-> | [-> | ->]]; [ exists (- q) | exists (- q + 1) | exists (- q - 1) ]; ring. Qed.

Section Statements.
Variables (w p : Z).
Definition BI_pre := (w = 32 \/ w = 64) /\ 3 <= p <= 2 ^ (w - 3).
(* full statements (NOT proved): the same without the q_tolerance hypothesis, for p <= maxCardinality, canonical operands *)
Definition BI_mul_partial_stmt := BI_pre -> forall a b,
  q_tolerance p (a * b) (bi_quot w p (rn 53 (rn 53 a * rn 53 b))) ->
  bal_canon p (bi_mul w p a b) /\ exists k, bi_mul w p a b = a * b + k * p.
Definition BI_axpy_partial_stmt := BI_pre -> forall a x y,
  q_tolerance p (a * x + y) (bi_quot w p (rn 53 (rn 53 (rn 53 a * rn 53 x) + rn 53 y))) ->
  bal_canon p (bi_axpy w p a x y) /\ exists k, bi_axpy w p a x y = a * x + y + k * p.
Definition BI_axmy_partial_stmt := BI_pre -> forall a x y,
  q_tolerance p (a * x - y) (bi_quot w p (rn 53 (rn 53 (rn 53 a * rn 53 x) - rn 53 y))) ->
  bal_canon p (bi_axmy w p a x y) /\ exists k, bi_axmy w p a x y = a * x - y + k * p.
End Statements.

Lemma bi_mul_partial w p : BI_mul_partial_stmt w p.
Proof.
  intros [Hw Hp] a b Hq. unfold bi_mul.
  destruct (bi_tail_exact w p (a * b) (ar (mk_ity w true) (a * b)) _ Hw Hp Hq (ar_wraps w _ Hw)) as [Hc Hr].
  split; [ exact Hc | exact (of_tail _ _ _ _ Hr) ].
Qed.

Lemma bi_axpy_partial w p : BI_axpy_partial_stmt w p.
Proof.
  intros [Hw Hp] a x y Hq. unfold bi_axpy.
  assert (Hx : exists j, ar (mk_ity w true) (ar (mk_ity w true) (a * x) + y) = a * x + y + j * 2 ^ w).
  { destruct (ar_wraps w (a * x) Hw) as [j1 E1]. destruct (ar_wraps w (ar (mk_ity w true) (a * x) + y) Hw) as [j2 E2].
    exists (j1 + j2). rewrite E2, E1. ring. }
  destruct (bi_tail_exact w p (a * x + y) _ _ Hw Hp Hq Hx) as [Hc Hr].
  split; [ exact Hc | exact (of_tail _ _ _ _ Hr) ].
Qed.

Lemma bi_axmy_partial w p : BI_axmy_partial_stmt w p.
Proof.
  intros [Hw Hp] a x y Hq. unfold bi_axmy.
  assert (Hx : exists j, ar (mk_ity w true) (ar (mk_ity w true) (a * x) - y) = a * x - y + j * 2 ^ w).
  { destruct (ar_wraps w (a * x) Hw) as [j1 E1]. destruct (ar_wraps w (ar (mk_ity w true) (a * x) - y) Hw) as [j2 E2].
    exists (j1 + j2). rewrite E2, E1. ring. }
  destruct (bi_tail_exact w p (a * x - y) _ _ Hw Hp Hq Hx) as [Hc Hr].
  split; [ exact Hc | exact (of_tail _ _ _ _ Hr) ].
Qed.

(* the tolerance hypothesis is satisfiable: ModularBalanced<int64_t>(7), 3*3 *)
Example bi_tolerance_sat : BI_pre 64 7 /\ q_tolerance 7 (3 * 3) (bi_quot 64 7 (rn 53 (rn 53 3 * rn 53 3))).
Proof. split; [ split; [ right; reflexivity | vm_compute; intuition discriminate ] | vm_compute; intuition discriminate ]. Qed.
