(* C03 — ModularBalanced<int32_t|int64_t>::inv / ::div (modular-balanced-int{32,64}.inl):
     r = invext(r, (a < 0) ? a + _p : a, _p); NORMALISE(r)        div: mul(r, a, inv(tmp, b))
   through the generic extended_euclid theorem (ProofsEuclid.v) and the full mul theorem (ProofsBIQ.v). *)
From Coq Require Import ZArith Bool Lia List.
From C03 Require Import Model ModelF ProofsBase ProofsInt ProofsEuclid ProofsBI ProofsBF ProofsBN ProofsBIQ.
Local Open Scope Z_scope.
Ltac Zify.zify_post_hook ::= idtac.

Definition BI_inv_stmt (w p : Z) : Prop := BI_env w p -> forall a, bal_canon p a -> Z.gcd a p = 1 ->
  (forall fuel r, bi_inv w p fuel a = Some r -> bal_canon p r /\ (a * r) mod p = 1) /\
  (exists fuel, bi_inv w p fuel a <> None).
Definition BI_div_stmt (w p : Z) : Prop := BI_env w p -> forall a b, bal_canon p a -> bal_canon p b -> Z.gcd b p = 1 ->
  (forall fuel r, bi_div w p fuel a b = Some r -> bal_canon p r /\ bal_rep p (r * b) = a) /\
  (exists fuel, bi_div w p fuel a b <> None).

Lemma bi_ident w p : (w = 32 \/ w = 64) -> 3 <= p <= 2 ^ (w - 3) ->
  forall z, - 2 * p <= z <= 2 * p -> cast (mk_ity w true) z = z /\ ar (mk_ity w true) z = z.
Proof.
  intros [-> | ->] Hp z Hz.
  - change (2 ^ (32 - 3)) with 536870912 in Hp. autorewrite with ctypes. rewrite Z.mod_small by lia. lia.
  - change (2 ^ (64 - 3)) with 2305843009213693952 in Hp. autorewrite with ctypes. rewrite Z.mod_small by lia. lia.
Qed.

Lemma bi_norm_exact w p x : (w = 32 \/ w = 64) -> 3 <= p <= 2 ^ (w - 3) -> 0 <= x <= p ->
  bal_canon p (bi_norm w p x) /\ exists j, bi_norm w p x = x + j * p.
Proof.
  intros Hw Hp Hx. assert (Hd := Z.div_mod p 2 ltac:(lia)). assert (Hm := Z.mod_pos_bound p 2 ltac:(lia)).
  pose proof (bi_ident w p Hw Hp) as I.
  unfold bi_norm, bal_canon. rewrite !shiftr1.
  rewrite (proj2 (I (p / 2) ltac:(lia))), (proj1 (I (p / 2) ltac:(lia))).
  rewrite (proj2 (I (p / 2 - p) ltac:(lia))). rewrite (proj2 (I (p / 2 - p + 1) ltac:(lia))), (proj1 (I (p / 2 - p + 1) ltac:(lia))).
  destruct (Z.ltb_spec x (p / 2 - p + 1)); [ lia | ].
  destruct (Z.ltb_spec (p / 2) x).
  - rewrite (proj2 (I (x - p) ltac:(lia))), (proj1 (I (x - p) ltac:(lia))). split; [ lia | exists (-1); lia ].
  - split; [ lia | exists 0; lia ].
Qed.

Lemma bi_env_w w p : BI_env w p -> (w = 32 \/ w = 64) /\ 3 <= p <= 2 ^ (w - 3).
Proof.
  intros [[-> H] | [-> H]].
  - change (2 ^ 29) with 536870912 in H. change (2 ^ (32 - 3)) with 536870912. split; [ left; reflexivity | lia ].
  - change (2 ^ 49) with 562949953421312 in H. change (2 ^ (64 - 3)) with 2305843009213693952. split; [ right; reflexivity | lia ].
Qed.

Lemma bi_inv_exact w p : BI_inv_stmt w p.
Proof.
  intros Henv a Ha Hg. destruct (bi_env_w w p Henv) as [Hw Hp]. pose proof (bi_ident w p Hw Hp) as I.
  assert (Hd := Z.div_mod p 2 ltac:(lia)). assert (Hm := Z.mod_pos_bound p 2 ltac:(lia)).
  unfold bal_canon in Ha. unfold bi_inv.
  set (a' := if a <? 0 then cast (mk_ity w true) (ar (mk_ity w true) (a + p)) else a).
  assert (Ea : exists i, a' = a + i * p /\ 0 <= a' < p).
  { unfold a'. destruct (Z.ltb_spec a 0).
    - rewrite (proj2 (I (a + p) ltac:(lia))), (proj1 (I (a + p) ltac:(lia))). exists 1. lia.
    - exists 0. lia. }
  destruct Ea as [i [Ei Ha']].
  assert (F : forall z, 0 <= z <= p -> cast (mk_ity w true) z = z /\ ar (mk_ity w true) z = z) by (intros z Hz; apply I; lia).
  assert (Hg' : Z.gcd a' p = 1) by (rewrite Ei, Z.gcd_comm, Z.gcd_add_mult_diag_r, Z.gcd_comm; exact Hg).
  split.
  - intros fuel r. destruct (extended_euclid (mk_ity w true) fuel a' p) as [[x g] | ] eqn:E; [ | discriminate ].
    intros [= <-]. destruct (extended_euclid_ok (mk_ity w true) a' p Ha' F fuel x g E) as (Hx & Hgx & k & Hk).
    rewrite Hg' in Hgx. subst g.
    destruct (bi_norm_exact w p x Hw Hp Hx) as [Hc [j Hj]]. split; [ exact Hc | ].
    rewrite Hj. symmetry. apply Z.mod_unique with (k + a' * j - i * x - i * j * p); [ lia | ].
    replace a with (a' - i * p) by lia.
    transitivity (x * a' + p * (a' * j - i * x - i * j * p)); [ ring | rewrite Hk; ring ].
  - destruct (extended_euclid_terminates (mk_ity w true) a' p Ha' F) as [fuel Hf]. exists fuel.
    destruct (extended_euclid (mk_ity w true) fuel a' p) as [[x g] | ]; [ discriminate | contradiction ].
Qed.

Lemma bi_div_exact w p : BI_div_stmt w p.
Proof.
  intros Henv a b Ha Hb Hg. destruct (bi_inv_exact w p Henv b Hb Hg) as [Hi [fuel Hf]].
  assert (Hp : 3 <= p) by (destruct Henv as [[_ H] | [_ H]]; lia).
  split.
  - intros fu r. unfold bi_div. destruct (bi_inv w p fu b) as [ib | ] eqn:E; [ | discriminate ]. intros [= <-].
    destruct (Hi fu ib E) as [Hc Hm]. destruct (bi_mul_full w p Henv a ib Ha Hc) as [Hr [k Hk]]. split; [ exact Hr | ].
    apply bal_rep_unique; [ lia | exact Ha | ].
    rewrite Hk. pose proof (Z.div_mod (b * ib) p ltac:(lia)) as Hdm. rewrite Hm in Hdm.
    exists (k * b + a * ((b * ib) / p)).
    transitivity (a * (b * ib) + k * b * p); [ ring | rewrite Hdm at 1; ring ].
  - exists fuel. unfold bi_div. destruct (bi_inv w p fuel b); [ discriminate | contradiction ].
Qed.

Example bi_inv_hyps_sat : BI_env 64 6074000999 /\ bal_canon 6074000999 (- 3037000499) /\ Z.gcd (- 3037000499) 6074000999 = 1.
Proof.
  split; [ right; split; [ reflexivity | change (2 ^ 49) with 562949953421312; lia ] | ].
  split; [ unfold bal_canon; change (6074000999 / 2) with 3037000499; lia | vm_compute; reflexivity ].
Qed.
