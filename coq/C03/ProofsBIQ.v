(* C03 — ModularBalanced<int32_t|int64_t> (modular-balanced-int{32,64}.inl, ModelF.v section BI): the double-precision
   quotient estimate  q = (Element)(<double expression> * _dinvp)  meets the tolerance of ProofsBI.v for every modulus in
   the envelope 3 <= p <= 2^29 (int32_t) / 3 <= p <= 2^49 (int64_t) and balanced-canonical operands, so mul / axpy / axmy
   return the canonical balanced representative of the exact value: the q_tolerance hypothesis of the `_partial`
   theorems is discharged from the rounding layer (ProofsRnd.v).  maxCardinality (131072, 6074000999) is inside. *)
From Coq Require Import ZArith Bool Lia List.
From C03 Require Import Model ModelF Params ProofsBase ProofsInt ProofsFM ProofsBI ProofsRnd.
Import ListNotations.
Local Open Scope Z_scope.
Ltac Zify.zify_post_hook ::= idtac.

Definition BI_env (w p : Z) : Prop := (w = 32 /\ 3 <= p <= 2 ^ 29) \/ (w = 64 /\ 3 <= p <= 2 ^ 49).
Definition BI_mul_full_stmt (w p : Z) : Prop := BI_env w p -> forall a b, bal_canon p a -> bal_canon p b ->
  bal_canon p (bi_mul w p a b) /\ exists k, bi_mul w p a b = a * b + k * p.
Definition BI_axpy_full_stmt (w p : Z) : Prop := BI_env w p -> forall a x y, bal_canon p a -> bal_canon p x -> bal_canon p y ->
  bal_canon p (bi_axpy w p a x y) /\ exists k, bi_axpy w p a x y = a * x + y + k * p.
Definition BI_axmy_full_stmt (w p : Z) : Prop := BI_env w p -> forall a x y, bal_canon p a -> bal_canon p x -> bal_canon p y ->
  bal_canon p (bi_axmy w p a x y) /\ exists k, bi_axmy w p a x y = a * x - y + k * p.
(* the quotient estimates meet the tolerance *)
Definition BI_tolerance_stmt (w p : Z) : Prop := BI_env w p -> forall a x y, bal_canon p a -> bal_canon p x -> bal_canon p y ->
  q_tolerance p (a * x) (bi_quot w p (rn 53 (rn 53 a * rn 53 x))) /\
  q_tolerance p (a * x + y) (bi_quot w p (rn 53 (rn 53 (rn 53 a * rn 53 x) + rn 53 y))) /\
  q_tolerance p (a * x - y) (bi_quot w p (rn 53 (rn 53 (rn 53 a * rn 53 x) - rn 53 y))).

Lemma bal_abs p a : 3 <= p -> bal_canon p a -> 2 * Z.abs a <= p.
Proof.
  unfold bal_canon. intros Hp H. pose proof (Z.div_mod p 2 ltac:(lia)). pose proof (Z.mod_pos_bound p 2 ltac:(lia)). lia.
Qed.

Lemma tol_of_abs p X q : 3 <= p -> 2 * Z.abs (q * p - X) <= 3 * p - 2 -> q_tolerance p X q.
Proof.
  unfold q_tolerance. intros Hp H. pose proof (Z.div_mod p 2 ltac:(lia)). pose proof (Z.mod_pos_bound p 2 ltac:(lia)). lia.
Qed.

(* truncation of the estimate Xn / T: with E = (2u+u^2)|d| + |d - X| <= (p-1)/2 the quotient is within 3p/2 - 1 of X/p *)
Lemma trunc_tol U p T Xn d X : 0 < U -> 3 <= p -> 0 < T ->
  U * U * Z.abs (Xn * p - d * T) <= (2 * U + 1) * (Z.abs d * T) ->
  2 * ((2 * U + 1) * Z.abs d + U * U * Z.abs (d - X)) <= U * U * (p - 1) ->
  2 * Z.abs (Z.quot Xn T * p - X) <= 3 * p - 2.
Proof.
  intros HU Hp HT Hest Hc. pose proof (Z.quot_rem' Xn T) as E. pose proof (Z.rem_bound_abs Xn T ltac:(lia)) as Hr.
  rewrite (Z.abs_eq T) in Hr by lia. set (q := Z.quot Xn T) in *. set (r := Z.rem Xn T) in *. clearbody q r.
  assert (F0 : T * (q * p - X) = (Xn * p - d * T) + (d - X) * T - r * p) by (subst Xn; ring).
  assert (F1 : Z.abs (T * (q * p - X)) = T * Z.abs (q * p - X)) by (rewrite Z.abs_mul, (Z.abs_eq T); lia).
  assert (F2 : Z.abs ((d - X) * T) = Z.abs (d - X) * T) by (rewrite Z.abs_mul, (Z.abs_eq T); lia).
  assert (F3 : Z.abs (r * p) <= (T - 1) * p).
  { rewrite Z.abs_mul, (Z.abs_eq p) by lia. apply Z.mul_le_mono_nonneg_r; lia. }
  pose proof (Z.abs_nonneg (q * p - X)). pose proof (Z.abs_nonneg (d - X)). pose proof (Z.abs_nonneg d).
  pose proof (Z.abs_nonneg (Xn * p - d * T)).
  assert (K1 : T * Z.abs (q * p - X) <= Z.abs (Xn * p - d * T) + Z.abs (d - X) * T + (T - 1) * p) by lia.
  set (Q := Z.abs (q * p - X)) in *. set (G := Z.abs (Xn * p - d * T)) in *. set (dl := Z.abs (d - X)) in *.
  set (D := Z.abs d) in *. clearbody Q G dl D.
  assert (K2 : U * U * (T * Q) <= U * U * (G + dl * T + (T - 1) * p)) by (apply Z.mul_le_mono_nonneg_l; nia).
  assert (K3 : (2 * ((2 * U + 1) * D + U * U * dl)) * T <= (U * U * (p - 1)) * T) by (apply Z.mul_le_mono_nonneg_r; lia).
  assert (K4 : 0 < U * U * p) by (repeat apply Z.mul_pos_pos; lia).
  assert (K5 : U * U * T * (2 * Q) < U * U * T * (3 * p - 1)) by lia.
  apply Z.mul_lt_mono_pos_l in K5; [ lia | repeat apply Z.mul_pos_pos; lia ].
Qed.

(* the double expression d = fl(fl(A0) + y) (mul: y = 0, no second rounding) against the exact X = A0 + y *)
Lemma bi_tol U p A0 y s1 S0 d X : 0 < U -> 3 <= p -> 16 * p <= U -> 4 * Z.abs A0 <= p * p -> 2 * Z.abs y <= p ->
  S0 = s1 + y -> X = A0 + y ->
  U * Z.abs (s1 - A0) <= Z.abs A0 -> U * Z.abs (d - S0) <= Z.abs S0 ->
  2 * ((2 * U + 1) * Z.abs d + U * U * Z.abs (d - X)) <= U * U * (p - 1).
Proof.
  intros HU Hp HUp HA HY -> -> H1 H2.
  pose proof (Z.abs_nonneg (s1 - A0)) as N1. pose proof (Z.abs_nonneg (d - (s1 + y))) as N2.
  assert (L1 : Z.abs (s1 + y) <= Z.abs A0 + Z.abs (s1 - A0) + Z.abs y) by lia.
  assert (L2 : Z.abs d <= Z.abs (s1 + y) + Z.abs (d - (s1 + y))) by lia.
  assert (L3 : Z.abs (d - (A0 + y)) <= Z.abs (s1 - A0) + Z.abs (d - (s1 + y))) by lia.
  pose proof (Z.abs_nonneg A0). pose proof (Z.abs_nonneg y). pose proof (Z.abs_nonneg d). pose proof (Z.abs_nonneg (d - (A0 + y))).
  set (A := Z.abs A0) in *. set (Y := Z.abs y) in *. set (e1 := Z.abs (s1 - A0)) in *. set (e2 := Z.abs (d - (s1 + y))) in *.
  set (S := Z.abs (s1 + y)) in *. set (D := Z.abs d) in *. set (dl := Z.abs (d - (A0 + y))) in *.
  clearbody A Y e1 e2 S D dl.
  assert (M1 : 1 * e1 <= U * e1) by (apply Z.mul_le_mono_nonneg_r; lia).
  assert (M2 : 1 * e2 <= U * e2) by (apply Z.mul_le_mono_nonneg_r; lia).
  assert (HS : S <= 2 * A + Y) by lia.
  assert (HD : D <= 2 * (2 * A + Y)) by lia.
  assert (G1 : (2 * U + 1) * D <= (2 * U + 1) * (2 * (2 * A + Y))) by (apply Z.mul_le_mono_nonneg_l; lia).
  assert (G2 : (2 * U + 1) * (2 * (2 * A + Y)) <= (3 * U) * (2 * (2 * A + Y))) by (apply Z.mul_le_mono_nonneg_r; lia).
  assert (G3 : U * U * dl <= U * U * (e1 + e2)) by (apply Z.mul_le_mono_nonneg_l; nia).
  assert (G4 : U * (U * e1) <= U * A) by (apply Z.mul_le_mono_nonneg_l; lia).
  assert (G5 : U * (U * e2) <= U * (2 * A + Y)) by (apply Z.mul_le_mono_nonneg_l; lia).
  assert (G6 : 3 * p <= p * p) by nia.
  assert (G7 : (16 * p) * (p - 1) <= U * (p - 1)) by (apply Z.mul_le_mono_nonneg_r; lia).
  assert (G8 : U * (30 * A + 14 * Y) <= U * (U * (p - 1))) by (apply Z.mul_le_mono_nonneg_l; lia).
  lia.
Qed.

(* bi_quot against any exact X, once the error condition holds *)
Lemma bi_quot_tol w p d X : (w = 32 \/ w = 64) -> 3 <= p -> 16 * p <= 2 ^ 53 -> p <= 2 ^ (w - 3) -> Z.abs X <= p * p ->
  2 * ((2 * 2 ^ 53 + 1) * Z.abs d + 2 ^ 53 * 2 ^ 53 * Z.abs (d - X)) <= 2 ^ 53 * 2 ^ 53 * (p - 1) ->
  q_tolerance p X (bi_quot w p d).
Proof.
  intros Hw Hp HU Hpw HX Herr. unfold bi_quot. cbv zeta. rewrite (rn_lt 53 p) by lia.
  destruct (mul_inv_est 53 p d ltac:(lia) ltac:(lia)) as (Xn & t & Ht & _ & -> & Hest).
  pose proof (pow2_pos t Ht) as HT. pose proof (pow2_pos 53 ltac:(lia)) as HU0.
  pose proof (trunc_tol (2 ^ 53) p (2 ^ t) Xn d X HU0 Hp HT Hest Herr) as Htol.
  set (q := Z.quot Xn (2 ^ t)) in *. clearbody q.
  assert (Hq : Z.abs q <= p + 2).
  { assert (Z.abs q * p <= (p + 2) * p); [ | apply Z.mul_le_mono_pos_r in H; lia ].
    rewrite <- (Z.abs_eq p) at 1 by lia. rewrite <- Z.abs_mul. lia. }
  rewrite cast_id; [ apply tol_of_abs; assumption | | ].
  - destruct Hw as [-> | ->]; cbn [bits]; lia.
  - unfold in_range. cbn [sgn bits]. change (2 ^ 53) with 9007199254740992 in HU.
    destruct Hw as [-> | ->].
    + change (2 ^ (32 - 3)) with 536870912 in Hpw. change (2 ^ (32 - 1)) with 2147483648. lia.
    + change (2 ^ (64 - 1)) with 9223372036854775808. lia.
Qed.

Lemma bi_env_pre w p : BI_env w p -> BI_pre w p /\ (w = 32 \/ w = 64) /\ 3 <= p /\ 16 * p <= 2 ^ 53 /\ p <= 2 ^ (w - 3).
Proof.
  unfold BI_pre. change (2 ^ 53) with 9007199254740992.
  intros [[-> Hp] | [-> Hp]].
  - change (2 ^ 29) with 536870912 in Hp. change (2 ^ (32 - 3)) with 536870912. lia.
  - change (2 ^ 49) with 562949953421312 in Hp. change (2 ^ (64 - 3)) with 2305843009213693952. lia.
Qed.

Theorem bi_tolerance w p : BI_tolerance_stmt w p.
Proof.
  intros Henv a x y Ha Hx Hy. destruct (bi_env_pre w p Henv) as (_ & Hw & Hp & HU & Hpw).
  pose proof (bal_abs p a Hp Ha) as Ba. pose proof (bal_abs p x Hp Hx) as Bx. pose proof (bal_abs p y Hp Hy) as By.
  assert (HU' : 16 * p <= 9007199254740992) by exact HU.
  rewrite (rn_lt 53 a), (rn_lt 53 x), (rn_lt 53 y) by (change (2 ^ 53) with 9007199254740992; lia).
  assert (HA : 4 * Z.abs (a * x) <= p * p).
  { rewrite Z.abs_mul. replace (4 * (Z.abs a * Z.abs x)) with ((2 * Z.abs a) * (2 * Z.abs x)) by ring.
    apply Z.mul_le_mono_nonneg; lia. }
  assert (Hpp : 3 * p <= p * p) by nia.
  pose proof (pow2_pos 53 ltac:(lia)) as HU0.
  pose proof (rn_err 53 (a * x) ltac:(lia)) as E1.
  split; [ | split ].
  - apply bi_quot_tol; try assumption; [ lia | ].
    apply (bi_tol (2 ^ 53) p (a * x) 0 (rn 53 (a * x)) (rn 53 (a * x)) (rn 53 (a * x)) (a * x)); try assumption; lia.
  - apply bi_quot_tol; try assumption; [ lia | ].
    apply (bi_tol (2 ^ 53) p (a * x) y (rn 53 (a * x)) (rn 53 (a * x) + y)); try assumption; try lia.
    all: apply rn_err; lia.
  - apply bi_quot_tol; try assumption; [ lia | ].
    apply (bi_tol (2 ^ 53) p (a * x) (- y) (rn 53 (a * x)) (rn 53 (a * x) - y)); try assumption; try lia.
    all: apply rn_err; lia.
Qed.

Theorem bi_mul_full w p : BI_mul_full_stmt w p.
Proof.
  intros Henv a b Ha Hb. destruct (bi_env_pre w p Henv) as (Hpre & _).
  apply (bi_mul_partial w p Hpre a b). exact (proj1 (bi_tolerance w p Henv a b b Ha Hb Hb)).
Qed.

Theorem bi_axpy_full w p : BI_axpy_full_stmt w p.
Proof.
  intros Henv a x y Ha Hx Hy. destruct (bi_env_pre w p Henv) as (Hpre & _).
  apply (bi_axpy_partial w p Hpre a x y). exact (proj1 (proj2 (bi_tolerance w p Henv a x y Ha Hx Hy))).
Qed.

Theorem bi_axmy_full w p : BI_axmy_full_stmt w p.
Proof.
  intros Henv a x y Ha Hx Hy. destruct (bi_env_pre w p Henv) as (Hpre & _).
  apply (bi_axmy_partial w p Hpre a x y). exact (proj2 (proj2 (bi_tolerance w p Henv a x y Ha Hx Hy))).
Qed.

(* the advertised ranges [minCardinality, maxCardinality] of Params.v lie inside the envelope *)
Definition advertised_bi : list (Z * Z * Z) := [(32, min_bi32, max_bi32); (64, min_bi64, max_bi64)].
Lemma advertised_bi_env w mn mx p : In (w, mn, mx) advertised_bi -> mn <= p <= mx -> BI_env w p.
Proof.
  unfold advertised_bi, BI_env. cbn [In].
  change (2 ^ 29) with 536870912. change (2 ^ 49) with 562949953421312.
  intros [H | [H | []]] Hp; injection H as <- <- <-;
    unfold min_bi32, max_bi32, min_bi64, max_bi64 in Hp; lia.
Qed.

Definition BI_adv_stmt : Prop := forall w mn mx p, In (w, mn, mx) advertised_bi -> mn <= p <= mx ->
  forall a x y, bal_canon p a -> bal_canon p x -> bal_canon p y ->
  (bal_canon p (bi_mul w p a x) /\ exists k, bi_mul w p a x = a * x + k * p) /\
  (bal_canon p (bi_axpy w p a x y) /\ exists k, bi_axpy w p a x y = a * x + y + k * p) /\
  (bal_canon p (bi_axmy w p a x y) /\ exists k, bi_axmy w p a x y = a * x - y + k * p).
Theorem bi_adv : BI_adv_stmt.
Proof.
  intros w mn mx p HIn Hp a x y Ha Hx Hy. pose proof (advertised_bi_env w mn mx p HIn Hp) as Henv.
  split; [ exact (bi_mul_full w p Henv a x Ha Hx) | ].
  split; [ exact (bi_axpy_full w p Henv a x y Ha Hx Hy) | exact (bi_axmy_full w p Henv a x y Ha Hx Hy) ].
Qed.

(* hypotheses satisfiable: ModularBalanced<int64_t>(6074000999), the extreme operands *)
Example bi_full_hyps_sat : BI_env 64 6074000999 /\ bal_canon 6074000999 3037000499 /\ bal_canon 6074000999 (- 3037000499).
Proof.
  unfold BI_env, bal_canon. change (2 ^ 49) with 562949953421312.
  change (6074000999 / 2) with 3037000499. split; [ right | ]; lia.
Qed.

Print Assumptions bi_tolerance.
Print Assumptions bi_mul_full.
Print Assumptions bi_axpy_full.
Print Assumptions bi_axmy_full.
Print Assumptions bi_adv.
Print Assumptions bi_full_hyps_sat.
