(* C03 — the remaining operations of ModularBalanced<int32_t|int64_t> (section BI of ModelF.v, BN of ModelDK.v):
   add, sub, reduce, maxpy (with the repaired neg), isUnit (the integer extended_euclid on a possibly NEGATIVE operand),
   and Modular<float|double[,double]>::reduce. *)
From Coq Require Import ZArith Bool Lia List Znumtheory.
From C03 Require Import Model ModelF ModelDK ProofsBase ProofsInt ProofsEuclid ProofsFM ProofsBI ProofsBF ProofsBN ProofsBIQ ProofsBIInv ProofsRnd ProofsFInv.
Local Open Scope Z_scope.
Ltac Zify.zify_post_hook ::= idtac.

(* ------------------------------------------------------------------ NORMALISE on [-p, p] *)
Lemma bi_norm_gen w p x : (w = 32 \/ w = 64) -> 3 <= p <= 2 ^ (w - 3) -> - p <= x <= p ->
  bal_canon p (bi_norm w p x) /\ exists j, x = bi_norm w p x + j * p.
Proof.
  intros Hw Hp Hx. assert (Hd := Z.div_mod p 2 ltac:(lia)). assert (Hm := Z.mod_pos_bound p 2 ltac:(lia)).
  pose proof (bi_ident w p Hw Hp) as I.
  unfold bi_norm, bal_canon. rewrite !shiftr1.
  rewrite (proj2 (I (p / 2) ltac:(lia))), (proj1 (I (p / 2) ltac:(lia))).
  rewrite (proj2 (I (p / 2 - p) ltac:(lia))). rewrite (proj2 (I (p / 2 - p + 1) ltac:(lia))), (proj1 (I (p / 2 - p + 1) ltac:(lia))).
  destruct (Z.ltb_spec x (p / 2 - p + 1)).
  - rewrite (proj2 (I (x + p) ltac:(lia))), (proj1 (I (x + p) ltac:(lia))). split; [ lia | exists (-1); lia ].
  - destruct (Z.ltb_spec (p / 2) x).
    + rewrite (proj2 (I (x - p) ltac:(lia))), (proj1 (I (x - p) ltac:(lia))). split; [ lia | exists 1; lia ].
    + split; [ lia | exists 0; lia ].
Qed.

Lemma bi_norm_rep w p x : (w = 32 \/ w = 64) -> 3 <= p <= 2 ^ (w - 3) -> - p <= x <= p -> bi_norm w p x = bal_rep p x.
Proof.
  intros Hw Hp Hx. destruct (bi_norm_gen w p x Hw Hp Hx) as [Hc Hk]. symmetry. apply bal_rep_unique; [ lia | exact Hc | exact Hk ].
Qed.

(* ------------------------------------------------------------------ 1. add, sub *)
Definition BI_add_sub_stmt : Prop := forall w p, BI_env w p -> forall a b, bal_canon p a -> bal_canon p b ->
  bi_add w p a b = bal_rep p (a + b) /\ bi_sub w p a b = bal_rep p (a - b).

Theorem bi_add_sub_exact : BI_add_sub_stmt.
Proof.
  intros w p Henv a b Ha Hb. destruct (bi_env_w w p Henv) as [Hw Hp]. pose proof (bi_ident w p Hw Hp) as I.
  assert (Hd := Z.div_mod p 2 ltac:(lia)). assert (Hm := Z.mod_pos_bound p 2 ltac:(lia)).
  unfold bal_canon in Ha, Hb. unfold bi_add, bi_sub.
  rewrite (proj2 (I (a + b) ltac:(lia))), (proj1 (I (a + b) ltac:(lia))).
  rewrite (proj2 (I (a - b) ltac:(lia))), (proj1 (I (a - b) ltac:(lia))).
  split; apply bi_norm_rep; try assumption; lia.
Qed.

(* ------------------------------------------------------------------ 2. reduce: x = y % _p; NORMALISE(x) *)
(* any y of the Element type (the model result does not depend on the bound: y % p is in (-p, p) for every integer y) *)
Definition BI_reduce_stmt : Prop := forall w p, BI_env w p -> forall y, - 2 ^ (w - 1) <= y < 2 ^ (w - 1) ->
  bi_reduce w p y = bal_rep p y.

Lemma rem_range y p : 0 < p -> - p < Z.rem y p < p.
Proof.
  intros Hp. destruct (Z_le_gt_dec 0 y).
  - pose proof (Z.rem_bound_pos_pos y p ltac:(lia) ltac:(lia)). lia.
  - replace y with (- - y) by lia. rewrite Z.rem_opp_l'. pose proof (Z.rem_bound_pos_pos (- y) p ltac:(lia) ltac:(lia)). lia.
Qed.

Lemma bi_reduce_all w p : BI_env w p -> forall y, bi_reduce w p y = bal_rep p y.
Proof.
  intros Henv y. destruct (bi_env_w w p Henv) as [Hw Hp]. pose proof (bi_ident w p Hw Hp) as I.
  pose proof (rem_range y p ltac:(lia)) as Hr. pose proof (Z.quot_rem' y p) as Hq.
  unfold bi_reduce. rewrite (proj2 (I (Z.rem y p) ltac:(lia))), (proj1 (I (Z.rem y p) ltac:(lia))).
  destruct (bi_norm_gen w p (Z.rem y p) Hw Hp ltac:(lia)) as [Hc [k Hk]].
  symmetry. apply bal_rep_unique; [ lia | exact Hc | ].
  exists (Z.quot y p + k). rewrite Hq at 1. rewrite Hk at 1. ring.
Qed.

Theorem bi_reduce_exact : BI_reduce_stmt.
Proof. intros w p Henv y _. apply bi_reduce_all; assumption. Qed.

(* ------------------------------------------------------------------ 3. maxpy = neg (repaired) of axmy *)
Definition BI_maxpyn_stmt : Prop := forall w p, BI_env w p -> forall a x y, bal_canon p a -> bal_canon p x -> bal_canon p y ->
  bi_maxpyn w p a x y = bal_rep p (y - a * x).

Theorem bi_maxpyn_exact : BI_maxpyn_stmt.
Proof.
  intros w p Henv a x y Ha Hx Hy. destruct (bi_env_w w p Henv) as [Hw Hp].
  destruct (bi_axmy_full w p Henv a x y Ha Hx Hy) as [Hc [k Hk]].
  unfold bi_maxpyn. rewrite (bi_negn_exact w p Hw Hp _ Hc).
  destruct (bal_rep_spec p (- bi_axmy w p a x y) ltac:(lia)) as [Hcr [j Hj]].
  symmetry. apply bal_rep_unique; [ lia | exact Hcr | ].
  exists (j + k). rewrite Hk in Hj at 1. lia.
Qed.

(* ------------------------------------------------------------------ 5. Modular<float|double[,double]>::reduce *)
(* x = fmod(y, p); if (x < 0) x += p.  y any integer-valued Element (fmod is exact, so no magnitude bound is needed) *)
Definition FM_reduce_stmt : Prop := forall pe pc mx p, fm_cfg pe pc mx -> 2 <= p <= mx ->
  forall y, fm_reduce pe pc p y = y mod p.

Theorem fm_reduce_exact : FM_reduce_stmt.
Proof.
  intros pe pc mx p Hc Hp y. destruct (fm_cfg_env pe pc mx Hc) as (Hpe & HB & Hre & Hrc).
  assert (Epc : rn pe (rn pc p) = p) by (rewrite (Hrc p), (Hre p); lia).
  unfold fm_reduce. rewrite Epc. cbv zeta.
  pose proof (rem_range y p ltac:(lia)) as Hr. pose proof (Z.quot_rem' y p) as Hq.
  destruct (Z.ltb_spec (Z.rem y p) 0).
  - rewrite Hre by lia. apply Z.mod_unique with (Z.quot y p - 1); [ lia | ]. rewrite Hq at 1. ring.
  - apply Z.mod_unique with (Z.quot y p); [ lia | ]. exact Hq.
Qed.

(* ------------------------------------------------------------------ 4. extended_euclid<integer T> on a NEGATIVE operand *)
(* a = -A, 0 < A < b.  C's truncating division makes every quotient the negated quotient of the magnitudes, so the run is the
   unsigned run on (A, b) (invariant Inv of ProofsEuclid.v) with alternating signs:
     d = sg*D, r1 = -sg*R1, u1 = sg*U1, u0 = -sg*U0,  sg = (-1)^iterations.
   Hence no intermediate leaves [-b, b], and the returned d is +gcd or -gcd according to the parity of the iteration count. *)
Section NegEuclid.
Variable T : ity.
Variables A b : Z.
Hypothesis HAb : 0 < A < b.
Hypothesis fitsT : forall z, - b <= z <= b -> cast T z = z /\ ar T z = z.

Lemma nfc z : - b <= z <= b -> cast T z = z. Proof. intro H; apply (fitsT z H). Qed.
Lemma nfa z : - b <= z <= b -> ar T z = z. Proof. intro H; apply (fitsT z H). Qed.

Lemma nstep u0 u1 r1 d U0 U1 R1 D ng sg : (sg = 1 \/ sg = -1) -> Inv A b U0 U1 R1 D ng ->
  u0 = - sg * U0 -> u1 = sg * U1 -> r1 = - sg * R1 -> d = sg * D -> R1 <> 0 ->
  let Q := D / R1 in
  cast T (ar T (Z.quot d r1)) = - Q /\
  cast T (ar T (ar T (- Q * u1) + u0)) = - sg * (Q * U1 + U0) /\
  cast T (ar T (d - ar T (- Q * r1))) = sg * (D - Q * R1) /\
  Inv A b U1 (Q * U1 + U0) (D - Q * R1) R1 (negb ng) /\ 0 <= D - Q * R1 < R1.
Proof.
  intros Hsg HI E0 E1 Er Ed Hnz Q.
  destruct (step_arith A b ltac:(lia) _ _ _ _ _ HI Hnz) as (Eq & Bq & Bqu & Bu & Bqr & Br & HI'). fold Q in Eq, Bq, Bqu, Bu, Bqr, Br, HI'.
  assert (HR : 0 <= D - Q * R1 < R1) by (destruct HI' as (Hr' & _); exact Hr').
  assert (Equot : Z.quot d r1 = - Q).
  { subst d r1. destruct Hsg as [-> | ->].
    - replace (1 * D) with D by ring. replace (- (1) * R1) with (- R1) by ring. rewrite Z.quot_opp_r by lia. lia.
    - replace (-1 * D) with (- D) by ring. replace (- -1 * R1) with R1 by ring. rewrite Z.quot_opp_l by lia. lia. }
  rewrite Equot. rewrite (nfa (- Q)), (nfc (- Q)) by lia.
  assert (Equ : - Q * u1 = - sg * (Q * U1)) by (subst u1; ring).
  assert (Eqr : - Q * r1 = sg * (Q * R1)) by (subst r1; ring).
  rewrite Equ, Eqr.
  assert (B1 : - b <= - sg * (Q * U1) <= b) by (destruct Hsg as [-> | ->]; lia).
  assert (B2 : - b <= sg * (Q * R1) <= b) by (destruct Hsg as [-> | ->]; lia).
  rewrite (nfa _ B1), (nfa _ B2).
  assert (E3 : - sg * (Q * U1) + u0 = - sg * (Q * U1 + U0)) by (subst u0; ring).
  assert (E4 : d - sg * (Q * R1) = sg * (D - Q * R1)) by (subst d; ring).
  rewrite E3, E4.
  assert (B3 : - b <= - sg * (Q * U1 + U0) <= b) by (destruct Hsg as [-> | ->]; lia).
  assert (B4 : - b <= sg * (D - Q * R1) <= b) by (destruct Hsg as [-> | ->]; lia).
  rewrite (nfa _ B3), (nfc _ B3), (nfa _ B4), (nfc _ B4).
  split; [ reflexivity | ]. split; [ reflexivity | ]. split; [ reflexivity | ]. split; [ exact HI' | exact HR ].
Qed.

Lemma nloop_ok fuel : forall u0 u1 r1 d U0 U1 R1 D ng sg x g n, (sg = 1 \/ sg = -1) -> Inv A b U0 U1 R1 D ng ->
  u0 = - sg * U0 -> u1 = sg * U1 -> r1 = - sg * R1 -> d = sg * D ->
  egcd_loop T fuel u0 u1 r1 d ng = Some (x, g, n) -> g = Z.gcd A b \/ g = - Z.gcd A b.
Proof.
  assert (C0 : cast T 0 = 0) by (apply nfc; lia).
  assert (Hexit : forall U0 U1 D ng sg, (sg = 1 \/ sg = -1) -> Inv A b U0 U1 0 D ng -> sg * D = Z.gcd A b \/ sg * D = - Z.gcd A b).
  { intros U0 U1 D ng sg Hsg (Hr & _ & _ & _ & _ & Hg & _). rewrite Z.gcd_0_l, Z.abs_eq in Hg by lia.
    destruct Hsg as [-> | ->]; lia. }
  induction fuel as [ | f IH]; intros u0 u1 r1 d U0 U1 R1 D ng sg x g n Hsg HI E0 E1 Er Ed; cbn [egcd_loop]; rewrite C0.
  - destruct (Z.eqb_spec r1 0) as [Hz | Hnz]; [ | discriminate ].
    intros [= _ <- _]. assert (R1 = 0) by (destruct Hsg as [-> | ->]; lia). subst R1 d. exact (Hexit _ _ _ _ _ Hsg HI).
  - destruct (Z.eqb_spec r1 0) as [Hz | Hnz].
    + intros [= _ <- _]. assert (R1 = 0) by (destruct Hsg as [-> | ->]; lia). subst R1 d. exact (Hexit _ _ _ _ _ Hsg HI).
    + assert (HR : R1 <> 0) by (intros ->; apply Hnz; rewrite Er; ring).
      destruct (nstep _ _ _ _ _ _ _ _ _ _ Hsg HI E0 E1 Er Ed HR) as (Q1 & Q2 & Q3 & HI' & _).
      rewrite Q1, Q2, Q3. intros E.
      apply (IH u1 (- sg * (D / R1 * U1 + U0)) (sg * (D - D / R1 * R1)) r1 U1 (D / R1 * U1 + U0) (D - D / R1 * R1) R1 (negb ng) (- sg) x g n); try assumption.
      all: first [ destruct Hsg as [-> | ->]; [ right | left ]; reflexivity | rewrite ?E1, ?Er; ring ].
Qed.

Lemma nloop_terminates fuel : forall u0 u1 r1 d U0 U1 R1 D ng sg, (sg = 1 \/ sg = -1) -> Inv A b U0 U1 R1 D ng ->
  u0 = - sg * U0 -> u1 = sg * U1 -> r1 = - sg * R1 -> d = sg * D -> (Z.to_nat R1 <= fuel)%nat ->
  egcd_loop T fuel u0 u1 r1 d ng <> None.
Proof.
  assert (C0 : cast T 0 = 0) by (apply nfc; lia).
  induction fuel as [ | f IH]; intros u0 u1 r1 d U0 U1 R1 D ng sg Hsg HI E0 E1 Er Ed Hf; cbn [egcd_loop]; rewrite C0.
  - destruct (Z.eqb_spec r1 0) as [Hz | Hnz]; [ discriminate | ].
    destruct HI as (Hr & _). exfalso. apply Hnz. rewrite Er. replace R1 with 0 by lia. ring.
  - destruct (Z.eqb_spec r1 0) as [Hz | Hnz]; [ discriminate | ].
    assert (HR : R1 <> 0) by (intros ->; apply Hnz; rewrite Er; ring).
    destruct (nstep _ _ _ _ _ _ _ _ _ _ Hsg HI E0 E1 Er Ed HR) as (Q1 & Q2 & Q3 & HI' & Hdec).
    rewrite Q1, Q2, Q3.
    apply (IH u1 (- sg * (D / R1 * U1 + U0)) (sg * (D - D / R1 * R1)) r1 U1 (D / R1 * U1 + U0) (D - D / R1 * R1) R1 (negb ng) (- sg)); try assumption.
    all: first [ destruct Hsg as [-> | ->]; [ right | left ]; reflexivity | rewrite ?E1, ?Er; ring | destruct HI as (Hr & _); lia ].
Qed.

Lemma neg_init : Inv A b 0 1 A b true.
Proof.
  pose proof (Inv_init T A b ltac:(lia) ltac:(intros z Hz; apply fitsT; lia)) as H.
  rewrite (nfc 0), (nfc 1) in H by lia. exact H.
Qed.

(* the d returned for the negative operand -A *)
Theorem neg_euclid_d fuel x g : extended_euclid T fuel (- A) b = Some (x, g) -> g = Z.gcd A b \/ g = - Z.gcd A b.
Proof.
  unfold extended_euclid. rewrite (nfc 0), (nfc 1) by lia.
  destruct (egcd_loop T fuel 0 1 (- A) b true) as [[[u0 d] ng] | ] eqn:E; [ | discriminate ].
  intros [= _ <-].
  apply (nloop_ok fuel 0 1 (- A) b 0 1 A b true 1 u0 d ng); try (ring || assumption); [ left; reflexivity | exact neg_init ].
Qed.

Theorem neg_euclid_terminates : exists fuel, extended_euclid T fuel (- A) b <> None.
Proof.
  exists (Z.to_nat A). unfold extended_euclid. rewrite (nfc 0), (nfc 1) by lia.
  destruct (egcd_loop T (Z.to_nat A) 0 1 (- A) b true) as [[[u0 d] ng] | ] eqn:E; [ discriminate | exfalso ].
  refine (nloop_terminates (Z.to_nat A) 0 1 (- A) b 0 1 A b true 1 _ neg_init _ _ _ _ (le_n _) E); try ring. left; reflexivity.
Qed.
End NegEuclid.

(* what extended_euclid<int32_t|int64_t>(u, d, a, _p) returns in d for a balanced-canonical a *)
Definition BI_euclid_d_stmt : Prop := forall w p, BI_env w p -> forall a, bal_canon p a ->
  (forall fuel x d, extended_euclid (mk_ity w true) fuel a p = Some (x, d) ->
     (0 <= a -> d = Z.gcd a p) /\ (a < 0 -> d = Z.gcd a p \/ d = - Z.gcd a p)) /\
  (exists fuel, extended_euclid (mk_ity w true) fuel a p <> None).
Definition BI_isUnit_stmt : Prop := forall w p, BI_env w p -> forall a, bal_canon p a ->
  (forall fuel u, bi_isUnit w p fuel a = Some u -> (u = true <-> Z.gcd a p = 1)) /\
  (exists fuel, bi_isUnit w p fuel a <> None).

Theorem bi_euclid_d : BI_euclid_d_stmt.
Proof.
  intros w p Henv a Ha. destruct (bi_env_w w p Henv) as [Hw Hp]. pose proof (bi_ident w p Hw Hp) as I.
  assert (Hd := Z.div_mod p 2 ltac:(lia)). assert (Hm := Z.mod_pos_bound p 2 ltac:(lia)). unfold bal_canon in Ha.
  assert (F : forall z, 0 <= z <= p -> cast (mk_ity w true) z = z /\ ar (mk_ity w true) z = z) by (intros z Hz; apply I; lia).
  assert (Fn : forall z, - p <= z <= p -> cast (mk_ity w true) z = z /\ ar (mk_ity w true) z = z) by (intros z Hz; apply I; lia).
  destruct (Z.lt_ge_cases a 0) as [Hneg | Hpos].
  - assert (HA : 0 < - a < p) by lia. replace a with (- - a) by lia. rewrite Z.gcd_opp_l. split.
    + intros fuel x d E. split; [ lia | intros _ ]. exact (neg_euclid_d (mk_ity w true) (- a) p HA Fn fuel x d E).
    + exact (neg_euclid_terminates (mk_ity w true) (- a) p HA Fn).
  - split.
    + intros fuel x d E. split; [ intros _ | lia ].
      destruct (extended_euclid_ok (mk_ity w true) a p ltac:(lia) F fuel x d E) as (_ & -> & _). reflexivity.
    + exact (extended_euclid_terminates (mk_ity w true) a p ltac:(lia) F).
Qed.

Theorem bi_isUnit_exact : BI_isUnit_stmt.
Proof.
  intros w p Henv a Ha. destruct (bi_euclid_d w p Henv a Ha) as [H1 [fuel Hf]]. unfold bi_isUnit. split.
  - intros fl u. destruct (extended_euclid (mk_ity w true) fl a p) as [[x d] | ] eqn:E; [ | discriminate ].
    intros [= <-]. rewrite orb_true_iff, !Z.eqb_eq. pose proof (Z.gcd_nonneg a p) as Hg.
    destruct (H1 fl x d E) as [Hp Hn]. destruct (Z.lt_ge_cases a 0) as [Hneg | Hpos].
    + destruct (Hn Hneg) as [-> | ->]; split; intros; lia.
    + rewrite (Hp Hpos). split; intros; lia.
  - exists fuel. destruct (extended_euclid (mk_ity w true) fuel a p) as [[x d] | ]; [ discriminate | contradiction ].
Qed.

(* d = -1 really occurs, so the isMOne(d) disjunct of isUnit is needed (seeded change C03-m1 dropped it) *)
Example bi_euclid_d_minus_one : BI_env 32 7 /\ bal_canon 7 (- 1) /\ Z.gcd (- 1) 7 = 1 /\
  extended_euclid (mk_ity 32 true) 3 (- 1) 7 = Some (1, - 1) /\ bi_isUnit 32 7 3 (- 1) = Some true.
Proof. split; [ left; split; [ reflexivity | change (2 ^ 29) with 536870912; lia ] | ]. vm_compute. repeat split; congruence. Qed.

(* ------------------------------------------------------------------ 6. the hypotheses are satisfiable *)
Example bi_rest_hyps_sat : BI_env 64 562949953421312 /\ bal_canon 562949953421312 281474976710656 /\
  bal_canon 562949953421312 (- 281474976710655) /\ - 2 ^ (64 - 1) <= - 9223372036854775808 < 2 ^ (64 - 1).
Proof.
  split; [ right; split; [ reflexivity | change (2 ^ 49) with 562949953421312; lia ] | ].
  unfold bal_canon. change (562949953421312 / 2) with 281474976710656. change (2 ^ (64 - 1)) with 9223372036854775808. lia.
Qed.
Example fm_reduce_hyps_sat : fm_cfg 24 53 16777216 /\ 2 <= 16777216 <= 16777216.
Proof. unfold fm_cfg. split; [ tauto | lia ]. Qed.

Print Assumptions bi_add_sub_exact.
Print Assumptions bi_reduce_exact.
Print Assumptions bi_maxpyn_exact.
Print Assumptions fm_reduce_exact.
Print Assumptions bi_euclid_d.
Print Assumptions bi_isUnit_exact.
