(* C03 — ModularBalanced<T>::neg as repaired (frag/C03.fix-1, /repo edb1d16): r = -a; if (r < _mhalfp) r += _p.
   For every modulus up to maxCardinality and every canonical balanced a the result is the canonical balanced representative
   of -a -- including p even, a = p/2, the case the unrepaired `return r = -a` got wrong (C03_balanced_neg_refuted). *)
From Coq Require Import ZArith Bool Lia List.
From C03 Require Import Model ModelF ModelDK ProofsBase ProofsInt ProofsFM ProofsBI ProofsBF.
Local Open Scope Z_scope.
Ltac Zify.zify_post_hook ::= idtac.

Definition BF_negn_stmt (pe mx p : Z) : Prop := bf_cfg pe mx -> 3 <= p <= mx ->
  forall a, bal_canon p a -> bf_negn pe p a = bal_rep p (- a).

Lemma bf_negn_gen pe p B : (forall z, - B <= z <= B -> rn pe z = z) -> floor_dy (div_dy pe p 2) = p / 2 -> 3 <= p -> 2 * p <= B ->
  forall a, bal_canon p a -> bf_negn pe p a = bal_rep p (- a).
Proof.
  intros Hrn Hh Hp HB a Ha. assert (Hd := Z.div_mod p 2 ltac:(lia)). assert (Hm := Z.mod_pos_bound p 2 ltac:(lia)).
  unfold bf_negn, bal_canon in *. rewrite Hh. rewrite (Hrn (p / 2 - p)) by lia. rewrite (Hrn (p / 2 - p + 1)) by lia.
  symmetry. destruct (Z.ltb_spec (- a) (p / 2 - p + 1)).
  - rewrite (Hrn (- a + p)) by lia. apply bal_rep_unique; [ lia | unfold bal_canon; lia | exists (-1); lia ].
  - apply bal_rep_unique; [ lia | unfold bal_canon; lia | exists 0; lia ].
Qed.

Lemma bf_negn_exact pe mx p : BF_negn_stmt pe mx p.
Proof.
  intros Hc Hp. destruct Hc as [Hc | Hc]; injection Hc as -> ->.
  - apply (bf_negn_gen 24 p 16777216 rn24_id); [ apply halfp_ok; [ lia | change (2 ^ 24) with 16777216; lia ] | lia | lia ].
  - apply (bf_negn_gen 53 p 9007199254740992 rn53_id); [ apply halfp_ok; [ lia | change (2 ^ 53) with 9007199254740992; lia ] | lia | lia ].
Qed.

(* ModularBalanced<int32_t|int64_t>: Element arithmetic wraps modulo 2^w; nothing wraps for p <= 2^(w-3) *)
Definition BI_negn_stmt (w p : Z) : Prop := (w = 32 \/ w = 64) -> 3 <= p <= 2 ^ (w - 3) ->
  forall a, bal_canon p a -> bi_negn w p a = bal_rep p (- a).

Ltac strip_mod M := repeat match goal with |- context[?z mod M] =>
  lazymatch z with context[_ mod _] => fail | _ => idtac end; rewrite (Z.mod_small z M) by lia end.

Lemma bi_negn_exact w p : BI_negn_stmt w p.
Proof.
  intros Hw Hp a Ha. assert (Hd := Z.div_mod p 2 ltac:(lia)). assert (Hm := Z.mod_pos_bound p 2 ltac:(lia)).
  unfold bi_negn, bal_canon in *. rewrite !shiftr1. symmetry.
  destruct Hw as [-> | ->].
  - change (2 ^ (32 - 3)) with 536870912 in Hp. autorewrite with ctypes. strip_mod 4294967296.
    match goal with |- context[if ?x <? ?y then _ else _] => destruct (Z.ltb_spec x y) end.
    + strip_mod 4294967296. apply bal_rep_unique; [ lia | unfold bal_canon; lia | exists (-1); lia ].
    + apply bal_rep_unique; [ lia | unfold bal_canon; lia | exists 0; lia ].
  - change (2 ^ (64 - 3)) with 2305843009213693952 in Hp. autorewrite with ctypes. strip_mod 18446744073709551616.
    match goal with |- context[if ?x <? ?y then _ else _] => destruct (Z.ltb_spec x y) end.
    + strip_mod 18446744073709551616. apply bal_rep_unique; [ lia | unfold bal_canon; lia | exists (-1); lia ].
    + apply bal_rep_unique; [ lia | unfold bal_canon; lia | exists 0; lia ].
Qed.

(* the case the unrepaired code got wrong *)
Example bf_negn_even : bf_negn 53 4 2 = 2 /\ bi_negn 32 4 2 = 2 /\ bal_rep 4 (- 2) = 2.
Proof. vm_compute. repeat split. Qed.
