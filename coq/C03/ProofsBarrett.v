(* C03 — the Barrett bound behind mul_precomp_p (modular-mulprecomp.inl). *)
From Coq Require Import ZArith Bool Lia List.
From C03 Require Import Model ProofsBase ProofsInt.
Local Open Scope Z_scope.
Ltac Zify.zify_post_hook ::= idtac.

(* x = a*b, A = 2^(k-2), E = 2^(n+1), N = A*E = 2^(n+k-1), invp = N/p:
   the estimate ((x/A) * (N/p)) / E is the true quotient or one less *)
Lemma barrett_bound x p A E N : 0 < A -> 0 < E -> N = A * E -> 2 * A <= p -> 0 <= x -> 2 * x <= N ->
  x / p - 1 <= ((x / A) * (N / p)) / E <= x / p.
Proof.
  intros HA HE HN HAp Hx HxN. assert (Hp : 0 < p) by lia.
  set (H := x / A). set (I := N / p). set (Q := x / p).
  assert (H1 := Z.div_mod x A ltac:(lia)). assert (H2 := Z.mod_pos_bound x A HA). fold H in H1.
  assert (I1 := Z.div_mod N p ltac:(lia)). assert (I2 := Z.mod_pos_bound N p Hp). fold I in I1.
  assert (Q1 := Z.div_mod x p ltac:(lia)). assert (Q2 := Z.mod_pos_bound x p Hp). fold Q in Q1.
  assert (H0 : 0 <= H) by (apply Z.div_pos; lia). assert (I0 : 0 <= I) by (apply Z.div_pos; lia).
  assert (Q0 : 0 <= Q) by (apply Z.div_pos; lia).
  assert (HI0 : 0 <= H * I) by (apply Z.mul_nonneg_nonneg; lia).
  split.
  - (* (Q-1)*E <= H*I *)
    apply Z.div_le_lower_bound; [ lia | ].
    destruct (Z_le_gt_dec Q 1) as [ | HQ ]; [ nia | ].
    (* Q >= 2: x >= 2p >= 4A, N >= 2x >= p *)
    assert (HxA : A <= x) by nia. assert (HNp : p <= N) by nia.
    assert (L1 : (x - A) * (N - p) < (A * H) * (p * I)).
    { assert (x - A < A * H) by lia. assert (N - p < p * I) by lia.
      assert (0 <= x - A) by lia. assert (0 <= N - p) by lia.
      apply Z.mul_lt_mono_nonneg; lia. }
    assert (L2 : A * p * ((Q - 1) * E) <= (x - A) * (N - p)).
    { assert (E1 : A * p * ((Q - 1) * E) = (p * Q - p) * N) by (rewrite HN; ring).
      rewrite E1. assert (p * Q - p <= x - p) by lia.
      assert ((p * Q - p) * N <= (x - p) * N) by (apply Z.mul_le_mono_nonneg_r; lia).
      assert ((x - p) * N <= (x - A) * (N - p)); [ | lia ].
      (* p*(N-x) >= A*(N-p) *)
      assert (p * (N - x) >= A * (N - p)); [ | nia ].
      assert (2 * (p * (N - x)) >= p * N) by nia.
      assert (2 * (A * (N - p)) <= p * N) by nia. lia. }
    assert (L3 : A * p * ((Q - 1) * E) < A * p * (H * I)) by (replace (A * p * (H * I)) with (A * H * (p * I)) by ring; lia).
    assert (0 < A * p) by (apply Z.mul_pos_pos; lia).
    rewrite Z.mul_comm. apply Z.lt_le_incl. apply (Z.mul_lt_mono_pos_l (A * p)); assumption.
  - (* q <= Q *)
    apply Z.div_le_lower_bound; [ lia | ].
    assert (Hq := Z.div_mod (H * I) E ltac:(lia)). assert (Hq2 := Z.mod_pos_bound (H * I) E HE).
    set (q := H * I / E) in *.
    assert (q0 : 0 <= q) by (apply Z.div_pos; lia).
    (* A*p*(q*E) <= A*H*p*I <= x*N = x*A*E  ->  p*q <= x *)
    assert (M1 : (A * H) * (p * I) <= x * N) by (apply Z.mul_le_mono_nonneg; lia).
    assert (M0 : A * p * (E * q) <= A * p * (H * I)) by (apply Z.mul_le_mono_nonneg_l; [ apply Z.mul_nonneg_nonneg; lia | lia ]).
    assert (M2 : A * p * (E * q) <= x * (A * E)).
    { rewrite <- HN. replace (A * H * (p * I)) with (A * p * (H * I)) in M1 by ring. lia. }
    assert (M3 : (A * E) * (p * q) <= (A * E) * x) by (replace (A * E * (p * q)) with (A * p * (E * q)) by ring; lia).
    assert (0 < A * E) by (apply Z.mul_pos_pos; lia).
    apply (Z.mul_le_mono_pos_l _ _ (A * E)); assumption.
Qed.

Lemma pow_split h bs : 2 <= bs -> 0 <= h -> 2 ^ (h + bs - 1) = 2 ^ (bs - 2) * 2 ^ (h + 1).
Proof. intros. rewrite <- Z.pow_add_r by lia. f_equal; lia. Qed.

(* everything the machine-level proof needs to know about the quantities of mul_precomp_p; h = half the width of Compute_t,
   bs = bitsize(p) <= h - 2 (the asserted precondition of precomp_p) *)
Lemma barrett_facts h bs p a b : 4 <= h -> 2 <= bs <= h - 2 -> 2 ^ (bs - 1) <= p < 2 ^ bs -> 0 <= a < p -> 0 <= b < p ->
  let x := a * b in let Hh := x / 2 ^ (bs - 2) in let I := 2 ^ (h + bs - 1) / p in let q := Hh * I / 2 ^ (h + 1) in
  4 * p < 2 ^ h /\ 0 <= x < 2 ^ h * 2 ^ h /\ 0 <= Hh < 2 ^ h /\ 0 <= I <= 2 ^ h /\ 0 <= Hh * I < 2 ^ h * 2 ^ h /\
  0 <= q /\ 0 <= q * p <= x /\ x - q * p < 2 * p /\
  x mod p = (if p <=? x - q * p then x - q * p - p else x - q * p).
Proof.
  intros Hh4 Hbs Hp Ha Hb. cbv zeta.
  set (A := 2 ^ (bs - 2)) in *.
  assert (HA : 0 < A) by (apply Z.pow_pos_nonneg; lia).
  assert (E1 : 2 ^ (bs - 1) = 2 * A) by (unfold A; replace (bs - 1) with (Z.succ (bs - 2)) by lia; rewrite Z.pow_succ_r by lia; reflexivity).
  assert (E2 : 2 ^ bs = 4 * A) by (unfold A; replace bs with (2 + (bs - 2)) at 1 by lia; rewrite Z.pow_add_r by lia; reflexivity).
  rewrite E1, E2 in Hp.
  assert (HA4 : A * 16 <= 2 ^ h).
  { unfold A. change 16 with (2 ^ 4). rewrite <- Z.pow_add_r by lia. apply Z.pow_le_mono_r; lia. }
  assert (EN : 2 ^ (h + bs - 1) = A * 2 ^ (h + 1)) by (apply pow_split; lia).
  assert (E3 : 2 ^ (h + 1) = 2 * 2 ^ h) by (replace (h + 1) with (Z.succ h) by lia; rewrite Z.pow_succ_r by lia; reflexivity).
  set (T := 2 ^ h) in *.
  set (x := a * b) in *.
  assert (Hx0 : 0 <= x) by (unfold x; apply Z.mul_nonneg_nonneg; lia).
  assert (Hx1 : x < p * p) by (unfold x; apply Z.mul_lt_mono_nonneg; lia).
  assert (Hpp : p * p < 16 * A * A) by nia.
  set (N := 2 ^ (h + bs - 1)) in *. set (E := 2 ^ (h + 1)) in *.
  assert (HE : 0 < E) by lia.
  assert (HN2 : 2 * x <= N) by (rewrite EN, E3; nia).
  assert (HB := barrett_bound x p A E N HA HE EN ltac:(lia) Hx0 HN2).
  set (H := x / A) in *. set (I := N / p) in *.
  assert (HH : 0 <= H < 16 * A) by (unfold H; split; [ apply Z.div_pos; lia | apply Z.div_lt_upper_bound; lia ]).
  assert (HI : 0 <= I <= T).
  { unfold I; split; [ apply Z.div_pos; lia | ]. apply Z.div_le_upper_bound; [ lia | ]. rewrite EN, E3. nia. }
  assert (HHI0 : 0 <= H * I) by (apply Z.mul_nonneg_nonneg; lia).
  assert (HHI1 : H * I < T * T).
  { assert (H * I <= H * T) by (apply Z.mul_le_mono_nonneg_l; lia). assert (H * T < T * T) by (apply Z.mul_lt_mono_pos_r; lia). lia. }
  set (q := H * I / E) in *.
  assert (Hq0 : 0 <= q) by (unfold q; apply Z.div_pos; lia).
  assert (HQ := Z.div_mod x p ltac:(lia)). assert (HQ2 := Z.mod_pos_bound x p ltac:(lia)).
  set (Q := x / p) in *. set (r := x mod p) in *.
  assert (Hcase : q = Q \/ q = Q - 1) by lia.
  assert (Hxt : x < T * T).
  { assert (16 * A * A <= T * A) by (replace (16 * A * A) with (A * 16 * A) by ring; apply Z.mul_le_mono_nonneg_r; lia).
    assert (T * A <= T * T) by (apply Z.mul_le_mono_nonneg_l; lia). lia. }
  assert (Hqp1 : q * p <= Q * p) by (apply Z.mul_le_mono_nonneg_r; lia).
  assert (Hqp2 : (Q - 1) * p <= q * p) by (apply Z.mul_le_mono_nonneg_r; lia).
  assert (Hqp3 : (Q - 1) * p = Q * p - p) by ring.
  assert (Hqp4 : 0 <= q * p) by (apply Z.mul_nonneg_nonneg; lia).
  repeat split; try lia.
  destruct Hcase as [-> | ->].
  - replace (x - Q * p) with r by lia. destruct (Z.leb_spec p r); lia.
  - replace (x - (Q - 1) * p) with (r + p) by lia. destruct (Z.leb_spec p (r + p)); lia.
Qed.
