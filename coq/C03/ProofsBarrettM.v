(* C03 — mul_precomp_p of the model (all C conversions explicit) equals the exact residue under the documented
   precondition bitsize(p) <= 4*sizeof(Compute_t) - 2: the Barrett quotient estimate is the true quotient or one less
   (ProofsBarrett.barrett_bound), hence the single conditional subtraction suffices; no conversion truncates except the
   intended ones on the low half. *)
From Coq Require Import ZArith Bool Lia List.
From C03 Require Import Model ProofsBase ProofsInt ProofsBarrett.
Import ListNotations.
Local Open Scope Z_scope.
Ltac Zify.zify_post_hook ::= Z.to_euclidean_division_equations.

Ltac halves := change (8 / 2) with 4 in *; change (16 / 2) with 8 in *; change (32 / 2) with 16 in *;
  change (64 / 2) with 32 in *; change (128 / 2) with 64 in *.
Ltac closed_pows :=
  repeat match goal with
  | H : context[2 ^ (Zpos ?a + Zpos ?b)] |- _ => let v := eval vm_compute in (2 ^ (Zpos a + Zpos b)) in change (2 ^ (Zpos a + Zpos b)) with v in H
  | |- context[2 ^ (Zpos ?a + Zpos ?b)] => let v := eval vm_compute in (2 ^ (Zpos a + Zpos b)) in change (2 ^ (Zpos a + Zpos b)) with v
  | H : context[2 ^ (Zpos ?a)] |- _ => let v := eval vm_compute in (2 ^ (Zpos a)) in change (2 ^ (Zpos a)) with v in H
  end.
Ltac cfg_only Hc :=
  unfold cfg_ok, cfgs in Hc; cbn [In] in Hc;
  repeat (destruct Hc as [Hc | Hc]; [ injection Hc as <- <- | ]); try contradiction.
Ltac clean_vars :=
  repeat match goal with |- context[?v mod ?m] => is_lit m; is_var v; rewrite (Z.mod_small v m) by lia end.

Definition Mulpp_stmt (sb : Z) (sg : bool) (cb p : Z) : Prop :=
  cfg_ok sb cb -> forall bs a b, 2 <= bs <= cb / 2 - 2 -> 2 ^ (bs - 1) <= p < 2 ^ bs -> canon p a -> canon p b ->
  mul_precomp_p (mk_modular sb sg cb p) a b (2 ^ (cb / 2 + bs - 1) / p) bs = (a * b) mod p.

