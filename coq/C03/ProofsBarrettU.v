(* C03 — mul_precomp_p exact, unsigned storage types (see ProofsBarrettM.v) *)
From Coq Require Import ZArith Bool Lia List.
From C03 Require Import Model ProofsBase ProofsInt ProofsBarrett ProofsBarrettM.
Import ListNotations.
Local Open Scope Z_scope.
Ltac Zify.zify_post_hook ::= Z.to_euclidean_division_equations.

Lemma mulpp_exact_unsigned sb cb p : Mulpp_stmt sb false cb p.
Proof.
  intros Hc bs a b Hbs Hp Ha Hb. unfold canon in *.
  cfg_only Hc.
  all: halves.
  all: match type of Hbs with _ /\ _ <= ?h - 2 => pose proof (barrett_facts h bs p a b ltac:(lia) Hbs Hp Ha Hb) as F end.
  all: cbv zeta in F; destruct F as (F1 & F2 & F3 & F4 & F5 & F6 & F7 & F8 & F9).
  all: rewrite F9; clear F9.
  all: unfold mul_precomp_p; open_model; halves; rewrite !Z.shiftr_div_pow2 by lia; closed_pows.
  all: clean_vars.
  all: set (x := a * b) in *; strip.
  all: try reflexivity; try lia.
  all: match type of F7 with _ <= ?Y <= _ => set (y := Y) in * end; clearbody y x; clear F3 F4 F5 F6.
  all: split_all; lia.
Qed.
