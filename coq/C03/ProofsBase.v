(* C03 — arithmetic of the C integer types of Model.v: when a conversion is the identity, what it does otherwise. *)
From Coq Require Import ZArith Bool Lia List.
From C03 Require Import Model.
Import ListNotations.
Local Open Scope Z_scope.

Ltac Zify.zify_post_hook ::= Z.to_euclidean_division_equations.

(* literal powers of two that occur once the widths are concrete *)
Ltac pow_lits :=
  change (2 ^ 4) with 16 in *; change (2 ^ 7) with 128 in *; change (2 ^ 8) with 256 in *;
  change (2 ^ 15) with 32768 in *; change (2 ^ 16) with 65536 in *;
  change (2 ^ 31) with 2147483648 in *; change (2 ^ 32) with 4294967296 in *;
  change (2 ^ 63) with 9223372036854775808 in *; change (2 ^ 64) with 18446744073709551616 in *;
  change (2 ^ 127) with 170141183460469231731687303715884105728 in *;
  change (2 ^ 128) with 340282366920938463463374607431768211456 in *.

Definition in_range (t : ity) (z : Z) : Prop :=
  if sgn t then - 2 ^ (bits t - 1) <= z < 2 ^ (bits t - 1) else 0 <= z < 2 ^ bits t.

Lemma wrap_u_id n z : 0 <= z < 2 ^ n -> wrap_u n z = z.
Proof. intros; unfold wrap_u; apply Z.mod_small; assumption. Qed.

Lemma wrap_s_id n z : 1 <= n -> - 2 ^ (n - 1) <= z < 2 ^ (n - 1) -> wrap_s n z = z.
Proof.
  intros Hn H; unfold wrap_s.
  assert (E : 2 ^ n = 2 * 2 ^ (n - 1)) by (rewrite <- Z.pow_succ_r by lia; f_equal; lia).
  rewrite E, Z.mod_small; lia.
Qed.

Lemma cast_id t z : 1 <= bits t -> in_range t z -> cast t z = z.
Proof.
  unfold in_range, cast; destruct (sgn t); intros.
  - apply wrap_s_id; assumption.
  - apply wrap_u_id; assumption.
Qed.

(* what a conversion to an unsigned type does in general *)
Lemma wrap_u_spec n z : 0 <= n -> 0 <= wrap_u n z < 2 ^ n /\ exists k, wrap_u n z = z + k * 2 ^ n.
Proof.
  intros; unfold wrap_u; assert (0 < 2 ^ n) by (apply Z.pow_pos_nonneg; lia). split.
  - apply Z.mod_pos_bound; lia.
  - exists (- (z / 2 ^ n)). rewrite Z.mod_eq by lia. lia.
Qed.

Lemma rem_mod_nonneg x p : 0 <= x -> 0 < p -> Z.rem x p = x mod p.
Proof. intros; apply Z.rem_mod_nonneg; lia. Qed.

Lemma mul_lt_sq a b p : 0 <= a < p -> 0 <= b < p -> 0 <= a * b <= (p - 1) * (p - 1).
Proof. intros; split; [apply Z.mul_nonneg_nonneg; lia | apply Z.mul_le_mono_nonneg; lia]. Qed.

Lemma sq_le_mono p m : 0 <= p <= m -> p * p <= m * m.
Proof. intros; apply Z.mul_le_mono_nonneg; lia. Qed.

Lemma pm1_sq_le p m : 1 <= p <= m -> (p - 1) * (p - 1) <= (m - 1) * (m - 1).
Proof. intros; apply Z.mul_le_mono_nonneg; lia. Qed.

(* specification side: residues of small sums and differences as case splits *)
Lemma mod_add_small a b p : 0 <= a < p -> 0 <= b < p -> (a + b) mod p = if a + b <? p then a + b else a + b - p.
Proof.
  intros. destruct (Z.ltb_spec (a + b) p).
  - apply Z.mod_small; lia.
  - symmetry; apply Z.mod_unique with 1; lia.
Qed.

Lemma mod_sub_small a b p : 0 <= a < p -> 0 <= b < p -> (a - b) mod p = if a <? b then a - b + p else a - b.
Proof.
  intros. destruct (Z.ltb_spec a b).
  - symmetry; apply Z.mod_unique with (-1); lia.
  - apply Z.mod_small; lia.
Qed.

Lemma mod_neg_small a p : 0 <= a < p -> (- a) mod p = if a =? 0 then 0 else p - a.
Proof.
  intros. destruct (Z.eqb_spec a 0).
  - subst; apply Z.mod_0_l; lia.
  - symmetry; apply Z.mod_unique with (-1); lia.
Qed.

Lemma mod_opp_of_mod x p : 0 < p -> (- x) mod p = if x mod p =? 0 then 0 else p - x mod p.
Proof.
  intros. destruct (Z.eqb_spec (x mod p) 0) as [E | E].
  - apply Z.mod_opp_l_z; lia.
  - apply Z.mod_opp_l_nz; lia.
Qed.
