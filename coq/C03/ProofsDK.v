(* C03 — ModularExtended<float|double>::mul, the `#elif defined __SSE_MATH__` (Veltkamp/Dekker) branch, as modelled in
   ModelDK.v: for every modulus 2 <= p <= maxCardinality and canonical operands, dk_mul = (a*b) mod p;
   and both corrections of the final fix-up are needed (each has a witness where dropping it gives a wrong result). *)
From Coq Require Import ZArith Bool Lia List.
From C03 Require Import Model ModelF ModelDK ProofsBase ProofsInt ProofsFM ProofsEX ProofsDKR ProofsDKQ ProofsDKS.
Local Open Scope Z_scope.
Ltac Zify.zify_post_hook ::= idtac.

Definition DK_mul_stmt (pe mx p : Z) : Prop := ex_cfg pe mx -> 2 <= p <= mx ->
  forall a b, canon p a -> canon p b -> dk_mul pe p a b = (a * b) mod p.

Lemma ex_cfg_dk pe mx : ex_cfg pe mx -> exists s, dk_cfg pe s /\ mx < 2 ^ (pe - 3).
Proof.
  intros [Hc | Hc]; injection Hc as -> ->; [ exists 13 | exists 27 ]; (split; [ unfold dk_cfg; lia | lia ]).
Qed.

(* both mult_dekker calls of dk_mul_raw are error-free *)
Lemma dk_mul_products_ok pe mx p : ex_cfg pe mx -> 2 <= p <= mx -> forall a b, canon p a -> canon p b ->
  DK_mult_ok pe a b /\ DK_mult_ok pe (- dk_q pe p a b) p.
Proof.
  intros Hc Hp a b Ha Hb. destruct (ex_cfg_dk pe mx Hc) as (s & Hs & Hmx). destruct (ex_cfg_pow pe mx Hc) as [Hpe EB].
  unfold canon in *. unfold DK_mult_ok. split.
  - apply (dk_mult_exact pe s); [ exact Hs | lia | lia ].
  - pose proof (dk_quot pe p (a * b) Hpe ltac:(lia) ltac:(lia) (mul_lt_sq a b p Ha Hb)) as [Hq _].
    fold (dk_q pe p a b) in Hq. apply (dk_mult_exact pe s); [ exact Hs | lia | lia ].
Qed.

Theorem dk_mul_exact pe mx p : DK_mul_stmt pe mx p.
Proof.
  intros Hc Hp a b Ha Hb. destruct (dk_mul_products_ok pe mx p Hc Hp a b Ha Hb) as [H1 H2].
  exact (dk_tail_exact pe mx p Hc Hp a b Ha Hb H1 H2).
Qed.

(* consequences for the compound operations of the branch (modular-extended.h: mul followed by add/sub) *)
Definition DK_axpy_stmt (pe mx p : Z) : Prop := ex_cfg pe mx -> 2 <= p <= mx ->
  forall a x y, canon p a -> canon p x -> canon p y ->
  dk_axpy pe p a x y = (a * x + y) mod p /\ dk_axmy pe p a x y = (a * x - y) mod p /\ dk_maxpy pe p a x y = (y - a * x) mod p.

Theorem dk_axpy_exact pe mx p : DK_axpy_stmt pe mx p.
Proof.
  intros Hc Hp a x y Ha Hx Hy. assert (Hp0 : 0 < p) by lia.
  assert (Hm : canon p ((a * x) mod p)) by (apply Z.mod_pos_bound; lia).
  unfold dk_axpy, dk_axmy, dk_maxpy. rewrite (dk_mul_exact pe mx p Hc Hp a x Ha Hx).
  destruct (ex_lin_exact pe mx p Hc Hp ((a * x) mod p) y Hm Hy) as (E1 & E2 & _).
  destruct (ex_lin_exact pe mx p Hc Hp y ((a * x) mod p) Hy Hm) as (_ & E3 & _).
  rewrite E1, E2, E3. repeat split.
  - rewrite Zplus_mod_idemp_l. reflexivity.
  - rewrite Zminus_mod_idemp_l. reflexivity.
  - rewrite Zminus_mod_idemp_r. reflexivity.
Qed.

(* ------------------------------------------------------------------ L5: reduce (same branch) on nonnegative integers
   below 2^pe whose quotient by p stays below 2^(pe-3) (for p >= 8 this is every integer 0 <= a < 2^pe) *)
Definition DK_reduce_stmt (pe mx p : Z) : Prop := ex_cfg pe mx -> 2 <= p <= mx ->
  forall a, 0 <= a < 2 ^ pe -> a <= (2 ^ (pe - 3) - 1) * p -> dk_reduce pe p a = a mod p.

Theorem dk_reduce_exact pe mx p : DK_reduce_stmt pe mx p.
Proof.
  intros Hc Hp a Ha Hap. destruct (ex_cfg_dk pe mx Hc) as (s & Hs & Hmx). destruct (ex_cfg_pow pe mx Hc) as [Hpe EB].
  assert (EN : 2 ^ pe = 8 * 2 ^ (pe - 3)).
  { replace pe with (3 + (pe - 3)) at 1 by lia. rewrite pow2_split by lia. reflexivity. }
  pose proof (pow2_pos (pe - 3) ltac:(lia)) as HN. set (N := 2 ^ (pe - 3)) in *.
  assert (Hg : 8 * a < 2 ^ pe * p) by (rewrite EN; lia).
  pose proof (dk_quot_gen pe p a Hpe ltac:(lia) ltac:(lia) Hg) as Hq. cbv zeta in Hq.
  rewrite (rn_lt pe a) in Hq by lia.
  unfold dk_reduce. set (q := floor_dy (mul_dy pe a (div_dy pe 1 (rn pe p)))) in *. destruct Hq as [Hq0 Hqr].
  assert (Hqp : 0 <= q * p) by (apply Z.mul_nonneg_nonneg; lia).
  assert (HqN : q < N).
  { destruct (Z_lt_le_dec q N) as [ | Hge ]; [ assumption | ].
    assert (N * p <= q * p) by (apply Z.mul_le_mono_nonneg_r; lia). lia. }
  destruct (dk_mult_exact pe s (- q) p Hs ltac:(fold N; lia) ltac:(fold N; lia)) as [Ef Es].
  destruct (dk_mult pe (- q) p) as [pqh pql]. cbn [fst snd] in *.
  pose proof (rn_err pe (- q * p) ltac:(lia)) as E2. rewrite <- Ef in E2. rewrite (Z.abs_neq (- q * p)) in E2 by lia.
  assert (L2 : 8 * Z.abs (pqh - - q * p) < p).
  { set (d := Z.abs (pqh - - q * p)) in *. destruct (Z_lt_le_dec (8 * d) p) as [ | Hge ]; [ assumption | ].
    assert (2 ^ pe * p <= 2 ^ pe * (8 * d)) by (apply Z.mul_le_mono_nonneg_l; lia).
    assert (q * p < N * p) by (apply Z.mul_lt_mono_pos_r; lia). rewrite EN in *. lia. }
  assert (Epql : pql = - q * p - pqh) by lia.
  rewrite (rn_lt pe (a + pqh)) by lia.
  rewrite (rn_lt pe (a + pqh + pql)) by lia.
  apply ex_fix_mod; try lia. exists (- q). lia.
Qed.

(* ------------------------------------------------------------------ L4: both corrections are needed *)
Lemma dk_mul_needs_neg_fix : exists p a b, 2 <= p <= 1125899906842623 /\ canon p a /\ canon p b /\
  dk_mul_no_neg_fix 53 p a b <> (a * b) mod p.
Proof.
  exists 1125899906842597, 617310115345394, 590673388087151. unfold canon.
  split; [ lia | ]. split; [ lia | ]. split; [ lia | ]. intro H. vm_compute in H. discriminate H.
Qed.

Lemma dk_mul_needs_hi_fix : exists p a b, 2 <= p <= 1125899906842623 /\ canon p a /\ canon p b /\
  dk_mul_no_hi_fix 53 p a b <> (a * b) mod p.
Proof.
  exists 983931992416437, 963198831261012, 284954679771543. unfold canon.
  split; [ lia | ]. split; [ lia | ]. split; [ lia | ]. intro H. vm_compute in H. discriminate H.
Qed.

Lemma dk_mul_needs_neg_fix_float : exists p a b, 2 <= p <= 2097151 /\ canon p a /\ canon p b /\
  dk_mul_no_neg_fix 24 p a b <> (a * b) mod p.
Proof.
  exists 2096592, 1330203, 1510602. unfold canon.
  split; [ lia | ]. split; [ lia | ]. split; [ lia | ]. intro H. vm_compute in H. discriminate H.
Qed.

Lemma dk_mul_needs_hi_fix_float : exists p a b, 2 <= p <= 2097151 /\ canon p a /\ canon p b /\
  dk_mul_no_hi_fix 24 p a b <> (a * b) mod p.
Proof.
  exists 2096698, 1096866, 1561147. unfold canon.
  split; [ lia | ]. split; [ lia | ]. split; [ lia | ]. intro H. vm_compute in H. discriminate H.
Qed.

(* the raw result really leaves [0,p) on both sides *)
Example dk_mul_raw_negative : dk_mul_raw 53 1125899906842597 617310115345394 590673388087151 = - 10557406229982.
Proof. vm_compute. reflexivity. Qed.
Example dk_mul_raw_high : dk_mul_raw 53 983931992416437 963198831261012 284954679771543 = 984440338225482.
Proof. vm_compute. reflexivity. Qed.

(* the hypotheses are satisfiable (both formats, largest modulus) *)
Example DK_hyps_sat_double : ex_cfg 53 1125899906842623 /\ 2 <= 1125899906842597 <= 1125899906842623 /\
  canon 1125899906842597 617310115345394 /\ canon 1125899906842597 590673388087151 /\
  dk_mul 53 1125899906842597 617310115345394 590673388087151 = 1115342500612615.
Proof. unfold ex_cfg, canon. repeat split; try lia; try (right; reflexivity). Qed.
Example DK_hyps_sat_float : ex_cfg 24 2097151 /\ 2 <= 2097143 <= 2097151 /\ canon 2097143 2097142 /\ canon 2097143 1048571 /\
  dk_mul 24 2097143 2097142 1048571 = 1048572.
Proof. unfold ex_cfg, canon. repeat split; try lia; try (left; reflexivity). Qed.

Example DK_reduce_hyps_sat : ex_cfg 53 1125899906842623 /\ 2 <= 1125899906842597 <= 1125899906842623 /\
  0 <= 9007199254740991 < 2 ^ 53 /\ 9007199254740991 <= (2 ^ (53 - 3) - 1) * 1125899906842597 /\
  dk_reduce 53 1125899906842597 9007199254740991 = 9007199254740991 mod 1125899906842597.
Proof. unfold ex_cfg. repeat split; try lia; try (right; reflexivity). Qed.
