(* C03 — ModularExtended<float|double>::mul, `#elif defined __SSE_MATH__` branch (ModelDK.v, dk_mul):
   the quotient estimate q = floor(fl(fl(a*b) * fl(1/p))) is within 1 of a*b/p for every p <= maxCardinality
   (three relative errors of 2^-pe against three spare bits), so a*b - q*p lies in (-p, 2p) and ONE correction suffices;
   and, given that both mult_dekker calls are error-free, every remaining rounding of dk_mul_raw is the identity. *)
From Coq Require Import ZArith Bool Lia List.
From C03 Require Import Model ModelF ModelDK ProofsBase ProofsInt ProofsFM ProofsEX ProofsDKR.
Local Open Scope Z_scope.
Ltac Zify.zify_post_hook ::= idtac.

(* ------------------------------------------------------------------ 1/p and the estimate as integers *)
Lemma div_dy_1 pe p : 0 < pe -> 0 < p ->
  let k := pe + 1 + bitlen p in
  div_dy pe 1 p = rnd_dy pe (2 * (2 ^ k / p) + (if 2 ^ k mod p =? 0 then 0 else 1)) (- k - 1).
Proof.
  intros Hpe Hp k. unfold div_dy. change (1 =? 0) with false. cbv iota.
  change (Z.sgn 1) with 1. rewrite (Z.sgn_pos p) by lia. change (bitlen 1) with 1. change (Z.abs 1) with 1.
  rewrite (Z.abs_eq p) by lia. destruct (bitlen_spec p ltac:(lia)) as [Hb _].
  rewrite Z.max_r by lia. replace (pe + 2 + bitlen p - 1) with k by (unfold k; lia).
  rewrite !Z.mul_1_l. reflexivity.
Qed.

(* q = floor( rn(H * rn(X)) / 2^(k+1) ), X = the sticky quotient 2^(k+1)/p *)
Lemma dk_q_eq pe p H : 0 < pe -> 0 < p ->
  let k := pe + 1 + bitlen p in
  let X := 2 * (2 ^ k / p) + (if 2 ^ k mod p =? 0 then 0 else 1) in
  floor_dy (mul_dy pe H (div_dy pe 1 p)) = rn pe (H * rn pe X) / 2 ^ (k + 1).
Proof.
  intros Hpe Hp k X. rewrite div_dy_1 by assumption. fold k. fold X.
  destruct (rnd_dy_rn pe X (- k - 1) Hpe) as (si & Mi & Hsi & E1 & EM). rewrite E1.
  unfold mul_dy. destruct (rnd_dy_rn pe (H * Mi) (- k - 1 + si) Hpe) as (s2 & m2 & Hs2 & E2 & Em2). rewrite E2.
  assert (Hk : 0 <= k) by (unfold k; destruct (bitlen_spec p ltac:(lia)); lia).
  rewrite (floor_dy_scaled m2 (- k - 1 + si + s2) (k + 1)) by lia.
  f_equal. replace (- k - 1 + si + s2 + (k + 1)) with (s2 + si) by lia.
  rewrite pow2_split by lia. rewrite Z.mul_assoc, Em2. rewrite <- EM.
  rewrite (Z.mul_comm (rn pe (H * Mi))). rewrite <- rn_scale by lia. f_equal. ring.
Qed.

(* ------------------------------------------------------------------ the error analysis, on integers *)
Lemma abs_tri3 a b c : Z.abs (a + b + c) <= Z.abs a + Z.abs b + Z.abs c.
Proof. lia. Qed.

Lemma floor_from_est Y W p ab : 0 < W -> 0 < p -> 0 <= Y -> 0 <= ab ->
  - (p * W) < Y * p - ab * W < p * W -> 0 <= Y / W /\ - p < ab - Y / W * p < 2 * p.
Proof.
  intros HWpos Hp HY Hab HA.
  pose proof (Z.div_mod Y W ltac:(lia)) as Edm. pose proof (Z.mod_pos_bound Y W HWpos) as Hr.
  assert (Hq0 : 0 <= Y / W) by (apply Z.div_pos; lia).
  set (q := Y / W) in *. set (r := Y mod W) in *.
  assert (Hrp : 0 <= r * p < W * p) by (split; [ apply Z.mul_nonneg_nonneg; lia | apply Z.mul_lt_mono_pos_r; lia ]).
  assert (EYp : Y * p = W * (q * p) + r * p) by (rewrite Edm at 1; ring).
  assert (Hup : q * p < ab + p).
  { destruct (Z_lt_le_dec (q * p) (ab + p)) as [ | Hge ]; [ assumption | ].
    assert (W * (ab + p) <= W * (q * p)) by (apply Z.mul_le_mono_nonneg_l; lia). lia. }
  assert (Hlo : ab - 2 * p < q * p).
  { destruct (Z_lt_le_dec (ab - 2 * p) (q * p)) as [ | Hge ]; [ assumption | ].
    assert (W * (q * p) <= W * (ab - 2 * p)) by (apply Z.mul_le_mono_nonneg_l; lia). lia. }
  lia.
Qed.

Lemma quot_arith B p L W ab H Q R X MI Y :
  16 <= B -> 2 <= p -> 8 * ab < B * p -> p < L -> W = 4 * B * L ->
  0 <= ab -> 0 <= H -> B * Z.abs (H - ab) <= ab ->
  0 <= Q -> 2 * (Q * p + R) = W -> 0 <= R < p -> X = 2 * Q + (if R =? 0 then 0 else 1) ->
  0 <= MI -> B * Z.abs (MI - X) <= X -> 0 <= Y -> B * Z.abs (Y - H * MI) <= H * MI ->
  0 <= Y / W /\ - p < ab - Y / W * p < 2 * p.
Proof.
  intros HB Hp Hg HL EW Hab HH EH HQ EQ HR EX HMI EMI HY EY.
  assert (HBL : B * p < B * L) by (apply Z.mul_lt_mono_pos_l; lia).
  assert (HW : 4 * (B * p) < W) by lia.
  assert (HpBp : p <= B * p) by nia.
  assert (Ha : Z.abs (X * p - W) <= p) by (destruct (Z.eqb_spec R 0); subst X; lia).
  assert (HX0 : 0 <= X) by (destruct (R =? 0); lia).
  assert (HXp : 0 <= X * p) by (apply Z.mul_nonneg_nonneg; lia).
  (* 1/p *)
  assert (Hc : B * Z.abs (MI * p - X * p) <= X * p).
  { replace (MI * p - X * p) with ((MI - X) * p) by ring. rewrite Z.abs_mul, (Z.abs_eq p) by lia.
    rewrite Z.mul_assoc. apply Z.mul_le_mono_nonneg_r; lia. }
  assert (Hc' : 2 * (B * Z.abs (MI * p - W)) <= 3 * W).
  { assert (Htri : Z.abs (MI * p - W) <= Z.abs (MI * p - X * p) + Z.abs (X * p - W)) by lia.
    set (d1 := Z.abs (MI * p - X * p)) in *. set (d2 := Z.abs (X * p - W)) in *. set (d3 := Z.abs (MI * p - W)) in *.
    assert (B * d3 <= B * (d1 + d2)) by (apply Z.mul_le_mono_nonneg_l; lia).
    assert (B * d2 <= B * p) by (apply Z.mul_le_mono_nonneg_l; lia). lia. }
  assert (Hd3 : Z.abs (MI * p - W) <= W).
  { set (d3 := Z.abs (MI * p - W)) in *. assert (0 <= d3) by (unfold d3; lia).
    destruct (Z_lt_le_dec W d3) as [Hlt | ]; [ | lia ].
    assert (B * W < B * d3) by (apply Z.mul_lt_mono_pos_l; lia).
    assert (16 * W <= B * W) by (apply Z.mul_le_mono_nonneg_r; lia). lia. }
  assert (Hd : 0 <= MI * p <= 2 * W) by (split; [ apply Z.mul_nonneg_nonneg; lia | lia ]).
  (* a*b *)
  assert (He : H <= 2 * ab).
  { set (d := Z.abs (H - ab)) in *. assert (0 <= d) by (unfold d; lia).
    assert (1 * d <= B * d) by (apply Z.mul_le_mono_nonneg_r; lia). unfold d in *. lia. }
  assert (HabW : 0 <= ab * W) by (apply Z.mul_nonneg_nonneg; lia).
  set (d3 := Z.abs (MI * p - W)) in *. set (d4 := Z.abs (Y - H * MI)) in *. set (d5 := Z.abs (H - ab)) in *.
  assert (H3 : 0 <= d3) by (unfold d3; lia). assert (H4 : 0 <= d4) by (unfold d4; lia).
  assert (H5 : 0 <= d5) by (unfold d5; lia).
  assert (T1 : B * (d4 * p) <= 4 * (ab * W)).
  { assert (B * d4 * p <= H * MI * p) by (apply Z.mul_le_mono_nonneg_r; lia).
    assert (H * (MI * p) <= (2 * ab) * (2 * W)) by (apply Z.mul_le_mono_nonneg; lia). lia. }
  assert (T2 : 2 * (B * (H * d3)) <= 6 * (ab * W)).
  { assert (H * (2 * (B * d3)) <= H * (3 * W)) by (apply Z.mul_le_mono_nonneg_l; lia).
    assert (H * (3 * W) <= (2 * ab) * (3 * W)) by (apply Z.mul_le_mono_nonneg_r; lia). lia. }
  assert (T3 : B * (d5 * W) <= ab * W).
  { rewrite Z.mul_assoc. apply Z.mul_le_mono_nonneg_r; lia. }
  assert (Hsum : Z.abs (Y * p - ab * W) <= d4 * p + H * d3 + d5 * W).
  { replace (Y * p - ab * W) with ((Y - H * MI) * p + H * (MI * p - W) + (H - ab) * W) by ring.
    eapply Z.le_trans; [ apply abs_tri3 | ]. rewrite !Z.abs_mul.
    rewrite (Z.abs_eq p), (Z.abs_eq H), (Z.abs_eq W) by lia. fold d3 d4 d5. lia. }
  set (A := Z.abs (Y * p - ab * W)) in *.
  assert (HBA : B * A <= 8 * (ab * W)).
  { assert (B * A <= B * (d4 * p + H * d3 + d5 * W)) by (apply Z.mul_le_mono_nonneg_l; lia). lia. }
  assert (HgW : 8 * (ab * W) < B * (p * W)).
  { assert (8 * ab * W < B * p * W) by (apply Z.mul_lt_mono_pos_r; lia). lia. }
  assert (HA : A < p * W).
  { destruct (Z_lt_le_dec A (p * W)) as [ | Hge ]; [ assumption | ].
    assert (B * (p * W) <= B * A) by (apply Z.mul_le_mono_nonneg_l; lia). lia. }
  apply floor_from_est; lia.
Qed.

(* ------------------------------------------------------------------ the quotient estimate *)
Lemma dk_quot_gen pe p ab : 4 <= pe -> 2 <= p < 2 ^ pe -> 0 <= ab -> 8 * ab < 2 ^ pe * p ->
  let q := floor_dy (mul_dy pe (rn pe ab) (div_dy pe 1 (rn pe p))) in
  0 <= q /\ - p < ab - q * p < 2 * p.
Proof.
  intros Hpe Hp Hab HpB. assert (Epp : rn pe p = p) by (apply rn_lt; lia).
  rewrite Epp. rewrite dk_q_eq by lia. cbv zeta.
  set (k := pe + 1 + bitlen p). destruct (bitlen_spec p ltac:(lia)) as [Hb [Hlo Hhi]].
  rewrite Z.abs_eq in Hlo, Hhi by lia.
  set (Q := 2 ^ k / p). set (R := 2 ^ k mod p). set (X := 2 * Q + (if R =? 0 then 0 else 1)).
  assert (HB16 : 16 <= 2 ^ pe) by (change 16 with (2 ^ 4); apply pow2_le; lia).
  assert (EW : 2 ^ (k + 1) = 4 * 2 ^ pe * 2 ^ bitlen p).
  { replace (k + 1) with (2 + pe + bitlen p) by (unfold k; lia). rewrite !pow2_split by lia. reflexivity. }
  assert (Ek : 2 * 2 ^ k = 2 ^ (k + 1)) by (rewrite (pow2_succ (k + 1)) by lia; do 2 f_equal; lia).
  pose proof (pow2_pos k ltac:(lia)) as Hk0.
  assert (HQ : 0 <= Q) by (unfold Q; apply Z.div_pos; lia).
  assert (HR : 0 <= R < p) by (unfold R; apply Z.mod_pos_bound; lia).
  assert (EQ : 2 * (Q * p + R) = 2 ^ (k + 1)).
  { rewrite <- Ek. f_equal. unfold Q, R. rewrite (Z.mul_comm (2 ^ k / p)). symmetry. apply Z.div_mod. lia. }
  assert (HX0 : 0 <= X) by (unfold X; destruct (R =? 0); lia).
  pose proof (rn_err pe ab ltac:(lia)) as E1. rewrite (Z.abs_eq ab) in E1 by lia.
  pose proof (rn_nonneg pe ab ltac:(lia) ltac:(lia)) as HH.
  pose proof (rn_err pe X ltac:(lia)) as E2. rewrite (Z.abs_eq X) in E2 by lia.
  pose proof (rn_nonneg pe X ltac:(lia) HX0) as HMI.
  assert (HHM : 0 <= rn pe ab * rn pe X) by (apply Z.mul_nonneg_nonneg; lia).
  pose proof (rn_err pe (rn pe ab * rn pe X) ltac:(lia)) as E3. rewrite (Z.abs_eq (rn pe ab * rn pe X)) in E3 by lia.
  pose proof (rn_nonneg pe _ ltac:(lia) HHM) as HY.
  exact (quot_arith (2 ^ pe) p (2 ^ bitlen p) (2 ^ (k + 1)) ab (rn pe ab) Q R X (rn pe X) (rn pe (rn pe ab * rn pe X))
           HB16 ltac:(lia) HpB Hhi EW Hab HH E1 HQ EQ HR eq_refl HMI E2 HY E3).
Qed.

(* the instance used by mul: a*b <= (p-1)^2 and three spare bits *)
Lemma dk_quot pe p ab : 4 <= pe -> 2 <= p -> 8 * p <= 2 ^ pe -> 0 <= ab <= (p - 1) * (p - 1) ->
  let q := floor_dy (mul_dy pe (rn pe ab) (div_dy pe 1 (rn pe p))) in
  0 <= q < p /\ - p < ab - q * p < 2 * p.
Proof.
  intros Hpe Hp HpB Hab.
  assert (Hg : 8 * ab < 2 ^ pe * p).
  { assert (8 * p * p <= 2 ^ pe * p) by (apply Z.mul_le_mono_nonneg_r; lia). lia. }
  destruct (dk_quot_gen pe p ab Hpe ltac:(lia) ltac:(lia) Hg) as [Hq0 Hq]. cbv zeta.
  set (q := floor_dy (mul_dy pe (rn pe ab) (div_dy pe 1 (rn pe p)))) in *.
  assert (Hqp : q < p).
  { destruct (Z_lt_le_dec q p) as [ | Hge ]; [ assumption | ].
    assert (p * p <= q * p) by (apply Z.mul_le_mono_nonneg_r; lia). lia. }
  lia.
Qed.

(* ------------------------------------------------------------------ L1: the tail of dk_mul, given error-free products *)
(* what mult_dekker is meant to deliver *)
Definition DK_mult_ok (pe x y : Z) : Prop :=
  fst (dk_mult pe x y) = rn pe (x * y) /\ fst (dk_mult pe x y) + snd (dk_mult pe x y) = x * y.
(* the quotient of dk_mul_raw *)
Definition dk_q (pe p a b : Z) : Z := floor_dy (mul_dy pe (rn pe (a * b)) (div_dy pe 1 (rn pe p))).

Definition DK_mul_partial_stmt (pe mx p : Z) : Prop := ex_cfg pe mx -> 2 <= p <= mx ->
  forall a b, canon p a -> canon p b ->
  DK_mult_ok pe a b -> DK_mult_ok pe (- dk_q pe p a b) p ->
  dk_mul pe p a b = (a * b) mod p.

Lemma ex_cfg_pow pe mx : ex_cfg pe mx -> 4 <= pe /\ 8 * (mx + 1) = 2 ^ pe.
Proof. intros [Hc | Hc]; injection Hc as -> ->; split; try lia; reflexivity. Qed.

Lemma ex_fix_mod pe p r m : 0 < pe -> 2 <= p -> 2 * p < 2 ^ pe -> - p < r < 2 * p -> (exists k, r = m + k * p) ->
  ex_fix pe p r = m mod p.
Proof.
  intros Hpe Hp HpB Hr [k Ek]. unfold ex_fix.
  destruct (Z.leb_spec p r).
  - rewrite rn_lt by lia. apply Z.mod_unique with (1 - k); lia.
  - destruct (Z.ltb_spec r 0).
    + rewrite rn_lt by lia. apply Z.mod_unique with (- 1 - k); lia.
    + apply Z.mod_unique with (- k); lia.
Qed.

Lemma dk_tail_exact pe mx p : DK_mul_partial_stmt pe mx p.
Proof.
  intros Hc Hp a b Ha Hb [Ef1 Es1] [Ef2 Es2]. destruct (ex_cfg_pow pe mx Hc) as [Hpe EB]. unfold canon in *.
  assert (HpB : 8 * p <= 2 ^ pe) by lia.
  pose proof (mul_lt_sq a b p Ha Hb) as Hab.
  pose proof (dk_quot pe p (a * b) Hpe ltac:(lia) HpB Hab) as Hq. cbv zeta in Hq. fold (dk_q pe p a b) in Hq.
  unfold dk_mul, dk_mul_raw.
  destruct (dk_mult pe a b) as [abh abl]. cbn [fst snd] in Ef1, Es1. rewrite Ef1.
  fold (dk_q pe p a b). set (q := dk_q pe p a b) in *.
  destruct (dk_mult pe (- q) p) as [pqh pql]. cbn [fst snd] in *.
  destruct Hq as [Hq0 Hqr].
  (* sizes of the two error terms *)
  pose proof (rn_err pe (a * b) ltac:(lia)) as E1. rewrite (Z.abs_eq (a * b)) in E1 by lia. rewrite <- Ef1 in *.
  pose proof (rn_err pe (- q * p) ltac:(lia)) as E2. rewrite <- Ef2 in E2.
  assert (Hqp : 0 <= q * p < p * p) by (split; [ apply Z.mul_nonneg_nonneg; lia | apply Z.mul_lt_mono_pos_r; lia ]).
  rewrite (Z.abs_neq (- q * p)) in E2 by lia.
  assert (Hpp : 8 * (p * p) <= 2 ^ pe * p) by (rewrite Z.mul_assoc; apply Z.mul_le_mono_nonneg_r; lia).
  assert (Hsq : (p - 1) * (p - 1) < p * p) by lia.
  assert (L1 : 8 * Z.abs (abh - a * b) < p).
  { set (d := Z.abs (abh - a * b)) in *. destruct (Z_lt_le_dec (8 * d) p) as [ | Hge ]; [ assumption | ].
    assert (2 ^ pe * p <= 2 ^ pe * (8 * d)) by (apply Z.mul_le_mono_nonneg_l; lia). lia. }
  assert (L2 : 8 * Z.abs (pqh - - q * p) < p).
  { set (d := Z.abs (pqh - - q * p)) in *. destruct (Z_lt_le_dec (8 * d) p) as [ | Hge ]; [ assumption | ].
    assert (2 ^ pe * p <= 2 ^ pe * (8 * d)) by (apply Z.mul_le_mono_nonneg_l; lia). lia. }
  assert (Eabl : abl = a * b - abh) by lia. assert (Epql : pql = - q * p - pqh) by lia.
  rewrite (rn_lt pe (abl + pql)) by lia.
  rewrite (rn_lt pe (abh + pqh)) by lia.
  rewrite (rn_lt pe (abh + pqh + (abl + pql))) by lia.
  apply ex_fix_mod; try lia. exists (- q). lia.
Qed.
