(* C03 — the rounding layer used by the Veltkamp/Dekker proofs (ProofsDKQ/ProofsDKS/ProofsDK): facts about
   [rn prec z] (integer z rounded to prec significant bits, nearest-even) derived from the definition in ModelF.v:
   exactness on multiples of 2^k of magnitude <= 2^(k+prec), absolute and relative error, divisibility of the
   result, invariance under scaling by a power of two; and the dyadic results of [rnd_dy] / [floor_dy]. *)
From Coq Require Import ZArith Bool Lia List.
From C03 Require Import Model ModelF ProofsBase ProofsInt ProofsFM.
Local Open Scope Z_scope.
Ltac Zify.zify_post_hook ::= idtac.

Lemma pow2_pos k : 0 <= k -> 0 < 2 ^ k.
Proof. intros; apply Z.pow_pos_nonneg; lia. Qed.

Lemma pow2_split a b : 0 <= a -> 0 <= b -> 2 ^ (a + b) = 2 ^ a * 2 ^ b.
Proof. intros; apply Z.pow_add_r; lia. Qed.

Lemma pow2_succ k : 0 < k -> 2 ^ k = 2 * 2 ^ (k - 1).
Proof. intros. rewrite <- Z.pow_succ_r by lia. f_equal. lia. Qed.

Lemma pow2_le a b : 0 <= a <= b -> 2 ^ a <= 2 ^ b.
Proof. intros; apply Z.pow_le_mono_r; lia. Qed.

Lemma pow2_lt_inv a b : 0 <= b -> 2 ^ a < 2 ^ b -> a < b.
Proof. intros Hb H. destruct (Z_lt_le_dec a b) as [ | Hle]; [ assumption | ].
  pose proof (pow2_le b a ltac:(lia)). lia. Qed.

Lemma pow2_divide a b : 0 <= a <= b -> (2 ^ a | 2 ^ b).
Proof. intros. exists (2 ^ (b - a)). rewrite <- Z.pow_add_r by lia. f_equal. lia. Qed.

Lemma bitlen_0 : bitlen 0 = 0.
Proof. reflexivity. Qed.

Lemma bitlen_spec z : z <> 0 -> 1 <= bitlen z /\ 2 ^ (bitlen z - 1) <= Z.abs z < 2 ^ bitlen z.
Proof.
  intros Hz. unfold bitlen. destruct (Z.eqb_spec z 0); [ lia | ].
  pose proof (Z.log2_spec (Z.abs z) ltac:(lia)) as H. pose proof (Z.log2_nonneg (Z.abs z)).
  replace (Z.log2 (Z.abs z) + 1 - 1) with (Z.log2 (Z.abs z)) by lia.
  replace (Z.log2 (Z.abs z) + 1) with (Z.succ (Z.log2 (Z.abs z))) by lia. split; [ lia | exact H ].
Qed.

Lemma bitlen_le_of_lt z n : 0 <= n -> Z.abs z < 2 ^ n -> bitlen z <= n.
Proof.
  intros Hn H. destruct (Z.eq_dec z 0) as [-> | Hz]; [ rewrite bitlen_0; lia | ].
  destruct (bitlen_spec z Hz) as [H1 [H2 _]].
  assert (bitlen z - 1 < n) by (apply pow2_lt_inv; lia). lia.
Qed.

Lemma bitlen_ge_of_le z n : 0 <= n -> 2 ^ n <= Z.abs z -> n + 1 <= bitlen z.
Proof.
  intros Hn H. assert (Hz : z <> 0) by (pose proof (pow2_pos n Hn); lia).
  destruct (bitlen_spec z Hz) as [H1 [_ H2]].
  assert (n < bitlen z) by (apply pow2_lt_inv; lia). lia.
Qed.

(* the two shapes of a rounded integer *)
Lemma rn_cases prec z : 0 < prec ->
  (bitlen z <= prec /\ rn prec z = z) \/
  (exists s m, 0 < s /\ s = bitlen z - prec /\ rn prec z = m * 2 ^ s /\ 2 * Z.abs (m * 2 ^ s - z) <= 2 ^ s).
Proof.
  intros Hp. unfold rn, rnd_dy. destruct (Z.leb_spec (bitlen z) prec) as [H | H].
  - left. split; [ exact H | ]. change (2 ^ 0) with 1. lia.
  - right. set (s := bitlen z - prec). assert (Hs : 0 < s) by lia.
    pose proof (pow2_succ s Hs) as E2. pose proof (pow2_pos (s - 1) ltac:(lia)) as Hh.
    pose proof (Z.div_mod z (2 ^ s) ltac:(lia)) as Hdm. pose proof (Z.mod_pos_bound z (2 ^ s) ltac:(lia)) as Hm.
    rewrite Z.add_0_l.
    set (q := z / 2 ^ s) in *. set (r := z mod 2 ^ s) in *. set (h := 2 ^ (s - 1)) in *. set (T := 2 ^ s) in *.
    destruct (Z.ltb_spec r h); [ exists s, q | destruct (Z.ltb_spec h r); [ exists s, (q + 1) |
      destruct (Z.even q); [ exists s, q | exists s, (q + 1) ] ] ]; fold T; repeat split; lia.
Qed.

(* (A) a multiple of 2^k of magnitude <= 2^(k+prec) is representable *)
Lemma rn_exact_mult prec k z : 0 < prec -> 0 <= k -> (2 ^ k | z) -> Z.abs z <= 2 ^ (k + prec) -> rn prec z = z.
Proof.
  intros Hp Hk Hd Hz. destruct (rn_cases prec z Hp) as [[_ E] | (s & m & Hs & Es & E & Herr)]; [ exact E | ].
  assert (Hnz : z <> 0) by (intros ->; rewrite bitlen_0 in Es; lia).
  destruct (bitlen_spec z Hnz) as [_ [Hlo Hhi]].
  assert (Hdiv : (2 ^ s | z)).
  { destruct (Z_lt_le_dec (Z.abs z) (2 ^ (k + prec))) as [Hlt | Hge].
    - assert (bitlen z <= k + prec) by (apply bitlen_le_of_lt; lia).
      apply Z.divide_trans with (2 ^ k); [ apply pow2_divide; lia | exact Hd ].
    - assert (Ea : Z.abs z = 2 ^ (k + prec)) by lia.
      assert (bitlen z = k + prec + 1).
      { pose proof (bitlen_ge_of_le z (k + prec) ltac:(lia) ltac:(lia)).
        assert (bitlen z - 1 < k + prec + 1) by (apply pow2_lt_inv; [ lia | ];
          rewrite (pow2_succ (k + prec + 1)) by lia; replace (k + prec + 1 - 1) with (k + prec) by lia;
          pose proof (pow2_pos (k + prec) ltac:(lia)); lia). lia. }
      apply Z.divide_abs_r. rewrite Ea. apply pow2_divide. lia. }
  destruct Hdiv as [z' Ez]. rewrite E. pose proof (pow2_pos s ltac:(lia)) as HT.
  set (T := 2 ^ s) in *. assert (m = z') by nia. subst m. lia.
Qed.

Lemma rn_0 prec : 0 < prec -> rn prec 0 = 0.
Proof. intros. apply rn_lt; [ assumption | ]. pose proof (pow2_pos prec ltac:(lia)). cbn [Z.abs]. lia. Qed.

(* (B) absolute error: half a unit of the binade *)
Lemma rn_err_abs prec k z : 0 < prec -> 0 <= k -> Z.abs z <= 2 ^ (k + prec) -> 2 * Z.abs (rn prec z - z) <= 2 ^ k.
Proof.
  intros Hp Hk Hz. pose proof (pow2_pos k Hk) as Hk2.
  destruct (Z_lt_le_dec (Z.abs z) (2 ^ (k + prec))) as [Hlt | Hge].
  - destruct (rn_cases prec z Hp) as [[_ E] | (s & m & Hs & Es & E & Herr)]; [ rewrite E; lia | ].
    assert (bitlen z <= k + prec) by (apply bitlen_le_of_lt; lia).
    pose proof (pow2_le s k ltac:(lia)). rewrite E. lia.
  - rewrite (rn_exact_mult prec k z); try lia.
    apply Z.divide_abs_r. replace (Z.abs z) with (2 ^ (k + prec)) by lia. apply pow2_divide; lia.
Qed.

(* (C) the result is a multiple of the unit of its binade *)
Lemma rn_mult prec k z : 0 < prec -> 0 <= k -> 2 ^ (k + prec - 1) <= Z.abs z -> (2 ^ k | rn prec z).
Proof.
  intros Hp Hk Hz. pose proof (bitlen_ge_of_le z (k + prec - 1) ltac:(lia) Hz).
  destruct (rn_cases prec z Hp) as [[Hb E] | (s & m & Hs & Es & E & Herr)].
  - assert (k = 0) by lia. subst k. apply Z.divide_1_l.
  - rewrite E. apply Z.divide_mul_r. apply pow2_divide; lia.
Qed.

(* (D) relative error 2^-prec *)
Lemma rn_err prec z : 0 < prec -> 2 ^ prec * Z.abs (rn prec z - z) <= Z.abs z.
Proof.
  intros Hp. destruct (rn_cases prec z Hp) as [[_ E] | (s & m & Hs & Es & E & Herr)].
  - rewrite E. replace (z - z) with 0 by lia. cbn [Z.abs]. lia.
  - assert (Hnz : z <> 0) by (intros ->; rewrite bitlen_0 in Es; lia).
    destruct (bitlen_spec z Hnz) as [_ [Hlo _]]. rewrite E.
    replace (bitlen z - 1) with (prec + (s - 1)) in Hlo by lia. rewrite pow2_split in Hlo by lia.
    pose proof (pow2_succ s Hs) as E2. pose proof (pow2_pos prec ltac:(lia)). pose proof (pow2_pos (s - 1) ltac:(lia)).
    set (d := Z.abs (m * 2 ^ s - z)) in *. set (T := 2 ^ s) in *.
    set (P := 2 ^ prec) in *. set (h := 2 ^ (s - 1)) in *.
    assert (P * d <= P * h) by (apply Z.mul_le_mono_nonneg_l; lia). lia.
Qed.

Lemma rn_nonneg prec z : 0 < prec -> 0 <= z -> 0 <= rn prec z.
Proof.
  intros Hp Hz. pose proof (rn_err prec z Hp) as H. pose proof (pow2_pos prec ltac:(lia)) as HP.
  destruct (Z_lt_le_dec (rn prec z) 0) as [Hneg | ]; [ | assumption ].
  assert (2 ^ prec * Z.abs (rn prec z - z) >= 2 ^ prec * (z + 1)) by nia.
  assert (2 <= 2 ^ prec) by (change 2 with (2 ^ 1) at 1; apply pow2_le; lia). nia.
Qed.

(* (E) scaling by a power of two commutes with rounding (no exponent range in this model) *)
Lemma bitlen_scale j z : 0 <= j -> z <> 0 -> bitlen (2 ^ j * z) = bitlen z + j.
Proof.
  intros Hj Hz. pose proof (pow2_pos j Hj). unfold bitlen.
  destruct (Z.eqb_spec z 0); [ lia | ]. destruct (Z.eqb_spec (2 ^ j * z) 0); [ nia | ].
  rewrite Z.abs_mul, (Z.abs_eq (2 ^ j)) by lia. rewrite Z.mul_comm, Z.log2_mul_pow2 by lia. lia.
Qed.

Lemma rn_scale prec j z : 0 < prec -> 0 <= j -> rn prec (2 ^ j * z) = 2 ^ j * rn prec z.
Proof.
  intros Hp Hj. destruct (Z.eq_dec z 0) as [-> | Hz]; [ rewrite Z.mul_0_r, rn_0 by lia; lia | ].
  pose proof (pow2_pos j Hj) as HJ.
  destruct (rn_cases prec z Hp) as [[Hb E] | (s & m & Hs & Es & E & Herr)].
  - (* z representable: so is 2^j z *)
    rewrite E. destruct (bitlen_spec z Hz) as [_ [_ Hhi]].
    apply (rn_exact_mult prec j); try lia.
    + exists z; lia.
    + rewrite Z.abs_mul, (Z.abs_eq (2 ^ j)) by lia. rewrite pow2_split by lia.
      pose proof (pow2_le (bitlen z) prec ltac:(destruct (bitlen_spec z Hz); lia)). nia.
  - (* same digits, shifted *)
    clear E Herr m. unfold rn, rnd_dy. rewrite bitlen_scale by assumption.
    destruct (Z.leb_spec (bitlen z + j) prec); [ lia | ]. destruct (Z.leb_spec (bitlen z) prec); [ lia | ].
    replace (bitlen z + j - prec) with (j + s) by lia. replace (bitlen z - prec) with s by lia.
    replace (j + s - 1) with (j + (s - 1)) by lia. rewrite !Z.add_0_l.
    rewrite (pow2_split j s), (pow2_split j (s - 1)) by lia.
    pose proof (pow2_pos s ltac:(lia)). pose proof (pow2_pos (s - 1) ltac:(lia)).
    rewrite Z.div_mul_cancel_l by lia. rewrite Z.mul_mod_distr_l by lia.
    set (q := z / 2 ^ s). set (r := z mod 2 ^ s). set (h := 2 ^ (s - 1)).
    assert (C1 : (2 ^ j * r <? 2 ^ j * h) = (r <? h)).
    { destruct (Z.ltb_spec r h), (Z.ltb_spec (2 ^ j * r) (2 ^ j * h)); try reflexivity; nia. }
    assert (C2 : (2 ^ j * h <? 2 ^ j * r) = (h <? r)).
    { destruct (Z.ltb_spec h r), (Z.ltb_spec (2 ^ j * h) (2 ^ j * r)); try reflexivity; nia. }
    rewrite C1, C2. destruct (r <? h); [ ring | ]. destruct (h <? r); [ ring | ]. destruct (Z.even q); ring.
Qed.

(* rnd_dy on a dyadic: the mantissa is rounded, the exponent follows *)
Lemma rnd_dy_rn prec m e : 0 < prec ->
  exists s m', 0 <= s /\ rnd_dy prec m e = (m', e + s) /\ m' * 2 ^ s = rn prec m.
Proof.
  intros Hp. unfold rn, rnd_dy. destruct (Z.leb_spec (bitlen m) prec).
  - exists 0, m. rewrite Z.add_0_r. repeat split; lia.
  - eexists (bitlen m - prec), _. rewrite Z.add_0_l. repeat split; lia.
Qed.

(* floor of a dyadic, computed at any sufficiently fine scale *)
Lemma floor_dy_scaled m e E : 0 <= E -> 0 <= e + E -> floor_dy (m, e) = (m * 2 ^ (e + E)) / 2 ^ E.
Proof.
  intros HE HeE. unfold floor_dy. pose proof (pow2_pos E HE).
  destruct (Z.leb_spec 0 e).
  - rewrite pow2_split by lia. rewrite Z.mul_assoc, Z.div_mul by lia. reflexivity.
  - replace E with ((e + E) + (- e)) at 2 by lia. rewrite (pow2_split (e + E) (- e)) by lia.
    pose proof (pow2_pos (e + E) HeE). pose proof (pow2_pos (- e) ltac:(lia)).
    rewrite (Z.mul_comm (2 ^ (e + E)) (2 ^ (- e))). rewrite Z.div_mul_cancel_r by lia. reflexivity.
Qed.
