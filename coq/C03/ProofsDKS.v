(* C03 — Veltkamp's split and Dekker's product (modular-extended.h: split, mult_dekker) as modelled in ModelDK.v
   (dk_split, dk_mult), for the two instantiated formats (float: 24 bits, splitter 2^13+1; double: 53 bits, 2^27+1):
   for integer operands of magnitude < 2^(pe-3) the product is error-free:  fst = rn pe (a*b),  fst + snd = a*b.
   Method: rounding commutes with scaling by powers of two (no exponent range in the model), so both operands are
   normalised to exactly pe-3 bits; then every exponent is a fixed number and each intermediate result is shown to be
   a multiple of 2^k of magnitude <= 2^(k+pe), hence exactly representable. *)
From Coq Require Import ZArith Bool Lia List.
From C03 Require Import Model ModelF ModelDK ProofsBase ProofsInt ProofsFM ProofsEX ProofsDKR.
Local Open Scope Z_scope.
Ltac Zify.zify_post_hook ::= idtac.

(* format and the exponent of the splitter *)
Definition dk_cfg (pe s : Z) : Prop := (pe = 53 /\ s = 27) \/ (pe = 24 /\ s = 13).

Lemma dk_splitc_eq pe s : dk_cfg pe s -> rn pe (dk_splitc pe) = 2 ^ s + 1.
Proof. intros [[-> ->] | [-> ->]]; reflexivity. Qed.

Lemma abs_mul_le x y X Y : Z.abs x <= X -> Z.abs y <= Y -> Z.abs (x * y) <= X * Y.
Proof. intros. rewrite Z.abs_mul. apply Z.mul_le_mono_nonneg; lia. Qed.

Lemma abs_mul_ge x y X Y : 0 <= X -> 0 <= Y -> X <= Z.abs x -> Y <= Z.abs y -> X * Y <= Z.abs (x * y).
Proof. intros. rewrite Z.abs_mul. apply Z.mul_le_mono_nonneg; lia. Qed.

(* ------------------------------------------------------------------ L2: the split of a normalised operand *)
Definition split_norm_stmt (pe s x : Z) : Prop :=
  2 ^ (pe - 4) <= Z.abs x < 2 ^ (pe - 3) ->
  fst (dk_split pe x) + snd (dk_split pe x) = x /\ (2 ^ (s - 3) | fst (dk_split pe x)) /\
  Z.abs (snd (dk_split pe x)) <= 2 ^ (s - 3) /\ Z.abs (fst (dk_split pe x)) <= 2 ^ (pe - 3).

Ltac split_script P S :=
  let x := fresh "x" in let Hx := fresh "Hx" in intros x Hx;
  unfold dk_split; cbn [fst snd];
  rewrite (dk_splitc_eq P S) by (unfold dk_cfg; lia);
  assert (HCx : Z.abs ((2 ^ S + 1) * x) = (2 ^ S + 1) * Z.abs x)
    by (rewrite Z.abs_mul, (Z.abs_eq (2 ^ S + 1)) by lia; reflexivity);
  set (c := rn P ((2 ^ S + 1) * x));
  assert (Dc : (2 ^ (S - 3) | c)) by (apply rn_mult; rewrite ?HCx; lia);
  assert (Ec : 2 * Z.abs (c - (2 ^ S + 1) * x) <= 2 ^ (S - 2)) by (apply rn_err_abs; rewrite ?HCx; lia);
  assert (Lcx : 2 ^ (S - 3 + P - 1) <= Z.abs (c - x));
  [ destruct (Z.eq_dec (Z.abs x) (2 ^ (P - 4))) as [E | NE];
    [ assert (Ecx : c = (2 ^ S + 1) * x);
      [ apply (rn_exact_mult P (S - 2)); [ lia | lia | | rewrite HCx; lia ];
        apply Z.divide_mul_r, Z.divide_abs_r; rewrite E; apply pow2_divide; lia
      | rewrite Ecx; replace ((2 ^ S + 1) * x - x) with (2 ^ S * x) by ring;
        rewrite Z.abs_mul, (Z.abs_eq (2 ^ S)), E by lia; lia ]
    | clearbody c; lia ]
  | ];
  clearbody c;
  set (d := rn P (c - x));
  assert (Dd : (2 ^ (S - 3) | d)) by (apply rn_mult; lia);
  assert (Ed : 2 * Z.abs (d - (c - x)) <= 2 ^ (S - 2)) by (apply rn_err_abs; lia);
  clearbody d;
  assert (Dxh : (2 ^ (S - 3) | c - d)) by (apply Z.divide_sub_r; assumption);
  assert (Exh : rn P (c - d) = c - d) by (apply (rn_exact_mult P (S - 3)); [ lia | lia | exact Dxh | lia ]);
  rewrite Exh;
  assert (Exl : rn P (x - (c - d)) = x - (c - d)) by (apply rn_lt; lia);
  rewrite Exl;
  split; [ lia | ]; split; [ exact Dxh | ]; split; [ lia | ];
  destruct Dxh as [m Em]; rewrite Em in *; lia.

Lemma dk_split_norm pe s : dk_cfg pe s -> forall x, split_norm_stmt pe s x.
Proof.
  unfold split_norm_stmt. intros [[-> ->] | [-> ->]].
  - split_script 53 27.
  - split_script 24 13.
Qed.

(* ------------------------------------------------------------------ L3: Dekker's product of two normalised operands *)
Lemma divide_pow2_mul i j x y : 0 <= i -> 0 <= j -> (2 ^ i | x) -> (2 ^ j | y) -> (2 ^ (i + j) | x * y).
Proof. intros Hi Hj [u ->] [v ->]. exists (u * v). rewrite pow2_split by lia. ring. Qed.

Lemma divide_pow2_le i j x : 0 <= i <= j -> (2 ^ j | x) -> (2 ^ i | x).
Proof. intros H D. apply Z.divide_trans with (2 ^ j); [ apply pow2_divide; lia | exact D ]. Qed.

Definition mult_norm_stmt (pe a b : Z) : Prop :=
  2 ^ (pe - 4) <= Z.abs a < 2 ^ (pe - 3) -> 2 ^ (pe - 4) <= Z.abs b < 2 ^ (pe - 3) ->
  snd (dk_mult pe a b) = a * b - rn pe (a * b).

Ltac mult_script P S :=
  let a := fresh "a" in let b := fresh "b" in let Ha := fresh "Ha" in let Hb := fresh "Hb" in
  intros a b Ha Hb;
  destruct (dk_split_norm P S ltac:(unfold dk_cfg; lia) a Ha) as (Sa & Da & La & Ua);
  destruct (dk_split_norm P S ltac:(unfold dk_cfg; lia) b Hb) as (Sb & Db & Lb & Ub);
  unfold dk_mult; destruct (dk_split P a) as [ah al]; destruct (dk_split P b) as [bh bl]; cbn [fst snd] in *;
  pose proof (abs_mul_ge a b (2 ^ (P - 4)) (2 ^ (P - 4)) ltac:(lia) ltac:(lia) ltac:(lia) ltac:(lia)) as Hlo;
  pose proof (abs_mul_le a b (2 ^ (P - 3)) (2 ^ (P - 3)) ltac:(lia) ltac:(lia)) as Hhi;
  set (S0 := rn P (a * b));
  assert (DS : (2 ^ (P - 7) | S0)) by (apply rn_mult; lia);
  assert (ES : 2 * Z.abs (S0 - a * b) <= 2 ^ (P - 6)) by (apply rn_err_abs; lia);
  clearbody S0;
  pose proof (abs_mul_le ah bh _ _ Ua Ub) as Bhh; pose proof (abs_mul_le ah bl _ _ Ua Lb) as Bhl;
  pose proof (abs_mul_le al bh _ _ La Ub) as Blh; pose proof (abs_mul_le al bl _ _ La Lb) as Bll;
  pose proof (divide_pow2_mul (S - 3) (S - 3) ah bh ltac:(lia) ltac:(lia) Da Db) as Dhh;
  assert (Dlh : (2 ^ (S - 3) | al * bh)) by (apply Z.divide_mul_r; exact Db);
  assert (Dhl : (2 ^ (S - 3) | ah * bl)) by (apply Z.divide_mul_l; exact Da);
  assert (Eab : a * b = ah * bh + ah * bl + al * bh + al * bl) by (rewrite <- Sa, <- Sb; ring);
  rewrite (rn_exact_mult P (S - 3 + (S - 3)) (ah * bh)) by (try exact Dhh; clear - Bhh; lia);
  rewrite (rn_exact_mult P (S - 3) (al * bh)) by (try exact Dlh; clear - Blh; lia);
  rewrite (rn_exact_mult P (S - 3) (ah * bl)) by (try exact Dhl; clear - Bhl; lia);
  rewrite (rn_lt P (al * bl)) by (clear - Bll; lia);
  set (hh := ah * bh) in *; set (hl := ah * bl) in *; set (lh := al * bh) in *; set (ll := al * bl) in *;
  set (ab := a * b) in *; clearbody hh hl lh ll ab;
  assert (ES' : - 2 ^ (P - 6) <= 2 * (S0 - ab) <= 2 ^ (P - 6)) by (clear - ES; lia);
  apply Z.abs_le in Bhh; apply Z.abs_le in Bhl; apply Z.abs_le in Blh; apply Z.abs_le in Bll;
  clear ES Hlo Hhi Ha Hb Ua Ub La Lb Sa Sb;
  assert (D1 : (2 ^ (P - 7) | S0 - hh))
    by (apply Z.divide_sub_r; [ exact DS | apply (divide_pow2_le (P - 7) (S - 3 + (S - 3))); [ lia | exact Dhh ] ]);
  assert (D2 : (2 ^ (S - 3) | S0 - hh - lh))
    by (apply Z.divide_sub_r; [ apply (divide_pow2_le (S - 3) (P - 7)); [ lia | exact D1 ] | exact Dlh ]);
  rewrite (rn_exact_mult P (P - 7) (S0 - hh)) by (try exact D1; try apply Z.abs_le; lia);
  rewrite (rn_exact_mult P (S - 3) (S0 - hh - lh)) by (try exact D2; try apply Z.abs_le; lia);
  rewrite (rn_lt P (S0 - hh - lh - hl)) by (try apply Z.abs_lt; lia);
  rewrite (rn_lt P (ll - (S0 - hh - lh - hl))) by (try apply Z.abs_lt; lia);
  lia.

Lemma dk_mult_norm pe s : dk_cfg pe s -> forall a b, mult_norm_stmt pe a b.
Proof.
  unfold mult_norm_stmt. intros [[-> ->] | [-> ->]].
  - mult_script 53 27.
  - mult_script 24 13.
Qed.

(* ------------------------------------------------------------------ scaling by powers of two *)
Lemma rn_scale_eq pe k z z' : 0 < pe -> 0 <= k -> z' = 2 ^ k * z -> rn pe z' = 2 ^ k * rn pe z.
Proof. intros Hpe Hk ->. apply rn_scale; assumption. Qed.

Lemma rn_scale_T pe k T z z' : 0 < pe -> 0 <= k -> T = 2 ^ k -> z' = T * z -> rn pe z' = T * rn pe z.
Proof. intros Hpe Hk -> ->. apply rn_scale; assumption. Qed.

Lemma dk_split_scale pe j x : 0 < pe -> 0 <= j ->
  dk_split pe (2 ^ j * x) = (2 ^ j * fst (dk_split pe x), 2 ^ j * snd (dk_split pe x)).
Proof.
  intros Hpe Hj. unfold dk_split. cbn [fst snd]. generalize (rn pe (dk_splitc pe)). intro C.
  remember (2 ^ j) as T eqn:ET.
  rewrite (rn_scale_T pe j T (C * x) (C * (T * x)) Hpe Hj ET) by ring. generalize (rn pe (C * x)). intro c.
  rewrite (rn_scale_T pe j T (c - x) (T * c - T * x) Hpe Hj ET) by ring. generalize (rn pe (c - x)). intro d.
  rewrite (rn_scale_T pe j T (c - d) (T * c - T * d) Hpe Hj ET) by ring. generalize (rn pe (c - d)). intro h.
  rewrite (rn_scale_T pe j T (x - h) (T * x - T * h) Hpe Hj ET) by ring. reflexivity.
Qed.

Lemma dk_mult_scale pe i j a b : 0 < pe -> 0 <= i -> 0 <= j ->
  dk_mult pe (2 ^ i * a) (2 ^ j * b) = (2 ^ (i + j) * fst (dk_mult pe a b), 2 ^ (i + j) * snd (dk_mult pe a b)).
Proof.
  intros Hpe Hi Hj. unfold dk_mult. rewrite !dk_split_scale by lia.
  destruct (dk_split pe a) as [ah al]. destruct (dk_split pe b) as [bh bl]. cbn [fst snd].
  assert (Hk : 0 <= i + j) by lia. pose proof (pow2_split i j Hi Hj) as ES.
  remember (2 ^ (i + j)) as T eqn:ET. remember (2 ^ i) as I eqn:EI. remember (2 ^ j) as J eqn:EJ. clear EI EJ.
  rewrite (rn_scale_T pe (i + j) T (a * b) (I * a * (J * b)) Hpe Hk ET) by (rewrite ES; ring).
  rewrite (rn_scale_T pe (i + j) T (ah * bh) (I * ah * (J * bh)) Hpe Hk ET) by (rewrite ES; ring).
  rewrite (rn_scale_T pe (i + j) T (al * bh) (I * al * (J * bh)) Hpe Hk ET) by (rewrite ES; ring).
  rewrite (rn_scale_T pe (i + j) T (ah * bl) (I * ah * (J * bl)) Hpe Hk ET) by (rewrite ES; ring).
  rewrite (rn_scale_T pe (i + j) T (al * bl) (I * al * (J * bl)) Hpe Hk ET) by (rewrite ES; ring).
  generalize (rn pe (a * b)) (rn pe (ah * bh)) (rn pe (al * bh)) (rn pe (ah * bl)) (rn pe (al * bl)).
  intros s0 hh lh hl ll.
  rewrite (rn_scale_T pe (i + j) T (s0 - hh) (T * s0 - T * hh) Hpe Hk ET) by ring. generalize (rn pe (s0 - hh)). intro t1.
  rewrite (rn_scale_T pe (i + j) T (t1 - lh) (T * t1 - T * lh) Hpe Hk ET) by ring. generalize (rn pe (t1 - lh)). intro t2.
  rewrite (rn_scale_T pe (i + j) T (t2 - hl) (T * t2 - T * hl) Hpe Hk ET) by ring. generalize (rn pe (t2 - hl)). intro t3.
  rewrite (rn_scale_T pe (i + j) T (ll - t3) (T * ll - T * t3) Hpe Hk ET) by ring. reflexivity.
Qed.

Lemma dk_split_0 pe : 0 < pe -> dk_split pe 0 = (0, 0).
Proof.
  intros Hpe. unfold dk_split. rewrite Z.mul_0_r, rn_0 by lia.
  repeat (progress (change (0 - 0) with 0; rewrite ?rn_0 by lia)). reflexivity.
Qed.

Lemma dk_mult_fst pe a b : fst (dk_mult pe a b) = rn pe (a * b).
Proof. unfold dk_mult. destruct (dk_split pe a), (dk_split pe b). reflexivity. Qed.

Lemma dk_mult_0_l pe b : 0 < pe -> snd (dk_mult pe 0 b) = 0.
Proof.
  intros Hpe. unfold dk_mult. rewrite dk_split_0 by lia. destruct (dk_split pe b) as [bh bl]. cbn [snd].
  rewrite !Z.mul_0_l, !rn_0 by lia. repeat (progress (change (0 - 0) with 0; rewrite ?rn_0 by lia)). reflexivity.
Qed.

Lemma dk_mult_0_r pe a : 0 < pe -> snd (dk_mult pe a 0) = 0.
Proof.
  intros Hpe. unfold dk_mult. rewrite dk_split_0 by lia. destruct (dk_split pe a) as [ah al]. cbn [snd].
  rewrite !Z.mul_0_r, !rn_0 by lia. repeat (progress (change (0 - 0) with 0; rewrite ?rn_0 by lia)). reflexivity.
Qed.

(* every nonzero x of magnitude < 2^n is a power-of-two multiple away from exactly n bits *)
Lemma normalise x n : x <> 0 -> Z.abs x < 2 ^ n -> 0 <= n ->
  exists j, 0 <= j /\ 2 ^ (n - 1) <= Z.abs (2 ^ j * x) < 2 ^ n.
Proof.
  intros Hx Hlt Hn. destruct (bitlen_spec x Hx) as [Hb [Hlo Hhi]].
  pose proof (bitlen_le_of_lt x n Hn Hlt) as Hle.
  exists (n - bitlen x). split; [ lia | ]. pose proof (pow2_pos (n - bitlen x) ltac:(lia)) as HJ.
  rewrite Z.abs_mul, (Z.abs_eq (2 ^ (n - bitlen x))) by lia.
  replace (n - 1) with ((n - bitlen x) + (bitlen x - 1)) by lia. replace n with ((n - bitlen x) + bitlen x) at 4 by lia.
  rewrite !pow2_split by lia. split; [ apply Z.mul_le_mono_nonneg_l; lia | apply Z.mul_lt_mono_pos_l; lia ].
Qed.

(* ------------------------------------------------------------------ L3: mult_dekker is error-free *)
Lemma dk_cfg_pe pe s : dk_cfg pe s -> 4 < pe.
Proof. intros [[-> _] | [-> _]]; lia. Qed.

Lemma dk_mult_exact pe s a b : dk_cfg pe s -> Z.abs a < 2 ^ (pe - 3) -> Z.abs b < 2 ^ (pe - 3) ->
  fst (dk_mult pe a b) = rn pe (a * b) /\ fst (dk_mult pe a b) + snd (dk_mult pe a b) = a * b.
Proof.
  intros Hc Ha Hb. pose proof (dk_cfg_pe pe s Hc) as Hpe. rewrite dk_mult_fst. split; [ reflexivity | ].
  destruct (Z.eq_dec a 0) as [-> | Hna]; [ rewrite dk_mult_0_l, Z.mul_0_l, rn_0 by lia; reflexivity | ].
  destruct (Z.eq_dec b 0) as [-> | Hnb]; [ rewrite dk_mult_0_r, Z.mul_0_r, rn_0 by lia; reflexivity | ].
  destruct (normalise a (pe - 3) Hna Ha ltac:(lia)) as (i & Hi & Hia).
  destruct (normalise b (pe - 3) Hnb Hb ltac:(lia)) as (j & Hj & Hjb).
  replace (pe - 3 - 1) with (pe - 4) in * by lia.
  pose proof (dk_mult_norm pe s Hc (2 ^ i * a) (2 ^ j * b) Hia Hjb) as E.
  rewrite dk_mult_scale in E by lia. cbn [snd] in E.
  rewrite (rn_scale_eq pe (i + j) (a * b) (2 ^ i * a * (2 ^ j * b))) in E by (try (rewrite pow2_split by lia; ring); lia).
  pose proof (pow2_pos (i + j) ltac:(lia)) as HT.
  assert (E' : 2 ^ (i + j) * snd (dk_mult pe a b) = 2 ^ (i + j) * (a * b - rn pe (a * b))).
  { rewrite E. rewrite pow2_split by lia. ring. }
  apply Z.mul_reg_l in E'; lia.
Qed.

(* L2 in general form: the split of any nonzero operand of magnitude < 2^(pe-3) *)
Lemma dk_split_ok_scaled pe s x : dk_cfg pe s -> Z.abs x < 2 ^ (pe - 3) ->
  fst (dk_split pe x) + snd (dk_split pe x) = x /\
  (x <> 0 -> exists j, 0 <= j /\ j = pe - 3 - bitlen x /\ (2 ^ (s - 3) | 2 ^ j * fst (dk_split pe x)) /\
             2 ^ j * Z.abs (snd (dk_split pe x)) <= 2 ^ (s - 3) /\ Z.abs (fst (dk_split pe x)) <= 2 ^ bitlen x).
Proof.
  intros Hc Hx. pose proof (dk_cfg_pe pe s Hc) as Hpe.
  destruct (Z.eq_dec x 0) as [-> | Hnx]; [ rewrite dk_split_0 by lia; split; [ reflexivity | congruence ] | ].
  destruct (bitlen_spec x Hnx) as [Hb [Hlo Hhi]]. pose proof (bitlen_le_of_lt x (pe - 3) ltac:(lia) Hx) as Hle.
  set (j := pe - 3 - bitlen x). pose proof (pow2_pos j ltac:(unfold j; lia)) as HJ.
  assert (Hn : 2 ^ (pe - 4) <= Z.abs (2 ^ j * x) < 2 ^ (pe - 3)).
  { rewrite Z.abs_mul, (Z.abs_eq (2 ^ j)) by lia.
    replace (pe - 4) with (j + (bitlen x - 1)) by (unfold j; lia). replace (pe - 3) with (j + bitlen x) by (unfold j; lia).
    rewrite !pow2_split by (unfold j; lia). split; [ apply Z.mul_le_mono_nonneg_l; lia | apply Z.mul_lt_mono_pos_l; lia ]. }
  destruct (dk_split_norm pe s Hc (2 ^ j * x) Hn) as (E1 & E2 & E3 & E4).
  rewrite dk_split_scale in E1, E2, E3, E4 by (unfold j; lia). cbn [fst snd] in *.
  split; [ apply (Z.mul_reg_l _ _ (2 ^ j)); lia | ].
  intros _. exists j. repeat split; try (unfold j; lia); try assumption.
  - rewrite Z.abs_mul, (Z.abs_eq (2 ^ j)) in E3 by lia. exact E3.
  - rewrite Z.abs_mul, (Z.abs_eq (2 ^ j)) in E4 by lia.
    replace (pe - 3) with (j + bitlen x) in E4 by (unfold j; lia). rewrite pow2_split in E4 by (unfold j; lia).
    apply (Z.mul_le_mono_pos_l _ _ (2 ^ j)); assumption.
Qed.

(* the usual form: x_h + x_l = x; x_h keeps the top pe-s bits of x (a multiple of 2^k, k = bitlen x - (pe-s), of magnitude
   <= 2^bitlen x), x_l the rest (|x_l| <= 2^k, a sloppy bound that suffices; zero when x has fewer than pe-s bits) *)
Lemma dk_split_ok pe s x : dk_cfg pe s -> Z.abs x < 2 ^ (pe - 3) ->
  fst (dk_split pe x) + snd (dk_split pe x) = x /\ Z.abs (fst (dk_split pe x)) <= 2 ^ bitlen x /\
  (bitlen x < pe - s -> snd (dk_split pe x) = 0) /\
  (forall k, 0 <= k -> k = bitlen x - (pe - s) -> (2 ^ k | fst (dk_split pe x)) /\ Z.abs (snd (dk_split pe x)) <= 2 ^ k).
Proof.
  intros Hc Hx. pose proof (dk_cfg_pe pe s Hc) as Hpe.
  assert (Hs : 3 <= s < pe) by (destruct Hc as [[-> ->] | [-> ->]]; lia).
  destruct (dk_split_ok_scaled pe s x Hc Hx) as [E1 E2]. split; [ exact E1 | ].
  destruct (Z.eq_dec x 0) as [-> | Hnx].
  { rewrite dk_split_0 by lia. cbn [fst snd]. rewrite bitlen_0. repeat split; cbn; try lia; try apply Z.divide_0_r. }
  destruct (E2 Hnx) as (j & Hj & Ej & D & L & U). pose proof (pow2_pos j Hj) as HJ.
  split; [ exact U | ]. split.
  - intros Hle. assert (2 ^ (s - 3) < 2 ^ j) by (apply Z.pow_lt_mono_r; lia).
    set (d := Z.abs (snd (dk_split pe x))) in *. assert (0 <= d) by (unfold d; lia).
    destruct (Z.eq_dec d 0) as [E0 | N0]; [ unfold d in E0; lia | ].
    assert (2 ^ j * 1 <= 2 ^ j * d) by (apply Z.mul_le_mono_nonneg_l; lia). lia.
  - intros k Hk Ek. replace (s - 3) with (j + k) in * by lia. rewrite pow2_split in D, L by lia. split.
    + apply (Z.mul_divide_cancel_l _ _ (2 ^ j)); [ lia | exact D ].
    + apply (Z.mul_le_mono_pos_l _ _ (2 ^ j)); assumption.
Qed.
