(* C03 — ModularExtended<float|double>: the additive operations (add, sub, neg and the tails of axpy/axmy/maxpy) are exact for
   every p <= maxCardinality (no rounding observable).  mul / reduce (FMA error-free product, floor(abh*_invp), one correction)
   are correspondence-tested only. *)
From Coq Require Import ZArith Bool Lia List.
From C03 Require Import Model ModelF ProofsBase ProofsInt ProofsFM.
Local Open Scope Z_scope.
Ltac Zify.zify_post_hook ::= idtac.

Definition ex_cfg (pe mx : Z) : Prop := (pe, mx) = (24, 2097151) \/ (pe, mx) = (53, 1125899906842623).
Definition EX_lin_stmt (pe mx p : Z) : Prop := ex_cfg pe mx -> 2 <= p <= mx -> forall a b, canon p a -> canon p b ->
  ex_add pe p a b = (a + b) mod p /\ ex_sub pe p a b = (a - b) mod p /\ ex_neg pe p a = (- a) mod p.

Lemma ex_lin_exact pe mx p : EX_lin_stmt pe mx p.
Proof.
  intros Hc Hp a b Ha Hb. unfold canon in *. unfold ex_add, ex_sub, ex_neg.
  rewrite (mod_add_small a b p), (mod_sub_small a b p), (mod_neg_small a p) by lia.
  destruct Hc as [Hc | Hc]; injection Hc as -> ->.
  - repeat split; stripf; lia.
  - repeat split; stripf; lia.
Qed.
