(* C03 — ModularExtended<float|double>, FMA path (modular-extended.inl, ModelF.v section EX): mul, reduce and the
   axpy family are exact for every p <= maxCardinality and canonical operands.
   Argument (all over Z, from the rounding layer ProofsRnd.v):  abh = rn(a*b) is an integer, abl = a*b - abh is small hence
   exact; the quotient estimate x = fl(abh * fl(1/p)) carries three roundings, |x - a*b/p| <= (3u+3u^2+u^3) a*b/p < 1/8, so
   q = floor x is off by at most one: -p <= a*b - q*p < 2p; then fma(-q,p,abh) and abl + pql are integers below 2^pe, hence
   exact, and the single correction of ex_fix lands in [0,p).  Both branches of the correction are needed (examples below). *)
From Coq Require Import ZArith Bool Lia List.
From C03 Require Import Model ModelF ProofsBase ProofsInt ProofsFM ProofsBI ProofsEX ProofsRnd.
Local Open Scope Z_scope.
Ltac Zify.zify_post_hook ::= idtac.

(* ex_mul before the final correction *)
Definition ex_mul_raw (pe p a b : Z) : Z :=
  let abh := rn pe (a * b) in
  let abl := rn pe (a * b - abh) in
  let q := floor_dy (mul_dy pe abh (div_dy pe 1 (rn pe p))) in
  let pql := rn pe (- q * p + abh) in
  rn pe (abl + pql).

Lemma ex_mul_raw_eq pe p a b : ex_mul pe p a b = ex_fix pe p (ex_mul_raw pe p a b).
Proof. unfold ex_mul, ex_mul_raw. cbv zeta. reflexivity. Qed.

Definition EX_mul_stmt (pe mx p : Z) : Prop := ex_cfg pe mx -> 2 <= p <= mx -> forall a b, canon p a -> canon p b ->
  ex_mul pe p a b = (a * b) mod p.
Definition EX_axpy_stmt (pe mx p : Z) : Prop := ex_cfg pe mx -> 2 <= p <= mx -> forall a x y, canon p a -> canon p x -> canon p y ->
  ex_axpy pe p a x y = (a * x + y) mod p /\ ex_axmy pe p a x y = (a * x - y) mod p /\ ex_maxpy pe p a x y = (y - a * x) mod p.
(* reduce: any integer-valued Element up to 2^(pe-1) in magnitude (up to 2^pe when p >= 3) *)
Definition EX_reduce_stmt (pe mx p : Z) : Prop := ex_cfg pe mx -> 2 <= p <= mx -> forall y,
  (Z.abs y <= 2 ^ (pe - 1) \/ (3 <= p /\ Z.abs y <= 2 ^ pe)) -> ex_reduce pe p y = y mod p.

(* (3u + 3u^2 + u^3) * P < p  when p <= 2^pe / 8 and P <= p^2 *)
Lemma m3_slack U p P : 0 < p -> 8 * p <= U -> 0 <= P <= p * p -> (3 * U * U + 3 * U + 1) * P < U * U * U * p.
Proof.
  intros Hp HU HP.
  assert (HM : 0 < 3 * U * U + 3 * U + 1) by nia.
  assert (HM2 : 3 * U * U + 3 * U + 1 <= 4 * U * U) by nia.
  set (M := 3 * U * U + 3 * U + 1) in *. clearbody M.
  assert (A1 : M * P <= M * (p * p)) by (apply Z.mul_le_mono_nonneg_l; lia).
  assert (A2 : (M * p) * (8 * p) <= (M * p) * U) by (apply Z.mul_le_mono_nonneg_l; nia).
  assert (A3 : M * (p * U) <= (4 * U * U) * (p * U)) by (apply Z.mul_le_mono_nonneg_r; nia).
  assert (A4 : 0 < U * U * U * p) by (repeat apply Z.mul_pos_pos; lia).
  lia.
Qed.

(* the quotient estimate of mul: three roundings *)
Lemma ex_quot_est pe p P : 0 < pe -> 0 < p -> 8 * p <= 2 ^ pe -> 0 <= P <= p * p ->
  - p <= P - floor_dy (mul_dy pe (rn pe P) (div_dy pe 1 p)) * p < 2 * p.
Proof.
  intros Hpe Hp HU HP.
  destruct (mul_inv_est pe p (rn pe P) Hpe Hp) as (Xn & t & Ht & -> & _ & Hest).
  pose proof (rn_err pe P Hpe) as Hr. pose proof (rn_nonneg pe P Hpe ltac:(lia)) as Hn.
  rewrite (Z.abs_eq P) in Hr by lia. rewrite (Z.abs_eq (rn pe P)) in Hest by lia.
  pose proof (pow2_pos t Ht) as HT. pose proof (pow2_pos pe ltac:(lia)) as HU0.
  set (U := 2 ^ pe) in *. set (T := 2 ^ t) in *. set (A := rn pe P) in *. clearbody U T A.
  apply floor_quot_tail; try assumption.
  assert (Htri : Z.abs (Xn * p - P * T) <= Z.abs (Xn * p - A * T) + Z.abs (A - P) * T).
  { replace (Xn * p - P * T) with ((Xn * p - A * T) + (A - P) * T) by ring.
    eapply Z.le_trans; [ apply Z.abs_triangle | ]. rewrite Z.abs_mul, (Z.abs_eq T) by lia. lia. }
  assert (HA : U * A <= U * P + P) by lia.
  pose proof (Z.abs_nonneg (Xn * p - A * T)). pose proof (Z.abs_nonneg (A - P)).
  set (E1 := Z.abs (Xn * p - A * T)) in *. set (E2 := Z.abs (A - P)) in *. set (G := Z.abs (Xn * p - P * T)) in *.
  clearbody E1 E2 G.
  pose proof (m3_slack U p P Hp HU HP) as Hs.
  assert (B1 : U * U * U * G <= U * U * U * (E1 + E2 * T)) by (apply Z.mul_le_mono_nonneg_l; [ nia | lia ]).
  assert (B2 : U * (U * U * E1) <= U * ((2 * U + 1) * (A * T))) by (apply Z.mul_le_mono_nonneg_l; lia).
  assert (B3 : (U * A) * ((2 * U + 1) * T) <= (U * P + P) * ((2 * U + 1) * T)) by (apply Z.mul_le_mono_nonneg_r; nia).
  assert (B4 : (U * E2) * (U * U * T) <= P * (U * U * T)) by (apply Z.mul_le_mono_nonneg_r; nia).
  assert (B5 : ((3 * U * U + 3 * U + 1) * P) * T < (U * U * U * p) * T) by (apply Z.mul_lt_mono_pos_r; lia).
  assert (B6 : U * U * U * G < U * U * U * (p * T)) by lia.
  apply Z.mul_lt_mono_pos_l in B6; [ exact B6 | repeat apply Z.mul_pos_pos; lia ].
Qed.

(* the correction step: any r = P - q*p in [-p, 2p) is brought to P mod p *)
Lemma ex_fix_mod pe p r P q : 0 < pe -> 0 < p -> 2 * p < 2 ^ pe -> r = P - q * p -> - p <= r < 2 * p ->
  ex_fix pe p r = P mod p.
Proof.
  intros Hpe Hp HU Er Hr. unfold ex_fix. destruct (Z.leb_spec p r).
  - rewrite rn_lt by lia. apply Z.mod_unique with (q + 1); lia.
  - destruct (Z.ltb_spec r 0).
    + rewrite rn_lt by lia. apply Z.mod_unique with (q - 1); lia.
    + apply Z.mod_unique with q; lia.
Qed.

Lemma ex_mul_raw_spec pe p a b : 0 < pe -> 2 <= p -> 8 * p <= 2 ^ pe -> canon p a -> canon p b ->
  exists q, ex_mul_raw pe p a b = a * b - q * p /\ - p <= a * b - q * p < 2 * p.
Proof.
  intros Hpe Hp HU Ha Hb. unfold canon in *. unfold ex_mul_raw. cbv zeta.
  pose proof (mul_lt_sq a b p Ha Hb) as HP. assert (HP2 : (p - 1) * (p - 1) <= p * p) by nia.
  set (P := a * b) in *. clearbody P.
  rewrite (rn_lt pe p) by lia.
  pose proof (ex_quot_est pe p P Hpe ltac:(lia) HU ltac:(lia)) as Hq.
  set (q := floor_dy (mul_dy pe (rn pe P) (div_dy pe 1 p))) in *. clearbody q.
  pose proof (rn_err pe P Hpe) as He. rewrite (Z.abs_eq P) in He by lia.
  pose proof (Z.abs_nonneg (rn pe P - P)) as He0.
  assert (Hsmall : 64 * Z.abs (rn pe P - P) <= 2 ^ pe).
  { set (E := Z.abs (rn pe P - P)) in *. set (U := 2 ^ pe) in *. clearbody E U.
    assert (A1 : (8 * p) * (8 * p) <= U * U) by (apply Z.mul_le_mono_nonneg; lia).
    assert (A2 : U * (64 * E) <= U * U) by lia.
    apply Z.mul_le_mono_pos_l in A2; lia. }
  set (abh := rn pe P) in *. clearbody abh.
  rewrite (rn_lt pe (P - abh)) by lia.
  rewrite (rn_lt pe (- q * p + abh)) by lia.
  rewrite (rn_lt pe (P - abh + (- q * p + abh))) by lia.
  exists q. split; lia.
Qed.

Lemma ex_mul_gen pe p a b : 0 < pe -> 2 <= p -> 8 * p <= 2 ^ pe -> canon p a -> canon p b ->
  ex_mul pe p a b = (a * b) mod p.
Proof.
  intros Hpe Hp HU Ha Hb. rewrite ex_mul_raw_eq.
  destruct (ex_mul_raw_spec pe p a b Hpe Hp HU Ha Hb) as (q & E & Hr).
  apply (ex_fix_mod pe p _ (a * b) q); try assumption; lia.
Qed.

Lemma ex_cfg_env pe mx p : ex_cfg pe mx -> 2 <= p <= mx -> 0 < pe /\ 8 * p <= 2 ^ pe.
Proof.
  intros [Hc | Hc] Hp; injection Hc as -> ->.
  - change (2 ^ 24) with 16777216. lia.
  - change (2 ^ 53) with 9007199254740992. lia.
Qed.

Theorem ex_mul_exact pe mx p : EX_mul_stmt pe mx p.
Proof.
  intros Hc Hp a b Ha Hb. destruct (ex_cfg_env pe mx p Hc Hp) as [Hpe HU].
  apply ex_mul_gen; try assumption; lia.
Qed.

Theorem ex_axpy_exact pe mx p : EX_axpy_stmt pe mx p.
Proof.
  intros Hc Hp a x y Ha Hx Hy. assert (Hp0 : 0 < p) by lia.
  pose proof (ex_mul_exact pe mx p Hc Hp a x Ha Hx) as Em.
  assert (Hm : canon p ((a * x) mod p)) by (apply Z.mod_pos_bound; lia).
  unfold ex_axpy, ex_axmy, ex_maxpy. rewrite Em.
  destruct (ex_lin_exact pe mx p Hc Hp _ y Hm Hy) as (E1 & E2 & _).
  destruct (ex_lin_exact pe mx p Hc Hp y _ Hy Hm) as (_ & E3 & _).
  rewrite E1, E2, E3. rewrite Z.add_mod_idemp_l, Zminus_mod_idemp_l, Zminus_mod_idemp_r by lia.
  repeat split; reflexivity.
Qed.

(* reduce: two roundings in the estimate *)
Lemma ex_reduce_gen pe p y : 0 < pe -> 2 <= p -> 8 * p <= 2 ^ pe ->
  (2 * 2 ^ pe + 1) * Z.abs y < 2 ^ pe * 2 ^ pe * p -> ex_reduce pe p y = y mod p.
Proof.
  intros Hpe Hp HU Hy. unfold ex_reduce. cbv zeta. rewrite (rn_lt pe p) by lia.
  destruct (mul_inv_est pe p y Hpe ltac:(lia)) as (Xn & t & Ht & -> & _ & Hest).
  pose proof (pow2_pos t Ht) as HT. pose proof (pow2_pos pe ltac:(lia)) as HU0.
  assert (Hq : - p <= y - Xn / 2 ^ t * p < 2 * p).
  { apply floor_quot_tail; try lia.
    set (U := 2 ^ pe) in *. set (T := 2 ^ t) in *. set (G := Z.abs (Xn * p - y * T)) in *. set (Y := Z.abs y) in *.
    clearbody U T G Y.
    assert (B1 : ((2 * U + 1) * Y) * T < (U * U * p) * T) by (apply Z.mul_lt_mono_pos_r; lia).
    assert (B2 : U * U * G < U * U * (p * T)) by lia.
    apply Z.mul_lt_mono_pos_l in B2; [ exact B2 | apply Z.mul_pos_pos; lia ]. }
  set (q := Xn / 2 ^ t) in *. clearbody q.
  rewrite (rn_lt pe (- q * p + y)) by lia.
  apply (ex_fix_mod pe p _ y q); try lia.
Qed.

Theorem ex_reduce_exact pe mx p : EX_reduce_stmt pe mx p.
Proof.
  intros Hc Hp y Hy. destruct (ex_cfg_env pe mx p Hc Hp) as [Hpe HU].
  apply ex_reduce_gen; try lia.
  pose proof (pow2_pos (pe - 1) ltac:(lia)) as Hh. rewrite (pow2_S pe) in * by lia.
  set (h := 2 ^ (pe - 1)) in *. set (Y := Z.abs y) in *. clearbody h Y.
  destruct Hy as [Hy | [Hp3 Hy]].
  - assert ((2 * (2 * h) + 1) * Y <= (2 * (2 * h) + 1) * h) by (apply Z.mul_le_mono_nonneg_l; lia).
    assert (2 * h * (2 * h) * 2 <= 2 * h * (2 * h) * p) by (apply Z.mul_le_mono_nonneg_l; nia).
    nia.
  - assert ((2 * (2 * h) + 1) * Y <= (2 * (2 * h) + 1) * (2 * h)) by (apply Z.mul_le_mono_nonneg_l; lia).
    assert (2 * h * (2 * h) * 3 <= 2 * h * (2 * h) * p) by (apply Z.mul_le_mono_nonneg_l; nia).
    nia.
Qed.

(* both correction branches of ex_fix are needed: canonical operands where the raw result is negative, resp. >= p *)
Theorem EX_mul_needs_neg_fix : exists p a b,
  2 <= p <= 1125899906842623 /\ canon p a /\ canon p b /\ ex_mul_raw 53 p a b < 0.
Proof.
  exists 1125899906842597, 617310115345394, 590673388087151. unfold canon.
  repeat split; try (apply Z.leb_le; vm_compute; reflexivity); apply Z.ltb_lt; vm_compute; reflexivity.
Qed.

Theorem EX_mul_needs_hi_fix : exists p a b,
  2 <= p <= 1125899906842623 /\ canon p a /\ canon p b /\ p <= ex_mul_raw 53 p a b.
Proof.
  exists 798962994896232, 533331205248643, 746807722972284. unfold canon.
  repeat split; try (apply Z.leb_le; vm_compute; reflexivity); apply Z.ltb_lt; vm_compute; reflexivity.
Qed.

(* the hypotheses are satisfiable, at the advertised maximum *)
Example ex_mul_hyps_sat : ex_cfg 53 1125899906842623 /\ 2 <= 1125899906842623 <= 1125899906842623 /\
  canon 1125899906842623 1125899906842622 /\
  ex_mul 53 1125899906842623 1125899906842622 1125899906842622 = 1.
Proof. unfold ex_cfg, canon. repeat split; try lia. right; reflexivity. Qed.

Print Assumptions ex_mul_exact.
Print Assumptions ex_axpy_exact.
Print Assumptions ex_reduce_exact.
Print Assumptions EX_mul_needs_neg_fix.
Print Assumptions EX_mul_needs_hi_fix.
Print Assumptions ex_mul_hyps_sat.
