(* C03 — extended_euclid<Storage_t> (modular-general.inl) as modelled in Model.v, for an arbitrary integer type T
   in which every value of [0, b] is representable both in T and in the promoted type the arithmetic runs in:
   by the determinant invariant u1*d + u0*r1 = b no intermediate value leaves [0, b], hence no conversion wraps;
   the result x satisfies 0 <= x <= b and x*a = gcd(a,b) (mod b). *)
From Coq Require Import ZArith Bool Lia List Znumtheory.
From C03 Require Import Model ProofsBase.
Local Open Scope Z_scope.
Ltac Zify.zify_post_hook ::= idtac.   (* plain lia/nia here: quotients are introduced by hand *)

Section Euclid.
Variable T : ity.
Variables a b : Z.
Hypothesis Hab : 0 <= a < b.
(* every value of [0,b] survives a conversion to T and an arithmetic result of T's promoted type *)
Hypothesis fitsT : forall z, 0 <= z <= b -> cast T z = z /\ ar T z = z.

Definition Inv (u0 u1 r1 d : Z) (ng : bool) : Prop :=
  0 <= r1 < d /\ d <= b /\ 0 <= u0 <= u1 /\ 0 <= u1 /\ u1 * d + u0 * r1 = b /\ Z.gcd r1 d = Z.gcd a b /\
  exists k0 k1, if ng then u0 * a = - d + k0 * b /\ u1 * a = r1 + k1 * b
                else u0 * a = d + k0 * b /\ u1 * a = - r1 + k1 * b.

Lemma fc z : 0 <= z <= b -> cast T z = z. Proof. intro H; apply (fitsT z H). Qed.
Lemma fa z : 0 <= z <= b -> ar T z = z. Proof. intro H; apply (fitsT z H). Qed.

Lemma step_arith u0 u1 r1 d ng : Inv u0 u1 r1 d ng -> r1 <> 0 ->
  let q := d / r1 in
  Z.quot d r1 = q /\ 0 <= q <= b /\ 0 <= q * u1 <= b /\ 0 <= q * u1 + u0 <= b /\ 0 <= q * r1 <= b /\
  0 <= d - q * r1 <= b /\ Inv u1 (q * u1 + u0) (d - q * r1) r1 (negb ng).
Proof.
  intros (Hr & Hd & H0 & H1 & Hdet & Hg & k0 & k1 & Hk) Hnz q.
  assert (Hq : Z.quot d r1 = q) by (apply Z.quot_div_nonneg; lia).
  assert (Hdm := Z.div_mod d r1 Hnz). assert (Hm := Z.mod_pos_bound d r1 ltac:(lia)).
  fold q in Hdm.
  assert (Hq1 : 1 <= q) by (apply Z.div_le_lower_bound; lia).
  assert (Hqr : q * r1 = d - d mod r1) by lia.
  assert (Hdet' : (q * u1 + u0) * r1 + u1 * (d - q * r1) = b) by (rewrite <- Hdet; ring).
  assert (0 <= q * u1) by (apply Z.mul_nonneg_nonneg; lia).
  assert (0 <= u1 * (d - q * r1)) by (apply Z.mul_nonneg_nonneg; lia).
  assert (Hu : q * u1 + u0 <= (q * u1 + u0) * r1).
  { rewrite <- (Z.mul_1_r (q * u1 + u0)) at 1. apply Z.mul_le_mono_nonneg_l; lia. }
  assert (Hqb : q <= b) by nia.
  assert (Hmono : u1 <= q * u1 + u0) by nia.
  repeat split; try lia.
  - replace (d - q * r1) with (d mod r1) by lia.
    rewrite Z.gcd_mod by lia. exact Hg.
  - destruct ng; cbn [negb]; destruct Hk as [E0 E1].
    + exists k1, (q * k1 + k0). split; [lia | ]. rewrite Z.mul_add_distr_r, <- Z.mul_assoc, E1, E0. ring.
    + exists k1, (q * k1 + k0). split; [lia | ]. rewrite Z.mul_add_distr_r, <- Z.mul_assoc, E1, E0. ring.
Qed.

(* the loop: whenever it returns, the returned triple satisfies the invariant with r1 = 0 *)
Lemma loop_ok fuel : forall u0 u1 r1 d ng res,
  Inv u0 u1 r1 d ng -> egcd_loop T fuel u0 u1 r1 d ng = Some res ->
  let '(x, g, n) := res in exists w, Inv x w 0 g n.
Proof.
  assert (C0 : cast T 0 = 0) by (apply fc; lia).
  induction fuel as [ | f IH]; intros u0 u1 r1 d ng res HI; cbn [egcd_loop]; rewrite C0.
  - destruct (Z.eqb_spec r1 0) as [-> | Hnz]; [ | discriminate ].
    intros [= <-]. exists u1. exact HI.
  - destruct (Z.eqb_spec r1 0) as [-> | Hnz].
    + intros [= <-]. exists u1. exact HI.
    + destruct (step_arith _ _ _ _ _ HI Hnz) as (Eq & Bq & Bqu & Bu & Bqr & Br & HI').
      rewrite Eq. rewrite (fa (d / r1)), (fc (d / r1)) by lia.
      rewrite (fa (d / r1 * u1)) by lia. rewrite (fa (d / r1 * u1 + u0)), (fc (d / r1 * u1 + u0)) by lia.
      rewrite (fa (d / r1 * r1)) by lia. rewrite (fa (d - d / r1 * r1)), (fc (d - d / r1 * r1)) by lia.
      intro E. exact (IH _ _ _ _ _ _ HI' E).
Qed.

(* the loop terminates: r1 strictly decreases *)
Lemma loop_terminates fuel : forall u0 u1 r1 d ng,
  Inv u0 u1 r1 d ng -> (Z.to_nat r1 <= fuel)%nat -> egcd_loop T fuel u0 u1 r1 d ng <> None.
Proof.
  assert (C0 : cast T 0 = 0) by (apply fc; lia).
  induction fuel as [ | f IH]; intros u0 u1 r1 d ng HI Hf; cbn [egcd_loop]; rewrite C0.
  - destruct (Z.eqb_spec r1 0) as [-> | Hnz]; [ discriminate | ]. destruct HI as (Hr & _). lia.
  - destruct (Z.eqb_spec r1 0) as [-> | Hnz]; [ discriminate | ].
    destruct (step_arith _ _ _ _ _ HI Hnz) as (Eq & Bq & Bqu & Bu & Bqr & Br & HI').
    rewrite Eq. rewrite (fa (d / r1)), (fc (d / r1)) by lia.
    rewrite (fa (d / r1 * u1)) by lia. rewrite (fa (d / r1 * u1 + u0)), (fc (d / r1 * u1 + u0)) by lia.
    rewrite (fa (d / r1 * r1)) by lia. rewrite (fa (d - d / r1 * r1)), (fc (d - d / r1 * r1)) by lia.
    apply IH; [ exact HI' | ].
    destruct HI as (Hr & _). destruct HI' as (Hr' & _). lia.
Qed.

Lemma Inv_init : Inv (cast T 0) (cast T 1) a b true.
Proof.
  rewrite !fc by lia. unfold Inv. repeat split; try lia.
  exists 1, 0. lia.
Qed.

(* extended_euclid: x in [0,b], d = gcd(a,b), x*a = d (mod b) *)
Definition EE_post (x g : Z) : Prop := 0 <= x <= b /\ g = Z.gcd a b /\ exists k, x * a = g + k * b.

Lemma extended_euclid_ok fuel x g : extended_euclid T fuel a b = Some (x, g) -> EE_post x g.
Proof.
  unfold extended_euclid. destruct (egcd_loop T fuel (cast T 0) (cast T 1) a b true) as [[[u0 d] ng] | ] eqn:E; [ | discriminate ].
  pose proof (loop_ok fuel _ _ _ _ _ _ Inv_init E) as [w (Hr & Hd & H0 & H1 & Hdet & Hg & k0 & k1 & Hk)]. cbn beta iota in *.
  rewrite Z.gcd_0_l, Z.abs_eq in Hg by lia. rewrite Z.mul_0_r, Z.add_0_r in Hdet.
  assert (Hw : w <= b) by nia.
  intros [= <- <-]. unfold EE_post.
  destruct ng; cbn [andb]; destruct Hk as [E0 E1].
  - destruct (Z.ltb_spec 0 u0).
    + rewrite (fa (b - u0)), (fc (b - u0)) by lia. repeat split; try lia.
      exists (a - k0). rewrite Z.mul_sub_distr_r, E0. ring.
    + assert (u0 = 0) by lia. subst u0. repeat split; try lia. exists (- k0). lia.
  - repeat split; try lia. exists k0. lia.
Qed.

Lemma extended_euclid_terminates : exists fuel, extended_euclid T fuel a b <> None.
Proof.
  exists (Z.to_nat a). unfold extended_euclid.
  destruct (egcd_loop T (Z.to_nat a) (cast T 0) (cast T 1) a b true) as [[[u0 d] ng] | ] eqn:E; [ discriminate | ].
  exfalso. exact (loop_terminates _ _ _ _ _ _ Inv_init (le_n _) E).
Qed.
End Euclid.
