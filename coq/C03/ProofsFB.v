(* C03 — the `#else` fallback branch of ModularExtended<float|double>::mul / ::reduce (modular-extended.inl; compiled when neither
   FP_FAST_FMA[F] nor __SSE_MATH__ is defined, e.g. -mfpmath=387), as modelled by fb_mul / fb_reduce of ModelDK.v:
     float : r = (float) fmod((double) a * (int64_t) b, (double) _p)            -- the product is below 2^42: exact in double
     double: ruint<6> a, b, p; lmul into ruint<7>; mod_n; back to double         -- exact 128-bit product
   For every p <= maxCardinality and canonical operands the result is (a*b) mod p; reduce: fmod then one correction. *)
From Coq Require Import ZArith Bool Lia List.
From C03 Require Import Model ModelF ModelDK ProofsBase ProofsInt ProofsFM ProofsEX.
Local Open Scope Z_scope.
Ltac Zify.zify_post_hook ::= idtac.

Definition FB_mul_stmt (pe mx p : Z) : Prop := ex_cfg pe mx -> 2 <= p <= mx -> forall a b, canon p a -> canon p b ->
  fb_mul pe p a b = (a * b) mod p.
Definition FB_reduce_stmt (pe mx p : Z) : Prop := ex_cfg pe mx -> 2 <= p <= mx -> forall y, Z.abs y <= 2 ^ pe ->
  fb_reduce pe p y = y mod p.

Lemma fb_mul_exact pe mx p : FB_mul_stmt pe mx p.
Proof.
  intros Hc Hp a b Ha Hb. unfold canon in *. pose proof (mul_lt_sq a b p Ha Hb) as Hab.
  assert (Hm := Z.mod_pos_bound (a * b) p ltac:(lia)).
  destruct Hc as [Hc | Hc]; injection Hc as -> ->; unfold fb_mul; cbn [Z.eqb Pos.eqb].
  - (* float *)
    pose proof (pm1_sq_le p 2097151 ltac:(lia)) as Hsq.
    rewrite (rn24_id p) by lia. rewrite (rn53_id p), (rn53_id a), (rn53_id b) by lia.
    rewrite (rn53_id (a * b)) by lia. rewrite rem_mod_nonneg by lia. apply rn24_id. lia.
  - (* double *)
    pose proof (pm1_sq_le p 1125899906842623 ltac:(lia)) as Hsq.
    change (2 ^ 64) with 18446744073709551616. change (2 ^ 128) with 340282366920938463463374607431768211456.
    rewrite (Z.mod_small a), (Z.mod_small b) by lia. rewrite (Z.mul_comm b a).
    rewrite (Z.mod_small (a * b) 340282366920938463463374607431768211456) by lia. apply rn53_id. lia.
Qed.

Lemma rem_bounds y p : 0 < p -> - p < Z.rem y p < p /\ exists k, y = Z.rem y p + k * p.
Proof.
  intros Hp. pose proof (Z.quot_rem' y p) as Hq. split.
  - destruct (Z_le_gt_dec 0 y).
    + pose proof (Z.rem_bound_pos_pos y p ltac:(lia) ltac:(lia)). lia.
    + replace y with (- - y) by lia. rewrite Z.rem_opp_l'. pose proof (Z.rem_bound_pos_pos (- y) p ltac:(lia) ltac:(lia)). lia.
  - exists (Z.quot y p). lia.
Qed.

Lemma fb_reduce_exact pe mx p : FB_reduce_stmt pe mx p.
Proof.
  intros Hc Hp y Hy. destruct (rem_bounds y p ltac:(lia)) as [Hr [k Hk]].
  assert (E : forall r, (exists j, y = r + j * p) -> 0 <= r < p -> r = y mod p).
  { intros r [j Hj] Hr'. apply Z.mod_unique with j; lia. }
  destruct Hc as [Hc | Hc]; injection Hc as -> ->; unfold fb_reduce, ex_fix.
  - rewrite (rn24_id p) by lia. set (r := Z.rem y p) in *. rewrite (rn24_id r) by lia.
    destruct (Z.leb_spec p r); [ lia | ]. destruct (Z.ltb_spec r 0).
    + rewrite (rn24_id (r + p)) by lia. apply E; [ exists (k - 1); lia | lia ].
    + apply E; [ exists k; lia | lia ].
  - rewrite (rn53_id p) by lia. set (r := Z.rem y p) in *. rewrite (rn53_id r) by lia.
    destruct (Z.leb_spec p r); [ lia | ]. destruct (Z.ltb_spec r 0).
    + rewrite (rn53_id (r + p)) by lia. apply E; [ exists (k - 1); lia | lia ].
    + apply E; [ exists k; lia | lia ].
Qed.

Example fb_hyps_sat : ex_cfg 24 2097151 /\ canon 2097151 2097150 /\ fb_mul 24 2097151 2097150 2097150 = 1 /\ fb_mul 53 1125899906842623 1125899906842622 1125899906842622 = 1.
Proof. unfold ex_cfg, canon. repeat split; try lia. left; reflexivity. Qed.
