(* C03 — extended_euclid<floating Storage_t> (modular-general.inl) as modelled by feuclid_loop / feuclid (ModelF.v):
   F1  the quotient  std::floor(u3 / v3)  computed from the correctly rounded floating quotient is the exact integer
       quotient whenever |u3| <= 2^prec and 0 < v3 <= 2^prec;
   F2  under "every integer of magnitude <= B is representable" (B <= 2^prec) no rounding happens anywhere in the loop:
       by the determinant invariant |u1|*v3 + |v1|*u3 = b all cofactors stay in [-b, b], all remainders in [0, B];
       the result (x, d) satisfies d = gcd(a,b), |x| <= b, x*a = d (mod b); the loop terminates;
   F3  inv / div / divin / isUnit of Modular<float|double[,double]>, ModularExtended<float|double>,
       ModularBalanced<float|double> for every advertised configuration and modulus. *)
From Coq Require Import ZArith Bool Lia List Znumtheory.
From C03 Require Import Model ModelF ProofsBase ProofsInt ProofsEuclid ProofsFM ProofsBI ProofsBF ProofsEX ProofsRnd ProofsEXM.
Local Open Scope Z_scope.
Ltac Zify.zify_post_hook ::= idtac.

(* ------------------------------------------------------------------ F1: floor of the rounded quotient *)
(* the rounded quotient is m * W / V with W = V * J (ulp J >= 2, an even integer): it is an integer and exact *)
Lemma fq_coarse P m J' n d : 0 < P -> (exists h, P = 2 * h) -> 1 <= J' -> 0 < d -> Z.abs n <= P ->
  P * Z.abs (m * (2 * J') * d - n) <= Z.abs n -> m * (2 * J') = n / d.
Proof.
  intros HP [h ->] HJ Hd Hn Hb.
  assert (HE : Z.abs (m * (2 * J') * d - n) <= 1) by nia.
  assert (E : m * (2 * J') * d - n = 0).
  { destruct (Z.eq_dec (m * (2 * J') * d - n) 0) as [ | Hne ]; [ assumption | exfalso ].
    assert (Hn2 : Z.abs n = 2 * h) by nia.
    assert (m * (2 * J') * d - n = 1 \/ m * (2 * J') * d - n = -1) as [E | E] by lia.
    - assert (2 * (m * J' * d) = n + 1) by (rewrite <- E; ring). lia.
    - assert (2 * (m * J' * d) = n - 1) by (replace (n - 1) with (n + -1) by lia; rewrite <- E; ring). lia. }
  replace n with (m * (2 * J') * d) by lia. rewrite Z.div_mul by lia. reflexivity.
Qed.

(* small arithmetic facts, proved in clean contexts *)
Lemma mul_eq_self x J : 0 < J -> x * J = J -> x = 1.
Proof. intros. nia. Qed.
Lemma mul_le_cancel_r x y J : 0 < J -> x * J <= y * J -> x <= y.
Proof. intros. nia. Qed.
Lemma mul_lt_cancel_r x y J : 0 < J -> x * J < y * J -> x < y.
Proof. intros. nia. Qed.
Lemma mul_one_pos c e : 0 <= c -> c * e = 1 -> c = 1 /\ e = 1.
Proof. intros Hc H. destruct (Z.mul_eq_1 c e H) as [-> | ->]; lia. Qed.
Lemma abs_mul_ge x d : 0 < d -> x <> 0 -> d <= Z.abs (x * d).
Proof. intros. rewrite Z.abs_mul. nia. Qed.

(* the boundary case of fq_fine: the rounded quotient would be the integer c = n/d + 1 *)
Lemma fq_boundary P h c J n d m : P = 2 * h -> 0 < P -> 1 <= J -> 0 < d <= P -> Z.abs n = P -> P <= 2 * Z.abs m ->
  m = c * J -> c * d = n + 1 -> 2 * J <= d -> False.
Proof.
  intros EP HP HJ Hd HnP Hm Em Ec H2J.
  assert (Hcm : 2 * Z.abs m = Z.abs c * (2 * J)) by (rewrite Em, Z.abs_mul, (Z.abs_eq J) by lia; ring).
  assert (Hcd : Z.abs c * d = Z.abs (n + 1)) by (rewrite <- Ec, Z.abs_mul, (Z.abs_eq d) by lia; ring).
  assert (Hle : Z.abs c * (2 * J) <= Z.abs c * d) by (apply Z.mul_le_mono_nonneg_l; lia).
  assert (Hn1 : Z.abs (n + 1) = P + 1 \/ Z.abs (n + 1) = P - 1) by lia.
  destruct Hn1 as [Hn1 | Hn1]; [ | lia ].
  assert (E2m : Z.abs c * (2 * J) = P).
  { assert (Z.abs c * (2 * J) = 2 * (Z.abs c * J)) by ring. lia. }
  assert (H1 : Z.abs c * (d - 2 * J) = 1) by (rewrite Z.mul_sub_distr_l; lia).
  destruct (mul_one_pos _ _ (Z.abs_nonneg c) H1) as [Hc1 Hd1].
  rewrite Hc1 in Hcd. lia.
Qed.

(* the rounded quotient is m / J (ulp 1/J, J >= 1) *)
Lemma fq_fine P m J n d : 0 < P -> (exists h, P = 2 * h) -> 1 <= J -> 0 < d <= P -> Z.abs n <= P -> P <= 2 * Z.abs m ->
  2 * Z.abs (m * d - n * J) <= d -> P * Z.abs (m * d - n * J) <= Z.abs n * J -> m / J = n / d.
Proof.
  intros HP [h EP] HJ Hd Hn Hm Ha Hb.
  pose proof (Z.div_mod n d ltac:(lia)) as En. pose proof (Z.mod_pos_bound n d ltac:(lia)) as Hr.
  set (Q := n / d) in *. set (r := n mod d) in *. clearbody Q r.
  set (E := m * d - n * J) in *.
  assert (HEJ : Z.abs E <= J).
  { apply mul_le_cancel_r with P; [ lia | ]. rewrite (Z.mul_comm (Z.abs E)), (Z.mul_comm J).
    apply Z.le_trans with (Z.abs n * J); [ assumption | apply Z.mul_le_mono_nonneg_r; lia ]. }
  assert (Emd : (m - Q * J) * d = r * J + E) by (unfold E; rewrite En; ring).
  (* 0 <= r*J + E < d*J *)
  assert (Hlo : 0 <= r * J + E /\ r * J + E < d * J).
  { destruct (Z.eq_dec r 0) as [-> | Hr0].
    - (* exact quotient: d | E and |E| <= d/2 *)
      assert (Ed : E = (m - Q * J) * d) by lia.
      assert (E0 : E = 0).
      { destruct (Z.eq_dec (m - Q * J) 0) as [Z0 | NZ]; [ rewrite Ed, Z0; ring | exfalso ].
        pose proof (abs_mul_ge _ d ltac:(lia) NZ). rewrite <- Ed in *. lia. }
      rewrite E0. assert (0 < d * J) by (apply Z.mul_pos_pos; lia). lia.
    - assert (H1 : 1 * J <= r * J) by (apply Z.mul_le_mono_nonneg_r; lia).
      split; [ lia | ].
      assert (Hdr : 1 * J <= (d - r) * J) by (apply Z.mul_le_mono_nonneg_r; lia).
      destruct (Z.eq_dec (r * J + E) (d * J)) as [Eq | ]; [ exfalso | lia ].
      assert (EJ : E = J) by lia.
      assert (Edr : d - r = 1) by (apply mul_eq_self with J; lia).
      assert (HnP : Z.abs n = P).
      { rewrite EJ, (Z.abs_eq J) in Hb by lia. pose proof (mul_le_cancel_r _ _ J ltac:(lia) Hb). lia. }
      assert (Em : m = (Q + 1) * J).
      { apply Z.mul_reg_r with d; [ lia | ]. replace m with (m - Q * J + Q * J) by ring.
        rewrite Z.mul_add_distr_r, Emd, EJ. replace r with (d - 1) by lia. ring. }
      assert (Ec : (Q + 1) * d = n + 1) by lia.
      assert (H2J : 2 * J <= d) by lia.
      exact (fq_boundary P h (Q + 1) J n d m EP HP HJ Hd HnP Hm Em Ec H2J). }
  destruct Hlo as [H0 H1].
  assert (0 <= m - Q * J < J).
  { rewrite <- Emd in H0, H1. split.
    - destruct (Z.lt_ge_cases (m - Q * J) 0) as [Hneg | ]; [ exfalso | assumption ].
      assert ((m - Q * J) * d <= -1 * d) by (apply Z.mul_le_mono_nonneg_r; lia). lia.
    - apply mul_lt_cancel_r with d; [ lia | ]. rewrite (Z.mul_comm J). exact H1. }
  symmetry. apply Z.div_unique with (m - Q * J); [ left; lia | ring ].
Qed.

Lemma mul_le_cancel_l x y W : 0 < W -> W * x <= W * y -> x <= y.
Proof. intros. nia. Qed.

Definition fquot_exact_stmt : Prop := forall prec n d, 0 < prec -> Z.abs n <= 2 ^ prec -> 0 < d <= 2 ^ prec ->
  floor_dy (div_dy prec n d) = n / d.

Theorem fquot_exact : fquot_exact_stmt.
Proof.
  intros prec n d Hp Hn Hd. destruct (Z.eq_dec n 0) as [-> | Hn0].
  - unfold div_dy. cbn [Z.eqb floor_dy Z.leb Z.compare Z.mul]. symmetry. apply Z.div_0_l. lia.
  - destruct (div_dy_err prec n d Hp Hn0 ltac:(lia)) as (k & s & m & Hk & Hs & E & Hm & Ha & Hb).
    rewrite E, floor_dy_frac by lia. rewrite (Z.abs_eq d) in Ha by lia.
    assert (EP : 2 ^ prec = 2 * 2 ^ (prec - 1)) by (apply pow2_S; lia).
    pose proof (pow2_pos prec ltac:(lia)) as HP. pose proof (pow2_pos s ltac:(lia)) as HW.
    pose proof (pow2_pos k Hk) as HV.
    set (P := 2 ^ prec) in *. set (h := 2 ^ (prec - 1)) in *. clearbody P h.
    destruct (Z.le_gt_cases s k) as [Hsk | Hsk].
    + assert (EV : 2 ^ k = 2 ^ s * 2 ^ (k - s)) by (rewrite <- pow2_add by lia; f_equal; lia).
      pose proof (pow2_pos (k - s) ltac:(lia)) as HJ.
      rewrite EV in *. set (W := 2 ^ s) in *. set (J := 2 ^ (k - s)) in *. clearbody W J.
      rewrite (Z.mul_comm m W), Z.div_mul_cancel_l by lia.
      replace (m * W * d - n * (W * J)) with (W * (m * d - n * J)) in Ha, Hb by ring.
      rewrite Z.abs_mul, (Z.abs_eq W) in Ha, Hb by lia.
      apply fq_fine with P; try lia; [ exists h; exact EP | | ].
      * apply mul_le_cancel_l with W; [ lia | ]. replace (W * (2 * Z.abs (m * d - n * J))) with (2 * (W * Z.abs (m * d - n * J))) by ring. exact Ha.
      * apply mul_le_cancel_l with W; [ lia | ].
        replace (W * (P * Z.abs (m * d - n * J))) with (P * (W * Z.abs (m * d - n * J))) by ring.
        replace (W * (Z.abs n * J)) with (Z.abs n * (W * J)) by ring. exact Hb.
    + assert (EW : 2 ^ s = 2 ^ k * (2 * 2 ^ (s - k - 1))).
      { rewrite <- (pow2_S (s - k)) by lia. rewrite <- pow2_add by lia. f_equal; lia. }
      pose proof (pow2_pos (s - k - 1) ltac:(lia)) as HJ.
      rewrite EW in *. set (V := 2 ^ k) in *. set (J' := 2 ^ (s - k - 1)) in *. clearbody V J'.
      replace (m * (V * (2 * J'))) with (m * (2 * J') * V) by ring. rewrite Z.div_mul by lia.
      replace (m * (V * (2 * J')) * d - n * V) with (V * (m * (2 * J') * d - n)) in Hb by ring.
      rewrite Z.abs_mul, (Z.abs_eq V) in Hb by lia.
      apply fq_coarse with P; try lia; [ exists h; exact EP | ].
      apply mul_le_cancel_l with V; [ lia | ].
      replace (V * (P * Z.abs (m * (2 * J') * d - n))) with (P * (V * Z.abs (m * (2 * J') * d - n))) by ring.
      rewrite (Z.mul_comm V (Z.abs n)). exact Hb.
Qed.
Print Assumptions fquot_exact.

(* ------------------------------------------------------------------ F2: the loop is the exact extended Euclid *)
Section FEuclid.
Variables (prec B a b : Z).
Hypothesis Hprec : 0 < prec.
Hypothesis HB : B <= 2 ^ prec.
Hypothesis Hb : 0 < b <= B.
Hypothesis Ha : - b <= a <= B.                       (* a may be negative (balanced rings), but not below -b *)
Hypothesis Hrn : forall z, Z.abs z <= B -> rn prec z = z.   (* integers of magnitude <= B are representable *)

(* loop-head invariant: u1 = sg*U1, v1 = -sg*V1 (alternating signs), determinant U1*v3 + V1*u3 = b *)
Definition FInv (u1 v1 u3 v3 : Z) : Prop := exists sg U1 V1,
  (sg = 1 \/ sg = -1) /\ u1 = sg * U1 /\ v1 = - sg * V1 /\ 0 <= U1 <= b /\ 0 <= V1 <= b /\
  0 <= v3 <= B /\ - B <= u3 <= B /\ (0 <= u3 \/ (V1 = 0 /\ - v3 <= u3)) /\
  U1 * v3 + V1 * u3 = b /\ Z.gcd u3 v3 = Z.gcd a b /\
  (exists k, u1 * a = u3 + k * b) /\ (exists k, v1 * a = v3 + k * b).

Lemma le_of_mul_le x v c : 0 <= x -> 1 <= v -> x * v <= c -> x <= c.
Proof. intros. nia. Qed.

Lemma quot_neg1 u v : 0 < v -> - v <= u < 0 -> u / v = -1.
Proof. intros Hv Hu. symmetry. apply Z.div_unique with (u + v); [ left; lia | ring ]. Qed.

Lemma fstep u1 v1 u3 v3 : FInv u1 v1 u3 v3 -> v3 <> 0 ->
  let q := u3 / v3 in
  Z.abs (q * v1) <= B /\ Z.abs (u1 - q * v1) <= B /\ Z.abs (q * v3) <= B /\ Z.abs (u3 - q * v3) <= B /\
  0 <= u3 - q * v3 < v3 /\ FInv v1 (u1 - q * v1) v3 (u3 - q * v3).
Proof.
  intros (sg & U1 & V1 & Hsg & -> & -> & HU & HV & Hv3 & Hu3 & Hcase & Hdet & Hg & [k1 E1] & [k2 E2]) Hnz q.
  assert (Hv3p : 0 < v3) by lia.
  pose proof (Z.div_mod u3 v3 Hnz) as Edm. pose proof (Z.mod_pos_bound u3 v3 Hv3p) as Hr. fold q in Edm.
  set (r := u3 mod v3) in *.
  assert (Er : u3 - q * v3 = r) by lia.
  (* q * V1 >= 0 and |q * v3| <= B *)
  assert (HqV : 0 <= q * V1 /\ Z.abs (q * v3) <= B).
  { destruct Hcase as [Hpos | [-> Hneg]].
    - assert (0 <= q) by (apply Z.div_pos; lia). split; [ apply Z.mul_nonneg_nonneg; lia | ].
      assert (0 <= q * v3) by (apply Z.mul_nonneg_nonneg; lia). lia.
    - split; [ lia | ]. destruct (Z.lt_ge_cases u3 0) as [Hn | Hn].
      + unfold q. rewrite (quot_neg1 u3 v3) by lia. lia.
      + assert (0 <= q) by (apply Z.div_pos; lia). assert (0 <= q * v3) by (apply Z.mul_nonneg_nonneg; lia). lia. }
  destruct HqV as [HqV Hqv3].
  assert (Hdet' : (U1 + q * V1) * v3 + V1 * r = b) by (rewrite <- Hdet, <- Er; ring).
  assert (HVr : 0 <= V1 * r) by (apply Z.mul_nonneg_nonneg; lia).
  assert (HV1' : U1 + q * V1 <= b) by (apply le_of_mul_le with v3; lia).
  assert (Eqv1 : q * (- sg * V1) = - sg * (q * V1)) by ring.
  assert (Eu1 : sg * U1 - q * (- sg * V1) = sg * (U1 + q * V1)) by ring.
  rewrite Er, Eu1, Eqv1.
  split; [ destruct Hsg as [-> | ->]; lia | ]. split; [ destruct Hsg as [-> | ->]; lia | ].
  split; [ exact Hqv3 | ]. split; [ lia | ]. split; [ lia | ].
  exists (- sg), V1, (U1 + q * V1).
  split; [ lia | ]. split; [ ring | ]. split; [ ring | ]. split; [ lia | ]. split; [ lia | ].
  split; [ lia | ]. split; [ lia | ]. split; [ left; lia | ]. split; [ lia | ].
  split; [ unfold r; rewrite Z.gcd_comm, Z.gcd_mod, Z.gcd_comm by lia; exact Hg | ].
  split; [ exists k2; exact E2 | ].
  exists (k1 - q * k2). replace (sg * (U1 + q * V1) * a) with (sg * U1 * a - q * (- sg * V1 * a)) by ring.
  rewrite E1, E2, <- Er. ring.
Qed.

Lemma floop_unfold fuel u1 v1 u3 v3 : FInv u1 v1 u3 v3 -> v3 <> 0 ->
  feuclid_loop prec (S fuel) u1 v1 u3 v3 =
  feuclid_loop prec fuel v1 (u1 - u3 / v3 * v1) v3 (u3 - u3 / v3 * v3).
Proof.
  intros HI Hnz. pose proof HI as (sg & U1 & V1 & _ & _ & _ & _ & _ & Hv3 & Hu3 & _).
  destruct (fstep _ _ _ _ HI Hnz) as (B1 & B2 & B3 & B4 & _ & _).
  cbn [feuclid_loop]. destruct (Z.eqb_spec v3 0) as [ | _ ]; [ contradiction | ].
  rewrite (fquot_exact prec u3 v3 Hprec) by lia.
  rewrite (Hrn (u3 / v3 * v1) B1), (Hrn _ B2), (Hrn (u3 / v3 * v3) B3), (Hrn _ B4). reflexivity.
Qed.

Lemma floop_ok fuel : forall u1 v1 u3 v3 x d, FInv u1 v1 u3 v3 ->
  feuclid_loop prec fuel u1 v1 u3 v3 = Some (x, d) -> exists v, FInv x v d 0.
Proof.
  induction fuel as [ | f IH]; intros u1 v1 u3 v3 x d HI.
  - cbn [feuclid_loop]. destruct (Z.eqb_spec v3 0) as [-> | Hnz]; [ | discriminate ].
    intros [= <- <-]. exists v1. exact HI.
  - destruct (Z.eq_dec v3 0) as [-> | Hnz].
    + cbn [feuclid_loop Z.eqb]. intros [= <- <-]. exists v1. exact HI.
    + rewrite (floop_unfold f _ _ _ _ HI Hnz).
      destruct (fstep _ _ _ _ HI Hnz) as (_ & _ & _ & _ & _ & HI'). exact (IH _ _ _ _ _ _ HI').
Qed.

Lemma floop_terminates fuel : forall u1 v1 u3 v3, FInv u1 v1 u3 v3 -> (Z.to_nat v3 <= fuel)%nat ->
  feuclid_loop prec fuel u1 v1 u3 v3 <> None.
Proof.
  induction fuel as [ | f IH]; intros u1 v1 u3 v3 HI Hf.
  - cbn [feuclid_loop]. destruct (Z.eqb_spec v3 0) as [-> | Hnz]; [ discriminate | ].
    destruct HI as (sg & U1 & V1 & _ & _ & _ & _ & _ & Hv3 & _). lia.
  - destruct (Z.eq_dec v3 0) as [-> | Hnz]; [ cbn [feuclid_loop Z.eqb]; discriminate | ].
    rewrite (floop_unfold f _ _ _ _ HI Hnz).
    destruct (fstep _ _ _ _ HI Hnz) as (_ & _ & _ & _ & Hr & HI'). apply IH; [ exact HI' | ].
    destruct HI as (sg & U1 & V1 & _ & _ & _ & _ & _ & Hv3 & _). lia.
Qed.

Lemma FInv_init : FInv 1 0 a b.
Proof.
  exists 1, 1, 0.
  split; [ left; reflexivity | ]. split; [ reflexivity | ]. split; [ reflexivity | ]. split; [ lia | ]. split; [ lia | ].
  split; [ lia | ]. split; [ lia | ].
  split; [ destruct (Z.lt_ge_cases a 0); [ right | left ]; lia | ].
  split; [ lia | ]. split; [ reflexivity | ]. split; [ exists 0; lia | exists (-1); lia ].
Qed.

(* result (x, d) of extended_euclid: d = gcd(a,b), |x| <= b, x*a = d (mod b) *)
Definition FE_post (x d : Z) : Prop := d = Z.gcd a b /\ Z.abs x <= b /\ exists k, x * a = d + k * b.

Theorem feuclid_ok fuel x d : feuclid prec fuel a b = Some (x, d) -> FE_post x d.
Proof.
  unfold feuclid. intros E.
  destruct (floop_ok fuel _ _ _ _ _ _ FInv_init E) as
    (v & sg & U1 & V1 & Hsg & -> & _ & HU & HV & _ & Hd & Hcase & Hdet & Hg & Hk & _).
  unfold FE_post. split; [ | split; [ destruct Hsg as [-> | ->]; lia | exact Hk ] ].
  rewrite Z.gcd_0_r in Hg. destruct Hcase as [Hpos | [-> _]]; [ lia | lia ].
Qed.

Theorem feuclid_terminates : forall fuel, (Z.to_nat b <= fuel)%nat -> feuclid prec fuel a b <> None.
Proof. intros fuel Hf. unfold feuclid. apply floop_terminates; [ exact FInv_init | exact Hf ]. Qed.
End FEuclid.

Definition feuclid_exact_stmt : Prop := forall prec B a b, 0 < prec -> B <= 2 ^ prec -> 0 < b <= B -> - b <= a <= B ->
  (forall z, Z.abs z <= B -> rn prec z = z) ->
  (forall fuel x d, feuclid prec fuel a b = Some (x, d) -> FE_post a b x d) /\
  (forall fuel, (Z.to_nat b <= fuel)%nat -> feuclid prec fuel a b <> None).
Theorem feuclid_exact : feuclid_exact_stmt.
Proof.
  intros prec B a b H1 H2 H3 H4 H5. split.
  - intros fuel x d. exact (feuclid_ok prec B a b H1 H2 H3 H4 H5 fuel x d).
  - exact (feuclid_terminates prec B a b H1 H2 H3 H4 H5).
Qed.
Print Assumptions feuclid_exact.

(* ================================================================== F3: inv / div / divin / isUnit of the floating-point
   residue rings (FM, EX, BF of ModelF.v) through the exact floating extended Euclid above *)
(* ------------------------------------------------------------------ generic consequences *)
Section Core.
Variables (prec B p : Z).
Hypothesis Hprec : 0 < prec.
Hypothesis HB : B <= 2 ^ prec.
Hypothesis Hp : 2 <= p <= B.
Hypothesis Hrn : forall z, Z.abs z <= B -> rn prec z = z.

Lemma core_euclid a : - p < a < p ->
  (forall fuel x d, feuclid prec fuel a p = Some (x, d) -> FE_post a p x d) /\
  (exists fuel, feuclid prec fuel a p <> None).
Proof using Hprec HB Hp Hrn.
  intros Ha. destruct (feuclid_exact prec B a p Hprec HB ltac:(lia) ltac:(lia) Hrn) as [H1 H2].
  split; [ exact H1 | exists (Z.to_nat p); apply H2; lia ].
Qed.

(* the Bezout coefficient of a unit is nonzero modulo p, hence |x| < p *)
Lemma core_inv a : - p < a < p -> Z.gcd a p = 1 -> forall fuel x d, feuclid prec fuel a p = Some (x, d) ->
  d = 1 /\ - p < x < p /\ exists k, x * a = 1 + k * p.
Proof using Hprec HB Hp Hrn.
  intros Ha Hg fuel x d E. destruct (core_euclid a Ha) as [H1 _].
  destruct (H1 fuel x d E) as (-> & Hx & k & Hk). rewrite Hg in Hk |- *.
  split; [ reflexivity | ]. split; [ | exists k; exact Hk ].
  assert (x <> p /\ x <> - p); [ | lia ]. split; intros ->.
  - assert (Hm : p * (a - k) = 1) by lia. destruct (Z.mul_eq_1 _ _ Hm); lia.
  - assert (Hm : p * (- a - k) = 1) by lia. destruct (Z.mul_eq_1 _ _ Hm); lia.
Qed.

(* x < 0 ? x + p : x *)
Lemma core_norm a x k : - p < x < p -> x * a = 1 + k * p ->
  let r := if x <? 0 then rn prec (x + p) else x in canon p r /\ (a * r) mod p = 1.
Proof using Hprec HB Hp Hrn.
  intros Hx Hk. cbv zeta. unfold canon. destruct (Z.ltb_spec x 0).
  - rewrite Hrn by lia. split; [ lia | ].
    replace (a * (x + p)) with (x * a + a * p) by ring. rewrite Hk. replace (1 + k * p + a * p) with (1 + (k + a) * p) by ring.
    rewrite Z.mod_add by lia. apply Z.mod_small; lia.
  - split; [ lia | ]. rewrite Z.mul_comm, Hk, Z.mod_add by lia. apply Z.mod_small; lia.
Qed.

(* mul(a, inv b) *)
Lemma core_div a b ib : canon p a -> (b * ib) mod p = 1 -> canon p ((a * ib) mod p) /\ ((a * ib) mod p * b) mod p = a.
Proof using Hprec HB Hp Hrn.
  unfold canon. intros Ha Hm. split; [ apply Z.mod_pos_bound; lia | ].
  rewrite Z.mul_mod_idemp_l by lia. replace (a * ib * b) with (a * (b * ib)) by ring.
  rewrite <- Z.mul_mod_idemp_r, Hm, Z.mul_1_r by lia. apply Z.mod_small; lia.
Qed.

(* isOne(d) || isMOne(d) with d = gcd(a,p) >= 0 and mOne = p - 1: the second disjunct fires only for p = 2, d = 1 *)
Lemma core_unit a : ((Z.gcd a p =? 1) || (Z.gcd a p =? p - 1) = true) <-> Z.gcd a p = 1.
Proof using Hprec HB Hp Hrn.
  rewrite orb_true_iff, !Z.eqb_eq. split; [ | tauto ].
  intros [ ? | Hm ]; [ assumption | ].
  assert (D : (Z.gcd a p | p)) by apply Z.gcd_divide_r. rewrite Hm in D |- *.
  assert (D1 : (p - 1 | 1)).
  { apply (Z.divide_add_cancel_r (p - 1) (p - 1) 1); [ apply Z.divide_refl | replace (p - 1 + 1) with p by lia; exact D ]. }
  apply Z.divide_1_r_nonneg in D1; lia.
Qed.
End Core.

(* ------------------------------------------------------------------ FM: Modular<float|double, Compute_t> *)
Definition FM_inv_stmt := forall pe pc mx p, fm_cfg pe pc mx -> 2 <= p <= mx ->
  forall a, canon p a -> Z.gcd a p = 1 ->
  (forall fuel r, fm_inv pe pc p fuel a = Some r -> canon p r /\ (a * r) mod p = 1) /\
  (exists fuel, fm_inv pe pc p fuel a <> None).
Definition FM_div_stmt := forall pe pc mx p, fm_cfg pe pc mx -> 2 <= p <= mx ->
  forall a b, canon p a -> canon p b -> Z.gcd b p = 1 ->
  ((forall fuel r, fm_div pe pc p fuel a b = Some r -> canon p r /\ (r * b) mod p = a) /\
   (exists fuel, fm_div pe pc p fuel a b <> None)) /\
  ((forall fuel r, fm_divin pe pc p fuel a b = Some r -> canon p r /\ (r * b) mod p = a) /\
   (exists fuel, fm_divin pe pc p fuel a b <> None)).
Definition FM_isUnit_stmt := forall pe pc mx p, fm_cfg pe pc mx -> 2 <= p <= mx ->
  forall a, canon p a ->
  (forall fuel u, fm_isUnit pe p fuel a = Some u -> (u = true <-> Z.gcd a p = 1)) /\
  (exists fuel, fm_isUnit pe p fuel a <> None).

Lemma fm_cfg_env pe pc mx : fm_cfg pe pc mx ->
  0 < pe /\ mx <= 2 ^ pe /\ (forall z, Z.abs z <= mx -> rn pe z = z) /\ (forall z, Z.abs z <= mx -> rn pc z = z).
Proof.
  intros [Hc | [Hc | Hc]]; injection Hc as -> -> ->.
  - change (2 ^ 24) with 16777216. repeat split; try lia; intros z Hz; apply rn24_id; lia.
  - change (2 ^ 24) with 16777216. repeat split; try lia; intros z Hz; [ apply rn24_id | apply rn53_id ]; lia.
  - change (2 ^ 53) with 9007199254740992. repeat split; try lia; intros z Hz; apply rn53_id; lia.
Qed.

Lemma fm_inv_exact : FM_inv_stmt.
Proof.
  intros pe pc mx p Hc Hp a Ha Hg. destruct (fm_cfg_env pe pc mx Hc) as (Hpe & HB & Hre & Hrc).
  assert (Epc : rn pe (rn pc p) = p) by (rewrite (Hrc p), (Hre p); lia).
  unfold canon in Ha. unfold fm_inv. rewrite Epc, rn_0. split.
  - intros fuel r. destruct (feuclid pe fuel a p) as [[x d] | ] eqn:E; [ | discriminate ].
    destruct (core_inv pe mx p Hpe HB Hp Hre a ltac:(lia) Hg fuel x d E) as (_ & Hx & k & Hk).
    intros [= <-]. exact (core_norm pe mx p Hpe HB Hp Hre a x k Hx Hk).
  - destruct (core_euclid pe mx p Hpe HB Hp Hre a ltac:(lia)) as [_ [fuel Hf]]. exists fuel.
    destruct (feuclid pe fuel a p) as [[x d] | ]; [ discriminate | contradiction ].
Qed.

Lemma fm_div_exact : FM_div_stmt.
Proof.
  intros pe pc mx p Hc Hp a b Ha Hb Hg. destruct (fm_inv_exact pe pc mx p Hc Hp b Hb Hg) as [Hi [fuel Hf]].
  destruct (fm_cfg_env pe pc mx Hc) as (Hpe & HB & Hre & _).
  assert (HP : FM_pre pe pc mx p) by (split; assumption).
  assert (Hmul : forall ib, canon p ib -> fm_mul pe pc p a ib = (a * ib) mod p).
  { intros ib Hib. destruct (fm_exact pe pc mx p HP a ib a Ha Hib Ha) as (_ & _ & _ & _ & E & _). exact E. }
  split; split.
  - intros fl r. unfold fm_div. destruct (fm_inv pe pc p fl b) as [ib | ] eqn:E; [ | discriminate ].
    destruct (Hi fl ib E) as [Hcn Hm]. intros [= <-]. rewrite (Hmul ib Hcn). exact (core_div pe mx p Hpe HB Hp Hre a b ib Ha Hm).
  - exists fuel. unfold fm_div. destruct (fm_inv pe pc p fuel b); [ discriminate | contradiction ].
  - intros fl r. unfold fm_divin. destruct (fm_inv pe pc p fl b) as [ib | ] eqn:E; [ | discriminate ].
    destruct (Hi fl ib E) as [Hcn Hm]. intros [= <-]. rewrite (Hmul ib Hcn). exact (core_div pe mx p Hpe HB Hp Hre a b ib Ha Hm).
  - exists fuel. unfold fm_divin. destruct (fm_inv pe pc p fuel b); [ discriminate | contradiction ].
Qed.

Lemma fm_isUnit_exact : FM_isUnit_stmt.
Proof.
  intros pe pc mx p Hc Hp a Ha. destruct (fm_cfg_env pe pc mx Hc) as (Hpe & HB & Hre & _).
  unfold canon in Ha. unfold fm_isUnit. rewrite (Hre p), (Hre (p - 1)), (Hre (p - 1)) by lia.
  destruct (core_euclid pe mx p Hpe HB Hp Hre a ltac:(lia)) as [H1 [fuel Hf]]. split.
  - intros fl u. destruct (feuclid pe fl a p) as [[x d] | ] eqn:E; [ | discriminate ].
    destruct (H1 fl x d E) as (-> & _). intros [= <-]. exact (core_unit pe mx p Hpe HB Hp Hre a).
  - exists fuel. destruct (feuclid pe fuel a p) as [[x d] | ]; [ discriminate | contradiction ].
Qed.

(* ------------------------------------------------------------------ EX: ModularExtended<float|double> *)
Definition EX_inv_stmt := forall pe mx p, ex_cfg pe mx -> 2 <= p <= mx ->
  forall a, canon p a -> Z.gcd a p = 1 ->
  (forall fuel r, ex_inv pe p fuel a = Some r -> canon p r /\ (a * r) mod p = 1) /\
  (exists fuel, ex_inv pe p fuel a <> None).
Definition EX_div_stmt := forall pe mx p, ex_cfg pe mx -> 2 <= p <= mx ->
  forall a b, canon p a -> canon p b -> Z.gcd b p = 1 ->
  ((forall fuel r, ex_div pe p fuel a b = Some r -> canon p r /\ (r * b) mod p = a) /\
   (exists fuel, ex_div pe p fuel a b <> None)) /\
  ((forall fuel r, ex_divin pe p fuel a b = Some r -> canon p r /\ (r * b) mod p = a) /\
   (exists fuel, ex_divin pe p fuel a b <> None)).
Definition EX_isUnit_stmt := forall pe mx p, ex_cfg pe mx -> 2 <= p <= mx ->
  forall a, canon p a ->
  (forall fuel u, ex_isUnit pe p fuel a = Some u -> (u = true <-> Z.gcd a p = 1)) /\
  (exists fuel, ex_isUnit pe p fuel a <> None).

Lemma ex_cfg_env' pe mx : ex_cfg pe mx -> 0 < pe /\ mx <= 2 ^ pe /\ (forall z, Z.abs z <= mx -> rn pe z = z).
Proof.
  intros [Hc | Hc]; injection Hc as -> ->.
  - change (2 ^ 24) with 16777216. repeat split; try lia; intros z Hz; apply rn24_id; lia.
  - change (2 ^ 53) with 9007199254740992. repeat split; try lia; intros z Hz; apply rn53_id; lia.
Qed.

Lemma ex_inv_exact : EX_inv_stmt.
Proof.
  intros pe mx p Hc Hp a Ha Hg. destruct (ex_cfg_env' pe mx Hc) as (Hpe & HB & Hre).
  unfold canon in Ha. unfold ex_inv. split.
  - intros fuel r. destruct (feuclid pe fuel a p) as [[x d] | ] eqn:E; [ | discriminate ].
    destruct (core_inv pe mx p Hpe HB Hp Hre a ltac:(lia) Hg fuel x d E) as (_ & Hx & k & Hk).
    intros [= <-]. exact (core_norm pe mx p Hpe HB Hp Hre a x k Hx Hk).
  - destruct (core_euclid pe mx p Hpe HB Hp Hre a ltac:(lia)) as [_ [fuel Hf]]. exists fuel.
    destruct (feuclid pe fuel a p) as [[x d] | ]; [ discriminate | contradiction ].
Qed.

Lemma ex_div_exact : EX_div_stmt.
Proof.
  intros pe mx p Hc Hp a b Ha Hb Hg. destruct (ex_inv_exact pe mx p Hc Hp b Hb Hg) as [Hi [fuel Hf]].
  destruct (ex_cfg_env' pe mx Hc) as (Hpe & HB & Hre).
  assert (Hmul : forall ib, canon p ib -> ex_mul pe p a ib = (a * ib) mod p).
  { intros ib Hib. exact (ex_mul_exact pe mx p Hc Hp a ib Ha Hib). }
  split; split.
  - intros fl r. unfold ex_div. destruct (ex_inv pe p fl b) as [ib | ] eqn:E; [ | discriminate ].
    destruct (Hi fl ib E) as [Hcn Hm]. intros [= <-]. rewrite (Hmul ib Hcn). exact (core_div pe mx p Hpe HB Hp Hre a b ib Ha Hm).
  - exists fuel. unfold ex_div. destruct (ex_inv pe p fuel b); [ discriminate | contradiction ].
  - intros fl r. unfold ex_divin. destruct (ex_inv pe p fl b) as [ib | ] eqn:E; [ | discriminate ].
    destruct (Hi fl ib E) as [Hcn Hm]. intros [= <-]. rewrite (Hmul ib Hcn). exact (core_div pe mx p Hpe HB Hp Hre a b ib Ha Hm).
  - exists fuel. unfold ex_divin. destruct (ex_inv pe p fuel b); [ discriminate | contradiction ].
Qed.

Lemma ex_isUnit_exact : EX_isUnit_stmt.
Proof.
  intros pe mx p Hc Hp a Ha. destruct (ex_cfg_env' pe mx Hc) as (Hpe & HB & Hre).
  unfold canon in Ha. unfold ex_isUnit. rewrite (Hre p), (Hre (p - 1)) by lia.
  destruct (core_euclid pe mx p Hpe HB Hp Hre a ltac:(lia)) as [H1 [fuel Hf]]. split.
  - intros fl u. destruct (feuclid pe fl a p) as [[x d] | ] eqn:E; [ | discriminate ].
    destruct (H1 fl x d E) as (-> & _). intros [= <-]. exact (core_unit pe mx p Hpe HB Hp Hre a).
  - exists fuel. destruct (feuclid pe fuel a p) as [[x d] | ]; [ discriminate | contradiction ].
Qed.

(* ------------------------------------------------------------------ BF: ModularBalanced<float|double> *)
(* the operand handed to invext may be negative (balanced representation); the result is NORMALISEd *)
Definition BF_inv_stmt := forall pe mx p, bf_cfg pe mx -> 3 <= p <= mx ->
  forall a, bal_canon p a -> Z.gcd a p = 1 ->
  (forall fuel r, bf_inv pe p fuel a = Some r -> bal_canon p r /\ (a * r) mod p = 1) /\
  (exists fuel, bf_inv pe p fuel a <> None).
Definition BF_div_stmt := forall pe mx p, bf_cfg pe mx -> 3 <= p <= mx ->
  forall a b, bal_canon p a -> bal_canon p b -> Z.gcd b p = 1 ->
  (forall fuel r, bf_div pe p fuel a b = Some r -> bal_canon p r /\ bal_rep p (r * b) = a) /\
  (exists fuel, bf_div pe p fuel a b <> None).
Definition BF_isUnit_stmt := forall pe mx p, bf_cfg pe mx -> 3 <= p <= mx ->
  forall a, bal_canon p a ->
  (forall fuel u, bf_isUnit pe p fuel a = Some u -> (u = true <-> Z.gcd a p = 1)) /\
  (exists fuel, bf_isUnit pe p fuel a <> None).

Lemma bf_cfg_env pe mx : bf_cfg pe mx -> 0 < pe /\ mx <= 2 ^ pe /\ (forall z, Z.abs z <= mx -> rn pe z = z).
Proof.
  intros [Hc | Hc]; injection Hc as -> ->.
  - change (2 ^ 24) with 16777216. repeat split; try lia; intros z Hz; apply rn24_id; lia.
  - change (2 ^ 53) with 9007199254740992. repeat split; try lia; intros z Hz; apply rn53_id; lia.
Qed.

Lemma bal_range p a : 3 <= p -> bal_canon p a -> - p < a < p.
Proof.
  intros Hp [H1 H2]. assert (Hd := Z.div_mod p 2 ltac:(lia)). assert (Hm := Z.mod_pos_bound p 2 ltac:(lia)). lia.
Qed.

(* NORMALISE of any x in (-p, p) *)
Lemma bf_norm_ok pe mx p : bf_cfg pe mx -> 3 <= p <= mx -> forall x, - p < x < p ->
  bal_canon p (bf_norm pe p x) /\ exists k, x = bf_norm pe p x + k * p.
Proof.
  intros Hc Hp x Hx.
  assert (Hd := Z.div_mod p 2 ltac:(lia)). assert (Hm := Z.mod_pos_bound p 2 ltac:(lia)).
  destruct Hc as [Hc | Hc]; injection Hc as -> ->.
  - assert (Hh : floor_dy (div_dy 24 p 2) = p / 2) by (apply halfp_ok; [ lia | change (2 ^ 24) with 16777216; lia ]).
    apply (bf_norm_exact 24 p 16777216 rn24_id Hh); lia.
  - assert (Hh : floor_dy (div_dy 53 p 2) = p / 2) by (apply halfp_ok; [ lia | change (2 ^ 53) with 9007199254740992; lia ]).
    apply (bf_norm_exact 53 p 9007199254740992 rn53_id Hh); lia.
Qed.

Lemma bf_inv_exact : BF_inv_stmt.
Proof.
  intros pe mx p Hc Hp a Ha Hg. destruct (bf_cfg_env pe mx Hc) as (Hpe & HB & Hre).
  pose proof (bal_range p a ltac:(lia) Ha) as Har. unfold bf_inv. split.
  - intros fuel r. destruct (feuclid pe fuel a p) as [[x d] | ] eqn:E; [ | discriminate ].
    destruct (core_inv pe mx p Hpe HB ltac:(lia) Hre a Har Hg fuel x d E) as (_ & Hx & k & Hk).
    intros [= <-]. destruct (bf_norm_ok pe mx p Hc Hp x Hx) as [Hcn [j Hj]]. split; [ exact Hcn | ].
    set (r := bf_norm pe p x) in *. clearbody r.
    replace (a * r) with (1 + (k - j * a) * p) by (rewrite Z.mul_sub_distr_r, (Z.mul_comm a r); replace r with (x - j * p) by lia; rewrite Z.mul_sub_distr_r, Hk; ring).
    rewrite Z.mod_add by lia. apply Z.mod_small; lia.
  - destruct (core_euclid pe mx p Hpe HB ltac:(lia) Hre a Har) as [_ [fuel Hf]]. exists fuel.
    destruct (feuclid pe fuel a p) as [[x d] | ]; [ discriminate | contradiction ].
Qed.

Lemma bal_rep_spec p x : 0 < p -> bal_canon p (bal_rep p x) /\ exists k, x = bal_rep p x + k * p.
Proof.
  intros Hp. assert (Hd := Z.div_mod p 2 ltac:(lia)). assert (Hm := Z.mod_pos_bound p 2 ltac:(lia)).
  pose proof (Z.div_mod x p ltac:(lia)) as Ex. pose proof (Z.mod_pos_bound x p Hp) as Hr.
  unfold bal_rep, bal_canon. cbv zeta. destruct (Z.ltb_spec (p / 2) (x mod p)).
  - split; [ lia | exists (x / p + 1); lia ].
  - split; [ lia | exists (x / p); lia ].
Qed.

Lemma bf_div_exact : BF_div_stmt.
Proof.
  intros pe mx p Hc Hp a b Ha Hb Hg. destruct (bf_inv_exact pe mx p Hc Hp b Hb Hg) as [Hi [fuel Hf]].
  destruct (bf_exact pe mx p Hc Hp) as [_ Hops]. split.
  - intros fl r. unfold bf_div. destruct (bf_inv pe p fl b) as [ib | ] eqn:E; [ | discriminate ].
    destruct (Hi fl ib E) as [Hcn Hm]. intros [= <-].
    destruct (Hops a ib a Ha Hcn Ha) as (_ & _ & -> & _).
    destruct (bal_rep_spec p (a * ib) ltac:(lia)) as [Hcr [j Hj]]. split; [ exact Hcr | ].
    set (r := bal_rep p (a * ib)) in *. clearbody r.
    apply bal_rep_unique; [ lia | exact Ha | ].
    (* r * b = a * (b * ib) - j p b,  b * ib = 1 + m p *)
    pose proof (Z.div_mod (b * ib) p ltac:(lia)) as Eb. rewrite Hm in Eb.
    exists (a * (b * ib / p) - j * b).
    replace r with (a * ib - j * p) by lia.
    replace ((a * ib - j * p) * b) with (a * (b * ib) - j * b * p) by ring. rewrite Eb at 1. ring.
  - exists fuel. unfold bf_div. destruct (bf_inv pe p fuel b); [ discriminate | contradiction ].
Qed.

Lemma bf_isUnit_exact : BF_isUnit_stmt.
Proof.
  intros pe mx p Hc Hp a Ha. destruct (bf_cfg_env pe mx Hc) as (Hpe & HB & Hre).
  pose proof (bal_range p a ltac:(lia) Ha) as Har. unfold bf_isUnit.
  destruct (core_euclid pe mx p Hpe HB ltac:(lia) Hre a Har) as [H1 [fuel Hf]]. split.
  - intros fl u. destruct (feuclid pe fl a p) as [[x d] | ] eqn:E; [ | discriminate ].
    destruct (H1 fl x d E) as (-> & _). intros [= <-]. rewrite orb_true_iff, !Z.eqb_eq.
    pose proof (Z.gcd_nonneg a p). split; [ intros [ ? | ? ]; lia | tauto ].
  - exists fuel. destruct (feuclid pe fuel a p) as [[x d] | ]; [ discriminate | contradiction ].
Qed.

(* ------------------------------------------------------------------ the hypotheses are satisfiable *)
Example fm_inv_hyps_sat : exists pe pc mx p a, fm_cfg pe pc mx /\ 2 <= p <= mx /\ canon p a /\ Z.gcd a p = 1.
Proof. exists 24, 53, 16777216, 16777216, 16777215. unfold fm_cfg, canon. split; [ tauto | ]. split; [ lia | ]. split; [ lia | reflexivity ]. Qed.
Example ex_inv_hyps_sat : exists pe mx p a, ex_cfg pe mx /\ 2 <= p <= mx /\ canon p a /\ Z.gcd a p = 1.
Proof. exists 53, 1125899906842623, 1125899906842623, 1125899906842622. unfold ex_cfg, canon. split; [ tauto | ]. split; [ lia | ]. split; [ lia | reflexivity ]. Qed.
Example bf_inv_hyps_sat : exists pe mx p a, bf_cfg pe mx /\ 3 <= p <= mx /\ bal_canon p a /\ a < 0 /\ Z.gcd a p = 1.
Proof. exists 24, 8191, 8191, (-4095). unfold bf_cfg, bal_canon. split; [ tauto | ]. split; [ lia | ]. split; [ vm_compute; split; congruence | ]. split; [ lia | reflexivity ]. Qed.

Print Assumptions fm_inv_exact.
Print Assumptions fm_div_exact.
Print Assumptions fm_isUnit_exact.
Print Assumptions ex_inv_exact.
Print Assumptions ex_div_exact.
Print Assumptions ex_isUnit_exact.
Print Assumptions bf_inv_exact.
Print Assumptions bf_div_exact.
Print Assumptions bf_isUnit_exact.
