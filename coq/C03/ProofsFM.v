(* C03 — Modular<float>, Modular<float,double>, Modular<double> (modular-floating.inl) as modelled in ModelF.v:
   every IEEE operation is the exact operation followed by an explicit rounding [rn 24] / [rn 53].
   For every modulus 2 <= p <= maxCardinality and canonical operands each operation equals the exact residue:
   no rounding is observable (every intermediate value is an integer of magnitude <= 2^prec). *)
From Coq Require Import ZArith Bool Lia List.
From C03 Require Import Model ModelF ProofsBase ProofsInt.
Local Open Scope Z_scope.
Ltac Zify.zify_post_hook ::= idtac.

Lemma bitlen_le prec z : 0 < prec -> Z.abs z < 2 ^ prec -> bitlen z <= prec.
Proof.
  intros Hp Hz. unfold bitlen. destruct (Z.eqb_spec z 0); [ lia | ].
  assert (Z.log2 (Z.abs z) < prec) by (apply Z.log2_lt_pow2; lia). lia.
Qed.

Lemma rn_lt prec z : 0 < prec -> Z.abs z < 2 ^ prec -> rn prec z = z.
Proof.
  intros Hp Hz. unfold rn, rnd_dy. pose proof (bitlen_le prec z Hp Hz).
  destruct (Z.leb_spec (bitlen z) prec); [ | lia ]. change (2 ^ 0) with 1. lia.
Qed.

Lemma rn24_id z : - 16777216 <= z <= 16777216 -> rn 24 z = z.
Proof.
  intros H. destruct (Z.eq_dec z 16777216) as [-> | ]; [ reflexivity | ].
  destruct (Z.eq_dec z (- 16777216)) as [-> | ]; [ reflexivity | ].
  apply rn_lt; [ lia | ]. change (2 ^ 24) with 16777216. lia.
Qed.

Lemma rn53_id z : - 9007199254740992 <= z <= 9007199254740992 -> rn 53 z = z.
Proof.
  intros H. destruct (Z.eq_dec z 9007199254740992) as [-> | ]; [ reflexivity | ].
  destruct (Z.eq_dec z (- 9007199254740992)) as [-> | ]; [ reflexivity | ].
  apply rn_lt; [ lia | ]. change (2 ^ 53) with 9007199254740992. lia.
Qed.

Ltac cleanf x := lazymatch x with
  | context[rn _ _] => fail | context[Z.rem _ _] => fail | context[if _ then _ else _] => fail
  | context[_ mod _] => fail | _ => idtac end.

Ltac stripf :=
  repeat match goal with
  | |- context[rn 24 ?x] => cleanf x; rewrite (rn24_id x) by nia
  | |- context[rn 53 ?x] => cleanf x; rewrite (rn53_id x) by nia
  | |- context[Z.rem ?x ?p] => cleanf x; rewrite (rem_mod_nonneg x p) by nia
  | |- context[?x mod ?p] => cleanf x;
      let r := fresh "r" in let Hr := fresh "Hr" in let E := fresh "E" in
      assert (Hr := Z.mod_pos_bound x p ltac:(lia)); remember (x mod p) as r eqn:E
  | |- context[?x <? ?y] => cleanf x; cleanf y; destruct (Z.ltb_spec x y)
  | |- context[?x <=? ?y] => cleanf x; cleanf y; destruct (Z.leb_spec x y)
  | |- context[?x =? ?y] => cleanf x; cleanf y; destruct (Z.eqb_spec x y)
  end.

(* the three instantiated (Element precision, Compute_t precision, maxCardinality) triples *)
Definition fm_cfg (pe pc mx : Z) : Prop :=
  (pe, pc, mx) = (24, 24, 4096) \/ (pe, pc, mx) = (24, 53, 16777216) \/ (pe, pc, mx) = (53, 53, 94906266).

Section Statements.
Variables (pe pc mx p : Z).
Definition FM_pre := fm_cfg pe pc mx /\ 2 <= p <= mx.
Definition FM_stmt : Prop := FM_pre -> forall a b c, canon p a -> canon p b -> canon p c ->
  fm_add pe pc p a b = (a + b) mod p /\ fm_sub pe pc p a b = (a - b) mod p /\ fm_subin pe pc p a b = (a - b) mod p /\
  fm_neg pe pc p a = (- a) mod p /\ fm_mul pe pc p a b = (a * b) mod p /\
  fm_axpy pe pc p a b c = (a * b + c) mod p /\ fm_axmy pe pc p a b c = (a * b - c) mod p /\
  fm_maxpy pe pc p a b c = (c - a * b) mod p /\ fm_maxpyin pe pc p c a b = (c - a * b) mod p /\
  fm_axmyin pe pc p c a b = (a * b - c) mod p.
End Statements.

Ltac fm_cases Hc Hp p :=
  destruct Hc as [Hc | [Hc | Hc]]; injection Hc as -> -> ->;
  (match type of Hp with _ /\ _ <= ?M => pose proof (pm1_sq_le p M ltac:(lia)) end).

Lemma fm_lin_exact pe pc mx p : FM_pre pe pc mx p -> forall a b c, canon p a -> canon p b -> canon p c ->
  fm_add pe pc p a b = (a + b) mod p /\ fm_sub pe pc p a b = (a - b) mod p /\ fm_subin pe pc p a b = (a - b) mod p /\
  fm_neg pe pc p a = (- a) mod p.
Proof.
  intros [Hc Hp] a b c Ha Hb Hc'; unfold canon in *; pose proof (mul_lt_sq a b p Ha Hb); fm_cases Hc Hp p.
  all: unfold fm_add, fm_sub, fm_subin, fm_neg.
  all: rewrite (mod_add_small a b p), (mod_sub_small a b p), (mod_neg_small a p) by lia.
  all: repeat split; stripf; lia.
Qed.

Lemma fm_mul_exact pe pc mx p : FM_pre pe pc mx p -> forall a b c, canon p a -> canon p b -> canon p c ->
  fm_mul pe pc p a b = (a * b) mod p /\ fm_axpy pe pc p a b c = (a * b + c) mod p /\ fm_axmy pe pc p a b c = (a * b - c) mod p.
Proof.
  intros [Hc Hp] a b c Ha Hb Hc'; unfold canon in *; pose proof (mul_lt_sq a b p Ha Hb); fm_cases Hc Hp p.
  all: unfold fm_mul, fm_axpy, fm_axmy.
  all: repeat split; stripf; subst; try lia.
  all: apply mod_shift with 1; lia.
Qed.

Lemma opp_mod_mod x p : 0 < p -> (- (x mod p)) mod p = (- x) mod p.
Proof. intros. apply mod_shift with (x / p); [ lia | ]. rewrite (Z.mod_eq x p) by lia. ring. Qed.

Lemma fm_neg_canon pe pc mx p : FM_pre pe pc mx p -> forall x, canon p x -> fm_neg pe pc p x = (- x) mod p.
Proof. intros HP x Hx. destruct (fm_lin_exact pe pc mx p HP x x x Hx Hx Hx) as (_ & _ & _ & E). exact E. Qed.

Lemma fm_maxpy_exact pe pc mx p : FM_pre pe pc mx p -> forall a b c, canon p a -> canon p b -> canon p c ->
  fm_maxpy pe pc p a b c = (c - a * b) mod p.
Proof.
  intros HP a b c Ha Hb Hc. destruct (fm_mul_exact pe pc mx p HP a b c Ha Hb Hc) as (_ & _ & E).
  assert (Hp : 0 < p) by (unfold canon in *; lia).
  unfold fm_maxpy. rewrite E. rewrite (fm_neg_canon pe pc mx p HP) by (apply Z.mod_pos_bound; lia).
  rewrite opp_mod_mod by lia. f_equal; lia.
Qed.

Lemma fm_maxpyin_exact pe pc mx p : FM_pre pe pc mx p -> forall a b c, canon p a -> canon p b -> canon p c ->
  fm_maxpyin pe pc p c a b = (c - a * b) mod p.
Proof.
  intros HP a b c Ha Hb Hc. assert (Hp0 : 0 < p) by (unfold canon in *; lia).
  assert (E : (if rn pc (rn pc (rn pc a * rn pc b) + rn pc (rn pc p - rn pc c)) <? rn pc p
               then rn pe (rn pc (rn pc (rn pc a * rn pc b) + rn pc (rn pc p - rn pc c)))
               else rn pe (Z.rem (rn pc (rn pc (rn pc a * rn pc b) + rn pc (rn pc p - rn pc c))) (rn pc p)))
              = (a * b - c) mod p).
  { destruct HP as [Hcf Hp]. unfold canon in *. pose proof (mul_lt_sq a b p Ha Hb). fm_cases Hcf Hp p.
    all: stripf; subst; try (apply Z.mod_unique with (-1); lia); try (apply mod_shift with 1; lia). }
  unfold fm_maxpyin. rewrite E. rewrite (fm_neg_canon pe pc mx p HP) by (apply Z.mod_pos_bound; lia).
  rewrite opp_mod_mod by lia. f_equal; lia.
Qed.

Lemma fm_exact pe pc mx p : FM_stmt pe pc mx p.
Proof.
  intros HP a b c Ha Hb Hc. assert (Hp0 : 0 < p) by (unfold canon in *; lia).
  destruct (fm_lin_exact pe pc mx p HP a b c Ha Hb Hc) as (E1 & E2 & E3 & E4).
  destruct (fm_mul_exact pe pc mx p HP a b c Ha Hb Hc) as (E5 & E6 & E7).
  pose proof (fm_maxpy_exact pe pc mx p HP a b c Ha Hb Hc) as E8.
  pose proof (fm_maxpyin_exact pe pc mx p HP a b c Ha Hb Hc) as E9.
  repeat split; try assumption.
  unfold fm_axmyin. rewrite E9. rewrite (fm_neg_canon pe pc mx p HP) by (apply Z.mod_pos_bound; lia).
  rewrite opp_mod_mod by lia. f_equal; lia.
Qed.
