(* C03 — floating-point contraction.  With -ffp-contract=fast (GNU mode default) and -march=native the compiler may
   evaluate  double(a)*double(x) + double(y)  with ONE rounding (vfmadd) instead of two.  This file models the fused
   evaluation of every a*x+y / a*x-y expression of the rings and proves the same results as for the two-rounding model:
     BI  ModularBalanced<int32_t|int64_t>::axpy/axmy (the product is ~2^63, so the value of q really differs): a GENERAL
         tolerance theorem for ANY double v within relative 2^-51 of the exact X covers both evaluations;
     FM  Modular<float|double,..>::axpy/axmy/maxpy/maxpyin/axmyin, BF ModularBalanced<float|double>::axpy/axpyin/axmy/maxpy:
         every rounding is the identity, fused or not.
   (bi_mul has a single product; ModularExtended computes mul then add: nothing to fuse.) *)
From Coq Require Import ZArith Bool Lia List.
From C03 Require Import Model ModelF Params ProofsBase ProofsInt ProofsFM ProofsBI ProofsBF ProofsRnd ProofsBIQ.
Import ListNotations.
Local Open Scope Z_scope.
Ltac Zify.zify_post_hook ::= idtac.

(* ------------------------------------------------------------------ BI: fused model variants *)
Definition bi_axpy_fused (w p a x y : Z) : Z :=
  let t := mk_ity w true in
  let q := bi_quot w p (rn 53 (rn 53 a * rn 53 x + rn 53 y)) in
  bi_norm w p (cast t (ar t (ar t (ar t (a * x) + y) - ar t (q * p)))).
Definition bi_axmy_fused (w p a x y : Z) : Z :=
  let t := mk_ity w true in
  let q := bi_quot w p (rn 53 (rn 53 a * rn 53 x - rn 53 y)) in
  bi_norm w p (cast t (ar t (ar t (ar t (a * x) - y) - ar t (q * p)))).
Definition bi_maxpy_fused (w p a x y : Z) : Z := bi_neg w (bi_axmy_fused w p a x y).

(* the general statement: ANY integer-valued double v within relative 2^-51 of the exact X (|X| <= p^2/4 + p/2) *)
Definition BI_tolerance_gen_stmt (w p : Z) : Prop := BI_env w p -> forall X v,
  4 * Z.abs X <= p * p + 2 * p -> 2 ^ 51 * Z.abs (v - X) <= Z.abs X -> q_tolerance p X (bi_quot w p v).
Definition BI_tolerance_fused_stmt (w p : Z) : Prop := BI_env w p -> forall a x y, bal_canon p a -> bal_canon p x -> bal_canon p y ->
  q_tolerance p (a * x + y) (bi_quot w p (rn 53 (rn 53 a * rn 53 x + rn 53 y))) /\
  q_tolerance p (a * x - y) (bi_quot w p (rn 53 (rn 53 a * rn 53 x - rn 53 y))).
Definition BI_fused_full_stmt (w p : Z) : Prop := BI_env w p -> forall a x y, bal_canon p a -> bal_canon p x -> bal_canon p y ->
  (bal_canon p (bi_axpy_fused w p a x y) /\ exists k, bi_axpy_fused w p a x y = a * x + y + k * p) /\
  (bal_canon p (bi_axmy_fused w p a x y) /\ exists k, bi_axmy_fused w p a x y = a * x - y + k * p).
(* fused and unfused evaluation return the same element *)
Definition BI_fused_same_stmt (w p : Z) : Prop := BI_env w p -> forall a x y, bal_canon p a -> bal_canon p x -> bal_canon p y ->
  bi_axpy_fused w p a x y = bi_axpy w p a x y /\ bi_axmy_fused w p a x y = bi_axmy w p a x y /\
  bi_maxpy_fused w p a x y = bi_maxpy w p a x y /\
  bi_axpy w p a x y = bal_rep p (a * x + y) /\ bi_axmy w p a x y = bal_rep p (a * x - y).

Lemma bi_tol_rel U W p v X : 0 < W -> U = 4 * W -> 3 <= p -> 16 * p <= U -> 4 * Z.abs X <= p * p + 2 * p ->
  W * Z.abs (v - X) <= Z.abs X ->
  2 * ((2 * U + 1) * Z.abs v + U * U * Z.abs (v - X)) <= U * U * (p - 1).
Proof.
  intros HW -> Hp HU HX H.
  assert (L : Z.abs v <= Z.abs X + Z.abs (v - X)) by lia.
  pose proof (Z.abs_nonneg X). pose proof (Z.abs_nonneg (v - X)). pose proof (Z.abs_nonneg v).
  set (Xa := Z.abs X) in *. set (dl := Z.abs (v - X)) in *. set (D := Z.abs v) in *. clearbody Xa dl D.
  assert (M1 : 1 * dl <= W * dl) by (apply Z.mul_le_mono_nonneg_r; lia).
  assert (G1 : (2 * (4 * W) + 1) * D <= (2 * (4 * W) + 1) * (2 * Xa)) by (apply Z.mul_le_mono_nonneg_l; lia).
  assert (G2 : (2 * (4 * W) + 1) * (2 * Xa) <= (3 * (4 * W)) * (2 * Xa)) by (apply Z.mul_le_mono_nonneg_r; lia).
  assert (G3 : (16 * W) * (W * dl) <= (16 * W) * Xa) by (apply Z.mul_le_mono_nonneg_l; lia).
  assert (G4 : (16 * p) * (p - 1) <= (4 * W) * (p - 1)) by (apply Z.mul_le_mono_nonneg_r; lia).
  assert (G5 : 3 * p <= p * p) by nia.
  assert (G6 : W * (5 * Xa) <= W * (W * (p - 1))) by (apply Z.mul_le_mono_nonneg_l; lia).
  lia.
Qed.

Theorem bi_tolerance_gen w p : BI_tolerance_gen_stmt w p.
Proof.
  intros Henv X v HX Hv. destruct (bi_env_pre w p Henv) as (_ & Hw & Hp & HU & Hpw).
  assert (G5 : 3 * p <= p * p) by nia.
  apply bi_quot_tol; try assumption; [ lia | ].
  apply (bi_tol_rel (2 ^ 53) (2 ^ 51) p v X); try assumption; [ apply pow2_pos; lia | reflexivity ].
Qed.

(* relative 2^-52 (what two roundings are usually quoted as) is a special case *)
Corollary bi_tolerance_gen52 w p X v : BI_env w p -> 4 * Z.abs X <= p * p + 2 * p ->
  2 ^ 52 * Z.abs (v - X) <= Z.abs X -> q_tolerance p X (bi_quot w p v).
Proof.
  intros Henv HX Hv. apply (bi_tolerance_gen w p Henv X v HX).
  change (2 ^ 52) with (2 * 2 ^ 51) in Hv. pose proof (pow2_pos 51 ltac:(lia)). pose proof (Z.abs_nonneg (v - X)).
  assert (1 * (2 ^ 51 * Z.abs (v - X)) <= 2 * (2 ^ 51 * Z.abs (v - X))) by (apply Z.mul_le_mono_nonneg_r; nia). lia.
Qed.

Lemma bi_X_bound p a x y : 3 <= p -> bal_canon p a -> bal_canon p x -> bal_canon p y ->
  4 * Z.abs (a * x) <= p * p /\ 2 * Z.abs y <= p /\
  4 * Z.abs (a * x + y) <= p * p + 2 * p /\ 4 * Z.abs (a * x - y) <= p * p + 2 * p.
Proof.
  intros Hp Ha Hx Hy.
  pose proof (bal_abs p a Hp Ha) as Ba. pose proof (bal_abs p x Hp Hx) as Bx. pose proof (bal_abs p y Hp Hy) as By.
  assert (HA : 4 * Z.abs (a * x) <= p * p).
  { rewrite Z.abs_mul. replace (4 * (Z.abs a * Z.abs x)) with ((2 * Z.abs a) * (2 * Z.abs x)) by ring.
    apply Z.mul_le_mono_nonneg; lia. }
  repeat split; lia.
Qed.

(* one rounding of the exact sum: relative 2^-53 *)
Lemma one_round_rel X : 2 ^ 51 * Z.abs (rn 53 X - X) <= Z.abs X.
Proof.
  pose proof (rn_err 53 X ltac:(lia)) as H. change (2 ^ 53) with (4 * 2 ^ 51) in H.
  pose proof (pow2_pos 51 ltac:(lia)). pose proof (Z.abs_nonneg (rn 53 X - X)).
  assert (1 * (2 ^ 51 * Z.abs (rn 53 X - X)) <= 4 * (2 ^ 51 * Z.abs (rn 53 X - X))) by (apply Z.mul_le_mono_nonneg_r; nia). lia.
Qed.

(* two roundings fl(fl(A0) + y), y small: when A0 is rounded at all it dominates y, so the error stays relative to A0 + y *)
Lemma two_round_rel p A0 y : 3 <= p -> p <= 2 ^ 49 -> 2 * Z.abs y <= p ->
  2 ^ 51 * Z.abs (rn 53 (rn 53 A0 + y) - (A0 + y)) <= Z.abs (A0 + y).
Proof.
  intros Hp Hp49 Hy. destruct (Z.lt_ge_cases (Z.abs A0) (2 ^ 53)) as [Hs | Hb].
  - rewrite (rn_lt 53 A0) by lia. apply one_round_rel.
  - pose proof (rn_err 53 A0 ltac:(lia)) as E1. pose proof (rn_err 53 (rn 53 A0 + y) ltac:(lia)) as E2.
    change (2 ^ 53) with 9007199254740992 in *. change (2 ^ 51) with 2251799813685248.
    change (2 ^ 49) with 562949953421312 in Hp49.
    assert (L1 : Z.abs (rn 53 A0 + y) <= Z.abs A0 + Z.abs (rn 53 A0 - A0) + Z.abs y) by lia.
    assert (L2 : Z.abs (rn 53 (rn 53 A0 + y) - (A0 + y)) <= Z.abs (rn 53 A0 - A0) + Z.abs (rn 53 (rn 53 A0 + y) - (rn 53 A0 + y))) by lia.
    assert (L3 : Z.abs A0 - Z.abs y <= Z.abs (A0 + y)) by lia.
    pose proof (Z.abs_nonneg (rn 53 A0 - A0)). pose proof (Z.abs_nonneg (rn 53 (rn 53 A0 + y) - (rn 53 A0 + y))).
    pose proof (Z.abs_nonneg (rn 53 (rn 53 A0 + y) - (A0 + y))).
    set (A := Z.abs A0) in *. set (Y := Z.abs y) in *. set (e1 := Z.abs (rn 53 A0 - A0)) in *.
    set (e2 := Z.abs (rn 53 (rn 53 A0 + y) - (rn 53 A0 + y))) in *. set (S := Z.abs (rn 53 A0 + y)) in *.
    set (dl := Z.abs (rn 53 (rn 53 A0 + y) - (A0 + y))) in *. set (Xa := Z.abs (A0 + y)) in *.
    clearbody A Y e1 e2 S dl Xa. lia.
Qed.

Theorem bi_tolerance_fused w p : BI_tolerance_fused_stmt w p.
Proof.
  intros Henv a x y Ha Hx Hy. destruct (bi_env_pre w p Henv) as (_ & Hw & Hp & HU & Hpw).
  destruct (bi_X_bound p a x y Hp Ha Hx Hy) as (HA & HY & HX1 & HX2).
  pose proof (bal_abs p a Hp Ha) as Ba. pose proof (bal_abs p x Hp Hx) as Bx.
  assert (HU' : 16 * p <= 9007199254740992) by exact HU.
  rewrite (rn_lt 53 a), (rn_lt 53 x), (rn_lt 53 y) by (change (2 ^ 53) with 9007199254740992; lia).
  split; apply bi_tolerance_gen; try assumption; apply one_round_rel.
Qed.

(* the two-rounding statement of ProofsBIQ.v, re-derived from the general theorem *)
Theorem bi_tolerance_two_round w p : BI_env w p -> forall a x y, bal_canon p a -> bal_canon p x -> bal_canon p y ->
  q_tolerance p (a * x + y) (bi_quot w p (rn 53 (rn 53 (rn 53 a * rn 53 x) + rn 53 y))) /\
  q_tolerance p (a * x - y) (bi_quot w p (rn 53 (rn 53 (rn 53 a * rn 53 x) - rn 53 y))).
Proof.
  intros Henv a x y Ha Hx Hy. destruct (bi_env_pre w p Henv) as (_ & Hw & Hp & HU & Hpw).
  destruct (bi_X_bound p a x y Hp Ha Hx Hy) as (HA & HY & HX1 & HX2).
  pose proof (bal_abs p a Hp Ha) as Ba. pose proof (bal_abs p x Hp Hx) as Bx.
  assert (HU' : 16 * p <= 9007199254740992) by exact HU.
  assert (Hp49 : p <= 2 ^ 49) by (change (2 ^ 49) with 562949953421312; lia).
  rewrite (rn_lt 53 a), (rn_lt 53 x), (rn_lt 53 y) by (change (2 ^ 53) with 9007199254740992; lia).
  split; apply bi_tolerance_gen; try assumption.
  - apply (two_round_rel p (a * x) y); assumption.
  - apply (two_round_rel p (a * x) (- y)); try assumption. rewrite Z.abs_opp. assumption.
Qed.

(* the integer tails, for any quotient within tolerance *)
Lemma bi_axpy_tail w p a x y q : BI_pre w p -> q_tolerance p (a * x + y) q ->
  let t := mk_ity w true in
  let r := bi_norm w p (cast t (ar t (ar t (ar t (a * x) + y) - ar t (q * p)))) in
  bal_canon p r /\ exists k, r = a * x + y + k * p.
Proof.
  intros [Hw Hp] Hq. cbv zeta.
  assert (Hx : exists j, ar (mk_ity w true) (ar (mk_ity w true) (a * x) + y) = a * x + y + j * 2 ^ w).
  { destruct (ar_wraps w (a * x) Hw) as [j1 E1]. destruct (ar_wraps w (ar (mk_ity w true) (a * x) + y) Hw) as [j2 E2].
    exists (j1 + j2). rewrite E2, E1. ring. }
  destruct (bi_tail_exact w p (a * x + y) _ _ Hw Hp Hq Hx) as [Hc Hr].
  split; [ exact Hc | exact (of_tail _ _ _ _ Hr) ].
Qed.

Lemma bi_axmy_tail w p a x y q : BI_pre w p -> q_tolerance p (a * x - y) q ->
  let t := mk_ity w true in
  let r := bi_norm w p (cast t (ar t (ar t (ar t (a * x) - y) - ar t (q * p)))) in
  bal_canon p r /\ exists k, r = a * x - y + k * p.
Proof.
  intros [Hw Hp] Hq. cbv zeta.
  assert (Hx : exists j, ar (mk_ity w true) (ar (mk_ity w true) (a * x) - y) = a * x - y + j * 2 ^ w).
  { destruct (ar_wraps w (a * x) Hw) as [j1 E1]. destruct (ar_wraps w (ar (mk_ity w true) (a * x) - y) Hw) as [j2 E2].
    exists (j1 + j2). rewrite E2, E1. ring. }
  destruct (bi_tail_exact w p (a * x - y) _ _ Hw Hp Hq Hx) as [Hc Hr].
  split; [ exact Hc | exact (of_tail _ _ _ _ Hr) ].
Qed.

Theorem bi_fused_full w p : BI_fused_full_stmt w p.
Proof.
  intros Henv a x y Ha Hx Hy. destruct (bi_env_pre w p Henv) as (Hpre & _).
  destruct (bi_tolerance_fused w p Henv a x y Ha Hx Hy) as [T1 T2].
  split; [ exact (bi_axpy_tail w p a x y _ Hpre T1) | exact (bi_axmy_tail w p a x y _ Hpre T2) ].
Qed.

Lemma bal_rep_of p X r : 0 < p -> bal_canon p r -> (exists k, r = X + k * p) -> r = bal_rep p X.
Proof.
  intros Hp Hc [k E]. symmetry. apply bal_rep_unique; [ assumption | assumption | exists (- k); lia ].
Qed.

Theorem bi_fused_same w p : BI_fused_same_stmt w p.
Proof.
  intros Henv a x y Ha Hx Hy. destruct (bi_env_pre w p Henv) as (_ & _ & Hp & _).
  destruct (bi_fused_full w p Henv a x y Ha Hx Hy) as [[C1 K1] [C2 K2]].
  destruct (bi_axpy_full w p Henv a x y Ha Hx Hy) as [C3 K3]. destruct (bi_axmy_full w p Henv a x y Ha Hx Hy) as [C4 K4].
  pose proof (bal_rep_of p _ _ ltac:(lia) C1 K1) as E1. pose proof (bal_rep_of p _ _ ltac:(lia) C2 K2) as E2.
  pose proof (bal_rep_of p _ _ ltac:(lia) C3 K3) as E3. pose proof (bal_rep_of p _ _ ltac:(lia) C4 K4) as E4.
  assert (Em : bi_axmy_fused w p a x y = bi_axmy w p a x y) by (rewrite E2, E4; reflexivity).
  repeat split; try assumption.
  - rewrite E1, E3; reflexivity.
  - unfold bi_maxpy_fused, bi_maxpy. rewrite Em. reflexivity.
Qed.

Definition BI_adv_fused_stmt : Prop := forall w mn mx p, In (w, mn, mx) advertised_bi -> mn <= p <= mx ->
  forall a x y, bal_canon p a -> bal_canon p x -> bal_canon p y ->
  (bal_canon p (bi_axpy_fused w p a x y) /\ exists k, bi_axpy_fused w p a x y = a * x + y + k * p) /\
  (bal_canon p (bi_axmy_fused w p a x y) /\ exists k, bi_axmy_fused w p a x y = a * x - y + k * p) /\
  bi_axpy_fused w p a x y = bi_axpy w p a x y /\ bi_axmy_fused w p a x y = bi_axmy w p a x y /\
  bi_maxpy_fused w p a x y = bi_maxpy w p a x y.
Theorem bi_adv_fused : BI_adv_fused_stmt.
Proof.
  intros w mn mx p HIn Hp a x y Ha Hx Hy. pose proof (advertised_bi_env w mn mx p HIn Hp) as Henv.
  destruct (bi_fused_full w p Henv a x y Ha Hx Hy) as [F1 F2].
  destruct (bi_fused_same w p Henv a x y Ha Hx Hy) as (S1 & S2 & S3 & _).
  split; [ exact F1 | ]. split; [ exact F2 | ]. split; [ exact S1 | ]. split; [ exact S2 | exact S3 ].
Qed.

(* hypotheses satisfiable at the int64 maximum, extreme operands *)
Example bi_fused_hyps_sat : BI_env 64 6074000999 /\ bal_canon 6074000999 3037000499 /\ bal_canon 6074000999 (- 3037000499) /\
  bi_axpy_fused 64 6074000999 3037000499 3037000499 (- 3037000499) = bi_axpy 64 6074000999 3037000499 3037000499 (- 3037000499).
Proof.
  unfold BI_env, bal_canon. change (2 ^ 49) with 562949953421312. change (6074000999 / 2) with 3037000499.
  split; [ right; lia | ]. split; [ lia | ]. split; [ lia | vm_compute; reflexivity ].
Qed.

(* contraction IS observable in the quotient (one rounding vs two), yet the returned element is the same *)
Example bi_fused_quotient_differs : exists a x y, bal_canon 6074000999 a /\ bal_canon 6074000999 x /\ bal_canon 6074000999 y /\
  bi_quot 64 6074000999 (rn 53 (rn 53 a * rn 53 x + rn 53 y)) = 1518323109 /\
  bi_quot 64 6074000999 (rn 53 (rn 53 (rn 53 a * rn 53 x) + rn 53 y)) = 1518323108 /\
  bi_axpy_fused 64 6074000999 a x y = bi_axpy 64 6074000999 a x y.
Proof.
  exists 3036691315, 3036955398, (- 278182833). unfold bal_canon. change (6074000999 / 2) with 3037000499.
  split; [ lia | ]. split; [ lia | ]. split; [ lia | ]. repeat split; vm_compute; reflexivity.
Qed.

(* ------------------------------------------------------------------ FM: Modular<float|double, Compute_t>, fused *)
Definition fm_axpy_fused (pe pc p a x y : Z) : Z :=
  rn pe (Z.rem (rn pc (rn pc a * rn pc x + rn pc y)) (rn pc p)).
Definition fm_axmy_fused (pe pc p a x y : Z) : Z :=
  rn pe (Z.rem (rn pc (rn pc a * rn pc x + rn pc (rn pc p - rn pc y))) (rn pc p)).
Definition fm_maxpy_fused (pe pc p a x y : Z) : Z := fm_neg pe pc p (fm_axmy_fused pe pc p a x y).
Definition fm_maxpyin_fused (pe pc p r a x : Z) : Z :=
  let tmp := rn pc (rn pc a * rn pc x + rn pc (rn pc p - rn pc r)) in
  fm_neg pe pc p (if tmp <? rn pc p then rn pe tmp else rn pe (Z.rem tmp (rn pc p))).
Definition fm_axmyin_fused (pe pc p r a x : Z) : Z := fm_neg pe pc p (fm_maxpyin_fused pe pc p r a x).

Definition FM_fused_stmt (pe pc mx p : Z) : Prop := FM_pre pe pc mx p -> forall a b c, canon p a -> canon p b -> canon p c ->
  fm_axpy_fused pe pc p a b c = (a * b + c) mod p /\ fm_axmy_fused pe pc p a b c = (a * b - c) mod p /\
  fm_maxpy_fused pe pc p a b c = (c - a * b) mod p /\ fm_maxpyin_fused pe pc p c a b = (c - a * b) mod p /\
  fm_axmyin_fused pe pc p c a b = (a * b - c) mod p.

(* the product alone is never rounded: fused and unfused evaluation are the same expression *)
Lemma fm_prod_id pe pc mx p : FM_pre pe pc mx p -> forall a b, canon p a -> canon p b ->
  rn pc (rn pc a * rn pc b) = rn pc a * rn pc b.
Proof.
  intros [Hc Hp] a b Ha Hb; unfold canon in *; pose proof (mul_lt_sq a b p Ha Hb); fm_cases Hc Hp p.
  all: stripf; reflexivity.
Qed.

Lemma fm_fused_same pe pc mx p : FM_pre pe pc mx p -> forall a b c, canon p a -> canon p b -> canon p c ->
  fm_axpy_fused pe pc p a b c = fm_axpy pe pc p a b c /\ fm_axmy_fused pe pc p a b c = fm_axmy pe pc p a b c /\
  fm_maxpy_fused pe pc p a b c = fm_maxpy pe pc p a b c /\ fm_maxpyin_fused pe pc p c a b = fm_maxpyin pe pc p c a b /\
  fm_axmyin_fused pe pc p c a b = fm_axmyin pe pc p c a b.
Proof.
  intros HP a b c Ha Hb Hc. pose proof (fm_prod_id pe pc mx p HP a b Ha Hb) as E.
  unfold fm_axmyin_fused, fm_axmyin, fm_maxpy_fused, fm_maxpy, fm_maxpyin_fused, fm_maxpyin, fm_axpy_fused, fm_axpy, fm_axmy_fused, fm_axmy.
  cbv beta zeta. rewrite !E. repeat split; reflexivity.
Qed.

Theorem fm_fused_exact pe pc mx p : FM_fused_stmt pe pc mx p.
Proof.
  intros HP a b c Ha Hb Hc. destruct (fm_fused_same pe pc mx p HP a b c Ha Hb Hc) as (F1 & F2 & F3 & F4 & F5).
  destruct (fm_exact pe pc mx p HP a b c Ha Hb Hc) as (_ & _ & _ & _ & _ & G1 & G2 & G3 & G4 & G5).
  rewrite F1, F2, F3, F4, F5. repeat split; assumption.
Qed.

(* ------------------------------------------------------------------ BF: ModularBalanced<float|double>, fused *)
Definition bf_axpy_fused (pe p a x y : Z) : Z := bf_reduce pe p (rn pe (a * x + y)).
Definition bf_axpyin_fused (pe p r a x : Z) : Z := bf_reduce pe p (rn pe (r + a * x)).
Definition bf_axmy_fused (pe p a x y : Z) : Z := bf_reduce pe p (rn pe (a * x - y)).
Definition bf_maxpy_fused (pe p a x y : Z) : Z := bf_reduce pe p (rn pe (y - a * x)).

Definition BF_fused_stmt (pe mx p : Z) : Prop := bf_cfg pe mx -> 3 <= p <= mx ->
  forall a b c, bal_canon p a -> bal_canon p b -> bal_canon p c ->
  bf_axpy_fused pe p a b c = bal_rep p (a * b + c) /\ bf_axpyin_fused pe p c a b = bal_rep p (c + a * b) /\
  bf_axmy_fused pe p a b c = bal_rep p (a * b - c) /\ bf_maxpy_fused pe p a b c = bal_rep p (c - a * b).

Theorem bf_fused_exact pe mx p : BF_fused_stmt pe mx p.
Proof.
  intros Hcfg Hp a b c Ha Hb Hc. destruct (bf_exact pe mx p Hcfg Hp) as [Hred _].
  assert (Hd := Z.div_mod p 2 ltac:(lia)). assert (Hm := Z.mod_pos_bound p 2 ltac:(lia)).
  unfold bal_canon in *.
  assert (Hab : Z.abs (a * b) <= p / 2 * (p / 2)) by (rewrite Z.abs_mul; apply Z.mul_le_mono_nonneg; lia).
  unfold bf_axpy_fused, bf_axpyin_fused, bf_axmy_fused, bf_maxpy_fused. rewrite !Hred.
  destruct Hcfg as [Hcfg | Hcfg]; injection Hcfg as -> ->.
  - assert (p / 2 <= 4095) by lia. assert (p / 2 * (p / 2) <= 4095 * 4095) by (apply Z.mul_le_mono_nonneg; lia).
    rewrite (rn24_id (a * b + c)), (rn24_id (c + a * b)), (rn24_id (a * b - c)), (rn24_id (c - a * b)) by lia.
    repeat split; reflexivity.
  - assert (p / 2 <= 94906265) by lia. assert (p / 2 * (p / 2) <= 94906265 * 94906265) by (apply Z.mul_le_mono_nonneg; lia).
    rewrite (rn53_id (a * b + c)), (rn53_id (c + a * b)), (rn53_id (a * b - c)), (rn53_id (c - a * b)) by lia.
    repeat split; reflexivity.
Qed.

Example fm_fused_hyps_sat : FM_pre 53 53 94906266 94906266 /\ canon 94906266 94906265 /\
  fm_axpy_fused 53 53 94906266 94906265 94906265 94906265 = 0.
Proof.
  unfold FM_pre, fm_cfg, canon. split; [ split; [ right; right; reflexivity | lia ] | ]. split; [ lia | vm_compute; reflexivity ].
Qed.
Example bf_fused_hyps_sat : bf_cfg 53 189812531 /\ 3 <= 189812531 <= 189812531 /\ bal_canon 189812531 94906265 /\
  bal_canon 189812531 (- 94906265).
Proof.
  unfold bf_cfg, bal_canon. change (189812531 / 2) with 94906265. split; [ right; reflexivity | ]. repeat split; lia.
Qed.

Print Assumptions bi_tolerance_gen.
Print Assumptions bi_tolerance_gen52.
Print Assumptions bi_tolerance_fused.
Print Assumptions bi_tolerance_two_round.
Print Assumptions bi_fused_full.
Print Assumptions bi_fused_same.
Print Assumptions bi_adv_fused.
Print Assumptions bi_fused_hyps_sat.
Print Assumptions bi_fused_quotient_differs.
Print Assumptions fm_fused_exact.
Print Assumptions fm_fused_same.
Print Assumptions bf_fused_exact.
Print Assumptions fm_fused_hyps_sat.
Print Assumptions bf_fused_hyps_sat.
