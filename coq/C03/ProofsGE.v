(* C03 — the UPPER comparison of the final correction of ModularExtended<float|double>::reduce and ::mul
   (`if (r >= _p) r -= _p; else if (r < 0) r += _p;`) must be `>=`, not `>`: the value handed to the correction can be EXACTLY p.
   This happens when the argument (the product) is an exact non-zero multiple k*p and the cached reciprocal fl(1/p) is rounded
   downwards far enough that fl(k*p * fl(1/p)) < k: then q = k-1 and the exact remainder is p (p = 49, 98, 103, 107, 161, ... for double,
   41, 47, 55, 61, ... for float).  Shown for the FMA and the Dekker branch (same quotient estimate); in the fallback branch (fmod)
   the remainder is strictly inside (-p, p), the comparison `>=` can only fire with `>` and both variants agree.
   That ONE correction with `>=` suffices is ex_reduce_exact / ex_mul_exact / dk_mul_exact / dk_reduce_exact. *)
From Coq Require Import ZArith Bool Lia List.
From C03 Require Import Model ModelF ModelDK ProofsBase ProofsInt ProofsFM ProofsEX ProofsEXM ProofsFB.
Local Open Scope Z_scope.
Ltac Zify.zify_post_hook ::= idtac.

(* the seeded change C03-m8: `>` instead of `>=` *)
Definition ex_fix_gt (pe p r : Z) : Z := if p <? r then rn pe (r - p) else if r <? 0 then rn pe (r + p) else r.
(* FMA branch of reduce before the correction: q = floor(a*_invp); a = fma(-q, _p, a) *)
Definition ex_reduce_raw (pe p a : Z) : Z :=
  let q := floor_dy (mul_dy pe a (div_dy pe 1 (rn pe p))) in rn pe (- q * p + a).
Lemma ex_reduce_raw_eq pe p a : ex_reduce pe p a = ex_fix pe p (ex_reduce_raw pe p a).
Proof. unfold ex_reduce, ex_reduce_raw. cbv zeta. reflexivity. Qed.
(* Dekker branch of reduce before the correction *)
Definition dk_reduce_raw (pe p a : Z) : Z :=
  let q := floor_dy (mul_dy pe a (div_dy pe 1 (rn pe p))) in
  let '(pqh, pql) := dk_mult pe (- q) p in rn pe (rn pe (a + pqh) + pql).
Lemma dk_reduce_raw_eq pe p a : dk_reduce pe p a = ex_fix pe p (dk_reduce_raw pe p a).
Proof. unfold dk_reduce, dk_reduce_raw. cbv zeta. destruct (dk_mult pe _ p). reflexivity. Qed.

Definition ex_reduce_gt (pe p a : Z) : Z := ex_fix_gt pe p (ex_reduce_raw pe p a).
Definition dk_reduce_gt (pe p a : Z) : Z := ex_fix_gt pe p (dk_reduce_raw pe p a).
Definition fb_reduce_gt (pe p a : Z) : Z := ex_fix_gt pe p (rn pe (Z.rem a (rn pe p))).
Definition ex_mul_gt (pe p a b : Z) : Z := ex_fix_gt pe p (ex_mul_raw pe p a b).
Definition dk_mul_gt (pe p a b : Z) : Z := ex_fix_gt pe p (dk_mul_raw pe p a b).

(* a refutation record: canonical-range modulus, a value the element type holds, raw value exactly p, `>` variant wrong *)
Definition GE_needed_reduce (pe mx : Z) (raw gt : Z -> Z -> Z -> Z) : Prop :=
  exists p a, 2 <= p <= mx /\ 0 < a < 2 ^ pe /\ a mod p = 0 /\ raw pe p a = p /\ gt pe p a <> a mod p.
Definition GE_needed_mul (pe mx : Z) (raw gt : Z -> Z -> Z -> Z -> Z) : Prop :=
  exists p a b, 2 <= p <= mx /\ canon p a /\ canon p b /\ (a * b) mod p = 0 /\ raw pe p a b = p /\ gt pe p a b <> (a * b) mod p.

Ltac witness := unfold canon; repeat split; try (apply Z.leb_le; vm_compute; reflexivity); try (apply Z.ltb_lt; vm_compute; reflexivity);
  try (vm_compute; reflexivity); try (vm_compute; discriminate).

Theorem ge_needed_reduce_fma_double : GE_needed_reduce 53 1125899906842623 ex_reduce_raw ex_reduce_gt.
Proof. exists 49, 98. witness. Qed.
Theorem ge_needed_reduce_fma_float : GE_needed_reduce 24 2097151 ex_reduce_raw ex_reduce_gt.
Proof. exists 41, 41. witness. Qed.
Theorem ge_needed_reduce_dekker_double : GE_needed_reduce 53 1125899906842623 dk_reduce_raw dk_reduce_gt.
Proof. exists 49, 98. witness. Qed.
Theorem ge_needed_reduce_dekker_float : GE_needed_reduce 24 2097151 dk_reduce_raw dk_reduce_gt.
Proof. exists 41, 41. witness. Qed.
(* mul: a*b an exact multiple of a composite p *)
Theorem ge_needed_mul_fma_double : GE_needed_mul 53 1125899906842623 ex_mul_raw ex_mul_gt.
Proof. exists 49, 7, 7. witness. Qed.
Theorem ge_needed_mul_fma_float : GE_needed_mul 24 2097151 ex_mul_raw ex_mul_gt.
Proof. exists 55, 5, 11. witness. Qed.
Theorem ge_needed_mul_dekker_double : GE_needed_mul 53 1125899906842623 dk_mul_raw dk_mul_gt.
Proof. exists 49, 7, 7. witness. Qed.
Theorem ge_needed_mul_dekker_float : GE_needed_mul 24 2097151 dk_mul_raw dk_mul_gt.
Proof. exists 55, 5, 11. witness. Qed.

(* the unchanged code is right on these very inputs *)
Example ge_witnesses_ok : ex_reduce 53 49 98 = 0 /\ dk_reduce 53 49 98 = 0 /\ ex_mul 53 49 7 7 = 0 /\ dk_mul 53 49 7 7 = 0 /\
  ex_reduce 24 41 41 = 0 /\ dk_reduce 24 41 41 = 0 /\ ex_mul 24 55 5 11 = 0 /\ dk_mul 24 55 5 11 = 0.
Proof. vm_compute. repeat split. Qed.

(* fallback branch: fmod leaves |r| < p, so `>=` and `>` agree: the comparison is not critical there *)
Definition FB_gt_same_stmt (pe mx p : Z) : Prop := ex_cfg pe mx -> 2 <= p <= mx -> forall y, Z.abs y <= 2 ^ pe ->
  fb_reduce_gt pe p y = fb_reduce pe p y.
Lemma fb_gt_same pe mx p : FB_gt_same_stmt pe mx p.
Proof.
  intros Hc Hp y Hy. destruct (rem_bounds y p ltac:(lia)) as [Hr _].
  destruct Hc as [Hc | Hc]; injection Hc as -> ->; unfold fb_reduce_gt, fb_reduce, ex_fix, ex_fix_gt.
  - rewrite (rn24_id p) by lia. set (r := Z.rem y p) in *. rewrite (rn24_id r) by lia.
    destruct (Z.ltb_spec p r); [ lia | ]. destruct (Z.leb_spec p r); [ lia | ]. reflexivity.
  - rewrite (rn53_id p) by lia. set (r := Z.rem y p) in *. rewrite (rn53_id r) by lia.
    destruct (Z.ltb_spec p r); [ lia | ]. destruct (Z.leb_spec p r); [ lia | ]. reflexivity.
Qed.
