(* C03 — the in-place call forms and the ring constants (ModelIn.v: each written after its own C++ body).
   Part 1: every in-place model function coincides with its three-address sibling on the permuted operands, for ALL operands
           (no canonicity, no bound on p): the in-place bodies contain no arithmetic the siblings do not contain.
   Part 2: hence the in-place forms return the exact residue under the preconditions of the sibling theorems; the ring
           constants (zero, one, mOne, minElement(), maxElement()) are (0, 1, p-1, 0, p-1) resp. (0, 1, -1, p/2-p+1, p/2).
   Integral rings, Modular<float|double>, RecInt rings, Modular<Integer> here; the balanced and the extended rings in ProofsInB.v. *)
From Coq Require Import ZArith Bool Lia List.
From C03 Require Import Model ModelF ModelDK ModelIn Params ProofsBase ProofsInt ProofsIntA ProofsIntInv ProofsRU ProofsFM
  ProofsFInv ProofsMisc ProofsTop.
Import ListNotations.
Local Open Scope Z_scope.
Ltac Zify.zify_post_hook ::= idtac.

(* ================================================================== Part 1: siblings, for all operands *)
Definition Int_in_sibling_stmt : Prop := forall sb sg cb p fuel r a b,
  subinZ sb sg cb p r a = subZ sb sg cb p r a /\ mulinZ sb sg cb p r a = mulZ sb sg cb p r a /\
  neginZ sb sg cb p r = negZ sb sg cb p r /\ invinZ sb sg cb p fuel r = invZ sb sg cb p fuel r /\
  axpyinZ sb sg cb p r a b = axpyZ sb sg cb p a b r /\ axmyinZ sb sg cb p r a b = axmyZ sb sg cb p a b r.
(* unfold to the bodies first: the two sides are then syntactically equal (letting the conversion test find that out is slow) *)
Lemma int_in_sibling : Int_in_sibling_stmt.
Proof.
  red; intros. cbv beta zeta delta [subinZ subZ mulinZ mulZ neginZ negZ invinZ invZ axpyinZ axpyZ axmyinZ axmyZ subin sub mulin mul negin neg invin axpyin axpy axmyin axmy].
  repeat split; reflexivity.
Qed.

Definition FM_in_sibling_stmt : Prop := forall pe pc p fuel r a x,
  fm_addin pe pc p r a = fm_add pe pc p r a /\ fm_mulin pe pc p r a = fm_mul pe pc p r a /\
  fm_negin pe pc p r = fm_neg pe pc p r /\ fm_invin pe pc p fuel r = fm_inv pe pc p fuel r /\
  fm_axpyin pe pc p r a x = fm_axpy pe pc p a x r.
Lemma fm_in_sibling : FM_in_sibling_stmt.
Proof.
  red; intros. cbv beta zeta delta [fm_addin fm_add fm_mulin fm_mul fm_negin fm_neg fm_invin fm_axpyin fm_axpy].
  repeat split; reflexivity.
Qed.

Definition RU_in_sibling_stmt : Prop := forall w dbl p r a b,
  ru_addin w p r a = ru_add w p r a /\ ru_mulin w dbl p r a = ru_mul w dbl p r a /\ ru_negin w p r = ru_neg w p r /\
  ru_axpyin w dbl p r a b = ru_axpy w dbl p a b r /\ ru_axmyin w dbl p r a b = ru_axmy w dbl p a b r.
Lemma ru_in_sibling : RU_in_sibling_stmt.
Proof.
  red; intros. cbv beta zeta delta [ru_addin ru_add ru_mulin ru_mul ru_negin ru_neg ru_axpyin ru_axmyin].
  repeat split; try reflexivity. destruct dbl; reflexivity.
Qed.

Definition ZZ_in_sibling_stmt : Prop := forall p r a b,
  zz_addin p r a = zz_add p r a /\ zz_subin p r a = zz_sub p r a /\ zz_mulin p r a = zz_mul p r a /\
  zz_negin p r = zz_neg p r /\ zz_axpyin p r a b = zz_axpy p a b r /\ zz_maxpyin p r a b = zz_maxpy p a b r.
Lemma zz_in_sibling : ZZ_in_sibling_stmt.
Proof.
  red; intros. cbv beta zeta delta [zz_addin zz_add zz_subin zz_sub zz_mulin zz_mul zz_negin zz_neg zz_axpyin zz_axpy zz_maxpyin zz_maxpy].
  repeat split; try reflexivity. f_equal. ring.
Qed.

(* ================================================================== Part 2: exact residues and constants *)
(* ---- integral Modular<S,C>, every advertised (Storage_t, Compute_t, min, max) row, every p in [min, max] *)
Definition Int_in_stmt := forall sb sg cb mn mx p, In (sb, sg, cb, mn, mx) advertised_int -> mn <= p <= mx ->
  forall r a b, canon p r -> canon p a -> canon p b ->
  subinZ sb sg cb p r a = (r - a) mod p /\ mulinZ sb sg cb p r a = (r * a) mod p /\ neginZ sb sg cb p r = (- r) mod p /\
  axpyinZ sb sg cb p r a b = (a * b + r) mod p /\ axmyinZ sb sg cb p r a b = (a * b - r) mod p.
Lemma int_in : Int_in_stmt.
Proof.
  intros sb sg cb mn mx p HI Hp r a b Hr Ha Hb.
  destruct (int_sub_neg sb sg cb mn mx p HI Hp r a Hr Ha) as [E1 E2].
  pose proof (int_mul sb sg cb mn mx p HI Hp r a Hr Ha) as E3.
  destruct (int_axpy sb sg cb mn mx p HI Hp a b r Ha Hb Hr) as (E4 & E5 & _).
  destruct (int_in_sibling sb sg cb p O r a b) as (S1 & S2 & S3 & _ & S5 & S6).
  rewrite S1, S2, S3, S5, S6. repeat split; assumption.
Qed.

Definition Int_invin_stmt := forall sb sg cb mn mx p, In (sb, sg, cb, mn, mx) advertised_int -> mn <= p <= mx ->
  forall a, canon p a -> Z.gcd a p = 1 ->
  (forall fuel r, invinZ sb sg cb p fuel a = Some r -> canon p r /\ (a * r) mod p = 1) /\
  (exists fuel, invinZ sb sg cb p fuel a <> None).
Lemma int_invin : Int_invin_stmt.
Proof.
  intros sb sg cb mn mx p HI Hp a Ha Hg. destruct (int_inv sb sg cb mn mx p HI Hp a Ha Hg) as [H1 [fuel H2]].
  split; [ intros fl r; destruct (int_in_sibling sb sg cb p fl a a a) as (_ & _ & _ & S & _); rewrite S; apply H1
         | exists fuel; destruct (int_in_sibling sb sg cb p fuel a a a) as (_ & _ & _ & S & _); rewrite S; exact H2 ].
Qed.

Definition Int_consts_stmt := forall sb sg cb mn mx p, In (sb, sg, cb, mn, mx) advertised_int -> mn <= p <= mx ->
  constsZ sb sg cb p = (0, 1, p - 1, 0, p - 1).
Lemma int_consts : Int_consts_stmt.
Proof.
  intros sb sg cb mn mx p HI Hp. pose proof (int_pre_of_row sb sg cb mn mx p HI Hp) as HP.
  destruct (consts_of _ _ _ _ HP) as (ES & _ & E1 & EM).
  assert (H2 : 2 <= p) by (destruct HP as [_ ?]; lia).
  destruct (storage_fits _ _ _ _ HP 0 ltac:(lia)) as [E0 _].
  unfold constsZ, consts. rewrite ES, E0, E1, EM. reflexivity.
Qed.

(* ---- Modular<float>, Modular<float,double>, Modular<double> *)
Definition FM_in_stmt := forall pe pc mn mx p, In (pe, pc, mn, mx) advertised_fm -> mn <= p <= mx ->
  forall r a x, canon p r -> canon p a -> canon p x ->
  fm_addin pe pc p r a = (r + a) mod p /\ fm_mulin pe pc p r a = (r * a) mod p /\ fm_negin pe pc p r = (- r) mod p /\
  fm_axpyin pe pc p r a x = (a * x + r) mod p.
Lemma fm_in : FM_in_stmt.
Proof.
  intros pe pc mn mx p HI Hp r a x Hr Ha Hx.
  destruct (fm_adv pe pc mn mx p HI Hp r a x Hr Ha Hx) as (E1 & _ & _ & E2 & E3 & _).
  destruct (fm_adv pe pc mn mx p HI Hp a x r Ha Hx Hr) as (_ & _ & _ & _ & _ & E4 & _).
  destruct (fm_in_sibling pe pc p O r a x) as (S1 & S2 & S3 & _ & S5).
  rewrite S1, S2, S3, S5. repeat split; assumption.
Qed.

Definition FM_invin_stmt := forall pe pc mx p, fm_cfg pe pc mx -> 2 <= p <= mx ->
  forall a, canon p a -> Z.gcd a p = 1 ->
  (forall fuel r, fm_invin pe pc p fuel a = Some r -> canon p r /\ (a * r) mod p = 1) /\
  (exists fuel, fm_invin pe pc p fuel a <> None).
Lemma fm_invin_exact : FM_invin_stmt.
Proof.
  intros pe pc mx p Hc Hp a Ha Hg. destruct (fm_inv_exact pe pc mx p Hc Hp a Ha Hg) as [H1 [fuel H2]].
  split; [ intros fl r; destruct (fm_in_sibling pe pc p fl a a a) as (_ & _ & _ & S & _); rewrite S; apply H1
         | exists fuel; destruct (fm_in_sibling pe pc p fuel a a a) as (_ & _ & _ & S & _); rewrite S; exact H2 ].
Qed.

(* mOne = (Element)(p - (Element)1): the conversion of p and the subtraction are exact *)
Definition FM_consts_stmt := forall pe pc mx p, fm_cfg pe pc mx -> 2 <= p <= mx -> fm_consts pe p = (0, 1, p - 1, 0, p - 1).
Lemma fm_consts_exact : FM_consts_stmt.
Proof.
  intros pe pc mx p Hc Hp. destruct (fm_cfg_env pe pc mx Hc) as (_ & _ & Hre & _).
  unfold fm_consts. rewrite (Hre 0), (Hre 1), (Hre p), (Hre (p - 1)), (Hre (p - 1)) by lia. reflexivity.
Qed.

(* ---- Modular<ruint<K>,ruint<K'>>: every width *)
Definition RU_in_stmt (w : Z) (dbl : bool) (p : Z) : Prop := ru_pre w dbl p -> forall r a b, canon p r -> canon p a -> canon p b ->
  ru_addin w p r a = (r + a) mod p /\ ru_mulin w dbl p r a = (r * a) mod p /\ ru_negin w p r = (- r) mod p /\
  ru_axpyin w dbl p r a b = (a * b + r) mod p /\ ru_axmyin w dbl p r a b = (a * b - r) mod p.
Lemma ru_in w dbl p : RU_in_stmt w dbl p.
Proof.
  intros HP r a b Hr Ha Hb.
  destruct (ru_exact w dbl p HP r a b Hr Ha Hb) as (E1 & _ & _ & E2 & E3 & _).
  destruct (ru_exact w dbl p HP a b r Ha Hb Hr) as (_ & _ & _ & _ & _ & E4 & E5 & _).
  destruct (ru_in_sibling w dbl p r a b) as (S1 & S2 & S3 & S4 & S5).
  rewrite S1, S2, S3, S4, S5. repeat split; assumption.
Qed.
Definition RU_in_adv_stmt := forall w dbl mn mx p, In (w, dbl, mn, mx) advertised_ru -> mn <= p <= mx ->
  (forall r a b, canon p r -> canon p a -> canon p b ->
   ru_addin w p r a = (r + a) mod p /\ ru_mulin w dbl p r a = (r * a) mod p /\ ru_negin w p r = (- r) mod p /\
   ru_axpyin w dbl p r a b = (a * b + r) mod p /\ ru_axmyin w dbl p r a b = (a * b - r) mod p) /\
  ru_consts w p = (0, 1, p - 1, 0, p - 1).
Definition RU_consts_stmt (w : Z) (dbl : bool) (p : Z) : Prop := ru_pre w dbl p -> ru_consts w p = (0, 1, p - 1, 0, p - 1).
Lemma ru_consts_exact w dbl p : RU_consts_stmt w dbl p.
Proof.
  intros HP. destruct (ru_pre_facts w dbl p HP) as (H0 & _ & H2 & _). destruct HP as (_ & _ & Hp).
  unfold ru_consts. rewrite (Z.mod_small 0), (Z.mod_small 1), (Z.mod_small p), (Z.mod_small (p - 1)) by lia. reflexivity.
Qed.
Lemma ru_in_adv : RU_in_adv_stmt.
Proof.
  intros w dbl mn mx p HIn Hp. pose proof (proj1 (forallb_forall _ _) advertised_ru_ok _ HIn) as H. unfold ru_row_ok in H.
  rewrite !andb_true_iff in H. destruct H as [[[Hw He] Hmn] Hmx].
  apply Z.ltb_lt in Hw. apply Z.eqb_eq in He. apply Z.leb_le in Hmn, Hmx.
  assert (HP : ru_pre w dbl p) by (repeat split; try lia).
  split; [ exact (ru_in w dbl p HP) | exact (ru_consts_exact w dbl p HP) ].
Qed.

(* ---- Modular<Integer>: every modulus >= 2 *)
Definition ZZ_in_stmt (p : Z) : Prop := 2 <= p -> forall r a b, canon p r -> canon p a -> canon p b ->
  zz_addin p r a = (r + a) mod p /\ zz_subin p r a = (r - a) mod p /\ zz_mulin p r a = (r * a) mod p /\
  zz_negin p r = (- r) mod p /\ zz_axpyin p r a b = (a * b + r) mod p /\ zz_maxpyin p r a b = (r - a * b) mod p /\
  zz_consts p = (0, 1, p - 1, 0, p - 1).
Lemma zz_in p : ZZ_in_stmt p.
Proof.
  intros Hp r a b Hr Ha Hb.
  destruct (zz_exact p Hp r a b Hr Ha Hb) as (E1 & E2 & E3 & E4 & _).
  destruct (zz_exact p Hp a b r Ha Hb Hr) as (_ & _ & _ & _ & E5 & _ & E6 & _).
  destruct (zz_in_sibling p r a b) as (S1 & S2 & S3 & S4 & S5 & S6).
  rewrite S1, S2, S3, S4, S5, S6. repeat split; assumption.
Qed.

(* hypotheses satisfiable: Modular<int32_t,uint64_t> at its advertised maximum; the float ring at its maximum; ruint<64> *)
Example in_hyps_sat :
  (exists sb sg cb mn mx, In (sb, sg, cb, mn, mx) advertised_int /\ mn <= mx /\ canon mx (mx - 1)) /\
  (fm_cfg 24 24 4096 /\ 2 <= 4096 <= 4096 /\ canon 4096 4095) /\ (ru_pre 64 true 9223372036854775808) /\
  subinZ 32 true 64 2147483647 0 2147483646 = 1 /\ fm_axpyin 24 24 4096 4095 4095 4094 = 1.
Proof.
  split; [ exact int_hyps_sat | ]. split; [ unfold fm_cfg, canon; intuition lia | ].
  split; [ unfold ru_pre, ru_maxcard; change (2 ^ (64 - 1)) with 9223372036854775808; repeat split; try lia; discriminate | ].
  split; vm_compute; reflexivity.
Qed.

Print Assumptions int_in_sibling. Print Assumptions int_in. Print Assumptions int_invin. Print Assumptions int_consts.
Print Assumptions fm_in. Print Assumptions fm_invin_exact. Print Assumptions fm_consts_exact.
Print Assumptions ru_in_adv. Print Assumptions zz_in.
