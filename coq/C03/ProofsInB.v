(* C03 — in-place call forms and constants (ModelIn.v) of ModularBalanced<float|double>, ModularBalanced<int32_t|int64_t> and
   ModularExtended<float|double>.  Part 1: each in-place function coincides with its three-address sibling for ALL operands
   (these rings' in-place bodies delegate, except bf axmyin/maxpyin and bi axpyin/axmyin which have bodies of their own).
   Part 2: exact results under the siblings' preconditions, the constants, and -- new, the siblings had no theorem --
   add/sub/addin/subin and maxpyin of the balanced integer rings, divin of the extended rings for EVERY preprocessor branch. *)
From Coq Require Import ZArith Bool Lia List.
From C03 Require Import Model ModelF ModelDK ModelIn Params ProofsBase ProofsInt ProofsFM ProofsBI ProofsBF ProofsEX ProofsBN
  ProofsBIQ ProofsFInv ProofsBIInv ProofsTop ProofsTop2 ProofsTop3.
Import ListNotations.
Local Open Scope Z_scope.
Ltac Zify.zify_post_hook ::= idtac.

(* ================================================================== Part 1: siblings, for all operands *)
Definition BF_in_sibling_stmt : Prop := forall pe p fuel r a x,
  bf_addin pe p r a = bf_add pe p r a /\ bf_subin pe p r a = bf_sub pe p r a /\ bf_mulin pe p r a = bf_mul pe p r a /\
  bf_negin pe p r = bf_negn pe p r /\ bf_invin pe p fuel r = bf_inv pe p fuel r /\ bf_divin pe p fuel r a = bf_div pe p fuel r a /\
  bf_axmyin pe p r a x = bf_axmy pe p a x r /\ bf_maxpyin pe p r a x = bf_maxpy pe p a x r.
Lemma bf_in_sibling : BF_in_sibling_stmt.
Proof.
  red; intros. cbv beta zeta delta [bf_addin bf_subin bf_mulin bf_negin bf_invin bf_divin bf_axmyin bf_axmy bf_maxpyin bf_maxpy].
  repeat split; reflexivity.
Qed.

Definition BI_in_sibling_stmt : Prop := forall w p fuel r a x,
  bi_addin w p r a = bi_add w p r a /\ bi_subin w p r a = bi_sub w p r a /\ bi_mulin w p r a = bi_mul w p r a /\
  bi_negin w p r = bi_negn w p r /\ bi_invin w p fuel r = bi_inv w p fuel r /\ bi_divin w p fuel r a = bi_div w p fuel r a /\
  bi_axpyin w p r a x = bi_axpy w p a x r /\ bi_axmyin w p r a x = bi_axmy w p a x r /\
  bi_maxpyin w p r a x = bi_maxpyn w p a x r.
Lemma bi_in_sibling : BI_in_sibling_stmt.
Proof.
  red; intros. cbv beta zeta delta [bi_addin bi_subin bi_mulin bi_negin bi_invin bi_divin bi_axpyin bi_axpy bi_axmyin bi_axmy bi_maxpyin bi_maxpyn].
  repeat split; reflexivity.
Qed.

Definition XB_in_sibling_stmt : Prop := forall mb pe p fuel r a x,
  xb_addin pe p r a = ex_add pe p r a /\ xb_subin pe p r a = ex_sub pe p r a /\ xb_negin pe p r = ex_neg pe p r /\
  xb_mulin mb pe p r a = xb_mul mb pe p r a /\ xb_invin pe p fuel r = ex_inv pe p fuel r /\
  xb_divin mb pe p fuel r a = xb_div mb pe p fuel r a /\ xb_axpyin mb pe p r a x = xb_axpy mb pe p a x r /\
  xb_axmyin mb pe p r a x = xb_axmy mb pe p a x r /\ xb_maxpyin mb pe p r a x = xb_maxpy mb pe p a x r.
Lemma xb_in_sibling : XB_in_sibling_stmt.
Proof.
  red; intros. cbv beta zeta delta [xb_addin xb_subin xb_negin xb_mulin xb_invin xb_divin xb_div xb_axpyin xb_axmyin xb_maxpyin].
  repeat split; reflexivity.
Qed.

(* ================================================================== Part 2 *)
Lemma bal_rep_shift p y k : 0 < p -> bal_rep p (y + k * p) = bal_rep p y.
Proof. intros. unfold bal_rep. rewrite Z.mod_add by lia. reflexivity. Qed.

(* ---- ModularBalanced<float|double> *)
Lemma advertised_bf_cfg pe mn mx p : In (pe, mn, mx) advertised_bf -> mn <= p <= mx -> exists m, bf_cfg pe m /\ 3 <= p <= m.
Proof.
  intros HIn Hp. pose proof (proj1 (forallb_forall _ _) advertised_bf_ok _ HIn) as H. unfold bf_row_ok in H.
  rewrite andb_true_iff in H. destruct H as [Hmn Hex]. apply Z.leb_le in Hmn.
  apply existsb_exists in Hex. destruct Hex as [[e m] [Hin Hc]]. cbn [fst snd] in Hc.
  rewrite andb_true_iff, Z.eqb_eq, Z.leb_le in Hc. destruct Hc as [-> Hm].
  exists m. split; [ | lia ]. cbn [In] in Hin. unfold bf_cfg. intuition.
Qed.

Definition BF_in_stmt := forall pe mn mx p, In (pe, mn, mx) advertised_bf -> mn <= p <= mx ->
  forall r a x, bal_canon p r -> bal_canon p a -> bal_canon p x ->
  bf_addin pe p r a = bal_rep p (r + a) /\ bf_subin pe p r a = bal_rep p (r - a) /\ bf_mulin pe p r a = bal_rep p (r * a) /\
  bf_negin pe p r = bal_rep p (- r) /\ bf_axmyin pe p r a x = bal_rep p (a * x - r) /\ bf_maxpyin pe p r a x = bal_rep p (r - a * x).
Lemma bf_in : BF_in_stmt.
Proof.
  intros pe mn mx p HI Hp r a x Hr Ha Hx. destruct (advertised_bf_cfg pe mn mx p HI Hp) as [m [Hc Hm]].
  destruct (bf_adv pe mn mx p HI Hp) as [_ Hops].
  destruct (Hops r a x Hr Ha Hx) as (E1 & E2 & E3 & _).
  destruct (Hops a x r Ha Hx Hr) as (_ & _ & _ & _ & _ & E5 & E6).
  pose proof (bf_negn_exact pe m p Hc Hm r Hr) as E4.
  destruct (bf_in_sibling pe p O r a x) as (S1 & S2 & S3 & S4 & _ & _ & S7 & S8).
  rewrite S1, S2, S3, S4, S7, S8. repeat split; assumption.
Qed.

Definition BF_invin_stmt := forall pe mx p, bf_cfg pe mx -> 3 <= p <= mx ->
  forall a, bal_canon p a -> Z.gcd a p = 1 ->
  (forall fuel r, bf_invin pe p fuel a = Some r -> bal_canon p r /\ (a * r) mod p = 1) /\
  (exists fuel, bf_invin pe p fuel a <> None).
Lemma bf_invin_exact : BF_invin_stmt.
Proof.
  intros pe mx p Hc Hp a Ha Hg. destruct (bf_inv_exact pe mx p Hc Hp a Ha Hg) as [H1 [fuel H2]].
  split; [ intros fl r; destruct (bf_in_sibling pe p fl a a a) as (_ & _ & _ & _ & S & _); rewrite S; apply H1
         | exists fuel; destruct (bf_in_sibling pe p fuel a a a) as (_ & _ & _ & _ & S & _); rewrite S; exact H2 ].
Qed.
Definition BF_divin_stmt := forall pe mx p, bf_cfg pe mx -> 3 <= p <= mx ->
  forall a b, bal_canon p a -> bal_canon p b -> Z.gcd b p = 1 ->
  (forall fuel r, bf_divin pe p fuel a b = Some r -> bal_canon p r /\ bal_rep p (r * b) = a) /\
  (exists fuel, bf_divin pe p fuel a b <> None).
Lemma bf_divin_exact : BF_divin_stmt.
Proof.
  intros pe mx p Hc Hp a b Ha Hb Hg. destruct (bf_div_exact pe mx p Hc Hp a b Ha Hb Hg) as [H1 [fuel H2]].
  split; [ intros fl r; destruct (bf_in_sibling pe p fl a b a) as (_ & _ & _ & _ & _ & S & _); rewrite S; apply H1
         | exists fuel; destruct (bf_in_sibling pe p fuel a b a) as (_ & _ & _ & _ & _ & S & _); rewrite S; exact H2 ].
Qed.

(* zero, one, mOne = -1, minElement() = _mhalfp = p/2 - p + 1, maxElement() = _halfp = p/2 *)
Definition BF_consts_stmt := forall pe mx p, bf_cfg pe mx -> 3 <= p <= mx -> bf_consts pe p = (0, 1, -1, p / 2 - p + 1, p / 2).
Lemma bf_consts_exact : BF_consts_stmt.
Proof.
  intros pe mx p Hc Hp. assert (Hd := Z.div_mod p 2 ltac:(lia)). assert (Hm := Z.mod_pos_bound p 2 ltac:(lia)).
  unfold bf_consts. destruct Hc as [Hc | Hc]; injection Hc as -> ->.
  - rewrite (halfp_ok 24 p) by (change (2 ^ 24) with 16777216; lia).
    rewrite (rn24_id (p / 2 - p)) by lia. rewrite (rn24_id (p / 2 - p + 1)) by lia. reflexivity.
  - rewrite (halfp_ok 53 p) by (change (2 ^ 53) with 9007199254740992; lia).
    rewrite (rn53_id (p / 2 - p)) by lia. rewrite (rn53_id (p / 2 - p + 1)) by lia. reflexivity.
Qed.

(* ---- ModularBalanced<int32_t|int64_t> *)
(* NORMALISE on any value in [-p, p] *)
Lemma bi_norm_rep w p x : (w = 32 \/ w = 64) -> 3 <= p <= 2 ^ (w - 3) -> - p <= x <= p -> bi_norm w p x = bal_rep p x.
Proof.
  intros Hw Hp Hx. assert (Hd := Z.div_mod p 2 ltac:(lia)). assert (Hm := Z.mod_pos_bound p 2 ltac:(lia)).
  pose proof (bi_ident w p Hw Hp) as I.
  unfold bi_norm. rewrite !shiftr1.
  rewrite (proj2 (I (p / 2) ltac:(lia))), (proj1 (I (p / 2) ltac:(lia))).
  rewrite (proj2 (I (p / 2 - p) ltac:(lia))). rewrite (proj2 (I (p / 2 - p + 1) ltac:(lia))), (proj1 (I (p / 2 - p + 1) ltac:(lia))).
  symmetry. destruct (Z.ltb_spec x (p / 2 - p + 1)).
  - rewrite (proj2 (I (x + p) ltac:(lia))), (proj1 (I (x + p) ltac:(lia))).
    apply bal_rep_unique; [ lia | unfold bal_canon; lia | exists (-1); lia ].
  - destruct (Z.ltb_spec (p / 2) x).
    + rewrite (proj2 (I (x - p) ltac:(lia))), (proj1 (I (x - p) ltac:(lia))).
      apply bal_rep_unique; [ lia | unfold bal_canon; lia | exists 1; lia ].
    + apply bal_rep_unique; [ lia | unfold bal_canon; lia | exists 0; lia ].
Qed.

(* add / sub: r = a + b resp. a - b in Element arithmetic (no wrap: |a|,|b| <= p/2), NORMALISE *)
Definition BI_lin_stmt (w p : Z) : Prop := BI_env w p -> forall a b, bal_canon p a -> bal_canon p b ->
  bi_add w p a b = bal_rep p (a + b) /\ bi_sub w p a b = bal_rep p (a - b).
Lemma bi_lin_exact w p : BI_lin_stmt w p.
Proof.
  intros Henv a b Ha Hb. destruct (bi_env_w w p Henv) as [Hw Hp].
  assert (Hd := Z.div_mod p 2 ltac:(lia)). assert (Hm := Z.mod_pos_bound p 2 ltac:(lia)).
  pose proof (bi_ident w p Hw Hp) as I. unfold bal_canon in *. unfold bi_add, bi_sub.
  rewrite (proj2 (I (a + b) ltac:(lia))), (proj1 (I (a + b) ltac:(lia))).
  rewrite (proj2 (I (a - b) ltac:(lia))), (proj1 (I (a - b) ltac:(lia))).
  split; apply bi_norm_rep; try assumption; lia.
Qed.

Definition BI_in_stmt (w p : Z) : Prop := BI_env w p -> forall r a x, bal_canon p r -> bal_canon p a -> bal_canon p x ->
  bi_addin w p r a = bal_rep p (r + a) /\ bi_subin w p r a = bal_rep p (r - a) /\
  (bal_canon p (bi_mulin w p r a) /\ exists k, bi_mulin w p r a = r * a + k * p) /\
  bi_negin w p r = bal_rep p (- r) /\
  (bal_canon p (bi_axpyin w p r a x) /\ exists k, bi_axpyin w p r a x = a * x + r + k * p) /\
  (bal_canon p (bi_axmyin w p r a x) /\ exists k, bi_axmyin w p r a x = a * x - r + k * p) /\
  bi_maxpyin w p r a x = bal_rep p (r - a * x).
Lemma bi_in w p : BI_in_stmt w p.
Proof.
  intros Henv r a x Hr Ha Hx. destruct (bi_env_w w p Henv) as [Hw Hp].
  destruct (bi_lin_exact w p Henv r a Hr Ha) as [E1 E2].
  pose proof (bi_mul_full w p Henv r a Hr Ha) as E3.
  pose proof (bi_negn_exact w p Hw Hp r Hr) as E4.
  pose proof (bi_axpy_full w p Henv a x r Ha Hx Hr) as E5.
  pose proof (bi_axmy_full w p Henv a x r Ha Hx Hr) as E6.
  destruct (bi_in_sibling w p O r a x) as (S1 & S2 & S3 & S4 & _ & _ & S7 & S8 & S9).
  rewrite S1, S2, S3, S4, S7, S8, S9. repeat split; try assumption; try (apply E3 || apply E5 || apply E6).
  unfold bi_maxpyn. destruct E6 as [Hcn [k Hk]]. rewrite (bi_negn_exact w p Hw Hp _ Hcn), Hk.
  replace (- (a * x - r + k * p)) with (r - a * x + (- k) * p) by ring. apply bal_rep_shift; lia.
Qed.

Definition BI_invin_stmt (w p : Z) : Prop := BI_env w p -> forall a, bal_canon p a -> Z.gcd a p = 1 ->
  (forall fuel r, bi_invin w p fuel a = Some r -> bal_canon p r /\ (a * r) mod p = 1) /\
  (exists fuel, bi_invin w p fuel a <> None).
Lemma bi_invin_exact w p : BI_invin_stmt w p.
Proof.
  intros Henv a Ha Hg. destruct (bi_inv_exact w p Henv a Ha Hg) as [H1 [fuel H2]].
  split; [ intros fl r; destruct (bi_in_sibling w p fl a a a) as (_ & _ & _ & _ & S & _); rewrite S; apply H1
         | exists fuel; destruct (bi_in_sibling w p fuel a a a) as (_ & _ & _ & _ & S & _); rewrite S; exact H2 ].
Qed.
Definition BI_divin_stmt (w p : Z) : Prop := BI_env w p -> forall a b, bal_canon p a -> bal_canon p b -> Z.gcd b p = 1 ->
  (forall fuel r, bi_divin w p fuel a b = Some r -> bal_canon p r /\ bal_rep p (r * b) = a) /\
  (exists fuel, bi_divin w p fuel a b <> None).
Lemma bi_divin_exact w p : BI_divin_stmt w p.
Proof.
  intros Henv a b Ha Hb Hg. destruct (bi_div_exact w p Henv a b Ha Hb Hg) as [H1 [fuel H2]].
  split; [ intros fl r; destruct (bi_in_sibling w p fl a b a) as (_ & _ & _ & _ & _ & S & _); rewrite S; apply H1
         | exists fuel; destruct (bi_in_sibling w p fuel a b a) as (_ & _ & _ & _ & _ & S & _); rewrite S; exact H2 ].
Qed.

Definition BI_consts_stmt (w p : Z) : Prop := BI_env w p -> bi_consts w p = (0, 1, -1, p / 2 - p + 1, p / 2).
Lemma bi_consts_exact w p : BI_consts_stmt w p.
Proof.
  intros Henv. destruct (bi_env_w w p Henv) as [Hw Hp].
  assert (Hd := Z.div_mod p 2 ltac:(lia)). assert (Hm := Z.mod_pos_bound p 2 ltac:(lia)).
  pose proof (bi_ident w p Hw Hp) as I. unfold bi_consts. rewrite !shiftr1.
  rewrite (proj1 (I 0 ltac:(lia))), (proj1 (I 1 ltac:(lia))), (proj1 (I (-1) ltac:(lia))).
  rewrite (proj2 (I (p / 2) ltac:(lia))), (proj1 (I (p / 2) ltac:(lia))).
  rewrite (proj2 (I (p / 2 - p) ltac:(lia))). rewrite (proj2 (I (p / 2 - p + 1) ltac:(lia))), (proj1 (I (p / 2 - p + 1) ltac:(lia))).
  reflexivity.
Qed.
(* at the advertised bounds *)
Definition BI_in_adv_stmt : Prop := forall w mn mx p, In (w, mn, mx) advertised_bi -> mn <= p <= mx ->
  BI_lin_stmt w p /\ BI_in_stmt w p /\ BI_invin_stmt w p /\ BI_divin_stmt w p /\ bi_consts w p = (0, 1, -1, p / 2 - p + 1, p / 2).
Lemma bi_in_adv : BI_in_adv_stmt.
Proof.
  intros w mn mx p HI Hp. pose proof (advertised_bi_env w mn mx p HI Hp) as Henv.
  split; [ apply bi_lin_exact | ]. split; [ apply bi_in | ]. split; [ apply bi_invin_exact | ]. split; [ apply bi_divin_exact | ].
  exact (bi_consts_exact w p Henv).
Qed.

(* ---- ModularExtended<float|double>, whichever branch of ::mul the preprocessor selected (mb) *)
Definition XB_in_stmt := forall mb pe mn mx p, In (pe, mn, mx) advertised_ex -> mn <= p <= mx ->
  forall r a x, canon p r -> canon p a -> canon p x ->
  xb_addin pe p r a = (r + a) mod p /\ xb_subin pe p r a = (r - a) mod p /\ xb_negin pe p r = (- r) mod p /\
  xb_mulin mb pe p r a = (r * a) mod p /\ xb_axpyin mb pe p r a x = (a * x + r) mod p /\
  xb_axmyin mb pe p r a x = (a * x - r) mod p /\ xb_maxpyin mb pe p r a x = (r - a * x) mod p.
Lemma xb_in : XB_in_stmt.
Proof.
  intros mb pe mn mx p HI Hp r a x Hr Ha Hx.
  destruct (ex_adv pe mn mx p HI Hp r a Hr Ha) as (E1 & E2 & E3).
  destruct (xb_mul_adv mb pe mn mx p HI Hp r a x Hr Ha Hx) as (E4 & _).
  destruct (xb_mul_adv mb pe mn mx p HI Hp a x r Ha Hx Hr) as (_ & E5 & E6 & E7).
  destruct (xb_in_sibling mb pe p O r a x) as (S1 & S2 & S3 & S4 & _ & _ & S7 & S8 & S9).
  rewrite S1, S2, S3, S4, S7, S8, S9. repeat split; assumption.
Qed.

Definition XB_invin_stmt := forall pe mx p, ex_cfg pe mx -> 2 <= p <= mx ->
  forall a, canon p a -> Z.gcd a p = 1 ->
  (forall fuel r, xb_invin pe p fuel a = Some r -> canon p r /\ (a * r) mod p = 1) /\
  (exists fuel, xb_invin pe p fuel a <> None).
Lemma xb_invin_exact : XB_invin_stmt.
Proof.
  intros pe mx p Hc Hp a Ha Hg. destruct (ex_inv_exact pe mx p Hc Hp a Ha Hg) as [H1 [fuel H2]].
  split; [ intros fl r; destruct (xb_in_sibling 0 pe p fl a a a) as (_ & _ & _ & _ & S & _); rewrite S; apply H1
         | exists fuel; destruct (xb_in_sibling 0 pe p fuel a a a) as (_ & _ & _ & _ & S & _); rewrite S; exact H2 ].
Qed.

(* divin = mulin(r, inv(iy, y)) (and div = mul(r, a, inv(ib, b))) through the mul of EVERY branch *)
Definition XB_divin_stmt := forall mb pe mn mx p, In (pe, mn, mx) advertised_ex -> mn <= p <= mx ->
  forall a b, canon p a -> canon p b -> Z.gcd b p = 1 ->
  ((forall fuel r, xb_divin mb pe p fuel a b = Some r -> canon p r /\ (r * b) mod p = a) /\
   (exists fuel, xb_divin mb pe p fuel a b <> None)) /\
  ((forall fuel r, xb_div mb pe p fuel a b = Some r -> canon p r /\ (r * b) mod p = a) /\
   (exists fuel, xb_div mb pe p fuel a b <> None)).
Lemma xb_divin_exact : XB_divin_stmt.
Proof.
  intros mb pe mn mx p HI Hp a b Ha Hb Hg. destruct (advertised_ex_cfg pe mn mx p HI Hp) as [m [Hc Hm]].
  destruct (ex_inv_exact pe m p Hc Hm b Hb Hg) as [Hi [fuel Hf]].
  destruct (ex_cfg_env' pe m Hc) as (Hpe & HB & Hre).
  assert (D : (forall fl r, xb_div mb pe p fl a b = Some r -> canon p r /\ (r * b) mod p = a) /\
              (exists fl, xb_div mb pe p fl a b <> None)).
  { split.
    - intros fl r. unfold xb_div. destruct (ex_inv pe p fl b) as [ib | ] eqn:E; [ | discriminate ].
      destruct (Hi fl ib E) as [Hcn Hmm]. intros [= <-].
      destruct (xb_mul_adv mb pe mn mx p HI Hp a ib a Ha Hcn Ha) as [Emul _]. rewrite Emul.
      exact (core_div pe m p Hpe HB Hm Hre a b ib Ha Hmm).
    - exists fuel. unfold xb_div. destruct (ex_inv pe p fuel b); [ discriminate | contradiction ]. }
  split; [ | exact D ]. destruct D as [D1 [fl D2]].
  split; [ intros f r; destruct (xb_in_sibling mb pe p f a b a) as (_ & _ & _ & _ & _ & S & _); rewrite S; apply D1
         | exists fl; destruct (xb_in_sibling mb pe p fl a b a) as (_ & _ & _ & _ & _ & S & _); rewrite S; exact D2 ].
Qed.

(* mOne = (Element)p - 1.0: the conversion, the double subtraction and the conversion back are exact *)
Definition XB_consts_stmt := forall pe mx p, ex_cfg pe mx -> 2 <= p <= mx -> xb_consts pe p = (0, 1, p - 1, 0, p - 1).
Lemma xb_consts_exact : XB_consts_stmt.
Proof.
  intros pe mx p Hc Hp. unfold xb_consts. destruct Hc as [Hc | Hc]; injection Hc as -> ->.
  - rewrite (rn24_id p) by lia. rewrite (rn53_id (p - 1)) by lia. rewrite (rn24_id (p - 1)) by lia. reflexivity.
  - rewrite (rn53_id p) by lia. rewrite (rn53_id (p - 1)) by lia. rewrite (rn53_id (p - 1)) by lia. reflexivity.
Qed.

(* hypotheses satisfiable *)
Example inb_hyps_sat :
  (bf_cfg 53 189812531 /\ 3 <= 189812531 <= 189812531 /\ bal_canon 189812531 94906265 /\ bal_canon 189812531 (- 94906265)) /\
  (BI_env 64 6074000999 /\ bal_canon 6074000999 3037000499 /\ bal_canon 6074000999 (- 3037000499)) /\
  (ex_cfg 24 2097151 /\ canon 2097151 2097150) /\
  bf_maxpyin 53 189812531 94906265 94906265 (- 94906265) = bal_rep 189812531 (94906265 - 94906265 * (- 94906265)) /\
  bi_maxpyin 32 4 2 1 0 = 2 /\ xb_consts 24 2097151 = (0, 1, 2097150, 0, 2097150).
Proof.
  split; [ unfold bf_cfg, bal_canon; repeat split; try lia; try (right; reflexivity); vm_compute; discriminate | ].
  split; [ exact bi_full_hyps_sat | ]. split; [ unfold ex_cfg, canon; split; [ left; reflexivity | lia ] | ].
  repeat split; vm_compute; reflexivity.
Qed.

Print Assumptions bf_in. Print Assumptions bf_invin_exact. Print Assumptions bf_divin_exact. Print Assumptions bf_consts_exact.
Print Assumptions bi_in_adv. Print Assumptions xb_in. Print Assumptions xb_invin_exact. Print Assumptions xb_divin_exact. Print Assumptions xb_consts_exact.
