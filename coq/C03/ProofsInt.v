(* C03 — the integral rings Modular<S,C>: for every (Storage_t, Compute_t) width pair accepted by
   modular-integral.h, every modulus 2 <= p <= maxcard and canonical operands, each modelled operation
   (Model.v: all conversions and arithmetic wrap modulo 2^w of the C type involved) equals the exact residue.
   Since the model wraps wherever the C++ types wrap, equality with the exact value says that no wrap is observable. *)
From Coq Require Import ZArith Bool Lia List.
From C03 Require Import Model ProofsBase.
Import ListNotations.
Local Open Scope Z_scope.
Ltac Zify.zify_post_hook ::= Z.to_euclidean_division_equations.

Definition canon (p a : Z) : Prop := 0 <= a < p.
(* (bits of Storage_t, bits of Compute_t): same width or double width, 8..64 bit storage *)
Definition cfgs : list (Z * Z) := [(8,8);(8,16);(16,16);(16,32);(32,32);(32,64);(64,64);(64,128)].
Definition cfg_ok (sb cb : Z) : Prop := In (sb, cb) cfgs.
(* the rule of modular-implem.h: same width: 2^(N/2); intN/uint2N: 2^(N-1)-1; uintN/uint2N: 2^N-1 *)
Definition maxcard (sb : Z) (sg : bool) (cb : Z) : Z :=
  if cb =? sb then 2 ^ (sb / 2) else if sg then 2 ^ (sb - 1) - 1 else 2 ^ sb - 1.
(* range of the storage type *)
Definition in_storage (sb : Z) (sg : bool) (y : Z) : Prop := in_range (mk_ity sb sg) y.

Lemma cast_u8 z : cast (mk_ity 8 false) z = z mod 256. Proof. reflexivity. Qed.
Lemma cast_i8 z : cast (mk_ity 8 true) z = (z + 128) mod 256 - 128. Proof. reflexivity. Qed.
Lemma cast_u16 z : cast (mk_ity 16 false) z = z mod 65536. Proof. reflexivity. Qed.
Lemma cast_i16 z : cast (mk_ity 16 true) z = (z + 32768) mod 65536 - 32768. Proof. reflexivity. Qed.
Lemma cast_u32 z : cast (mk_ity 32 false) z = z mod 4294967296. Proof. reflexivity. Qed.
Lemma cast_i32 z : cast (mk_ity 32 true) z = (z + 2147483648) mod 4294967296 - 2147483648. Proof. reflexivity. Qed.
Lemma cast_u64 z : cast (mk_ity 64 false) z = z mod 18446744073709551616. Proof. reflexivity. Qed.
Lemma cast_i64 z : cast (mk_ity 64 true) z = (z + 9223372036854775808) mod 18446744073709551616 - 9223372036854775808. Proof. reflexivity. Qed.
Lemma cast_u128 z : cast (mk_ity 128 false) z = z mod 340282366920938463463374607431768211456. Proof. reflexivity. Qed.
Lemma ar_8 g z : ar (mk_ity 8 g) z = cast (mk_ity 32 true) z. Proof. reflexivity. Qed.
Lemma ar_16 g z : ar (mk_ity 16 g) z = cast (mk_ity 32 true) z. Proof. reflexivity. Qed.
Lemma ar_32 g z : ar (mk_ity 32 g) z = cast (mk_ity 32 g) z. Proof. reflexivity. Qed.
Lemma ar_64 g z : ar (mk_ity 64 g) z = cast (mk_ity 64 g) z. Proof. reflexivity. Qed.
Lemma ar_128 g z : ar (mk_ity 128 g) z = cast (mk_ity 128 g) z. Proof. reflexivity. Qed.
#[export] Hint Rewrite ar_8 ar_16 ar_32 ar_64 ar_128 : ctypes.
#[export] Hint Rewrite cast_u8 cast_i8 cast_u16 cast_i16 cast_u32 cast_i32 cast_u64 cast_i64 cast_u128 : ctypes.

Lemma rem_full y p : 0 < p ->
  Z.rem y p = if 0 <=? y then y mod p else if y mod p =? 0 then 0 else y mod p - p.
Proof.
  intros. destruct (Z.leb_spec 0 y).
  - apply Z.rem_mod_nonneg; lia.
  - replace y with (- - y) at 1 by lia. rewrite Z.rem_opp_l', Z.rem_mod_nonneg by lia.
    rewrite mod_opp_of_mod by lia. destruct (y mod p =? 0); lia.
Qed.

Lemma mod_shift x y p k : 0 < p -> x = y + k * p -> x mod p = y mod p.
Proof. intros ? ->. apply Z.mod_add; lia. Qed.

Lemma signed_id z h m : 0 <= z + h < m -> (z + h) mod m - h = z.
Proof. intros; rewrite Z.mod_small; lia. Qed.

Ltac is_lit m := lazymatch m with Zpos _ => idtac | _ => fail end.
Ltac clean x := lazymatch x with
  | context[_ mod _] => fail | context[Z.rem _ _] => fail | context[Z.quot _ _] => fail
  | context[if _ then _ else _] => fail | _ => idtac end.

Ltac absmod x p :=
  let r := fresh "r" in let Hr := fresh "Hr" in let E := fresh "E" in
  assert (Hr := Z.mod_pos_bound x p ltac:(lia)); remember (x mod p) as r eqn:E.

(* innermost first: remove the conversions that are the identity, name residues modulo p, split conditionals *)
Ltac strip :=
  repeat match goal with
  | |- context[(?z + ?h) mod ?m - ?h] => is_lit m; clean z; rewrite (signed_id z h m) by lia
  | |- context[?x mod ?m] => is_lit m; clean x; rewrite (Z.mod_small x m) by lia
  | |- context[Z.rem ?x ?p] => clean x; first [ rewrite (rem_mod_nonneg x p) by lia | rewrite (rem_full x p) by lia ]
  | |- context[?x mod ?p] => tryif is_lit p then fail else (clean x; absmod x p)
  | |- context[?x <? ?y] => clean x; clean y; destruct (Z.ltb_spec x y)
  | |- context[?x <=? ?y] => clean x; clean y; destruct (Z.leb_spec x y)
  | |- context[?x =? ?y] => clean x; clean y; destruct (Z.eqb_spec x y)
  | _ => progress cbn [orb andb negb]
  end.
(* what is left wraps for real: unfold to Euclidean division by the literal 2^w and decide linearly *)
Ltac split_all :=
  repeat match goal with
  | |- context[?x <? ?y] => destruct (Z.ltb_spec x y)
  | |- context[?x <=? ?y] => destruct (Z.leb_spec x y)
  | |- context[?x =? ?y] => destruct (Z.eqb_spec x y)
  | _ => progress cbn [orb andb negb]
  end.

Ltac cfg_cases Hc sg :=
  unfold cfg_ok, cfgs in Hc; cbn [In] in Hc;
  repeat (destruct Hc as [Hc | Hc]; [ injection Hc as <- <- | ]); try contradiction; destruct sg.
Ltac max_lit H := match type of H with context[maxcard ?a ?b ?c] =>
  let v := eval vm_compute in (maxcard a b c) in change (maxcard a b c) with v in H end.
Ltac lit_eval :=
  repeat match goal with
  | |- context[Zpos ?a <? Zpos ?b] => let v := eval vm_compute in (Zpos a <? Zpos b) in change (Zpos a <? Zpos b) with v
  | H : context[2 ^ (Zpos ?a - 1)] |- _ => let v := eval vm_compute in (2 ^ (Zpos a - 1)) in change (2 ^ (Zpos a - 1)) with v in H
  | H : context[2 ^ (Zpos ?a)] |- _ => let v := eval vm_compute in (2 ^ (Zpos a)) in change (2 ^ (Zpos a)) with v in H
  end; cbn iota.
Ltac open_model :=
  unfold mk_modular, unsigned_of; cbn [RS RC Rp Rpc Rone RmOne bits sgn]; autorewrite with ctypes; cbn [bits sgn].
Ltac sq_bound Hp a b p Ha Hb :=
  pose proof (mul_lt_sq a b p Ha Hb);
  match type of Hp with _ /\ _ <= ?M => pose proof (pm1_sq_le p M ltac:(lia)) end.
(* residues: E : r = X' mod p in the context, goal mentions X mod p with X' = X + k p *)
Ltac close_mod :=
  subst;
  try match goal with |- context[?x mod ?p] => tryif is_lit p then fail else
        match goal with |- context[?y mod p] => lazymatch y with x => fail | _ =>
          first [ replace (y mod p) with (x mod p) by (apply mod_shift with 0; lia)
                | replace (y mod p) with (x mod p) by (apply mod_shift with 1; lia)
                | replace (y mod p) with (x mod p) by (apply mod_shift with (-1); lia) ] end end end;
  try lia.

Section Statements.
Variables (sb : Z) (sg : bool) (cb p : Z).
Definition Pre := cfg_ok sb cb /\ 2 <= p <= maxcard sb sg cb.
Definition Add_stmt := Pre -> forall a b, canon p a -> canon p b -> addZ sb sg cb p a b = (a + b) mod p.
Definition Addin_stmt := Pre -> forall a b, canon p a -> canon p b -> addinZ sb sg cb p a b = (a + b) mod p.
Definition Sub_stmt := Pre -> forall a b, canon p a -> canon p b -> subZ sb sg cb p a b = (a - b) mod p.
Definition Neg_stmt := Pre -> forall a, canon p a -> negZ sb sg cb p a = (- a) mod p.
Definition Mul_stmt := Pre -> forall a b, canon p a -> canon p b -> mulZ sb sg cb p a b = (a * b) mod p.
Definition Axpy_stmt := Pre -> forall a b c, canon p a -> canon p b -> canon p c -> axpyZ sb sg cb p a b c = (a * b + c) mod p.
Definition Axmy_stmt := Pre -> forall a b c, canon p a -> canon p b -> canon p c -> axmyZ sb sg cb p a b c = (a * b - c) mod p.
Definition Maxpy_stmt := Pre -> forall a b c, canon p a -> canon p b -> canon p c -> maxpyZ sb sg cb p a b c = (c - a * b) mod p.
Definition Maxpyin_stmt := Pre -> forall r a b, canon p a -> canon p b -> canon p r -> maxpyinZ sb sg cb p r a b = (r - a * b) mod p.
(* reduce takes ANY value of the storage type *)
Definition Reduce_stmt := Pre -> forall y, in_storage sb sg y -> reduceZ sb sg cb p y = y mod p.
Definition Consts_stmt := Pre -> mOneZ sb sg cb p = p - 1.
End Statements.

Ltac start Hc Hp sg :=
  intros [Hc Hp]; intros; unfold canon in *; cfg_cases Hc sg; max_lit Hp.

