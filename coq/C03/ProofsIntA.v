(* C03 — integral rings, part A: neg, sub, constants (see ProofsInt.v for statements and tactics) *)
From Coq Require Import ZArith Bool Lia List.
From C03 Require Import Model ProofsBase ProofsInt.
Import ListNotations.
Local Open Scope Z_scope.
Ltac Zify.zify_post_hook ::= Z.to_euclidean_division_equations.

Lemma neg_exact sb sg cb p : Neg_stmt sb sg cb p.
Proof.
  unfold Neg_stmt, Pre; start Hc Hp sg. all: unfold negZ, neg; open_model.
  all: rewrite (mod_neg_small a p) by lia; strip; lia.
Qed.

Lemma sub_exact sb sg cb p : Sub_stmt sb sg cb p.
Proof.
  unfold Sub_stmt, Pre; start Hc Hp sg. all: unfold subZ, sub; open_model.
  all: rewrite (mod_sub_small a b p) by lia; strip; lia.
Qed.

Lemma consts_exact sb sg cb p : Consts_stmt sb sg cb p.
Proof.
  unfold Consts_stmt, Pre; start Hc Hp sg. all: unfold mOneZ; open_model. all: strip; lia.
Qed.

