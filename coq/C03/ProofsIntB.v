(* C03 — integral rings, part B: add (see ProofsInt.v for statements and tactics) *)
From Coq Require Import ZArith Bool Lia List.
From C03 Require Import Model ProofsBase ProofsInt.
Import ListNotations.
Local Open Scope Z_scope.
Ltac Zify.zify_post_hook ::= Z.to_euclidean_division_equations.

Lemma add_exact sb sg cb p : Add_stmt sb sg cb p.
Proof.
  unfold Add_stmt, Pre; start Hc Hp sg. all: unfold addZ, add; open_model.
  all: rewrite (mod_add_small a b p) by lia.
  all: strip. all: try lia. all: split_all; try lia.
Qed.

