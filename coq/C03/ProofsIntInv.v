(* C03 — integral rings: inv, div, divin, isUnit through extended_euclid<Element> (ProofsEuclid.v). *)
From Coq Require Import ZArith Bool Lia List Znumtheory.
From C03 Require Import Model ProofsBase ProofsInt ProofsIntM ProofsEuclid.
Import ListNotations.
Local Open Scope Z_scope.
Ltac Zify.zify_post_hook ::= Z.to_euclidean_division_equations.

Section Statements.
Variables (sb : Z) (sg : bool) (cb p : Z).
(* the while loop is modelled with fuel: partial correctness for every fuel + termination for some fuel *)
Definition Inv_stmt := Pre sb sg cb p -> forall a, canon p a -> Z.gcd a p = 1 ->
  (forall fuel r, invZ sb sg cb p fuel a = Some r -> canon p r /\ (a * r) mod p = 1) /\
  (exists fuel, invZ sb sg cb p fuel a <> None).
Definition Div_stmt := Pre sb sg cb p -> forall a b, canon p a -> canon p b -> Z.gcd b p = 1 ->
  (forall fuel r, divZ sb sg cb p fuel a b = Some r -> canon p r /\ (r * b) mod p = a) /\
  (exists fuel, divZ sb sg cb p fuel a b <> None).
Definition Divin_stmt := Pre sb sg cb p -> forall r0 a, canon p r0 -> canon p a -> Z.gcd a p = 1 ->
  (forall fuel r, divinZ sb sg cb p fuel r0 a = Some r -> canon p r /\ (r * a) mod p = r0) /\
  (exists fuel, divinZ sb sg cb p fuel r0 a <> None).
Definition IsUnit_stmt := Pre sb sg cb p -> forall a, canon p a ->
  (forall fuel u, isUnitZ sb sg cb p fuel a = Some u -> (u = true <-> Z.gcd a p = 1)) /\
  (exists fuel, isUnitZ sb sg cb p fuel a <> None).
End Statements.

(* every value of [0,p] is representable in Storage_t and in the type its arithmetic is done in *)
Lemma storage_fits sb sg cb p : Pre sb sg cb p ->
  forall z, 0 <= z <= p -> cast (mk_ity sb sg) z = z /\ ar (mk_ity sb sg) z = z.
Proof.
  unfold Pre; intros [Hc Hp] z Hz; cfg_cases Hc sg; max_lit Hp.
  all: autorewrite with ctypes; split; strip; lia.
Qed.

Lemma consts_of sb sg cb p : Pre sb sg cb p ->
  RS (mk_modular sb sg cb p) = mk_ity sb sg /\ cast (mk_ity sb sg) (Rp (mk_modular sb sg cb p)) = p /\
  Rone (mk_modular sb sg cb p) = 1 /\ RmOne (mk_modular sb sg cb p) = p - 1.
Proof.
  unfold Pre; intros [Hc Hp]; cfg_cases Hc sg; max_lit Hp.
  all: open_model; repeat split; strip; lia.
Qed.

Lemma inv_of_bezout a x p k : 2 <= p -> 0 <= x <= p -> x * a = 1 + k * p -> 0 <= x < p /\ (a * x) mod p = 1.
Proof.
  intros Hp Hx E. assert (M : (a * x) mod p = 1).
  { rewrite Z.mul_comm, E, Z.mod_add by lia. apply Z.mod_small; lia. }
  split; [ | exact M ]. assert (x <> p); [ | lia ].
  intros ->. rewrite Z.mod_mul in M by lia. discriminate.
Qed.

Lemma inv_exact sb sg cb p : Inv_stmt sb sg cb p.
Proof.
  intros HP a Ha Hg. destruct (consts_of _ _ _ _ HP) as (ES & EP & E1 & EM).
  assert (Hp : 2 <= p) by (destruct HP as [_ ?]; lia). unfold canon in *.
  pose proof (storage_fits _ _ _ _ HP) as Hfit.
  unfold invZ, inv. rewrite ES, EP. split.
  - intros fuel r. destruct (extended_euclid (mk_ity sb sg) fuel a p) as [[x g] | ] eqn:E; [ | discriminate ].
    apply (extended_euclid_ok _ a p ltac:(lia) Hfit) in E. destruct E as (Hx & -> & k & Hk). rewrite Hg in Hk.
    destruct (inv_of_bezout a x p k Hp Hx Hk) as [Hc Hm].
    destruct (Z.ltb_spec x 0); [ lia | ]. intros [= <-]. split; assumption.
  - destruct (extended_euclid_terminates (mk_ity sb sg) a p ltac:(lia) Hfit) as [fuel Hf]. exists fuel.
    destruct (extended_euclid (mk_ity sb sg) fuel a p) as [[x g] | ]; [ discriminate | contradiction ].
Qed.

Lemma div_exact sb sg cb p : Div_stmt sb sg cb p.
Proof.
  intros HP a b Ha Hb Hg. destruct (inv_exact sb sg cb p HP b Hb Hg) as [Hi [fuel Hf]].
  assert (Hp : 2 <= p) by (destruct HP as [_ ?]; lia).
  unfold divZ, div. fold (invZ sb sg cb p). split.
  - intros fl r. unfold invZ in Hi. destruct (inv (mk_modular sb sg cb p) fl b) as [ib | ] eqn:E; [ | discriminate ].
    destruct (Hi fl ib E) as [Hc Hm]. intros [= <-].
    change (mul (mk_modular sb sg cb p) a ib) with (mulZ sb sg cb p a ib). rewrite (mul_exact sb sg cb p HP a ib Ha Hc).
    unfold canon in *. split; [ apply Z.mod_pos_bound; lia | ].
    rewrite Z.mul_mod_idemp_l by lia. replace (a * ib * b) with (a * (b * ib)) by ring.
    rewrite <- Z.mul_mod_idemp_r, Hm, Z.mul_1_r by lia. apply Z.mod_small; lia.
  - exists fuel. unfold invZ in Hf. destruct (inv (mk_modular sb sg cb p) fuel b); [ discriminate | contradiction ].
Qed.

Lemma divin_exact sb sg cb p : Divin_stmt sb sg cb p.
Proof.
  intros HP r0 a Hr Ha Hg. destruct (inv_exact sb sg cb p HP a Ha Hg) as [Hi [fuel Hf]].
  assert (Hp : 2 <= p) by (destruct HP as [_ ?]; lia).
  unfold divinZ, divin. split.
  - intros fl r. unfold invZ in Hi. destruct (inv (mk_modular sb sg cb p) fl a) as [ia | ] eqn:E; [ | discriminate ].
    destruct (Hi fl ia E) as [Hc Hm]. intros [= <-].
    change (mul (mk_modular sb sg cb p) r0 ia) with (mulZ sb sg cb p r0 ia). rewrite (mul_exact sb sg cb p HP r0 ia Hr Hc).
    unfold canon in *. split; [ apply Z.mod_pos_bound; lia | ].
    rewrite Z.mul_mod_idemp_l by lia. replace (r0 * ia * a) with (r0 * (a * ia)) by ring.
    rewrite <- Z.mul_mod_idemp_r, Hm, Z.mul_1_r by lia. apply Z.mod_small; lia.
  - exists fuel. unfold invZ in Hf. destruct (inv (mk_modular sb sg cb p) fuel a); [ discriminate | contradiction ].
Qed.

Lemma isUnit_exact sb sg cb p : IsUnit_stmt sb sg cb p.
Proof.
  intros HP a Ha. destruct (consts_of _ _ _ _ HP) as (ES & EP & E1 & EM).
  assert (Hp : 2 <= p) by (destruct HP as [_ ?]; lia). unfold canon in *.
  pose proof (storage_fits _ _ _ _ HP) as Hfit.
  unfold isUnitZ, isUnit. rewrite ES, EP, E1, EM. split.
  - intros fuel u. destruct (extended_euclid (mk_ity sb sg) fuel a p) as [[x g] | ] eqn:E; [ | discriminate ].
    apply (extended_euclid_ok _ a p ltac:(lia) Hfit) in E. destruct E as (Hx & -> & k & Hk).
    intros [= <-]. rewrite orb_true_iff, !Z.eqb_eq. split; [ | tauto ].
    intros [ ? | Hm ]; [ assumption | ].
    (* gcd = p - 1 divides p, hence divides 1 *)
    assert (D : (Z.gcd a p | p)) by apply Z.gcd_divide_r. rewrite Hm in D |- *.
    assert (D1 : (p - 1 | 1)).
    { apply (Z.divide_add_cancel_r (p - 1) (p - 1) 1); [ apply Z.divide_refl | replace (p - 1 + 1) with p by lia; exact D ]. }
    apply Z.divide_1_r_nonneg in D1; lia.
  - destruct (extended_euclid_terminates (mk_ity sb sg) a p ltac:(lia) Hfit) as [fuel Hf]. exists fuel.
    destruct (extended_euclid (mk_ity sb sg) fuel a p) as [[x g] | ]; [ discriminate | contradiction ].
Qed.
