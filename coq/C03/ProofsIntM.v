(* C03 — integral rings, part M: mul, axpy (see ProofsInt.v for statements and tactics) *)
From Coq Require Import ZArith Bool Lia List.
From C03 Require Import Model ProofsBase ProofsInt.
Import ListNotations.
Local Open Scope Z_scope.
Ltac Zify.zify_post_hook ::= Z.to_euclidean_division_equations.

Lemma mul_exact sb sg cb p : Mul_stmt sb sg cb p.
Proof.
  unfold Mul_stmt, Pre; start Hc Hp sg. all: unfold mulZ, mul; open_model.
  all: sq_bound Hp a b p H H0. all: strip; close_mod.
Qed.

Lemma axpy_exact sb sg cb p : Axpy_stmt sb sg cb p.
Proof.
  unfold Axpy_stmt, Pre; start Hc Hp sg. all: unfold axpyZ, axpy; open_model.
  all: sq_bound Hp a b p H H0. all: strip; close_mod.
Qed.

