(* C03 — integral rings, part R: reduce (see ProofsInt.v for statements and tactics) *)
From Coq Require Import ZArith Bool Lia List.
From C03 Require Import Model ProofsBase ProofsInt.
Import ListNotations.
Local Open Scope Z_scope.
Ltac Zify.zify_post_hook ::= Z.to_euclidean_division_equations.

Lemma reduce_exact sb sg cb p : Reduce_stmt sb sg cb p.
Proof.
  unfold Reduce_stmt, Pre; intros [Hc Hp]; intros y Hy; unfold in_storage, in_range in Hy; cfg_cases Hc sg; max_lit Hp.
  all: cbn [bits sgn] in Hy.
  all: unfold reduceZ, reduce; open_model; lit_eval.
  all: strip. all: try lia. 
Qed.

