(* C03 — integral rings, part X: axmy (see ProofsInt.v for statements and tactics) *)
From Coq Require Import ZArith Bool Lia List.
From C03 Require Import Model ProofsBase ProofsInt.
Import ListNotations.
Local Open Scope Z_scope.
Ltac Zify.zify_post_hook ::= Z.to_euclidean_division_equations.

Lemma axmy_exact sb sg cb p : Axmy_stmt sb sg cb p.
Proof.
  unfold Axmy_stmt, Pre; start Hc Hp sg. all: unfold axmyZ, axmy; open_model.
  all: sq_bound Hp a b p H H0. all: strip; close_mod.
Qed.

