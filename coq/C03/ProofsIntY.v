(* C03 — integral rings, part Y: maxpy (see ProofsInt.v for statements and tactics) *)
From Coq Require Import ZArith Bool Lia List.
From C03 Require Import Model ProofsBase ProofsInt.
Import ListNotations.
Local Open Scope Z_scope.
Ltac Zify.zify_post_hook ::= Z.to_euclidean_division_equations.

Lemma maxpy_exact sb sg cb p : Maxpy_stmt sb sg cb p.
Proof.
  unfold Maxpy_stmt, Pre; start Hc Hp sg. all: unfold maxpyZ, maxpy, neg; open_model.
  all: sq_bound Hp a b p H H0.
  all: replace (c - a * b) with (- (a * b + (p - c)) + 1 * p) by lia; rewrite Z.mod_add, mod_opp_of_mod by lia.
  all: strip; lia.
Qed.

