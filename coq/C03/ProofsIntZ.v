(* C03 — integral rings, part Z: maxpyin (see ProofsInt.v for statements and tactics) *)
From Coq Require Import ZArith Bool Lia List.
From C03 Require Import Model ProofsBase ProofsInt.
Import ListNotations.
Local Open Scope Z_scope.
Ltac Zify.zify_post_hook ::= Z.to_euclidean_division_equations.

Lemma maxpyin_exact sb sg cb p : Maxpyin_stmt sb sg cb p.
Proof.
  unfold Maxpyin_stmt, Pre; start Hc Hp sg. all: unfold maxpyinZ, maxpyin, axmy, neg; open_model.
  all: sq_bound Hp a b p H H0.
  all: replace (r - a * b) with (- (a * b + p - r) + 1 * p) by lia; rewrite Z.mod_add, mod_opp_of_mod by lia.
  all: strip; lia.
Qed.

