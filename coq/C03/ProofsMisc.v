(* C03 — Modular<Integer> (no machine bound: the theorem says the code's case splits and GMP-level operations compose to the
   exact residue) and isUnit of Modular<ruint<K>,ruint<K'>> through extended_euclid<ruint<K>> (ProofsEuclid). *)
From Coq Require Import ZArith Bool Lia List Znumtheory.
From C03 Require Import Model ModelF ProofsBase ProofsInt ProofsEuclid ProofsRU.
Local Open Scope Z_scope.
Ltac Zify.zify_post_hook ::= idtac.

Definition ZZ_stmt (p : Z) : Prop := 2 <= p -> forall a b c, canon p a -> canon p b -> canon p c ->
  zz_add p a b = (a + b) mod p /\ zz_sub p a b = (a - b) mod p /\ zz_neg p a = (- a) mod p /\
  zz_mul p a b = (a * b) mod p /\ zz_axpy p a b c = (a * b + c) mod p /\ zz_axmy p a b c = (a * b - c) mod p /\
  zz_maxpy p a b c = (c - a * b) mod p /\ zz_axmyin p c a b = (a * b - c) mod p /\
  (forall y, zz_reduce p y = y mod p).

Lemma zz_exact p : ZZ_stmt p.
Proof.
  intros Hp a b c Ha Hb Hc. unfold canon in *.
  unfold zz_axmyin. unfold zz_add, zz_sub, zz_neg, zz_mul, zz_axpy, zz_axmy, zz_maxpy, zz_reduce.
  rewrite (mod_add_small a b p), (mod_sub_small a b p), (mod_neg_small a p) by lia.
  repeat split.
  - destruct (Z.leb_spec p (a + b)), (Z.ltb_spec (a + b) p); lia.
  - destruct (Z.ltb_spec (a - b) 0), (Z.ltb_spec a b); lia.
  - destruct (Z.eqb_spec a 0); lia.
  - assert (Hm := Z.mod_pos_bound (c - a * b) p ltac:(lia)).
    destruct (Z.eqb_spec ((c - a * b) mod p) 0) as [E | E].
    + rewrite E. replace (a * b - c) with (- (c - a * b)) by lia. rewrite Z.mod_opp_l_z by lia. reflexivity.
    + replace (a * b - c) with (- (c - a * b)) by lia. rewrite Z.mod_opp_l_nz by lia. reflexivity.
  - intros y. rewrite (rem_full y p) by lia.
    assert (Hm := Z.mod_pos_bound y p ltac:(lia)).
    destruct (Z.leb_spec 0 y).
    + destruct (Z.ltb_spec (y mod p) 0); lia.
    + destruct (Z.eqb_spec (y mod p) 0) as [E | E].
      * rewrite E. reflexivity.
      * destruct (Z.ltb_spec (y mod p - p) 0); lia.
Qed.

(* isUnit of the RecInt rings *)
Definition RU_isUnit_stmt (w : Z) (dbl : bool) (p : Z) : Prop := ru_pre w dbl p -> 32 <= w -> forall a, canon p a ->
  (forall fuel u, ru_isUnit w p fuel a = Some u -> (u = true <-> Z.gcd a p = 1)) /\
  (exists fuel, ru_isUnit w p fuel a <> None).

Lemma ru_isUnit_exact w dbl p : RU_isUnit_stmt w dbl p.
Proof.
  intros HP Hw a Ha. destruct (ru_pre_facts _ _ _ HP) as (HB & _ & H2p & _). destruct HP as (_ & _ & Hp). unfold canon in *.
  assert (Hfit : forall z, 0 <= z <= p -> cast (mk_ity w false) z = z /\ ar (mk_ity w false) z = z).
  { intros z Hz. unfold ar, promote, cast. cbn [bits sgn]. destruct (Z.ltb_spec w 32); [ lia | ]. cbn [sgn bits].
    unfold wrap_u. rewrite Z.mod_small by lia. split; reflexivity. }
  unfold ru_isUnit. rewrite (Z.mod_small p (2 ^ w)), (Z.mod_small (p - 1) (2 ^ w)) by lia. split.
  - intros fuel u. destruct (extended_euclid (mk_ity w false) fuel a p) as [[x g] | ] eqn:E; [ | discriminate ].
    apply (extended_euclid_ok _ a p ltac:(lia) Hfit) in E. destruct E as (Hx & -> & k & Hk).
    intros [= <-]. rewrite orb_true_iff, !Z.eqb_eq. split; [ | tauto ].
    intros [ ? | Hm ]; [ assumption | ].
    assert (D : (Z.gcd a p | p)) by apply Z.gcd_divide_r. rewrite Hm in D |- *.
    assert (D1 : (p - 1 | 1)).
    { apply (Z.divide_add_cancel_r (p - 1) (p - 1) 1); [ apply Z.divide_refl | replace (p - 1 + 1) with p by lia; exact D ]. }
    apply Z.divide_1_r_nonneg in D1; lia.
  - destruct (extended_euclid_terminates (mk_ity w false) a p ltac:(lia) Hfit) as [fuel Hf]. exists fuel.
    destruct (extended_euclid (mk_ity w false) fuel a p) as [[x g] | ]; [ discriminate | contradiction ].
Qed.
