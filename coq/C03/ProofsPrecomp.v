(* C03 — precomp_p (bitsize loop and the inverse) and the complete chain precomp_p + mul_precomp_p. *)
From Coq Require Import ZArith Bool Lia List.
From C03 Require Import Model ProofsBase ProofsInt ProofsIntInv ProofsBarrett ProofsBarrettM ProofsBarrettS ProofsBarrettU.
Import ListNotations.
Local Open Scope Z_scope.
Ltac Zify.zify_post_hook ::= idtac.

(* Element tmp = _p; while (tmp != 0) { bitsizep++; tmp >>= 1; }  for an element type in which [0,p] is representable *)
Section Loop.
Variable F : ring.
Variable p : Z.
Hypothesis fits : forall z, 0 <= z <= p -> cast (RS F) z = z /\ ar (RS F) z = z.

Definition is_bitsize (t k : Z) : Prop := (t = 0 /\ k = 0) \/ (1 <= k /\ 2 ^ (k - 1) <= t < 2 ^ k).

Lemma bitsize_loop_ok fuel : forall t n, 0 <= t <= p -> t < 2 ^ Z.of_nat fuel ->
  exists k, bitsize_loop F fuel t n = n + k /\ is_bitsize t k.
Proof.
  induction fuel as [ | f IH]; intros t n Ht Hf.
  - change (2 ^ Z.of_nat 0) with 1 in Hf. assert (t = 0) by lia. subst t. exists 0. cbn. split; [ lia | left; lia ].
  - cbn [bitsize_loop]. destruct (Z.eqb_spec t 0) as [-> | Hnz].
    + exists 0. split; [ lia | left; lia ].
    + rewrite Z.shiftr_div_pow2 by lia. change (2 ^ 1) with 2.
      assert (Hd := Z.div_mod t 2 ltac:(lia)). assert (Hm := Z.mod_pos_bound t 2 ltac:(lia)).
      assert (Hh : 0 <= t / 2 <= p) by lia.
      destruct (fits (t / 2) Hh) as [Ec Ea]. rewrite Ea, Ec.
      assert (Hf' : t / 2 < 2 ^ Z.of_nat f).
      { rewrite Nat2Z.inj_succ, Z.pow_succ_r in Hf by lia. lia. }
      destruct (IH (t / 2) (n + 1) Hh Hf') as [k [E Hk]].
      exists (k + 1). split; [ lia | ]. right.
      destruct Hk as [[H0 ->] | [Hk1 Hk2]].
      * assert (t = 1) by lia. subst t. cbn. lia.
      * replace (k + 1 - 1) with k by lia.
        assert (E1 : 2 ^ k = 2 * 2 ^ (k - 1)) by (replace k with (Z.succ (k - 1)) at 1 by lia; rewrite Z.pow_succ_r by lia; reflexivity).
        assert (E2 : 2 ^ (k + 1) = 2 * 2 ^ k) by (replace (k + 1) with (Z.succ k) by lia; rewrite Z.pow_succ_r by lia; reflexivity).
        lia.
Qed.
End Loop.

Lemma bitsizep_ok sb sg cb p : Pre sb sg cb p ->
  exists bs, bitsizep (mk_modular sb sg cb p) = bs /\ 2 <= bs /\ 2 ^ (bs - 1) <= p < 2 ^ bs.
Proof.
  intros HP. destruct (consts_of _ _ _ _ HP) as (ES & EP & _ & _).
  assert (Hp : 2 <= p) by (destruct HP as [_ ?]; lia).
  assert (Hp128 : p < 2 ^ 130).
  { destruct HP as [Hc Hm]. cfg_cases Hc sg; max_lit Hm; change (2 ^ 130) with 1361129467683753853853498429727072845824; lia. }
  pose proof (storage_fits _ _ _ _ HP) as Hfit.
  unfold bitsizep. rewrite ES, EP.
  assert (Hfit' : forall z, 0 <= z <= p -> cast (RS (mk_modular sb sg cb p)) z = z /\ ar (RS (mk_modular sb sg cb p)) z = z) by (rewrite ES; exact Hfit).
  destruct (bitsize_loop_ok (mk_modular sb sg cb p) p Hfit' 130 p 0 ltac:(lia) Hp128) as [k [E Hk]].
  exists k. rewrite E. split; [ lia | ].
  destruct Hk as [[H0 _] | [Hk1 Hk2]]; [ lia | ].
  split; [ | exact Hk2 ]. destruct (Z.eq_dec k 1) as [-> | ]; [ cbn in Hk2; lia | lia ].
Qed.

Ltac Zify.zify_post_hook ::= Z.to_euclidean_division_equations.

(* the documented precondition of precomp_p: bitsize(p) <= 4*sizeof(Compute_t) - 2 *)
Definition Precomp_pre (sb : Z) (sg : bool) (cb p : Z) : Prop := cfg_ok sb cb /\ 2 <= p < 2 ^ (cb / 2 - 2).

Lemma precomp_pre_Pre sb sg cb p : Precomp_pre sb sg cb p -> Pre sb sg cb p.
Proof.
  intros [Hc Hp]. split; [ exact Hc | ].
  cfg_cases Hc sg; halves; closed_pows.
  all: match goal with |- context[maxcard ?a ?b ?c] => let v := eval vm_compute in (maxcard a b c) in change (maxcard a b c) with v end.
  all: repeat match goal with H : context[2 ^ (Zpos ?a - Zpos ?b)] |- _ =>
         let v := eval vm_compute in (2 ^ (Zpos a - Zpos b)) in change (2 ^ (Zpos a - Zpos b)) with v in H end.
  all: lia.
Qed.

Lemma precomp_p_ok sb sg cb p : Precomp_pre sb sg cb p ->
  exists bs, bitsizep (mk_modular sb sg cb p) = bs /\ 2 <= bs <= cb / 2 - 2 /\ 2 ^ (bs - 1) <= p < 2 ^ bs /\
             precomp_p (mk_modular sb sg cb p) = 2 ^ (cb / 2 + bs - 1) / p.
Proof.
  intros HPP. pose proof (precomp_pre_Pre _ _ _ _ HPP) as HP.
  destruct (bitsizep_ok _ _ _ _ HP) as [bs (Eb & Hbs & Hp)]. exists bs.
  destruct HPP as [Hc Hlim].
  assert (Hh : 4 <= cb / 2) by (cfg_cases Hc sg; halves; lia).
  assert (Hbs2 : bs <= cb / 2 - 2).
  { assert (bs - 1 < cb / 2 - 2); [ | lia ]. apply (Z.pow_lt_mono_r_iff 2); lia. }
  split; [ exact Eb | ]. split; [ lia | ]. split; [ exact Hp | ].
  unfold precomp_p. rewrite Eb.
  set (h := cb / 2) in *.
  assert (HP1 : 0 < 2 ^ (h + bs - 1)) by (apply Z.pow_pos_nonneg; lia).
  assert (HP2 : 2 ^ (h + bs - 1) <= 2 ^ (h + h - 3)) by (apply Z.pow_le_mono_r; lia).
  assert (Hq : Z.quot (2 ^ (h + bs - 1)) p = 2 ^ (h + bs - 1) / p) by (apply Z.quot_div_nonneg; lia).
  assert (HI : 0 <= 2 ^ (h + bs - 1) / p <= 2 ^ (h + bs - 1)).
  { split; [ apply Z.div_pos; lia | apply Z.div_le_upper_bound; [ lia | ] ]. nia. }
  unfold h in *. clear h.
  set (PP := 2 ^ (cb / 2 + bs - 1)) in *.
  cfg_cases Hc sg.
  all: open_model.
  all: rewrite Z.shiftl_mul_pow2 by (halves; lia).
  all: fold PP.
  all: halves.
  all: repeat match goal with H : context[2 ^ (Zpos ?a + Zpos ?b - Zpos ?c)] |- _ =>
         let v := eval vm_compute in (2 ^ (Zpos a + Zpos b - Zpos c)) in change (2 ^ (Zpos a + Zpos b - Zpos c)) with v in H end.
  all: repeat match goal with |- context[1 mod ?m] => rewrite (Z.mod_small 1 m) by lia end; rewrite ?Z.mul_1_l.
  all: repeat (rewrite (Z.mod_small PP) by lia).
  all: repeat (rewrite (signed_id PP) by lia).
  all: clean_vars; rewrite Hq.
  all: set (I := PP / p) in *; clearbody I PP.
  all: strip; lia.
Qed.

(* the complete chain: precomp_p(invp, bitsizep); mul_precomp_p(r, a, b, invp, bitsizep) *)
Definition Mulpp_chain_stmt (sb : Z) (sg : bool) (cb p : Z) : Prop :=
  Precomp_pre sb sg cb p -> forall a b, canon p a -> canon p b -> mul_precomp_pZ sb sg cb p a b = (a * b) mod p.

Lemma mulpp_chain_exact sb sg cb p : Mulpp_chain_stmt sb sg cb p.
Proof.
  intros HPP a b Ha Hb. destruct (precomp_p_ok _ _ _ _ HPP) as [bs (Eb & Hbs & Hp & Ei)].
  unfold mul_precomp_pZ. cbv zeta. rewrite Ei, Eb.
  destruct HPP as [Hc _].
  destruct sg; [ apply mulpp_exact_signed | apply mulpp_exact_unsigned ]; assumption.
Qed.
