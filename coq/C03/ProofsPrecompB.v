(* C03 — precomp_b(invb, b) (one-argument form) followed by mul_precomp_b (modular-mulprecomp.inl):
   Shoup's multiplication by a constant with a precomputed quotient. *)
From Coq Require Import ZArith Bool Lia List.
From C03 Require Import Model ProofsBase ProofsInt ProofsBarrett ProofsBarrettM.
Import ListNotations.
Local Open Scope Z_scope.
Ltac Zify.zify_post_hook ::= idtac.

(* invb = floor(N*b/p), q = floor(a*invb/N): the true quotient of a*b by p or one less, as soon as a <= N *)
Lemma shoup_bound a b p N : 0 < p -> 0 < N -> 0 <= a <= N -> 0 <= b ->
  (a * b) / p - 1 <= (a * ((N * b) / p)) / N <= (a * b) / p.
Proof.
  intros Hp HN Ha Hb.
  assert (I1 := Z.div_mod (N * b) p ltac:(lia)). assert (I2 := Z.mod_pos_bound (N * b) p Hp).
  assert (Q1 := Z.div_mod (a * b) p ltac:(lia)). assert (Q2 := Z.mod_pos_bound (a * b) p Hp).
  set (I := N * b / p) in *. set (r1 := (N * b) mod p) in *.
  set (Q := a * b / p) in *. set (r2 := (a * b) mod p) in *.
  assert (I0 : 0 <= I) by (apply Z.div_pos; nia).
  (* p*(a*I) = N*(a*b) - a*r1 *)
  assert (K : p * (a * I) = N * (p * Q + r2) - a * r1).
  { rewrite <- Q1. replace (p * (a * I)) with (a * (p * I)) by ring. replace (p * I) with (N * b - r1) by lia. ring. }
  assert (R1 : 0 <= a * r1 <= N * (p - 1)) by (split; [ apply Z.mul_nonneg_nonneg; lia | apply Z.mul_le_mono_nonneg; lia ]).
  assert (R2 : 0 <= N * r2 <= N * (p - 1)) by (split; [ apply Z.mul_nonneg_nonneg; lia | apply Z.mul_le_mono_nonneg_l; lia ]).
  split.
  - (* N*(Q-1) <= a*I *)
    apply Z.div_le_lower_bound; [ exact HN | ].
    assert (L : p * (N * (Q - 1)) < p * (a * I + 1)).
    { replace (p * (a * I + 1)) with (p * (a * I) + p) by ring. rewrite K.
      replace (N * (p * Q + r2)) with (p * (N * Q) + N * r2) by ring.
      replace (p * (N * (Q - 1))) with (p * (N * Q) - N * p) by ring.
      replace (N * (p - 1)) with (N * p - N) in * by ring. lia. }
    apply Z.mul_lt_mono_pos_l in L; lia.
  - (* a*I < N*(Q+1) *)
    assert (a * I / N < Q + 1); [ | lia ].
    apply Z.div_lt_upper_bound; [ exact HN | ].
    assert (L : p * (a * I) < p * (N * (Q + 1))).
    { rewrite K. replace (p * (N * (Q + 1))) with (N * (p * Q) + N * p) by ring.
      replace (N * (p * Q + r2)) with (N * (p * Q) + N * r2) by ring.
      replace (N * (p - 1)) with (N * p - N) in * by ring. lia. }
    apply Z.mul_lt_mono_pos_l in L; lia.
Qed.

Lemma shoup_remainder a b p N : 0 < p -> 0 < N -> 0 <= a <= N -> 0 <= b ->
  let q := (a * ((N * b) / p)) / N in 0 <= a * b - q * p < 2 * p.
Proof.
  intros Hp HN Ha Hb. cbv zeta.
  assert (B := shoup_bound a b p N Hp HN Ha Hb).
  assert (Q1 := Z.div_mod (a * b) p ltac:(lia)). assert (Q2 := Z.mod_pos_bound (a * b) p Hp).
  set (q := a * (N * b / p) / N) in *. set (Q := a * b / p) in *.
  assert (q * p <= Q * p) by (apply Z.mul_le_mono_nonneg_r; lia).
  assert ((Q - 1) * p <= q * p) by (apply Z.mul_le_mono_nonneg_r; lia).
  assert ((Q - 1) * p = Q * p - p) by ring. lia.
Qed.

(* everything the machine-level proof needs; N = 2^(half the width of Compute_t) (any N > 0 here), p <= N *)
Lemma shoup_facts N p a b : 2 <= p <= N -> 0 <= a < p -> 0 <= b < p ->
  let x := a * b in let I := N * b / p in let q := a * I / N in
  0 <= N * b < N * N /\ 0 <= I < N /\ 0 <= a * I < N * N /\ 0 <= x < N * N /\
  0 <= q < p /\ 0 <= q * p <= x /\ x - q * p < 2 * p /\
  x mod p = (if p <=? x - q * p then x - q * p - p else x - q * p).
Proof.
  intros Hp Ha Hb. cbv zeta.
  set (x := a * b) in *.
  assert (HN : 0 < N) by lia.
  assert (Hx0 : 0 <= x) by (unfold x; apply Z.mul_nonneg_nonneg; lia).
  assert (Hx1 : x < p * p) by (unfold x; apply Z.mul_lt_mono_nonneg; lia).
  assert (Hpp : p * p <= N * N) by (apply Z.mul_le_mono_nonneg; lia).
  assert (HNb0 : 0 <= N * b) by (apply Z.mul_nonneg_nonneg; lia).
  assert (HNb1 : N * b < N * p) by (apply Z.mul_lt_mono_pos_l; lia).
  assert (HNp : N * p <= N * N) by (apply Z.mul_le_mono_nonneg_l; lia).
  assert (R := shoup_remainder a b p N ltac:(lia) HN ltac:(lia) ltac:(lia)). cbv zeta in R. fold x in R.
  assert (B := shoup_bound a b p N ltac:(lia) HN ltac:(lia) ltac:(lia)). fold x in B.
  set (I := N * b / p) in *.
  assert (HI : 0 <= I < N).
  { unfold I; split; [ apply Z.div_pos; lia | apply Z.div_lt_upper_bound; [ lia | ] ]. rewrite (Z.mul_comm p N). exact HNb1. }
  assert (HaI0 : 0 <= a * I) by (apply Z.mul_nonneg_nonneg; lia).
  assert (HaI1 : a * I < N * N) by (apply Z.mul_lt_mono_nonneg; lia).
  set (q := a * I / N) in *.
  assert (HQ := Z.div_mod x p ltac:(lia)). assert (HQ2 := Z.mod_pos_bound x p ltac:(lia)).
  set (Q := x / p) in *. set (r := x mod p) in *.
  assert (Hq0 : 0 <= q) by (unfold q; apply Z.div_pos; lia).
  assert (HQp : Q < p) by (unfold Q; apply Z.div_lt_upper_bound; lia).
  assert (Hcase : q = Q \/ q = Q - 1) by lia.
  assert (Hqp4 : 0 <= q * p) by (apply Z.mul_nonneg_nonneg; lia).
  repeat split; try lia.
  destruct Hcase as [-> | ->].
  - replace (x - Q * p) with r by lia. destruct (Z.leb_spec p r); lia.
  - replace (x - (Q - 1) * p) with (r + p) by lia. destruct (Z.leb_spec p (r + p)); lia.
Qed.

Ltac Zify.zify_post_hook ::= Z.to_euclidean_division_equations.

(* the documented precondition of precomp_b(invb, b): bitsize(p) <= 4*sizeof(Compute_t) - 1 *)
Definition Precomp_b_pre (sb : Z) (sg : bool) (cb p : Z) : Prop := cfg_ok sb cb /\ 2 <= p < 2 ^ (cb / 2 - 1).

Definition Mulpb_stmt (sb : Z) (sg : bool) (cb p : Z) : Prop :=
  Precomp_b_pre sb sg cb p -> forall a b, canon p a -> canon p b -> mul_precomp_bZ sb sg cb p a b = (a * b) mod p.

(* what is actually needed: when Compute_t is twice as wide as the element type the documented limit (the remainder a*b - q*p < 2p
   has to fit Residu_t); when both have the same width every p <= 2^(4*sizeof(Compute_t)) = maxCardinality works *)
Definition mulpb_lim (sb cb : Z) : Z := if cb =? sb then 2 ^ (cb / 2) else 2 ^ (cb / 2 - 1) - 1.
Definition Mulpb_wide_pre (sb : Z) (sg : bool) (cb p : Z) : Prop := cfg_ok sb cb /\ 2 <= p <= mulpb_lim sb cb.
Definition Mulpb_wide_stmt (sb : Z) (sg : bool) (cb p : Z) : Prop :=
  Mulpb_wide_pre sb sg cb p -> forall a b, canon p a -> canon p b -> mul_precomp_bZ sb sg cb p a b = (a * b) mod p.

Lemma precomp_b_pre_wide sb sg cb p : Precomp_b_pre sb sg cb p -> Mulpb_wide_pre sb sg cb p.
Proof.
  intros [Hc Hp]. split; [ exact Hc | ].
  cfg_cases Hc sg; halves.
  all: match goal with |- context[mulpb_lim ?a ?b] => let v := eval vm_compute in (mulpb_lim a b) in change (mulpb_lim a b) with v end.
  all: repeat match goal with H : context[2 ^ (Zpos ?a - Zpos ?b)] |- _ =>
         let v := eval vm_compute in (2 ^ (Zpos a - Zpos b)) in change (2 ^ (Zpos a - Zpos b)) with v in H end.
  all: lia.
Qed.

Ltac goal_pows :=
  repeat match goal with
  | |- context[2 ^ (Zpos ?a)] => let v := eval vm_compute in (2 ^ (Zpos a)) in change (2 ^ (Zpos a)) with v
  end.
Ltac lim_lit H := match type of H with context[mulpb_lim ?a ?b] =>
  let v := eval vm_compute in (mulpb_lim a b) in change (mulpb_lim a b) with v in H end.
(* instantiate shoup_facts with the literal N = 2^(cb/2) of the current width pair *)
Ltac pb_facts cb p a b Hp Ha Hb F :=
  let N := eval vm_compute in (2 ^ (cb / 2)) in
  pose proof (shoup_facts N p a b ltac:(lia) Ha Hb) as F; cbv zeta in F.

(* precomp_b: no conversion truncates, the C quotient is the floor *)
Lemma precomp_b_ok sb sg cb p b : Mulpb_wide_pre sb sg cb p -> canon p b ->
  precomp_b (mk_modular sb sg cb p) b = 2 ^ (cb / 2) * b / p.
Proof.
  intros [Hc Hp] Hb. unfold canon in *.
  assert (Hq : Z.quot (2 ^ (cb / 2) * b) p = 2 ^ (cb / 2) * b / p).
  { apply Z.quot_div_nonneg; [ | lia ]. apply Z.mul_nonneg_nonneg; [ apply Z.pow_nonneg | ]; lia. }
  cfg_cases Hc sg.
  all: lim_lit Hp.
  all: match goal with |- precomp_b (mk_modular _ _ ?cb _) _ = _ => pb_facts cb p b b Hp Hb Hb F end.
  all: destruct F as (F2 & F3 & _).
  all: unfold precomp_b; open_model; halves; rewrite !Z.shiftl_mul_pow2 by lia.
  all: closed_pows; goal_pows.
  all: repeat match goal with |- context[1 mod ?m] => rewrite (Z.mod_small 1 m) by lia end; rewrite ?Z.mul_1_l.
  all: repeat match goal with |- context[(1 + ?k) mod ?m - ?k] => rewrite (signed_id 1 k m) by lia end; rewrite ?Z.mul_1_l.
  all: clean_vars.
  all: strip.
  all: match type of F2 with _ <= ?Y < _ => set (y := Y) in * end.
  all: rewrite Hq; set (I := y / p) in *; clearbody I y; strip.
  all: try reflexivity; lia.
Qed.

(* mul_precomp_b with the exact invb: proved in ProofsPrecompBS.v (signed) and ProofsPrecompBU.v (unsigned) *)
Definition Mulpb_core_stmt (sb : Z) (sg : bool) (cb p : Z) : Prop :=
  Mulpb_wide_pre sb sg cb p -> forall a b, canon p a -> canon p b ->
  mul_precomp_b (mk_modular sb sg cb p) a b (2 ^ (cb / 2) * b / p) = (a * b) mod p.
