(* C03 — mul_precomp_b exact, signed storage types (see ProofsPrecompB.v) *)
From Coq Require Import ZArith Bool Lia List.
From C03 Require Import Model ProofsBase ProofsInt ProofsBarrett ProofsBarrettM ProofsPrecompB.
Import ListNotations.
Local Open Scope Z_scope.
Ltac Zify.zify_post_hook ::= Z.to_euclidean_division_equations.

Lemma mulpb_core_signed sb cb p : Mulpb_core_stmt sb true cb p.
Proof.
  intros [Hc Hp] a b Ha Hb. unfold canon in *.
  cfg_only Hc.
  all: lim_lit Hp.
  all: match goal with |- mul_precomp_b (mk_modular _ _ ?cb _) _ _ _ = _ => pb_facts cb p a b Hp Ha Hb F end.
  all: destruct F as (F2 & F3 & F4 & F5 & F6 & F7 & F8 & F9).
  all: rewrite F9; clear F9.
  all: unfold mul_precomp_b; open_model; halves; rewrite !Z.shiftr_div_pow2 by lia; closed_pows; goal_pows.
  all: clean_vars.
  all: match type of F3 with _ <= ?Y < _ => set (I := Y) in * end; clearbody I.
  all: strip.
  all: try reflexivity; try lia.
  all: match type of F7 with _ <= ?Y <= _ => set (z := Y) in * end; set (x := a * b) in *; clearbody z x; clear F2 F3 F4 F6.
  all: split_all; lia.
Qed.
