(* C03 — mul_precomp_b exact, unsigned storage types (see ProofsPrecompB.v) *)
From Coq Require Import ZArith Bool Lia List.
From C03 Require Import Model ProofsBase ProofsInt ProofsBarrett ProofsBarrettM ProofsPrecompB ProofsPrecompBS.
Import ListNotations.
Local Open Scope Z_scope.
Ltac Zify.zify_post_hook ::= Z.to_euclidean_division_equations.

Lemma mulpb_core_unsigned sb cb p : Mulpb_core_stmt sb false cb p.
Proof.
  intros [Hc Hp] a b Ha Hb. unfold canon in *.
  cfg_only Hc.
  all: lim_lit Hp.
  all: match goal with |- mul_precomp_b (mk_modular _ _ ?cb _) _ _ _ = _ => pb_facts cb p a b Hp Ha Hb F end.
  all: destruct F as (F2 & F3 & F4 & F5 & F6 & F7 & F8 & F9).
  all: rewrite F9; clear F9.
  all: unfold mul_precomp_b; open_model; halves; rewrite !Z.shiftr_div_pow2 by lia; closed_pows; goal_pows.
  all: clean_vars.
  all: match type of F3 with _ <= ?Y < _ => set (I := Y) in * end; clearbody I.
  all: strip.
  all: try reflexivity; try lia.
  all: match type of F7 with _ <= ?Y <= _ => set (z := Y) in * end; set (x := a * b) in *; clearbody z x; clear F2 F3 F4 F6.
  all: split_all; lia.
Qed.

Lemma mulpb_wide_exact sb sg cb p : Mulpb_wide_stmt sb sg cb p.
Proof.
  intros HP a b Ha Hb. unfold mul_precomp_bZ. cbv zeta.
  rewrite (precomp_b_ok _ _ _ _ _ HP Hb).
  destruct sg; [ apply mulpb_core_signed | apply mulpb_core_unsigned ]; assumption.
Qed.

(* the complete chain precomp_b(invb, b); mul_precomp_b(r, a, b, invb) under the documented precondition *)
Lemma mulpb_exact sb sg cb p : Mulpb_stmt sb sg cb p.
Proof. intros HP. apply mulpb_wide_exact. apply precomp_b_pre_wide. exact HP. Qed.

Example mulpb_pre_sat : Precomp_b_pre 32 true 64 2147483647 /\ canon 2147483647 2147483646.
Proof. split; [ split; [ unfold cfg_ok, cfgs; cbn [In]; tauto | change (2 ^ (64 / 2 - 1)) with 2147483648; lia ] | unfold canon; lia ]. Qed.
Example mulpb_wide_pre_sat : Mulpb_wide_pre 32 false 32 65536 /\ canon 65536 65535.
Proof. split; [ split; [ unfold cfg_ok, cfgs; cbn [In]; tauto | change (mulpb_lim 32 32) with 65536; lia ] | unfold canon; lia ]. Qed.

(* the limit is sharp when Compute_t is twice as wide: uint8_t/uint16_t, p = 251 (bitsize 8 = 4*sizeof(Compute_t)) *)
Example mulpb_beyond_limit : mul_precomp_bZ 8 false 16 251 9 140 <> (9 * 140) mod 251.
Proof. vm_compute. discriminate. Qed.

Print Assumptions mulpb_exact.
Print Assumptions mulpb_wide_exact.
