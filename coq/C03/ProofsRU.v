(* C03 — Modular<ruint<K>,ruint<K'>> (modular-ruint.inl) as modelled in ModelF.v: RecInt arithmetic wraps modulo 2^w
   (w = 2^K) and modulo 2^(2w) for the double-width product.  For EVERY width w, every modulus
   2 <= p <= 2^(w/2) (Compute_t = ruint<K>) resp. 2 <= p <= 2^(w-1) (Compute_t = ruint<K+1>) and canonical operands,
   each operation equals the exact residue, i.e. no wrap of RecInt arithmetic is observable. *)
From Coq Require Import ZArith Bool Lia List.
From C03 Require Import Model ModelF ProofsBase ProofsInt.
Local Open Scope Z_scope.
Ltac Zify.zify_post_hook ::= idtac.

Definition ru_maxcard (w : Z) (dbl : bool) : Z := if dbl then 2 ^ (w - 1) else 2 ^ (w / 2).
Definition ru_pre (w : Z) (dbl : bool) (p : Z) : Prop := 0 < w /\ (dbl = false -> w mod 2 = 0) /\ 2 <= p <= ru_maxcard w dbl.

Lemma ru_pre_facts w dbl p : ru_pre w dbl p ->
  0 < 2 ^ w /\ 2 ^ (2 * w) = 2 ^ w * 2 ^ w /\ 2 * p <= 2 ^ w /\ (dbl = false -> p * p <= 2 ^ w).
Proof.
  intros (Hw & He & Hp). assert (0 < 2 ^ w) by (apply Z.pow_pos_nonneg; lia).
  assert (E2 : 2 ^ (2 * w) = 2 ^ w * 2 ^ w) by (replace (2 * w) with (w + w) by lia; apply Z.pow_add_r; lia).
  unfold ru_maxcard in Hp. destruct dbl.
  - assert (2 ^ w = 2 * 2 ^ (w - 1)) by (rewrite <- Z.pow_succ_r by lia; f_equal; lia).
    repeat split; try assumption; try discriminate. lia.
  - specialize (He eq_refl).
    assert (Ew : w = w / 2 + w / 2) by (pose proof (Z.div_mod w 2 ltac:(lia)); lia).
    assert (Es : 2 ^ w = 2 ^ (w / 2) * 2 ^ (w / 2)).
    { rewrite Ew at 1. apply Z.pow_add_r; apply Z.div_pos; lia. }
    assert (Hpp : p * p <= 2 ^ w) by (rewrite Es; apply Z.mul_le_mono_nonneg; lia).
    repeat split; try assumption; try nia.
Qed.

Section Statements.
Variables (w : Z) (dbl : bool) (p : Z).
Definition RU_stmt : Prop := ru_pre w dbl p -> forall a b c, canon p a -> canon p b -> canon p c ->
  ru_add w p a b = (a + b) mod p /\ ru_sub w p a b = (a - b) mod p /\ ru_subin w p a b = (a - b) mod p /\
  ru_neg w p a = (- a) mod p /\ ru_mul w dbl p a b = (a * b) mod p /\
  ru_axpy w dbl p a b c = (a * b + c) mod p /\ ru_axmy w dbl p a b c = (a * b - c) mod p /\
  ru_maxpy w dbl p a b c = (c - a * b) mod p /\ ru_maxpyin w dbl p c a b = (c - a * b) mod p.
(* reduce: any value of the element type *)
Definition RU_reduce_stmt : Prop := ru_pre w dbl p -> forall y, ru_reduce p y = y mod p.
End Statements.

Ltac stripw B :=
  repeat match goal with
  | |- context[?x mod B] => clean x; rewrite (Z.mod_small x B) by nia
  | |- context[?x mod (B * B)] => clean x; rewrite (Z.mod_small x (B * B)) by nia
  | |- context[?x <? ?y] => clean x; clean y; destruct (Z.ltb_spec x y)
  | |- context[?x <=? ?y] => clean x; clean y; destruct (Z.leb_spec x y)
  | |- context[?x =? ?y] => clean x; clean y; destruct (Z.eqb_spec x y)
  end.

Section Proofs.
Variables (w p : Z).

Lemma ru_lin_exact dbl a b : ru_pre w dbl p -> canon p a -> canon p b ->
  ru_add w p a b = (a + b) mod p /\ ru_sub w p a b = (a - b) mod p /\ ru_subin w p a b = (a - b) mod p /\
  ru_neg w p a = (- a) mod p.
Proof.
  intros HP Ha Hb. destruct (ru_pre_facts _ _ _ HP) as (HB & _ & H2p & _). unfold canon in *.
  destruct HP as (_ & _ & Hp).
  unfold ru_add, ru_sub, ru_subin, ru_neg. set (B := 2 ^ w) in *.
  rewrite (mod_add_small a b p), (mod_sub_small a b p), (mod_neg_small a p) by lia.
  repeat split; try (stripw B; lia).
  (* sub: RecInt::sub(r, a, b) wraps when a < b, RecInt::add(r, _p) wraps back *)
  destruct (Z.ltb_spec a b).
  - assert (E : (a - b) mod B = a - b + B) by (symmetry; apply Z.mod_unique with (-1); lia).
    rewrite E. symmetry; apply Z.mod_unique with 1; lia.
  - apply Z.mod_small; lia.
Qed.

Lemma ru_mul_exact dbl a b : ru_pre w dbl p -> canon p a -> canon p b -> ru_mul w dbl p a b = (a * b) mod p /\ canon p (ru_mul w dbl p a b).
Proof.
  intros HP Ha Hb. destruct (ru_pre_facts _ _ _ HP) as (HB & E2 & H2p & Hpp). unfold canon in *.
  destruct HP as (_ & _ & Hp).
  pose proof (mul_lt_sq a b p Ha Hb) as Hab. assert ((p - 1) * (p - 1) < p * p) by nia.
  assert (Hm := Z.mod_pos_bound (a * b) p ltac:(lia)).
  unfold ru_mul. rewrite E2. set (B := 2 ^ w) in *. destruct dbl.
  - assert (p * p <= B * B) by nia.
    rewrite (Z.mod_small (a * b) (B * B)) by nia. rewrite (Z.mod_small ((a * b) mod p) B) by lia. split; [reflexivity | lia].
  - specialize (Hpp eq_refl). rewrite (Z.mod_small (a * b) B) by nia. split; [reflexivity | lia].
Qed.
End Proofs.

Lemma ru_exact w dbl p : RU_stmt w dbl p.
Proof.
  intros HP a b c Ha Hb Hc.
  destruct (ru_lin_exact w p dbl a b HP Ha Hb) as (E1 & E2 & E3 & E4).
  destruct (ru_mul_exact w p dbl a b HP Ha Hb) as (Em & Cm).
  repeat split; try assumption.
  - (* axpy *) unfold ru_axpy. destruct dbl.
    + destruct (ru_lin_exact w p true _ c HP Cm Hc) as (-> & _). rewrite Em. apply Z.add_mod_idemp_l. unfold canon in *; lia.
    + destruct (ru_pre_facts _ _ _ HP) as (HB & _ & H2p & Hpp). specialize (Hpp eq_refl). unfold canon in *.
      pose proof (mul_lt_sq a b p Ha Hb). rewrite (Z.mod_small (c + a * b) (2 ^ w)) by nia. f_equal; lia.
  - (* axmy *) unfold ru_axmy. destruct (ru_lin_exact w p dbl _ c HP Cm Hc) as (_ & -> & _ & _). rewrite Em.
    apply Zminus_mod_idemp_l.
  - (* maxpy *) unfold ru_maxpy. destruct (ru_lin_exact w p dbl c _ HP Hc Cm) as (_ & -> & _). rewrite Em.
    apply Zminus_mod_idemp_r.
  - (* maxpyin *) unfold ru_maxpyin. destruct dbl.
    + destruct (ru_lin_exact w p true c _ HP Hc Cm) as (_ & _ & -> & _). rewrite Em. apply Zminus_mod_idemp_r.
    + destruct (ru_pre_facts _ _ _ HP) as (HB & _ & H2p & Hpp). specialize (Hpp eq_refl).
      destruct (ru_lin_exact w p false c c HP Hc Hc) as (_ & _ & _ & En). rewrite En.
      assert (Hp : 0 < p) by (unfold canon in *; lia).
      assert (Hn := Z.mod_pos_bound (- c) p Hp). pose proof (mul_lt_sq a b p Ha Hb). unfold canon in *.
      rewrite (Z.mod_small ((- c) mod p + a * b) (2 ^ w)) by nia.
      assert (Hx := Z.mod_pos_bound ((- c) mod p + a * b) p Hp).
      destruct (ru_lin_exact w p false (((- c) mod p + a * b) mod p) c HP Hx Hc) as (_ & _ & _ & ->).
      set (X := (- c) mod p + a * b) in *.
      transitivity ((- X) mod p).
      * apply mod_shift with (X / p); [ lia | ]. rewrite (Z.mod_eq X p) by lia. ring.
      * apply mod_shift with ((- c) / p); [ lia | ]. unfold X. rewrite (Z.mod_eq (- c) p) by lia. ring.
Qed.

Lemma ru_reduce_exact w dbl p : RU_reduce_stmt w dbl p.
Proof. intros _ y. reflexivity. Qed.
