(* C03 — the rounding-error layer for the floating-point model of ModelF.v (bitlen, rnd_dy, rn, div_dy, mul_dy,
   floor_dy, trunc_dy): everything over Z, no reals.  [rq s m] is the integer nearest (ties to even) to m / 2^s. *)
From Coq Require Import ZArith Bool Lia List.
From C03 Require Import Model ModelF ProofsBase ProofsInt ProofsFM.
Local Open Scope Z_scope.
Ltac Zify.zify_post_hook ::= idtac.

(* ------------------------------------------------------------------ powers of two *)
Lemma pow2_pos s : 0 <= s -> 0 < 2 ^ s.
Proof. intros; apply Z.pow_pos_nonneg; lia. Qed.

Lemma pow2_S s : 1 <= s -> 2 ^ s = 2 * 2 ^ (s - 1).
Proof. intros. rewrite <- Z.pow_succ_r by lia. f_equal; lia. Qed.

Lemma pow2_add a b : 0 <= a -> 0 <= b -> 2 ^ (a + b) = 2 ^ a * 2 ^ b.
Proof. intros; apply Z.pow_add_r; lia. Qed.

Lemma pow2_le a b : 0 <= a <= b -> 2 ^ a <= 2 ^ b.
Proof. intros; apply Z.pow_le_mono_r; lia. Qed.

Lemma pow2_lt_inv a b : 0 <= b -> 2 ^ a < 2 ^ b -> a < b.
Proof. intros Hb H. apply (Z.pow_lt_mono_r_iff 2); try lia. Qed.

Lemma pow2_le_inv a b : 0 <= b -> 2 ^ a <= 2 ^ b -> a <= b.
Proof. intros Hb H. apply (Z.pow_le_mono_r_iff 2); try lia. Qed.

Lemma pow2_divide a b : 0 <= a <= b -> (2 ^ a | 2 ^ b).
Proof. intros. exists (2 ^ (b - a)). rewrite <- pow2_add by lia. f_equal; lia. Qed.

(* ------------------------------------------------------------------ bitlen *)
Lemma bitlen_0 : bitlen 0 = 0.
Proof. reflexivity. Qed.

Lemma bitlen_nonneg m : 0 <= bitlen m.
Proof. unfold bitlen. destruct (Z.eqb_spec m 0); [ lia | ]. pose proof (Z.log2_nonneg (Z.abs m)). lia. Qed.

Lemma bitlen_pos m : m <> 0 -> 0 < bitlen m.
Proof. intros. unfold bitlen. destruct (Z.eqb_spec m 0); [ lia | ]. pose proof (Z.log2_nonneg (Z.abs m)). lia. Qed.

Lemma bitlen_bounds m : m <> 0 -> 2 ^ (bitlen m - 1) <= Z.abs m < 2 ^ bitlen m.
Proof.
  intros H. unfold bitlen. destruct (Z.eqb_spec m 0); [ contradiction | ].
  replace (Z.log2 (Z.abs m) + 1 - 1) with (Z.log2 (Z.abs m)) by lia.
  replace (Z.log2 (Z.abs m) + 1) with (Z.succ (Z.log2 (Z.abs m))) by lia.
  apply Z.log2_spec. lia.
Qed.

Lemma bitlen_abs_lt m : Z.abs m < 2 ^ bitlen m.
Proof. destruct (Z.eq_dec m 0) as [-> | H]; [ reflexivity | apply bitlen_bounds; assumption ]. Qed.

Lemma bitlen_opp m : bitlen (- m) = bitlen m.
Proof. unfold bitlen. rewrite Z.abs_opp. destruct (Z.eqb_spec m 0), (Z.eqb_spec (- m) 0); lia. Qed.

Lemma bitlen_abs m : bitlen (Z.abs m) = bitlen m.
Proof. destruct (Z.abs_spec m) as [[_ ->] | [_ ->]]; [ reflexivity | apply bitlen_opp ]. Qed.

Lemma bitlen_unique m n : 0 < n -> 2 ^ (n - 1) <= Z.abs m < 2 ^ n -> bitlen m = n.
Proof.
  intros Hn H. unfold bitlen. pose proof (pow2_pos (n - 1) ltac:(lia)).
  destruct (Z.eqb_spec m 0); [ lia | ].
  rewrite (Z.log2_unique (Z.abs m) (n - 1)); [ lia | lia | ].
  replace (Z.succ (n - 1)) with n by lia. assumption.
Qed.

Lemma bitlen_le_of_lt m n : 0 <= n -> Z.abs m < 2 ^ n -> bitlen m <= n.
Proof.
  intros Hn H. destruct (Z.eq_dec m 0) as [-> | Hm]; [ rewrite bitlen_0; lia | ].
  pose proof (bitlen_bounds m Hm). pose proof (bitlen_pos m Hm).
  assert (bitlen m - 1 < n); [ | lia ]. apply pow2_lt_inv; lia.
Qed.

Lemma bitlen_ge_of_le m n : 2 ^ n <= Z.abs m -> n < bitlen m.
Proof.
  intros H. pose proof (bitlen_abs_lt m). pose proof (bitlen_nonneg m).
  apply pow2_lt_inv; lia.
Qed.

Lemma bitlen_mono a b : Z.abs a <= Z.abs b -> bitlen a <= bitlen b.
Proof.
  intros H. apply bitlen_le_of_lt; [ apply bitlen_nonneg | ]. pose proof (bitlen_abs_lt b). lia.
Qed.

(* ------------------------------------------------------------------ rq: nearest-even quotient by 2^s *)
Definition rq (s m : Z) : Z :=
  let q := m / 2 ^ s in
  let r := m mod 2 ^ s in
  let h := 2 ^ (s - 1) in
  if r <? h then q else if h <? r then q + 1 else if Z.even q then q else q + 1.

Lemma rnd_dy_rq prec m e :
  rnd_dy prec m e = if bitlen m <=? prec then (m, e) else (rq (bitlen m - prec) m, e + (bitlen m - prec)).
Proof. reflexivity. Qed.

Lemma rq_cases s m : 1 <= s -> exists q r h, 0 < h /\ 2 ^ s = 2 * h /\ m = 2 * h * q + r /\ 0 <= r < 2 * h /\
  q = m / 2 ^ s /\
  rq s m = (if r <? h then q else if h <? r then q + 1 else if Z.even q then q else q + 1).
Proof.
  intros Hs. exists (m / 2 ^ s), (m mod 2 ^ s), (2 ^ (s - 1)).
  pose proof (pow2_pos (s - 1) ltac:(lia)). pose proof (pow2_S s Hs) as E.
  pose proof (Z.div_mod m (2 ^ s) ltac:(lia)). pose proof (Z.mod_pos_bound m (2 ^ s) ltac:(lia)).
  repeat split; lia.
Qed.

Lemma even_true_ex k : Z.even k = true -> exists j, k = 2 * j.
Proof. intros H. apply Z.even_spec in H. destruct H as [j ->]. exists j; lia. Qed.

Lemma even_false_ex k : Z.even k = false -> exists j, k = 2 * j + 1.
Proof.
  intros H. assert (Ho : Z.odd k = true) by (rewrite <- Z.negb_even, H; reflexivity).
  apply Z.odd_spec in Ho. destruct Ho as [j ->]. exists j; lia.
Qed.

(* half-ulp error, and even on a tie *)
Lemma rq_spec s m : 1 <= s ->
  2 * Z.abs (rq s m * 2 ^ s - m) <= 2 ^ s /\ (2 * Z.abs (rq s m * 2 ^ s - m) = 2 ^ s -> Z.even (rq s m) = true).
Proof.
  intros Hs. destruct (rq_cases s m Hs) as (q & r & h & Hh & E & Em & Hr & _ & ->). rewrite E.
  destruct (Z.ltb_spec r h); [ split; lia | ].
  destruct (Z.ltb_spec h r); [ split; lia | ].
  destruct (Z.even q) eqn:Eq.
  - split; [ lia | intros _; exact Eq ].
  - split; [ lia | intros _ ]. destruct (even_false_ex q Eq) as [j ->].
    replace (2 * j + 1 + 1) with (2 * (j + 1)) by lia. rewrite Z.even_mul. reflexivity.
Qed.

Lemma rq_unique s m k : 1 <= s -> 2 * Z.abs (k * 2 ^ s - m) <= 2 ^ s ->
  (2 * Z.abs (k * 2 ^ s - m) = 2 ^ s -> Z.even k = true) -> rq s m = k.
Proof.
  intros Hs H1 H2. destruct (rq_spec s m Hs) as [G1 G2]. set (k' := rq s m) in *. clearbody k'.
  pose proof (pow2_pos s ltac:(lia)) as HW. set (W := 2 ^ s) in *. clearbody W.
  destruct (Z.eq_dec k' k) as [ | Hne ]; [ assumption | exfalso ].
  assert (Hd : k' <= k - 1 \/ k + 1 <= k') by lia.
  assert (T1 : 2 * Z.abs (k * W - m) = W) by nia.
  assert (T2 : 2 * Z.abs (k' * W - m) = W) by nia.
  destruct (even_true_ex _ (H2 T1)) as [j Ej]. destruct (even_true_ex _ (G2 T2)) as [j' Ej'].
  subst k k'. assert (j' <> j) by lia. nia.
Qed.

Lemma rq_exact s k : 1 <= s -> rq s (k * 2 ^ s) = k.
Proof.
  intros Hs. pose proof (pow2_pos s ltac:(lia)). apply rq_unique; [ assumption | | ].
  - replace (k * 2 ^ s - k * 2 ^ s) with 0 by lia. cbn. lia.
  - replace (k * 2 ^ s - k * 2 ^ s) with 0 by lia. cbn. lia.
Qed.

Lemma rq_opp s m : 1 <= s -> rq s (- m) = - rq s m.
Proof.
  intros Hs. destruct (rq_spec s m Hs) as [G1 G2]. apply rq_unique; [ assumption | | ].
  - replace (- rq s m * 2 ^ s - - m) with (- (rq s m * 2 ^ s - m)) by lia. rewrite Z.abs_opp. exact G1.
  - replace (- rq s m * 2 ^ s - - m) with (- (rq s m * 2 ^ s - m)) by lia. rewrite Z.abs_opp, Z.even_opp. exact G2.
Qed.

Lemma rq_mono s m1 m2 : 1 <= s -> m1 <= m2 -> rq s m1 <= rq s m2.
Proof.
  intros Hs Hm. destruct (rq_cases s m1 Hs) as (q1 & r1 & h & Hh & E & Em1 & Hr1 & Eq1 & ->).
  destruct (rq_cases s m2 Hs) as (q2 & r2 & h' & Hh' & E' & Em2 & Hr2 & Eq2 & ->).
  assert (h' = h) by lia. subst h'.
  assert (Hq : q1 <= q2) by (subst q1 q2; apply Z.div_le_mono; lia).
  destruct (Z.eq_dec q1 q2) as [-> | Hne].
  - assert (r1 <= r2) by lia.
    destruct (Z.ltb_spec r1 h), (Z.ltb_spec r2 h), (Z.ltb_spec h r1), (Z.ltb_spec h r2), (Z.even q2); lia.
  - destruct (Z.ltb_spec r1 h), (Z.ltb_spec r2 h), (Z.ltb_spec h r1), (Z.ltb_spec h r2), (Z.even q1), (Z.even q2); lia.
Qed.

(* the two-sided "nearest" consequences: grid points on one side of m stay on that side *)
Lemma rq_ge s m k : 1 <= s -> k * 2 ^ s <= m -> k <= rq s m.
Proof. intros Hs H. rewrite <- (rq_exact s k Hs). apply rq_mono; assumption. Qed.

Lemma rq_le s m k : 1 <= s -> m <= k * 2 ^ s -> rq s m <= k.
Proof. intros Hs H. rewrite <- (rq_exact s k Hs). apply rq_mono; assumption. Qed.

(* ------------------------------------------------------------------ rnd_dy *)
Lemma rnd_dy_opp prec m e : rnd_dy prec (- m) e = (- fst (rnd_dy prec m e), snd (rnd_dy prec m e)).
Proof.
  rewrite !rnd_dy_rq, bitlen_opp. destruct (Z.leb_spec (bitlen m) prec); cbn [fst snd]; [ reflexivity | ].
  rewrite rq_opp by lia. reflexivity.
Qed.

Theorem rnd_dy_spec prec m e m' e' : 0 < prec -> rnd_dy prec m e = (m', e') ->
  e <= e' /\ e' - e = Z.max 0 (bitlen m - prec) /\ Z.abs m' <= 2 ^ prec /\
  2 * Z.abs (m' * 2 ^ (e' - e) - m) <= 2 ^ (e' - e) /\ (bitlen m <= prec -> m' = m).
Proof.
  intros Hp. rewrite rnd_dy_rq. destruct (Z.leb_spec (bitlen m) prec) as [Hn | Hn]; intros E; injection E as <- <-.
  - replace (e - e) with 0 by lia. change (2 ^ 0) with 1. repeat split; try lia.
    pose proof (bitlen_abs_lt m). pose proof (pow2_le (bitlen m) prec ltac:(pose proof (bitlen_nonneg m); lia)). lia.
  - set (s := bitlen m - prec) in *. assert (Hs : 1 <= s) by (unfold s; lia).
    replace (e + s - e) with s by lia. repeat split; try lia.
    + pose proof (bitlen_abs_lt m) as Hb. replace (bitlen m) with (prec + s) in Hb by (unfold s; lia).
      rewrite pow2_add in Hb by lia.
      pose proof (rq_le s m (2 ^ prec) Hs ltac:(lia)). pose proof (rq_ge s m (- 2 ^ prec) Hs ltac:(lia)). lia.
    + apply rq_spec; assumption.
Qed.

(* normalisation: when rounding happened the significand keeps prec bits *)
Lemma rnd_dy_norm prec m e m' e' : 0 < prec -> rnd_dy prec m e = (m', e') -> prec < bitlen m -> 2 ^ (prec - 1) <= Z.abs m'.
Proof.
  intros Hp. rewrite rnd_dy_rq. destruct (Z.leb_spec (bitlen m) prec) as [Hn | Hn]; intros E; injection E as <- <-; [ lia | ].
  intros _. set (s := bitlen m - prec) in *. assert (Hs : 1 <= s) by (unfold s; lia).
  assert (Hm : m <> 0) by (intros ->; rewrite bitlen_0 in Hn; lia).
  pose proof (bitlen_bounds m Hm) as Hb. replace (bitlen m - 1) with (prec - 1 + s) in Hb by (unfold s; lia).
  rewrite pow2_add in Hb by lia. destruct Hb as [Hb _].
  destruct (Z.abs_spec m) as [[? Ea] | [? Ea]]; rewrite Ea in Hb.
  - pose proof (rq_ge s m (2 ^ (prec - 1)) Hs ltac:(lia)). lia.
  - pose proof (rq_le s m (- 2 ^ (prec - 1)) Hs ltac:(lia)). lia.
Qed.

(* relative error 2^-prec *)
Lemma rnd_dy_rel prec m e m' e' : 0 < prec -> rnd_dy prec m e = (m', e') ->
  2 ^ prec * Z.abs (m' * 2 ^ (e' - e) - m) <= Z.abs m.
Proof.
  intros Hp E. destruct (rnd_dy_spec prec m e m' e' Hp E) as (_ & Es & _ & Herr & Hid).
  destruct (Z.leb_spec (bitlen m) prec) as [Hn | Hn].
  - rewrite (Hid Hn). replace (e' - e) with 0 by lia. change (2 ^ 0) with 1.
    replace (m * 1 - m) with 0 by lia. cbn [Z.abs]. lia.
  - set (s := e' - e) in *. assert (Hs : s = bitlen m - prec) by lia. assert (1 <= s) by lia.
    assert (Hm : m <> 0) by (intros ->; rewrite bitlen_0 in Hn; lia).
    pose proof (bitlen_bounds m Hm) as [Hb _]. replace (bitlen m - 1) with (prec + (s - 1)) in Hb by lia.
    rewrite pow2_add in Hb by lia. rewrite (pow2_S s) in Herr by lia.
    pose proof (pow2_pos prec ltac:(lia)).
    assert (Z.abs (m' * (2 * 2 ^ (s - 1)) - m) <= 2 ^ (s - 1)) by lia.
    rewrite (pow2_S s) by lia.
    apply Z.le_trans with (2 ^ prec * 2 ^ (s - 1)); [ apply Z.mul_le_mono_nonneg_l; lia | lia ].
Qed.

(* ------------------------------------------------------------------ rn *)
Lemma rn_unfold prec z :
  rn prec z = if bitlen z <=? prec then z else rq (bitlen z - prec) z * 2 ^ (bitlen z - prec).
Proof.
  unfold rn. rewrite rnd_dy_rq. destruct (bitlen z <=? prec).
  - change (2 ^ 0) with 1. lia.
  - reflexivity.
Qed.

Lemma rn_0 prec : rn prec 0 = 0.
Proof.
  rewrite rn_unfold, bitlen_0. destruct (0 <=? prec); [ reflexivity | ].
  unfold rq. rewrite Zdiv_0_l, Zmod_0_l. pose proof (Z.pow_nonneg 2 (0 - prec - 1) ltac:(lia)).
  destruct (Z.ltb_spec 0 (2 ^ (0 - prec - 1))); [ reflexivity | ].
  destruct (Z.ltb_spec (2 ^ (0 - prec - 1)) 0); [ lia | reflexivity ].
Qed.

Theorem rn_opp prec z : rn prec (- z) = - rn prec z.
Proof.
  rewrite !rn_unfold, bitlen_opp. destruct (Z.leb_spec (bitlen z) prec); [ reflexivity | ].
  rewrite rq_opp by lia. lia.
Qed.

(* absolute (half-ulp) and relative error of rn *)
Lemma rn_abs_err prec z : 0 < prec -> 2 * Z.abs (rn prec z - z) <= 2 ^ Z.max 0 (bitlen z - prec).
Proof.
  intros Hp. rewrite rn_unfold. destruct (Z.leb_spec (bitlen z) prec).
  - replace (z - z) with 0 by lia. replace (Z.max 0 (bitlen z - prec)) with 0 by lia. cbn. lia.
  - replace (Z.max 0 (bitlen z - prec)) with (bitlen z - prec) by lia. apply rq_spec. lia.
Qed.

Theorem rn_err prec z : 0 < prec -> 2 ^ prec * Z.abs (rn prec z - z) <= Z.abs z.
Proof.
  intros Hp. unfold rn. destruct (rnd_dy prec z 0) as [m e] eqn:E.
  pose proof (rnd_dy_rel prec z 0 m e Hp E) as H. replace (e - 0) with e in H by lia. exact H.
Qed.

Theorem rn_is_mult prec z : 0 < prec ->
  (2 ^ Z.max 0 (bitlen z - prec) | rn prec z) /\ Z.abs (rn prec z) <= 2 ^ bitlen z.
Proof.
  intros Hp. unfold rn. destruct (rnd_dy prec z 0) as [m e] eqn:E.
  destruct (rnd_dy_spec prec z 0 m e Hp E) as (He & Es & Hm & _ & Hid).
  replace (e - 0) with e in Es by lia. rewrite <- Es. split; [ exists m; reflexivity | ].
  destruct (Z.leb_spec (bitlen z) prec) as [Hn | Hn].
  - rewrite (Hid Hn). replace e with 0 by lia. change (2 ^ 0) with 1. pose proof (bitlen_abs_lt z). lia.
  - replace (bitlen z) with (prec + e) by lia. rewrite pow2_add by lia. rewrite Z.abs_mul.
    pose proof (pow2_pos e ltac:(lia)). rewrite (Z.abs_eq (2 ^ e)) by lia.
    apply Z.mul_le_mono_nonneg_r; lia.
Qed.

(* a multiple of 2^k with at most prec significant bits is not changed by rounding *)
Theorem rn_exact_mult prec k z : 0 < prec -> 0 <= k -> (2 ^ k | z) -> Z.abs z <= 2 ^ (k + prec) -> rn prec z = z.
Proof.
  intros Hp Hk Hd Hz. rewrite rn_unfold. destruct (Z.leb_spec (bitlen z) prec) as [Hn | Hn]; [ reflexivity | ].
  set (s := bitlen z - prec) in *. assert (Hs : 1 <= s) by (unfold s; lia).
  assert (Hz0 : z <> 0) by (intros ->; rewrite bitlen_0 in Hn; lia).
  pose proof (bitlen_bounds z Hz0) as [Hb1 Hb2].
  replace (bitlen z - 1) with (s - 1 + prec) in Hb1 by (unfold s; lia).
  assert (Hdiv : (2 ^ s | z)).
  { destruct (Z.le_gt_cases s k) as [Hsk | Hsk].
    - apply Z.divide_trans with (2 ^ k); [ apply pow2_divide; lia | assumption ].
    - assert (s - 1 + prec <= k + prec) by (apply pow2_le_inv; lia).
      assert (Es : s = k + 1) by lia.
      assert (Ez : Z.abs z = 2 ^ (k + prec)) by (replace (s - 1 + prec) with (k + prec) in Hb1 by lia; lia).
      replace (k + prec) with (s + (prec - 1)) in Ez by lia. rewrite pow2_add in Ez by lia.
      destruct (Z.abs_spec z) as [[_ Ea] | [_ Ea]]; rewrite Ea in Ez.
      + exists (2 ^ (prec - 1)). lia.
      + exists (- 2 ^ (prec - 1)). lia. }
  clearbody s. destruct Hdiv as [j Ej]. rewrite Ej, rq_exact by lia. reflexivity.
Qed.

(* sign and size *)
Lemma rn_pos_bounds prec z : 0 < prec -> 0 < z -> 2 ^ (bitlen z - 1) <= rn prec z <= 2 ^ bitlen z.
Proof.
  intros Hp Hz. pose proof (bitlen_bounds z ltac:(lia)) as [Hb1 Hb2]. rewrite Z.abs_eq in Hb1, Hb2 by lia.
  rewrite rn_unfold. destruct (Z.leb_spec (bitlen z) prec) as [Hn | Hn]; [ lia | ].
  set (s := bitlen z - prec) in *. assert (Hs : 1 <= s) by (unfold s; lia).
  pose proof (pow2_pos s ltac:(lia)).
  replace (bitlen z - 1) with (prec - 1 + s) in * by (unfold s; lia).
  replace (bitlen z) with (prec + s) in * by (unfold s; lia).
  rewrite pow2_add in * by lia. rewrite (pow2_add prec s) in * by lia.
  pose proof (rq_ge s z (2 ^ (prec - 1)) Hs ltac:(lia)). pose proof (rq_le s z (2 ^ prec) Hs ltac:(lia)).
  split; apply Z.mul_le_mono_nonneg_r; lia.
Qed.

Lemma rn_nonneg prec z : 0 < prec -> 0 <= z -> 0 <= rn prec z.
Proof.
  intros Hp Hz. destruct (Z.eq_dec z 0) as [-> | ]; [ rewrite rn_0; lia | ].
  pose proof (rn_pos_bounds prec z Hp ltac:(lia)). pose proof (pow2_pos (bitlen z - 1) ltac:(pose proof (bitlen_pos z); lia)). lia.
Qed.

Lemma rn_mono_pos prec z1 z2 : 0 < prec -> 0 < z1 <= z2 -> rn prec z1 <= rn prec z2.
Proof.
  intros Hp Hz. assert (Hn : bitlen z1 <= bitlen z2) by (apply bitlen_mono; lia).
  destruct (Z.eq_dec (bitlen z1) (bitlen z2)) as [En | Hne].
  - rewrite !rn_unfold, En. destruct (Z.leb_spec (bitlen z2) prec); [ lia | ].
    pose proof (pow2_pos (bitlen z2 - prec) ltac:(lia)).
    apply Z.mul_le_mono_nonneg_r; [ lia | apply rq_mono; lia ].
  - pose proof (rn_pos_bounds prec z1 Hp ltac:(lia)) as [_ H1]. pose proof (rn_pos_bounds prec z2 Hp ltac:(lia)) as [H2 _].
    pose proof (pow2_le (bitlen z1) (bitlen z2 - 1) ltac:(pose proof (bitlen_nonneg z1); lia)). lia.
Qed.

Theorem rn_mono prec z1 z2 : 0 < prec -> z1 <= z2 -> rn prec z1 <= rn prec z2.
Proof.
  intros Hp Hz. destruct (Z.lt_ge_cases 0 z1) as [H1 | H1].
  - apply rn_mono_pos; lia.
  - destruct (Z.lt_ge_cases z2 0) as [H2 | H2].
    + pose proof (rn_mono_pos prec (- z2) (- z1) Hp ltac:(lia)) as Ho. rewrite !rn_opp in Ho. lia.
    + pose proof (rn_nonneg prec z2 Hp H2). pose proof (rn_nonneg prec (- z1) Hp ltac:(lia)) as Ho. rewrite rn_opp in Ho. lia.
Qed.

(* representable values on one side of z stay on that side of rn z *)
Lemma rn_ge_repr prec k y z : 0 < prec -> 0 <= k -> (2 ^ k | y) -> Z.abs y <= 2 ^ (k + prec) -> y <= z -> y <= rn prec z.
Proof. intros Hp Hk Hd Hy H. rewrite <- (rn_exact_mult prec k y Hp Hk Hd Hy). apply rn_mono; assumption. Qed.

Lemma rn_le_repr prec k y z : 0 < prec -> 0 <= k -> (2 ^ k | y) -> Z.abs y <= 2 ^ (k + prec) -> z <= y -> rn prec z <= y.
Proof. intros Hp Hk Hd Hy H. rewrite <- (rn_exact_mult prec k y Hp Hk Hd Hy). apply rn_mono; assumption. Qed.

(* ------------------------------------------------------------------ floor_dy / trunc_dy of a dyadic m * 2^(s-k) *)
Lemma floor_dy_frac m s k : 0 <= s -> 0 <= k -> floor_dy (m, s - k) = (m * 2 ^ s) / 2 ^ k.
Proof.
  intros Hs Hk. unfold floor_dy. destruct (Z.leb_spec 0 (s - k)).
  - replace s with (s - k + k) at 2 by lia. rewrite pow2_add by lia. rewrite Z.mul_assoc.
    rewrite Z.div_mul; [ reflexivity | ]. pose proof (pow2_pos k Hk). lia.
  - replace k with (s + (- (s - k))) at 2 by lia. rewrite pow2_add by lia.
    pose proof (pow2_pos s Hs). pose proof (pow2_pos (- (s - k)) ltac:(lia)).
    rewrite (Z.mul_comm (2 ^ s) (2 ^ - (s - k))). rewrite Z.div_mul_cancel_r by lia. reflexivity.
Qed.

Lemma trunc_dy_frac m s k : 0 <= s -> 0 <= k -> trunc_dy (m, s - k) = Z.quot (m * 2 ^ s) (2 ^ k).
Proof.
  intros Hs Hk. unfold trunc_dy. destruct (Z.leb_spec 0 (s - k)).
  - replace s with (s - k + k) at 2 by lia. rewrite pow2_add by lia. rewrite Z.mul_assoc.
    rewrite Z.quot_mul; [ reflexivity | ]. pose proof (pow2_pos k Hk). lia.
  - replace k with (s + (- (s - k))) at 2 by lia. rewrite pow2_add by lia.
    pose proof (pow2_pos s Hs). pose proof (pow2_pos (- (s - k)) ltac:(lia)).
    rewrite (Z.mul_comm (2 ^ s) (2 ^ - (s - k))). rewrite Z.quot_mul_cancel_r by lia. reflexivity.
Qed.

(* ------------------------------------------------------------------ mul_dy: z * (m * 2^e) rounded *)
Theorem mul_dy_err prec z m e : 0 < prec -> exists s m',
  0 <= s /\ mul_dy prec z (m, e) = (m', e + s) /\ Z.abs m' <= 2 ^ prec /\
  2 * Z.abs (m' * 2 ^ s - z * m) <= 2 ^ s /\
  2 ^ prec * Z.abs (m' * 2 ^ s - z * m) <= Z.abs (z * m).
Proof.
  intros Hp. unfold mul_dy. destruct (rnd_dy prec (z * m) e) as [m' e'] eqn:E.
  destruct (rnd_dy_spec prec (z * m) e m' e' Hp E) as (He & Es & Hm & Herr & _).
  pose proof (rnd_dy_rel prec (z * m) e m' e' Hp E) as Hrel.
  exists (e' - e), m'. repeat split; try assumption; try lia. f_equal; lia.
Qed.

(* ------------------------------------------------------------------ div_dy: n / d correctly rounded *)
Lemma div_dy_sign prec n d : n <> 0 -> d <> 0 ->
  div_dy prec n d = (Z.sgn n * Z.sgn d * fst (div_dy prec (Z.abs n) (Z.abs d)), snd (div_dy prec (Z.abs n) (Z.abs d))).
Proof.
  intros Hn Hd. unfold div_dy.
  destruct (Z.eqb_spec n 0); [ contradiction | ]. destruct (Z.eqb_spec (Z.abs n) 0); [ lia | ].
  rewrite !bitlen_abs, !Z.abs_involutive.
  rewrite (Z.sgn_pos (Z.abs n)), (Z.sgn_pos (Z.abs d)) by lia.
  set (k := Z.max 0 (prec + 2 + bitlen d - bitlen n)).
  set (M := 2 * (Z.abs n * 2 ^ k / Z.abs d) + (if Z.abs n * 2 ^ k mod Z.abs d =? 0 then 0 else 1)).
  rewrite !Z.mul_1_l.
  assert (Hs : Z.sgn n * Z.sgn d = 1 \/ Z.sgn n * Z.sgn d = -1).
  { destruct (Z.lt_total n 0) as [H | [H | H]]; [ rewrite (Z.sgn_neg n H) | contradiction | rewrite (Z.sgn_pos n H) ];
    (destruct (Z.lt_total d 0) as [H' | [H' | H']]; [ rewrite (Z.sgn_neg d H') | contradiction | rewrite (Z.sgn_pos d H') ]); lia. }
  destruct Hs as [-> | ->].
  - rewrite !Z.mul_1_l. destruct (rnd_dy prec M (- k - 1)); reflexivity.
  - replace (-1 * M) with (- M) by lia. rewrite rnd_dy_opp. f_equal; lia.
Qed.

(* positive operands.  The quotient carries >= prec+2 bits and a sticky bit, so the result is the correctly rounded
   exact quotient: half-ulp absolute error (ulp = 2^s in units of 2^-k) and relative error 2^-prec, multiplied out. *)
Lemma div_dy_pos prec n d : 0 < prec -> 0 < n -> 0 < d -> exists k s m,
  0 <= k /\ 3 <= s /\ div_dy prec n d = (m, s - k) /\ 2 ^ (prec - 1) <= m <= 2 ^ prec /\
  2 * Z.abs (m * 2 ^ s * d - n * 2 ^ k) <= 2 ^ s * d /\
  2 ^ prec * Z.abs (m * 2 ^ s * d - n * 2 ^ k) <= n * 2 ^ k.
Proof.
  intros Hp Hn Hd. unfold div_dy. destruct (Z.eqb_spec n 0); [ lia | ].
  rewrite (Z.sgn_pos n), (Z.sgn_pos d), (Z.abs_eq n), (Z.abs_eq d) by lia. rewrite !Z.mul_1_l.
  set (K := Z.max 0 (prec + 2 + bitlen d - bitlen n)).
  assert (HK : 0 <= K) by (unfold K; lia).
  assert (HK2 : prec + 2 + bitlen d - bitlen n <= K) by (unfold K; lia). clearbody K.
  pose proof (pow2_pos K HK) as HpK.
  pose proof (Z.div_mod (n * 2 ^ K) d ltac:(lia)) as EN. pose proof (Z.mod_pos_bound (n * 2 ^ K) d Hd) as Hr.
  set (q := n * 2 ^ K / d) in *. set (r := (n * 2 ^ K) mod d) in *. clearbody q r.
  (* the quotient has at least prec + 2 bits *)
  assert (Hq : 2 ^ (prec + 1) <= q).
  { assert (d * 2 ^ (prec + 1) <= n * 2 ^ K); [ | assert (q < 2 ^ (prec + 1) -> False); [ intros Hlt | lia ] ].
    - pose proof (bitlen_bounds n ltac:(lia)) as [Hbn _]. rewrite Z.abs_eq in Hbn by lia.
      pose proof (bitlen_abs_lt d) as Hbd. rewrite Z.abs_eq in Hbd by lia.
      pose proof (bitlen_pos n ltac:(lia)). pose proof (bitlen_pos d ltac:(lia)).
      pose proof (pow2_pos (prec + 1) ltac:(lia)).
      apply Z.le_trans with (2 ^ bitlen d * 2 ^ (prec + 1)); [ apply Z.mul_le_mono_nonneg_r; lia | ].
      rewrite <- pow2_add by lia.
      apply Z.le_trans with (2 ^ (bitlen n - 1 + K)); [ apply pow2_le; lia | ].
      rewrite pow2_add by lia. apply Z.mul_le_mono_nonneg_r; lia.
    - assert (d * (q + 1) <= d * 2 ^ (prec + 1)) by (apply Z.mul_le_mono_nonneg_l; lia). lia. }
  set (st := if r =? 0 then 0 else 1).
  assert (Hst : (st = 0 /\ r = 0) \/ (st = 1 /\ 0 < r)) by (unfold st; destruct (Z.eqb_spec r 0); lia). clearbody st.
  set (Ms := 2 * q + st).
  assert (HMs : 2 ^ (prec + 2) <= Ms) by (unfold Ms; rewrite (pow2_S (prec + 2)) by lia; replace (prec + 2 - 1) with (prec + 1) by lia; lia).
  pose proof (bitlen_ge_of_le Ms (prec + 2) ltac:(lia)) as HbM.
  destruct (rnd_dy prec Ms (- K - 1)) as [m e'] eqn:E.
  destruct (rnd_dy_spec prec Ms (- K - 1) m e' Hp E) as (He & Es & Hm & Herr & _).
  pose proof (rnd_dy_norm prec Ms (- K - 1) m e' Hp E ltac:(lia)) as Hnorm.
  set (s := e' - (- K - 1)) in *. assert (Hs : s = bitlen Ms - prec) by lia. assert (Hs3 : 3 <= s) by lia.
  pose proof (pow2_pos (prec + 2) ltac:(lia)) as HpP2.
  pose proof (bitlen_bounds Ms ltac:(lia)) as [HbMs _]. rewrite Z.abs_eq in HbMs by lia.
  replace (bitlen Ms - 1) with (prec + (s - 2) + 1) in HbMs by lia.
  rewrite (pow2_S (prec + (s - 2) + 1)) in HbMs by lia. replace (prec + (s - 2) + 1 - 1) with (prec + (s - 2)) in HbMs by lia.
  rewrite pow2_add in HbMs by lia.
  exists (K + 1), s, m. split; [ lia | ]. split; [ lia | ]. split; [ f_equal; lia | ].
  replace s with (s - 2 + 2) in Herr |- * by lia. rewrite (pow2_add (s - 2) 2) in * by lia. change (2 ^ 2) with 4 in *.
  rewrite (pow2_add K 1) by lia. change (2 ^ 1) with 2.
  pose proof (pow2_pos (s - 2) ltac:(lia)) as Hh2. pose proof (pow2_pos prec ltac:(lia)) as HP.
  set (h2 := 2 ^ (s - 2)) in *. set (V := 2 ^ K) in *. set (P := 2 ^ prec) in *. clearbody h2 V P.
  (* sign of m *)
  assert (Hm0 : 0 <= m).
  { destruct (Z.lt_ge_cases m 0) as [Hneg | ]; [ exfalso | assumption ].
    assert (m * (h2 * 4) <= -1 * (h2 * 4)) by (apply Z.mul_le_mono_nonneg_r; lia). lia. }
  split; [ lia | ].
  unfold Ms in *.
  assert (A1 : 2 * h2 * m - h2 <= q) by lia.
  assert (A2 : q + st <= 2 * h2 * m + h2) by lia.
  assert (A1d : (2 * h2 * m - h2) * d <= q * d) by (apply Z.mul_le_mono_nonneg_r; lia).
  assert (A2d : (q + st) * d <= (2 * h2 * m + h2) * d) by (apply Z.mul_le_mono_nonneg_r; lia).
  assert (Habs : Z.abs (m * (h2 * 4) * d - n * (V * 2)) <= 2 * h2 * d).
  { destruct Hst as [[-> ->] | [-> Hr0]]; lia. }
  split; [ lia | ].
  assert (B1 : P * h2 <= q) by lia.
  assert (B1d : P * h2 * d <= q * d) by (apply Z.mul_le_mono_nonneg_r; lia).
  assert (B2 : P * Z.abs (m * (h2 * 4) * d - n * (V * 2)) <= P * (2 * h2 * d)) by (apply Z.mul_le_mono_nonneg_l; lia).
  lia.
Qed.

Theorem div_dy_err prec n d : 0 < prec -> n <> 0 -> d <> 0 -> exists k s m,
  0 <= k /\ 3 <= s /\ div_dy prec n d = (m, s - k) /\ 2 ^ (prec - 1) <= Z.abs m <= 2 ^ prec /\
  2 * Z.abs (m * 2 ^ s * d - n * 2 ^ k) <= 2 ^ s * Z.abs d /\
  2 ^ prec * Z.abs (m * 2 ^ s * d - n * 2 ^ k) <= Z.abs n * 2 ^ k.
Proof.
  intros Hp Hn Hd. rewrite (div_dy_sign prec n d Hn Hd).
  destruct (div_dy_pos prec (Z.abs n) (Z.abs d) Hp ltac:(lia) ltac:(lia)) as (k & s & m0 & Hk & Hs & E & Hm & H1 & H2).
  rewrite E. cbn [fst snd]. exists k, s, (Z.sgn n * Z.sgn d * m0).
  split; [ lia | ]. split; [ lia | ]. split; [ reflexivity | ].
  pose proof (pow2_pos (prec - 1) ltac:(lia)) as HP1.
  set (W := 2 ^ s) in *. set (V := 2 ^ k) in *. set (P := 2 ^ prec) in *. set (P1 := 2 ^ (prec - 1)) in *. clearbody W V P P1.
  destruct (Z.lt_total n 0) as [Hn' | [Hn' | Hn']]; [ rewrite (Z.sgn_neg n Hn'), (Z.abs_neq n) in * by lia | contradiction | rewrite (Z.sgn_pos n Hn'), (Z.abs_eq n) in * by lia ];
  (destruct (Z.lt_total d 0) as [Hd' | [Hd' | Hd']]; [ rewrite (Z.sgn_neg d Hd'), (Z.abs_neq d) in * by lia | contradiction | rewrite (Z.sgn_pos d Hd'), (Z.abs_eq d) in * by lia ]).
  - replace (-1 * -1 * m0 * W * d - n * V) with (- (m0 * W * - d - - n * V)) by ring. rewrite !Z.abs_opp. repeat split; lia.
  - replace (-1 * 1 * m0 * W * d - n * V) with (- (m0 * W * d - - n * V)) by ring. rewrite !Z.abs_opp. repeat split; lia.
  - replace (1 * -1 * m0 * W * d - n * V) with (m0 * W * - d - n * V) by ring. repeat split; lia.
  - replace (1 * 1 * m0 * W * d - n * V) with (m0 * W * d - n * V) by ring. repeat split; lia.
Qed.

(* the reciprocal of a positive integer, the form the rings use: invp = m * 2^-t with |m * p - 2^t| <= 2^(t - prec) *)
Lemma inv_dy_err prec p : 0 < prec -> 0 < p -> exists m t,
  div_dy prec 1 p = (m, - t) /\ 0 <= t /\ 2 ^ (prec - 1) <= m <= 2 ^ prec /\ 2 ^ prec * Z.abs (m * p - 2 ^ t) <= 2 ^ t.
Proof.
  intros Hp Hp0. destruct (div_dy_pos prec 1 p Hp ltac:(lia) Hp0) as (k & s & m & Hk & Hs & E & Hm & H1 & H2).
  rewrite !Z.mul_1_l in *.
  pose proof (pow2_pos s ltac:(lia)) as HW. pose proof (pow2_pos k ltac:(lia)) as HV.
  pose proof (pow2_pos (prec - 1) ltac:(lia)) as HP1.
  assert (HP : 2 <= 2 ^ prec) by (rewrite (pow2_S prec) by lia; lia).
  assert (Hsk : s <= k).
  { destruct (Z.le_gt_cases s k) as [ | Hgt ]; [ assumption | exfalso ].
    pose proof (pow2_le k (s - 1) ltac:(lia)) as Hle. rewrite (pow2_S s) in * by lia.
    assert (1 * (2 * 2 ^ (s - 1)) <= m * p * (2 * 2 ^ (s - 1))) by (apply Z.mul_le_mono_nonneg_r; nia).
    replace (m * (2 * 2 ^ (s - 1)) * p) with (m * p * (2 * 2 ^ (s - 1))) in H2 by ring.
    assert (2 * Z.abs (m * p * (2 * 2 ^ (s - 1)) - 2 ^ k) <= 2 ^ prec * Z.abs (m * p * (2 * 2 ^ (s - 1)) - 2 ^ k))
      by (apply Z.mul_le_mono_nonneg_r; lia).
    lia. }
  exists m, (k - s). split; [ rewrite E; f_equal; lia | ]. split; [ lia | ]. split; [ lia | ].
  replace k with (k - s + s) in H2 by lia. rewrite (pow2_add (k - s) s) in H2 by lia.
  replace (m * 2 ^ s * p - 2 ^ (k - s) * 2 ^ s) with ((m * p - 2 ^ (k - s)) * 2 ^ s) in H2 by ring.
  rewrite Z.abs_mul, (Z.abs_eq (2 ^ s)) in H2 by lia. rewrite Z.mul_assoc in H2.
  apply Z.mul_le_mono_pos_r in H2; lia.
Qed.

(* ------------------------------------------------------------------ the quotient estimate d * (1/p) of the rings *)
(* two roundings (the reciprocal, then the product), multiplied out: with x = Xn / T,  |x - d/p| <= (2u + u^2) |d|/p *)
Lemma two_round U p T mi d Xn : 0 < U -> 0 < p -> 0 < T -> 0 <= mi ->
  U * Z.abs (mi * p - T) <= T -> U * Z.abs (Xn - d * mi) <= Z.abs (d * mi) ->
  U * U * Z.abs (Xn * p - d * T) <= (2 * U + 1) * (Z.abs d * T).
Proof.
  intros HU Hp HT Hmi H1 H2. rewrite Z.abs_mul, (Z.abs_eq mi) in H2 by lia.
  assert (Htri : Z.abs (Xn * p - d * T) <= Z.abs (Xn - d * mi) * p + Z.abs d * Z.abs (mi * p - T)).
  { replace (Xn * p - d * T) with ((Xn - d * mi) * p + d * (mi * p - T)) by ring.
    eapply Z.le_trans; [ apply Z.abs_triangle | ]. rewrite !Z.abs_mul, (Z.abs_eq p) by lia. lia. }
  assert (A3 : U * mi * p <= U * T + T) by lia.
  pose proof (Z.abs_nonneg (Xn - d * mi)). pose proof (Z.abs_nonneg (mi * p - T)). pose proof (Z.abs_nonneg d).
  set (E1 := Z.abs (Xn - d * mi)) in *. set (E2 := Z.abs (mi * p - T)) in *. set (D := Z.abs d) in *.
  set (G := Z.abs (Xn * p - d * T)) in *. clearbody E1 E2 D G.
  assert (A1 : U * U * G <= U * U * (E1 * p + D * E2)) by (apply Z.mul_le_mono_nonneg_l; nia).
  assert (A2 : (U * E1) * (U * p) <= (D * mi) * (U * p)) by (apply Z.mul_le_mono_nonneg_r; nia).
  assert (A4 : D * (U * mi * p) <= D * (U * T + T)) by (apply Z.mul_le_mono_nonneg_l; lia).
  assert (A5 : (U * D) * (U * E2) <= (U * D) * T) by (apply Z.mul_le_mono_nonneg_l; nia).
  lia.
Qed.

(* x = fl(d * fl(1/p)) is the dyadic Xn / 2^t; floor and trunc of it are the integer quotients *)
Lemma mul_inv_est prec p d : 0 < prec -> 0 < p -> exists Xn t, 0 <= t /\
  floor_dy (mul_dy prec d (div_dy prec 1 p)) = Xn / 2 ^ t /\
  trunc_dy (mul_dy prec d (div_dy prec 1 p)) = Z.quot Xn (2 ^ t) /\
  2 ^ prec * 2 ^ prec * Z.abs (Xn * p - d * 2 ^ t) <= (2 * 2 ^ prec + 1) * (Z.abs d * 2 ^ t).
Proof.
  intros Hp Hp0. destruct (inv_dy_err prec p Hp Hp0) as (mi & t & E & Ht & Hmi & Herr). rewrite E.
  destruct (mul_dy_err prec d mi (- t) Hp) as (s & mx & Hs & E2 & _ & _ & Hrel). rewrite E2.
  exists (mx * 2 ^ s), t. split; [ assumption | ].
  replace (- t + s) with (s - t) by lia. rewrite floor_dy_frac, trunc_dy_frac by lia.
  split; [ reflexivity | ]. split; [ reflexivity | ].
  pose proof (pow2_pos (prec - 1) ltac:(lia)).
  apply (two_round (2 ^ prec) p (2 ^ t) mi d (mx * 2 ^ s)); try assumption; try (apply pow2_pos; lia); lia.
Qed.

(* q = floor (Xn / T) with Xn / T within one unit of P / p *)
Lemma floor_quot_tail p T Xn P : 0 < p -> 0 < T -> Z.abs (Xn * p - P * T) < p * T ->
  - p <= P - (Xn / T) * p < 2 * p.
Proof.
  intros Hp HT H. pose proof (Z.div_mod Xn T ltac:(lia)) as E. pose proof (Z.mod_pos_bound Xn T HT) as Hr.
  set (q := Xn / T) in *. set (r := Xn mod T) in *. clearbody q r.
  assert (A : r * p < T * p) by (apply Z.mul_lt_mono_pos_r; lia).
  assert (B : 0 <= r * p) by (apply Z.mul_nonneg_nonneg; lia).
  assert (C1 : T * (q * p) < T * (P + p)) by (subst Xn; lia).
  assert (C2 : T * (P - 2 * p) < T * (q * p)) by (subst Xn; lia).
  apply Z.mul_lt_mono_pos_l in C1, C2; lia.
Qed.

Print Assumptions rnd_dy_spec.
Print Assumptions div_dy_err.
Print Assumptions inv_dy_err.
Print Assumptions mul_dy_err.
Print Assumptions rn_err.
Print Assumptions rn_mono.
Print Assumptions rn_opp.
Print Assumptions rn_exact_mult.
Print Assumptions rn_is_mult.
Print Assumptions mul_inv_est.
Print Assumptions floor_quot_tail.
