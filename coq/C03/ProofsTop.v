(* C03 — the advertised bounds (Params.v: minCardinality()/maxCardinality() as printed by the implementation on this
   run) are inside the proved envelopes, so the ring theorems hold for every modulus the rings advertise. *)
From Coq Require Import ZArith Bool Lia List.
From C03 Require Import Model ModelF Params ProofsBase ProofsInt ProofsIntA ProofsIntB ProofsIntC ProofsIntR ProofsIntM ProofsIntX
  ProofsIntY ProofsIntZ ProofsIntInv ProofsRU ProofsFM ProofsBarrett ProofsBarrettM ProofsBarrettS ProofsBarrettU ProofsPrecomp ProofsMisc ProofsBI ProofsBF ProofsEX.
Import ListNotations.
Local Open Scope Z_scope.

(* ---- integral Modular<S,C> *)
Definition int_row_ok (row : Z * bool * Z * Z * Z) : bool :=
  let '(sb, sg, cb, mn, mx) := row in
  existsb (fun c => (fst c =? sb) && (snd c =? cb)) cfgs && (2 <=? mn) && (mx <=? maxcard sb sg cb).

Lemma advertised_int_ok : forallb int_row_ok advertised_int = true.
Proof. vm_compute. reflexivity. Qed.

Definition advertised_int_nonempty : advertised_int <> [] := ltac:(discriminate).

Lemma int_pre_of_row sb sg cb mn mx p : In (sb, sg, cb, mn, mx) advertised_int -> mn <= p <= mx -> Pre sb sg cb p.
Proof.
  intros HIn Hp. pose proof (proj1 (forallb_forall _ _) advertised_int_ok _ HIn) as H. unfold int_row_ok in H.
  rewrite !andb_true_iff in H. destruct H as [[Hc Hmn] Hmx]. apply Z.leb_le in Hmn, Hmx.
  apply existsb_exists in Hc. destruct Hc as [[s c] [Hcin Hce]]. cbn [fst snd] in Hce.
  rewrite andb_true_iff, !Z.eqb_eq in Hce. destruct Hce as [-> ->].
  split; [ exact Hcin | lia ].
Qed.

Section IntAdvertised.
Variables (sb : Z) (sg : bool) (cb mn mx p : Z).
Hypothesis Hrow : In (sb, sg, cb, mn, mx) advertised_int.
Hypothesis Hp : mn <= p <= mx.
Let HP := int_pre_of_row sb sg cb mn mx p Hrow Hp.
Definition adv_add := add_exact sb sg cb p HP.
Definition adv_addin := addin_exact sb sg cb p HP.
Definition adv_sub := sub_exact sb sg cb p HP.
Definition adv_neg := neg_exact sb sg cb p HP.
Definition adv_mul := mul_exact sb sg cb p HP.
Definition adv_axpy := axpy_exact sb sg cb p HP.
Definition adv_axmy := axmy_exact sb sg cb p HP.
Definition adv_maxpy := maxpy_exact sb sg cb p HP.
Definition adv_maxpyin := maxpyin_exact sb sg cb p HP.
Definition adv_reduce := reduce_exact sb sg cb p HP.
Definition adv_consts := consts_exact sb sg cb p HP.
Definition adv_inv := inv_exact sb sg cb p HP.
Definition adv_div := div_exact sb sg cb p HP.
Definition adv_divin := divin_exact sb sg cb p HP.
Definition adv_isUnit := isUnit_exact sb sg cb p HP.
End IntAdvertised.

(* statements, for every advertised (Storage_t, Compute_t, min, max) row and every p in [min, max] *)
Definition Adv (S : Z -> bool -> Z -> Z -> Prop) : Prop :=
  forall sb sg cb mn mx p, In (sb, sg, cb, mn, mx) advertised_int -> mn <= p <= mx -> S sb sg cb p.
Definition Strip (S : Z -> bool -> Z -> Z -> Prop) (sb : Z) (sg : bool) (cb p : Z) : Prop := Pre sb sg cb p -> S sb sg cb p.

Definition Int_add_stmt := forall sb sg cb mn mx p, In (sb, sg, cb, mn, mx) advertised_int -> mn <= p <= mx ->
  forall a b, canon p a -> canon p b -> addZ sb sg cb p a b = (a + b) mod p /\ addinZ sb sg cb p a b = (a + b) mod p.
Definition Int_sub_neg_stmt := forall sb sg cb mn mx p, In (sb, sg, cb, mn, mx) advertised_int -> mn <= p <= mx ->
  forall a b, canon p a -> canon p b -> subZ sb sg cb p a b = (a - b) mod p /\ negZ sb sg cb p a = (- a) mod p.
Definition Int_mul_stmt := forall sb sg cb mn mx p, In (sb, sg, cb, mn, mx) advertised_int -> mn <= p <= mx ->
  forall a b, canon p a -> canon p b -> mulZ sb sg cb p a b = (a * b) mod p.
Definition Int_axpy_stmt := forall sb sg cb mn mx p, In (sb, sg, cb, mn, mx) advertised_int -> mn <= p <= mx ->
  forall a b c, canon p a -> canon p b -> canon p c ->
  axpyZ sb sg cb p a b c = (a * b + c) mod p /\ axmyZ sb sg cb p a b c = (a * b - c) mod p /\
  maxpyZ sb sg cb p a b c = (c - a * b) mod p /\ maxpyinZ sb sg cb p c a b = (c - a * b) mod p.
Definition Int_reduce_stmt := forall sb sg cb mn mx p, In (sb, sg, cb, mn, mx) advertised_int -> mn <= p <= mx ->
  forall y, in_storage sb sg y -> reduceZ sb sg cb p y = y mod p.
Definition Int_inv_stmt := forall sb sg cb mn mx p, In (sb, sg, cb, mn, mx) advertised_int -> mn <= p <= mx ->
  forall a, canon p a -> Z.gcd a p = 1 ->
  (forall fuel r, invZ sb sg cb p fuel a = Some r -> canon p r /\ (a * r) mod p = 1) /\
  (exists fuel, invZ sb sg cb p fuel a <> None).
Definition Int_div_stmt := forall sb sg cb mn mx p, In (sb, sg, cb, mn, mx) advertised_int -> mn <= p <= mx ->
  forall a b, canon p a -> canon p b -> Z.gcd b p = 1 ->
  ((forall fuel r, divZ sb sg cb p fuel a b = Some r -> canon p r /\ (r * b) mod p = a) /\
   (exists fuel, divZ sb sg cb p fuel a b <> None)) /\
  ((forall fuel r, divinZ sb sg cb p fuel a b = Some r -> canon p r /\ (r * b) mod p = a) /\
   (exists fuel, divinZ sb sg cb p fuel a b <> None)).
Definition Int_isUnit_stmt := forall sb sg cb mn mx p, In (sb, sg, cb, mn, mx) advertised_int -> mn <= p <= mx ->
  forall a, canon p a ->
  (forall fuel u, isUnitZ sb sg cb p fuel a = Some u -> (u = true <-> Z.gcd a p = 1)) /\
  (exists fuel, isUnitZ sb sg cb p fuel a <> None).

Lemma int_add : Int_add_stmt.
Proof. intros sb sg cb mn mx p HI Hp a b Ha Hb. split; [ apply (adv_add _ _ _ _ _ _ HI Hp) | apply (adv_addin _ _ _ _ _ _ HI Hp) ]; assumption. Qed.
Lemma int_sub_neg : Int_sub_neg_stmt.
Proof. intros sb sg cb mn mx p HI Hp a b Ha Hb. split; [ apply (adv_sub _ _ _ _ _ _ HI Hp) | apply (adv_neg _ _ _ _ _ _ HI Hp) ]; assumption. Qed.
Lemma int_mul : Int_mul_stmt.
Proof. intros sb sg cb mn mx p HI Hp a b Ha Hb. apply (adv_mul _ _ _ _ _ _ HI Hp); assumption. Qed.
Lemma int_axpy : Int_axpy_stmt.
Proof.
  intros sb sg cb mn mx p HI Hp a b c Ha Hb Hc. repeat split.
  - apply (adv_axpy _ _ _ _ _ _ HI Hp); assumption.
  - apply (adv_axmy _ _ _ _ _ _ HI Hp); assumption.
  - apply (adv_maxpy _ _ _ _ _ _ HI Hp); assumption.
  - apply (adv_maxpyin _ _ _ _ _ _ HI Hp); assumption.
Qed.
Lemma int_reduce : Int_reduce_stmt.
Proof. intros sb sg cb mn mx p HI Hp y Hy. apply (adv_reduce _ _ _ _ _ _ HI Hp); assumption. Qed.
Lemma int_inv : Int_inv_stmt.
Proof. intros sb sg cb mn mx p HI Hp a Ha Hg. apply (adv_inv _ _ _ _ _ _ HI Hp); assumption. Qed.
Lemma int_div : Int_div_stmt.
Proof.
  intros sb sg cb mn mx p HI Hp a b Ha Hb Hg. split.
  - apply (adv_div _ _ _ _ _ _ HI Hp); assumption.
  - apply (adv_divin _ _ _ _ _ _ HI Hp); assumption.
Qed.
Lemma int_isUnit : Int_isUnit_stmt.
Proof. intros sb sg cb mn mx p HI Hp a Ha. apply (adv_isUnit _ _ _ _ _ _ HI Hp); assumption. Qed.

(* the hypotheses are satisfiable: Modular<int32_t,uint64_t> at its advertised maximum, operands p-1 *)
Example int_hyps_sat : exists sb sg cb mn mx, In (sb, sg, cb, mn, mx) advertised_int /\ mn <= mx /\ canon mx (mx - 1).
Proof. exists 32, true, 64, min_i32_u64, max_i32_u64. split; [ | vm_compute; intuition discriminate ]. vm_compute. tauto. Qed.

(* ---- Modular<ruint<K>,ruint<K'>> *)
Definition ru_row_ok (row : Z * bool * Z * Z) : bool :=
  let '(w, dbl, mn, mx) := row in
  (0 <? w) && (w mod 2 =? 0) && (2 <=? mn) && (mx <=? ru_maxcard w dbl).
Lemma advertised_ru_ok : forallb ru_row_ok advertised_ru = true.
Proof. vm_compute. reflexivity. Qed.

Definition RU_adv_stmt := forall w dbl mn mx p, In (w, dbl, mn, mx) advertised_ru -> mn <= p <= mx ->
  forall a b c, canon p a -> canon p b -> canon p c ->
  ru_add w p a b = (a + b) mod p /\ ru_sub w p a b = (a - b) mod p /\ ru_subin w p a b = (a - b) mod p /\
  ru_neg w p a = (- a) mod p /\ ru_mul w dbl p a b = (a * b) mod p /\
  ru_axpy w dbl p a b c = (a * b + c) mod p /\ ru_axmy w dbl p a b c = (a * b - c) mod p /\
  ru_maxpy w dbl p a b c = (c - a * b) mod p /\ ru_maxpyin w dbl p c a b = (c - a * b) mod p.
Lemma ru_adv : RU_adv_stmt.
Proof.
  intros w dbl mn mx p HIn Hp. pose proof (proj1 (forallb_forall _ _) advertised_ru_ok _ HIn) as H. unfold ru_row_ok in H.
  rewrite !andb_true_iff in H. destruct H as [[[Hw He] Hmn] Hmx].
  apply Z.ltb_lt in Hw. apply Z.eqb_eq in He. apply Z.leb_le in Hmn, Hmx.
  apply ru_exact. repeat split; try lia.
Qed.

(* ---- Modular<float>, Modular<float,double>, Modular<double> *)
Definition advertised_fm : list (Z * Z * Z * Z) := [(24, 24, min_f_f, max_f_f); (24, 53, min_f_d, max_f_d); (53, 53, min_d_d, max_d_d)].
Definition fm_row_ok (row : Z * Z * Z * Z) : bool :=
  let '(pe, pc, mn, mx) := row in
  (2 <=? mn) && existsb (fun c => let '(e, c', m) := c in (e =? pe) && (c' =? pc) && (mx <=? m))
                        [(24, 24, 4096); (24, 53, 16777216); (53, 53, 94906266)].
Lemma advertised_fm_ok : forallb fm_row_ok advertised_fm = true.
Proof. vm_compute. reflexivity. Qed.

Definition FM_adv_stmt := forall pe pc mn mx p, In (pe, pc, mn, mx) advertised_fm -> mn <= p <= mx ->
  forall a b c, canon p a -> canon p b -> canon p c ->
  fm_add pe pc p a b = (a + b) mod p /\ fm_sub pe pc p a b = (a - b) mod p /\ fm_subin pe pc p a b = (a - b) mod p /\
  fm_neg pe pc p a = (- a) mod p /\ fm_mul pe pc p a b = (a * b) mod p /\
  fm_axpy pe pc p a b c = (a * b + c) mod p /\ fm_axmy pe pc p a b c = (a * b - c) mod p /\
  fm_maxpy pe pc p a b c = (c - a * b) mod p /\ fm_maxpyin pe pc p c a b = (c - a * b) mod p /\
  fm_axmyin pe pc p c a b = (a * b - c) mod p.
Lemma fm_adv : FM_adv_stmt.
Proof.
  intros pe pc mn mx p HIn Hp. pose proof (proj1 (forallb_forall _ _) advertised_fm_ok _ HIn) as H. unfold fm_row_ok in H.
  rewrite andb_true_iff in H. destruct H as [Hmn Hex]. apply Z.leb_le in Hmn.
  apply existsb_exists in Hex. destruct Hex as [[[e c'] m] [Hin Hc]].
  rewrite !andb_true_iff, !Z.eqb_eq, Z.leb_le in Hc. destruct Hc as [[-> ->] Hm].
  apply (fm_exact pe pc m p). split; [ | lia ].
  cbn [In] in Hin. unfold fm_cfg. intuition.
Qed.

(* ---- mul_precomp_p (Barrett): every instantiated width pair, inside the asserted precondition of precomp_p *)
Lemma mulpp_exact sb sg cb p : Mulpp_stmt sb sg cb p.
Proof. destruct sg; [ apply mulpp_exact_signed | apply mulpp_exact_unsigned ]. Qed.

(* ---- isUnit of the RecInt rings at the advertised bounds *)
Definition RU_isUnit_adv_stmt := forall w dbl mn mx p, In (w, dbl, mn, mx) advertised_ru -> mn <= p <= mx -> forall a, canon p a ->
  (forall fuel u, ru_isUnit w p fuel a = Some u -> (u = true <-> Z.gcd a p = 1)) /\
  (exists fuel, ru_isUnit w p fuel a <> None).
Definition ru_row_ok32 (row : Z * bool * Z * Z) : bool := let '(w, _, _, _) := row in 32 <=? w.
Lemma advertised_ru_ok32 : forallb ru_row_ok32 advertised_ru = true.
Proof. vm_compute. reflexivity. Qed.
Lemma ru_isUnit_adv : RU_isUnit_adv_stmt.
Proof.
  intros w dbl mn mx p HIn Hp. pose proof (proj1 (forallb_forall _ _) advertised_ru_ok _ HIn) as H. unfold ru_row_ok in H.
  pose proof (proj1 (forallb_forall _ _) advertised_ru_ok32 _ HIn) as H32. cbn in H32. apply Z.leb_le in H32.
  rewrite !andb_true_iff in H. destruct H as [[[Hw He] Hmn] Hmx].
  apply Z.ltb_lt in Hw. apply Z.eqb_eq in He. apply Z.leb_le in Hmn, Hmx.
  apply (ru_isUnit_exact w dbl p); [ repeat split; try lia | exact H32 ].
Qed.

(* ---- ModularBalanced<float|double>, ModularExtended<float|double> at the advertised bounds *)
Definition advertised_bf : list (Z * Z * Z) := [(24, min_bf, max_bf); (53, min_bd, max_bd)].
Definition advertised_ex : list (Z * Z * Z) := [(24, min_ef, max_ef); (53, min_ed, max_ed)].
Definition bf_row_ok (row : Z * Z * Z) : bool :=
  let '(pe, mn, mx) := row in (3 <=? mn) && existsb (fun c => (fst c =? pe) && (mx <=? snd c)) [(24, 8191); (53, 189812531)].
Definition ex_row_ok (row : Z * Z * Z) : bool :=
  let '(pe, mn, mx) := row in (2 <=? mn) && existsb (fun c => (fst c =? pe) && (mx <=? snd c)) [(24, 2097151); (53, 1125899906842623)].
Lemma advertised_bf_ok : forallb bf_row_ok advertised_bf = true. Proof. vm_compute. reflexivity. Qed.
Lemma advertised_ex_ok : forallb ex_row_ok advertised_ex = true. Proof. vm_compute. reflexivity. Qed.

Definition BF_adv_stmt := forall pe mn mx p, In (pe, mn, mx) advertised_bf -> mn <= p <= mx ->
  (forall y, bf_reduce pe p y = bal_rep p y) /\ BF_ops_exact pe p.
Lemma bf_adv : BF_adv_stmt.
Proof.
  intros pe mn mx p HIn Hp. pose proof (proj1 (forallb_forall _ _) advertised_bf_ok _ HIn) as H. unfold bf_row_ok in H.
  rewrite andb_true_iff in H. destruct H as [Hmn Hex]. apply Z.leb_le in Hmn.
  apply existsb_exists in Hex. destruct Hex as [[e m] [Hin Hc]]. cbn [fst snd] in Hc.
  rewrite andb_true_iff, Z.eqb_eq, Z.leb_le in Hc. destruct Hc as [-> Hm].
  apply (bf_exact pe m p); [ | lia ]. cbn [In] in Hin. unfold bf_cfg. intuition.
Qed.

Definition EX_adv_stmt := forall pe mn mx p, In (pe, mn, mx) advertised_ex -> mn <= p <= mx -> forall a b, canon p a -> canon p b ->
  ex_add pe p a b = (a + b) mod p /\ ex_sub pe p a b = (a - b) mod p /\ ex_neg pe p a = (- a) mod p.
Lemma ex_adv : EX_adv_stmt.
Proof.
  intros pe mn mx p HIn Hp. pose proof (proj1 (forallb_forall _ _) advertised_ex_ok _ HIn) as H. unfold ex_row_ok in H.
  rewrite andb_true_iff in H. destruct H as [Hmn Hex]. apply Z.leb_le in Hmn.
  apply existsb_exists in Hex. destruct Hex as [[e m] [Hin Hc]]. cbn [fst snd] in Hc.
  rewrite andb_true_iff, Z.eqb_eq, Z.leb_le in Hc. destruct Hc as [-> Hm].
  apply (ex_lin_exact pe m p); [ | lia ]. cbn [In] in Hin. unfold ex_cfg. intuition.
Qed.
