(* C03 — phase 3: the multiplicative operations of ModularExtended<float|double> (FMA branch) and of ModularBalanced<int32_t|int64_t>
   at the advertised bounds (Params.v: minCardinality()/maxCardinality() as printed by the implementation on this run), and the
   source constants the Dekker branch depends on. *)
From Coq Require Import ZArith Bool Lia List.
From C03 Require Import Model ModelF ModelDK Params ProofsBase ProofsInt ProofsFM ProofsBI ProofsBF ProofsEX ProofsRnd ProofsEXM ProofsBIQ ProofsTop.
Import ListNotations.
Local Open Scope Z_scope.

Lemma advertised_ex_cfg pe mn mx p : In (pe, mn, mx) advertised_ex -> mn <= p <= mx -> exists m, ex_cfg pe m /\ 2 <= p <= m.
Proof.
  intros HIn Hp. pose proof (proj1 (forallb_forall _ _) advertised_ex_ok _ HIn) as H. unfold ex_row_ok in H.
  rewrite andb_true_iff in H. destruct H as [Hmn Hex]. apply Z.leb_le in Hmn.
  apply existsb_exists in Hex. destruct Hex as [[e m] [Hin Hc]]. cbn [fst snd] in Hc.
  rewrite andb_true_iff, Z.eqb_eq, Z.leb_le in Hc. destruct Hc as [-> Hm].
  exists m. split; [ | lia ]. cbn [In] in Hin. unfold ex_cfg. intuition.
Qed.

(* ModularExtended, `#ifdef FP_FAST_FMA[F]` branch: mul, axpy, axmy, maxpy for canonical operands; reduce of any integer-valued
   element up to 2^(pe-1) in magnitude (2^pe when p >= 3) *)
Definition EX_mul_adv_stmt := forall pe mn mx p, In (pe, mn, mx) advertised_ex -> mn <= p <= mx ->
  (forall a b c, canon p a -> canon p b -> canon p c ->
     ex_mul pe p a b = (a * b) mod p /\ ex_axpy pe p a b c = (a * b + c) mod p /\
     ex_axmy pe p a b c = (a * b - c) mod p /\ ex_maxpy pe p a b c = (c - a * b) mod p) /\
  (forall y, (Z.abs y <= 2 ^ (pe - 1) \/ (3 <= p /\ Z.abs y <= 2 ^ pe)) -> ex_reduce pe p y = y mod p).
Lemma ex_mul_adv : EX_mul_adv_stmt.
Proof.
  intros pe mn mx p HIn Hp. destruct (advertised_ex_cfg pe mn mx p HIn Hp) as [m [Hc Hm]]. split.
  - intros a b c Ha Hb Hc'. split; [ exact (ex_mul_exact pe m p Hc Hm a b Ha Hb) | exact (ex_axpy_exact pe m p Hc Hm a b c Ha Hb Hc') ].
  - intros y Hy. exact (ex_reduce_exact pe m p Hc Hm y Hy).
Qed.

(* the Veltkamp constants of ModularExtended::split as read from modular-extended.h on this run (Params.v) are the ones of the
   model (ModelDK.dk_splitc) and of the Dekker-branch theorems *)
Lemma split_constants_ok : dk_splitc 53 = 2 ^ split_shift_double + 1 /\ dk_splitc 24 = 2 ^ split_shift_float + 1.
Proof. vm_compute. split; reflexivity. Qed.
