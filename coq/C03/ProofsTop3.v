(* C03 — phase 3: ModularExtended<float|double>::mul for WHATEVER branch the preprocessor selects (FMA, Veltkamp/Dekker, fallback),
   at the advertised bounds (Params.v: minCardinality()/maxCardinality() printed by the implementation on this run). *)
From Coq Require Import ZArith Bool Lia List.
From C03 Require Import Model ModelF ModelDK Params ProofsBase ProofsInt ProofsFM ProofsEX ProofsEXM ProofsDK ProofsFB ProofsTop ProofsTop2.
Import ListNotations.
Local Open Scope Z_scope.

(* the Dekker branch at the advertised bounds *)
Definition DK_mul_adv_stmt := forall pe mn mx p, In (pe, mn, mx) advertised_ex -> mn <= p <= mx ->
  (forall a b c, canon p a -> canon p b -> canon p c ->
     dk_mul pe p a b = (a * b) mod p /\ dk_axpy pe p a b c = (a * b + c) mod p /\
     dk_axmy pe p a b c = (a * b - c) mod p /\ dk_maxpy pe p a b c = (c - a * b) mod p) /\
  (forall y, 0 <= y < 2 ^ pe -> y <= (2 ^ (pe - 3) - 1) * p -> dk_reduce pe p y = y mod p).
Lemma dk_mul_adv : DK_mul_adv_stmt.
Proof.
  intros pe mn mx p HIn Hp. destruct (advertised_ex_cfg pe mn mx p HIn Hp) as [m [Hc Hm]]. split.
  - intros a b c Ha Hb Hc'. split; [ exact (dk_mul_exact pe m p Hc Hm a b Ha Hb) | exact (dk_axpy_exact pe m p Hc Hm a b c Ha Hb Hc') ].
  - intros y Hy Hy'. exact (dk_reduce_exact pe m p Hc Hm y Hy Hy').
Qed.

(* the fallback branch at the advertised bounds *)
Definition FB_mul_adv_stmt := forall pe mn mx p, In (pe, mn, mx) advertised_ex -> mn <= p <= mx ->
  (forall a b, canon p a -> canon p b -> fb_mul pe p a b = (a * b) mod p) /\
  (forall y, Z.abs y <= 2 ^ pe -> fb_reduce pe p y = y mod p).
Lemma fb_mul_adv : FB_mul_adv_stmt.
Proof.
  intros pe mn mx p HIn Hp. destruct (advertised_ex_cfg pe mn mx p HIn Hp) as [m [Hc Hm]]. split.
  - intros a b Ha Hb. exact (fb_mul_exact pe m p Hc Hm a b Ha Hb).
  - intros y Hy. exact (fb_reduce_exact pe m p Hc Hm y Hy).
Qed.

(* whatever branch index the compiled implementation reports (0 FMA, 1 Dekker, anything else fallback): the dispatcher the
   correspondence run drives (ModelDK.xb_mul ...) returns the exact residue *)
Definition XB_mul_adv_stmt := forall mb pe mn mx p, In (pe, mn, mx) advertised_ex -> mn <= p <= mx ->
  forall a b c, canon p a -> canon p b -> canon p c ->
  xb_mul mb pe p a b = (a * b) mod p /\ xb_axpy mb pe p a b c = (a * b + c) mod p /\
  xb_axmy mb pe p a b c = (a * b - c) mod p /\ xb_maxpy mb pe p a b c = (c - a * b) mod p.
Lemma xb_mul_adv : XB_mul_adv_stmt.
Proof.
  intros mb pe mn mx p HIn Hp a b c Ha Hb Hc'. destruct (advertised_ex_cfg pe mn mx p HIn Hp) as [m [Hc Hm]].
  assert (Hp0 : 0 < p) by lia.
  assert (E : xb_mul mb pe p a b = (a * b) mod p).
  { unfold xb_mul. destruct (mb =? 0); [ exact (ex_mul_exact pe m p Hc Hm a b Ha Hb) | ].
    destruct (mb =? 1); [ exact (dk_mul_exact pe m p Hc Hm a b Ha Hb) | exact (fb_mul_exact pe m p Hc Hm a b Ha Hb) ]. }
  assert (Hmc : canon p ((a * b) mod p)) by (apply Z.mod_pos_bound; lia).
  unfold xb_axpy, xb_axmy, xb_maxpy. rewrite E.
  destruct (ex_lin_exact pe m p Hc Hm ((a * b) mod p) c Hmc Hc') as (E1 & E2 & _).
  destruct (ex_lin_exact pe m p Hc Hm c ((a * b) mod p) Hc' Hmc) as (_ & E3 & _).
  rewrite E1, E2, E3. repeat split.
  - rewrite Zplus_mod_idemp_l. reflexivity.
  - rewrite Zminus_mod_idemp_l. reflexivity.
  - rewrite Zminus_mod_idemp_r. reflexivity.
Qed.
