(* C03 property theorems.  Nothing but statements closed by `exact`, each followed by Print Assumptions.
   advertised_int / advertised_ru / advertised_fm (Params.v, ProofsTop.v) hold minCardinality()/maxCardinality() exactly as
   the implementation compiled from the current tree printed them on this run; canon p a := 0 <= a < p.
   The modelled operations (Model.v, ModelF.v) contain every conversion / wrap modulo 2^w of the C and RecInt types and
   every IEEE rounding explicitly, so "= exact residue" states that no overflow, wrap or rounding is observable. *)
From Coq Require Import ZArith List.
From C03 Require Import Model ModelF ModelDK ModelIn Params ProofsInt ProofsEuclid ProofsIntInv ProofsRU ProofsFM ProofsBI ProofsBarrett ProofsBarrettM ProofsPrecomp ProofsMisc ProofsBF ProofsEX ProofsBN ProofsRnd ProofsEXM ProofsBIQ ProofsDKR ProofsDKQ ProofsDKS ProofsDK ProofsFB ProofsFInv ProofsBIInv ProofsGE ProofsPrecompB ProofsPrecompBS ProofsPrecompBU ProofsFused ProofsBIRest ProofsTop ProofsTop2 ProofsTop3 ProofsIn ProofsInB.
Local Open Scope Z_scope.

(* integral Modular<S,C>: every instantiated (Storage_t, Compute_t) pair, every p in [minCardinality, maxCardinality] *)
Theorem C03_integral_add_addin_exact : Int_add_stmt.        Proof. exact int_add. Qed.
Print Assumptions C03_integral_add_addin_exact.
Theorem C03_integral_sub_neg_exact : Int_sub_neg_stmt.      Proof. exact int_sub_neg. Qed.
Print Assumptions C03_integral_sub_neg_exact.
Theorem C03_integral_mul_exact : Int_mul_stmt.              Proof. exact int_mul. Qed.
Print Assumptions C03_integral_mul_exact.
Theorem C03_integral_axpy_axmy_maxpy_maxpyin_exact : Int_axpy_stmt.  Proof. exact int_axpy. Qed.
Print Assumptions C03_integral_axpy_axmy_maxpy_maxpyin_exact.
Theorem C03_integral_reduce_exact : Int_reduce_stmt.        Proof. exact int_reduce. Qed.
Print Assumptions C03_integral_reduce_exact.
Theorem C03_integral_inv_exact : Int_inv_stmt.              Proof. exact int_inv. Qed.
Print Assumptions C03_integral_inv_exact.
Theorem C03_integral_div_divin_exact : Int_div_stmt.        Proof. exact int_div. Qed.
Print Assumptions C03_integral_div_divin_exact.
Theorem C03_integral_isUnit_iff_gcd_one : Int_isUnit_stmt.  Proof. exact int_isUnit. Qed.
Print Assumptions C03_integral_isUnit_iff_gcd_one.
Theorem C03_integral_hypotheses_satisfiable :
  exists sb sg cb mn mx, In (sb, sg, cb, mn, mx) advertised_int /\ mn <= mx /\ canon mx (mx - 1).
Proof. exact int_hyps_sat. Qed.
Print Assumptions C03_integral_hypotheses_satisfiable.
(* extended_euclid<T> for any integer type T representing [0,b]: no intermediate leaves [0,b]; x*a = gcd (mod b) *)
Theorem C03_extended_euclid_exact : forall T a b, 0 <= a < b ->
  (forall z, 0 <= z <= b -> cast T z = z /\ ar T z = z) ->
  (forall fuel x g, extended_euclid T fuel a b = Some (x, g) -> EE_post a b x g) /\
  (exists fuel, extended_euclid T fuel a b <> None).
Proof. exact (fun T a b H F => conj (extended_euclid_ok T a b H F) (extended_euclid_terminates T a b H F)). Qed.
Print Assumptions C03_extended_euclid_exact.
(* Modular<ruint<K>,ruint<K'>>: proved for every width; instantiated at the advertised bounds *)
Theorem C03_recint_ring_exact_all_widths : forall w dbl p, RU_stmt w dbl p.   Proof. exact ru_exact. Qed.
Print Assumptions C03_recint_ring_exact_all_widths.
Theorem C03_recint_ring_exact_advertised : RU_adv_stmt.     Proof. exact ru_adv. Qed.
Print Assumptions C03_recint_ring_exact_advertised.
(* Modular<float>, Modular<float,double>, Modular<double>: no rounding observable up to maxCardinality *)
Theorem C03_floating_ring_exact_advertised : FM_adv_stmt.   Proof. exact fm_adv. Qed.
Print Assumptions C03_floating_ring_exact_advertised.
(* ModularBalanced<int32_t|int64_t>, PARTIAL: the integer tail (wrapping a*b - q*_p, NORMALISE) is exact whenever the double
   quotient estimate meets q_tolerance; that the estimate always does for p <= maxCardinality is not proved (correspondence-tested).
   Full statements = the same without the q_tolerance hypothesis. *)
Theorem C03_balanced_int_mul_partial : forall w p, BI_mul_partial_stmt w p.     Proof. exact bi_mul_partial. Qed.
Print Assumptions C03_balanced_int_mul_partial.
Theorem C03_balanced_int_axpy_partial : forall w p, BI_axpy_partial_stmt w p.   Proof. exact bi_axpy_partial. Qed.
Print Assumptions C03_balanced_int_axpy_partial.
Theorem C03_balanced_int_axmy_partial : forall w p, BI_axmy_partial_stmt w p.   Proof. exact bi_axmy_partial. Qed.
Print Assumptions C03_balanced_int_axmy_partial.
Theorem C03_balanced_int_tolerance_satisfiable :
  BI_pre 64 7 /\ q_tolerance 7 (3 * 3) (bi_quot 64 7 (rn 53 (rn 53 3 * rn 53 3))).
Proof. exact bi_tolerance_sat. Qed.
Print Assumptions C03_balanced_int_tolerance_satisfiable.
(* mul_precomp_p (modular-mulprecomp.inl), every (Storage_t, Compute_t) width pair: with bs = bitsize(p) <= 4*sizeof(Compute_t) - 2 (the
   asserted precondition) and invp = floor(2^(4*sizeof(Compute_t) + bs - 1) / p) (what precomp_p documents), the Barrett quotient estimate is the
   true quotient or one less, so the single conditional subtraction yields the exact residue; Mulpp_stmt is stated in ProofsBarrettM.v.
   (That precomp_p itself returns these two values is correspondence-tested, not proved.) *)
Theorem C03_barrett_quotient_within_one : forall x p A E N, 0 < A -> 0 < E -> N = A * E -> 2 * A <= p -> 0 <= x -> 2 * x <= N ->
  x / p - 1 <= ((x / A) * (N / p)) / E <= x / p.
Proof. exact barrett_bound. Qed.
Print Assumptions C03_barrett_quotient_within_one.
Theorem C03_mul_precomp_p_exact : forall sb sg cb p, Mulpp_stmt sb sg cb p.   Proof. exact mulpp_exact. Qed.
Print Assumptions C03_mul_precomp_p_exact.
(* the complete Barrett chain: precomp_p (bitsize loop, inverse) followed by mul_precomp_p, every width pair, every modulus inside
   the asserted precondition 2 <= p < 2^(4*sizeof(Compute_t) - 2), canonical operands *)
Theorem C03_precomp_p_then_mul_precomp_p_exact : forall sb sg cb p, Mulpp_chain_stmt sb sg cb p.   Proof. exact mulpp_chain_exact. Qed.
Print Assumptions C03_precomp_p_then_mul_precomp_p_exact.
(* Modular<Integer>: add, sub, neg, axmyin, reduce (incl. negative values): the code's case splits over exact Integer operations give the
   canonical residue, for every modulus >= 2.  The conjuncts for mul, axpy, axmy, maxpy are DEFINITIONAL (the model of Integer::modin IS
   `mod p`: GMP's division is property C01's, not modelled here) and carry no information; likewise ru_reduce and the `mod p` inside
   ru_mul / ru_axpy of the RecInt rings (RecInt::mod_n is C06's): only the wrap of the product modulo 2^w resp. 2^(2w) is C03's. *)
Theorem C03_integer_ring_exact : forall p, ZZ_stmt p.             Proof. exact zz_exact. Qed.
Print Assumptions C03_integer_ring_exact.
Theorem C03_recint_isUnit_iff_gcd_one : RU_isUnit_adv_stmt.        Proof. exact ru_isUnit_adv. Qed.
Print Assumptions C03_recint_isUnit_iff_gcd_one.
(* ModularBalanced<float|double>: constants _halfp/_mhalfp exact; reduce (any integer value), add, sub, mul, axpy, axpyin, axmy, maxpy return
   the canonical balanced representative bal_rep p x, for every p in [minCardinality, maxCardinality] as advertised *)
Theorem C03_balanced_floating_ring_exact_advertised : BF_adv_stmt.   Proof. exact bf_adv. Qed.
Print Assumptions C03_balanced_floating_ring_exact_advertised.
(* neg of the balanced rings.  As repaired by frag/C03.fix-1 (/repo edb1d16: r = -a; if (r < _mhalfp) r += _p): the canonical
   balanced representative of -a for EVERY canonical a and every p up to 2^(w-3) resp. maxCardinality, even moduli included. *)
Theorem C03_balanced_floating_neg_exact : forall pe mx p, BF_negn_stmt pe mx p.   Proof. exact bf_negn_exact. Qed.
Print Assumptions C03_balanced_floating_neg_exact.
Theorem C03_balanced_int_neg_exact : forall w p, BI_negn_stmt w p.   Proof. exact bi_negn_exact. Qed.
Print Assumptions C03_balanced_int_neg_exact.
Theorem C03_balanced_neg_hypotheses_satisfiable : bf_negn 53 4 2 = 2 /\ bi_negn 32 4 2 = 2 /\ bal_rep 4 (- 2) = 2.
Proof. exact bf_negn_even. Qed.
Print Assumptions C03_balanced_neg_hypotheses_satisfiable.
(* HISTORY (a body that no longer exists in /repo): the unrepaired r = -a (bf_neg / bi_neg of ModelF.v, the code before edb1d16) is
   exact unless p is even and a = p/2, and that case is refuted -- i.e. the normalisation the repair added is necessary.  The models
   that are extracted and run (driver.ml) are bf_negn / bi_negn / bi_maxpyn. *)
Theorem C03_balanced_neg_partial : forall p a, 3 <= p -> bal_canon p a -> (p mod 2 = 1 \/ a <> p / 2) -> bf_neg a = bal_rep p (- a).
Proof. exact bf_neg_exact_partial. Qed.
Print Assumptions C03_balanced_neg_partial.
Theorem C03_balanced_neg_refuted : exists p a, 3 <= p /\ bal_canon p a /\ ~ bal_canon p (bf_neg a).
Proof. exact bf_neg_refuted. Qed.
Print Assumptions C03_balanced_neg_refuted.
(* ModularExtended<float|double>: additive operations exact (mul/reduce: correspondence-tested) *)
Theorem C03_extended_ring_add_sub_neg_exact_advertised : EX_adv_stmt.   Proof. exact ex_adv. Qed.
Print Assumptions C03_extended_ring_add_sub_neg_exact_advertised.

