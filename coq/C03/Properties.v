From Coq Require Import ZArith.
From C03 Require Import Model Params.
Local Open Scope Z_scope.
Theorem C03_placeholder : cast (mk_ity 8 false) 3 = 3. Proof. reflexivity. Qed.
Print Assumptions C03_placeholder.
