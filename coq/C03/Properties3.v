(* C03 property theorems, part 2 (phase 3 and round 4): rounding layer, ModularExtended mul in all three preprocessor branches,
   balanced-int full statements, floating Euclid, Shoup multiplication, the `>=` witnesses.  Same conventions as Properties.v.
   (Split from Properties.v so that checks/C03.py can re-check the three files concurrently.) *)
From Coq Require Import ZArith List.
From C03 Require Import Model ModelF ModelDK ModelIn Params ProofsInt ProofsEuclid ProofsIntInv ProofsRU ProofsFM ProofsBI ProofsBarrett ProofsBarrettM ProofsPrecomp ProofsMisc ProofsBF ProofsEX ProofsBN ProofsRnd ProofsEXM ProofsBIQ ProofsDKR ProofsDKQ ProofsDKS ProofsDK ProofsFB ProofsFInv ProofsBIInv ProofsGE ProofsPrecompB ProofsPrecompBS ProofsPrecompBU ProofsFused ProofsBIRest ProofsTop ProofsTop2 ProofsTop3 ProofsIn ProofsInB.
Local Open Scope Z_scope.
(* ---------------------------------------------------------------- phase 3 *)
(* the rounding layer itself: the model's round-to-nearest-even has relative error 2^-prec, is monotone, and leaves every
   multiple of 2^k with at most prec significant bits unchanged; the correctly rounded quotient div_dy has the same error *)
Theorem C03_rounding_relative_error : forall prec z, 0 < prec -> 2 ^ prec * Z.abs (rn prec z - z) <= Z.abs z.
Proof. exact ProofsRnd.rn_err. Qed.
Print Assumptions C03_rounding_relative_error.
Theorem C03_rounding_exact_on_representable : forall prec k z, 0 < prec -> 0 <= k -> (2 ^ k | z) -> Z.abs z <= 2 ^ (k + prec) -> rn prec z = z.
Proof. exact ProofsRnd.rn_exact_mult. Qed.
Print Assumptions C03_rounding_exact_on_representable.
(* ModularExtended<float|double>, the `#ifdef FP_FAST_FMA[F]` branch (abh = a*b; abl = fma(a,b,-abh); q = floor(abh*_invp);
   pql = fma(-q,_p,abh); r = abl + pql; ONE of r >= p -> r - p, r < 0 -> r + p): for every advertised p and canonical operands the
   result is (a*b) mod p; the quotient estimate is off by at most one in either direction ... *)
Theorem C03_extended_mul_fma_exact_advertised : EX_mul_adv_stmt.   Proof. exact ex_mul_adv. Qed.
Print Assumptions C03_extended_mul_fma_exact_advertised.
(* ... and both correction steps are necessary: canonical operands with a negative raw result, and with a raw result >= p *)
Theorem C03_extended_mul_fma_needs_negative_correction : exists p a b,
  2 <= p <= 1125899906842623 /\ canon p a /\ canon p b /\ ex_mul_raw 53 p a b < 0.
Proof. exact EX_mul_needs_neg_fix. Qed.
Print Assumptions C03_extended_mul_fma_needs_negative_correction.
Theorem C03_extended_mul_fma_needs_high_correction : exists p a b,
  2 <= p <= 1125899906842623 /\ canon p a /\ canon p b /\ p <= ex_mul_raw 53 p a b.
Proof. exact EX_mul_needs_hi_fix. Qed.
Print Assumptions C03_extended_mul_fma_needs_high_correction.
Theorem C03_extended_mul_hypotheses_satisfiable : ex_cfg 53 1125899906842623 /\ 2 <= 1125899906842623 <= 1125899906842623 /\
  canon 1125899906842623 1125899906842622 /\ ex_mul 53 1125899906842623 1125899906842622 1125899906842622 = 1.
Proof. exact ex_mul_hyps_sat. Qed.
Print Assumptions C03_extended_mul_hypotheses_satisfiable.
(* ModularBalanced<int32_t|int64_t>: the FULL statements (no tolerance hypothesis any more): the double quotient estimate
   q = (Element)(double(a)*double(b)*_dinvp) (each operation rounded to 53 bits, truncation toward zero) meets q_tolerance for every
   advertised p and balanced-canonical operands, hence mul / axpy / axmy return the canonical balanced representative *)
Theorem C03_balanced_int_quotient_estimate_within_tolerance : forall w p, BI_tolerance_stmt w p.   Proof. exact bi_tolerance. Qed.
Print Assumptions C03_balanced_int_quotient_estimate_within_tolerance.
Theorem C03_balanced_int_mul_axpy_axmy_exact_advertised : BI_adv_stmt.   Proof. exact bi_adv. Qed.
Print Assumptions C03_balanced_int_mul_axpy_axmy_exact_advertised.
Theorem C03_balanced_int_hypotheses_satisfiable : BI_env 64 6074000999 /\ bal_canon 6074000999 3037000499 /\ bal_canon 6074000999 (- 3037000499).
Proof. exact bi_full_hyps_sat. Qed.
Print Assumptions C03_balanced_int_hypotheses_satisfiable.
(* the Veltkamp constants (1 << 27)+1 / (1 << 13)+1 read from modular-extended.h on this run are those of the Dekker-branch model *)
Theorem C03_extended_split_constants_as_in_source : dk_splitc 53 = 2 ^ split_shift_double + 1 /\ dk_splitc 24 = 2 ^ split_shift_float + 1.
Proof. exact split_constants_ok. Qed.
Print Assumptions C03_extended_split_constants_as_in_source.

(* ModularExtended<float|double>, the `#elif defined __SSE_MATH__` branch (no FMA: plain g++ -O2, -mno-fma): Veltkamp split
   (c = rn(C*x), C = 2^27+1 resp. 2^13+1; xh = rn(c - rn(c - x)); xl = rn(x - xh)) and Dekker's product with each of its nine
   roundings explicit are ERROR-FREE on the operands that occur (|x| < 2^(pe-3)): s = rn(a*b), s + t = a*b exactly ... *)
Theorem C03_extended_dekker_product_error_free : forall pe s a b, dk_cfg pe s -> Z.abs a < 2 ^ (pe - 3) -> Z.abs b < 2 ^ (pe - 3) ->
  fst (dk_mult pe a b) = rn pe (a * b) /\ fst (dk_mult pe a b) + snd (dk_mult pe a b) = a * b.
Proof. exact dk_mult_exact. Qed.
Print Assumptions C03_extended_dekker_product_error_free.
(* ... hence mult_dekker(a,b); q = floor(abh*_invp); mult_dekker(-q,_p); r = (abh+pqh)+(abl+pql); ONE of r >= p -> r-p, r < 0 -> r+p
   returns (a*b) mod p for every advertised p and canonical operands (also axpy/axmy/maxpy; reduce of 0 <= y < 2^pe, y/p < 2^(pe-3)) *)
Theorem C03_extended_mul_dekker_exact_advertised : DK_mul_adv_stmt.   Proof. exact dk_mul_adv. Qed.
Print Assumptions C03_extended_mul_dekker_exact_advertised.
(* both correction steps are necessary in this branch too; the first witness is the failing input of the seeded change C03-m6
   (dropped `else if (r < 0) r += _p`): p = 2^50-27, mul(617310115345394, 590673388087151) would return -10557406229982 *)
Theorem C03_extended_mul_dekker_needs_negative_correction : exists p a b, 2 <= p <= 1125899906842623 /\ canon p a /\ canon p b /\
  dk_mul_no_neg_fix 53 p a b <> (a * b) mod p.
Proof. exact dk_mul_needs_neg_fix. Qed.
Print Assumptions C03_extended_mul_dekker_needs_negative_correction.
Theorem C03_extended_mul_dekker_needs_high_correction : exists p a b, 2 <= p <= 1125899906842623 /\ canon p a /\ canon p b /\
  dk_mul_no_hi_fix 53 p a b <> (a * b) mod p.
Proof. exact dk_mul_needs_hi_fix. Qed.
Print Assumptions C03_extended_mul_dekker_needs_high_correction.
Theorem C03_extended_mul_dekker_refuted_value : dk_mul_raw 53 1125899906842597 617310115345394 590673388087151 = - 10557406229982.
Proof. exact dk_mul_raw_negative. Qed.
Print Assumptions C03_extended_mul_dekker_refuted_value.
(* the `#else` fallback branch (fmod of the double product / RecInt lmul + mod_n) *)
Theorem C03_extended_mul_fallback_exact_advertised : FB_mul_adv_stmt.   Proof. exact fb_mul_adv. Qed.
Print Assumptions C03_extended_mul_fallback_exact_advertised.
(* whichever branch index the compiled implementation reports, the model the correspondence run drives is exact *)
Theorem C03_extended_mul_every_preprocessor_branch_exact_advertised : XB_mul_adv_stmt.   Proof. exact xb_mul_adv. Qed.
Print Assumptions C03_extended_mul_every_preprocessor_branch_exact_advertised.

(* inv / div / isUnit of the floating rings: extended_euclid<floating Storage_t> (modular-general.inl) with q = floor(u3 / v3)
   computed from the ROUNDED quotient.  The floor of the correctly rounded quotient of two integers of magnitude <= 2^prec is the
   exact floor ... *)
Theorem C03_floating_quotient_floor_exact : fquot_exact_stmt.   Proof. exact fquot_exact. Qed.
Print Assumptions C03_floating_quotient_floor_exact.
(* ... so the loop is the exact signed extended Euclid (every one of its four roundings per step is the identity): d = gcd(a,b),
   |x| <= b, x*a = d (mod b); it terminates *)
Theorem C03_floating_extended_euclid_exact : feuclid_exact_stmt.   Proof. exact feuclid_exact. Qed.
Print Assumptions C03_floating_extended_euclid_exact.
(* Modular<float>, Modular<float,double>, Modular<double>; ModularExtended<float|double> (div through the FMA-branch mul);
   ModularBalanced<float|double> (operands may be negative): for every p up to maxCardinality and every unit divisor the inverse /
   quotient is the canonical exact one, and isUnit(a) <-> gcd(a,p) = 1 for every canonical a *)
Theorem C03_floating_inv_exact : FM_inv_stmt.           Proof. exact fm_inv_exact. Qed.
Print Assumptions C03_floating_inv_exact.
Theorem C03_floating_div_divin_exact : FM_div_stmt.     Proof. exact fm_div_exact. Qed.
Print Assumptions C03_floating_div_divin_exact.
Theorem C03_floating_isUnit_iff_gcd_one : FM_isUnit_stmt.   Proof. exact fm_isUnit_exact. Qed.
Print Assumptions C03_floating_isUnit_iff_gcd_one.
Theorem C03_extended_inv_exact : EX_inv_stmt.           Proof. exact ex_inv_exact. Qed.
Print Assumptions C03_extended_inv_exact.
Theorem C03_extended_div_divin_exact : EX_div_stmt.     Proof. exact ex_div_exact. Qed.
Print Assumptions C03_extended_div_divin_exact.
Theorem C03_extended_isUnit_iff_gcd_one : EX_isUnit_stmt.   Proof. exact ex_isUnit_exact. Qed.
Print Assumptions C03_extended_isUnit_iff_gcd_one.
Theorem C03_balanced_floating_inv_exact : BF_inv_stmt.  Proof. exact bf_inv_exact. Qed.
Print Assumptions C03_balanced_floating_inv_exact.
Theorem C03_balanced_floating_div_exact : BF_div_stmt.  Proof. exact bf_div_exact. Qed.
Print Assumptions C03_balanced_floating_div_exact.
Theorem C03_balanced_floating_isUnit_iff_gcd_one : BF_isUnit_stmt.   Proof. exact bf_isUnit_exact. Qed.
Print Assumptions C03_balanced_floating_isUnit_iff_gcd_one.

(* ModularBalanced<int32_t|int64_t>::inv (invext on (a < 0) ? a + _p : a, then NORMALISE) and ::div (mul by the inverse), through the
   generic extended_euclid theorem and the full mul theorem: every p in the proved envelope BI_env (contains the advertised range) *)
Theorem C03_balanced_int_inv_exact : forall w p, BI_inv_stmt w p.   Proof. exact bi_inv_exact. Qed.
Print Assumptions C03_balanced_int_inv_exact.
Theorem C03_balanced_int_div_exact : forall w p, BI_div_stmt w p.   Proof. exact bi_div_exact. Qed.
Print Assumptions C03_balanced_int_div_exact.
Theorem C03_balanced_int_inv_hypotheses_satisfiable :
  BI_env 64 6074000999 /\ bal_canon 6074000999 (- 3037000499) /\ Z.gcd (- 3037000499) 6074000999 = 1.
Proof. exact bi_inv_hyps_sat. Qed.
Print Assumptions C03_balanced_int_inv_hypotheses_satisfiable.
(* precomp_b(invb, b) followed by mul_precomp_b (Shoup's multiplication by a precomputed operand): with invb = floor(2^(4s) b / p) and
   q = floor(a * invb / 2^(4s)) the quotient is the true one or one less (pure arithmetic) ... *)
Theorem C03_shoup_quotient_within_one : forall a b p N, 0 < p -> 0 < N -> 0 <= a <= N -> 0 <= b ->
  (a * b) / p - 1 <= (a * ((N * b) / p)) / N <= (a * b) / p.
Proof. exact shoup_bound. Qed.
Print Assumptions C03_shoup_quotient_within_one.
(* ... and the modelled code with all conversions (the Residu_t product and q*_p really wrap for the 32/64 and 64/128 pairs) returns
   (a*b) mod p for all 16 (width, signedness, compute width) cases inside the asserted precondition bitsize(p) <= 4*sizeof(Compute_t) - 1 *)
Theorem C03_mul_precomp_b_exact : forall sb sg cb p, Mulpb_stmt sb sg cb p.   Proof. exact mulpb_exact. Qed.
Print Assumptions C03_mul_precomp_b_exact.

(* the UPPER comparison of the last correction of ModularExtended::reduce and ::mul must be `>=`: the value it receives is EXACTLY p
   when the argument / product is an exact non-zero multiple of p and the cached reciprocal fl(1/p) is rounded downwards (seeded
   change C03-m8 replaced it by `>`): witnesses p = 49 (double), 41 / 55 (float), FMA and Dekker branch, raw value = p, `>` variant wrong *)
Theorem C03_extended_reduce_fma_upper_comparison_must_be_ge :
  GE_needed_reduce 53 1125899906842623 ex_reduce_raw ex_reduce_gt /\ GE_needed_reduce 24 2097151 ex_reduce_raw ex_reduce_gt.
Proof. exact (conj ge_needed_reduce_fma_double ge_needed_reduce_fma_float). Qed.
Print Assumptions C03_extended_reduce_fma_upper_comparison_must_be_ge.
Theorem C03_extended_reduce_dekker_upper_comparison_must_be_ge :
  GE_needed_reduce 53 1125899906842623 dk_reduce_raw dk_reduce_gt /\ GE_needed_reduce 24 2097151 dk_reduce_raw dk_reduce_gt.
Proof. exact (conj ge_needed_reduce_dekker_double ge_needed_reduce_dekker_float). Qed.
Print Assumptions C03_extended_reduce_dekker_upper_comparison_must_be_ge.
Theorem C03_extended_mul_upper_comparison_must_be_ge :
  GE_needed_mul 53 1125899906842623 ex_mul_raw ex_mul_gt /\ GE_needed_mul 24 2097151 ex_mul_raw ex_mul_gt /\
  GE_needed_mul 53 1125899906842623 dk_mul_raw dk_mul_gt /\ GE_needed_mul 24 2097151 dk_mul_raw dk_mul_gt.
Proof. exact (conj ge_needed_mul_fma_double (conj ge_needed_mul_fma_float (conj ge_needed_mul_dekker_double ge_needed_mul_dekker_float))). Qed.
Print Assumptions C03_extended_mul_upper_comparison_must_be_ge.
(* in the fallback branch (fmod) the remainder is strictly inside (-p, p): `>=` and `>` agree there, the comparison is not critical *)
Theorem C03_extended_reduce_fallback_comparison_not_critical : forall pe mx p, FB_gt_same_stmt pe mx p.
Proof. exact fb_gt_same. Qed.
Print Assumptions C03_extended_reduce_fallback_comparison_not_critical.

