(* C03 property theorems, part 3 (phase 4, audit response): FP contraction, the rest of the balanced integer rings, the in-place call
   forms and the constants.  Same conventions as Properties.v. *)
From Coq Require Import ZArith List.
From C03 Require Import Model ModelF ModelDK ModelIn Params ProofsInt ProofsEuclid ProofsIntInv ProofsRU ProofsFM ProofsBI ProofsBarrett ProofsBarrettM ProofsPrecomp ProofsMisc ProofsBF ProofsEX ProofsBN ProofsRnd ProofsEXM ProofsBIQ ProofsDKR ProofsDKQ ProofsDKS ProofsDK ProofsFB ProofsFInv ProofsBIInv ProofsGE ProofsPrecompB ProofsPrecompBS ProofsPrecompBU ProofsFused ProofsBIRest ProofsTop ProofsTop2 ProofsTop3 ProofsIn ProofsInB.
Local Open Scope Z_scope.
(* ---------------------------------------------------------------- phase 4 (audit response) *)
(* FP CONTRACTION.  With the repository's flags (-O2 -march=native, GNU mode => -ffp-contract=fast) g++ fuses `a*x + y` into ONE vfmadd
   (one rounding) in ModularBalanced<int64_t>::axpy/axmy (+ in-place forms), Modular<double>::axpy, ModularBalanced<double>::axpy ...;
   with -ffp-contract=off / without FMA there are TWO roundings.  checks/C03.py records per configuration which it is and drives both.
   The quotient-estimate tolerance holds for ANY double v within relative 2^-51 of the exact a*x+-y (one rounding: 2^-53, two: < 2^-51): *)
Theorem C03_balanced_int_quotient_tolerance_any_evaluation : forall w p, BI_tolerance_gen_stmt w p.   Proof. exact bi_tolerance_gen. Qed.
Print Assumptions C03_balanced_int_quotient_tolerance_any_evaluation.
(* hence the FUSED evaluation (bi_axpy_fused, bi_axmy_fused: q from rn(a*x +- y)) also returns the canonical balanced representative, and
   it returns the SAME element as the unfused model that is extracted and run -- at the advertised bounds *)
Theorem C03_balanced_int_axpy_axmy_fused_exact_advertised : BI_adv_fused_stmt.   Proof. exact bi_adv_fused. Qed.
Print Assumptions C03_balanced_int_axpy_axmy_fused_exact_advertised.
Theorem C03_balanced_int_fused_equals_unfused : forall w p, BI_fused_same_stmt w p.   Proof. exact bi_fused_same. Qed.
Print Assumptions C03_balanced_int_fused_equals_unfused.
(* contraction IS observable in the quotient estimate (q differs by one) although not in the result *)
Theorem C03_balanced_int_contraction_changes_the_quotient_estimate : exists a x y,
  bal_canon 6074000999 a /\ bal_canon 6074000999 x /\ bal_canon 6074000999 y /\
  bi_quot 64 6074000999 (rn 53 (rn 53 a * rn 53 x + rn 53 y)) = 1518323109 /\
  bi_quot 64 6074000999 (rn 53 (rn 53 (rn 53 a * rn 53 x) + rn 53 y)) = 1518323108 /\
  bi_axpy_fused 64 6074000999 a x y = bi_axpy 64 6074000999 a x y.
Proof. exact bi_fused_quotient_differs. Qed.
Print Assumptions C03_balanced_int_contraction_changes_the_quotient_estimate.
(* the floating rings: the fused forms of axpy/axmy/maxpy/maxpyin/axmyin (Modular<float|double[,double]>) and of axpy/axpyin/axmy/maxpy
   (ModularBalanced<float|double>) are exact under the same hypotheses as the unfused ones *)
Theorem C03_floating_ring_fused_exact : forall pe pc mx p, FM_fused_stmt pe pc mx p.   Proof. exact fm_fused_exact. Qed.
Print Assumptions C03_floating_ring_fused_exact.
Theorem C03_balanced_floating_ring_fused_exact : forall pe mx p, BF_fused_stmt pe mx p.   Proof. exact bf_fused_exact. Qed.
Print Assumptions C03_balanced_floating_ring_fused_exact.
(* THE REST OF THE BALANCED INTEGER RINGS and Modular<float|double>::reduce *)
Theorem C03_balanced_int_add_sub_exact : BI_add_sub_stmt.   Proof. exact bi_add_sub_exact. Qed.
Print Assumptions C03_balanced_int_add_sub_exact.
Theorem C03_balanced_int_reduce_exact : BI_reduce_stmt.     Proof. exact bi_reduce_exact. Qed.
Print Assumptions C03_balanced_int_reduce_exact.
Theorem C03_balanced_int_maxpy_exact : BI_maxpyn_stmt.      Proof. exact bi_maxpyn_exact. Qed.
Print Assumptions C03_balanced_int_maxpy_exact.
(* extended_euclid<int32_t|int64_t> on a NEGATIVE first operand (C truncating division): d = gcd or -gcd -- the isMOne(d) disjunct of
   isUnit (dropped by seeded C03-m1) is needed: (p, a) = (7, -1) gives d = -1 *)
Theorem C03_balanced_int_euclid_gcd_up_to_sign : BI_euclid_d_stmt.   Proof. exact bi_euclid_d. Qed.
Print Assumptions C03_balanced_int_euclid_gcd_up_to_sign.
Theorem C03_balanced_int_isUnit_iff_gcd_one : BI_isUnit_stmt.   Proof. exact bi_isUnit_exact. Qed.
Print Assumptions C03_balanced_int_isUnit_iff_gcd_one.
Theorem C03_floating_reduce_exact : FM_reduce_stmt.         Proof. exact fm_reduce_exact. Qed.
Print Assumptions C03_floating_reduce_exact.
(* THE IN-PLACE CALL FORMS (ModelIn.v: each written after its own C++ body, extracted and driven under its own op name) and the
   CONSTANTS zero/one/mOne/minElement()/maxElement() as the constructors compute them *)
Theorem C03_integral_inplace_forms_exact : Int_in_stmt.     Proof. exact int_in. Qed.
Print Assumptions C03_integral_inplace_forms_exact.
Theorem C03_integral_invin_exact : Int_invin_stmt.          Proof. exact int_invin. Qed.
Print Assumptions C03_integral_invin_exact.
Theorem C03_integral_constants_exact : Int_consts_stmt.     Proof. exact int_consts. Qed.
Print Assumptions C03_integral_constants_exact.
Theorem C03_floating_inplace_forms_exact : FM_in_stmt.      Proof. exact fm_in. Qed.
Print Assumptions C03_floating_inplace_forms_exact.
Theorem C03_floating_invin_exact : FM_invin_stmt.           Proof. exact fm_invin_exact. Qed.
Print Assumptions C03_floating_invin_exact.
Theorem C03_floating_constants_exact : FM_consts_stmt.      Proof. exact fm_consts_exact. Qed.
Print Assumptions C03_floating_constants_exact.
Theorem C03_recint_inplace_forms_exact_advertised : RU_in_adv_stmt.   Proof. exact ru_in_adv. Qed.
Print Assumptions C03_recint_inplace_forms_exact_advertised.
Theorem C03_recint_constants_exact : forall w dbl p, RU_consts_stmt w dbl p.   Proof. exact ru_consts_exact. Qed.
Print Assumptions C03_recint_constants_exact.
Theorem C03_integer_inplace_forms_and_constants_exact : forall p, ZZ_in_stmt p.   Proof. exact zz_in. Qed.
Print Assumptions C03_integer_inplace_forms_and_constants_exact.
Theorem C03_balanced_floating_inplace_forms_exact : BF_in_stmt.   Proof. exact bf_in. Qed.
Print Assumptions C03_balanced_floating_inplace_forms_exact.
Theorem C03_balanced_floating_invin_divin_exact : BF_invin_stmt /\ BF_divin_stmt.   Proof. exact (conj bf_invin_exact bf_divin_exact). Qed.
Print Assumptions C03_balanced_floating_invin_divin_exact.
Theorem C03_balanced_floating_constants_exact : BF_consts_stmt.   Proof. exact bf_consts_exact. Qed.
Print Assumptions C03_balanced_floating_constants_exact.
Theorem C03_balanced_int_inplace_forms_exact_advertised : BI_in_adv_stmt.   Proof. exact bi_in_adv. Qed.
Print Assumptions C03_balanced_int_inplace_forms_exact_advertised.
Theorem C03_balanced_int_invin_divin_constants_exact : forall w p, BI_invin_stmt w p /\ BI_divin_stmt w p /\ BI_consts_stmt w p.
Proof. exact (fun w p => conj (bi_invin_exact w p) (conj (bi_divin_exact w p) (bi_consts_exact w p))). Qed.
Print Assumptions C03_balanced_int_invin_divin_constants_exact.
(* ModularExtended: the in-place forms, and div/divin, for EVERY preprocessor branch index *)
Theorem C03_extended_inplace_forms_every_branch_exact : XB_in_stmt.   Proof. exact xb_in. Qed.
Print Assumptions C03_extended_inplace_forms_every_branch_exact.
Theorem C03_extended_div_divin_every_branch_exact : XB_divin_stmt.   Proof. exact xb_divin_exact. Qed.
Print Assumptions C03_extended_div_divin_every_branch_exact.
Theorem C03_extended_invin_constants_exact : XB_invin_stmt /\ XB_consts_stmt.   Proof. exact (conj xb_invin_exact xb_consts_exact). Qed.
Print Assumptions C03_extended_invin_constants_exact.

