(* C03 driver: one case per line.
   int <sbits> <ssigned> <cbits> <p> <op> <args...>   integral Modular<S,C>
   same op names as harness/c03_modular.C; in-place call forms are the same model bodies with the
   destination in the operand position the C++ code reads it from. *)
let zs = z_of_string
let fuel = nat_of_int 400
let so f = function Some x -> f x | None -> "FUEL"
let () = run_lines (fun toks ->
  match toks with
  | "int" :: sb :: sg :: cb :: p :: op :: args ->
    let sb = zs sb and sg = (sg = "1") and cb = zs cb and p = zs p in
    let a = Array.of_list (List.map zs args) in
    let s = string_of_z in
    (match op with
     | "add" -> s (Model.addZ sb sg cb p a.(0) a.(1))
     | "addin" -> s (Model.addinZ sb sg cb p a.(0) a.(1))
     | "sub" | "subin" -> s (Model.subZ sb sg cb p a.(0) a.(1))
     | "mul" | "mulin" -> s (Model.mulZ sb sg cb p a.(0) a.(1))
     | "neg" | "negin" -> s (Model.negZ sb sg cb p a.(0))
     | "inv" | "invin" -> so s (Model.invZ sb sg cb p fuel a.(0))
     | "div" -> so s (Model.divZ sb sg cb p fuel a.(0) a.(1))
     | "divin" -> so s (Model.divinZ sb sg cb p fuel a.(0) a.(1))
     | "axpy" | "axpyin" -> s (Model.axpyZ sb sg cb p a.(0) a.(1) a.(2))
     | "axmy" | "axmyin" -> s (Model.axmyZ sb sg cb p a.(0) a.(1) a.(2))
     | "maxpy" -> s (Model.maxpyZ sb sg cb p a.(0) a.(1) a.(2))
     | "maxpyin" -> s (Model.maxpyinZ sb sg cb p a.(2) a.(0) a.(1))
     | "reduce1" | "reduce2" -> s (Model.reduceZ sb sg cb p a.(0))
     | "isUnit" -> so string_of_bool (Model.isUnitZ sb sg cb p fuel a.(0))
     | "gcdext" -> so (fun ((d, u), v) -> s d ^ " " ^ s u ^ " " ^ s v) (Model.gcdextZ sb sg fuel a.(0) a.(1))
     | "mulpp" -> s (Model.mul_precomp_pZ sb sg cb p a.(0) a.(1))
     | "mulpb" -> s (Model.mul_precomp_bZ sb sg cb p a.(0) a.(1))
     | "consts" -> s (Model.mOneZ sb sg cb p)
     | _ -> "UNKNOWN-OP")
  | _ -> "BAD-LINE")
