(* C03 driver: one case per line.  Same op names as harness/c03_modular.C.  EVERY call form has its own model function, written after
   its own C++ body (ModelIn.v for the in-place forms that used to be mapped onto the three-address model); the destination of an
   in-place form is the model function's first operand.  ModularBalanced::neg is the body of /repo now (repaired, edb1d16). *)
let zs = z_of_string
let fuel = nat_of_int 400
let so f = function Some x -> f x | None -> "FUEL"
let consts5 s p ((((z, o), m), lo), hi) = String.concat " " [s z; s o; s m; s lo; s hi; s p]
let () = run_lines (fun toks ->
  match toks with
  | "int" :: sb :: sg :: cb :: p :: op :: args ->
    let sb = zs sb and sg = (sg = "1") and cb = zs cb and p = zs p in
    let a = Array.of_list (List.map zs args) in
    let s = string_of_z in
    (match op with
     | "add" -> s (Model.addZ sb sg cb p a.(0) a.(1))
     | "addin" -> s (Model.addinZ sb sg cb p a.(0) a.(1))
     | "sub" -> s (Model.subZ sb sg cb p a.(0) a.(1))
     | "subin" -> s (Model.subinZ sb sg cb p a.(0) a.(1))
     | "mul" -> s (Model.mulZ sb sg cb p a.(0) a.(1))
     | "mulin" -> s (Model.mulinZ sb sg cb p a.(0) a.(1))
     | "neg" -> s (Model.negZ sb sg cb p a.(0))
     | "negin" -> s (Model.neginZ sb sg cb p a.(0))
     | "inv" -> so s (Model.invZ sb sg cb p fuel a.(0))
     | "invin" -> so s (Model.invinZ sb sg cb p fuel a.(0))
     | "div" -> so s (Model.divZ sb sg cb p fuel a.(0) a.(1))
     | "divin" -> so s (Model.divinZ sb sg cb p fuel a.(0) a.(1))
     | "axpy" -> s (Model.axpyZ sb sg cb p a.(0) a.(1) a.(2))
     | "axpyin" -> s (Model.axpyinZ sb sg cb p a.(2) a.(0) a.(1))
     | "axmy" -> s (Model.axmyZ sb sg cb p a.(0) a.(1) a.(2))
     | "axmyin" -> s (Model.axmyinZ sb sg cb p a.(2) a.(0) a.(1))
     | "maxpy" -> s (Model.maxpyZ sb sg cb p a.(0) a.(1) a.(2))
     | "maxpyin" -> s (Model.maxpyinZ sb sg cb p a.(2) a.(0) a.(1))
     | "reduce1" | "reduce2" -> s (Model.reduceZ sb sg cb p a.(0))
     | "isUnit" -> so string_of_bool (Model.isUnitZ sb sg cb p fuel a.(0))
     | "gcdext" -> so (fun ((d, u), v) -> s d ^ " " ^ s u ^ " " ^ s v) (Model.gcdextZ sb sg fuel a.(0) a.(1))
     | "mulpp" -> s (Model.mul_precomp_pZ sb sg cb p a.(0) a.(1))
     | "mulpb" -> s (Model.mul_precomp_bZ sb sg cb p a.(0) a.(1))
     | "consts" -> consts5 s p (Model.constsZ sb sg cb p)
     | _ -> "UNKNOWN-OP")
  | "fm" :: pe :: pc :: p :: op :: args ->
    let pe = zs pe and pc = zs pc and p = zs p in
    let a = Array.of_list (List.map zs args) in
    let s = string_of_z in
    (match op with
     | "add" -> s (Model.fm_add pe pc p a.(0) a.(1))
     | "addin" -> s (Model.fm_addin pe pc p a.(0) a.(1))
     | "sub" -> s (Model.fm_sub pe pc p a.(0) a.(1))
     | "subin" -> s (Model.fm_subin pe pc p a.(0) a.(1))
     | "mul" -> s (Model.fm_mul pe pc p a.(0) a.(1))
     | "mulin" -> s (Model.fm_mulin pe pc p a.(0) a.(1))
     | "neg" -> s (Model.fm_neg pe pc p a.(0))
     | "negin" -> s (Model.fm_negin pe pc p a.(0))
     | "inv" -> so s (Model.fm_inv pe pc p fuel a.(0))
     | "invin" -> so s (Model.fm_invin pe pc p fuel a.(0))
     | "div" -> so s (Model.fm_div pe pc p fuel a.(0) a.(1))
     | "divin" -> so s (Model.fm_divin pe pc p fuel a.(0) a.(1))
     | "axpy" -> s (Model.fm_axpy pe pc p a.(0) a.(1) a.(2))
     | "axpyin" -> s (Model.fm_axpyin pe pc p a.(2) a.(0) a.(1))
     | "axmy" -> s (Model.fm_axmy pe pc p a.(0) a.(1) a.(2))
     | "axmyin" -> s (Model.fm_axmyin pe pc p a.(2) a.(0) a.(1))
     | "maxpy" -> s (Model.fm_maxpy pe pc p a.(0) a.(1) a.(2))
     | "maxpyin" -> s (Model.fm_maxpyin pe pc p a.(2) a.(0) a.(1))
     | "reduce1" | "reduce2" -> s (Model.fm_reduce pe pc p a.(0))
     | "isUnit" -> so string_of_bool (Model.fm_isUnit pe p fuel a.(0))
     | "consts" -> consts5 s p (Model.fm_consts pe p)
     | _ -> "UNKNOWN-OP")
  | "bf" :: pe :: p :: op :: args ->
    let pe = zs pe and p = zs p in
    let a = Array.of_list (List.map zs args) in
    let s = string_of_z in
    (match op with
     | "add" -> s (Model.bf_add pe p a.(0) a.(1))
     | "addin" -> s (Model.bf_addin pe p a.(0) a.(1))
     | "sub" -> s (Model.bf_sub pe p a.(0) a.(1))
     | "subin" -> s (Model.bf_subin pe p a.(0) a.(1))
     | "mul" -> s (Model.bf_mul pe p a.(0) a.(1))
     | "mulin" -> s (Model.bf_mulin pe p a.(0) a.(1))
     | "neg" -> s (Model.bf_negn pe p a.(0))
     | "negin" -> s (Model.bf_negin pe p a.(0))
     | "inv" -> so s (Model.bf_inv pe p fuel a.(0))
     | "invin" -> so s (Model.bf_invin pe p fuel a.(0))
     | "div" -> so s (Model.bf_div pe p fuel a.(0) a.(1))
     | "divin" -> so s (Model.bf_divin pe p fuel a.(0) a.(1))
     | "axpy" -> s (Model.bf_axpy pe p a.(0) a.(1) a.(2))
     | "axpyin" -> s (Model.bf_axpyin pe p a.(2) a.(0) a.(1))
     | "axmy" -> s (Model.bf_axmy pe p a.(0) a.(1) a.(2))
     | "axmyin" -> s (Model.bf_axmyin pe p a.(2) a.(0) a.(1))
     | "maxpy" -> s (Model.bf_maxpy pe p a.(0) a.(1) a.(2))
     | "maxpyin" -> s (Model.bf_maxpyin pe p a.(2) a.(0) a.(1))
     | "reduce1" | "reduce2" -> s (Model.bf_reduce pe p a.(0))
     | "isUnit" -> so string_of_bool (Model.bf_isUnit pe p fuel a.(0))
     | "consts" -> consts5 s p (Model.bf_consts pe p)
     | _ -> "UNKNOWN-OP")
  | "bi" :: w :: p :: op :: args ->
    let w = zs w and p = zs p in
    let a = Array.of_list (List.map zs args) in
    let s = string_of_z in
    (match op with
     | "add" -> s (Model.bi_add w p a.(0) a.(1))
     | "addin" -> s (Model.bi_addin w p a.(0) a.(1))
     | "sub" -> s (Model.bi_sub w p a.(0) a.(1))
     | "subin" -> s (Model.bi_subin w p a.(0) a.(1))
     | "mul" -> s (Model.bi_mul w p a.(0) a.(1))
     | "mulin" -> s (Model.bi_mulin w p a.(0) a.(1))
     | "neg" -> s (Model.bi_negn w p a.(0))
     | "negin" -> s (Model.bi_negin w p a.(0))
     | "inv" -> so s (Model.bi_inv w p fuel a.(0))
     | "invin" -> so s (Model.bi_invin w p fuel a.(0))
     | "div" -> so s (Model.bi_div w p fuel a.(0) a.(1))
     | "divin" -> so s (Model.bi_divin w p fuel a.(0) a.(1))
     | "axpy" -> s (Model.bi_axpy w p a.(0) a.(1) a.(2))
     | "axpyin" -> s (Model.bi_axpyin w p a.(2) a.(0) a.(1))
     | "axmy" -> s (Model.bi_axmy w p a.(0) a.(1) a.(2))
     | "axmyin" -> s (Model.bi_axmyin w p a.(2) a.(0) a.(1))
     | "maxpy" -> s (Model.bi_maxpyn w p a.(0) a.(1) a.(2))
     | "maxpyin" -> s (Model.bi_maxpyin w p a.(2) a.(0) a.(1))
     | "reduce1" | "reduce2" -> s (Model.bi_reduce w p a.(0))
     | "isUnit" -> so string_of_bool (Model.bi_isUnit w p fuel a.(0))
     | "consts" -> consts5 s p (Model.bi_consts w p)
     | _ -> "UNKNOWN-OP")
  | "xb" :: mb :: rb :: pe :: p :: op :: args ->
    (* ModularExtended: mb / rb = the preprocessor branch of ::mul / ::reduce the configuration compiled (0 FMA, 1 Dekker, 2 fallback) *)
    let mb = zs mb and rb = zs rb and pe = zs pe and p = zs p in
    let a = Array.of_list (List.map zs args) in
    let s = string_of_z in
    (match op with
     | "add" -> s (Model.ex_add pe p a.(0) a.(1))
     | "addin" -> s (Model.xb_addin pe p a.(0) a.(1))
     | "sub" -> s (Model.ex_sub pe p a.(0) a.(1))
     | "subin" -> s (Model.xb_subin pe p a.(0) a.(1))
     | "mul" -> s (Model.xb_mul mb pe p a.(0) a.(1))
     | "mulin" -> s (Model.xb_mulin mb pe p a.(0) a.(1))
     | "neg" -> s (Model.ex_neg pe p a.(0))
     | "negin" -> s (Model.xb_negin pe p a.(0))
     | "inv" -> so s (Model.ex_inv pe p fuel a.(0))
     | "invin" -> so s (Model.xb_invin pe p fuel a.(0))
     | "div" -> so s (Model.xb_div mb pe p fuel a.(0) a.(1))
     | "divin" -> so s (Model.xb_divin mb pe p fuel a.(0) a.(1))
     | "axpy" -> s (Model.xb_axpy mb pe p a.(0) a.(1) a.(2))
     | "axpyin" -> s (Model.xb_axpyin mb pe p a.(2) a.(0) a.(1))
     | "axmy" -> s (Model.xb_axmy mb pe p a.(0) a.(1) a.(2))
     | "axmyin" -> s (Model.xb_axmyin mb pe p a.(2) a.(0) a.(1))
     | "maxpy" -> s (Model.xb_maxpy mb pe p a.(0) a.(1) a.(2))
     | "maxpyin" -> s (Model.xb_maxpyin mb pe p a.(2) a.(0) a.(1))
     | "reduce1" | "reduce2" -> s (Model.xb_reduce rb pe p a.(0))
     | "isUnit" -> so string_of_bool (Model.ex_isUnit pe p fuel a.(0))
     | "consts" -> consts5 s p (Model.xb_consts pe p)
     | _ -> "UNKNOWN-OP")
  | "ru" :: w :: dbl :: p :: op :: args ->
    let w = zs w and dbl = (dbl = "1") and p = zs p in
    let a = Array.of_list (List.map zs args) in
    let s = string_of_z in
    (match op with
     | "add" -> s (Model.ru_add w p a.(0) a.(1))
     | "addin" -> s (Model.ru_addin w p a.(0) a.(1))
     | "sub" -> s (Model.ru_sub w p a.(0) a.(1))
     | "subin" -> s (Model.ru_subin w p a.(0) a.(1))
     | "mul" -> s (Model.ru_mul w dbl p a.(0) a.(1))
     | "mulin" -> s (Model.ru_mulin w dbl p a.(0) a.(1))
     | "neg" -> s (Model.ru_neg w p a.(0))
     | "negin" -> s (Model.ru_negin w p a.(0))
     | "axpy" -> s (Model.ru_axpy w dbl p a.(0) a.(1) a.(2))
     | "axpyin" -> s (Model.ru_axpyin w dbl p a.(2) a.(0) a.(1))
     | "axmy" -> s (Model.ru_axmy w dbl p a.(0) a.(1) a.(2))
     | "axmyin" -> s (Model.ru_axmyin w dbl p a.(2) a.(0) a.(1))
     | "maxpy" -> s (Model.ru_maxpy w dbl p a.(0) a.(1) a.(2))
     | "maxpyin" -> s (Model.ru_maxpyin w dbl p a.(2) a.(0) a.(1))
     | "reduce1" | "reduce2" -> s (Model.ru_reduce p a.(0))
     | "isUnit" -> so string_of_bool (Model.ru_isUnit w p fuel a.(0))
     | "consts" -> consts5 s p (Model.ru_consts w p)
     | _ -> "UNKNOWN-OP")
  | "zz" :: p :: op :: args ->
    let p = zs p in
    let a = Array.of_list (List.map zs args) in
    let s = string_of_z in
    (match op with
     | "add" -> s (Model.zz_add p a.(0) a.(1))
     | "addin" -> s (Model.zz_addin p a.(0) a.(1))
     | "sub" -> s (Model.zz_sub p a.(0) a.(1))
     | "subin" -> s (Model.zz_subin p a.(0) a.(1))
     | "mul" -> s (Model.zz_mul p a.(0) a.(1))
     | "mulin" -> s (Model.zz_mulin p a.(0) a.(1))
     | "neg" -> s (Model.zz_neg p a.(0))
     | "negin" -> s (Model.zz_negin p a.(0))
     | "axpy" -> s (Model.zz_axpy p a.(0) a.(1) a.(2))
     | "axpyin" -> s (Model.zz_axpyin p a.(2) a.(0) a.(1))
     | "axmy" -> s (Model.zz_axmy p a.(0) a.(1) a.(2))
     | "axmyin" -> s (Model.zz_axmyin p a.(2) a.(0) a.(1))
     | "maxpy" -> s (Model.zz_maxpy p a.(0) a.(1) a.(2))
     | "maxpyin" -> s (Model.zz_maxpyin p a.(2) a.(0) a.(1))
     | "reduce1" | "reduce2" -> s (Model.zz_reduce p a.(0))
     | "consts" -> consts5 s p (Model.zz_consts p)
     | _ -> "UNKNOWN-OP")
  | _ -> "BAD-LINE")
