(* C03 driver: one case per line.
   int <sbits> <ssigned> <cbits> <p> <op> <args...>   integral Modular<S,C>
   same op names as harness/c03_modular.C; in-place call forms are the same model bodies with the
   destination in the operand position the C++ code reads it from. *)
let zs = z_of_string
let fuel = nat_of_int 400
let so f = function Some x -> f x | None -> "FUEL"
let () = run_lines (fun toks ->
  match toks with
  | "int" :: sb :: sg :: cb :: p :: op :: args ->
    let sb = zs sb and sg = (sg = "1") and cb = zs cb and p = zs p in
    let a = Array.of_list (List.map zs args) in
    let s = string_of_z in
    (match op with
     | "add" -> s (Model.addZ sb sg cb p a.(0) a.(1))
     | "addin" -> s (Model.addinZ sb sg cb p a.(0) a.(1))
     | "sub" | "subin" -> s (Model.subZ sb sg cb p a.(0) a.(1))
     | "mul" | "mulin" -> s (Model.mulZ sb sg cb p a.(0) a.(1))
     | "neg" | "negin" -> s (Model.negZ sb sg cb p a.(0))
     | "inv" | "invin" -> so s (Model.invZ sb sg cb p fuel a.(0))
     | "div" -> so s (Model.divZ sb sg cb p fuel a.(0) a.(1))
     | "divin" -> so s (Model.divinZ sb sg cb p fuel a.(0) a.(1))
     | "axpy" | "axpyin" -> s (Model.axpyZ sb sg cb p a.(0) a.(1) a.(2))
     | "axmy" | "axmyin" -> s (Model.axmyZ sb sg cb p a.(0) a.(1) a.(2))
     | "maxpy" -> s (Model.maxpyZ sb sg cb p a.(0) a.(1) a.(2))
     | "maxpyin" -> s (Model.maxpyinZ sb sg cb p a.(2) a.(0) a.(1))
     | "reduce1" | "reduce2" -> s (Model.reduceZ sb sg cb p a.(0))
     | "isUnit" -> so string_of_bool (Model.isUnitZ sb sg cb p fuel a.(0))
     | "gcdext" -> so (fun ((d, u), v) -> s d ^ " " ^ s u ^ " " ^ s v) (Model.gcdextZ sb sg fuel a.(0) a.(1))
     | "mulpp" -> s (Model.mul_precomp_pZ sb sg cb p a.(0) a.(1))
     | "mulpb" -> s (Model.mul_precomp_bZ sb sg cb p a.(0) a.(1))
     | "consts" -> s (Model.mOneZ sb sg cb p)
     | _ -> "UNKNOWN-OP")
  | "fm" :: pe :: pc :: p :: op :: args ->
    let pe = zs pe and pc = zs pc and p = zs p in
    let a = Array.of_list (List.map zs args) in
    let s = string_of_z in
    (match op with
     | "add" | "addin" -> s (Model.fm_add pe pc p a.(0) a.(1))
     | "sub" -> s (Model.fm_sub pe pc p a.(0) a.(1))
     | "subin" -> s (Model.fm_subin pe pc p a.(0) a.(1))
     | "mul" | "mulin" -> s (Model.fm_mul pe pc p a.(0) a.(1))
     | "neg" | "negin" -> s (Model.fm_neg pe pc p a.(0))
     | "inv" | "invin" -> so s (Model.fm_inv pe pc p fuel a.(0))
     | "div" -> so s (Model.fm_div pe pc p fuel a.(0) a.(1))
     | "divin" -> so s (Model.fm_divin pe pc p fuel a.(0) a.(1))
     | "axpy" | "axpyin" -> s (Model.fm_axpy pe pc p a.(0) a.(1) a.(2))
     | "axmy" -> s (Model.fm_axmy pe pc p a.(0) a.(1) a.(2))
     | "axmyin" -> s (Model.fm_axmyin pe pc p a.(2) a.(0) a.(1))
     | "maxpy" -> s (Model.fm_maxpy pe pc p a.(0) a.(1) a.(2))
     | "maxpyin" -> s (Model.fm_maxpyin pe pc p a.(2) a.(0) a.(1))
     | "reduce1" | "reduce2" -> s (Model.fm_reduce pe pc p a.(0))
     | "isUnit" -> so string_of_bool (Model.fm_isUnit pe p fuel a.(0))
     | _ -> "UNKNOWN-OP")
  | "bf" :: pe :: p :: op :: args ->
    let pe = zs pe and p = zs p in
    let a = Array.of_list (List.map zs args) in
    let s = string_of_z in
    (match op with
     | "add" | "addin" -> s (Model.bf_add pe p a.(0) a.(1))
     | "sub" | "subin" -> s (Model.bf_sub pe p a.(0) a.(1))
     | "mul" | "mulin" -> s (Model.bf_mul pe p a.(0) a.(1))
     | "neg" | "negin" -> s (Model.bf_neg a.(0))
     | "negn" -> s (Model.bf_negn pe p a.(0))            (* neg as repaired by frag/C03.fix-1 *)
     | "inv" | "invin" -> so s (Model.bf_inv pe p fuel a.(0))
     | "div" | "divin" -> so s (Model.bf_div pe p fuel a.(0) a.(1))
     | "axpy" -> s (Model.bf_axpy pe p a.(0) a.(1) a.(2))
     | "axpyin" -> s (Model.bf_axpyin pe p a.(2) a.(0) a.(1))
     | "axmy" | "axmyin" -> s (Model.bf_axmy pe p a.(0) a.(1) a.(2))
     | "maxpy" | "maxpyin" -> s (Model.bf_maxpy pe p a.(0) a.(1) a.(2))
     | "reduce1" | "reduce2" -> s (Model.bf_reduce pe p a.(0))
     | "isUnit" -> so string_of_bool (Model.bf_isUnit pe p fuel a.(0))
     | _ -> "UNKNOWN-OP")
  | "bi" :: w :: p :: op :: args ->
    let w = zs w and p = zs p in
    let a = Array.of_list (List.map zs args) in
    let s = string_of_z in
    (match op with
     | "add" | "addin" -> s (Model.bi_add w p a.(0) a.(1))
     | "sub" | "subin" -> s (Model.bi_sub w p a.(0) a.(1))
     | "mul" | "mulin" -> s (Model.bi_mul w p a.(0) a.(1))
     | "neg" | "negin" -> s (Model.bi_neg w a.(0))
     | "negn" -> s (Model.bi_negn w p a.(0))             (* neg / maxpy as repaired by frag/C03.fix-1 *)
     | "maxpyn" -> s (Model.bi_maxpyn w p a.(0) a.(1) a.(2))
     | "inv" | "invin" -> so s (Model.bi_inv w p fuel a.(0))
     | "div" | "divin" -> so s (Model.bi_div w p fuel a.(0) a.(1))
     | "axpy" | "axpyin" -> s (Model.bi_axpy w p a.(0) a.(1) a.(2))
     | "axmy" | "axmyin" -> s (Model.bi_axmy w p a.(0) a.(1) a.(2))
     | "maxpy" | "maxpyin" -> s (Model.bi_maxpy w p a.(0) a.(1) a.(2))
     | "reduce1" | "reduce2" -> s (Model.bi_reduce w p a.(0))
     | "isUnit" -> so string_of_bool (Model.bi_isUnit w p fuel a.(0))
     | _ -> "UNKNOWN-OP")
  | "xb" :: mb :: rb :: pe :: p :: op :: args ->
    (* ModularExtended: mb / rb = the preprocessor branch of ::mul / ::reduce the configuration compiled (0 FMA, 1 Dekker, 2 fallback) *)
    let mb = zs mb and rb = zs rb and pe = zs pe and p = zs p in
    let a = Array.of_list (List.map zs args) in
    let s = string_of_z in
    (match op with
     | "add" | "addin" -> s (Model.ex_add pe p a.(0) a.(1))
     | "sub" | "subin" -> s (Model.ex_sub pe p a.(0) a.(1))
     | "mul" | "mulin" -> s (Model.xb_mul mb pe p a.(0) a.(1))
     | "neg" | "negin" -> s (Model.ex_neg pe p a.(0))
     | "inv" | "invin" -> so s (Model.ex_inv pe p fuel a.(0))
     | "div" | "divin" -> so s (Model.xb_div mb pe p fuel a.(0) a.(1))
     | "axpy" | "axpyin" -> s (Model.xb_axpy mb pe p a.(0) a.(1) a.(2))
     | "axmy" | "axmyin" -> s (Model.xb_axmy mb pe p a.(0) a.(1) a.(2))
     | "maxpy" | "maxpyin" -> s (Model.xb_maxpy mb pe p a.(0) a.(1) a.(2))
     | "reduce1" | "reduce2" -> s (Model.xb_reduce rb pe p a.(0))
     | "isUnit" -> so string_of_bool (Model.ex_isUnit pe p fuel a.(0))
     | _ -> "UNKNOWN-OP")
  | "ru" :: w :: dbl :: p :: op :: args ->
    let w = zs w and dbl = (dbl = "1") and p = zs p in
    let a = Array.of_list (List.map zs args) in
    let s = string_of_z in
    (match op with
     | "add" | "addin" -> s (Model.ru_add w p a.(0) a.(1))
     | "sub" -> s (Model.ru_sub w p a.(0) a.(1))
     | "subin" -> s (Model.ru_subin w p a.(0) a.(1))
     | "mul" | "mulin" -> s (Model.ru_mul w dbl p a.(0) a.(1))
     | "neg" | "negin" -> s (Model.ru_neg w p a.(0))
     | "axpy" | "axpyin" -> s (Model.ru_axpy w dbl p a.(0) a.(1) a.(2))
     | "axmy" | "axmyin" -> s (Model.ru_axmy w dbl p a.(0) a.(1) a.(2))
     | "maxpy" -> s (Model.ru_maxpy w dbl p a.(0) a.(1) a.(2))
     | "maxpyin" -> s (Model.ru_maxpyin w dbl p a.(2) a.(0) a.(1))
     | "reduce1" | "reduce2" -> s (Model.ru_reduce p a.(0))
     | "isUnit" -> so string_of_bool (Model.ru_isUnit w p fuel a.(0))
     | _ -> "UNKNOWN-OP")
  | "zz" :: p :: op :: args ->
    let p = zs p in
    let a = Array.of_list (List.map zs args) in
    let s = string_of_z in
    (match op with
     | "add" | "addin" -> s (Model.zz_add p a.(0) a.(1))
     | "sub" | "subin" -> s (Model.zz_sub p a.(0) a.(1))
     | "mul" | "mulin" -> s (Model.zz_mul p a.(0) a.(1))
     | "neg" | "negin" -> s (Model.zz_neg p a.(0))
     | "axpy" | "axpyin" -> s (Model.zz_axpy p a.(0) a.(1) a.(2))
     | "axmy" -> s (Model.zz_axmy p a.(0) a.(1) a.(2))
     | "axmyin" -> s (Model.zz_axmyin p a.(2) a.(0) a.(1))
     | "maxpy" | "maxpyin" -> s (Model.zz_maxpy p a.(0) a.(1) a.(2))
     | "reduce1" | "reduce2" -> s (Model.zz_reduce p a.(0))
     | _ -> "UNKNOWN-OP")
  | _ -> "BAD-LINE")
