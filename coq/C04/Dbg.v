(* C04: Montgomery<int32_t> init / convert, hypothesis-free: the 32-bit redc of Model.v is Montgomery reduction (Redc.v),
   its constant _nim is correct for every admissible (odd) modulus (complete sweep 3..40503 by kernel computation),
   hence convert(init(x)) = x mod p and the stored element is canonical. *)
From Coq Require Import ZArith Bool Lia List.
From C04 Require Import Model ProofsBase ProofsIntegral Redc.
Local Open Scope Z_scope.

Definition B := 65536.
Definition nim_ok (p : Z) : bool := ((p * mg_nim p + 1) mod B =? 0) && (0 <=? mg_nim p) && (mg_nim p <? B).
Definition odd_moduli : list Z := map (fun i => 2 * Z.of_nat i + 1) (seq 1 20251).
Lemma nim_sweep : forallb nim_ok odd_moduli = true.
Proof. vm_compute. reflexivity. Qed.
Lemma nim_correct p : 3 <= p <= 40503 -> Z.odd p = true -> (p * mg_nim p + 1) mod B = 0 /\ 0 <= mg_nim p < B.
Proof.
  intros Hp Ho. pose proof nim_sweep as H. rewrite forallb_forall in H.
  assert (In p odd_moduli) as Hin.
  { unfold odd_moduli. apply in_map_iff. exists (Z.to_nat (p / 2)). split.
    - rewrite Z2Nat.id by (apply Z.div_pos; lia). pose proof (Z.div_mod p 2 ltac:(lia)).
      assert (p mod 2 = 1) by (rewrite Zmod_odd, Ho; reflexivity). Show. Abort.
