(* Extraction of the executable model for the correspondence run (ExtrOcamlBasic only). *)
From Coq Require Import ZArith.
From Coq Require Extraction.
From Coq Require Import ExtrOcamlBasic.
From C04 Require Import Model.
Extraction Language OCaml.
Cd "ocaml".
Extraction "model.ml" zio_nat initZ ex_tail lift mone one conv_int conv_flt i8 u8 i16 u16 i32 u32 i64 u64.
Cd "..".
