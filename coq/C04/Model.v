(* C04 model: init / convert of every ring family, written after the C++ bodies, branch by branch, with the
   C conversions explicit.  No proofs in this file (it must still extract when a proof breaks).

   Conventions
   * machine integers are Z with an explicit type `ity` (bit width, signedness); `cast t z` is the C conversion
     to t (two's complement wrap; for signed targets this is what g++ does, for `-y` it is formally undefined);
   * a float / double VALUE is modelled by the integer it carries (the property speaks of integer-valued sources);
     `rnd prec z` is the round-to-nearest-even conversion of an integer to a prec-bit significand, `fmod` on
     integers is Z.rem (exact in IEEE arithmetic), a float -> integer cast outside the target range is undefined
     in C++ and yields `None` (the model result is `option Z`; `None` = "the code left defined behaviour");
   * Integer (GMP) values are Z; `%` on Integer truncates (sign of the dividend), Integer::mod is Z.modulo;
   * table rings (GFqDom, Modular<Log16>) : the model computes the INDEX that is looked up in the value->log
     table (pol2log / _tab_value2rep); the tables themselves are C05's subject.  `None` = index outside the table.
   Bodies that received repairs (frag/C04.fix-1..15, all in /repo) are modelled in their REPAIRED form. *)
From Coq Require Import ZArith Bool.
Local Open Scope Z_scope.
Arguments Z.mul : simpl never.
Arguments Z.add : simpl never.
Arguments Z.sub : simpl never.
Arguments Z.pow : simpl never.
Arguments Z.modulo : simpl never.
Arguments Z.rem : simpl never.
Arguments Z.div : simpl never.

(* ------------------------------------------------------------------ C integer types *)
Record ity := Ity { bits : Z; sg : bool }.
Definition i8 := Ity 8 true.    Definition u8 := Ity 8 false.
Definition i16 := Ity 16 true.  Definition u16 := Ity 16 false.
Definition i32 := Ity 32 true.  Definition u32 := Ity 32 false.
Definition i64 := Ity 64 true.  Definition u64 := Ity 64 false.

Definition wrapu (n z : Z) : Z := z mod 2 ^ n.
Definition wraps (n z : Z) : Z := (z + 2 ^ (n - 1)) mod 2 ^ n - 2 ^ (n - 1).
Definition cast (t : ity) (z : Z) : Z := if sg t then wraps (bits t) z else wrapu (bits t) z.
Definition tmin (t : ity) : Z := if sg t then - 2 ^ (bits t - 1) else 0.
Definition tmax (t : ity) : Z := if sg t then 2 ^ (bits t - 1) - 1 else 2 ^ bits t - 1.
Definition in_ty (t : ity) (z : Z) : bool := (tmin t <=? z) && (z <=? tmax t).
Definition unsigned_of (t : ity) : ity := Ity (bits t) false.
(* integer promotion *)
Definition promote (t : ity) : ity := if bits t <? 32 then i32 else t.
(* unary minus in the promoted type *)
Definition cneg (t : ity) (z : Z) : Z := cast (promote t) (- z).
(* (y < 0) ? -y : y   as written in the sources (wraps for the most negative value) *)
Definition cabs (t : ity) (z : Z) : Z := if z <? 0 then cneg t z else z.

(* (y < 0) ? -Wide(y) : Wide(y)  with Wide = int64_t for signed integral sources, Wide = Source otherwise (repaired, fix-11) *)
Definition wabs (sgn : bool) (z : Z) : Z :=
  if sgn then (if z <? 0 then cast i64 (- cast i64 z) else cast i64 z) else z.

(* ------------------------------------------------------------------ floating values carried as integers *)
(* int -> float conversion (and double -> float): round to nearest, ties to even, prec-bit significand *)
Definition rnd (prec z : Z) : Z :=
  let a := Z.abs z in
  let e := Z.log2 a + 1 - prec in
  if e <=? 0 then z else
    let q := a / 2 ^ e in
    let r := a mod 2 ^ e in
    let h := 2 ^ (e - 1) in
    let q' := if r <? h then q else if h <? r then q + 1 else if Z.even q then q else q + 1 in
    Z.sgn z * (q' * 2 ^ e).
(* Integer -> double (mpz_get_d): truncation toward zero *)
Definition trunc_to (prec z : Z) : Z :=
  let a := Z.abs z in
  let e := Z.log2 a + 1 - prec in
  if e <=? 0 then z else Z.sgn z * ((a / 2 ^ e) * 2 ^ e).
(* float -> integer cast: defined only when the value fits *)
Definition f2i (t : ity) (z : Z) : option Z := if in_ty t z then Some z else None.

Definition obind {A B} (o : option A) (f : A -> option B) : option B := match o with Some a => f a | None => None end.

(* source types *)
Inductive src :=
| SI (t : ity)          (* a C integer type *)
| SF (prec : Z)         (* float (24) / double (53); sizeof = 4 / 8 *)
| SInteger              (* Givaro::Integer *)
| SRU (K : Z)           (* RecInt::ruint<K> : 2^K bits *)
| SLL (sgn : bool).     (* long long / unsigned long long: 64 bits like int64_t / uint64_t, but a DISTINCT type, so the
                           non-template overloads written for int64_t / uint64_t are not selected *)
Definition ll_as_int (s : src) : src := match s with SLL sgn => SI (Ity 64 sgn) | _ => s end.
Definition fbits (prec : Z) : Z := if prec =? 24 then 32 else 64.
(* std::conditional<is_same<Source, float>, double, Source>: the precision a floating source is reduced in (modular-integral.inl) *)
Definition fwide (prec : Z) : Z := if prec =? 24 then 53 else prec.

(* ================================================================== 1. Modular<St, C>, St and C integral
   modular-integral.inl:27-100;  _p : Residu_t = make_unsigned<St>;  Compute_t plays no role in init/convert *)
Section ModIntegral.
  Variable St : ity.
  Variable p : Z.
  (* negin:  r = (r == 0) ? 0 : Caster<Element>(_p) - r *)
  Definition mi_negin (x : Z) : Z := if x =? 0 then 0 else cast St (cast St p - x).
  (* _reduce, signed E:   x = y % Caster<E>(p); (x < 0 ? x = Caster<E>(x + p) : x)   /  unsigned E:  x = y % p *)
  Definition mi_reduce (y : Z) : Z :=
    if sg St then let x := Z.rem y (cast St p) in if x <? 0 then cast St (x + p) else x
    else Z.rem y p.
  (* A (repaired, fix-5): unsigned Source at least as wide as Storage_t:   x = Caster<Element>(y % _p)
     (both operands are unsigned or promoted to int: the remainder is the mathematical one) *)
  Definition mi_init_uwide (T : ity) (y : Z) : Z := cast St (Z.rem y p).
  (* B: signed Source wider than Storage_t (repaired, fix-2):
        const Source r = y % Source(_p);  x = Caster<Element>(r < 0 ? -r : r);  return (r < 0 ? negin(x) : x) *)
  Definition mi_init_swide (T : ity) (y : Z) : Z :=
    let r := cast T (Z.rem y (cast T p)) in
    let x := cast St (cabs T r) in
    if r <? 0 then mi_negin x else x.
  (* C (repaired, fix-15 e6cb1e7): EVERY floating Source, signed storage; Wide = double when Source is float, Source otherwise
     (`prec` below is the precision of Wide: see fwide):
        x = Caster<Element>(fmod(Wide(y), Wide(_p)));  if (x < 0) x = Caster<Element>(x + _p) *)
  Definition mi_init_float_s (prec : Z) (y : Z) : option Z :=
    obind (f2i St (Z.rem y (rnd prec p))) (fun x => Some (if x <? 0 then cast St (x + p) else x)).
  (* D (repaired, fix-15): every floating Source, unsigned storage:   x = Caster<Element>(fmod(Wide(|y|), Wide(_p)));  (y < 0) ? negin(x) : x *)
  Definition mi_init_float_u (prec : Z) (y : Z) : option Z :=
    obind (f2i St (Z.rem (Z.abs y) (rnd prec p))) (fun x => Some (if y <? 0 then mi_negin x else x)).
  (* E: Integer (repaired, fix-4):   Integer r;  x = Caster<Element>(Integer::mod(r, y, uint64_t(_p))) *)
  Definition mi_init_Integer (y : Z) : Z := cast St (y mod p).
  (* F: unsigned storage, every other Source:   reduce(x, Caster<Element>((y < 0) ? -y : y));  if (y < 0) negin(x) *)
  Definition mi_init_gen_u_int (T : ity) (y : Z) : Z :=        (* repaired (fix-11): the negation is done in int64_t *)
    let x := mi_reduce (cast St (wabs (sg T) y)) in if y <? 0 then mi_negin x else x.
  (* G: signed storage, every other Source:   reduce(Caster<Element>(x, y)) *)
  Definition mi_init_gen_s_int (y : Z) : Z := mi_reduce (cast St y).
  (* overload selection: the enable_if conditions of modular-integral.h:64-86 *)
  Definition mi_init (s : src) (y : Z) : option Z :=
    match s with
    | SInteger => Some (mi_init_Integer y)
    | SI T =>
        if negb (sg T) && (bits St <=? bits T) then Some (mi_init_uwide T y)
        else if sg T && (bits St <? bits T) then Some (mi_init_swide T y)
        else if sg St then Some (mi_init_gen_s_int y) else Some (mi_init_gen_u_int T y)
    | SF prec =>                                   (* IS_FLOAT(Source) && IS_SINT / IS_UINT(Storage_t): no sizeof condition any more *)
        if sg St then mi_init_float_s (fwide prec) y else mi_init_float_u (fwide prec) y
    | SRU _ | SLL _ => None
    end.
  (* constants (Modular_implem(const Residu_t p)):  zero 0, one 1, mOne = static_cast<Element>(p - static_cast<Element>(1)) *)
  Definition mi_mone : Z := cast St (p - 1).
End ModIntegral.

(* convert: Caster<T, Element>(r, a) = static_cast; integral Element *)
Definition conv_int (T : ity) (e : Z) : Z := cast T e.
Definition conv_flt (prec : Z) (e : Z) : Z := rnd prec e.

(* ================================================================== 2. Modular<float|double, C>
   modular-floating.inl:25-75, generic template in modular-floating.h:76-81.  prec = 24 / 53 (Storage_t);
   _p : uint32_t / uint64_t, _pc : Compute_t (the same number) *)
Section ModFloating.
  Variable prec : Z.
  Variable p : Z.
  Definition mf_negin (x : Z) : Z := if x =? 0 then 0 else p - x.
  (* reduce:  x = fmod(x, p);  if (x < 0) x += p *)
  Definition mf_reduce (x : Z) : Z := let r := Z.rem x p in if r <? 0 then r + p else r.
  Definition mf_init (s : src) (a : Z) : option Z :=
    match s with
    | SInteger =>                                  (* r = Caster<Element>(a % _p);  if (r < 0) r += _pc *)
        let r := rnd prec (Z.rem a p) in Some (if r <? 0 then r + p else r)
    | SI T =>
        if fbits prec <=? bits T then
          if sg T then                             (* repaired (fix-2):  r = Caster<Element>(std::abs(a % Caster<Source>(_p)));  if (a < 0) negin(r) *)
            let r := rnd prec (Z.abs (Z.rem a (cast T p))) in Some (if a <? 0 then mf_negin r else r)
          else                                     (* r = Caster<Element>(a % Caster<Source>(_p)) *)
            Some (rnd prec (Z.rem a (cast T p)))
        else Some (mf_reduce (rnd prec a))         (* generic:  r = Caster<Element>(a);  reduce(r) *)
    | SF sprec =>
        if (sprec =? 53) && (prec =? 24) then      (* double -> float storage:  r = Caster<Element>(fmod(a, _pc));  if (r < 0) r += _pc *)
          let r := rnd prec (Z.rem a p) in Some (if r <? 0 then r + p else r)
        else Some (mf_reduce (rnd prec a))
    | SRU _ | SLL _ => None
    end.
  Definition mf_mone : Z := rnd prec (p - 1).
End ModFloating.

(* ================================================================== 3. ModularBalanced<double|float|int32_t|int64_t>
   modular-balanced-{double,float,int32,int64}.inl.  _halfp = floor(p/2), _mhalfp = _halfp - p + 1 *)
Section Balanced.
  Variable p : Z.
  Definition halfp : Z := p / 2.
  Definition mhalfp : Z := halfp - p + 1.
  Definition normalise (x : Z) : Z := if x <? mhalfp then x + p else if halfp <? x then x - p else x.
  Definition normalise_hi (x : Z) : Z := if halfp <? x then x - p else x.
  (* generic template of the floating / int32_t variants (repaired, fix-6 and fix-9):
       init(r, Caster<W>(a)),  W = uint64_t for unsigned sources, int64_t otherwise *)
  Definition bf_generic (sgn : bool) (y : Z) : option Z :=
    if sgn then Some (normalise (Z.rem (cast i64 y) p)) else Some (normalise_hi (Z.rem (cast u64 y) p)).
  (* floating element (prec = 53: double, 24: float) *)
  Definition bf_init (prec : Z) (s : src) (y : Z) : option Z :=
    match s with
    | SF _ => Some (normalise (Z.rem y p))                       (* x = fmod(y, p); NORMALISE *)
    | SInteger => Some (normalise (Z.rem y p))                   (* repaired (fix-1):  x = y % _p; NORMALISE *)
    | SI T =>
        if prec =? 53 then
          if bits T =? 64 then
            if sg T then Some (normalise (Z.rem y p))            (* int64_t:  y % int64_t(_up); NORMALISE *)
            else Some (normalise_hi (Z.rem y p))                 (* uint64_t: y % uint64_t(_up); NORMALISE_HI *)
          else bf_generic (sg T) y                               (* generic (repaired, fix-6/9): forward to the int64_t / uint64_t overload *)
        else
          if 32 <=? bits T then
            if sg T then Some (normalise (Z.rem y p)) else Some (normalise_hi (Z.rem y p))
          else bf_generic (sg T) y
    | SLL sgn => bf_generic sgn y                                (* generic template *)
    | SRU _ => None
    end.
  (* generic template, integral element.  int32_t (repaired, fix-6/9): forward to the int64_t / uint64_t overload;
     int64_t (repaired, fix-10): an unsigned source is reduced as uint64_t before it is narrowed; then reduce(r) *)
  Definition bi_generic (b : Z) (sgn : bool) (y : Z) : option Z :=
    let E := Ity b true in
    if b =? 32 then
      if sgn then Some (normalise (cast E (Z.rem (cast i64 y) p))) else Some (normalise_hi (cast E (Z.rem (cast u64 y) p)))
    else
      let r := if sgn then cast E y else cast E (Z.rem (cast u64 y) p) in Some (normalise (Z.rem r p)).
  (* integral element (bits = 32 / 64) *)
  Definition bi_init (b : Z) (s : src) (y : Z) : option Z :=
    let E := Ity b true in
    match s with
    | SF _ => obind (f2i E (Z.rem y p)) (fun x => Some (normalise x))   (* x = static_cast<Element>(fmod(y, double(_p))); NORMALISE *)
    | SInteger => Some (normalise (Z.rem y p))                          (* repaired (fix-1) *)
    | SI T =>
        if (b =? 32) && (bits T =? 64) then
          if sg T then Some (normalise (cast E (Z.rem y p)))            (* int64_t overload *)
          else Some (normalise_hi (cast E (Z.rem y p)))                 (* uint64_t overload *)
        else bi_generic b (sg T) y
    | SLL sgn => bi_generic b sgn y
    | SRU _ => None
    end.
End Balanced.

(* ================================================================== 4. Montgomery<int32_t>   (Element = uint32_t, B = 2^16)
   montgomery-int32.h:63-75 (constants), montgomery-int32.inl:33-42 (redc), 239-268 (init), header template *)
Section Mont32.
  Variable p : Z.
  Definition B16 : Z := 65536.
  Definition mg_Bp : Z := B16 mod p.
  Definition mg_B2p : Z := (wrapu 32 (mg_Bp * B16)) mod p.
  (* inverse of p modulo 2^16 by Newton iteration (p odd) *)
  Definition inv16 : Z :=
    let st x := (x * (2 - p * x)) mod B16 in st (st (st (st 1))).
  Definition mg_nim : Z := wrapu 32 (B16 - inv16).
  Definition mg_redc (c : Z) : Z :=
    let r := Z.land c 65535 in
    let r := wrapu 32 (r * mg_nim) in
    let r := Z.land r 65535 in
    let r := wrapu 32 (r * p) in
    let r := wrapu 32 (r + c) in
    let r := r / B16 in
    if p <=? r then r - p else r.
  Definition mg_negin (r : Z) : Z := if r =? 0 then 0 else wrapu 32 (p - r).
  Definition mg_to (r : Z) : Z := mg_redc (wrapu 32 (r * mg_B2p)).
  (* generic template (repaired, fix-6/9): init(r, Caster<W>(a)), W = uint64_t for unsigned sources, int64_t otherwise *)
  Definition mg_generic (sgn : bool) (a : Z) : option Z :=
    if sgn then let a := cast i64 a in let r := Z.abs (Z.rem a p) in Some (mg_to (if a <? 0 then mg_negin r else r))
    else Some (mg_to (cast u64 a mod p)).
  Definition mg_init (s : src) (a : Z) : option Z :=
    match s with
    | SF prec =>
        if prec =? 53 then           (* r = static_cast<Element>(fmod(|a|, double(_p)));  if (a < 0) negin(r) *)
          let r := Z.rem (Z.abs a) p in Some (mg_to (if a <? 0 then mg_negin r else r))
        else                         (* generic template (repaired, fix-9): float is forwarded to the double overload *)
          let r := Z.rem (Z.abs a) p in Some (mg_to (if a <? 0 then mg_negin r else r))
    | SInteger =>                    (* r = static_cast<Element>(((a < 0) ? -a : a) % _p) *)
        let r := Z.abs a mod p in Some (mg_to (if a <? 0 then mg_negin r else r))
    | SI T =>
        if bits T =? 64 then
          if sg T then               (* repaired (fix-2):  r = static_cast<Element>(std::abs(a % int64_t(_p))) *)
            let r := Z.abs (Z.rem a p) in Some (mg_to (if a <? 0 then mg_negin r else r))
          else Some (mg_to (a mod p))
        else mg_generic (sg T) a     (* generic template *)
    | SLL sgn => mg_generic sgn a
    | SRU _ => None
    end.
  (* convert:  Element c;  r = Caster<T>(redc(c, a)) *)
  Definition mg_lift (e : Z) : Z := mg_redc e.
  Definition mg_one : Z := mg_Bp.
  Definition mg_mone : Z := wrapu 32 (p - mg_Bp).
End Mont32.

(* ================================================================== 5. Modular<Integer>   modular-integer.h:55-58, .inl:184-189 *)
Definition mz_init (p : Z) (a : Z) : Z := let r := Z.rem a p in if r <? 0 then r + p else r.

(* ================================================================== 6. Modular<ruint<K>, ruint<K'>>   modular-ruint.h:66-78
   reduce(r, Caster<Element>((a < 0) ? -a : a));  if (a < 0) negin(r).   Element = ruint<K> : 2^K bits *)
Section ModRuint.
  Variable K : Z.
  Variable p : Z.
  Definition ru_wrap (z : Z) : Z := z mod 2 ^ (2 ^ K).
  Definition ru_negin (r : Z) : Z := if r =? 0 then 0 else p - r.
  Definition ru_init (s : src) (a : Z) : option Z :=
    let fin (m : Z) := let r := m mod p in Some (if a <? 0 then ru_negin r else r) in
    match s with
    | SI T => fin (ru_wrap (wrapu 64 (wabs (sg T) a)))            (* repaired (fix-11): negated in int64_t; sign-extended to one limb *)
    | SInteger => fin (ru_wrap (Z.abs a mod p))            (* repaired (fix-7): |a| is reduced modulo p as an Integer first *)
    | SRU K' => fin (ru_wrap a)
    | SF _ => fin (ru_wrap (Z.abs a mod p))                (* repaired (fix-14 df009ee): init(r, Integer(a)) *)
    | SLL _ => None
    end.
End ModRuint.

(* ================================================================== 7. GFqDom<int32_t|int64_t>   gfq.inl:640-770
   result: the index into _pol2log (the p-adic value in [0, q)), None when the index is outside the table *)
Section GFq.
  Variable b : Z.            (* 32 / 64 : width of TT *)
  Variable q : Z.
  Definition TT : ity := Ity b true.
  Definition UTT : ity := Ity b false.
  Definition gf_idx (i : Z) : option Z := if (0 <=? i) && (i <? q) then Some i else None.
  Definition gf_init (s : src) (x : Z) : option Z :=
    match s with
    | SF _ =>                                  (* init(double); float forwards to it *)
        let tr := Z.abs x in                   (* Signed_Trait<UTT>::max() is compared as a double *)
        let otr := if rnd 53 (tmax UTT) <=? tr then Some (Z.rem tr q)     (* repaired (fix-10): >= *)
                   else if q <=? tr then obind (f2i UTT tr) (fun u => Some (u mod q)) else Some tr in
        obind otr (fun tr => if x <? 0 then (if tr =? 0 then Some 0 else gf_idx (q - tr)) else gf_idx tr)
    | SI T =>
        if (bits T <? 64) && negb (sg T || (bits T <? 32)) then     (* init(uint32_t) *)
          gf_idx (if q <=? x then x mod q else x)
        else if sg T || (bits T <? 64) then    (* init(int64_t); init(int32_t) (also reached by the narrower types through promotion)
                                                  forwards to it (repaired, fix-8) *)
          if x <? 0 then
            let tr := cast i64 (- cast i64 (Z.rem x q)) in      (* repaired (fix-8): tr = -(tr % (int64_t)_q) *)
            if tr =? 0 then Some 0 else gf_idx (wrapu 64 (q - wrapu 64 tr))
          else gf_idx (if q <=? x then Z.rem x q else x)
        else                                   (* init(uint64_t) *)
          gf_idx (if q <=? x then x mod q else x)
    | SInteger =>
        if x <? 0 then
          let tr := if x <=? - q then (- x) mod q else - x in
          if tr =? 0 then Some 0 else gf_idx (q - tr)
        else gf_idx (if q <=? x then x mod q else x)
    | SRU _ | SLL _ => None                    (* long long: the call is ambiguous, no such form *)
    end.
End GFq.

(* ================================================================== 8. Modular<Log16>   modular-log16.inl:419-497
   result: the index into _tab_value2rep (the residue in [0, p)) *)
Section Log16.
  Variable p : Z.
  Definition lg_idx (i : Z) : option Z := if (0 <=? i) && (i <? p) then Some i else None.
  (* init(Rep&, const int64_t)  (repaired, fix-3: `if (sign == -1 && r)`) *)
  Definition lg_init_i64 (a : Z) : option Z :=
    let ua := if a <? 0 then wrapu 64 (cast i64 (- a)) else a in
    let r := cast i16 (if p <=? ua then ua mod p else ua) in
    let r := if (a <? 0) && negb (r =? 0) then cast i16 (p - r) else r in
    lg_idx r.
  Definition lg_init_u (a : Z) : option Z := lg_idx (cast i16 (if p <=? a then a mod p else a)).
  Definition lg_init (s : src) (a : Z) : option Z :=
    match s with
    | SF _ => lg_init_i64 (Z.rem a p)                       (* repaired (fix-10): init(a, (int64_t)fmod(i, p)) *)
    | SI T =>
        if sg T || (bits T <? 16) then lg_init_i64 a else lg_init_u a
    | SInteger =>
        if a <? 0 then
          let tr := if a <=? - p then cast i16 ((- a) mod p) else cast i16 (- a) in
          if tr =? 0 then Some 0 else lg_idx (p - wrapu 16 tr)
        else lg_idx (if p <=? a then cast i16 (a mod p) else cast i16 a)
    | SRU _ | SLL _ => None
    end.
End Log16.

(* ================================================================== 9. ModularExtended<float|double>   modular-extended.h:142-146,
   modular-extended.inl:56-165 (the live specialisations) and 246-299 (reduce, FMA variant).
   The generic init is  r = Caster<Element>(a); reduce(r)  with
       q = floor(a * _invp);  a = fma(-q, _p, a);  if (a >= _p) a -= _p; else if (a < 0) a += _p.
   _invp = 1/p rounded; a * _invp rounded; the model keeps both roundings (dyadic numbers m * 2^e). *)
Section Extended.
  Variable prec : Z.
  Variable p : Z.
  (* round the positive rational n/d to prec bits: (m, e) with value m * 2^e *)
  Definition rndq (n d : Z) : Z * Z :=
    let k := Z.log2 n - Z.log2 d in                (* 2^(k-1) < n/d < 2^(k+1) *)
    let e := k - prec - 1 in                       (* scaled quotient has prec+1 or prec+2 bits *)
    let num := if e <? 0 then n * 2 ^ (- e) else n in
    let den := if e <? 0 then d else d * 2 ^ e in
    let qq := num / den in
    let sticky := negb (num mod den =? 0) in
    let drop := Z.log2 qq + 1 - prec in            (* 1 or 2 *)
    let m := qq / 2 ^ drop in
    let r := qq mod 2 ^ drop in
    let h := 2 ^ (drop - 1) in
    let up := if r <? h then false else if h <? r then true else if sticky then true else negb (Z.even m) in
    ((if up then m + 1 else m), e + drop).
  Definition ex_invp : Z * Z := rndq 1 p.
  (* floor (rn (a * invp)) for an integer a *)
  Definition ex_q (a : Z) : Z :=
    if a =? 0 then 0 else
    let '(m, e) := ex_invp in
    let '(m2, e2) := rndq (Z.abs a * m) (if e <? 0 then 2 ^ (- e) else 1) in
    let m2 := if e <? 0 then m2 else m2 * 2 ^ e in
    let v := Z.sgn a * m2 in
    if e2 <? 0 then v / 2 ^ (- e2) else v * 2 ^ e2.
  (* the value handed to the correction tail  if (a >= _p) a -= _p; else if (a < 0) a += _p;  (before the fma result is rounded) *)
  Definition ex_tail (a : Z) : Z := a - ex_q a * p.
  Definition ex_reduce (a : Z) : Z :=
    let r := rnd prec (ex_tail a) in
    if p <=? r then r - p else if r <? 0 then r + p else r.
  Definition ex_negin (r : Z) : Z := let x := - r in if x <? 0 then x + p else x.
  (* the exact native specialisations:  r = std::abs(a % intN_t(_lp)); if (a < 0) negin(r)   /   r = a % uintN_t(_lp) *)
  Definition ex_exact (sgn : bool) (a : Z) : option Z :=
    if sgn then let r := Z.abs (Z.rem a p) in Some (if a <? 0 then ex_negin r else r) else Some (a mod p).
  (* numeric_limits<T>::digits of an integral source *)
  Definition src_digits (s : src) : Z :=
    match s with SI T => if sg T then bits T - 1 else bits T | SLL sgn => if sgn then 63 else 64 | _ => 0 end.
  Definition src_signed (s : src) : bool := match s with SI T => sg T | SLL sgn => sgn | _ => false end.
  (* generic template (repaired, fix-13 b86ac06):
       if (is_integral<T> && digits(T) > digits(Element)) return init<Wide>(r, Caster<Wide>(a));   Wide = int64_t / uint64_t
       r = Caster<Element>(a); return reduce(r); *)
  Definition ex_generic (s : src) (a : Z) : option Z :=
    if prec <? src_digits s then ex_exact (src_signed s) (cast (Ity 64 (src_signed s)) a)
    else Some (ex_reduce (rnd prec a)).
  (* (repaired, fix-12: the specialisations are written for the deduced types and therefore selected) *)
  Definition ex_init (s : src) (a : Z) : option Z :=
    match s with
    | SInteger =>                                        (* r = a % _lp;  if (r < 0) r += _p *)
        let r := Z.rem a p in Some (if r <? 0 then r + p else r)
    | SF _ =>                                            (* r = fmod(a, _p); if (r < 0) r += _p   (float forwards to double) *)
        let r := Z.rem a p in Some (if r <? 0 then r + p else r)
    | SI T =>
        if (if prec =? 24 then 32 <=? bits T else bits T =? 64) then ex_exact (sg T) a
        else ex_generic (SI T) a
    | SLL sgn => ex_generic (SLL sgn) a
    | SRU _ => None
    end.
End Extended.

(* ================================================================== ring descriptors and the entry points of the driver *)
Inductive ring :=
| RModI (St : ity)            (* Modular<St, C>, St integral *)
| RModF (prec : Z)           (* Modular<float|double, C> *)
| RBalF (prec : Z)           (* ModularBalanced<float|double> *)
| RBalI (b : Z)              (* ModularBalanced<int32_t|int64_t> *)
| RExt (prec : Z)            (* ModularExtended<float|double> *)
| RMont32
| RModZ                      (* Modular<Integer> *)
| RModRU (K : Z)             (* Modular<ruint<K>, .> *)
| RGFq (b : Z)               (* GFqDom<int32_t|int64_t>, m = q = p^k *)
| RLog16.

(* init: raw element (index for the table rings) *)
Definition init (R : ring) (s : src) (m x : Z) : option Z :=
  match R with
  | RModI St => mi_init St m (ll_as_int s) x       (* templates selected by the properties of Source only *)
  | RModF prec => mf_init prec m (ll_as_int s) x
  | RBalF prec => bf_init m prec s x
  | RBalI b => bi_init m b s x
  | RExt prec => ex_init prec m s x
  | RMont32 => mg_init m s x
  | RModZ => Some (mz_init m x)
  | RModRU K => ru_init K m (ll_as_int s) x
  | RGFq b => gf_init b m s x
  | RLog16 => lg_init m s x
  end.

(* the integer an element stands for (what convert<Integer> returns) *)
Definition lift (R : ring) (m e : Z) : Z :=
  match R with
  | RMont32 => mg_lift m e
  | _ => e
  end.

(* canonical elements *)
Definition canonical (R : ring) (m e : Z) : Prop :=
  match R with
  | RBalF _ | RBalI _ => mhalfp m <= e <= halfp m
  | _ => 0 <= e < m
  end.

(* mOne as the constructors compute it *)
Definition mone (R : ring) (m : Z) : Z :=
  match R with
  | RModI St => mi_mone St m
  | RModF prec => mf_mone prec m
  | RBalF _ | RBalI _ => -1
  | RExt prec => rnd prec m - 1
  | RMont32 => mg_mone m
  | RModZ | RModRU _ => m - 1
  | RGFq _ | RLog16 => m - 1
  end.
Definition one (R : ring) (m : Z) : Z := match R with RMont32 => mg_one m | _ => 1 end.

(* Z-level wrappers for extraction: option as (flag, value) *)
Definition initZ (R : ring) (s : src) (m x : Z) : Z * Z :=
  match init R s m x with Some v => (1, v) | None => (0, 0) end.

(* harness/zio.ml (shared text I/O glue) mentions the extracted type nat *)
Definition zio_nat : nat := S O.
