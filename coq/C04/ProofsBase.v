(* C04: basic facts about the C conversions of Model.v *)
From Coq Require Import ZArith Bool Lia.
From C04 Require Import Model.
Local Open Scope Z_scope.
Ltac Zify.zify_post_hook ::= Z.to_euclidean_division_equations.

Lemma pow2_pos n : 0 <= n -> 0 < 2 ^ n.
Proof. intros; apply Z.pow_pos_nonneg; lia. Qed.
Lemma pow2_S n : 0 < n -> 2 ^ n = 2 * 2 ^ (n - 1).
Proof. intros. replace n with (Z.succ (n - 1)) at 1 by lia. rewrite Z.pow_succ_r by lia. reflexivity. Qed.
Lemma pow2_le a b : 0 <= a <= b -> 2 ^ a <= 2 ^ b.
Proof. intros; apply Z.pow_le_mono_r; lia. Qed.

Lemma wrapu_id n z : 0 <= n -> 0 <= z < 2 ^ n -> wrapu n z = z.
Proof. intros; unfold wrapu; apply Z.mod_small; lia. Qed.
Lemma wraps_id n z : 0 < n -> - 2 ^ (n - 1) <= z < 2 ^ (n - 1) -> wraps n z = z.
Proof.
  intros Hn Hz. unfold wraps. pose proof (pow2_S n Hn). pose proof (pow2_pos (n - 1) ltac:(lia)).
  rewrite Z.mod_small by lia. lia.
Qed.
Lemma wrapu_range n z : 0 <= n -> 0 <= wrapu n z < 2 ^ n.
Proof. intros; unfold wrapu; apply Z.mod_pos_bound; apply pow2_pos; lia. Qed.
Lemma wrapu_cong n z : 0 <= n -> (wrapu n z) mod 2 ^ n = z mod 2 ^ n.
Proof. intros; unfold wrapu; apply Z.mod_mod; pose proof (pow2_pos n); lia. Qed.

Definition wf (t : ity) : Prop := 0 < bits t.
Lemma tmin_le_tmax t : wf t -> tmin t <= 0 <= tmax t.
Proof.
  unfold wf, tmin, tmax; intros; destruct (sg t).
  - pose proof (pow2_pos (bits t - 1)); lia.
  - pose proof (pow2_pos (bits t)); lia.
Qed.
Lemma cast_id t z : wf t -> tmin t <= z <= tmax t -> cast t z = z.
Proof.
  unfold wf, cast, tmin, tmax; intros H Hz; destruct (sg t).
  - apply wraps_id; lia.
  - apply wrapu_id; lia.
Qed.
Lemma in_ty_spec t z : in_ty t z = true <-> tmin t <= z <= tmax t.
Proof. unfold in_ty; rewrite andb_true_iff, !Z.leb_le; tauto. Qed.
Lemma f2i_some t z : tmin t <= z <= tmax t -> f2i t z = Some z.
Proof. intros; unfold f2i; destruct (in_ty t z) eqn:E; auto. apply in_ty_spec in H; congruence. Qed.

(* a wider type holds every value of a narrower one (signed target, or both unsigned) *)
Lemma tmax_wider s t : wf s -> bits s < bits t -> tmax s <= tmax t /\ (sg t = true -> tmin t <= tmin s) /\ 2 ^ bits s <= tmax t + 1.
Proof.
  unfold wf, tmax, tmin; intros Hs Hb.
  pose proof (pow2_le (bits s) (bits t - 1) ltac:(lia)). pose proof (pow2_S (bits t) ltac:(lia)). pose proof (pow2_S (bits s) ltac:(lia)).
  pose proof (pow2_pos (bits s - 1) ltac:(lia)).
  destruct (sg s), (sg t); repeat split; intros; try discriminate; lia.
Qed.
Lemma promote_wf t : wf t -> wf (promote t).
Proof. unfold wf, promote; intros; destruct (bits t <? 32); cbn; lia. Qed.
Lemma promote_holds t z : wf t -> tmin t <= z <= tmax t -> tmin (promote t) <= z <= tmax (promote t).
Proof.
  unfold promote; intros Hw Hz; destruct (Z.ltb_spec (bits t) 32); auto.
  unfold wf, tmin, tmax in *. cbn [bits sg i32].
  change (2 ^ (32 - 1)) with 2147483648.
  pose proof (pow2_le (bits t) 31 ltac:(lia)). change (2 ^ 31) with 2147483648 in *.
  pose proof (pow2_S (bits t) ltac:(lia)). pose proof (pow2_pos (bits t - 1) ltac:(lia)).
  destruct (sg t); lia.
Qed.
(* |r| for a value whose negation is representable *)
Lemma cabs_abs t r : wf t -> tmin t < r <= tmax t -> cabs t r = Z.abs r.
Proof.
  intros Hw Hr. unfold cabs, cneg. destruct (Z.ltb_spec r 0); [|lia].
  rewrite cast_id; [lia | apply promote_wf; auto |].
  apply promote_holds; auto. pose proof (tmin_le_tmax t Hw). unfold tmin, tmax in *. destruct (sg t); lia.
Qed.

(* the int64_t negation idiom of the repaired generic templates *)
Lemma cast_i64_id z : - 2 ^ 63 <= z < 2 ^ 63 -> cast i64 z = z.
Proof. intros; apply cast_id; unfold wf, tmin, tmax; cbn; try change (2 ^ (64 - 1)) with (2 ^ 63); lia. Qed.
Lemma wabs_abs sgn y : (sgn = false -> 0 <= y) -> - 2 ^ 63 < y < 2 ^ 63 -> wabs sgn y = Z.abs y.
Proof.
  intros Hs Hy. unfold wabs. destruct sgn; [|specialize (Hs eq_refl); lia].
  destruct (Z.ltb_spec y 0); rewrite !cast_i64_id by (try rewrite cast_i64_id; lia); lia.
Qed.

(* rounding to a prec-bit significand is the identity below 2^prec *)
Lemma rnd_exact prec z : 0 < prec -> Z.abs z < 2 ^ prec -> rnd prec z = z.
Proof.
  intros Hp Hz. unfold rnd.
  destruct (Z.eq_dec z 0) as [->|Hnz]. { cbn. destruct (_ <=? 0); reflexivity. }
  assert (Z.log2 (Z.abs z) < prec) by (apply Z.log2_lt_pow2; lia).
  destruct (Z.leb_spec (Z.log2 (Z.abs z) + 1 - prec) 0); [reflexivity | lia].
Qed.

(* congruences *)
Lemma rem_cong y p : 0 < p -> (Z.rem y p) mod p = y mod p.
Proof. intros. pose proof (Z.rem_mod_eq_0 y p ltac:(lia)) as H0. 
  assert (exists k, y = Z.rem y p + k * p) as [k Hk] by (exists (Z.quot y p); pose proof (Z.quot_rem' y p); lia).
  rewrite Hk at 2. rewrite Z.mod_add by lia. reflexivity. Qed.
Lemma rem_bound y p : 0 < p -> - p < Z.rem y p < p /\ (0 <= y -> 0 <= Z.rem y p) /\ (y <= 0 -> Z.rem y p <= 0).
Proof. intros. pose proof (Z.rem_bound_pos (Z.abs y) p). lia. Qed.
