(* C04: the top-level dispatch.  `Model.init R s m x` selects, per ring family, the body an `F.init(e, (T)x)` call resolves to (the
   enable_if conditions of modular-integral.h, the overload sets / explicit specialisations of the other headers).  This file shows
   that the side conditions of the per-body theorems FOLLOW from the branch that selects the body, states the result as one theorem
   over (ring, source type), and derives init(convert(e)) = e for every family from the uniqueness of the canonical representative. *)
From Coq Require Import ZArith Bool Lia.
From C04 Require Import Model ProofsBase ProofsIntegral ProofsRings Redc ProofsMont ProofsExtended.
Local Open Scope Z_scope.

(* ------------------------------------------------------------------ Modular<integral>: the enable_if dispatch *)
(* which source values are in the claim: every value of every native integer type of at most 64 bits (INT64_MIN into unsigned
   storage excepted: not proved), every Integer, every integer-valued floating value when the modulus is a double *)
Definition mi_src_ok (St : ity) (p : Z) (s : src) (y : Z) : Prop :=
  match s with
  | SInteger => True
  | SI T => wf T /\ bits T <= 64 /\ in_range T y /\ (sg St = false -> sg T = true -> - 2 ^ 63 < y)
  | SF prec => rnd (fwide prec) p = p
  | _ => False
  end.
Lemma tmax_mono_same s b1 b2 : 0 < b1 <= b2 -> tmax (Ity b1 s) <= tmax (Ity b2 s) /\ tmin (Ity b2 s) <= tmin (Ity b1 s).
Proof.
  intros H. unfold tmax, tmin; cbn [sg bits]. pose proof (pow2_le b1 b2 ltac:(lia)). pose proof (pow2_le (b1 - 1) (b2 - 1) ltac:(lia)).
  destruct s; lia.
Qed.
Theorem mi_init_dispatch_correct St p s y : admissible St p -> bits St <= 64 -> mi_src_ok St p s y ->
  exists r, mi_init St p s y = Some r /\ residue p y r.
Proof.
  intros Hadm HbS H. pose proof (proj1 Hadm) as WS. unfold wf in WS.
  destruct s as [T|prec| |K|sgn]; cbn [mi_src_ok mi_init] in *; try contradiction.
  - destruct H as (WT & HbT & Hy & Hmin). unfold wf in WT.
    destruct (sg T) eqn:HsT; cbn [negb andb].
    + (* signed source *)
      destruct (Z.ltb_spec (bits St) (bits T)).
      * eexists; split; [reflexivity|]. apply mi_init_swide_correct; auto.
      * (* not wider: the generic bodies *)
        assert (- 2 ^ (bits St - 1) <= y <= 2 ^ (bits St - 1) - 1) as Hy'.
        { unfold in_range, tmin, tmax in Hy. rewrite HsT in Hy. pose proof (pow2_le (bits T - 1) (bits St - 1) ltac:(lia)). lia. }
        destruct (sg St) eqn:HsS; eexists; (split; [reflexivity|]).
        -- apply mi_init_gen_s_correct; auto. unfold in_range, tmin, tmax. rewrite HsS. lia.
        -- apply mi_init_gen_u_correct; auto.
           ++ specialize (Hmin eq_refl eq_refl). pose proof (pow2_le (bits St - 1) 63 ltac:(lia)). lia.
           ++ unfold tmax. rewrite HsS. pose proof (pow2_S (bits St) ltac:(lia)). pose proof (pow2_pos (bits St - 1) ltac:(lia)). lia.
    + (* unsigned source *)
      assert (0 <= y <= 2 ^ bits T - 1) as Hy0 by (unfold in_range, tmin, tmax in Hy; rewrite HsT in Hy; lia).
      destruct (Z.leb_spec (bits St) (bits T)); cbn [andb].
      * eexists; split; [reflexivity|]. apply mi_init_uwide_correct; auto.
      * assert (2 ^ bits T <= 2 ^ (bits St - 1)) as Hpw by (apply pow2_le; lia).
        destruct (sg St) eqn:HsS; eexists; (split; [reflexivity|]).
        -- apply mi_init_gen_s_correct; auto. unfold in_range, tmin, tmax. rewrite HsS. lia.
        -- apply mi_init_gen_u_correct; auto.
           ++ pose proof (pow2_le (bits St - 1) 63 ltac:(lia)). lia.
           ++ unfold tmax. rewrite HsS. pose proof (pow2_S (bits St) ltac:(lia)). lia.
  - destruct (sg St) eqn:HsS.
    + apply mi_init_float_s_correct; auto.
    + apply mi_init_float_u_correct; auto.
  - eexists; split; [reflexivity|]. apply mi_init_Integer_correct; auto.
Qed.

(* ------------------------------------------------------------------ remaining per-family source predicates *)
Definition ru_src_ok (K : Z) (s : src) (a : Z) : Prop :=
  match s with
  | SInteger | SF _ => True
  | SI T => in_range T a /\ - 2 ^ 63 < a < 2 ^ 64 /\ (sg T = true -> a < 2 ^ 63)
  | SRU _ => 0 <= a < 2 ^ (2 ^ K)                  (* a ruint<K'> value the element type holds *)
  | _ => False
  end.
Theorem ru_init_dispatch_correct K p s a : 6 <= K -> 2 <= p < 2 ^ (2 ^ K) -> ru_src_ok K s a ->
  exists r, ru_init K p s a = Some r /\ residue p a r.
Proof.
  intros HK Hp H. destruct s as [T|prec| |K'|sgn]; cbn [ru_src_ok] in H; try contradiction.
  - destruct H as (H1 & H2 & H3). apply ru_init_int_correct; auto.
  - apply ru_init_float_correct; auto.
  - apply ru_init_Integer_correct; auto.
  - cbn [ru_init]. eexists; split; [reflexivity|]. apply ru_fin; auto; lia.
Qed.
Definition gf_src_ok (b q : Z) (s : src) (x : Z) : Prop :=
  match s with
  | SInteger => True
  | SI T => (sg T = false /\ 32 <= bits T /\ 0 <= x) \/ (sg T = true /\ 0 < bits T <= 64 /\ q <= 2 ^ 62 /\ in_range T x)
  | SF _ => b = 32 /\ q <= 2 ^ 31
  | _ => False
  end.
Theorem gf_init_dispatch_correct b q s x : 2 <= q -> gf_src_ok b q s x -> gf_init b q s x = Some (x mod q).
Proof.
  intros Hq H. destruct s as [T|prec| |K'|sgn]; cbn [gf_src_ok] in H; try contradiction.
  - destruct H as [(H1 & H2 & H3)|(H1 & H2 & H3 & H4)]; [apply gf_init_unsigned_correct | apply gf_init_signed_correct]; auto.
  - destruct H as [-> H2]. apply gf_init_float_correct; lia.
  - apply gf_init_Integer_correct; auto.
Qed.
Definition lg_src_ok (s : src) (a : Z) : Prop :=
  match s with
  | SF _ => True
  | SI T => (sg T || (bits T <? 16)) = true /\ in_range i64 a
  | SInteger => 0 <= a
  | _ => False
  end.
Lemma lg_init_Integer_nonneg p a : 2 <= p < 2 ^ 15 -> 0 <= a -> lg_init p SInteger a = Some (a mod p).
Proof.
  intros Hp Ha. cbn [lg_init]. change (2 ^ 15) with 32768 in Hp. destruct (Z.ltb_spec a 0); [lia|].
  assert (forall i, 0 <= i < p -> lg_idx p (cast i16 i) = Some i) as Hidx.
  { intros i Hi. rewrite cast_id by (unfold wf, tmin, tmax; cbn; lia). unfold lg_idx.
    replace ((0 <=? i) && (i <? p)) with true; auto. symmetry; apply andb_true_iff; split; [apply Z.leb_le|apply Z.ltb_lt]; lia. }
  destruct (Z.leb_spec p a).
  - apply Hidx. apply Z.mod_pos_bound; lia.
  - rewrite Hidx by lia. rewrite Z.mod_small by lia. reflexivity.
Qed.
Theorem lg_init_dispatch_correct p s a : 2 <= p < 2 ^ 15 -> lg_src_ok s a -> lg_init p s a = Some (a mod p).
Proof.
  intros Hp H. destruct s as [T|prec| |K'|sgn]; cbn [lg_src_ok] in H; try contradiction.
  - destruct H as [E Hr]. cbn [lg_init]. rewrite E. apply lg_init_i64_correct; auto.
  - apply lg_init_float_correct; auto.
  - apply lg_init_Integer_nonneg; auto.
Qed.

(* ------------------------------------------------------------------ one statement over (ring, source type) *)
Definition ring_ok (R : ring) (m : Z) : Prop :=
  match R with
  | RModI St => admissible St m /\ bits St <= 64
  | RModF prec => 0 < prec /\ 2 <= m <= 2 ^ prec
  | RBalF _ => 3 <= m
  | RBalI b => 3 <= m /\ 0 < b /\ m <= tmax (Ity b true)
  | RExt prec => 1 < prec /\ 2 <= m <= 2 ^ (prec - 1)
  | RMont32 => 3 <= m <= 40503 /\ Z.odd m = true
  | RModZ => 0 < m
  | RModRU K => 6 <= K /\ 2 <= m < 2 ^ (2 ^ K)
  | RGFq _ => 2 <= m
  | RLog16 => 2 <= m < 2 ^ 15
  end.
Definition src_ok (R : ring) (m : Z) (s : src) (x : Z) : Prop :=
  match R with
  | RModI St => mi_src_ok St m (ll_as_int s) x
  | RModF prec => mf_src_ok prec m (ll_as_int s) x
  | RBalF prec => bf_src_ok prec s x
  | RBalI b => bi_src_ok b s x
  | RExt prec => ex_every_ok prec s x
  | RMont32 => mg_src_ok s x
  | RModZ => True
  | RModRU K => ru_src_ok K (ll_as_int s) x
  | RGFq b => gf_src_ok b m s x
  | RLog16 => lg_src_ok s x
  end.
(* what init must produce: the canonical element whose lift is congruent to x (table rings: the table index x mod q) *)
Definition image_ok (R : ring) (m x r : Z) : Prop :=
  match R with
  | RGFq _ | RLog16 => r = x mod m
  | RBalF _ | RBalI _ => balanced m x r
  | RMont32 => 0 <= r < m /\ residue m x (mg_lift m r)
  | _ => residue m x r
  end.
Theorem init_dispatch_correct R s m x : ring_ok R m -> src_ok R m s x -> exists r, init R s m x = Some r /\ image_ok R m x r.
Proof.
  destruct R; cbn [ring_ok src_ok init image_ok]; intros HR HS.
  - destruct HR. apply mi_init_dispatch_correct; auto.
  - destruct HR. apply mf_init_correct; auto.
  - apply bf_init_correct; auto.
  - destruct HR as (H1 & H2 & H3). apply bi_init_correct; auto.
  - destruct HR. apply ex_init_every_source; auto.
  - destruct HR. apply mg_init_correct; auto.
  - eexists; split; [reflexivity|]. apply mz_init_correct; auto.
  - destruct HR. apply ru_init_dispatch_correct; auto.
  - eexists; split; [apply gf_init_dispatch_correct; eauto|reflexivity].
  - eexists; split; [apply lg_init_dispatch_correct; eauto|reflexivity].
Qed.

(* ------------------------------------------------------------------ init(convert(e)) = e, every family (Integer route) *)
Lemma residue_unique p e r : 0 <= e < p -> residue p e r -> r = e.
Proof. intros He [Hr Hc]. rewrite <- (Z.mod_small r p), <- (Z.mod_small e p) by lia. exact Hc. Qed.
Lemma balanced_unique p e r : 3 <= p -> mhalfp p <= e <= halfp p -> balanced p e r -> r = e.
Proof.
  unfold balanced, mhalfp, halfp. intros Hp He [Hr Hc].
  pose proof (Z.div_mod r p ltac:(lia)). pose proof (Z.div_mod e p ltac:(lia)).
  assert (r - e = p * (r / p - e / p)) as E by lia.
  assert (- p < r - e < p) as B by lia.
  assert (r / p - e / p = 0) by nia. lia.
Qed.
Theorem init_convert_identity R m e : ring_ok R m -> canonical R m e -> init R SInteger m (lift R m e) = Some e.
Proof.
  intros HR HC.
  assert (src_ok R m SInteger (lift R m e) \/ R = RMont32) as HS.
  { destruct R; cbn [src_ok ll_as_int mi_src_ok mf_src_ok bf_src_ok bi_src_ok mg_src_ok ru_src_ok gf_src_ok lg_src_ok lift canonical] in *;
      auto; try (left; exact I); try (left; left; exact I). left. lia. }
  destruct (init_dispatch_correct R SInteger m (lift R m e) HR) as (r & Hi & Him).
  { destruct HS as [HS| ->]; [exact HS | exact I]. }
  rewrite Hi. f_equal.
  destruct R; cbn [image_ok lift canonical ring_ok] in *;
    try (apply (residue_unique m); [lia | exact Him]);
    try (apply (balanced_unique m); [lia | exact HC | exact Him]);
    try (rewrite Him; apply Z.mod_small; lia).
  (* Montgomery: e = image of its own lift *)
  destruct HR as [H1 H2]. destruct Him as [Hr Hres].
  destruct (mg_from_to m H1 H2 e HC) as [Hl Hback].
  pose proof (residue_unique m (mg_lift m e) (mg_lift m r) Hl Hres) as E.
  destruct (mg_from_to m H1 H2 r Hr) as [_ Hb2]. rewrite <- Hb2, E. exact Hback.
Qed.

(* the hypotheses are satisfiable *)
Example ring_ok_sat : ring_ok (RModI i64) (2 ^ 63 - 1) /\ ring_ok (RModF 24) (2 ^ 24) /\ ring_ok (RExt 53) (2 ^ 50 - 1) /\ ring_ok RMont32 40503 /\
  ring_ok (RModRU 7) (2 ^ 127) /\ ring_ok RLog16 32749 /\ ring_ok (RBalI 32) 65521.
Proof. vm_compute. repeat split; try reflexivity; discriminate. Qed.
Example src_ok_sat : src_ok (RModI u64) 101 (SI i32) (- 2 ^ 31) /\ src_ok (RModI i8) 127 (SLL false) (2 ^ 64 - 1) /\ src_ok (RModI i64) 101 (SF 24) (2 ^ 100) /\
  src_ok RMont32 101 (SI i32) 5 /\ src_ok RMont32 101 (SLL true) (- 2 ^ 63) /\ src_ok (RModRU 7) 101 (SF 53) (- 2 ^ 100) /\ src_ok RLog16 101 (SI i16) (-3).
Proof.
  vm_compute. repeat split; try reflexivity; try discriminate; try (intros; discriminate);
    try (right; repeat split; try reflexivity; discriminate).
Qed.
Example src_ok_sat2 : src_ok (RModF 24) (2 ^ 24) (SI i64) (- 2 ^ 63) /\ src_ok (RModF 53) 94906266 (SF 53) (2 ^ 200) /\ src_ok (RBalF 53) 101 (SLL false) (2 ^ 64 - 1) /\
  src_ok (RBalI 32) 65521 (SI u32) (2 ^ 32 - 1) /\ src_ok (RExt 53) 49 (SI i32) 98 /\ src_ok (RExt 24) 49 SInteger (- 10 ^ 30) /\
  src_ok (RGFq 32) 65521 (SF 53) (2 ^ 100) /\ src_ok (RGFq 64) 1048573 (SI i64) (- 2 ^ 63) /\ src_ok (RModI i64) (2 ^ 53) (SF 53) (- 2 ^ 300) /\ rnd 53 (2 ^ 53) = 2 ^ 53.
Proof.
  vm_compute. repeat split; try reflexivity; try discriminate; try (intros; discriminate); try (left; reflexivity);
    try (right; repeat split; try reflexivity; try discriminate; intros H; try reflexivity; exfalso; apply H; reflexivity);
    try (left; repeat split; try reflexivity; discriminate).
Qed.
