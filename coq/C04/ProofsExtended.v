(* C04: the in-place `reduce` of ModularExtended<float|double> (modular-extended.inl:246-299), which the generic
   template  init(Element& r, T a) { r = Caster<Element>(a); return reduce(r); }  relies on:
       q = floor(a * _invp);  a = fma(-q, _p, a);  if (a >= _p) a -= _p; else if (a < 0) a += _p;
   with _invp = 1/p ROUNDED and the product a * _invp ROUNDED (Model.ex_q keeps both roundings).
   Result: for every precision, every modulus 2 <= p <= 2^(prec-1) (maxCardinality = 2^(prec-3) - 1) and every integer
   |a| < 2^prec (every value the element type holds exactly) the quotient estimate is off by at most one in either direction,
   the value handed to the correction tail lies in [-p, 2p) -- both ends are attained, in particular the value p itself, which
   is why the upper comparison must be `>=` -- and one correction step yields a mod p. *)
From Coq Require Import ZArith Bool Lia.
From C04 Require Import Model ProofsBase ProofsIntegral.
Local Open Scope Z_scope.

(* ------------------------------------------------------------------ a dyadic pair (m, e) read as the fraction vnum / vden *)
Definition vnum (me : Z * Z) : Z := if snd me <? 0 then fst me else fst me * 2 ^ snd me.
Definition vden (me : Z * Z) : Z := if snd me <? 0 then 2 ^ (- snd me) else 1.

Lemma pow2_add a b : 0 <= a -> 0 <= b -> 2 ^ (a + b) = 2 ^ a * 2 ^ b.
Proof. intros; apply Z.pow_add_r; lia. Qed.

(* the rounding decision of rndq: nearest, ties to even, with a sticky bit *)
Lemma round_decision m h r X rr :
  0 <= m -> 0 < h -> 0 <= r < 2 * h -> 0 < X -> 0 <= rr < X ->
  let up := if r <? h then false else if h <? r then true else if negb (rr =? 0) then true else negb (Z.even m) in
  let M := if up then m + 1 else m in
  Z.abs (M * (2 * h) * X - ((m * (2 * h) + r) * X + rr)) <= h * X.
Proof.
  intros Hm Hh Hr HX Hrr. cbv zeta.
  assert (forall M, M * (2 * h) * X - ((m * (2 * h) + r) * X + rr) = (M - m) * 2 * (h * X) - r * X - rr) as E by (intros; ring).
  destruct (Z.ltb_spec r h) as [Hlt|Hge].
  - rewrite E. replace ((m - m) * 2 * (h * X)) with 0 by ring.
    assert (r * X <= (h - 1) * X) by (apply Z.mul_le_mono_nonneg_r; lia).
    assert (0 <= r * X) by (apply Z.mul_nonneg_nonneg; lia). lia.
  - destruct (Z.ltb_spec h r) as [Hgt|Hle].
    + rewrite E. replace ((m + 1 - m) * 2 * (h * X)) with (2 * (h * X)) by ring.
      assert ((h + 1) * X <= r * X) by (apply Z.mul_le_mono_nonneg_r; lia).
      assert (r * X <= (2 * h - 1) * X) by (apply Z.mul_le_mono_nonneg_r; lia). lia.
    + assert (r = h) as -> by lia.
      destruct (Z.eqb_spec rr 0) as [->|Hnz]; cbn [negb].
      * destruct (Z.even m); cbn [negb]; rewrite E.
        -- replace ((m - m) * 2 * (h * X)) with 0 by ring. assert (0 < h * X) by (apply Z.mul_pos_pos; lia). lia.
        -- replace ((m + 1 - m) * 2 * (h * X)) with (2 * (h * X)) by ring. assert (0 < h * X) by (apply Z.mul_pos_pos; lia). lia.
      * rewrite E. replace ((m + 1 - m) * 2 * (h * X)) with (2 * (h * X)) by ring.
        assert (X <= h * X) by (replace X with (1 * X) at 1 by ring; apply Z.mul_le_mono_nonneg_r; lia). lia.
Qed.

Section Rndq.
  Variable prec : Z.
  Hypothesis Hprec : 0 < prec.

  (* rndq n d is within half a unit in the last place of n/d, hence within relative error 2^-prec:
         2^prec * | vnum/vden - n/d | <= n/d        (stated without divisions) *)
  Lemma rndq_spec n d : 0 < n -> 0 < d -> Z.log2 n - Z.log2 d < prec + 1 ->
    let me := rndq prec n d in
    0 < vnum me /\ 0 < vden me /\ 2 ^ prec * Z.abs (vnum me * d - n * vden me) <= n * vden me.
  Proof.
    intros Hn Hd He. unfold rndq.
    set (k := Z.log2 n - Z.log2 d). set (e := k - prec - 1).
    assert (e < 0) as Heneg by (unfold e, k; lia).
    destruct (Z.ltb_spec e 0) as [_|]; [|lia].
    set (num := n * 2 ^ (- e)). set (qq := num / d).
    set (drop := Z.log2 qq + 1 - prec). set (m := qq / 2 ^ drop). set (r := qq mod 2 ^ drop). set (h := 2 ^ (drop - 1)).
    pose proof (Z.log2_nonneg n) as Hln. pose proof (Z.log2_nonneg d) as Hld.
    pose proof (Z.log2_spec n Hn) as [Hn1 Hn2]. pose proof (Z.log2_spec d Hd) as [Hd1 Hd2].
    (* F1: 2^prec * d <= num *)
    assert (2 ^ prec * d <= num) as F1.
    { unfold num. replace (- e) with (prec + 1 + Z.log2 d - Z.log2 n) by (unfold e, k; lia).
      assert (2 ^ (prec + 1 + Z.log2 d) <= n * 2 ^ (prec + 1 + Z.log2 d - Z.log2 n)) as A.
      { replace (prec + 1 + Z.log2 d) with (Z.log2 n + (prec + 1 + Z.log2 d - Z.log2 n)) at 1 by lia.
        rewrite pow2_add by (unfold e, k in Heneg; lia). apply Z.mul_le_mono_nonneg_r; [apply Z.pow_nonneg|]; lia. }
      assert (2 ^ prec * d <= 2 ^ (prec + 1 + Z.log2 d)) as B.
      { replace (prec + 1 + Z.log2 d) with (prec + Z.succ (Z.log2 d)) by lia. rewrite pow2_add by lia.
        apply Z.mul_le_mono_nonneg_l; [apply Z.pow_nonneg|]; lia. }
      lia. }
    pose proof (pow2_pos prec ltac:(lia)) as HU.
    assert (2 ^ prec <= qq) as F2 by (unfold qq; apply Z.div_le_lower_bound; lia).
    assert (0 < qq) as Hqq by lia.
    pose proof (Z.log2_spec qq Hqq) as [Hq1 Hq2].
    assert (prec <= Z.log2 qq) as HL by (apply Z.log2_le_pow2; lia).
    assert (1 <= drop) as Hdrop by (unfold drop; lia).
    assert (2 ^ drop = 2 * h) as H2h by (unfold h; apply pow2_S; lia).
    assert (0 < h) as Hh by (unfold h; apply pow2_pos; lia).
    assert (2 ^ (prec - 1) <= m) as F3.
    { unfold m. apply Z.div_le_lower_bound; [lia|].
      replace (2 ^ drop * 2 ^ (prec - 1)) with (2 ^ Z.log2 qq); [lia|].
      replace (Z.log2 qq) with (drop + (prec - 1)) at 1 by (unfold drop; lia). apply pow2_add; lia. }
    pose proof (pow2_pos (prec - 1) ltac:(lia)) as HU1.
    assert (2 ^ prec = 2 * 2 ^ (prec - 1)) as HU2 by (apply pow2_S; lia).
    pose proof (Z.div_mod qq (2 ^ drop) ltac:(lia)) as Hdm. fold m r in Hdm.
    pose proof (Z.mod_pos_bound qq (2 ^ drop) ltac:(lia)) as Hrb. fold r in Hrb.
    pose proof (Z.div_mod num d ltac:(lia)) as Hnd. fold qq in Hnd.
    pose proof (Z.mod_pos_bound num d ltac:(lia)) as Hrr.
    set (rr := num mod d) in *.
    set (up := if r <? h then false else if h <? r then true else if negb (rr =? 0) then true else negb (Z.even m)).
    set (M := if up then m + 1 else m).
    (* half-ulp bound in the scaled numbers *)
    assert (Z.abs (M * (2 * h) * d - num) <= h * d) as F4.
    { pose proof (round_decision m h r d rr ltac:(lia) Hh ltac:(lia) Hd Hrr) as RD. cbv zeta in RD. fold up M in RD.
      replace num with ((m * (2 * h) + r) * d + rr); [exact RD|]. rewrite Hnd, Hdm, H2h. ring. }
    assert (2 ^ prec * (h * d) <= num) as F5.
    { assert (2 ^ (prec - 1) * (2 * h) <= qq).
      { rewrite Hdm, H2h. assert (2 ^ (prec - 1) * (2 * h) <= m * (2 * h)) by (apply Z.mul_le_mono_nonneg_r; lia). lia. }
      assert (2 ^ (prec - 1) * (2 * h) * d <= qq * d) by (apply Z.mul_le_mono_nonneg_r; lia).
      rewrite HU2. replace (2 * 2 ^ (prec - 1) * (h * d)) with (2 ^ (prec - 1) * (2 * h) * d) by ring. lia. }
    assert (0 < M) as HM by (unfold M; destruct up; lia).
    (* back to the pair (M, e + drop) *)
    unfold vnum, vden. cbn [fst snd].
    destruct (Z.ltb_spec (e + drop) 0) as [HE|HE].
    - (* E < 0: num = n * 2^(-E) * 2^drop *)
      assert (num = n * 2 ^ (- (e + drop)) * (2 * h)) as Hnum.
      { unfold num. rewrite <- H2h. replace (- e) with (- (e + drop) + drop) by lia. rewrite pow2_add by lia. ring. }
      pose proof (pow2_pos (- (e + drop)) ltac:(lia)) as HD.
      split; [lia|]. split; [lia|].
      set (D := 2 ^ (- (e + drop))) in *.
      assert (M * (2 * h) * d - num = (2 * h) * (M * d - n * D)) as E1 by (rewrite Hnum; ring).
      rewrite E1, Z.abs_mul, (Z.abs_eq (2 * h)) in F4 by lia.
      (* 2^prec * (2h * |..|) <= 2^prec * h * d <= num = n * D * 2h *)
      assert (2 ^ prec * (2 * h * Z.abs (M * d - n * D)) <= n * D * (2 * h)) as G.
      { rewrite <- Hnum. eapply Z.le_trans; [|exact F5]. apply Z.mul_le_mono_nonneg_l; lia. }
      replace (2 ^ prec * (2 * h * Z.abs (M * d - n * D))) with ((2 ^ prec * Z.abs (M * d - n * D)) * (2 * h)) in G by ring.
      apply Z.mul_le_mono_pos_r in G; lia.
    - (* E >= 0: 2^drop = 2^(-e) * 2^E *)
      assert (2 * h = 2 ^ (- e) * 2 ^ (e + drop)) as H2.
      { rewrite <- H2h. replace drop with (- e + (e + drop)) at 1 by lia. apply pow2_add; lia. }
      pose proof (pow2_pos (- e) ltac:(lia)) as HD. pose proof (pow2_pos (e + drop) HE) as HE2.
      split; [apply Z.mul_pos_pos; lia|]. split; [lia|].
      set (D := 2 ^ (- e)) in *. set (T := 2 ^ (e + drop)) in *.
      assert (M * (2 * h) * d - num = D * (M * T * d - n * 1)) as E1 by (unfold num; rewrite H2; ring).
      rewrite E1, Z.abs_mul, (Z.abs_eq D) in F4 by lia.
      assert (2 ^ prec * (D * Z.abs (M * T * d - n * 1)) <= n * 1 * D) as G.
      { replace (n * 1 * D) with num by (unfold num; ring). eapply Z.le_trans; [|exact F5]. apply Z.mul_le_mono_nonneg_l; lia. }
      replace (2 ^ prec * (D * Z.abs (M * T * d - n * 1))) with ((2 ^ prec * Z.abs (M * T * d - n * 1)) * D) in G by ring.
      apply Z.mul_le_mono_pos_r in G; lia.
  Qed.
End Rndq.

(* ------------------------------------------------------------------ the quotient estimate and the correction tail *)
Section Reduce.
  Variables prec p : Z.
  Hypothesis Hprec : 1 < prec.
  Hypothesis Hp : 2 <= p <= 2 ^ (prec - 1).

  (* two rounded operations: the estimate of |a|/p is within 1 of the true quotient *)
  Lemma estimate_within_one U N1 D1 N2 D2 A :
    0 < U -> 0 < D1 -> 0 < D2 -> 0 < N1 -> 0 <= A <= U - 1 ->
    U * Z.abs (N1 * p - D1) <= D1 ->
    U * Z.abs (N2 * D1 - A * N1 * D2) <= A * N1 * D2 ->
    Z.abs (N2 * p - A * D2) <= p * D2.
  Proof.
    intros HU HD1 HD2 HN1 HA H1 H2.
    set (x := N1 * p - D1) in *. set (y := N2 * D1 - A * N1 * D2) in *.
    set (c := A * D2). assert (0 <= c) as Hc by (unfold c; apply Z.mul_nonneg_nonneg; lia).
    assert (D1 * (N2 * p - A * D2) = p * y + c * x) as Id by (unfold x, y, c; ring).
    (* U * N1 * p <= (U + 1) * D1 *)
    assert (U * (N1 * p) <= (U + 1) * D1) as B1 by (unfold x in H1; lia).
    (* U^2 * D1 * |N2 p - A D2| <= U*p*(U*|y|) + U*c*(U*|x|) *)
    assert (Z.abs (D1 * (N2 * p - A * D2)) <= p * Z.abs y + c * Z.abs x) as T.
    { rewrite Id. eapply Z.le_trans; [apply Z.abs_triangle|]. rewrite !Z.abs_mul. rewrite (Z.abs_eq p), (Z.abs_eq c) by lia. lia. }
    rewrite Z.abs_mul, (Z.abs_eq D1) in T by lia.
    assert (U * p * (U * Z.abs y) <= U * p * (A * N1 * D2)) as S1 by (apply Z.mul_le_mono_nonneg_l; [apply Z.mul_nonneg_nonneg|]; lia).
    assert (U * c * (U * Z.abs x) <= U * c * D1) as S2 by (apply Z.mul_le_mono_nonneg_l; [apply Z.mul_nonneg_nonneg|]; lia).
    assert (U * p * (A * N1 * D2) = c * (U * (N1 * p))) as E3 by (unfold c; ring).
    assert (c * (U * (N1 * p)) <= c * ((U + 1) * D1)) as S3 by (apply Z.mul_le_mono_nonneg_l; lia).
    assert (U * U * (D1 * Z.abs (N2 * p - A * D2)) <= U * U * (p * Z.abs y + c * Z.abs x)) as S4
        by (apply Z.mul_le_mono_nonneg_l; [apply Z.mul_nonneg_nonneg|]; lia).
    assert (U * U * (p * Z.abs y + c * Z.abs x) = U * p * (U * Z.abs y) + U * c * (U * Z.abs x)) as E4 by ring.
    (* total <= c * D1 * (2U + 1) <= (U - 1)(2U + 1) D2 D1 <= 2 U^2 D1 D2 <= p U^2 D1 D2 *)
    assert (U * U * (D1 * Z.abs (N2 * p - A * D2)) <= c * D1 * (2 * U + 1)) as S5.
    { replace (c * D1 * (2 * U + 1)) with (c * ((U + 1) * D1) + U * c * D1) by ring. lia. }
    assert (c * D1 * (2 * U + 1) <= U * U * (D1 * (p * D2))) as S6.
    { assert (c <= (U - 1) * D2) by (unfold c; apply Z.mul_le_mono_nonneg_r; lia).
      assert (0 < D1 * D2) by (apply Z.mul_pos_pos; lia).
      assert (c * D1 * (2 * U + 1) <= (U - 1) * D2 * D1 * (2 * U + 1)).
      { apply Z.mul_le_mono_nonneg_r; [lia|]. apply Z.mul_le_mono_nonneg_r; lia. }
      assert ((U - 1) * D2 * D1 * (2 * U + 1) <= U * U * (D1 * (p * D2))); [|lia].
      assert ((U - 1) * D2 * D1 * (2 * U + 1) = (2 * (U * U) - U - 1) * (D1 * D2)) as -> by ring.
      assert (U * U * (D1 * (p * D2)) = (p * (U * U)) * (D1 * D2)) as -> by ring.
      apply Z.mul_le_mono_nonneg_r; [lia|].
      assert (0 < U * U) by (apply Z.mul_pos_pos; lia).
      assert (2 * (U * U) <= p * (U * U)) by (apply Z.mul_le_mono_nonneg_r; lia). lia. }
    assert (U * U * (D1 * Z.abs (N2 * p - A * D2)) <= U * U * (D1 * (p * D2))) as S7 by lia.
    assert (0 < U * U * D1) by (repeat apply Z.mul_pos_pos; lia).
    replace (U * U * (D1 * Z.abs (N2 * p - A * D2))) with (Z.abs (N2 * p - A * D2) * (U * U * D1)) in S7 by ring.
    replace (U * U * (D1 * (p * D2))) with (p * D2 * (U * U * D1)) in S7 by ring.
    apply Z.mul_le_mono_pos_r in S7; lia.
  Qed.

  (* floor of a fraction within 1 of a/p gives a quotient off by at most one *)
  Lemma floor_within_one a N D q : 0 < D ->
    Z.abs (N * p - a * D) <= p * D -> q * D <= N < (q + 1) * D -> - p <= a - q * p < 2 * p.
  Proof.
    intros HD HN [Hq1 Hq2].
    assert (q * D * p <= N * p) by (apply Z.mul_le_mono_nonneg_r; lia).
    assert (N * p < (q + 1) * D * p) by (apply Z.mul_lt_mono_pos_r; lia).
    split.
    - (* q p D <= N p <= a D + p D *)
      assert ((q * p) * D <= (a + p) * D) by lia.
      apply Z.mul_le_mono_pos_r in H1; lia.
    - assert ((a - p) * D < ((q + 1) * p) * D) by lia.
      apply Z.mul_lt_mono_pos_r in H1; lia.
  Qed.

  Lemma ex_invp_spec : let me := ex_invp prec p in
    snd me < 0 /\ 0 < fst me /\ 2 ^ prec * Z.abs (fst me * p - 2 ^ (- snd me)) <= 2 ^ (- snd me) /\ fst me <= 2 ^ (- snd me).
  Proof.
    cbv zeta. unfold ex_invp.
    pose proof (rndq_spec prec ltac:(lia) 1 p ltac:(lia) ltac:(lia)) as S.
    assert (Z.log2 1 - Z.log2 p < prec + 1) as He by (pose proof (Z.log2_nonneg p); change (Z.log2 1) with 0; lia).
    specialize (S He). cbv zeta in S. destruct (rndq prec 1 p) as [m e]. unfold vnum, vden in S. cbn [fst snd] in *.
    pose proof (pow2_pos prec ltac:(lia)) as HU.
    assert (2 <= 2 ^ prec) by (pose proof (pow2_S prec ltac:(lia)); pose proof (pow2_pos (prec - 1) ltac:(lia)); lia).
    destruct (Z.ltb_spec e 0) as [He0|He0].
    - destruct S as (S1 & S2 & S3). rewrite Z.mul_1_l in S3. repeat split; try lia.
      set (D := 2 ^ (- e)) in *.
      assert (2 * Z.abs (m * p - D) <= 2 ^ prec * Z.abs (m * p - D)) by (apply Z.mul_le_mono_nonneg_r; lia).
      assert (m * p <= 2 * D) by lia. assert (m * 2 <= m * p) by (apply Z.mul_le_mono_nonneg_l; lia). lia.
    - exfalso. destruct S as (S1 & S2 & S3). rewrite !Z.mul_1_l in S3.
      assert (1 * 2 <= m * 2 ^ e * p) by (apply Z.mul_le_mono_nonneg; lia).
      assert (2 * Z.abs (m * 2 ^ e * p - 1) <= 2 ^ prec * Z.abs (m * 2 ^ e * p - 1)) by (apply Z.mul_le_mono_nonneg_r; lia). lia.
  Qed.

  (* the quotient estimate *)
  Lemma ex_q_within_one a : Z.abs a < 2 ^ prec -> - p <= a - ex_q prec p a * p < 2 * p.
  Proof.
    intros Ha. unfold ex_q. destruct (Z.eqb_spec a 0) as [->|Hnz]; [lia|].
    pose proof ex_invp_spec as I. cbv zeta in I. destruct (ex_invp prec p) as [m1 e1]. cbn [fst snd] in I.
    destruct I as (He1 & Hm1 & I1 & I2).
    destruct (Z.ltb_spec e1 0) as [_|]; [|lia].
    set (D1 := 2 ^ (- e1)) in *. assert (0 < D1) as HD1 by (unfold D1; apply pow2_pos; lia).
    set (A := Z.abs a). assert (0 < A) as HA by (unfold A; lia).
    pose proof (pow2_pos prec ltac:(lia)) as HU.
    assert (0 < A * m1) as Hn2 by (apply Z.mul_pos_pos; lia).
    assert (Z.log2 (A * m1) - Z.log2 D1 < prec + 1) as He.
    { unfold D1. rewrite Z.log2_pow2 by lia.
      assert (Z.log2 (A * m1) < prec + - e1); [|lia]. apply Z.log2_lt_pow2; [lia|]. rewrite pow2_add by lia. fold D1.
      assert (A * m1 <= A * D1) by (apply Z.mul_le_mono_nonneg_l; lia).
      assert (A * D1 < 2 ^ prec * D1) by (apply Z.mul_lt_mono_pos_r; unfold A; lia). lia. }
    pose proof (rndq_spec prec ltac:(lia) (A * m1) D1 Hn2 HD1 He) as S. cbv zeta in S.
    destruct (rndq prec (A * m1) D1) as [m2 e2]. unfold vnum, vden in S. cbn [fst snd] in S.
    set (N2 := if e2 <? 0 then m2 else m2 * 2 ^ e2) in *. set (D2 := if e2 <? 0 then 2 ^ (- e2) else 1) in *.
    destruct S as (HN2 & HD2 & S3).
    assert (Z.abs (N2 * p - A * D2) <= p * D2) as W.
    { apply (estimate_within_one (2 ^ prec) m1 D1 N2 D2 A); unfold A in *; lia. }
    (* q = floor (sgn a * N2 / D2) *)
    set (q := if e2 <? 0 then Z.sgn a * m2 / 2 ^ (- e2) else Z.sgn a * m2 * 2 ^ e2).
    assert (q * D2 <= Z.sgn a * N2 < (q + 1) * D2) as Hq.
    { unfold q, N2, D2. destruct (Z.ltb_spec e2 0).
      - pose proof (pow2_pos (- e2) ltac:(lia)) as HD. pose proof (Z.div_mod (Z.sgn a * m2) (2 ^ (- e2)) ltac:(lia)).
        pose proof (Z.mod_pos_bound (Z.sgn a * m2) (2 ^ (- e2)) HD). lia.
      - lia. }
    apply (floor_within_one a (Z.sgn a * N2) D2 q HD2); [|exact Hq].
    replace (Z.sgn a * N2 * p - a * D2) with (Z.sgn a * (N2 * p - A * D2)).
    - rewrite Z.abs_mul. assert (Z.abs (Z.sgn a) = 1) as -> by lia. lia.
    - unfold A. replace (a * D2) with (Z.sgn a * Z.abs a * D2) by (rewrite (Z.mul_comm (Z.sgn a)), Z.abs_sgn; reflexivity). ring.
  Qed.

  (* one correction step is enough, and both comparisons are needed as written *)
  Theorem ex_reduce_correct a : Z.abs a < 2 ^ prec -> residue p a (ex_reduce prec p a).
  Proof.
    intros Ha. pose proof (ex_q_within_one a Ha) as Hr. unfold ex_reduce, ex_tail.
    set (q := ex_q prec p a) in *.
    assert (2 ^ prec = 2 * 2 ^ (prec - 1)) as HU by (apply pow2_S; lia).
    rewrite rnd_exact by lia.
    destruct (Z.leb_spec p (a - q * p)).
    - split; [lia|]. apply (cong_intro p _ _ (- q - 1)); lia.
    - destruct (Z.ltb_spec (a - q * p) 0).
      + split; [lia|]. apply (cong_intro p _ _ (- q + 1)); lia.
      + split; [lia|]. apply (cong_intro p _ _ (- q)); lia.
  Qed.
End Reduce.

(* the generic template (repaired, fix-13): an integral source with more digits than the mantissa is forwarded to the exact 64-bit
   specialisation (every value of the type); every other source is converted and reduced (every value the element type holds exactly:
   all values of the narrow native types) *)
From C04 Require Import ProofsRings.
Definition ex_generic_ok (prec : Z) (s : src) (a : Z) : Prop :=
  match s with
  | SI T => (if prec =? 24 then 32 <=? bits T else bits T =? 64) = false /\ wf T /\ bits T <= 64 /\ in_range T a /\
            (src_digits s <= prec -> Z.abs a < 2 ^ prec)
  | SLL sgn => fits64 sgn a /\ (src_digits s <= prec -> Z.abs a < 2 ^ prec)
  | _ => False
  end.
Lemma in_range_fits64 T a : wf T -> bits T <= 64 -> in_range T a -> fits64 (sg T) a.
Proof.
  unfold wf, in_range, tmin, tmax, fits64. intros W B H.
  pose proof (pow2_le (bits T) 64 ltac:(lia)). pose proof (pow2_le (bits T - 1) 63 ltac:(lia)).
  destruct (sg T); lia.
Qed.
Lemma ex_generic_correct prec p s a : 1 < prec -> 2 <= p <= 2 ^ (prec - 1) ->
  fits64 (src_signed s) a -> (src_digits s <= prec -> Z.abs a < 2 ^ prec) ->
  exists r, ex_generic prec p s a = Some r /\ residue p a r.
Proof.
  intros Hprec Hp H64 Hsm. unfold ex_generic. destruct (Z.ltb_spec prec (src_digits s)).
  - assert (cast (Ity 64 (src_signed s)) a = a) as ->.
    { unfold fits64 in H64. destruct (src_signed s); [apply cast_i64_id; lia | apply cast_id; unfold wf, tmin, tmax; cbn; lia]. }
    apply ex_exact_correct; [lia|]. intros E. unfold fits64 in H64. rewrite E in H64. lia.
  - eexists; split; [reflexivity|]. rewrite rnd_exact by lia. apply ex_reduce_correct; auto.
Qed.
Theorem ex_init_generic_correct prec p s a : 1 < prec -> 2 <= p <= 2 ^ (prec - 1) -> ex_generic_ok prec s a ->
  exists r, ex_init prec p s a = Some r /\ residue p a r.
Proof.
  intros Hprec Hp H. destruct s as [T|sprec| |K|sgn]; cbn [ex_generic_ok ex_init] in *; try contradiction.
  - destruct H as (-> & W & B & Ha & Hs). apply ex_generic_correct; auto. apply in_range_fits64; auto.
  - destruct H as (H64 & Hs). apply ex_generic_correct; auto.
Qed.

(* where `>=` is needed: the value handed to the correction tail IS p for p = 49, a = 49 (double) -- with `a > _p` the
   result would be the non-canonical 49 -- and it is negative for other inputs: no branch of the tail is dead *)
Lemma ex_tail_attains_p : ex_tail 53 49 49 = 49 /\ ex_tail 53 75 (-2250) = 75 /\ ex_tail 53 32749 32749 = 32749 /\ ex_tail 24 41 41 = 41 /\ ex_tail 24 7 (-21) = 7.
Proof. vm_compute. repeat split; reflexivity. Qed.
Lemma ex_tail_attains_negative : ex_tail 53 5 9007199254740989 = -1 /\ ex_tail 53 3 (-9007199254740991) = -1.
Proof. vm_compute. repeat split; reflexivity. Qed.
Definition ex_reduce_stmt := forall prec p a, 1 < prec -> 2 <= p <= 2 ^ (prec - 1) -> Z.abs a < 2 ^ prec ->
  - p <= ex_tail prec p a < 2 * p /\ residue p a (ex_reduce prec p a).
Theorem ex_reduce_full : ex_reduce_stmt.
Proof. intros prec p a H1 H2 H3. split; [unfold ex_tail; apply ex_q_within_one; auto | apply ex_reduce_correct; auto]. Qed.
Definition ex_ge_needed_stmt := exists p a, 2 <= p <= 2 ^ 50 - 1 /\ 0 < a < 2 ^ 32 /\ ex_tail 53 p a = p /\ a mod p = 0.
Theorem ex_ge_needed : ex_ge_needed_stmt.
Proof. exists 49, 49. vm_compute. repeat split; try reflexivity; discriminate. Qed.

(* the hypotheses are satisfiable (double: prec = 53, float: prec = 24; maxCardinality = 2^(prec-3) - 1 <= 2^(prec-1)) *)
Example ex_reduce_hyps_double : 1 < 53 /\ 2 <= 2 ^ 50 - 1 <= 2 ^ (53 - 1) /\ Z.abs (- (2 ^ 53 - 1)) < 2 ^ 53 /\ ex_reduce 53 49 98 = 0.
Proof. vm_compute. repeat split; try reflexivity; discriminate. Qed.
Example ex_reduce_hyps_float : 1 < 24 /\ 2 <= 2 ^ 21 - 1 <= 2 ^ (24 - 1) /\ ex_generic_ok 24 (SI i16) (-32768) /\ ex_generic_ok 53 (SLL true) (- 2 ^ 63).
Proof. vm_compute. repeat split; try reflexivity; try discriminate; intros H; try reflexivity; exfalso; apply H; reflexivity. Qed.

(* every source type that has an init form, as ONE statement: the specialisations (ProofsRings.ex_init_specialised_correct) and the
   generic template together *)
Definition ex_every_ok (prec : Z) (s : src) (a : Z) : Prop := ex_src_ok prec s a \/ ex_generic_ok prec s a.
Theorem ex_init_every_source prec p s a : 1 < prec -> 2 <= p <= 2 ^ (prec - 1) -> ex_every_ok prec s a ->
  exists r, ex_init prec p s a = Some r /\ residue p a r.
Proof.
  intros Hprec Hp [H|H]; [apply ex_init_specialised_correct; [lia|exact H] | apply ex_init_generic_correct; auto].
Qed.
(* mOne((Element)p - 1.0) is the image of -1 *)
Theorem ex_mone_correct prec p : 1 < prec -> 2 <= p <= 2 ^ (prec - 1) -> residue p (-1) (mone (RExt prec) p).
Proof.
  intros Hprec Hp. cbn [mone]. assert (2 ^ prec = 2 * 2 ^ (prec - 1)) by (apply pow2_S; lia).
  rewrite rnd_exact by lia. split; [lia|]. apply (cong_intro p _ _ 1); lia.
Qed.
Example ex_every_ok_sat : ex_every_ok 53 (SI i64) (- 2 ^ 63) /\ ex_every_ok 53 (SI i32) (- 2 ^ 31) /\ ex_every_ok 24 SInteger (10 ^ 40) /\ ex_every_ok 24 (SLL false) (2 ^ 64 - 1).
Proof.
  repeat split; try (left; vm_compute; repeat split; congruence); right; vm_compute;
    repeat split; try reflexivity; try discriminate; intros H; try reflexivity; exfalso; apply H; reflexivity.
Qed.
