(* C04: Modular<S, C> with integral storage — every init overload maps the source value to its canonical residue *)
From Coq Require Import ZArith Bool Lia.
From C04 Require Import Model ProofsBase.
Local Open Scope Z_scope.
Ltac Zify.zify_post_hook ::= Z.to_euclidean_division_equations.

(* r is the canonical representative of x modulo p *)
Definition residue (p x r : Z) : Prop := 0 <= r < p /\ r mod p = x mod p.
(* admissible modulus for storage type St: it fits the element type (implied by p <= maxCardinality for every instantiation) *)
Definition admissible (St : ity) (p : Z) : Prop := wf St /\ 2 <= p <= tmax St.
Definition in_range (t : ity) (y : Z) : Prop := tmin t <= y <= tmax t.

Lemma cong_intro p a b k : p <> 0 -> a = b + k * p -> a mod p = b mod p.
Proof. intros Hp ->. apply Z.mod_add; auto. Qed.
Lemma residue_small p x : 0 <= x < p -> residue p x x.
Proof. split; auto. Qed.
Lemma residue_cong p x x' r : x mod p = x' mod p -> residue p x r -> residue p x' r.
Proof. unfold residue; intros E [H1 H2]; split; congruence. Qed.
Lemma residue_mod p x : 0 < p -> residue p x (x mod p).
Proof. intros; split. apply Z.mod_pos_bound; lia. apply Z.mod_mod; lia. Qed.
Lemma residue_rem_nonneg p y : 0 < p -> 0 <= y -> residue p y (Z.rem y p).
Proof. intros. rewrite Z.rem_mod_nonneg by lia. apply residue_mod; auto. Qed.

Section Integral.
  Variable St : ity.
  Variable p : Z.
  Hypothesis Hadm : admissible St p.
  Let Hw : wf St := proj1 Hadm.

  Lemma cast_p : cast St p = p.
  Proof. destruct Hadm as [W [? ?]]. apply cast_id; auto. pose proof (tmin_le_tmax St W). lia. Qed.
  Lemma cast_small x : 0 <= x < p -> cast St x = x.
  Proof. destruct Hadm as [W [? ?]]. intros; apply cast_id; auto. pose proof (tmin_le_tmax St W). lia. Qed.

  (* negin of a canonical element is the canonical opposite *)
  Lemma mi_negin_spec x y : residue p y x -> residue p (- y) (mi_negin St p x).
  Proof.
    destruct Hadm as [W [? ?]]. intros [Hx Hc]. unfold mi_negin. destruct (Z.eqb_spec x 0) as [->|Hnz].
    - split; [lia|]. rewrite Z.mod_0_l in * by lia. symmetry in Hc.
      apply Z.mod_divide in Hc; [|lia]. destruct Hc as [k ->]. apply (cong_intro p 0 (- (k * p)) k); lia.
    - rewrite cast_p, cast_small by lia. split; [lia|].
      assert (x = y mod p) as Hx' by (rewrite <- Hc; symmetry; apply Z.mod_small; lia).
      apply (cong_intro p _ _ (1 + y / p)); [lia|]. pose proof (Z.div_mod y p ltac:(lia)). lia.
  Qed.

  (* signed reduce of a storage-typed value *)
  Lemma mi_reduce_spec y : in_range St y -> residue p y (mi_reduce St p y).
  Proof.
    destruct Hadm as [W [? ?]]. intros Hy. unfold mi_reduce, in_range in *. destruct (sg St) eqn:Hs.
    - rewrite cast_p. pose proof (rem_bound y p ltac:(lia)) as [Hb _]. pose proof (rem_cong y p ltac:(lia)) as Hc.
      destruct (Z.ltb_spec (Z.rem y p) 0).
      + rewrite cast_small by lia. split; [lia|]. rewrite <- Hc. apply (cong_intro p _ _ 1); lia.
      + split; [lia|]. rewrite <- Hc. reflexivity.
    - assert (0 <= y) by (unfold tmin in Hy; rewrite Hs in Hy; lia). apply residue_rem_nonneg; lia.
  Qed.

  (* A (repaired body): unsigned source at least as wide as the storage type — every source value *)
  Theorem mi_init_uwide_correct T y :
    sg T = false -> in_range T y -> residue p y (mi_init_uwide St p T y).
  Proof.
    destruct Hadm as [W [? ?]]. intros HsT Hy. unfold mi_init_uwide, in_range in *.
    assert (0 <= y) by (unfold tmin in Hy; rewrite HsT in Hy; lia).
    pose proof (residue_rem_nonneg p y ltac:(lia) ltac:(lia)) as [Hr Hc].
    rewrite cast_small by lia. split; auto.
  Qed.

  (* B (repaired body): signed source wider than the storage type — for EVERY source value, including the most negative *)
  Theorem mi_init_swide_correct T y :
    sg T = true -> bits St < bits T -> in_range T y -> residue p y (mi_init_swide St p T y).
  Proof.
    destruct Hadm as [W [? ?]]. intros HsT Hb Hy. unfold mi_init_swide, in_range in *.
    pose proof (tmax_wider St T W Hb) as [Hmx [Hmn _]]. assert (wf T) as WT by (unfold wf in *; lia).
    pose proof (tmin_le_tmax T WT). pose proof (tmin_le_tmax St W).
    assert (tmin T = - tmax T - 1) as HT by (unfold tmin, tmax; rewrite HsT; lia).
    rewrite (cast_id T p) by (auto; lia).
    pose proof (rem_bound y p ltac:(lia)) as [Hrb _]. pose proof (rem_cong y p ltac:(lia)) as Hc.
    rewrite (cast_id T (Z.rem y p)) by (auto; lia).
    rewrite cabs_abs by (auto; lia). rewrite cast_small by lia.
    destruct (Z.ltb_spec (Z.rem y p) 0).
    - eapply residue_cong; [| apply mi_negin_spec; apply residue_small; lia].
      rewrite <- Hc. f_equal. lia.
    - split; [lia|]. rewrite <- Hc. f_equal. lia.
  Qed.

  (* E (repaired body): Integer source, every integer *)
  Theorem mi_init_Integer_correct y : residue p y (mi_init_Integer St p y).
  Proof.
    destruct Hadm as [W [? ?]]. unfold mi_init_Integer. pose proof (residue_mod p y ltac:(lia)) as [Hr Hc].
    rewrite cast_small by lia. split; auto.
  Qed.

  (* G: signed storage, generic template; correct for every source type whose values the storage type holds *)
  Theorem mi_init_gen_s_correct y : in_range St y -> residue p y (mi_init_gen_s_int St p y).
  Proof.
    intros Hy. unfold mi_init_gen_s_int. rewrite cast_id by (auto; apply Hy). apply mi_reduce_spec; auto.
  Qed.

  (* F (repaired body): unsigned storage, generic template, integral source T: every value of T that fits int64_t
     and whose magnitude the storage type holds (in particular INT32_MIN into 64-bit storage) *)
  Theorem mi_init_gen_u_correct T y :
    sg St = false -> in_range T y -> - 2 ^ 63 < y < 2 ^ 63 -> Z.abs y <= tmax St -> residue p y (mi_init_gen_u_int St p T y).
  Proof.
    destruct Hadm as [W [? ?]]. intros HsS Hy H63 Ha. unfold mi_init_gen_u_int.
    rewrite wabs_abs by (auto; intros E; unfold in_range, tmin in Hy; rewrite E in Hy; lia).
    pose proof (tmin_le_tmax St W).
    rewrite (cast_id St (Z.abs y)) by (auto; lia).
    assert (in_range St (Z.abs y)) as Hin by (unfold in_range; lia).
    pose proof (mi_reduce_spec (Z.abs y) Hin) as HR.
    destruct (Z.ltb_spec y 0).
    - eapply residue_cong; [| apply mi_negin_spec; exact HR]. f_equal; lia.
    - eapply residue_cong; [| exact HR]. f_equal; lia.
  Qed.

  (* C / D: floating source at least as wide as the storage type; correct when the modulus is representable in the source type *)
  Theorem mi_init_float_s_correct prec y :
    sg St = true -> rnd prec p = p -> exists r, mi_init_float_s St p prec y = Some r /\ residue p y r.
  Proof.
    destruct Hadm as [W [? ?]]. intros HsS Hp. unfold mi_init_float_s. rewrite Hp.
    pose proof (rem_bound y p ltac:(lia)) as [Hrb _]. pose proof (rem_cong y p ltac:(lia)) as Hc.
    pose proof (tmin_le_tmax St W). assert (tmin St = - tmax St - 1) as HT by (unfold tmin, tmax; rewrite HsS; lia).
    rewrite f2i_some by lia. cbn [obind]. eexists; split; [reflexivity|].
    destruct (Z.ltb_spec (Z.rem y p) 0).
    - rewrite cast_small by lia. split; [lia|]. rewrite <- Hc. apply (cong_intro p _ _ 1); lia.
    - split; [lia|]. auto.
  Qed.
  Theorem mi_init_float_u_correct prec y :
    rnd prec p = p -> exists r, mi_init_float_u St p prec y = Some r /\ residue p y r.
  Proof.
    destruct Hadm as [W [? ?]]. intros Hp. unfold mi_init_float_u. rewrite Hp.
    pose proof (residue_rem_nonneg p (Z.abs y) ltac:(lia) ltac:(lia)) as HR. pose proof (tmin_le_tmax St W).
    rewrite f2i_some by (destruct HR; lia). cbn [obind]. eexists; split; [reflexivity|].
    destruct (Z.ltb_spec y 0).
    - eapply residue_cong; [| apply mi_negin_spec; exact HR]. f_equal; lia.
    - eapply residue_cong; [| exact HR]. f_equal; lia.
  Qed.

  (* constants: mOne is the image of -1; init(convert(e)) = e through Integer *)
  Theorem mi_mone_correct : residue p (-1) (mi_mone St p).
  Proof.
    destruct Hadm as [W [? ?]]. unfold mi_mone. rewrite cast_small by lia. split; [lia|].
    apply (cong_intro p _ _ 1); lia.
  Qed.
  Theorem mi_roundtrip_Integer e : 0 <= e < p -> mi_init_Integer St p e = e.
  Proof. intros. unfold mi_init_Integer. rewrite Z.mod_small by lia. apply cast_small; auto. Qed.
End Integral.

(* the defects that remain in the code (known findings), as refutations of the unrestricted statements *)
(* unsigned source of the storage width into signed storage: values above the signed maximum *)
Theorem mi_init_gen_s_same_width_refuted :
  exists St p y, admissible St p /\ in_range (unsigned_of St) y /\ ~ residue p y (mi_init_gen_s_int St p y).
Proof.
  exists i32, 3, 2147483648. split; [|split].
  - unfold admissible, wf; cbn; lia.
  - unfold in_range; cbn; lia.
  - unfold residue; intros [_ H]. vm_compute in H. discriminate H.
Qed.
(* floating source when the modulus is not representable in the source type *)
(* (since fix-15 a float is reduced as a double, so only a modulus beyond 2^53 that is not a double is affected:
    Modular<int64_t,__int128>, Modular<uint64_t,unsigned __int128>; the remaining known finding) *)
Theorem mi_init_float_modulus_refuted :
  exists p y r, admissible i64 p /\ rnd 53 y = y /\ mi_init_float_s i64 p (fwide 53) y = Some r /\ ~ residue p y r.
Proof.
  exists 9007199254740993, 9007199254740994, 2. split; [|split; [|split]].
  - unfold admissible, wf; cbn; lia.
  - reflexivity.
  - reflexivity.
  - unfold residue; intros [_ H]. vm_compute in H. discriminate H.
Qed.
