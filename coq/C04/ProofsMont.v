(* C04: Montgomery<int32_t> init / convert, hypothesis-free: the 32-bit redc of Model.v is Montgomery reduction (Redc.v),
   its constant _nim is correct for every admissible (odd) modulus (complete sweep 3..40503 by kernel computation),
   hence convert(init(x)) = x mod p and the stored element is canonical. *)
From Coq Require Import ZArith Bool Lia List.
From C04 Require Import Model ProofsBase ProofsIntegral Redc.
Local Open Scope Z_scope.

Local Notation B := 65536.
Definition nim_ok (p : Z) : bool := ((p * mg_nim p + 1) mod B =? 0) && (0 <=? mg_nim p) && (mg_nim p <? B).
Definition odd_moduli : list Z := map (fun i => 2 * Z.of_nat i + 1) (seq 1 (Z.to_nat 20251)).
Lemma nim_sweep : forallb nim_ok odd_moduli = true.
Proof. vm_compute. reflexivity. Qed.
Lemma nim_correct p : 3 <= p <= 40503 -> Z.odd p = true -> (p * mg_nim p + 1) mod B = 0 /\ 0 <= mg_nim p < B.
Proof.
  intros Hp Ho. pose proof nim_sweep as H. rewrite forallb_forall in H.
  assert (In p odd_moduli) as Hin.
  { unfold odd_moduli. apply in_map_iff. exists (Z.to_nat (p / 2)). split.
    - rewrite Z2Nat.id by (apply Z.div_pos; lia). pose proof (Z_div_mod_eq_full p 2) as H0.
      assert (p mod 2 = 1) as H1 by (rewrite Zmod_odd, Ho; reflexivity). rewrite H1 in H0. symmetry; exact H0.
    - apply in_seq. pose proof (Z_div_mod_eq_full p 2) as H0. pose proof (Z.mod_pos_bound p 2 ltac:(reflexivity)). lia. }
  specialize (H p Hin). unfold nim_ok in H. rewrite !andb_true_iff in H. destruct H as [[H1 H2] H3].
  apply Z.eqb_eq in H1. apply Z.leb_le in H2. apply Z.ltb_lt in H3. auto.
Qed.

Section Mont.
  Variable p : Z.
  Hypothesis Hp : 3 <= p <= 40503.
  Hypothesis Hodd : Z.odd p = true.
  Let Hnim := nim_correct p Hp Hodd.
  Let BI := Binv B p (mg_nim p).

  Lemma land_B c : 0 <= c -> Z.land c 65535 = c mod B.
  Proof. intros. change 65535 with (Z.ones 16). rewrite Z.land_ones by lia. reflexivity. Qed.

  (* the machine redc is the integer REDC as long as c + (B-1) p fits 32 bits *)
  Lemma mg_redc_eq c : 0 <= c -> c + (B - 1) * p < 4294967296 -> mg_redc p c = redc_z B p (mg_nim p) c.
  Proof.
    intros Hc Hb. pose proof (proj2 Hnim) as Hn2. unfold mg_redc, redc_z, redc_t, mfac, B16. cbv zeta.
    rewrite (land_B c) by lia.
    assert (0 <= c mod B < B) as Hcm by (apply Z.mod_pos_bound; reflexivity).
    assert (wrapu 32 (c mod B * mg_nim p) = c mod B * mg_nim p) as ->.
    { apply wrapu_id; [lia|]. change (2 ^ 32) with 4294967296. nia. }
    rewrite (land_B (c mod B * mg_nim p)) by nia.
    assert (0 <= (c mod B * mg_nim p) mod B < B) as Hm by (apply Z.mod_pos_bound; reflexivity).
    rewrite (wrapu_id 32 (_ * p)) by (try lia; change (2 ^ 32) with 4294967296; nia).
    rewrite wrapu_id by (try lia; change (2 ^ 32) with 4294967296; nia).
    replace ((c mod B * mg_nim p) mod B * p + c) with (c + (c mod B * mg_nim p) mod B * p) by ring.
    reflexivity.
  Qed.
  Lemma mg_redc_spec c : 0 <= c < p * p -> 0 <= mg_redc p c < p /\ mg_redc p c = (c * BI) mod p.
  Proof.
    intros Hc. pose proof (proj2 Hnim) as Hn2.
    assert (c + (B - 1) * p < 4294967296) by nia.
    rewrite mg_redc_eq by lia.
    rewrite (redc_z_spec B p (mg_nim p)) by (try reflexivity; try exact (proj1 Hnim); try lia; nia).
    split; [apply Z.mod_pos_bound; lia | reflexivity].
  Qed.
  Lemma B_BI : eqm p (B * BI) 1.
  Proof. apply (B_Binv_eqm B p (mg_nim p)); try reflexivity; try exact (proj1 Hnim); lia. Qed.
  Lemma B2p_eqm : eqm p (mg_B2p p) (B * B).
  Proof.
    unfold eqm, mg_B2p, mg_Bp, B16. pose proof (Z.mod_pos_bound 65536 p ltac:(lia)).
    rewrite wrapu_id by (try lia; change (2 ^ 32) with 4294967296; nia).
    rewrite Z.mod_mod by lia. rewrite Z.mul_mod_idemp_l by lia. reflexivity.
  Qed.

  (* entering Montgomery form and leaving it again is the identity on canonical residues *)
  Theorem mg_roundtrip r : 0 <= r < p -> 0 <= mg_to p r < p /\ mg_lift p (mg_to p r) = r.
  Proof.
    intros Hr. unfold mg_to, mg_lift.
    assert (0 <= mg_B2p p < p) as HB2 by (unfold mg_B2p; apply Z.mod_pos_bound; lia).
    assert (0 <= r * mg_B2p p < p * p) as Hc by nia.
    rewrite wrapu_id by (try lia; change (2 ^ 32) with 4294967296; nia).
    destruct (mg_redc_spec _ Hc) as [Hrange Heq]. split; auto.
    assert (0 <= mg_redc p (r * mg_B2p p) < p * p) as Hc2 by nia.
    destruct (mg_redc_spec _ Hc2) as [Hr2 Heq2].
    apply (eqm_small p); [| lia | lia].
    rewrite Heq2. rewrite (mod_eqm p). rewrite Heq. rewrite (mod_eqm p). rewrite B2p_eqm.
    replace (r * (B * B) * BI * BI) with (r * (B * BI) * (B * BI)) by ring.
    rewrite B_BI. rewrite !Z.mul_1_r. reflexivity.
  Qed.
  (* ... and the other direction: leaving Montgomery form and entering it again is the identity on canonical elements *)
  Theorem mg_from_to e : 0 <= e < p -> 0 <= mg_lift p e < p /\ mg_to p (mg_lift p e) = e.
  Proof.
    intros He. unfold mg_lift. assert (0 <= e < p * p) as Hc by nia.
    destruct (mg_redc_spec _ Hc) as [Hr Heq]. split; auto.
    unfold mg_to.
    assert (0 <= mg_B2p p < p) as HB2 by (unfold mg_B2p; apply Z.mod_pos_bound; lia).
    assert (0 <= mg_redc p e * mg_B2p p < p * p) as Hc2 by nia.
    rewrite wrapu_id by (try lia; change (2 ^ 32) with 4294967296; nia).
    destruct (mg_redc_spec _ Hc2) as [Hr2 Heq2].
    apply (eqm_small p); [| lia | lia].
    rewrite Heq2. rewrite (mod_eqm p). rewrite Heq. rewrite (mod_eqm p). rewrite B2p_eqm.
    replace (e * BI * (B * B) * BI) with (e * (B * BI) * (B * BI)) by ring.
    rewrite B_BI. rewrite !Z.mul_1_r. reflexivity.
  Qed.
  (* the stored image of a canonical residue is r * 2^16 mod p *)
  Theorem mg_to_value r : 0 <= r < p -> mg_to p r = (r * B) mod p.
  Proof.
    intros Hr. unfold mg_to.
    assert (0 <= mg_B2p p < p) as HB2 by (unfold mg_B2p; apply Z.mod_pos_bound; lia).
    assert (0 <= r * mg_B2p p < p * p) as Hc by nia.
    rewrite wrapu_id by (try lia; change (2 ^ 32) with 4294967296; nia).
    destruct (mg_redc_spec _ Hc) as [Hrange Heq].
    apply (eqm_small p); [| lia | apply Z.mod_pos_bound; lia].
    rewrite Heq. rewrite !(mod_eqm p). rewrite B2p_eqm.
    replace (r * (B * B) * BI) with (r * B * (B * BI)) by ring. rewrite B_BI. rewrite Z.mul_1_r. reflexivity.
  Qed.

  (* init from Integer / uint64_t / int64_t / double: the element is canonical and convert returns x mod p *)
  Definition mg_src_ok (s : src) (a : Z) : Prop :=
    match s with
    | SInteger => True
    | SF prec => True
    | SI T => (bits T = 64 /\ (sg T = false -> 0 <= a)) \/
              (bits T <> 64 /\ if sg T then - 2 ^ 63 <= a < 2 ^ 63 else 0 <= a < 2 ^ 64)     (* generic template: int8 .. uint32 *)
    | SLL sgn => if sgn then - 2 ^ 63 <= a < 2 ^ 63 else 0 <= a < 2 ^ 64                     (* generic template: long long *)
    | _ => False
    end.
  Lemma mg_negin_spec x y : residue p y x -> residue p (- y) (mg_negin p x).
  Proof.
    intros [Hx Hc]. unfold mg_negin. destruct (Z.eqb_spec x 0) as [->|Hnz].
    - split; [lia|]. assert (y mod p = 0) as Hy by (rewrite <- Hc; apply Z.mod_0_l; lia).
      apply Z.mod_divide in Hy; [|lia]. destruct Hy as [k ->]. rewrite Z.mod_0_l by lia. symmetry.
      apply Z.mod_divide; [lia|]. exists (- k); lia.
    - rewrite wrapu_id by (try lia; change (2 ^ 32) with 4294967296; lia). split; [lia|].
      assert (x = y mod p) as Hx' by (rewrite <- Hc; symmetry; apply Z.mod_small; lia).
      apply (cong_intro p _ _ (1 + y / p)); [lia|]. pose proof (Z.div_mod y p ltac:(lia)). lia.
  Qed.
  Lemma abs_rem_residue a : residue p (Z.abs a) (Z.abs (Z.rem a p)).
  Proof.
    pose proof (rem_bound a p ltac:(lia)) as [Hb [Hpos Hneg]]. pose proof (rem_cong a p ltac:(lia)) as Hc.
    split; [lia|]. destruct (Z.ltb_spec a 0).
    - replace (Z.abs (Z.rem a p)) with (Z.rem (- a) p) by (rewrite Z.rem_opp_l'; lia).
      replace (Z.abs a) with (- a) by lia. apply rem_cong; lia.
    - replace (Z.abs (Z.rem a p)) with (Z.rem a p) by lia. replace (Z.abs a) with a by lia. auto.
  Qed.
  Lemma signed_fin a r : residue p (Z.abs a) r -> residue p a (if a <? 0 then mg_negin p r else r).
  Proof.
    intros HR. destruct (Z.ltb_spec a 0).
    - eapply residue_cong; [| apply mg_negin_spec; exact HR]. f_equal; lia.
    - eapply residue_cong; [| exact HR]. f_equal; lia.
  Qed.
  Theorem mg_init_correct s a : mg_src_ok s a ->
    exists e, mg_init p s a = Some e /\ 0 <= e < p /\ residue p a (mg_lift p e).
  Proof.
    assert (forall r, residue p a r -> exists e, Some (mg_to p r) = Some e /\ 0 <= e < p /\ residue p a (mg_lift p e)) as Fin.
    { intros r HR. destruct (mg_roundtrip r (proj1 HR)) as [H1 H2]. eexists; split; [reflexivity|]. split; auto. rewrite H2; exact HR. }
    assert (forall sgn : bool, (if sgn then - 2 ^ 63 <= a < 2 ^ 63 else 0 <= a < 2 ^ 64) ->
                        exists e, mg_generic p sgn a = Some e /\ 0 <= e < p /\ residue p a (mg_lift p e)) as Gen.
    { intros sgn Hr. unfold mg_generic. destruct sgn.
      - rewrite (cast_i64_id a) by lia. apply Fin. apply signed_fin. apply abs_rem_residue.
      - rewrite (cast_id u64 a) by (unfold wf, tmin, tmax; cbn; lia). apply Fin. apply residue_mod; lia. }
    destruct s as [T|sprec| |K|sgn]; cbn [mg_src_ok mg_init]; intros H; try contradiction; [| | | apply Gen; exact H].
    - destruct H as [[Hb Hu]|[Hb Hr]].
      + rewrite Hb. cbn [Z.eqb Pos.eqb]. destruct (sg T) eqn:HsT.
        * apply Fin. apply signed_fin. apply abs_rem_residue.
        * apply Fin. apply residue_mod; lia.
      + destruct (Z.eqb_spec (bits T) 64); [contradiction|]. apply Gen; exact Hr.
    - destruct (sprec =? 53).
      + apply Fin. apply signed_fin. replace (Z.rem (Z.abs a) p) with (Z.abs a mod p) by (symmetry; apply Z.rem_mod_nonneg; lia).
        apply residue_mod; lia.
      + apply Fin. apply signed_fin. replace (Z.rem (Z.abs a) p) with (Z.abs a mod p) by (symmetry; apply Z.rem_mod_nonneg; lia).
        apply residue_mod; lia.
    - apply Fin. apply signed_fin. apply residue_mod; lia.
  Qed.
  (* constants: one = 2^16 mod p is the image of 1, mOne the image of -1 *)
  Theorem mg_constants : mg_lift p (mg_one p) = 1 /\ residue p (-1) (mg_lift p (mg_mone p)).
  Proof.
    pose proof (mg_to_value 1 ltac:(lia)) as H1. rewrite Z.mul_1_l in H1.
    assert (mg_one p = mg_to p 1) as E1 by (unfold mg_one, mg_Bp, B16; rewrite H1; reflexivity).
    split.
    - rewrite E1. apply (proj2 (mg_roundtrip 1 ltac:(lia))).
    - pose proof (mg_to_value (p - 1) ltac:(lia)) as H2.
      assert (mg_mone p = mg_to p (p - 1)) as E2.
      { rewrite H2. unfold mg_mone, mg_Bp, B16. pose proof (Z.mod_pos_bound 65536 p ltac:(lia)).
        rewrite wrapu_id by (try lia; change (2 ^ 32) with 4294967296; lia).
        destruct (Z.eq_dec (65536 mod p) 0) as [E0|E0].
        - exfalso. apply Z.mod_divide in E0; [|lia]. destruct E0 as [k Ek].
          pose proof (proj1 Hnim) as Hn1. apply Z.mod_divide in Hn1; [|lia]. destruct Hn1 as [j Ej].
          assert (p * (j * k - mg_nim p) = 1) as E1' by (rewrite Ek in Ej; lia || nia).
          apply Z.mul_eq_1 in E1'. lia.
        - symmetry. rewrite <- (Z.mod_small (p - 65536 mod p) p) by lia.
          apply (cong_intro p _ _ (- (1 + 65536 / p) + 65536)); [lia|]. idtac. pose proof (Z.div_mod 65536 p ltac:(lia)). nia. }
      rewrite E2. rewrite (proj2 (mg_roundtrip (p - 1) ltac:(lia))). split; [lia|]. apply (cong_intro p _ _ 1); lia.
  Qed.
End Mont.

