(* C04: the other ring families — floating Modular, ModularBalanced, Modular<Integer>, Modular<ruint<K>>, the table rings,
   Montgomery<int32_t> (relative to the REDC specification proved in C07), ModularExtended (live specialisations) *)
From Coq Require Import ZArith Bool Lia.
From C04 Require Import Model ProofsBase ProofsIntegral.
Local Open Scope Z_scope.
Ltac Zify.zify_post_hook ::= Z.to_euclidean_division_equations.

(* ------------------------------------------------------------------ Modular<float|double, C> *)
Section Floating.
  Variables prec p : Z.
  Hypothesis Hprec : 0 < prec.
  Hypothesis Hp : 2 <= p <= 2 ^ prec.      (* p <= maxCardinality: Modular<float> 4096, Modular<float,double> 2^24 (= 2^prec, attained), Modular<double> 94906266 *)

  Lemma mf_reduce_spec x : residue p x (mf_reduce p x).
  Proof.
    unfold mf_reduce. pose proof (rem_bound x p ltac:(lia)) as [Hb _]. pose proof (rem_cong x p ltac:(lia)) as Hc.
    destruct (Z.ltb_spec (Z.rem x p) 0); (split; [lia|]).
    - rewrite <- Hc. apply (cong_intro p _ _ 1); lia.
    - auto.
  Qed.
  Lemma mf_negin_spec x y : residue p y x -> residue p (- y) (mf_negin p x).
  Proof.
    intros [Hx Hc]. unfold mf_negin. destruct (Z.eqb_spec x 0) as [->|Hnz].
    - split; [lia|]. rewrite Z.mod_0_l in * by lia. symmetry in Hc.
      apply Z.mod_divide in Hc; [|lia]. destruct Hc as [k ->]. apply (cong_intro p 0 (- (k * p)) k); lia.
    - split; [lia|]. assert (x = y mod p) as Hx' by (rewrite <- Hc; symmetry; apply Z.mod_small; lia).
      apply (cong_intro p _ _ (1 + y / p)); [lia|]. pose proof (Z.div_mod y p ltac:(lia)). lia.
  Qed.
  Lemma rnd_small z : Z.abs z < p -> rnd prec z = z.
  Proof. intros; apply rnd_exact; lia. Qed.

  (* which source values are in the claim: integers in the range of their type (and, for the generic template, exactly
     convertible to the element type), floating values that are integers *)
  Definition mf_src_ok (s : src) (a : Z) : Prop :=
    match s with
    | SInteger => True
    | SI T => wf T /\ in_range T a /\ p <= tmax T /\ (bits T < fbits prec -> Z.abs a < 2 ^ prec)
    | SF sprec => (sprec =? 53) && (prec =? 24) = true \/ rnd prec a = a
    | _ => False
    end.
  Theorem mf_init_correct s a : mf_src_ok s a -> exists r, mf_init prec p s a = Some r /\ residue p a r.
  Proof.
    destruct s as [T|sprec| |K|sgn]; cbn [mf_src_ok mf_init]; intros H; try contradiction.
    - destruct H as (WT & Ha & HpT & Hsm). pose proof (tmin_le_tmax T WT).
      destruct (Z.leb_spec (fbits prec) (bits T)).
      + rewrite (cast_id T p) by (auto; lia). destruct (sg T) eqn:HsT; eexists; (split; [reflexivity|]).
        * pose proof (rem_bound a p ltac:(lia)) as [Hb _]. pose proof (rem_cong a p ltac:(lia)) as Hc.
          rewrite rnd_small by lia.
          assert (residue p (Z.abs a) (Z.abs (Z.rem a p))) as HR.
          { split; [lia|]. destruct (Z.ltb_spec a 0).
            - replace (Z.abs (Z.rem a p)) with (Z.rem (- a) p) by (rewrite Z.rem_opp_l'; pose proof (rem_bound a p ltac:(lia)); lia).
              replace (Z.abs a) with (- a) by lia. apply rem_cong; lia.
            - replace (Z.abs (Z.rem a p)) with (Z.rem a p) by (pose proof (rem_bound a p ltac:(lia)); lia).
              replace (Z.abs a) with a by lia. auto. }
          destruct (Z.ltb_spec a 0).
          -- eapply residue_cong; [| apply mf_negin_spec; exact HR]. f_equal; lia.
          -- eapply residue_cong; [| exact HR]. f_equal; lia.
        * assert (0 <= a) by (unfold in_range, tmin in Ha; rewrite HsT in Ha; lia).
          pose proof (residue_rem_nonneg p a ltac:(lia) ltac:(lia)) as HR. rewrite rnd_small by (destruct HR; lia). exact HR.
      + eexists; split; [reflexivity|]. rewrite rnd_exact by (auto; lia). apply mf_reduce_spec.
    - destruct ((sprec =? 53) && (prec =? 24)) eqn:E.
      + eexists; split; [reflexivity|]. pose proof (rem_bound a p ltac:(lia)) as [Hb _]. rewrite rnd_small by lia.
        apply (mf_reduce_spec a).
      + destruct H as [H|H]; [discriminate|]. eexists; split; [reflexivity|]. rewrite H. apply mf_reduce_spec.
    - eexists; split; [reflexivity|]. pose proof (rem_bound a p ltac:(lia)) as [Hb _]. rewrite rnd_small by lia.
      apply (mf_reduce_spec a).
  Qed.
  Theorem mf_mone_correct : residue p (-1) (mf_mone prec p).
  Proof. unfold mf_mone. rewrite rnd_small by lia. split; [lia|]. apply (cong_intro p _ _ 1); lia. Qed.
End Floating.

(* ------------------------------------------------------------------ ModularBalanced *)
Definition balanced (p x r : Z) : Prop := mhalfp p <= r <= halfp p /\ r mod p = x mod p.
Section Balanced.
  Variable p : Z.
  Hypothesis Hp : 3 <= p.                     (* minCardinality *)
  Lemma normalise_spec r : - p < r < p -> balanced p r (normalise p r).
  Proof.
    intros Hr. unfold balanced, normalise, mhalfp, halfp.
    destruct (Z.ltb_spec r (p / 2 - p + 1)); [|destruct (Z.ltb_spec (p / 2) r)]; (split; [lia|]).
    - apply (cong_intro p _ _ 1); lia.
    - apply (cong_intro p _ _ (-1)); lia.
    - reflexivity.
  Qed.
  Lemma normalise_hi_spec r : 0 <= r < p -> balanced p r (normalise_hi p r).
  Proof.
    intros Hr. unfold balanced, normalise_hi, mhalfp, halfp.
    destruct (Z.ltb_spec (p / 2) r); (split; [lia|]).
    - apply (cong_intro p _ _ (-1)); lia.
    - reflexivity.
  Qed.
  Lemma balanced_cong x x' r : x mod p = x' mod p -> balanced p x r -> balanced p x' r.
  Proof. unfold balanced; intros E [H1 H2]; split; congruence. Qed.
  Lemma bal_rem y : balanced p y (normalise p (Z.rem y p)).
  Proof.
    pose proof (rem_bound y p ltac:(lia)) as [Hb _]. eapply balanced_cong; [apply rem_cong; lia|]. apply normalise_spec; auto.
  Qed.
  Lemma bal_rem_hi y : 0 <= y -> balanced p y (normalise_hi p (Z.rem y p)).
  Proof.
    intros. pose proof (rem_bound y p ltac:(lia)) as [Hb [Hn _]]. eapply balanced_cong; [apply rem_cong; lia|].
    apply normalise_hi_spec; lia.
  Qed.

  Lemma cast_u64_id z : 0 <= z < 2 ^ 64 -> cast u64 z = z.
  Proof. intros; apply cast_id; unfold wf, tmin, tmax; cbn; lia. Qed.
  Definition fits64 (sgn : bool) (y : Z) : Prop := if sgn then - 2 ^ 63 <= y < 2 ^ 63 else 0 <= y < 2 ^ 64.
  Lemma bf_generic_correct sgn y : fits64 sgn y -> exists r, bf_generic p sgn y = Some r /\ balanced p y r.
  Proof.
    unfold bf_generic, fits64. destruct sgn; intros H; eexists; (split; [reflexivity|]).
    - rewrite (cast_i64_id y) by lia. apply bal_rem.
    - rewrite cast_u64_id by lia. apply bal_rem_hi; lia.
  Qed.
  (* floating element types; prec = 53 (double) / 24 (float).  Native sources: every value of a type of at most 64 bits *)
  Definition bf_src_ok (prec : Z) (s : src) (y : Z) : Prop :=
    match s with
    | SInteger | SF _ => True
    | SI T => (sg T = false -> 0 <= y) /\ fits64 (sg T) y
    | SLL sgn => fits64 sgn y
    | _ => False
    end.
  Theorem bf_init_correct prec s y : bf_src_ok prec s y -> exists r, bf_init p prec s y = Some r /\ balanced p y r.
  Proof.
    destruct s as [T|sprec| |K|sgn]; cbn [bf_src_ok bf_init]; intros H; try contradiction;
      try (eexists; split; [reflexivity|]; apply bal_rem).
    - destruct H as (Hu & Hg).
      destruct (prec =? 53); [destruct (bits T =? 64) | destruct (32 <=? bits T)];
        try (apply bf_generic_correct; exact Hg);
        (destruct (sg T) eqn:HsT; eexists; (split; [reflexivity|]); [apply bal_rem | apply bal_rem_hi; auto]).
    - apply bf_generic_correct; exact H.
  Qed.

  (* integral element types int32_t / int64_t *)
  Lemma bi_generic_correct b sgn y :
    0 < b -> p <= tmax (Ity b true) -> fits64 sgn y -> (b =? 32 = false -> sgn = true -> in_range (Ity b true) y) ->
    exists r, bi_generic p b sgn y = Some r /\ balanced p y r.
  Proof.
    intros Hb Hpb H64 HE. assert (wf (Ity b true)) as WE by (unfold wf; cbn; lia).
    assert (tmin (Ity b true) = - tmax (Ity b true) - 1) as HT by (unfold tmin, tmax; cbn; lia).
    unfold bi_generic, fits64 in *. destruct (b =? 32) eqn:E32; destruct sgn; eexists; (split; [reflexivity|]).
    - rewrite (cast_i64_id y) by lia. pose proof (rem_bound y p ltac:(lia)) as [Hrb _].
      rewrite (cast_id _ (Z.rem y p)) by (auto; lia). apply bal_rem.
    - rewrite cast_u64_id by lia. pose proof (rem_bound y p ltac:(lia)) as [Hrb _].
      rewrite (cast_id _ (Z.rem y p)) by (auto; lia). apply bal_rem_hi; lia.
    - rewrite cast_id by (auto; apply HE; auto). apply bal_rem.
    - rewrite cast_u64_id by lia. pose proof (rem_bound y p ltac:(lia)) as [Hrb [Hrp _]].
      rewrite (cast_id _ (Z.rem y p)) by (auto; lia).
      eapply balanced_cong; [apply rem_cong; lia|]. apply bal_rem.
  Qed.
  Definition bi_src_ok (b : Z) (s : src) (y : Z) : Prop :=
    match s with
    | SInteger | SF _ => True
    | SI T => (sg T = false -> 0 <= y) /\ fits64 (sg T) y /\ (b =? 32 = false -> sg T = true -> in_range (Ity b true) y)
    | SLL sgn => fits64 sgn y /\ (b =? 32 = false -> sgn = true -> in_range (Ity b true) y)
    | _ => False
    end.
  Theorem bi_init_correct b s y :
    0 < b -> p <= tmax (Ity b true) -> bi_src_ok b s y -> exists r, bi_init p b s y = Some r /\ balanced p y r.
  Proof.
    intros Hb Hpb. assert (wf (Ity b true)) as WE by (unfold wf; cbn; lia).
    assert (tmin (Ity b true) = - tmax (Ity b true) - 1) as HE by (unfold tmin, tmax; cbn; lia).
    pose proof (rem_bound y p ltac:(lia)) as [Hrb _].
    destruct s as [T|sprec| |K|sgn]; cbn [bi_src_ok bi_init]; intros H; try contradiction.
    - destruct H as (Hu & H64 & Hg). destruct ((b =? 32) && (bits T =? 64)).
      + rewrite (cast_id _ (Z.rem y p)) by (auto; lia).
        destruct (sg T) eqn:HsT; eexists; (split; [reflexivity|]); [apply bal_rem | apply bal_rem_hi; auto].
      + apply bi_generic_correct; auto.
    - rewrite f2i_some by lia. eexists; split; [reflexivity|]. apply bal_rem.
    - eexists; split; [reflexivity|]. apply bal_rem.
    - destruct H. apply bi_generic_correct; auto.
  Qed.
  (* zero, one, mOne = 0, 1, -1 are balanced representatives of themselves *)
  Theorem bal_constants : balanced p 0 0 /\ balanced p 1 1 /\ balanced p (-1) (-1).
  Proof. unfold balanced, mhalfp, halfp; repeat split; lia. Qed.
End Balanced.

(* ------------------------------------------------------------------ Modular<Integer> *)
Theorem mz_init_correct p a : 0 < p -> residue p a (mz_init p a).
Proof.
  intros. unfold mz_init. pose proof (rem_bound a p ltac:(lia)) as [Hb _]. pose proof (rem_cong a p ltac:(lia)) as Hc.
  destruct (Z.ltb_spec (Z.rem a p) 0); (split; [lia|]).
  - rewrite <- Hc. apply (cong_intro p _ _ 1); lia.
  - auto.
Qed.

(* ------------------------------------------------------------------ Modular<ruint<K>, .> *)
Section Ruint.
  Variables K p : Z.
  Hypothesis HK : 6 <= K.
  Hypothesis Hp : 2 <= p < 2 ^ (2 ^ K).        (* the modulus is a ruint<K> value *)
  Lemma ru_negin_spec x y : residue p y x -> residue p (- y) (ru_negin p x).
  Proof.
    intros [Hx Hc]. unfold ru_negin. destruct (Z.eqb_spec x 0) as [->|Hnz].
    - split; [lia|]. rewrite Z.mod_0_l in * by lia. symmetry in Hc.
      apply Z.mod_divide in Hc; [|lia]. destruct Hc as [k ->]. apply (cong_intro p 0 (- (k * p)) k); lia.
    - split; [lia|]. assert (x = y mod p) as Hx' by (rewrite <- Hc; symmetry; apply Z.mod_small; lia).
      apply (cong_intro p _ _ (1 + y / p)); [lia|]. pose proof (Z.div_mod y p ltac:(lia)). lia.
  Qed.
  Lemma pow_K : 2 ^ 64 <= 2 ^ (2 ^ K).
  Proof. apply pow2_le. split; [lia|]. change 64 with (2 ^ 6). apply pow2_le; lia. Qed.
  Lemma ru_fin a m : m = Z.abs a -> 0 <= m < 2 ^ (2 ^ K) ->
    residue p a (let r := ru_wrap K m mod p in if a <? 0 then ru_negin p r else r).
  Proof.
    intros -> Hm. unfold ru_wrap. rewrite (Z.mod_small (Z.abs a)) by lia.
    pose proof (residue_mod p (Z.abs a) ltac:(lia)) as HR. cbv zeta. destruct (Z.ltb_spec a 0).
    - eapply residue_cong; [| apply ru_negin_spec; exact HR]. f_equal; lia.
    - eapply residue_cong; [| exact HR]. f_equal; lia.
  Qed.
  (* Integer source (repaired body): EVERY integer; native integers whose negation does not overflow *)
  Theorem ru_init_Integer_correct a : exists r, ru_init K p SInteger a = Some r /\ residue p a r.
  Proof.
    cbn [ru_init]. eexists; split; [reflexivity|]. pose proof (Z.mod_pos_bound (Z.abs a) p ltac:(lia)).
    unfold ru_wrap. rewrite (Z.mod_small (Z.abs a mod p)) by lia. rewrite Z.mod_mod by lia.
    pose proof (residue_mod p (Z.abs a) ltac:(lia)) as HR. destruct (Z.ltb_spec a 0).
    - eapply residue_cong; [| apply ru_negin_spec; exact HR]. f_equal; lia.
    - eapply residue_cong; [| exact HR]. f_equal; lia.
  Qed.
  (* floating sources (repaired body, fix-14): routed through Integer(a): EVERY integer-valued double / float *)
  Theorem ru_init_float_correct prec a : exists r, ru_init K p (SF prec) a = Some r /\ residue p a r.
  Proof. exact (ru_init_Integer_correct a). Qed.
  (* native integer sources (repaired body): every value of a type of at most 64 bits except INT64_MIN *)
  Theorem ru_init_int_correct T a :
    in_range T a -> - 2 ^ 63 < a < 2 ^ 64 -> (sg T = true -> a < 2 ^ 63) -> exists r, ru_init K p (SI T) a = Some r /\ residue p a r.
  Proof.
    intros Ha Hb Hs. cbn [ru_init]. eexists; split; [reflexivity|].
    assert (wabs (sg T) a = Z.abs a) as ->.
    { destruct (sg T) eqn:E.
      - apply wabs_abs; [discriminate | specialize (Hs eq_refl); lia].
      - unfold wabs. unfold in_range, tmin in Ha. rewrite E in Ha. lia. }
    rewrite wrapu_id by lia. pose proof pow_K. apply ru_fin; auto; lia.
  Qed.
End Ruint.
(* ------------------------------------------------------------------ table rings: the index that is looked up is x mod q *)
Section Tables.
  Variable q : Z.
  Hypothesis Hq : 2 <= q.
  (* GFqDom: Integer source (every integer), uint64_t / uint32_t sources (every value) *)
  Theorem gf_init_Integer_correct b x : gf_init b q SInteger x = Some (x mod q).
  Proof.
    cbn [gf_init]. unfold gf_idx. destruct (Z.ltb_spec x 0).
    - destruct (Z.leb_spec x (- q)).
      + destruct (Z.eqb_spec ((- x) mod q) 0) as [E|E].
        * f_equal. symmetry. apply Z.mod_divide; [lia|]. apply Z.mod_divide in E; [|lia]. destruct E as [k E]. exists (- k). lia.
        * pose proof (Z.mod_pos_bound (- x) q ltac:(lia)).
          replace ((0 <=? q - (- x) mod q) && (q - (- x) mod q <? q)) with true by (symmetry; apply andb_true_iff; split; [apply Z.leb_le|apply Z.ltb_lt]; lia).
          f_equal. symmetry. rewrite <- (Z.mod_small (q - (- x) mod q) q) by lia.
          apply (cong_intro q _ _ (- (1 + (- x) / q))); [lia|]. pose proof (Z.div_mod (- x) q ltac:(lia)). lia.
      + destruct (Z.eqb_spec (- x) 0); [lia|].
        replace ((0 <=? q - - x) && (q - - x <? q)) with true by (symmetry; apply andb_true_iff; split; [apply Z.leb_le|apply Z.ltb_lt]; lia).
        f_equal. symmetry. rewrite <- (Z.mod_small (q - - x) q) by lia. apply (cong_intro q _ _ (-1)); lia.
    - destruct (Z.leb_spec q x).
      + pose proof (Z.mod_pos_bound x q ltac:(lia)).
        replace ((0 <=? x mod q) && (x mod q <? q)) with true by (symmetry; apply andb_true_iff; split; [apply Z.leb_le|apply Z.ltb_lt]; lia).
        reflexivity.
      + replace ((0 <=? x) && (x <? q)) with true by (symmetry; apply andb_true_iff; split; [apply Z.leb_le|apply Z.ltb_lt]; lia).
        rewrite Z.mod_small by lia. reflexivity.
  Qed.
  Lemma gf_idx_small i : 0 <= i < q -> gf_idx q i = Some i.
  Proof. intros; unfold gf_idx. replace ((0 <=? i) && (i <? q)) with true; auto. symmetry; apply andb_true_iff; split; [apply Z.leb_le|apply Z.ltb_lt]; lia. Qed.
  Theorem gf_init_unsigned_correct b T x :
    sg T = false -> 32 <= bits T -> 0 <= x -> gf_init b q (SI T) x = Some (x mod q).
  Proof.
    intros HsT Hb Hx. cbn [gf_init]. rewrite HsT. cbn [orb].
    assert (bits T <? 32 = false) as E32 by (apply Z.ltb_ge; lia). rewrite E32. cbn [negb]. rewrite Bool.andb_true_r.
    assert (gf_idx q (if q <=? x then x mod q else x) = Some (x mod q)) as HA.
    { destruct (Z.leb_spec q x).
      - apply gf_idx_small. apply Z.mod_pos_bound; lia.
      - rewrite Z.mod_small by lia. apply gf_idx_small; lia. }
    destruct (bits T <? 64); exact HA.
  Qed.
  (* init(int64_t) (repaired body) and init(int32_t), which forwards to it: EVERY value of the source type, incl. the most negative *)
  Theorem gf_init_signed_correct b T x :
    sg T = true -> 0 < bits T <= 64 -> q <= 2 ^ 62 -> in_range T x -> gf_init b q (SI T) x = Some (x mod q).
  Proof.
    intros HsT Hb Hq62 Hx. cbn [gf_init]. rewrite HsT. cbn [orb negb]. rewrite Bool.andb_false_r.
    pose proof (rem_bound x q ltac:(lia)) as [Hrb [Hrp Hrn]]. pose proof (rem_cong x q ltac:(lia)) as Hc.
    assert (2 ^ 62 = 4611686018427387904) as E62 by reflexivity. rewrite E62 in Hq62.
    assert (forall z, - 4611686018427387904 <= z <= 4611686018427387904 -> cast i64 z = z) as Hc64.
    { intros; apply cast_id; unfold wf, tmin, tmax; cbn; try change (2 ^ (64 - 1)) with 9223372036854775808; lia. }
    destruct (Z.ltb_spec x 0).
    - rewrite (Hc64 (Z.rem x q)) by lia. rewrite Hc64 by lia.
      destruct (Z.eqb_spec (- Z.rem x q) 0) as [E|E].
      + f_equal. rewrite <- Hc. replace (Z.rem x q) with 0 by lia. symmetry; apply Z.mod_0_l; lia.
      + rewrite (wrapu_id 64 (- Z.rem x q)) by (try change (2 ^ 64) with 18446744073709551616; lia).
        rewrite wrapu_id by (try change (2 ^ 64) with 18446744073709551616; lia).
        rewrite gf_idx_small by lia. f_equal. rewrite <- Hc.
        rewrite <- (Z.mod_small (q - - Z.rem x q) q) by lia. apply (cong_intro q _ _ 1); lia.
    - destruct (Z.leb_spec q x).
      + rewrite Z.rem_mod_nonneg by lia. apply gf_idx_small. apply Z.mod_pos_bound; lia.
      + rewrite Z.mod_small by lia. apply gf_idx_small; lia.
  Qed.
End Tables.
(* Modular<Log16>::init(int64_t) (repaired body): every int64_t except that the table index must fit int16_t: p < 2^15 *)
Theorem lg_init_i64_correct p a : 2 <= p < 2 ^ 15 -> in_range i64 a -> lg_init_i64 p a = Some (a mod p).
Proof.
  intros Hp Ha. unfold lg_init_i64, in_range in *. cbn in Ha. change (2 ^ 15) with 32768 in Hp.
  change (- 2 ^ (64 - 1)) with (-9223372036854775808) in Ha. change (2 ^ (64 - 1) - 1) with 9223372036854775807 in Ha.
  set (ua := if a <? 0 then wrapu 64 (cast i64 (- a)) else a).
  assert (ua = Z.abs a) as Hua.
  { unfold ua. destruct (Z.ltb_spec a 0); [|lia]. destruct (Z.eq_dec a (-9223372036854775808)) as [->|Hne]; [reflexivity|].
    rewrite (cast_id i64) by (unfold wf, tmin, tmax; cbn; try change (2 ^ (64 - 1)) with 9223372036854775808; lia).
    rewrite wrapu_id by (try change (2 ^ 64) with 18446744073709551616; lia). lia. }
  rewrite Hua.
  set (r0 := if p <=? Z.abs a then Z.abs a mod p else Z.abs a).
  assert (r0 = Z.abs a mod p /\ 0 <= r0 < p) as [Hr0 Hr0b].
  { unfold r0. pose proof (Z.mod_pos_bound (Z.abs a) p ltac:(lia)). destruct (Z.leb_spec p (Z.abs a)); [auto|]. rewrite Z.mod_small by lia. lia. }
  assert (forall z, 0 <= z <= p -> cast i16 z = z) as Hc16.
  { intros; apply cast_id; unfold wf, tmin, tmax; cbn; try change (2 ^ (16 - 1)) with 32768; lia. }
  rewrite (Hc16 r0) by lia. unfold lg_idx.
  destruct (Z.ltb_spec a 0); cbn [andb].
  - destruct (Z.eqb_spec r0 0) as [E|E]; cbn [negb].
    + rewrite E. replace ((0 <=? 0) && (0 <? p)) with true by (symmetry; apply andb_true_iff; split; [apply Z.leb_le|apply Z.ltb_lt]; lia).
      f_equal. symmetry. apply Z.mod_divide; [lia|]. rewrite Hr0 in E. apply Z.mod_divide in E; [|lia]. destruct E as [k E]. exists (- k). lia.
    + rewrite (Hc16 (p - r0)) by lia.
      replace ((0 <=? p - r0) && (p - r0 <? p)) with true by (symmetry; apply andb_true_iff; split; [apply Z.leb_le|apply Z.ltb_lt]; lia).
      f_equal. symmetry. rewrite <- (Z.mod_small (p - r0) p) by lia. rewrite Hr0.
      apply (cong_intro p _ _ (- (1 + Z.abs a / p))); [lia|]. pose proof (Z.div_mod (Z.abs a) p ltac:(lia)). lia.
  - replace ((0 <=? r0) && (r0 <? p)) with true by (symmetry; apply andb_true_iff; split; [apply Z.leb_le|apply Z.ltb_lt]; lia).
    f_equal. rewrite Hr0. f_equal. lia.
Qed.

(* Modular<Log16>::init(double|float) (repaired body): init((int64_t)fmod(i, p)) — EVERY integer-valued floating source *)
Theorem lg_init_float_correct p prec a : 2 <= p < 2 ^ 15 -> lg_init p (SF prec) a = Some (a mod p).
Proof.
  intros Hp. cbn [lg_init]. pose proof (rem_bound a p ltac:(lia)) as [Hb _]. change (2 ^ 15) with 32768 in Hp.
  rewrite lg_init_i64_correct; [| change (2 ^ 15) with 32768; lia | unfold in_range; cbn; change (2 ^ (64 - 1)) with 9223372036854775808; lia].
  f_equal. apply rem_cong; lia.
Qed.

(* GFqDom::init(double|float) (repaired body): every integer-valued floating source when q <= 2^31 (int32_t tables) *)
Theorem gf_init_float_correct q prec x : 2 <= q <= 2 ^ 31 -> gf_init 32 q (SF prec) x = Some (x mod q).
Proof.
  intros Hq. cbn [gf_init]. change (2 ^ 31) with 2147483648 in Hq.
  change (rnd 53 (tmax (UTT 32))) with 4294967295.
  assert (forall i, 0 <= i < q -> gf_idx q i = Some i) as Hidx.
  { intros; unfold gf_idx. replace ((0 <=? i) && (i <? q)) with true; auto. symmetry; apply andb_true_iff; split; [apply Z.leb_le|apply Z.ltb_lt]; lia. }
  set (tr := Z.abs x).
  assert (exists t, (if 4294967295 <=? tr then Some (Z.rem tr q)
                     else if q <=? tr then obind (f2i (UTT 32) tr) (fun u => Some (u mod q)) else Some tr) = Some t
                    /\ 0 <= t < q /\ t mod q = tr mod q) as (t0 & -> & Ht & Hc).
  { destruct (Z.leb_spec 4294967295 tr).
    - exists (Z.rem tr q). split; auto. pose proof (rem_bound tr q ltac:(lia)) as [? [? ?]]. split; [unfold tr in *; lia|]. apply rem_cong; lia.
    - destruct (Z.leb_spec q tr).
      + rewrite f2i_some by (unfold tmin, tmax, UTT; cbn; unfold tr in *; lia). cbn [obind]. exists (tr mod q). split; auto.
        split; [apply Z.mod_pos_bound; lia | apply Z.mod_mod; lia].
      + exists tr. split; auto. split; [unfold tr in *; lia | reflexivity]. }
  cbn [obind]. destruct (Z.ltb_spec x 0).
  - destruct (Z.eqb_spec t0 0) as [->|E].
    + f_equal. symmetry. rewrite Z.mod_0_l in Hc by lia. symmetry in Hc. apply Z.mod_divide in Hc; [|lia]. destruct Hc as [k Hk].
      apply Z.mod_divide; [lia|]. exists (- k). unfold tr in Hk. lia.
    + rewrite Hidx by lia. f_equal. symmetry. rewrite <- (Z.mod_small (q - t0) q) by lia.
      assert (t0 = tr mod q) as Ht0 by (rewrite <- Hc; symmetry; apply Z.mod_small; lia).
      apply (cong_intro q _ _ (- (1 + tr / q))); [lia|]. pose proof (Z.div_mod tr q ltac:(lia)). unfold tr in *. lia.
  - rewrite Hidx by lia. f_equal. rewrite <- (Z.mod_small t0 q) by lia. rewrite Hc. unfold tr. f_equal. lia.
Qed.

(* ------------------------------------------------------------------ ModularExtended<float|double> (repaired bodies): the
   specialisations that are now selected: Integer, floating sources, and the native sources that have one *)
Section Extended.
  Variables prec p : Z.
  Hypothesis Hp : 2 <= p.
  Lemma ex_negin_spec x y : residue p y x -> residue p (- y) (ex_negin p x).
  Proof.
    intros [Hx Hc]. unfold ex_negin. destruct (Z.ltb_spec (- x) 0).
    - split; [lia|]. assert (x = y mod p) as Hx' by (rewrite <- Hc; symmetry; apply Z.mod_small; lia).
      apply (cong_intro p _ _ (1 + y / p)); [lia|]. pose proof (Z.div_mod y p ltac:(lia)). lia.
    - assert (x = 0) as -> by lia. change (- 0) with 0. split; [lia|].
      assert (y mod p = 0) as Hy by (rewrite <- Hc; apply Z.mod_0_l; lia).
      apply Z.mod_divide in Hy; [|lia]. destruct Hy as [k ->]. rewrite Z.mod_0_l by lia. symmetry.
      apply Z.mod_divide; [lia|]. exists (- k); lia.
  Qed.
  Definition ex_src_ok (s : src) (a : Z) : Prop :=
    match s with
    | SInteger | SF _ => True
    | SI T => (if prec =? 24 then 32 <=? bits T else bits T =? 64) = true /\ (sg T = false -> 0 <= a)
    | _ => False
    end.
  (* the exact native specialisations (also the target of the generic template's forward for wide integral types) *)
  Lemma ex_exact_correct sgn a : (sgn = false -> 0 <= a) -> exists r, ex_exact p sgn a = Some r /\ residue p a r.
  Proof.
    intros Hu. pose proof (rem_bound a p ltac:(lia)) as [Hb [Hpos Hneg]]. pose proof (rem_cong a p ltac:(lia)) as Hc.
    unfold ex_exact. destruct sgn; eexists; (split; [reflexivity|]).
    - assert (residue p (Z.abs a) (Z.abs (Z.rem a p))) as HA.
      { split; [lia|]. destruct (Z.ltb_spec a 0).
        - replace (Z.abs (Z.rem a p)) with (Z.rem (- a) p) by (rewrite Z.rem_opp_l'; lia).
          replace (Z.abs a) with (- a) by lia. apply rem_cong; lia.
        - replace (Z.abs (Z.rem a p)) with (Z.rem a p) by lia. replace (Z.abs a) with a by lia. auto. }
      destruct (Z.ltb_spec a 0).
      + eapply residue_cong; [| apply ex_negin_spec; exact HA]. f_equal; lia.
      + eapply residue_cong; [| exact HA]. f_equal; lia.
    - apply residue_mod; lia.
  Qed.
  Theorem ex_init_specialised_correct s a : ex_src_ok s a -> exists r, ex_init prec p s a = Some r /\ residue p a r.
  Proof.
    pose proof (rem_bound a p ltac:(lia)) as [Hb [Hpos Hneg]]. pose proof (rem_cong a p ltac:(lia)) as Hc.
    assert (residue p a (if Z.rem a p <? 0 then Z.rem a p + p else Z.rem a p)) as HR.
    { destruct (Z.ltb_spec (Z.rem a p) 0); (split; [lia|]); [rewrite <- Hc; apply (cong_intro p _ _ 1); lia | auto]. }
    destruct s as [T|sprec| |K|sgn]; cbn [ex_src_ok ex_init]; intros H; try contradiction;
      try (eexists; split; [reflexivity|]; exact HR).
    destruct H as [-> Hu]. apply ex_exact_correct; auto.
  Qed.
End Extended.

