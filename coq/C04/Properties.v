(* C04 property theorems.  Nothing but statements closed by `exact`, each followed by Print Assumptions.
   residue p x r  :=  0 <= r < p /\ r mod p = x mod p          (r is the canonical element representing x)
   balanced p x r :=  mhalfp p <= r <= halfp p /\ r mod p = x mod p
   admissible St p := 0 < bits St /\ 2 <= p <= tmax St          (p fits the element type; implied by p <= maxCardinality)
   in_range T y   :=  tmin T <= y <= tmax T                     (y is a value of the C type T) *)
From Coq Require Import ZArith Bool.
From C04 Require Import Model ProofsBase ProofsIntegral ProofsRings Redc ProofsMont ProofsExtended ProofsDispatch.
Local Open Scope Z_scope.

(* ---- Modular<S, C>, integral storage (modular-integral.inl) ---- *)
Theorem C04_integral_unsigned_source_at_least_as_wide : forall St p, admissible St p -> forall T y,
  sg T = false -> in_range T y -> residue p y (mi_init_uwide St p T y).
Proof. exact mi_init_uwide_correct. Qed.
Print Assumptions C04_integral_unsigned_source_at_least_as_wide.
Theorem C04_integral_signed_wider_source_all_values_incl_type_min : forall St p, admissible St p -> forall T y,
  sg T = true -> bits St < bits T -> in_range T y -> residue p y (mi_init_swide St p T y).
Proof. exact mi_init_swide_correct. Qed.
Print Assumptions C04_integral_signed_wider_source_all_values_incl_type_min.
Theorem C04_integral_Integer_source_every_integer : forall St p, admissible St p -> forall y, residue p y (mi_init_Integer St p y).
Proof. exact mi_init_Integer_correct. Qed.
Print Assumptions C04_integral_Integer_source_every_integer.
Theorem C04_integral_signed_storage_generic_source : forall St p, admissible St p -> forall y,
  in_range St y -> residue p y (mi_init_gen_s_int St p y).
Proof. exact mi_init_gen_s_correct. Qed.
Print Assumptions C04_integral_signed_storage_generic_source.
Theorem C04_integral_unsigned_storage_generic_source : forall St p, admissible St p -> forall T y,
  sg St = false -> in_range T y -> - 2 ^ 63 < y < 2 ^ 63 -> Z.abs y <= tmax St -> residue p y (mi_init_gen_u_int St p T y).
Proof. exact mi_init_gen_u_correct. Qed.
Print Assumptions C04_integral_unsigned_storage_generic_source.
Theorem C04_integral_float_source_signed_storage : forall St p, admissible St p -> forall prec y,
  sg St = true -> rnd prec p = p -> exists r, mi_init_float_s St p prec y = Some r /\ residue p y r.
Proof. exact mi_init_float_s_correct. Qed.
Print Assumptions C04_integral_float_source_signed_storage.
Theorem C04_integral_float_source_unsigned_storage : forall St p, admissible St p -> forall prec y,
  rnd prec p = p -> exists r, mi_init_float_u St p prec y = Some r /\ residue p y r.
Proof. exact mi_init_float_u_correct. Qed.
Print Assumptions C04_integral_float_source_unsigned_storage.
Theorem C04_integral_mOne_is_image_of_minus_one : forall St p, admissible St p -> residue p (-1) (mi_mone St p).
Proof. exact mi_mone_correct. Qed.
Print Assumptions C04_integral_mOne_is_image_of_minus_one.
Theorem C04_integral_init_convert_identity : forall St p, admissible St p -> forall e, 0 <= e < p -> mi_init_Integer St p e = e.
Proof. exact mi_roundtrip_Integer. Qed.
Print Assumptions C04_integral_init_convert_identity.
(* remaining defect of the code (known finding) and one piece of history: the unrestricted statements are false *)
(* why unsigned sources of the storage width must not reach the generic signed body (they no longer do: fix-5) *)
Theorem C04_integral_generic_signed_body_unsound_for_same_width_unsigned :
  exists St p y, admissible St p /\ in_range (unsigned_of St) y /\ ~ residue p y (mi_init_gen_s_int St p y).
Proof. exact mi_init_gen_s_same_width_refuted. Qed.
Print Assumptions C04_integral_generic_signed_body_unsound_for_same_width_unsigned.
Theorem C04_integral_float_source_unrepresentable_modulus_refuted :
  exists p y r, admissible i64 p /\ rnd 53 y = y /\ mi_init_float_s i64 p (fwide 53) y = Some r /\ ~ residue p y r.
Proof. exact mi_init_float_modulus_refuted. Qed.
Print Assumptions C04_integral_float_source_unrepresentable_modulus_refuted.

(* ---- convert = Caster<T, Element> = static_cast: facts about the MODEL's cast / rounding only (the stored integer is returned whenever the
        target type holds it); the convert bodies themselves are tied by the correspondence run, not by a theorem ---- *)
Theorem C04_convert_native_exact : forall T e, wf T -> tmin T <= e <= tmax T -> conv_int T e = e.
Proof. exact cast_id. Qed.
Print Assumptions C04_convert_native_exact.
Theorem C04_convert_floating_exact : forall prec e, 0 < prec -> Z.abs e < 2 ^ prec -> conv_flt prec e = e.
Proof. exact rnd_exact. Qed.
Print Assumptions C04_convert_floating_exact.

(* ---- Modular<float|double, C> (modular-floating.inl); p = 2^prec is maxCardinality of Modular<float,double> and is included ---- *)
Theorem C04_floating_every_source : forall prec p, 0 < prec -> 2 <= p <= 2 ^ prec -> forall s a,
  mf_src_ok prec p s a -> exists r, mf_init prec p s a = Some r /\ residue p a r.
Proof. exact mf_init_correct. Qed.
Print Assumptions C04_floating_every_source.
Theorem C04_floating_mOne : forall prec p, 0 < prec -> 2 <= p <= 2 ^ prec -> residue p (-1) (mf_mone prec p).
Proof. exact mf_mone_correct. Qed.
Print Assumptions C04_floating_mOne.

(* ---- ModularBalanced<double|float|int32_t|int64_t> ---- *)
Theorem C04_balanced_floating_every_source : forall p, 3 <= p -> forall prec s y,
  bf_src_ok prec s y -> exists r, bf_init p prec s y = Some r /\ balanced p y r.
Proof. exact bf_init_correct. Qed.
Print Assumptions C04_balanced_floating_every_source.
Theorem C04_balanced_integral_every_source : forall p, 3 <= p -> forall b s y,
  0 < b -> p <= tmax (Ity b true) -> bi_src_ok b s y -> exists r, bi_init p b s y = Some r /\ balanced p y r.
Proof. exact bi_init_correct. Qed.
Print Assumptions C04_balanced_integral_every_source.
(* (a fact about the numbers 0, 1, -1 and the balanced window: the constructors store the literals 0, 1, -1) *)
Theorem C04_balanced_constants : forall p, 3 <= p -> balanced p 0 0 /\ balanced p 1 1 /\ balanced p (-1) (-1).
Proof. exact bal_constants. Qed.
Print Assumptions C04_balanced_constants.

(* ---- Modular<Integer>, Modular<ruint<K>> ---- *)
Theorem C04_modular_Integer_every_integer : forall p a, 0 < p -> residue p a (mz_init p a).
Proof. exact mz_init_correct. Qed.
Print Assumptions C04_modular_Integer_every_integer.
Theorem C04_ruint_Integer_source_every_integer : forall K p, 6 <= K -> 2 <= p < 2 ^ (2 ^ K) -> forall a,
  exists r, ru_init K p SInteger a = Some r /\ residue p a r.
Proof. exact ru_init_Integer_correct. Qed.
Print Assumptions C04_ruint_Integer_source_every_integer.
Theorem C04_ruint_native_integer_source : forall K p, 6 <= K -> 2 <= p < 2 ^ (2 ^ K) -> forall T a,
  in_range T a -> - 2 ^ 63 < a < 2 ^ 64 -> (sg T = true -> a < 2 ^ 63) -> exists r, ru_init K p (SI T) a = Some r /\ residue p a r.
Proof. exact ru_init_int_correct. Qed.
Print Assumptions C04_ruint_native_integer_source.

Theorem C04_ruint_floating_source_every_value : forall K p, 6 <= K -> 2 <= p < 2 ^ (2 ^ K) -> forall prec a,
  exists r, ru_init K p (SF prec) a = Some r /\ residue p a r.
Proof. exact ru_init_float_correct. Qed.
Print Assumptions C04_ruint_floating_source_every_value.

(* ---- table rings: the index looked up in pol2log / _tab_value2rep is x mod q ---- *)
Theorem C04_gfq_Integer_source_every_integer : forall q, 2 <= q -> forall b x, gf_init b q SInteger x = Some (x mod q).
Proof. exact gf_init_Integer_correct. Qed.
Print Assumptions C04_gfq_Integer_source_every_integer.
Theorem C04_gfq_unsigned_source : forall q, 2 <= q -> forall b T x,
  sg T = false -> 32 <= bits T -> 0 <= x -> gf_init b q (SI T) x = Some (x mod q).
Proof. exact gf_init_unsigned_correct. Qed.
Print Assumptions C04_gfq_unsigned_source.
Theorem C04_gfq_signed_source_all_values_incl_type_min : forall q, 2 <= q -> forall b T x,
  sg T = true -> 0 < bits T <= 64 -> q <= 2 ^ 62 -> in_range T x -> gf_init b q (SI T) x = Some (x mod q).
Proof. exact gf_init_signed_correct. Qed.
Print Assumptions C04_gfq_signed_source_all_values_incl_type_min.
Theorem C04_log16_int64_source_every_value : forall p a, 2 <= p < 2 ^ 15 -> in_range i64 a -> lg_init_i64 p a = Some (a mod p).
Proof. exact lg_init_i64_correct. Qed.
Print Assumptions C04_log16_int64_source_every_value.

Theorem C04_log16_floating_source_every_value : forall p prec a, 2 <= p < 2 ^ 15 -> lg_init p (SF prec) a = Some (a mod p).
Proof. exact lg_init_float_correct. Qed.
Print Assumptions C04_log16_floating_source_every_value.
Theorem C04_gfq32_floating_source_every_value : forall q prec x, 2 <= q <= 2 ^ 31 -> gf_init 32 q (SF prec) x = Some (x mod q).
Proof. exact gf_init_float_correct. Qed.
Print Assumptions C04_gfq32_floating_source_every_value.

(* ---- ModularExtended<float|double>: the specialisations (Integer, floating, 64-bit / >= 32-bit native sources) ---- *)
Theorem C04_extended_specialised_sources : forall prec p, 2 <= p -> forall s a,
  ex_src_ok prec s a -> exists r, ex_init prec p s a = Some r /\ residue p a r.
Proof. exact ex_init_specialised_correct. Qed.
Print Assumptions C04_extended_specialised_sources.

(* ---- ModularExtended<float|double>: the generic template  r = Caster<Element>(a); reduce(r)  (narrow native sources, long long),
        reduce = quotient estimate with the ROUNDED 1/p and the ROUNDED product, exact fma remainder, ONE correction step.
        ex_tail prec p a = a - floor(rn(a * rn(1/p))) * p  is the value handed to `if (a >= _p) a -= _p; else if (a < 0) a += _p;` ---- *)
Theorem C04_extended_reduce_one_correction_step_suffices : forall prec p a, 1 < prec -> 2 <= p <= 2 ^ (prec - 1) -> Z.abs a < 2 ^ prec ->
  - p <= ex_tail prec p a < 2 * p /\ residue p a (ex_reduce prec p a).
Proof. exact ex_reduce_full. Qed.
Print Assumptions C04_extended_reduce_one_correction_step_suffices.
Theorem C04_extended_generic_sources : forall prec p s a, 1 < prec -> 2 <= p <= 2 ^ (prec - 1) -> ex_generic_ok prec s a ->
  exists r, ex_init prec p s a = Some r /\ residue p a r.
Proof. exact ex_init_generic_correct. Qed.
Print Assumptions C04_extended_generic_sources.
Theorem C04_extended_every_source : forall prec p s a, 1 < prec -> 2 <= p <= 2 ^ (prec - 1) -> ex_every_ok prec s a ->
  exists r, ex_init prec p s a = Some r /\ residue p a r.
Proof. exact ex_init_every_source. Qed.
Print Assumptions C04_extended_every_source.
Theorem C04_extended_mOne : forall prec p, 1 < prec -> 2 <= p <= 2 ^ (prec - 1) -> residue p (-1) (mone (RExt prec) p).
Proof. exact ex_mone_correct. Qed.
Print Assumptions C04_extended_mOne.
(* the upper comparison of the tail must be `>=`: the tail value IS p for an exact multiple of p (p = 49, a = 49, double) *)
Theorem C04_extended_reduce_upper_comparison_must_be_ge : exists p a, 2 <= p <= 2 ^ 50 - 1 /\ 0 < a < 2 ^ 32 /\ ex_tail 53 p a = p /\ a mod p = 0.
Proof. exact ex_ge_needed. Qed.
Print Assumptions C04_extended_reduce_upper_comparison_must_be_ge.
Theorem C04_extended_reduce_tail_attains_p : ex_tail 53 49 49 = 49 /\ ex_tail 53 75 (-2250) = 75 /\ ex_tail 53 32749 32749 = 32749 /\ ex_tail 24 41 41 = 41 /\ ex_tail 24 7 (-21) = 7.
Proof. exact ex_tail_attains_p. Qed.
Print Assumptions C04_extended_reduce_tail_attains_p.
Theorem C04_extended_reduce_tail_attains_negative : ex_tail 53 5 9007199254740989 = -1 /\ ex_tail 53 3 (-9007199254740991) = -1.
Proof. exact ex_tail_attains_negative. Qed.
Print Assumptions C04_extended_reduce_tail_attains_negative.

(* ---- Montgomery<int32_t> (hypothesis-free: the 32-bit redc is Montgomery reduction, _nim is right for every odd p in 3..40503
        by a complete kernel sweep, B = 2^16) ---- *)
Theorem C04_montgomery_redc_is_REDC : forall p, 3 <= p <= 40503 -> Z.odd p = true -> forall c, 0 <= c < p * p ->
  0 <= mg_redc p c < p /\ mg_redc p c = (c * Binv 65536 p (mg_nim p)) mod p.
Proof. exact mg_redc_spec. Qed.
Print Assumptions C04_montgomery_redc_is_REDC.
Theorem C04_montgomery_to_from_identity : forall p, 3 <= p <= 40503 -> Z.odd p = true -> forall r, 0 <= r < p ->
  0 <= mg_to p r < p /\ mg_lift p (mg_to p r) = r.
Proof. exact mg_roundtrip. Qed.
Print Assumptions C04_montgomery_to_from_identity.
Theorem C04_montgomery_from_to_identity : forall p, 3 <= p <= 40503 -> Z.odd p = true -> forall e, 0 <= e < p ->
  0 <= mg_lift p e < p /\ mg_to p (mg_lift p e) = e.
Proof. exact mg_from_to. Qed.
Print Assumptions C04_montgomery_from_to_identity.
Theorem C04_montgomery_image_value : forall p, 3 <= p <= 40503 -> Z.odd p = true -> forall r, 0 <= r < p -> mg_to p r = (r * 65536) mod p.
Proof. exact mg_to_value. Qed.
Print Assumptions C04_montgomery_image_value.
Theorem C04_montgomery_init_convert : forall p, 3 <= p <= 40503 -> Z.odd p = true -> forall s a, mg_src_ok s a ->
  exists e, mg_init p s a = Some e /\ 0 <= e < p /\ residue p a (mg_lift p e).
Proof. exact mg_init_correct. Qed.
Print Assumptions C04_montgomery_init_convert.
Theorem C04_montgomery_constants : forall p, 3 <= p <= 40503 -> Z.odd p = true ->
  mg_lift p (mg_one p) = 1 /\ residue p (-1) (mg_lift p (mg_mone p)).
Proof. exact mg_constants. Qed.
Print Assumptions C04_montgomery_constants.

(* ---- the top-level dispatch: which body a call F.init(e, (T)x) resolves to, per ring family (Model.init / mi_init follow the enable_if
        conditions of modular-integral.h, which checks/C04.py reads from /repo on every run, and the overload sets of the other headers).
        ring_ok R m : the modulus is admissible for the family;  src_ok R m s x : x is a value of source type s inside the claim (every value of
        every native type of at most 64 bits [INT64_MIN into unsigned 64-bit storage excepted], every Integer, every integer-valued float /
        double [integral storage: when the modulus is a double], long long, ruint values the element holds; see ProofsDispatch.v);
        image_ok R m x r : r is canonical and its lift is congruent to x (balanced window / Montgomery image / table index x mod q). ---- *)
Theorem C04_integral_dispatch_every_source : forall St p s y, admissible St p -> bits St <= 64 -> mi_src_ok St p s y ->
  exists r, mi_init St p s y = Some r /\ residue p y r.
Proof. exact mi_init_dispatch_correct. Qed.
Print Assumptions C04_integral_dispatch_every_source.
Theorem C04_every_family_every_source : forall R s m x, ring_ok R m -> src_ok R m s x -> exists r, init R s m x = Some r /\ image_ok R m x r.
Proof. exact init_dispatch_correct. Qed.
Print Assumptions C04_every_family_every_source.
(* init(convert(e)) = e for EVERY family (convert<Integer> = lift; uniqueness of the canonical representative) *)
Theorem C04_init_convert_identity_every_family : forall R m e, ring_ok R m -> canonical R m e -> init R SInteger m (lift R m e) = Some e.
Proof. exact init_convert_identity. Qed.
Print Assumptions C04_init_convert_identity_every_family.
