(* C04 (text shared with coq/C07/Redc.v, kept here so that coq/C04 builds on its own) — Montgomery reduction over Z, for an abstract radix B and modulus p (used by both parts).
   The only hypothesis tying B and p together is the constant the code precomputes:
   p1 with p * p1 = -1 (mod B).  From it Binv := (p*p1 + 1) / B is an explicit inverse of B modulo p. *)
From Coq Require Import ZArith Lia Setoid Morphisms.
Local Open Scope Z_scope.

(* ---------------------------------------------------------------- congruence modulo n as a setoid *)
Definition eqm (n a b : Z) : Prop := a mod n = b mod n.

Global Instance eqm_equiv n : Equivalence (eqm n).
Proof. split; unfold eqm; [intros x; reflexivity | intros x y H; symmetry; exact H | intros x y z H1 H2; congruence]. Qed.
Global Instance add_eqm n : Proper (eqm n ==> eqm n ==> eqm n) Z.add.
Proof. intros a b H c d H'. unfold eqm in *. rewrite (Zplus_mod a c), (Zplus_mod b d), H, H'. reflexivity. Qed.
Global Instance sub_eqm n : Proper (eqm n ==> eqm n ==> eqm n) Z.sub.
Proof. intros a b H c d H'. unfold eqm in *. rewrite (Zminus_mod a c), (Zminus_mod b d), H, H'. reflexivity. Qed.
Global Instance mul_eqm n : Proper (eqm n ==> eqm n ==> eqm n) Z.mul.
Proof. intros a b H c d H'. unfold eqm in *. rewrite (Zmult_mod a c), (Zmult_mod b d), H, H'. reflexivity. Qed.
Global Instance opp_eqm n : Proper (eqm n ==> eqm n) Z.opp.
Proof. intros a b H. rewrite <- !Z.sub_0_l. rewrite H. reflexivity. Qed.

Lemma mod_eqm n a : eqm n (a mod n) a.
Proof. unfold eqm. apply Zmod_mod. Qed.
Lemma eqm_mul_n_l n k : eqm n (n * k) 0.
Proof. unfold eqm. rewrite Z.mul_comm. rewrite Z_mod_mult. symmetry. apply Zmod_0_l. Qed.
Lemma eqm_mul_n_r n k : eqm n (k * n) 0.
Proof. rewrite Z.mul_comm. apply eqm_mul_n_l. Qed.
Lemma eqm_n n : eqm n n 0.
Proof. rewrite <- (Z.mul_1_r n) at 2. apply eqm_mul_n_l. Qed.
Lemma eqm_small n a b : eqm n a b -> 0 <= a < n -> 0 <= b < n -> a = b.
Proof. unfold eqm. intros H Ha Hb. rewrite (Z.mod_small a n), (Z.mod_small b n) in H by lia. exact H. Qed.
Lemma eqm_to_mod n a b : eqm n a b -> 0 <= a < n -> a = b mod n.
Proof. unfold eqm. intros H Ha. rewrite <- H. symmetry. apply Z.mod_small. exact Ha. Qed.
Lemma eqm_pow n a b e : eqm n a b -> eqm n (a ^ e) (b ^ e).
Proof.
  intros H. destruct (Z_lt_le_dec e 0) as [Hn|Hn].
  - rewrite !Z.pow_neg_r by lia. reflexivity.
  - revert e Hn. apply natlike_ind.
    + reflexivity.
    + intros e He IH. rewrite !Z.pow_succ_r by lia. rewrite IH, H. reflexivity.
Qed.
Global Instance pow_eqm n : Proper (eqm n ==> eq ==> eqm n) Z.pow.
Proof. intros a b H e e' <-. apply eqm_pow. exact H. Qed.

Section REDC.
  Variables B p p1 : Z.
  Hypothesis HB : 0 < B.
  Hypothesis Hp : 0 < p.
  Hypothesis Hp1 : (p * p1 + 1) mod B = 0.

  Definition Binv : Z := (p * p1 + 1) / B.

  Lemma B_Binv : B * Binv = p * p1 + 1.
  Proof. unfold Binv. symmetry. apply Z_div_exact_full_2; [lia | exact Hp1]. Qed.

  Lemma B_Binv_eqm : eqm p (B * Binv) 1.
  Proof. rewrite B_Binv. rewrite (eqm_mul_n_l p p1). reflexivity. Qed.

  Lemma Binv_B_eqm : eqm p (Binv * B) 1.
  Proof. rewrite Z.mul_comm. apply B_Binv_eqm. Qed.

  (* cancellation of B modulo p *)
  Lemma eqm_cancel_B x y : eqm p (x * B) (y * B) -> eqm p x y.
  Proof.
    intros H.
    assert (E : eqm p (x * B * Binv) (y * B * Binv)) by (rewrite H; reflexivity).
    rewrite <- !Z.mul_assoc in E. rewrite B_Binv_eqm in E. rewrite !Z.mul_1_r in E. exact E.
  Qed.

  (* the multiplier m = (c mod B) * p1 mod B and the exact quotient t = (c + m p) / B *)
  Definition mfac (c : Z) : Z := ((c mod B) * p1) mod B.
  Definition redc_t (c : Z) : Z := (c + mfac c * p) / B.

  Lemma mfac_range c : 0 <= mfac c < B.
  Proof. unfold mfac. apply Z.mod_pos_bound. exact HB. Qed.

  Lemma redc_t_exact c : (c + mfac c * p) mod B = 0.
  Proof.
    unfold mfac.
    assert (E : eqm B (c + (c mod B * p1) mod B * p) (c * (p * p1 + 1))).
    { rewrite (mod_eqm B (c mod B * p1)). rewrite (mod_eqm B c).
      replace (c * (p * p1 + 1)) with (c + c * p1 * p) by ring. reflexivity. }
    unfold eqm in E. rewrite E. rewrite <- B_Binv.
    replace (c * (B * Binv)) with (B * (c * Binv)) by ring.
    rewrite Z.mul_comm. apply Z_mod_mult.
  Qed.

  Lemma redc_t_B c : redc_t c * B = c + mfac c * p.
  Proof.
    unfold redc_t. rewrite Z.mul_comm. symmetry.
    apply Z_div_exact_full_2; [lia | apply redc_t_exact].
  Qed.

  Lemma redc_t_eqm c : eqm p (redc_t c) (c * Binv).
  Proof.
    apply eqm_cancel_B. rewrite redc_t_B. rewrite (eqm_mul_n_r p (mfac c)).
    rewrite <- Z.mul_assoc. rewrite Binv_B_eqm. rewrite Z.add_0_r, Z.mul_1_r. reflexivity.
  Qed.

  Lemma redc_t_range c : 0 <= c < p * B -> 0 <= redc_t c < 2 * p.
  Proof.
    intros Hc. pose proof (mfac_range c) as Hm. pose proof (redc_t_B c) as E.
    split.
    - assert (0 <= redc_t c * B) by nia. nia.
    - assert (redc_t c * B < 2 * p * B) by nia. nia.
  Qed.

  (* when the input is below B (a single-word element), one gets t <= p *)
  Lemma redc_t_range_small c : 0 <= c < B -> 0 <= redc_t c <= p.
  Proof.
    intros Hc. pose proof (mfac_range c) as Hm. pose proof (redc_t_B c) as E.
    split.
    - assert (0 <= redc_t c * B) by nia. nia.
    - assert (redc_t c * B < (p + 1) * B) by nia. nia.
  Qed.

  (* REDC with the final conditional subtraction *)
  Definition redc_z (c : Z) : Z := let t := redc_t c in if p <=? t then t - p else t.

  Theorem redc_z_spec c : 0 <= c < p * B -> redc_z c = (c * Binv) mod p.
  Proof.
    intros Hc. pose proof (redc_t_range c Hc) as Ht. pose proof (redc_t_eqm c) as E.
    unfold redc_z. cbv zeta. destruct (Z.leb_spec p (redc_t c)).
    - apply eqm_to_mod; [|lia]. rewrite <- E.
      replace (redc_t c - p) with (redc_t c - p * 1) by ring. rewrite (eqm_mul_n_l p 1). rewrite Z.sub_0_r. reflexivity.
    - apply eqm_to_mod; [exact E | lia].
  Qed.

End REDC.
