(* C04 driver.  One case per line:
     init  <ring> <src> <m> <x>     ->  <raw>            ("UB" when the model leaves defined behaviour, "NOMODEL" for unmodelled forms)
     rt    <ring> <src> <m> <x>     ->  <raw> <raw of init(convert<Integer>(e))> <.. int64_t> <.. uint64_t> <.. double>
     const <ring> -     <m> 0       ->  <zero> <one> <mOne> <init(-1)>
     tail  <ring> -     <m> <x>     ->  a - floor(rn(a * rn(1/m))) * m     (ModularExtended only)
   m is the modulus (q = p^k for GFqDom).  For the table rings (gfq*, log16) <raw> is the table index (the value). *)
let zs = z_of_string
let z n = z_of_string (string_of_int n)
let ring_of = function
  | "mi8" | "mi8w" -> Some (Model.RModI Model.i8) | "mu8" | "mu8w" -> Some (Model.RModI Model.u8)
  | "mi16" | "mi16w" -> Some (Model.RModI Model.i16) | "mu16" | "mu16w" -> Some (Model.RModI Model.u16)
  | "mi32" | "mi32w" -> Some (Model.RModI Model.i32) | "mu32" | "mu32w" -> Some (Model.RModI Model.u32)
  | "mi64" | "mi64w" -> Some (Model.RModI Model.i64) | "mu64" | "mu64w" -> Some (Model.RModI Model.u64)
  | "mf" | "mfd" -> Some (Model.RModF (z 24)) | "md" -> Some (Model.RModF (z 53))
  | "bd" -> Some (Model.RBalF (z 53)) | "bf" -> Some (Model.RBalF (z 24))
  | "bi32" -> Some (Model.RBalI (z 32)) | "bi64" -> Some (Model.RBalI (z 64))
  | "ef" -> Some (Model.RExt (z 24)) | "ed" -> Some (Model.RExt (z 53))
  | "mont32" -> Some Model.RMont32 | "mI" -> Some Model.RModZ
  | "mru7" -> Some (Model.RModRU (z 7)) | "mru67" -> Some (Model.RModRU (z 6))
  | "gfq32" -> Some (Model.RGFq (z 32)) | "gfq64" -> Some (Model.RGFq (z 64))
  | "log16" -> Some Model.RLog16
  | _ -> None
let src_of = function
  | "i8" -> Some (Model.SI Model.i8) | "u8" -> Some (Model.SI Model.u8)
  | "i16" -> Some (Model.SI Model.i16) | "u16" -> Some (Model.SI Model.u16)
  | "i32" -> Some (Model.SI Model.i32) | "u32" -> Some (Model.SI Model.u32)
  | "i64" -> Some (Model.SI Model.i64) | "u64" -> Some (Model.SI Model.u64)
  | "f" -> Some (Model.SF (z 24)) | "d" -> Some (Model.SF (z 53)) | "I" -> Some Model.SInteger
  | "ll" -> Some (Model.SLL true) | "ull" -> Some (Model.SLL false)
  | "ru6" -> Some (Model.SRU (z 6)) | "ru7" -> Some (Model.SRU (z 7))
  | _ -> None
let show_init r s m x =
  let (fl, v) = Model.initZ r s m x in
  if za_of_z fl = ZA.zero then None else Some v
let str = function None -> "UB" | Some v -> string_of_z v
let () = run_lines (fun toks ->
  match toks with
  | [op; rs; ss; ms; xs] ->
    (match ring_of rs with
     | None -> "NOMODEL"
     | Some r ->
       let m = zs ms in
       if op = "tail" then          (* ModularExtended: the value reduce hands to its correction tail *)
         (match r with Model.RExt prec -> string_of_z (Model.ex_tail prec m (zs xs)) | _ -> "NOMODEL")
       else if op = "const" then
         String.concat " " [ "0"; string_of_z (Model.one r m); string_of_z (Model.mone r m);
                             str (show_init r (Model.SI Model.i64) m (zs "-1")) ]
       else
         (match src_of ss with
          | None -> "NOMODEL"
          | Some (Model.SRU _) when (match r with Model.RModRU _ -> false | _ -> true) -> "NOMODEL"   (* RecInt sources into word rings: not modelled *)
          | Some s ->
            let x = zs xs in
            let e = show_init r s m x in
            if op = "init" then str e
            else (match e with
                | None -> "UB"
                | Some raw ->
                  let l = Model.lift r m raw in
                  let back s2 v = str (show_init r s2 m v) in
                  String.concat " " [ string_of_z raw;
                                      back Model.SInteger l;
                                      back (Model.SI Model.i64) (Model.conv_int Model.i64 l);
                                      back (Model.SI Model.u64) (Model.conv_int Model.u64 l);
                                      back (Model.SF (z 53)) (Model.conv_flt (z 53) l) ])))
  | _ -> "BAD-LINE")
