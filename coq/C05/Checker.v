(* C05 - the boolean check of one field's tables (definitions only; the proofs are in ProofsField.v).
   Extracted and run on the tables of every field of a check run. *)
From Coq Require Import ZArith List Bool.
From C05 Require Import Model.
Import ListNotations.
Local Open Scope Z_scope.

(* ------------------------------------------------------------ boolean helpers *)
Fixpoint leqb (a b : list Z) : bool :=
  match a, b with
  | [], [] => true
  | x :: a', y :: b' => (x =? y) && leqb a' b'
  | _, _ => false
  end.
Definition add1 (p : Z) (l : list Z) : list Z :=
  match l with [] => [] | c :: l' => ((c + 1) mod p) :: l' end.
Definition all0 (l : list Z) : bool := forallb (fun c => c =? 0) l.

(* the trie used for random access agrees with the list *)
Fixpoint agree (tr : tree) (l : list Z) (i : Z) : bool :=
  match l with [] => true | v :: l' => (zget tr i =? v) && agree tr l' (i + 1) end.
Definition tL (T : tables) (i : Z) : Z := zget (t_l2ptree T) i.
Definition tP (T : tables) (j : Z) : Z := zget (t_pol2log T) j.
Definition dg (p k : Z) (T : tables) (i : Z) : list Z := digits p (Z.to_nat k) (tL T i).

Definition c_basic (p k : Z) (T : tables) : bool :=
  (2 <=? p) && (1 <=? k) && (1 <=? t_one T) && (1 <=? t_mone T) && (t_mone T <=? t_one T) &&
  (t_q T =? t_one T + 1) && (t_q T =? p ^ k) && (t_p T =? p) && (t_k T =? k).
Definition c_list (T : tables) : bool :=
  (Z.of_nat (length (t_log2pol T)) =? t_one T + 1) && agree (t_l2ptree T) (t_log2pol T) 0.
Definition c_red (p k f : Z) : bool :=
  let fd := digits p (S (Z.to_nat k)) f in
  let lc := last fd 1 in
  ((lc * invmod lc p) mod p =? 1).
Definition c_chain (p k f g : Z) (T : tables) : bool :=
  (tL T 0 =? 0) && leqb (dg p k T 1) (digits p (Z.to_nat k) g) && leqb (dg p k T (t_one T)) (digits p (Z.to_nat k) 1) &&
  forallb (fun i => leqb (mulmod p (redk p (Z.to_nat k) f) (dg p k T i) (digits p (Z.to_nat k) g)) (dg p k T (i + 1)))
          (range_from (Z.to_nat (t_one T - 1)) 1).
Definition c_mo (p k : Z) (T : tables) : bool :=
  (plun_of T (t_mone T) =? 0) && all0 (add1 p (dg p k T (t_mone T))).
Definition c_plus (p k : Z) (T : tables) : bool :=
  forallb (fun i => (i =? t_mone T) ||
                    ((1 - t_one T <=? plun_of T i) && (plun_of T i <=? -1) &&
                     leqb (dg p k T (plun_of T i + t_one T)) (add1 p (dg p k T i))))
          (range_from (Z.to_nat (t_one T)) 1).
Definition c_perm1 (T : tables) : bool :=
  forallb (fun i => (0 <=? tL T i) && (tL T i <? t_q T) && (tP T (tL T i) =? i)) (range_from (Z.to_nat (t_q T)) 0).
Definition c_perm2 (T : tables) : bool :=
  forallb (fun j => (0 <=? tP T j) && (tP T j <? t_q T) && (tL T (tP T j) =? j)) (range_from (Z.to_nat (t_q T)) 0).

Definition tables_ok (p k f g : Z) (T : tables) : bool :=
  c_basic p k T && c_list T && c_red p k f && c_chain p k f g T && c_mo p k T && c_plus p k T && c_perm1 T && c_perm2 T.


(* ------------------------------------------------------------ the defining polynomial and the generator themselves,
   decided by the verified checkers of coq/C09 (irreducible_b: no monic divisor of degree 1..k/2, proved sound and complete
   against the definition; brute_order: least exponent with g^m = 1 modulo f) and by trial-division primality. *)
From C09 Require Model.
From C05 Require PrimeB.
Definition fpoly (p k f : Z) : list Z := C09.Model.red p (digits p (S (Z.to_nat k)) f).
Definition gpoly (p k g : Z) : list Z := C09.Model.red p (digits p (Z.to_nat k) g).
Definition fg_ok (p k f g : Z) : bool :=
  PrimeB.primeb p && (1 <=? k) && (1 <=? p ^ k - 1) &&
  (C09.Model.deg (fpoly p k f) =? k) && C09.Model.irreducible_b p (fpoly p k f) &&
  (C09.Model.brute_order p (gpoly p k g) (fpoly p k f) (p ^ k - 1) =? p ^ k - 1).
