(* C05 - model of the polynomial-quotient extension field Extension<BaseField> (src/kernel/field/extension.h) over a prime
   base field, written after the code: every operation is the Poly1Dom operation (coq/C09 Model: padd/psub/pmul/pmod are
   Poly1Dom add/sub/mul and the remainder of divmod, results normalised as setdegree does) followed by `modin(., _irred)`
   exactly where extension.h calls it.  Elements are canonical coefficient lists (low degree first).  inv/div (invmod, an
   extended gcd) are not modelled.  No proofs in this file. *)
From Coq Require Import ZArith List Bool.
From C09 Require Model.
From C05 Require Import Model.
Import ListNotations.
Local Open Scope Z_scope.

Section Ext.
  Variable p : Z.
  Variable F : list Z.            (* _irred *)
  Notation padd := (C09.Model.padd p).
  Notation psub := (C09.Model.psub p).
  Notation pmul := (C09.Model.pmul p).
  Notation modin := (fun a => C09.Model.pmod p a F).
  Definition pneg (a : list Z) : list Z := C09.Model.pscale p (-1) a.

  Definition e_add (a b : list Z) := padd a b.                         (* _pD.add *)
  Definition e_sub (a b : list Z) := psub a b.                         (* _pD.sub *)
  Definition e_neg (a : list Z) := pneg a.                             (* _pD.neg *)
  Definition e_mul (a b : list Z) := modin (pmul a b).                 (* modin(mul(r,a,b), _irred) *)
  Definition e_axpy (a b c : list Z) := padd (e_mul a b) c.            (* addin(mul(r,a,b), c) *)
  Definition e_axpyin (r b c : list Z) := modin (padd r (pmul b c)).   (* tmp = b*c; modin(addin(r,tmp)) *)
  Definition e_maxpy (a b c : list Z) := modin (psub c (pmul a b)).    (* modin(_pD.maxpy(r,a,b,c)) : c - a*b *)
  Definition e_maxpyin (r a b : list Z) := modin (psub r (pmul a b)).  (* modin(_pD.maxpyin(r,a,b)) *)
  Definition e_axmy (a b c : list Z) := psub (e_mul a b) c.            (* subin(mul(r,a,b), c) *)
  Definition e_axmyin (r a b : list Z) := pneg (e_maxpyin r a b).      (* maxpyin(r,a,b); negin(r) *)

  (* 0 add 1 sub 2 mul 3 neg 4 axpy 5 axpyin 6 maxpy 7 maxpyin 8 axmy 9 axmyin *)
  Definition ext_op (code : Z) (a b c : list Z) : list Z :=
    match code with
    | 0 => e_add a b | 1 => e_sub a b | 2 => e_mul a b | 3 => e_neg a
    | 4 => e_axpy a b c | 5 => e_axpyin a b c | 6 => e_maxpy a b c | 7 => e_maxpyin a b c
    | 8 => e_axmy a b c | _ => e_axmyin a b c
    end.
End Ext.

(* Z-level entry point: elements and the modulus as p-adic numbers *)
Definition ext_opZ (p k f code a b c : Z) : Z :=
  let el := fun n => C09.Model.red p (digits p (Z.to_nat k) n) in
  evalp p (ext_op p (C09.Model.red p (digits p (S (Z.to_nat k)) f)) code (el a) (el b) (el c)).
