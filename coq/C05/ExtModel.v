(* C05 - model of the polynomial-quotient extension field Extension<BaseField> (src/kernel/field/extension.h) over a prime
   base field, written after the code: every operation is the Poly1Dom operation (coq/C09 Model: padd/psub/pmul/pmod are
   Poly1Dom add/sub/mul and the remainder of divmod, results normalised as setdegree does) followed by `modin(., _irred)`
   exactly where extension.h calls it.  Elements are canonical coefficient lists (low degree first).  inv/div/invin/divin go
   through Poly1Dom::invmod (givpoly1gcd.inl:131, a monic-normalised extended Euclid), modelled below.  No proofs in this file. *)
From Coq Require Import ZArith List Bool.
From C09 Require Model.
From C05 Require Import Model.
Import ListNotations.
Local Open Scope Z_scope.

Section Ext.
  Variable p : Z.
  Variable F : list Z.            (* _irred *)
  Notation padd := (C09.Model.padd p).
  Notation psub := (C09.Model.psub p).
  Notation pmul := (C09.Model.pmul p).
  Notation modin := (fun a => C09.Model.pmod p a F).
  Definition pneg (a : list Z) : list Z := C09.Model.pscale p (-1) a.

  Definition e_add (a b : list Z) := padd a b.                         (* _pD.add *)
  Definition e_sub (a b : list Z) := psub a b.                         (* _pD.sub *)
  Definition e_neg (a : list Z) := pneg a.                             (* _pD.neg *)
  Definition e_mul (a b : list Z) := modin (pmul a b).                 (* modin(mul(r,a,b), _irred) *)
  Definition e_axpy (a b c : list Z) := padd (e_mul a b) c.            (* addin(mul(r,a,b), c) *)
  Definition e_axpyin (r b c : list Z) := modin (padd r (pmul b c)).   (* tmp = b*c; modin(addin(r,tmp)) *)
  Definition e_maxpy (a b c : list Z) := modin (psub c (pmul a b)).    (* modin(_pD.maxpy(r,a,b,c)) : c - a*b *)
  Definition e_maxpyin (r a b : list Z) := modin (psub r (pmul a b)).  (* modin(_pD.maxpyin(r,a,b)) *)
  Definition e_axmy (a b c : list Z) := psub (e_mul a b) c.            (* subin(mul(r,a,b), c) *)
  Definition e_axmyin (r a b : list Z) := pneg (e_maxpyin r a b).      (* maxpyin(r,a,b); negin(r) *)

  (* Poly1Dom::div(R, A, scalar): every coefficient times the inverse of the scalar *)
  Definition pdivc (a : list Z) (c : Z) : list Z := C09.Model.pscale p (C09.Model.inv p c) a.
  (* the loop of invmod: while (!isZero(G)) { divmod(Q,R1,F,G); r1 = leadcoef(R1) (one when zero); F = G; G = R1/r1;
     TMP2 = S0 - Q*S1; S0 = S1; S1 = TMP2/r1 }  -> (S0, F) at exit; None = fuel exhausted (never for fuel > deg G) *)
  Fixpoint invmod_loop (fuel : nat) (Fp G S0 S1 : list Z) : option (list Z * list Z) :=
    match G with
    | [] => Some (S0, Fp)
    | _ => match fuel with
           | O => None
           | S f =>
             let Q := C09.Model.pdiv p Fp G in
             let R1 := C09.Model.pmod p Fp G in
             let l := C09.Model.lc R1 in
             let r1 := if l mod p =? 0 then 1 else l in
             invmod_loop f G (pdivc R1 r1) S1 (pdivc (psub S0 (pmul Q S1)) r1)
           end
    end.
  (* invmod(S0, A, B): S0 with S0*A = gcd(A,B) (monic) modulo B, and that gcd *)
  Definition invmod_pair (A B : list Z) : option (list Z * list Z) :=
    if (C09.Model.deg A <=? 0) || (C09.Model.deg B <=? 0) then
      Some (C09.Model.red p [C09.Model.inv p (C09.Model.lc A)], C09.Model.pone)
    else
      let r0 := C09.Model.lc A in
      let r1 := C09.Model.lc B in
      invmod_loop (S (length B)) (pdivc A r0) (pdivc B r1) (C09.Model.red p [C09.Model.inv p r0]) [].
  (* Extension::inv(r, a) = _pD.invmod(r, a, _irred); the result is the inverse when the gcd is 1 (always, for an irreducible
     modulus and a <> 0): the model answers None otherwise *)
  Definition e_inv (a : list Z) : option (list Z) :=
    match invmod_pair a F with
    | Some (s, g) => if (C09.Model.deg a <=? 0) then (if C09.Model.deg a =? 0 then Some s else None)
                     else match g with [1] => Some s | _ => None end
    | None => None
    end.
  Definition e_div (a b : list Z) : option (list Z) :=        (* inv(ib, b); mul(r, a, ib) *)
    match e_inv b with Some ib => Some (e_mul a ib) | None => None end.

  (* 0 add 1 sub 2 mul 3 neg 4 axpy 5 axpyin 6 maxpy 7 maxpyin 8 axmy 9 axmyin *)
  Definition ext_op (code : Z) (a b c : list Z) : list Z :=
    match code with
    | 0 => e_add a b | 1 => e_sub a b | 2 => e_mul a b | 3 => e_neg a
    | 4 => e_axpy a b c | 5 => e_axpyin a b c | 6 => e_maxpy a b c | 7 => e_maxpyin a b c
    | 8 => e_axmy a b c | _ => e_axmyin a b c
    end.
End Ext.

(* Z-level entry point: elements and the modulus as p-adic numbers *)
Definition ext_invZ (p k f dodiv a b : Z) : Z :=     (* dodiv = 0: inv a;  otherwise a / b;  -1 when the model has no answer *)
  let el := fun n => C09.Model.red p (digits p (Z.to_nat k) n) in
  let F := C09.Model.red p (digits p (S (Z.to_nat k)) f) in
  match (if dodiv =? 0 then e_inv p F (el a) else e_div p F (el a) (el b)) with
  | Some r => evalp p r
  | None => -1
  end.
Definition ext_opZ (p k f code a b c : Z) : Z :=
  let el := fun n => C09.Model.red p (digits p (Z.to_nat k) n) in
  evalp p (ext_op p (C09.Model.red p (digits p (S (Z.to_nat k)) f)) code (el a) (el b) (el c)).
