(* Extraction of the executable model and of the table checker for the correspondence run (ExtrOcamlBasic only). *)
From Coq Require Import ZArith List.
From Coq Require Extraction.
From Coq Require Import ExtrOcamlBasic.
From C05 Require Import Model Checker ExtModel GF2Model QadicModel.
Extraction Language OCaml.
Cd "ocaml".
Extraction "model.ml" mk_tables dump_pol2log dump_plus1 op1 op2 op3 arr arrl dot tables_ok fg_ok ext_opZ ext_invZ gf2_opZ q_initZ q_maxn.
Cd "..".
