(* C05 - model of GF2 (src/kernel/field/gf2.inl), written after the code: one definition per overload.  Element is bool;
   the `Element&` overloads and the `BitReference` (std::vector<bool>::reference) overloads are separate functions in the
   source and separate definitions here.  For the in-place forms the first argument is the previous content of the
   destination.  `^` on bool is xorb, `&` is andb.  No proofs in this file. *)
From Coq Require Import ZArith Bool.
Local Open Scope Z_scope.

(* Element& overloads *)
Definition e_gadd (y z : bool) := xorb y z.            (* x = y ^ z *)
Definition e_gsub (y z : bool) := xorb y z.            (* x = y ^ z *)
Definition e_gmul (y z : bool) := andb y z.            (* x = y & z *)
Definition e_gdiv (y z : bool) := y.                   (* x = y       (z <> 0 asserted) *)
Definition e_gneg (y : bool) := y.                     (* x = y *)
Definition e_ginv (y : bool) := y.                     (* x = y       (y <> 0 asserted) *)
Definition e_gaxpy (a x y : bool) := xorb (andb a x) y.    (* r = (a & x) ^ y *)
Definition e_gaxmy (a x y : bool) := xorb (andb a x) y.
Definition e_gmaxpy (a x y : bool) := xorb (andb a x) y.
Definition e_gaddin (x y : bool) := xorb x y.          (* x ^= y *)
Definition e_gsubin (x y : bool) := xorb x y.
Definition e_gmulin (x y : bool) := andb x y.          (* x &= y *)
Definition e_gdivin (x y : bool) := x.                 (* return x *)
Definition e_gnegin (x : bool) := x.
Definition e_ginvin (x : bool) := x.
Definition e_gaxpyin (r a x : bool) := xorb r (andb a x).  (* r ^= a & x *)
Definition e_gaxmyin (r a x : bool) := xorb r (andb a x).
Definition e_gmaxpyin (r a x : bool) := xorb r (andb a x).
Definition e_gassign (y : bool) := y.

(* BitReference overloads *)
Definition b_gadd (y z : bool) := xorb y z.
Definition b_gsub (y z : bool) := xorb y z.
Definition b_gmul (y z : bool) := andb y z.
Definition b_gdiv (y z : bool) := y.
Definition b_gneg (y : bool) := y.
Definition b_ginv (y : bool) := y.
Definition b_gaxpy (a x y : bool) := xorb (andb a x) y.
Definition b_gaxmy (a x y : bool) := xorb (andb a x) y.
Definition b_gmaxpy (a x y : bool) := xorb (andb a x) y.
Definition b_gaddin (x y : bool) := xorb x y.          (* x = x ^ y *)
Definition b_gsubin (x y : bool) := xorb x y.
Definition b_gmulin (x y : bool) := andb x y.          (* x = (bool)x & y *)
Definition b_gdivin (x y : bool) := x.
Definition b_gnegin (x : bool) := x.
Definition b_ginvin (x : bool) := x.
Definition b_gaxpyin (r a x : bool) := xorb r (andb a x).  (* r = r ^ (a & x) *)
Definition b_gaxmyin (r a x : bool) := xorb r (andb a x).
Definition b_gmaxpyin (r a x : bool) := xorb r (andb a x).
Definition b_gassign (y : bool) := y.

(* 0 add 1 sub 2 mul 3 div 4 neg 5 inv 6 axpy 7 axmy 8 maxpy 9 addin 10 subin 11 mulin 12 divin 13 negin 14 invin
   15 axpyin 16 axmyin 17 maxpyin 18 assign;  bitref selects the overload *)
Definition gf2_op (code : Z) (bitref : bool) (a b c : bool) : bool :=
  match code with
  | 0 => if bitref then b_gadd a b else e_gadd a b
  | 1 => if bitref then b_gsub a b else e_gsub a b
  | 2 => if bitref then b_gmul a b else e_gmul a b
  | 3 => if bitref then b_gdiv a b else e_gdiv a b
  | 4 => if bitref then b_gneg a else e_gneg a
  | 5 => if bitref then b_ginv a else e_ginv a
  | 6 => if bitref then b_gaxpy a b c else e_gaxpy a b c
  | 7 => if bitref then b_gaxmy a b c else e_gaxmy a b c
  | 8 => if bitref then b_gmaxpy a b c else e_gmaxpy a b c
  | 9 => if bitref then b_gaddin a b else e_gaddin a b
  | 10 => if bitref then b_gsubin a b else e_gsubin a b
  | 11 => if bitref then b_gmulin a b else e_gmulin a b
  | 12 => if bitref then b_gdivin a b else e_gdivin a b
  | 13 => if bitref then b_gnegin a else e_gnegin a
  | 14 => if bitref then b_ginvin a else e_ginvin a
  | 15 => if bitref then b_gaxpyin a b c else e_gaxpyin a b c
  | 16 => if bitref then b_gaxmyin a b c else e_gaxmyin a b c
  | 17 => if bitref then b_gmaxpyin a b c else e_gmaxpyin a b c
  | _ => if bitref then b_gassign a else e_gassign a
  end.
Definition gf2_opZ (code bitref a b c : Z) : Z :=
  if gf2_op code (negb (bitref =? 0)) (negb (a =? 0)) (negb (b =? 0)) (negb (c =? 0)) then 1 else 0.
