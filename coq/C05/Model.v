(* C05 - executable model of GFqDom (src/kernel/field/gfq.inl), written after the macros.
   Representation (Zech logarithms): 0 is the field zero, i in [1, q-1] is g^i, so one = q-1.
   mun = q-1 (_qm1), mo = mOne, plun = the _plus1 table (q-1 is pre-subtracted from its entries).
   No proofs in this file. *)
From Coq Require Import ZArith List Bool.
Import ListNotations.
Local Open Scope Z_scope.
Arguments Z.mul : simpl never.
Arguments Z.add : simpl never.
Arguments Z.sub : simpl never.
Arguments Z.pow : simpl never.

(* ---------------------------------------------------------------- the two conditional corrections *)
(* ((c)>0)?(c):(c)+(mun) *)
Definition wrapP (c mun : Z) : Z := if 0 <? c then c else c + mun.
(* ((c)<0)?(c)+(mun):(c) *)
Definition wrapN (c mun : Z) : Z := if c <? 0 then c + mun else c.

(* ---------------------------------------------------------------- macros, gfq.inl:29-116 *)
Section Macros.
  Variable mun : Z.            (* _qm1 *)
  Variable mo : Z.             (* mOne *)
  Variable plun : Z -> Z.      (* _plus1[(UT)i] *)

  (* _GIVARO_GFQ_ADD(c,a,b,mun,plun) *)
  Definition gfq_add (a b : Z) : Z :=
    if b =? 0 then a else if a =? 0 then b else
      let c := a - b in
      let c := wrapP c mun in
      let c := plun c in
      if c =? 0 then c else
        let c := c + b in
        wrapP c mun.

  (* _GIVARO_GFQ_NEG(res,a,mo,mun) *)
  Definition gfq_neg (a : Z) : Z :=
    if a =? 0 then 0 else
      let res := a - mo in
      wrapP res mun.

  (* _GIVARO_GFQ_SUB(c,a,b,mo,mun,plun)   c = a - b *)
  Definition gfq_sub (a b : Z) : Z :=
    if a =? 0 then gfq_neg b else if b =? 0 then a else
      let c := b - a - mo in
      let c := wrapP c mun in
      let c := wrapP c mun in
      let c := plun c in
      if c =? 0 then c else
        let c := c + a in
        wrapP c mun.

  (* _GIVARO_GFQ_AUTOSUB(c,b,mo,mun,plun)   c = c - b *)
  Definition gfq_autosub (c b : Z) : Z :=
    if c =? 0 then gfq_neg b else if negb (b =? 0) then
      let c := c - b - mo in
      let c := wrapP c mun in
      let c := wrapP c mun in
      let c := plun c in
      if c =? 0 then c else
        let c := c + b in
        let c := if 0 <? c then c - mo else c + mo in
        wrapP c mun
    else c.

  (* _GIVARO_GFQ_MUL(res,a,b,mun) *)
  Definition gfq_mul (a b : Z) : Z :=
    if (a =? 0) || (b =? 0) then 0 else
      let res := a + b in
      if mun <? res then res - mun else res.

  (* _GIVARO_GFQ_INV(res,a,mun) *)
  Definition gfq_inv (a : Z) : Z :=
    let res := mun - a in
    if res =? 0 then mun else res.

  (* _GIVARO_GFQ_DIV(res,a,b,mun) *)
  Definition gfq_div (a b : Z) : Z :=
    if a =? 0 then 0 else
      let res := a - b in
      wrapP res mun.

  (* _GIVARO_GFQ_SQ(res,a,mun) *)
  Definition gfq_sq (a : Z) : Z :=
    if a =? 0 then 0 else
      let res := 2 * a - mun in
      wrapP res mun.

  (* _GIVARO_GFQ_SQADD(c,a,b,mun,plun)   c = a*a + b *)
  Definition gfq_sqadd (a b : Z) : Z :=
    if a =? 0 then b
    else if b =? 0 then
      let c := 2 * a - mun in wrapP c mun
    else
      let c := 2 * a - b - mun in
      let c := wrapN c mun in
      let c := plun (wrapP c mun) in
      if c =? 0 then c else
        let c := c + b in wrapP c mun.

  (* _GIVARO_GFQ_MULADD(c,a1,a2,b,mun,plun)   c = a1*a2 + b *)
  Definition gfq_muladd (a1 a2 b : Z) : Z :=
    if (a1 =? 0) || (a2 =? 0) then b
    else if b =? 0 then
      let c := a1 + a2 - mun in wrapP c mun
    else
      let c := a1 + a2 - b - mun in
      let c := wrapN c mun in
      let c := plun (wrapP c mun) in
      if c =? 0 then c else
        let c := c + b in wrapP c mun.

  (* _GIVARO_GFQ_MULSUB(c,a1,a2,b,mo,mun,plun)   c = b - a1*a2 *)
  Definition gfq_mulsub (a1 a2 b : Z) : Z :=
    if (a1 =? 0) || (a2 =? 0) then b
    else if b =? 0 then
      let c := a1 + a2 - mo - mun in
      let c := wrapP c mun in
      wrapP c mun
    else
      let c := a1 + a2 - b - mun - mo in
      let c := wrapN c mun in
      let c := wrapN c mun in
      let c := plun (wrapP c mun) in
      if c =? 0 then c else
        let c := c + b in wrapP c mun.

  (* ---------------------------------------------------------------- member functions, gfq.inl:307-424 *)
  Definition f_mul (a b : Z) := gfq_mul a b.
  Definition f_mulin (r a : Z) := gfq_mul r a.
  Definition f_div (a b : Z) := gfq_div a b.
  Definition f_divin (r a : Z) := gfq_div r a.
  Definition f_add (a b : Z) := gfq_add a b.
  Definition f_addin (r a : Z) := gfq_add r a.
  Definition f_sub (a b : Z) := gfq_sub a b.
  Definition f_subin (r a : Z) := gfq_autosub r a.
  Definition f_neg (a : Z) := gfq_neg a.
  Definition f_negin (r : Z) := gfq_neg r.
  Definition f_inv (a : Z) := gfq_inv a.
  Definition f_invin (r : Z) := gfq_inv r.
  Definition f_axpy (a b c : Z) := gfq_muladd a b c.                       (* r = a*b + c *)
  Definition f_axpyin (r a b : Z) := let tmp := r in gfq_muladd a b tmp.  (* r = r + a*b *)
  Definition f_maxpyin (r a b : Z) :=                                      (* r = r - a*b *)
    let tmp := gfq_mul a b in gfq_autosub r tmp.
  Definition f_axmyin (r a b : Z) := f_negin (f_maxpyin r a b).           (* r = a*b - r *)
  Definition f_axmy (a b c : Z) := let r := gfq_mul a b in gfq_autosub r c.   (* r = a*b - c *)
  Definition f_maxpy (a b c : Z) := let r := gfq_mul a b in gfq_sub c r.      (* r = c - a*b *)

  (* ---------------------------------------------------------------- array forms, gfq.inl:427-580
     The loops are `for (size_t i = sz; i--; ) body(i)` (since commit acd496c; `pre = false`).  HISTORY: before that
     repair they were written `for (size_t i = sz; --i; )`: the index is decremented BEFORE the test, so the body ran for
     i = sz-1, ..., 1 only, and for sz = 0 the index wrapped to 2^64-1 and the first access was out of bounds; `pre = true`
     models that loop (theorem C05_array_forms_pre_decrement_loop_refuted); the check reads the style of every function
     from the source.  An out-of-bounds access (undefined behaviour) makes the model return None. *)
  Definition size_max : Z := 18446744073709551615.

  Definition upd (l : list Z) (i : Z) (v : Z) : list Z :=
    firstn (Z.to_nat i) l ++ v :: skipn (S (Z.to_nat i)) l.
  Definition rd (l : list Z) (i : Z) : option Z :=
    if (0 <=? i) && (i <? Z.of_nat (length l)) then nth_error l (Z.to_nat i) else None.

  (* body i r = new r, or None when an access is out of bounds *)
  Fixpoint loop_pre (fuel : nat) (i : Z) (body : Z -> list Z -> option (list Z)) (r : list Z) : option (list Z) :=
    match fuel with
    | O => None
    | S f =>
      let i := if i =? 0 then size_max else i - 1 in      (* --i on a size_t *)
      if i =? 0 then Some r
      else match body i r with
           | None => None
           | Some r' => loop_pre f i body r'
           end
    end.
  Fixpoint loop_post (fuel : nat) (i : Z) (body : Z -> list Z -> option (list Z)) (r : list Z) : option (list Z) :=
    match fuel with
    | O => None
    | S f =>
      if i =? 0 then Some r                                (* i-- : test the old value, then decrement *)
      else let i := i - 1 in
           match body i r with
           | None => None
           | Some r' => loop_post f i body r'
           end
    end.
  Definition loop (pre : bool) (sz : Z) body r :=
    (if pre then loop_pre else loop_post) (S (length r)) sz body r.

  Definition body1 (op : Z -> Z) (a : list Z) (i : Z) (r : list Z) : option (list Z) :=
    match rd a i, rd r i with
    | Some x, Some _ => Some (upd r i (op x))
    | _, _ => None
    end.
  Definition body2 (op : Z -> Z -> Z) (a b : list Z) (i : Z) (r : list Z) : option (list Z) :=
    match rd a i, rd b i, rd r i with
    | Some x, Some y, Some _ => Some (upd r i (op x y))
    | _, _, _ => None
    end.
  (* the destination is read as well (axpyin, maxpyin) *)
  Definition body2r (op : Z -> Z -> Z) (a : list Z) (i : Z) (r : list Z) : option (list Z) :=
    match rd a i, rd r i with
    | Some x, Some y => Some (upd r i (op y x))
    | _, _ => None
    end.

  Definition arr_mul pre sz r a b := loop pre sz (body2 gfq_mul a b) r.
  Definition arr_mul_s pre sz r a (b : Z) := loop pre sz (body1 (fun x => gfq_mul x b) a) r.
  Definition arr_div pre sz r a b := loop pre sz (body2 gfq_div a b) r.
  Definition arr_div_s pre sz r a (b : Z) := loop pre sz (body1 (fun x => gfq_div x b) a) r.
  Definition arr_add pre sz r a b := loop pre sz (body2 gfq_add a b) r.
  Definition arr_add_s pre sz r a (b : Z) := loop pre sz (body1 (fun x => gfq_add x b) a) r.
  Definition arr_sub pre sz r a b := loop pre sz (body2 gfq_sub a b) r.
  Definition arr_sub_s pre sz r a (b : Z) := loop pre sz (body1 (fun x => gfq_sub x b) a) r.
  Definition arr_neg pre sz r a := loop pre sz (body1 gfq_neg a) r.
  Definition arr_inv pre sz r a := loop pre sz (body1 gfq_inv a) r.
  Definition arr_axpy pre sz r (a : Z) x y := loop pre sz (body2 (fun xi yi => gfq_muladd a xi yi) x y) r.
  Definition arr_axpy_s pre sz r (a : Z) x (y : Z) := loop pre sz (body1 (fun xi => gfq_muladd a xi y) x) r.
  Definition arr_axpyin pre sz r (a : Z) x := loop pre sz (body2r (fun ri xi => gfq_muladd a xi ri) x) r.
  Definition arr_axmy pre sz r (a : Z) x y :=
    loop pre sz (body2 (fun xi yi => gfq_autosub (gfq_mul a xi) yi) x y) r.
  Definition arr_axmy_s pre sz r (a : Z) x (y : Z) :=
    loop pre sz (body1 (fun xi => gfq_autosub (gfq_mul a xi) y) x) r.
  Definition arr_maxpyin pre sz r (a : Z) x :=
    loop pre sz (body2r (fun ri xi => gfq_autosub ri (gfq_mul a xi)) x) r.

  (* ---------------------------------------------------------------- array forms with ARRAYS AS LOCATIONS (aliasing)
     The array arguments of a call may be the same array.  A store maps location ids to arrays; a call names its array
     arguments by location id (equal ids = same array).  One iteration of every loop body of gfq.inl:427-580 first reads its
     element operands and only then writes r[i]:
       operand read AFTER the macro's first write to its result   | how the body of /repo supplies it
       ADD(c,a,b): b          SUB(c,a,b): a        MULADD(c,a1,a2,b): b  | local copy `bi` / `ai` / `yi` (commit of fix-9), scalar by value
       AUTOSUB(c,b): b (c is read-modify-write)                         | `yi` (axmy), `tmp` (maxpyin), scalar by value
       MUL, DIV, NEG, INV: none (`res = a + b`, `res = a - b` read before they assign)
     so the element operands are VALUES when the macro runs (op x y old below).  HISTORY: before fix-9 add/sub/axpy/axmy passed
     b[i] / a[i] / y[i] as lvalues; with r == that array the macro re-read its own partial result (gfq_add_c_aliases_b below). *)
  Definition store := list (list Z).
  Definition sget (st : store) (l : nat) : list Z := nth l st [].
  Definition sset (st : store) (l : nat) (v : list Z) : store := firstn l st ++ v :: skipn (S l) st.
  Definition bodyL (op : Z -> Z -> Z -> Z) (lr la lb : nat) (i : Z) (st : store) : option store :=
    match rd (sget st la) i, rd (sget st lb) i, rd (sget st lr) i with
    | Some x, Some y, Some old => Some (sset st lr (upd (sget st lr) i (op x y old)))
    | _, _, _ => None
    end.
  Fixpoint loopL (fuel : nat) (i : Z) (body : Z -> store -> option store) (st : store) : option store :=
    match fuel with
    | O => None
    | S f =>
      if i =? 0 then Some st
      else let i := i - 1 in
           match body i st with
           | None => None
           | Some st' => loopL f i body st'
           end
    end.
  Definition arrL (op : Z -> Z -> Z -> Z) (lr la lb : nat) (sz : Z) (st : store) : option store :=
    loopL (S (length (sget st lr))) sz (bodyL op lr la lb) st.
  (* the element operation of each of the sixteen forms: x = a[i] / x[i], y = b[i] / y[i], old = r[i]; s, t scalars *)
  Definition arr_elem (name : Z) (s t : Z) : Z -> Z -> Z -> Z :=
    match name with
    | 0 => fun x y _ => gfq_mul x y | 1 => fun x _ _ => gfq_mul x s
    | 2 => fun x y _ => gfq_div x y | 3 => fun x _ _ => gfq_div x s
    | 4 => fun x y _ => gfq_add x y | 5 => fun x _ _ => gfq_add x s
    | 6 => fun x y _ => gfq_sub x y | 7 => fun x _ _ => gfq_sub x s
    | 8 => fun x _ _ => gfq_neg x | 9 => fun x _ _ => gfq_inv x
    | 10 => fun x y _ => gfq_muladd s x y | 11 => fun x _ _ => gfq_muladd s x t
    | 12 => fun x _ old => gfq_muladd s x old
    | 13 => fun x y _ => gfq_autosub (gfq_mul s x) y | 14 => fun x _ _ => gfq_autosub (gfq_mul s x) t
    | _ => fun x _ old => gfq_autosub old (gfq_mul s x)
    end.
  (* HISTORY (body before fix-9): _GIVARO_GFQ_ADD(c,a,b) with c and b the same lvalue - every read of b after the first write sees c *)
  Definition gfq_add_c_aliases_b (a b : Z) : Z :=
    if b =? 0 then a else if a =? 0 then b else
      let c := a - b in
      let c := wrapP c mun in
      let c := plun c in
      if c =? 0 then c else
        let c := c + c in
        wrapP c mun.

  (* dotprod, gfq.inl:867-881: index 0 first, then `for (int i = (int)sz; --i; )` (sz < 2^31: `(int)sz` is not modelled beyond) *)
  Definition dot_body (a b : list Z) (i : Z) (r : list Z) : option (list Z) :=
    match rd a i, rd b i, r with
    | Some x, Some y, [acc] => let tmp := gfq_mul x y in Some [gfq_add acc tmp]
    | _, _, _ => None
    end.
  Definition dotprod (sz : Z) (a b : list Z) : option Z :=
    if negb (sz =? 0) then
      match rd a 0, rd b 0 with
      | Some x, Some y =>
        match loop_pre (S (length a)) sz (dot_body a b) [gfq_mul x y] with
        | Some [r] => Some r
        | _ => None
        end
      | _, _ => None
      end
    else Some 0.
End Macros.

(* ---------------------------------------------------------------- the table builder, gfq.inl:929-1032
   Polynomials over Z/p are lists of k coefficients in [0,p), lowest degree first; the code stores them
   "p-adically" (coefficient i has weight p^i: Poly1PadicDom::eval / radix).  The polynomial product
   and remainder themselves (Poly1Dom::mulin / modin) are taken at specification level here. *)
Fixpoint digits (p : Z) (k : nat) (n : Z) : list Z :=
  match k with O => [] | S k' => (n mod p) :: digits p k' (n / p) end.
Fixpoint evalp (p : Z) (l : list Z) : Z :=
  match l with [] => 0 | c :: l' => c + p * evalp p l' end.

Fixpoint powmod_pos (b : Z) (e : positive) (m : Z) : Z :=
  match e with
  | xH => b mod m
  | xO e' => let t := powmod_pos b e' m in (t * t) mod m
  | xI e' => let t := powmod_pos b e' m in (((t * t) mod m) * b) mod m
  end.
Definition powmod (b e m : Z) : Z := match e with Zpos e' => powmod_pos b e' m | _ => 1 mod m end.
Definition invmod (a p : Z) : Z := powmod a (p - 2) p.       (* p prime *)

Fixpoint map2 (f : Z -> Z -> Z) (a b : list Z) : list Z :=
  match a, b with x :: a', y :: b' => f x y :: map2 f a' b' | _, _ => [] end.

(* red = X^k mod F as k coefficients:  -(lc F)^-1 * (F mod X^k) *)
Definition redk (p : Z) (k : nat) (f : Z) : list Z :=
  let fd := digits p (S k) f in
  let lc := last fd 1 in
  let il := invmod lc p in
  map (fun c => ((p - c) * il) mod p) (firstn k fd).
(* X * H mod F *)
Definition mulX (p : Z) (red : list Z) (H : list Z) : list Z :=
  let top := last H 0 in
  map2 (fun s r => (s + top * r) mod p) (0 :: removelast H) red.
(* H * G mod F  =  sum_i G_i * (X^i H mod F) *)
Fixpoint mulmod (p : Z) (red : list Z) (H G : list Z) : list Z :=
  match G with
  | [] => map (fun _ => 0) H
  | c :: G' => map2 (fun x y => (c * x + y) mod p) H (mulmod p red (mulX p red H) G')
  end.

Fixpoint iter_list {X : Type} (n : nat) (step : X -> X) (h : X) : list X :=
  match n with O => [] | S m => h :: iter_list m step (step h) end.

(* a small binary trie indexed by positive numbers: the random-access tables *)
Inductive tree := Leaf | Node (l : tree) (v : option Z) (r : tree).
Fixpoint tget (i : positive) (t : tree) : option Z :=
  match t with
  | Leaf => None
  | Node l v r => match i with xH => v | xO j => tget j l | xI j => tget j r end
  end.
Fixpoint tset (i : positive) (x : Z) (t : tree) : tree :=
  match i with
  | xH => match t with Leaf => Node Leaf (Some x) Leaf | Node l _ r => Node l (Some x) r end
  | xO j => match t with Leaf => Node (tset j x Leaf) None Leaf | Node l v r => Node (tset j x l) v r end
  | xI j => match t with Leaf => Node Leaf None (tset j x Leaf) | Node l v r => Node l v (tset j x r) end
  end.
Definition zget (t : tree) (i : Z) : Z :=
  match i with
  | Z0 => match tget xH t with Some v => v | None => 0 end
  | Zpos q => match tget (Pos.succ q) t with Some v => v | None => 0 end
  | Zneg _ => 0
  end.
Definition zset (t : tree) (i : Z) (x : Z) : tree :=
  match i with Z0 => tset xH x t | Zpos q => tset (Pos.succ q) x t | Zneg _ => t end.
Fixpoint tree_of_list (l : list Z) (i : Z) (t : tree) : tree :=
  match l with [] => t | x :: l' => tree_of_list l' (i + 1) (zset t i x) end.

Record tables := { t_p : Z; t_k : Z; t_q : Z; t_one : Z; t_mone : Z; t_irred : Z;
                   t_log2pol : list Z; t_l2ptree : tree; t_pol2log : tree; t_plus1 : tree }.

(* _log2pol, indices 0 .. q-1 *)
Definition build_log2pol (p k f g : Z) : list Z :=
  let q := p ^ k in
  let qm1 := q - 1 in
  if k <=? 1 then
    (* accu = 1; for i = 1 .. P-1: accu = accu*seed % P; log2pol[i] = accu *)
    0 :: iter_list (Z.to_nat (p - 1)) (fun accu => (accu * g) mod p) ((1 * g) mod p)
  else
    let kn := Z.to_nat k in
    let red := redk p kn f in
    let G := digits p kn g in
    (* log2pol[1] = G; for i = 2 .. qm1-1: H = H*G mod F; log2pol[qm1] = 1 *)
    0 :: map (evalp p) (iter_list (Z.to_nat (qm1 - 1)) (fun H => mulmod p red H G) G) ++ [1].

(* pol2log[log2pol[i]] = i for i = 0 .. q-1, in that order *)
Fixpoint build_pol2log (l : list Z) (i : Z) (t : tree) : tree :=
  match l with [] => t | v :: l' => build_pol2log l' (i + 1) (zset t v i) end.

(* plus1[i] for i = 1 .. q-1 *)
Definition plus1_entry (p qm1 : Z) (p2l : tree) (a : Z) : Z :=
  let r := a mod p in
  let b := if r =? p - 1 then a - r else a + 1 in
  zget p2l b - qm1.

Definition mk_tables (p k f g : Z) : tables :=
  let one := p ^ k - 1 in
  let mone := if p =? 2 then one else one / 2 in          (* one >> 1 *)
  let q := one + 1 in
  let qm1 := one in
  let l2p := build_log2pol p k f g in
  let p2l := build_pol2log l2p 0 Leaf in
  let pl1 := 0 :: map (plus1_entry p qm1 p2l) (tl l2p) in
  let pl1t := zset (tree_of_list pl1 0 Leaf) mone 0 in    (* _plus1[mOne] = 0 *)
  {| t_p := p; t_k := k; t_q := q; t_one := one; t_mone := mone; t_irred := f;
     t_log2pol := l2p; t_l2ptree := tree_of_list l2p 0 Leaf; t_pol2log := p2l; t_plus1 := pl1t |}.

Definition plun_of (T : tables) : Z -> Z := zget (t_plus1 T).
Fixpoint range_from (n : nat) (i : Z) : list Z :=
  match n with O => [] | S m => i :: range_from m (i + 1) end.
Definition range (n : Z) : list Z := range_from (Z.to_nat n) 0.
Definition dump_pol2log (T : tables) : list Z := map (zget (t_pol2log T)) (range (t_q T)).
Definition dump_plus1 (T : tables) : list Z := map (zget (t_plus1 T)) (range (t_q T)).

(* ---------------------------------------------------------------- Z-level entry points for the driver *)
Definition op1 (T : tables) (name : Z) (a : Z) : Z :=
  let mun := t_one T in let mo := t_mone T in
  match name with
  | 0 => f_neg mun mo a | 1 => f_negin mun mo a | 2 => f_inv mun a | 3 => f_invin mun a
  | _ => gfq_sq mun a
  end.
Definition op2 (T : tables) (name : Z) (a b : Z) : Z :=
  let mun := t_one T in let mo := t_mone T in let pl := plun_of T in
  match name with
  | 0 => f_add mun pl a b | 1 => f_addin mun pl a b | 2 => f_sub mun mo pl a b | 3 => f_subin mun mo pl a b
  | 4 => f_mul mun a b | 5 => f_mulin mun a b | 6 => f_div mun a b | 7 => f_divin mun a b
  | _ => gfq_sqadd mun pl a b
  end.
Definition op3 (T : tables) (name : Z) (a b c : Z) : Z :=
  let mun := t_one T in let mo := t_mone T in let pl := plun_of T in
  match name with
  | 0 => f_axpy mun pl a b c | 1 => f_axpyin mun pl a b c | 2 => f_maxpyin mun mo pl a b c
  | 3 => f_axmyin mun mo pl a b c | 4 => f_axmy mun mo pl a b c | 5 => f_maxpy mun mo pl a b c
  | _ => gfq_mulsub mun mo pl a b c
  end.
(* array forms: name, loop style, sz, r, a, b (scalar operands are one-element lists in a/b as documented in the driver) *)
Definition arr (T : tables) (name : Z) (pre : bool) (sz : Z) (r x y : list Z) (s : Z) : option (list Z) :=
  let mun := t_one T in let mo := t_mone T in let pl := plun_of T in
  match name with
  | 0 => arr_mul mun pre sz r x y | 1 => arr_mul_s mun pre sz r x s
  | 2 => arr_div mun pre sz r x y | 3 => arr_div_s mun pre sz r x s
  | 4 => arr_add mun pl pre sz r x y | 5 => arr_add_s mun pl pre sz r x s
  | 6 => arr_sub mun mo pl pre sz r x y | 7 => arr_sub_s mun mo pl pre sz r x s
  | 8 => arr_neg mun mo pre sz r x | 9 => arr_inv mun pre sz r x
  | 10 => arr_axpy mun pl pre sz r s x y | 11 => arr_axpy_s mun pl pre sz r s x (hd 0 y)
  | 12 => arr_axpyin mun pl pre sz r s x
  | 13 => arr_axmy mun mo pl pre sz r s x y | 14 => arr_axmy_s mun mo pl pre sz r s x (hd 0 y)
  | _ => arr_maxpyin mun mo pl pre sz r s x
  end.
(* array forms on a store: the array arguments are location ids (lr, la, lb); answer = the destination array afterwards *)
Definition arrl (T : tables) (name : Z) (sz : Z) (lr la lb : Z) (st : list (list Z)) (s t : Z) : option (list Z) :=
  match arrL (arr_elem (t_one T) (t_mone T) (plun_of T) name s t) (Z.to_nat lr) (Z.to_nat la) (Z.to_nat lb) sz st with
  | Some st' => Some (sget st' (Z.to_nat lr))
  | None => None
  end.
Definition dot (T : tables) (sz : Z) (a b : list Z) : option Z :=
  dotprod (t_one T) (plun_of T) sz a b.
