(* Verified boolean primality test by trial division: a copy of coq/C12/PrimeB.v (kept here so that coq/C05 does not depend on the generated files of coq/C12). *)
From Coq Require Import ZArith Znumtheory Lia List Bool.
Import ListNotations.
Local Open Scope Z_scope.

(* checks the candidates d, d+1, ..., d+fuel-1; exits at the first divisor (no lazy andb under vm_compute) *)
Fixpoint nodiv (fuel : nat) (d n : Z) : bool :=
  match fuel with
  | O => true
  | S f => if n mod d =? 0 then false else nodiv f (d + 1) n
  end.

Definition primeb (n : Z) : bool :=
  if n <? 2 then false else nodiv (Z.to_nat (Z.sqrt n - 1)) 2 n.

Lemma nodiv_true : forall fuel d n, 0 < d ->
  nodiv fuel d n = true -> forall k, d <= k < d + Z.of_nat fuel -> ~ (k | n).
Proof.
  induction fuel as [|f IH]; intros d n Hd H k Hk.
  - lia.
  - cbn [nodiv] in H. destruct (Z.eqb_spec (n mod d) 0) as [E|E]; [discriminate|].
    destruct (Z.eq_dec k d) as [->|Hne].
    + intro Hdiv. apply E. apply Z.mod_divide; [lia|exact Hdiv].
    + apply (IH (d + 1) n); [lia|exact H|lia].
Qed.

Lemma nodiv_false : forall fuel d n, 0 < d ->
  nodiv fuel d n = false -> exists k, d <= k < d + Z.of_nat fuel /\ (k | n).
Proof.
  induction fuel as [|f IH]; intros d n Hd H.
  - discriminate.
  - cbn [nodiv] in H. destruct (Z.eqb_spec (n mod d) 0) as [E|E].
    + exists d. split; [lia|]. apply Z.mod_divide; [lia|exact E].
    + destruct (IH (d + 1) n ltac:(lia) H) as [k [Hk Hdiv]]. exists k. split; [lia|exact Hdiv].
Qed.

Lemma small_divisor : forall n d, 1 < d < n -> (d | n) -> exists k, 2 <= k <= Z.sqrt n /\ (k | n).
Proof.
  intros n d Hd [q Hq].
  assert (Hq1 : 1 < q) by nia.
  destruct (Z_le_gt_dec d q) as [Hle|Hgt].
  - exists d. split; [|exists q; exact Hq]. split; [lia|].
    apply Z.sqrt_le_square; nia.
  - exists q. split; [|exists d; lia]. split; [lia|].
    apply Z.sqrt_le_square; nia.
Qed.

Theorem primeb_spec : forall n, primeb n = true <-> prime n.
Proof.
  intros n. unfold primeb. destruct (Z.ltb_spec n 2) as [Hlt|Hge].
  - split; [discriminate|]. intros [H1 _]. lia.
  - assert (Hs : 1 <= Z.sqrt n).
    { change 1 with (Z.sqrt 1). apply Z.sqrt_le_mono. lia. }
    split.
    + intro H. apply prime_alt. split; [lia|]. intros d Hd Hdiv.
      destruct (small_divisor n d Hd Hdiv) as [k [Hk Hkd]].
      apply (nodiv_true _ 2 n ltac:(lia) H k); [|exact Hkd].
      rewrite Z2Nat.id; lia.
    + intro Hp. destruct (nodiv (Z.to_nat (Z.sqrt n - 1)) 2 n) eqn:E; [reflexivity|].
      exfalso. destruct (nodiv_false _ 2 n ltac:(lia) E) as [k [Hk Hkd]].
      rewrite Z2Nat.id in Hk by lia.
      apply prime_alt in Hp. destruct Hp as [_ Hp]. apply (Hp k); [|exact Hkd].
      assert (Z.sqrt n < n) by (apply Z.sqrt_lt_lin; lia). lia.
Qed.

Corollary primeb_false : forall n, primeb n = false <-> ~ prime n.
Proof.
  intros n. rewrite <- primeb_spec. destruct (primeb n); split; intro H; try discriminate; try reflexivity; try tauto.
Qed.

(* [lo, lo+len) as a list *)
Fixpoint Zseq (lo : Z) (len : nat) : list Z :=
  match len with O => [] | S k => lo :: Zseq (lo + 1) k end.

Lemma In_Zseq : forall len lo x, In x (Zseq lo len) <-> lo <= x < lo + Z.of_nat len.
Proof.
  induction len as [|k IH]; intros lo x; cbn [Zseq In].
  - lia.
  - rewrite IH. lia.
Qed.

(* facts used by several proof files *)
Lemma even_not_prime : forall m, 2 < m -> Z.even m = true -> ~ prime m.
Proof.
  intros m Hm He Hp. apply prime_alt in Hp. destruct Hp as [_ Hp].
  apply (Hp 2); [lia|]. apply Z.even_spec in He. destruct He as [k Hk]. exists k. lia.
Qed.

Lemma prime_ge_2 : forall p, prime p -> 2 <= p.
Proof. intros p [H _]. lia. Qed.
