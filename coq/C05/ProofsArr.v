(* C05 - the element-wise array forms and dotprod of GFqDom (gfq.inl:427-576, 885-899).
   With the post-decrement loop `for (size_t i = sz; i--; )` (the code after commit acd496c, and assign() before it)
   every array form writes exactly the indices 0 .. sz-1, each with the scalar macro applied to the operands of that
   index, for EVERY length sz (0 and 1 included) and leaves the rest of the destination alone.
   With the pre-decrement loop `for (size_t i = sz; --i; )` (the code before the repair) this is false: refuted below. *)
From Coq Require Import ZArith Lia List Bool.
From C05 Require Import Model.
Import ListNotations.
Local Open Scope Z_scope.

Lemma upd_nat_nth : forall (l : list Z) n v j d, (n < length l)%nat ->
  nth j (firstn n l ++ v :: skipn (S n) l) d = if Nat.eqb j n then v else nth j l d.
Proof.
  induction l as [|x l IH]; intros n v j d Hn; cbn [length] in Hn; [lia|].
  destruct n as [|n].
  - cbn [firstn skipn app]. destruct j; reflexivity.
  - cbn [firstn skipn app]. destruct j as [|j]; [reflexivity|].
    cbn [nth Nat.eqb]. apply IH. lia.
Qed.

Lemma upd_nat_length : forall (l : list Z) n v, (n < length l)%nat -> length (firstn n l ++ v :: skipn (S n) l) = length l.
Proof.
  induction l as [|x l IH]; intros n v Hn; cbn [length] in Hn; [lia|].
  destruct n as [|n]; cbn [firstn skipn app length]; [reflexivity|]. f_equal. apply IH. lia.
Qed.

Lemma upd_nth l i v j d : 0 <= i < Z.of_nat (length l) ->
  nth j (upd l i v) d = if Nat.eqb j (Z.to_nat i) then v else nth j l d.
Proof. intros. unfold upd. apply upd_nat_nth. lia. Qed.

Lemma upd_length l i v : 0 <= i < Z.of_nat (length l) -> length (upd l i v) = length l.
Proof. intros. unfold upd. apply upd_nat_length. lia. Qed.

Lemma rd_in l i : 0 <= i < Z.of_nat (length l) -> rd l i = Some (nth (Z.to_nat i) l 0).
Proof.
  intros H. unfold rd.
  destruct (Z.leb_spec 0 i); [|lia]. destruct (Z.ltb_spec i (Z.of_nat (length l))); [|lia].
  cbn [andb]. apply nth_error_nth'. lia.
Qed.

(* what an array call must produce: indices below sz get F index old-value, the others are untouched *)
Definition arr_ok (sz : Z) (r : list Z) (F : Z -> Z -> Z) (res : option (list Z)) : Prop :=
  exists r', res = Some r' /\ length r' = length r /\
    forall j, (j < length r)%nat ->
      nth j r' 0 = if Z.of_nat j <? sz then F (Z.of_nat j) (nth j r 0) else nth j r 0.

Section Loop.
  Variable L : nat.
  Variable body : Z -> list Z -> option (list Z).
  Variable F : Z -> Z -> Z.
  Variable sz : Z.
  Hypothesis body_ok : forall j r, 0 <= j < sz -> length r = L ->
    body j r = Some (upd r j (F j (nth (Z.to_nat j) r 0))).
  Hypothesis sz_le : sz <= Z.of_nat L.

  Lemma loop_post_spec : forall fuel i r, 0 <= i <= sz -> (Z.to_nat i < fuel)%nat -> length r = L ->
    exists r', loop_post fuel i body r = Some r' /\ length r' = L /\
      forall j, (j < L)%nat -> nth j r' 0 = if Z.of_nat j <? i then F (Z.of_nat j) (nth j r 0) else nth j r 0.
  Proof.
    induction fuel as [|fuel IH]; intros i r Hi Hf Hl; [lia|].
    cbn [loop_post]. destruct (Z.eqb_spec i 0) as [->|Hne].
    - exists r. split; [reflexivity|]. split; [assumption|]. intros j Hj.
      destruct (Z.ltb_spec (Z.of_nat j) 0); [lia|reflexivity].
    - rewrite (body_ok (i - 1) r) by lia.
      set (v := F (i - 1) (nth (Z.to_nat (i - 1)) r 0)).
      assert (Hu : length (upd r (i - 1) v) = L) by (rewrite upd_length; lia).
      destruct (IH (i - 1) (upd r (i - 1) v)) as [r' [E [Hl' Hn]]]; [lia|lia|exact Hu|].
      exists r'. split; [exact E|]. split; [exact Hl'|]. intros j Hj.
      rewrite (Hn j Hj). rewrite upd_nth by lia.
      destruct (Nat.eqb_spec j (Z.to_nat (i - 1))) as [Ej|Ej].
      + destruct (Z.ltb_spec (Z.of_nat j) (i - 1)); [lia|].
        destruct (Z.ltb_spec (Z.of_nat j) i); [|lia].
        subst v. replace (Z.of_nat j) with (i - 1) by lia. rewrite <- Ej. reflexivity.
      + destruct (Z.ltb_spec (Z.of_nat j) (i - 1)); destruct (Z.ltb_spec (Z.of_nat j) i); try lia; reflexivity.
  Qed.
End Loop.

Lemma loop_false_ok body F sz r :
  0 <= sz <= Z.of_nat (length r) ->
  (forall j r0, 0 <= j < sz -> length r0 = length r ->
     body j r0 = Some (upd r0 j (F j (nth (Z.to_nat j) r0 0)))) ->
  arr_ok sz r F (loop false sz body r).
Proof.
  intros Hsz Hb. unfold loop, arr_ok.
  destruct (loop_post_spec (length r) body F sz Hb ltac:(lia) (S (length r)) sz r) as [r' [E [Hl Hn]]]; try lia.
  exists r'. repeat split; assumption.
Qed.

Lemma body2_ok op a b sz L : sz <= Z.of_nat (length a) -> sz <= Z.of_nat (length b) -> sz <= Z.of_nat L ->
  forall j r0, 0 <= j < sz -> length r0 = L ->
    body2 op a b j r0 = Some (upd r0 j ((fun i _ => op (nth (Z.to_nat i) a 0) (nth (Z.to_nat i) b 0)) j (nth (Z.to_nat j) r0 0))).
Proof. intros Ha Hb HL j r0 Hj Hl. unfold body2. rewrite !rd_in by lia. reflexivity. Qed.

Lemma body1_ok op a sz L : sz <= Z.of_nat (length a) -> sz <= Z.of_nat L ->
  forall j r0, 0 <= j < sz -> length r0 = L ->
    body1 op a j r0 = Some (upd r0 j ((fun i _ => op (nth (Z.to_nat i) a 0)) j (nth (Z.to_nat j) r0 0))).
Proof. intros Ha HL j r0 Hj Hl. unfold body1. rewrite !rd_in by lia. reflexivity. Qed.

Lemma body2r_ok op a sz L : sz <= Z.of_nat (length a) -> sz <= Z.of_nat L ->
  forall j r0, 0 <= j < sz -> length r0 = L ->
    body2r op a j r0 = Some (upd r0 j ((fun i old => op old (nth (Z.to_nat i) a 0)) j (nth (Z.to_nat j) r0 0))).
Proof. intros Ha HL j r0 Hj Hl. unfold body2r. rewrite !rd_in by lia. reflexivity. Qed.

(* ------------------------------------------------------------ the sixteen array forms *)
Section Forms.
  Variables (mun mo : Z) (plun : Z -> Z).
  Notation at_ l i := (nth (Z.to_nat i) l 0).

  Definition array_forms_spec : Prop :=
    forall (sz : Z) (r x y : list Z) (s t : Z),
      0 <= sz -> sz <= Z.of_nat (length r) -> sz <= Z.of_nat (length x) -> sz <= Z.of_nat (length y) ->
      arr_ok sz r (fun i _ => gfq_mul mun (at_ x i) (at_ y i)) (arr_mul mun false sz r x y) /\
      arr_ok sz r (fun i _ => gfq_mul mun (at_ x i) s) (arr_mul_s mun false sz r x s) /\
      arr_ok sz r (fun i _ => gfq_div mun (at_ x i) (at_ y i)) (arr_div mun false sz r x y) /\
      arr_ok sz r (fun i _ => gfq_div mun (at_ x i) s) (arr_div_s mun false sz r x s) /\
      arr_ok sz r (fun i _ => gfq_add mun plun (at_ x i) (at_ y i)) (arr_add mun plun false sz r x y) /\
      arr_ok sz r (fun i _ => gfq_add mun plun (at_ x i) s) (arr_add_s mun plun false sz r x s) /\
      arr_ok sz r (fun i _ => gfq_sub mun mo plun (at_ x i) (at_ y i)) (arr_sub mun mo plun false sz r x y) /\
      arr_ok sz r (fun i _ => gfq_sub mun mo plun (at_ x i) s) (arr_sub_s mun mo plun false sz r x s) /\
      arr_ok sz r (fun i _ => gfq_neg mun mo (at_ x i)) (arr_neg mun mo false sz r x) /\
      arr_ok sz r (fun i _ => gfq_inv mun (at_ x i)) (arr_inv mun false sz r x) /\
      arr_ok sz r (fun i _ => gfq_muladd mun plun s (at_ x i) (at_ y i)) (arr_axpy mun plun false sz r s x y) /\
      arr_ok sz r (fun i _ => gfq_muladd mun plun s (at_ x i) t) (arr_axpy_s mun plun false sz r s x t) /\
      arr_ok sz r (fun i old => gfq_muladd mun plun s (at_ x i) old) (arr_axpyin mun plun false sz r s x) /\
      arr_ok sz r (fun i _ => gfq_autosub mun mo plun (gfq_mul mun s (at_ x i)) (at_ y i)) (arr_axmy mun mo plun false sz r s x y) /\
      arr_ok sz r (fun i _ => gfq_autosub mun mo plun (gfq_mul mun s (at_ x i)) t) (arr_axmy_s mun mo plun false sz r s x t) /\
      arr_ok sz r (fun i old => gfq_autosub mun mo plun old (gfq_mul mun s (at_ x i))) (arr_maxpyin mun mo plun false sz r s x).

  Lemma array_forms_ok : array_forms_spec.
  Proof.
    intros sz r x y s t H0 Hr Hx Hy.
    unfold arr_mul, arr_mul_s, arr_div, arr_div_s, arr_add, arr_add_s, arr_sub, arr_sub_s, arr_neg, arr_inv,
      arr_axpy, arr_axpy_s, arr_axpyin, arr_axmy, arr_axmy_s, arr_maxpyin.
    repeat match goal with |- _ /\ _ => split end.
    all: apply loop_false_ok; [lia|].
    all: intros j r0 Hj Hl; unfold body2, body1, body2r; rewrite !rd_in by lia; reflexivity.
  Qed.
End Forms.

(* ------------------------------------------------------------ the loop before the repair *)
(* `for (size_t i = sz; --i; )` : with sz = 1 nothing is written; with sz = 0 the index wraps and the first access
   is out of bounds (None).  GF(3): mun = 2, elements 0,1,2;  1*1 = 2 in Zech form (g^1*g^1 = g^2 = 1). *)
Definition pre_decrement_loop_is_wrong : Prop :=
  (exists mun r x y, arr_mul mun true 1 r x y = Some r /\ nth 0 r 0 <> gfq_mul mun (nth 0 x 0) (nth 0 y 0)) /\
  (forall mun r x y, length r = 0%nat -> arr_mul mun true 0 r x y = None).

Lemma pre_decrement_loop_refuted : pre_decrement_loop_is_wrong.
Proof.
  split.
  - exists 2, [0], [1], [1]. split; [reflexivity|]. cbv. discriminate.
  - intros mun r x y Hl. destruct r; [|discriminate].
    unfold arr_mul, loop. cbn [length loop_pre].
    change (0 =? 0) with true. cbv iota. change (size_max =? 0) with false. cbv iota.
    unfold body2. destruct (rd x size_max); [destruct (rd y size_max)|]; reflexivity.
Qed.

(* ------------------------------------------------------------ dotprod *)
(* index 0 first, then i = sz-1 .. 1 : `for (int i = (int)sz; --i; )` *)
Section Dot.
  Variables (mun : Z) (plun : Z -> Z).
  Variables a b : list Z.
  Fixpoint dloop (n : nat) (acc : Z) : Z :=
    match n with
    | O => acc
    | S m => dloop m (gfq_add mun plun acc (gfq_mul mun (nth (S m) a 0) (nth (S m) b 0)))
    end.

  Lemma loop_pre_dot : forall n fuel acc,
    (n < fuel)%nat -> (n < length a)%nat -> (n < length b)%nat ->
    loop_pre fuel (Z.of_nat (S n)) (dot_body mun plun a b) [acc] = Some [dloop n acc].
  Proof.
    induction n as [|n IH]; intros fuel acc Hf Ha Hb; (destruct fuel as [|fuel]; [lia|]).
    - cbn [loop_pre]. reflexivity.
    - cbn [loop_pre dloop].
      destruct (Z.eqb_spec (Z.of_nat (S (S n))) 0); [lia|].
      replace (Z.of_nat (S (S n)) - 1) with (Z.of_nat (S n)) by lia.
      destruct (Z.eqb_spec (Z.of_nat (S n)) 0); [lia|].
      unfold dot_body at 1. rewrite !rd_in by lia. rewrite Nat2Z.id.
      apply IH; lia.
  Qed.

  Definition dotprod_spec : Prop :=
    forall sz, 0 <= sz -> sz <= Z.of_nat (length a) -> sz <= Z.of_nat (length b) ->
      dotprod mun plun sz a b =
        Some (if sz =? 0 then 0 else dloop (Z.to_nat (sz - 1)) (gfq_mul mun (nth 0 a 0) (nth 0 b 0))).

  Lemma dotprod_ok : dotprod_spec.
  Proof.
    intros sz H0 Ha Hb. unfold dotprod. destruct (Z.eqb_spec sz 0); [reflexivity|]. cbn [negb].
    rewrite !rd_in by lia. cbn [Z.to_nat].
    replace sz with (Z.of_nat (S (Z.to_nat (sz - 1)))) at 1 by lia.
    rewrite loop_pre_dot by lia. reflexivity.
  Qed.
End Dot.

(* ------------------------------------------------------------ arrays as locations: any aliasing of the array arguments *)
Lemma sset_length (st : store) l v : (l < length st)%nat -> length (sset st l v) = length st.
Proof.
  unfold sset. revert l. induction st as [|a st IH]; intros l Hl; cbn [length] in Hl; [lia|].
  destruct l as [|l]; cbn [firstn skipn app length]; [reflexivity|]. f_equal. apply IH. lia.
Qed.
Lemma sget_sset_same (st : store) l v : (l < length st)%nat -> sget (sset st l v) l = v.
Proof.
  unfold sget, sset. revert l. induction st as [|a st IH]; intros l Hl; cbn [length] in Hl; [lia|].
  destruct l as [|l]; cbn [firstn skipn app nth]; [reflexivity|]. apply IH. lia.
Qed.
Lemma sget_sset_other (st : store) l l' v : (l < length st)%nat -> l' <> l -> sget (sset st l v) l' = sget st l'.
Proof.
  unfold sget, sset. revert l l'. induction st as [|a st IH]; intros l l' Hl Hne; cbn [length] in Hl; [lia|].
  destruct l as [|l]; destruct l' as [|l']; cbn [firstn skipn app nth]; try reflexivity; try lia.
  apply IH; lia.
Qed.

Section LoopL.
  Variable st0 : store.
  Variables lr la lb : nat.
  Variable op : Z -> Z -> Z -> Z.
  Variable sz : Z.
  Let L := length (sget st0 lr).
  Let F (j : nat) : Z := op (nth j (sget st0 la) 0) (nth j (sget st0 lb) 0) (nth j (sget st0 lr) 0).
  Hypothesis lr_in : (lr < length st0)%nat.
  Hypothesis sz_r : 0 <= sz <= Z.of_nat L.
  Hypothesis sz_a : sz <= Z.of_nat (length (sget st0 la)).
  Hypothesis sz_b : sz <= Z.of_nat (length (sget st0 lb)).

  (* indices i .. sz-1 of the destination are done, everything else is as in the initial store *)
  Definition InvL (i : Z) (cur : store) : Prop :=
    length cur = length st0 /\ (forall l, l <> lr -> sget cur l = sget st0 l) /\ length (sget cur lr) = L /\
    forall j, (j < L)%nat ->
      nth j (sget cur lr) 0 = if (i <=? Z.of_nat j) && (Z.of_nat j <? sz) then F j else nth j (sget st0 lr) 0.

  Lemma InvL_read i cur l : InvL i cur -> forall j, 0 <= j < i -> j < Z.of_nat (length (sget st0 l)) ->
    rd (sget cur l) j = Some (nth (Z.to_nat j) (sget st0 l) 0).
  Proof.
    intros [Hlen [Hoth [HL Hn]]] j Hj Hjl.
    destruct (Nat.eq_dec l lr) as [->|Hne].
    - rewrite rd_in by (rewrite HL; fold L in Hjl; lia). f_equal.
      rewrite Hn by (fold L in Hjl; lia).
      destruct (Z.leb_spec i (Z.of_nat (Z.to_nat j))); [lia|]. reflexivity.
    - rewrite (Hoth l Hne). apply rd_in. lia.
  Qed.

  Lemma loopL_spec : forall fuel i cur, 0 <= i <= sz -> (Z.to_nat i < fuel)%nat -> InvL i cur ->
    exists st', loopL fuel i (bodyL op lr la lb) cur = Some st' /\ InvL 0 st'.
  Proof.
    induction fuel as [|fuel IH]; intros i cur Hi Hf HI; [lia|].
    cbn [loopL]. destruct (Z.eqb_spec i 0) as [->|Hne]; [exists cur; split; [reflexivity|exact HI]|].
    unfold bodyL.
    rewrite (InvL_read i cur la HI (i - 1)) by lia.
    rewrite (InvL_read i cur lb HI (i - 1)) by lia.
    rewrite (InvL_read i cur lr HI (i - 1)) by (fold L; lia).
    destruct HI as [Hlen [Hoth [HL Hn]]].
    set (v := op _ _ _).
    apply IH; [lia|lia|].
    assert (Hlr : (lr < length cur)%nat) by lia.
    split; [rewrite sset_length by exact Hlr; exact Hlen|].
    split; [intros l Hl; rewrite sget_sset_other by assumption; apply Hoth; exact Hl|].
    rewrite sget_sset_same by exact Hlr.
    split; [rewrite upd_length by lia; exact HL|].
    intros j Hj. rewrite upd_nth by lia. rewrite (Hn j Hj).
    destruct (Nat.eqb_spec j (Z.to_nat (i - 1))) as [Ej|Ej].
    - destruct (Z.leb_spec (i - 1) (Z.of_nat j)); [|lia]. destruct (Z.ltb_spec (Z.of_nat j) sz); [|lia].
      cbn [andb]. subst v. unfold F. rewrite Ej. reflexivity.
    - destruct (Z.leb_spec (i - 1) (Z.of_nat j)); destruct (Z.leb_spec i (Z.of_nat j)); try lia; reflexivity.
  Qed.

  Lemma arrL_spec : exists st', arrL op lr la lb sz st0 = Some st' /\ InvL 0 st'.
  Proof.
    unfold arrL. apply loopL_spec; [lia|fold L; lia|].
    split; [reflexivity|]. split; [reflexivity|]. split; [reflexivity|].
    intros j Hj. destruct (Z.leb_spec sz (Z.of_nat j)); destruct (Z.ltb_spec (Z.of_nat j) sz); try lia; reflexivity.
  Qed.
End LoopL.

(* every one of the sixteen forms (code 0..15), ANY assignment of its array arguments to locations (all aliasing patterns): the call
   returns; the destination holds, at every index below sz, the element macro applied to the operands AS THEY WERE BEFORE THE CALL
   (so the result is the one of the call with three distinct arrays of the same contents), the rest of the destination and every
   other array are unchanged *)
Definition array_forms_aliasing_spec (mun mo : Z) (plun : Z -> Z) : Prop :=
  forall (name s t : Z) (st : store) (lr la lb : nat) (sz : Z),
    (lr < length st)%nat -> 0 <= sz <= Z.of_nat (length (sget st lr)) ->
    sz <= Z.of_nat (length (sget st la)) -> sz <= Z.of_nat (length (sget st lb)) ->
    exists st', arrL (arr_elem mun mo plun name s t) lr la lb sz st = Some st' /\
      length st' = length st /\ (forall l, l <> lr -> sget st' l = sget st l) /\
      length (sget st' lr) = length (sget st lr) /\
      forall j, (j < length (sget st lr))%nat ->
        nth j (sget st' lr) 0 =
          if Z.of_nat j <? sz
          then arr_elem mun mo plun name s t (nth j (sget st la) 0) (nth j (sget st lb) 0) (nth j (sget st lr) 0)
          else nth j (sget st lr) 0.
Lemma array_forms_aliasing_ok mun mo plun : array_forms_aliasing_spec mun mo plun.
Proof.
  intros name s t st lr la lb sz Hlr Hsz Ha Hb.
  destruct (arrL_spec st lr la lb (arr_elem mun mo plun name s t) sz Hlr Hsz Ha Hb) as [st' [E [H1 [H2 [H3 H4]]]]].
  exists st'. split; [exact E|]. split; [exact H1|]. split; [exact H2|]. split; [exact H3|].
  intros j Hj. rewrite (H4 j Hj). destruct (Z.leb_spec 0 (Z.of_nat j)); [|lia]. reflexivity.
Qed.
(* the location model agrees with the list model of the same form on distinct arrays (code 4 = add as the instance) *)
Example arrL_add_distinct : forall mun mo plun r x y, length x = length r -> length y = length r ->
  option_map (fun st' => sget st' 0) (arrL (arr_elem mun mo plun 4 0 0) 0 1 2 (Z.of_nat (length r)) [r; x; y]) <> None.
Proof.
  intros mun mo plun r x y Hx Hy.
  destruct (array_forms_aliasing_ok mun mo plun 4 0 0 [r; x; y] 0%nat 1%nat 2%nat (Z.of_nat (length r))) as [st' [E _]];
    cbn [length sget nth]; try lia. rewrite E. discriminate.
Qed.

(* HISTORY: the body before fix-9 passed b[i] as an lvalue; with r == b the ADD macro re-reads its own partial result.
   GF(5), generator 2 (tables of mk_tables 5 1 5 2): 1 + 1 (reps) must be the rep 2 (2 + 2 = 4 = 2^2), the aliased text gives -2 *)
Definition array_add_aliased_b_refuted : Prop :=
  let T := mk_tables 5 1 5 2 in
  gfq_add (t_one T) (plun_of T) 1 1 = 2 /\ gfq_add_c_aliases_b (t_one T) (plun_of T) 1 1 = -2.
Lemma array_add_aliased_b_is_wrong : array_add_aliased_b_refuted.
Proof. vm_compute. split; reflexivity. Qed.
