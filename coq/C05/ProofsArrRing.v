(* C05 - ring-level meaning of dotprod and of the element-wise array forms: composition of the loop theorems (ProofsArr) with the
   macro theorems (ProofsZech).  In any commutative ring, any g with g^N = 1 and any plus1 table satisfying the Zech invariant:
   val(dotprod(sz,a,b)) = sum_{i<sz} val(a_i) * val(b_i), and every array form (any aliasing of its array arguments) stores at
   index j < sz a representation in [0,N] whose value is the ring operation on the values of the operands at index j. *)
From Coq Require Import ZArith Lia List Bool Ring Ring_theory.
From C05 Require Import Model ProofsZech ProofsArr.
Import ListNotations.
Local Open Scope Z_scope.

Section ArrRing.
  Variable R : Type.
  Variables (rO rI : R) (radd rmul rsub : R -> R -> R) (ropp : R -> R).
  Variable Rth : ring_theory rO rI radd rmul rsub ropp (@eq R).
  Add Ring RringAR : Rth.
  Variable g : R.
  Variable N : Z.
  Hypothesis N_pos : 1 <= N.
  Hypothesis gN : pw R rI rmul g N = rI.
  Variables (mo : Z) (plun : Z -> Z).
  Hypothesis mo_rng : 1 <= mo <= N.
  Hypothesis g_mo : pw R rI rmul g mo = ropp rI.
  Hypothesis TI_mo : plun mo = 0.
  Hypothesis TI : forall i, 1 <= i <= N -> i <> mo ->
    1 - N <= plun i <= -1 /\ pw R rI rmul g (plun i + N) = radd rI (pw R rI rmul g i).
  Notation val := (val R rO rI rmul g).
  Notation In0N a := (0 <= a <= N).
  Let MULok := mul_ok R rO rI radd rmul rsub ropp Rth g N N_pos gN.
  Let ADDok := add_ok R rO rI radd rmul rsub ropp Rth g N N_pos gN mo plun mo_rng g_mo TI_mo TI.

  Definition reps (l : list Z) : Prop := forall i, In0N (nth i l 0).

  (* sum_{i = 1 .. n} val a_i * val b_i *)
  Fixpoint dsum (a b : list Z) (n : nat) : R :=
    match n with O => rO | S m => radd (dsum a b m) (rmul (val (nth (S m) a 0)) (val (nth (S m) b 0))) end.

  Lemma dloop_ring a b : reps a -> reps b -> forall n acc, In0N acc ->
    In0N (dloop N plun a b n acc) /\ val (dloop N plun a b n acc) = radd (val acc) (dsum a b n).
  Proof.
    intros Ha Hb. induction n as [|n IH]; intros acc Hacc; cbn [dloop dsum].
    - split; [exact Hacc|ring].
    - destruct (MULok _ _ (Ha (S n)) (Hb (S n))) as [M1 M2].
      destruct (ADDok _ _ Hacc M1) as [A1 A2].
      destruct (IH _ A1) as [I1 I2]. split; [exact I1|]. rewrite I2, A2, M2. ring.
  Qed.

  Definition dotprod_ring_stmt : Prop :=
    forall a b sz, reps a -> reps b -> 0 <= sz -> sz <= Z.of_nat (length a) -> sz <= Z.of_nat (length b) ->
      exists r, dotprod N plun sz a b = Some r /\ In0N r /\
        val r = if sz =? 0 then rO
                else radd (rmul (val (nth 0 a 0)) (val (nth 0 b 0))) (dsum a b (Z.to_nat (sz - 1))).
  Lemma dotprod_ring : dotprod_ring_stmt.
  Proof.
    intros a b sz Ha Hb H0 Hla Hlb. rewrite (dotprod_ok N plun a b sz H0 Hla Hlb).
    destruct (Z.eqb_spec sz 0) as [->|Hne].
    - exists 0. split; [reflexivity|]. split; [lia|]. unfold ProofsZech.val. reflexivity.
    - destruct (MULok _ _ (Ha O) (Hb O)) as [M1 M2].
      destruct (dloop_ring a b Ha Hb (Z.to_nat (sz - 1)) _ M1) as [I1 I2].
      eexists. split; [reflexivity|]. split; [exact I1|]. rewrite I2, M2. reflexivity.
  Qed.

  (* the element operation of each array form, in the ring (x, y = values of the operands at the index, old = value of r[i]) *)
  Definition arr_elem_ring (name : Z) (s t : R) (x y old : R) : R :=
    match name with
    | 0 => rmul x y | 1 => rmul x s
    | 4 => radd x y | 5 => radd x s
    | 6 => rsub x y | 7 => rsub x s
    | 8 => ropp x
    | 10 => radd (rmul s x) y | 11 => radd (rmul s x) t | 12 => radd old (rmul s x)
    | 13 => rsub (rmul s x) y | 14 => rsub (rmul s x) t | 15 => rsub old (rmul s x)
    | _ => rO
    end.
  Let SC := scalar_ops_ok R rO rI radd rmul rsub ropp Rth g N N_pos gN mo plun mo_rng g_mo TI_mo TI val (fun a _ => eq_refl).
  (* the element functions of the 13 division-free forms are the ring operations (div / div_s / inv: quotient statements of
     C05_zech_macros_are_ring_operations apply to the non-zero divisors element by element) *)
  Lemma arr_elem_ring_ok name s t x y old : In (name) [0;1;4;5;6;7;8;10;11;12;13;14;15] ->
    In0N s -> In0N t -> In0N x -> In0N y -> In0N old ->
    In0N (arr_elem N mo plun name s t x y old) /\
    val (arr_elem N mo plun name s t x y old) = arr_elem_ring name (val s) (val t) (val x) (val y) (val old).
  Proof.
    intros Hn Hs Ht Hx Hy Ho.
    pose proof (SC x y old Hx Hy Ho) as [A1 [_ [A3 [_ [A5 _]]]]].
    cbn [In] in Hn.
    repeat (destruct Hn as [<-|Hn]); try contradiction; cbn [arr_elem arr_elem_ring].
    - exact A5.
    - destruct (SC x s old Hx Hs Ho) as [_ [_ [_ [_ [B _]]]]]. exact B.
    - exact A1.
    - destruct (SC x s old Hx Hs Ho) as [B _]. exact B.
    - exact A3.
    - destruct (SC x s old Hx Hs Ho) as [_ [_ [B _]]]. exact B.
    - destruct (SC x y old Hx Hy Ho) as [_ [_ [_ [_ [_ [_ [B _]]]]]]]. exact B.
    - destruct (SC s x y Hs Hx Hy) as [_ [_ [_ [_ [_ [_ [_ [_ [_ [_ [_ [_ [B _]]]]]]]]]]]]]. exact B.
    - destruct (SC s x t Hs Hx Ht) as [_ [_ [_ [_ [_ [_ [_ [_ [_ [_ [_ [_ [B _]]]]]]]]]]]]]. exact B.
    - destruct (SC old s x Ho Hs Hx) as [_ [_ [_ [_ [_ [_ [_ [_ [_ [_ [_ [_ [_ [B _]]]]]]]]]]]]]]. exact B.
    - destruct (SC s x y Hs Hx Hy) as [_ [_ [_ [_ [_ [_ [_ [_ [_ [_ [_ [_ [_ [_ [_ [_ [B _]]]]]]]]]]]]]]]]]. exact B.
    - destruct (SC s x t Hs Hx Ht) as [_ [_ [_ [_ [_ [_ [_ [_ [_ [_ [_ [_ [_ [_ [_ [_ [B _]]]]]]]]]]]]]]]]]. exact B.
    - destruct (SC old s x Ho Hs Hx) as [_ [_ [_ [_ [_ [_ [_ [_ [_ [_ [_ [_ [_ [_ [B _]]]]]]]]]]]]]]]. exact B.
  Qed.

  (* every division-free array form, any aliasing: the call returns and index j < sz of the destination is a representation whose
     value is the ring operation on the values the operands had at index j BEFORE the call *)
  Definition array_forms_ring_stmt : Prop :=
    forall (name s t : Z) (st : store) (lr la lb : nat) (sz : Z),
      In name [0;1;4;5;6;7;8;10;11;12;13;14;15] -> In0N s -> In0N t ->
      reps (sget st lr) -> reps (sget st la) -> reps (sget st lb) ->
      (lr < length st)%nat -> 0 <= sz <= Z.of_nat (length (sget st lr)) ->
      sz <= Z.of_nat (length (sget st la)) -> sz <= Z.of_nat (length (sget st lb)) ->
      exists st', arrL (arr_elem N mo plun name s t) lr la lb sz st = Some st' /\
        forall j, (Z.of_nat j < sz) ->
          In0N (nth j (sget st' lr) 0) /\
          val (nth j (sget st' lr) 0) =
            arr_elem_ring name (val s) (val t) (val (nth j (sget st la) 0)) (val (nth j (sget st lb) 0)) (val (nth j (sget st lr) 0)).
  Lemma array_forms_ring : array_forms_ring_stmt.
  Proof.
    intros name s t st lr la lb sz Hn Hs Ht Rr Ra Rb Hlr Hsz Hla Hlb.
    destruct (array_forms_aliasing_ok N mo plun name s t st lr la lb sz Hlr Hsz Hla Hlb) as [st' [E [_ [_ [_ Hj]]]]].
    exists st'. split; [exact E|]. intros j Hjs.
    rewrite (Hj j ltac:(lia)). destruct (Z.ltb_spec (Z.of_nat j) sz); [|lia].
    apply arr_elem_ring_ok; auto.
  Qed.
End ArrRing.

(* closed statements (hypotheses of C05_zech_macros_are_ring_operations) *)
Definition Dotprod_ring_stmt : Prop :=
  forall (R : Type) (rO rI : R) (radd rmul rsub : R -> R -> R) (ropp : R -> R),
    ring_theory rO rI radd rmul rsub ropp (@eq R) ->
  forall (g : R) (N : Z), 1 <= N -> pw R rI rmul g N = rI ->
  forall (mo : Z) (plun : Z -> Z), 1 <= mo <= N -> pw R rI rmul g mo = ropp rI -> plun mo = 0 ->
    (forall i, 1 <= i <= N -> i <> mo ->
       1 - N <= plun i <= -1 /\ pw R rI rmul g (plun i + N) = radd rI (pw R rI rmul g i)) ->
    dotprod_ring_stmt R rO rI radd rmul g N plun /\ array_forms_ring_stmt R rO rI radd rmul rsub ropp g N mo plun.
Lemma dotprod_and_arrays_ring : Dotprod_ring_stmt.
Proof.
  intros R rO rI radd rmul rsub ropp Rth g N HN HgN mo plun Hmo Hgmo Hpl HTI. split.
  - exact (dotprod_ring R rO rI radd rmul rsub ropp Rth g N HN HgN mo plun Hmo Hgmo Hpl HTI).
  - exact (array_forms_ring R rO rI radd rmul rsub ropp Rth g N HN HgN mo plun Hmo Hgmo Hpl HTI).
Qed.
