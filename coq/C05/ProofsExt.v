(* C05 - the operations of Extension<BaseField> (ExtModel.v) are the operations of the quotient ring F_p[X]/(F):
   in ANY commutative ring R of characteristic p with an element x such that F(x) = 0, the denotation sum a_i x^i of the
   result is the ring operation on the denotations of the operands; results are canonical (coefficients in [0,p), no
   trailing zero) and, for operands of degree < deg F, again of degree < deg F. *)
From Coq Require Import ZArith Lia Ring List Bool Znumtheory.
From C09 Require Model ProofsAlg ProofsDiv.
From C05 Require Import Model Checker ProofsZech ProofsField ExtModel.
Import ListNotations.
Local Open Scope Z_scope.

Section ExtSem.
  Variable R : Type.
  Variables (rO rI : R) (radd rmul rsub : R -> R -> R) (ropp : R -> R).
  Variable Rth : ring_theory rO rI radd rmul rsub ropp (@eq R).
  Add Ring Rring4 : Rth.
  Infix "+'" := radd (at level 50, left associativity).
  Infix "*'" := rmul (at level 40, left associativity).
  Infix "-'" := rsub (at level 50, left associativity).
  Variable p : Z.
  Hypothesis Hp : prime p.
  Variable x : R.
  Notation zr' := (zr R rO rI radd rmul ropp).
  Notation sem' := (sem R rO rI radd rmul ropp x).
  Hypothesis char_p : zr' p = rO.
  Let zrA := zr_add R rO rI radd rmul rsub ropp Rth.
  Let zrM := zr_mul R rO rI radd rmul rsub ropp Rth.
  Let zr0 := zr_0 R rO rI radd rmul rsub ropp Rth.
  Let zrMod := zr_mod R rO rI radd rmul rsub ropp Rth p char_p.
  Notation eqp := (C09.ProofsAlg.eqp p).
  Notation canon := (C09.ProofsAlg.canon p).

  Lemma zr_cong c d : c mod p = d mod p -> zr' c = zr' d.
  Proof. intros H. rewrite <- (zrMod c), <- (zrMod d), H. reflexivity. Qed.

  Lemma zr_m1 : zr' (-1) = ropp rI.
  Proof.
    change (-1) with (Z.opp 1). rewrite (zr_opp R rO rI radd rmul rsub ropp Rth 1), (zr_1 R rO rI radd rmul rsub ropp Rth). reflexivity.
  Qed.

  Lemma sem_paddZ : forall a b, sem' (C09.Model.paddZ a b) = sem' a +' sem' b.
  Proof.
    induction a as [|c a IH]; intros b; [cbn [C09.Model.paddZ sem]; ring|].
    destruct b as [|d b]; [cbn [C09.Model.paddZ sem]; ring|].
    cbn [C09.Model.paddZ sem]. rewrite IH, zrA. ring.
  Qed.

  Lemma sem_pscaleZ c : forall a, sem' (C09.Model.pscaleZ c a) = zr' c *' sem' a.
  Proof.
    unfold C09.Model.pscaleZ. induction a as [|d a IH]; cbn [map sem]; [ring|]. rewrite IH, zrM. ring.
  Qed.

  Lemma sem_pmulZ : forall a b, sem' (C09.Model.pmulZ a b) = sem' a *' sem' b.
  Proof.
    induction a as [|c a IH]; intros b; cbn [C09.Model.pmulZ sem]; [ring|].
    rewrite sem_paddZ, sem_pscaleZ. cbn [sem]. rewrite IH, zr0. ring.
  Qed.

  Lemma sem_all_zero : forall b, (forall i, (nth i b 0) mod p = 0 mod p) -> sem' b = rO.
  Proof.
    induction b as [|d b IH]; intros H; [reflexivity|]. cbn [sem].
    rewrite (zr_cong d 0 (H 0%nat)), zr0, IH; [ring|]. intros i. exact (H (S i)).
  Qed.

  Lemma sem_coeff_ext : forall a b, (forall i, (nth i a 0) mod p = (nth i b 0) mod p) -> sem' a = sem' b.
  Proof.
    induction a as [|c a IH]; intros b H.
    - symmetry. apply sem_all_zero. intros i. rewrite <- H. destruct i; reflexivity.
    - destruct b as [|d b].
      + apply sem_all_zero. intros i. rewrite H. destruct i; reflexivity.
      + cbn [sem]. rewrite (zr_cong c d (H 0%nat)), (IH b); [reflexivity|]. intros i. exact (H (S i)).
  Qed.

  Lemma sem_eqp a b : eqp a b -> sem' a = sem' b.
  Proof. intros H. apply sem_coeff_ext. apply C09.ProofsAlg.eqp_coeff; assumption. Qed.

  Lemma sem_red a : sem' (C09.Model.red p a) = sem' a.
  Proof. apply sem_eqp. apply C09.ProofsAlg.eqp_red. exact Hp. Qed.

  (* ---------------------------------------------------------------- the quotient *)
  Variable F : list Z.
  Hypothesis F_canon : canon F.
  Hypothesis F_deg : 1 <= C09.Model.deg F.
  Hypothesis root : sem' F = rO.

  Lemma F_nonnil : F <> [].
  Proof. intros E. rewrite E in F_deg. unfold C09.Model.deg in F_deg. cbn [length] in F_deg. lia. Qed.

  Lemma sem_modin a : canon a ->
    sem' (C09.Model.pmod p a F) = sem' a /\ canon (C09.Model.pmod p a F) /\ (length (C09.Model.pmod p a F) < length F)%nat.
  Proof.
    intros Ha. destruct (C09.ProofsDiv.pdivmod_spec p Hp a F Ha F_canon F_nonnil) as [E [_ [C L]]].
    split; [|split; assumption].
    rewrite (sem_eqp _ _ E), sem_paddZ, sem_pmulZ, root. ring.
  Qed.

  (* value e, canonical; `small r` = degree < deg F *)
  Definition okp (r : list Z) (e : R) : Prop := canon r /\ sem' r = e.
  Definition small (r : list Z) : Prop := (length r < length F)%nat.

  Lemma ok_padd a b : okp (C09.Model.padd p a b) (sem' a +' sem' b).
  Proof. split; [apply C09.ProofsAlg.canon_red; exact Hp|]. unfold C09.Model.padd. rewrite sem_red, sem_paddZ. reflexivity. Qed.
  Lemma ok_psub a b : okp (C09.Model.psub p a b) (sem' a -' sem' b).
  Proof.
    split; [apply C09.ProofsAlg.canon_red; exact Hp|]. unfold C09.Model.psub.
    rewrite sem_red, sem_paddZ, sem_pscaleZ. rewrite zr_m1. ring.
  Qed.
  Lemma ok_pneg a : okp (pneg p a) (ropp (sem' a)).
  Proof.
    split; [apply C09.ProofsAlg.canon_red; exact Hp|]. unfold pneg, C09.Model.pscale.
    rewrite sem_red, sem_pscaleZ. rewrite zr_m1. ring.
  Qed.
  Lemma ok_pmul a b : okp (C09.Model.pmul p a b) (sem' a *' sem' b).
  Proof. split; [apply C09.ProofsAlg.canon_red; exact Hp|]. unfold C09.Model.pmul. rewrite sem_red, sem_pmulZ. reflexivity. Qed.

  Lemma small_padd a b : small a -> small b -> small (C09.Model.padd p a b).
  Proof.
    unfold small, C09.Model.padd. intros. pose proof (C09.ProofsAlg.length_red_le p (C09.Model.paddZ a b)).
    rewrite C09.ProofsAlg.length_paddZ in *. lia.
  Qed.
  Lemma small_psub a b : small a -> small b -> small (C09.Model.psub p a b).
  Proof.
    unfold small, C09.Model.psub. intros. pose proof (C09.ProofsAlg.length_red_le p (C09.Model.paddZ a (C09.Model.pscaleZ (-1) b))).
    rewrite C09.ProofsAlg.length_paddZ, C09.ProofsAlg.length_pscaleZ in *. lia.
  Qed.
  Lemma small_pneg a : small a -> small (pneg p a).
  Proof.
    unfold small, pneg, C09.Model.pscale. intros. pose proof (C09.ProofsAlg.length_red_le p (C09.Model.pscaleZ (-1) a)).
    rewrite C09.ProofsAlg.length_pscaleZ in *. lia.
  Qed.

  Definition ext_ops_spec : Prop :=
    forall a b c, canon a -> canon b -> canon c -> small a -> small b -> small c ->
      let A := sem' a in let B := sem' b in let C := sem' c in
      (okp (e_add p a b) (A +' B) /\ small (e_add p a b)) /\
      (okp (e_sub p a b) (A -' B) /\ small (e_sub p a b)) /\
      (okp (e_neg p a) (ropp A) /\ small (e_neg p a)) /\
      (okp (e_mul p F a b) (A *' B) /\ small (e_mul p F a b)) /\
      (okp (e_axpy p F a b c) (A *' B +' C) /\ small (e_axpy p F a b c)) /\
      (okp (e_axpyin p F a b c) (A +' B *' C) /\ small (e_axpyin p F a b c)) /\
      (okp (e_maxpy p F a b c) (C -' A *' B) /\ small (e_maxpy p F a b c)) /\
      (okp (e_maxpyin p F a b c) (A -' B *' C) /\ small (e_maxpyin p F a b c)) /\
      (okp (e_axmy p F a b c) (A *' B -' C) /\ small (e_axmy p F a b c)) /\
      (okp (e_axmyin p F a b c) (B *' C -' A) /\ small (e_axmyin p F a b c)).

  Lemma ok_modin r e : okp r e -> okp (C09.Model.pmod p r F) e /\ small (C09.Model.pmod p r F).
  Proof.
    intros [Hc He]. destruct (sem_modin r Hc) as [S [C L]]. split; [split; [exact C | rewrite S; exact He] | exact L].
  Qed.

  Lemma ok_inner_add a b c : okp (C09.Model.padd p a (C09.Model.pmul p b c)) (sem' a +' sem' b *' sem' c).
  Proof. destruct (ok_padd a (C09.Model.pmul p b c)) as [H1 H2]. split; [exact H1|]. rewrite H2. destruct (ok_pmul b c) as [_ ->]. reflexivity. Qed.
  Lemma ok_inner_sub a b c : okp (C09.Model.psub p a (C09.Model.pmul p b c)) (sem' a -' sem' b *' sem' c).
  Proof. destruct (ok_psub a (C09.Model.pmul p b c)) as [H1 H2]. split; [exact H1|]. rewrite H2. destruct (ok_pmul b c) as [_ ->]. reflexivity. Qed.

  Lemma ext_ops_ok : ext_ops_spec.
  Proof.
    intros a b c Ca Cb Cc Sa Sb Sc A B C.
    unfold e_add, e_sub, e_neg, e_axpy, e_axpyin, e_maxpy, e_maxpyin, e_axmy, e_axmyin, e_maxpyin, e_mul.
    destruct (ok_modin _ _ (ok_pmul a b)) as [Mab Sab].
    repeat match goal with |- (_ /\ _) /\ _ => split end.
    - split; [apply ok_padd | apply small_padd; assumption].
    - split; [apply ok_psub | apply small_psub; assumption].
    - split; [apply ok_pneg | apply small_pneg; assumption].
    - split; assumption.
    - split; [|apply small_padd; assumption].
      destruct Mab as [_ E]. destruct (ok_padd (C09.Model.pmod p (C09.Model.pmul p a b) F) c) as [H1 H2].
      split; [exact H1|]. rewrite H2, E. reflexivity.
    - apply ok_modin. apply ok_inner_add.
    - apply ok_modin. apply ok_inner_sub.
    - apply ok_modin. apply ok_inner_sub.
    - split; [|apply small_psub; assumption].
      destruct Mab as [_ E]. destruct (ok_psub (C09.Model.pmod p (C09.Model.pmul p a b) F) c) as [H1 H2].
      split; [exact H1|]. rewrite H2, E. reflexivity.
    - destruct (ok_modin _ _ (ok_inner_sub a b c)) as [[_ E] S].
      split; [|apply small_pneg; exact S].
      destruct (ok_pneg (C09.Model.pmod p (C09.Model.psub p a (C09.Model.pmul p b c)) F)) as [H1 H2].
      split; [exact H1|]. rewrite H2, E. subst A B C. ring.
  Qed.

  (* ---------------------------------------------------------------- inv / div through Poly1Dom::invmod (partial correctness:
     whenever the model returns an answer it is the inverse / the quotient; the loop invariant is S0*A = F, S1*A = G modulo the
     modulus, for any scalars r1) *)
  Lemma ok_pdivc a c : okp (pdivc p a c) (zr' (C09.Model.inv p c) *' sem' a).
  Proof.
    split; [apply C09.ProofsAlg.canon_red; exact Hp|]. unfold pdivc, C09.Model.pscale. rewrite sem_red, sem_pscaleZ. reflexivity.
  Qed.

  Lemma invmod_loop_ok (A : R) : forall fuel Fp G S0 S1 s g,
    canon Fp -> canon G -> canon S0 -> canon S1 ->
    sem' S0 *' A = sem' Fp -> sem' S1 *' A = sem' G ->
    invmod_loop p fuel Fp G S0 S1 = Some (s, g) ->
    sem' s *' A = sem' g /\ canon s.
  Proof.
    induction fuel as [|f IH]; intros Fp G S0 S1 s g CF CG CS0 CS1 I0 I1 E.
    - destruct G as [|z G]; cbn [invmod_loop] in E; [|discriminate]. inversion E; subst. split; assumption.
    - destruct G as [|z G]; cbn [invmod_loop] in E.
      + inversion E; subst. split; assumption.
      + set (GG := z :: G) in *.
        destruct (C09.ProofsDiv.pdivmod_spec p Hp Fp GG CF CG ltac:(subst GG; discriminate)) as [EQ [CQ [CR _]]].
        set (Q := C09.Model.pdiv p Fp GG) in *. set (R1 := C09.Model.pmod p Fp GG) in *.
        set (r1 := if C09.Model.lc R1 mod p =? 0 then 1 else C09.Model.lc R1) in *.
        assert (SF : sem' Fp = sem' GG *' sem' Q +' sem' R1) by (rewrite (sem_eqp _ _ EQ), sem_paddZ, sem_pmulZ; reflexivity).
        destruct (ok_pdivc R1 r1) as [C1 S1'].
        destruct (ok_pdivc (C09.Model.psub p S0 (C09.Model.pmul p Q S1)) r1) as [C2 S2'].
        apply (IH GG (pdivc p R1 r1) S1 (pdivc p (C09.Model.psub p S0 (C09.Model.pmul p Q S1)) r1) s g); try assumption.
        rewrite S2', S1'. destruct (ok_inner_sub S0 Q S1) as [_ ->].
        transitivity (zr' (C09.Model.inv p r1) *' (sem' S0 *' A -' sem' Q *' (sem' S1 *' A))); [ring|].
        rewrite I0, I1, SF. ring.
  Qed.

  Lemma sem_const c : sem' (C09.Model.red p [c]) = zr' c.
  Proof. rewrite sem_red. cbn [sem]. ring. Qed.

  Definition ext_inv_spec : Prop :=
    (forall a r, canon a -> e_inv p F a = Some r -> canon r /\ sem' r *' sem' a = rI) /\
    (forall a b r, canon a -> canon b -> e_div p F a b = Some r -> (canon r /\ small r) /\ sem' r *' sem' b = sem' a).

  Lemma e_inv_ok a r : canon a -> e_inv p F a = Some r -> canon r /\ sem' r *' sem' a = rI.
  Proof.
    intros Ca E. unfold e_inv, invmod_pair in E.
    destruct (Z.leb_spec (C09.Model.deg a) 0) as [Hd|Hd].
    - cbn [orb] in E. destruct (Z.eqb_spec (C09.Model.deg a) 0) as [H0|H0]; [|discriminate].
      inversion E; subst r. split; [apply C09.ProofsAlg.canon_red; exact Hp|].
      unfold C09.Model.deg in H0. destruct a as [|c [|d a]]; cbn [length] in H0; try lia.
      cbn [C09.Model.lc last]. rewrite sem_const. cbn [sem].
      destruct Ca as [Cr Cl]. inversion Cr as [|? ? Hc _]; subst. cbn [last] in Cl.
      assert (Hm : c mod p <> 0) by (rewrite Z.mod_small by lia; exact Cl).
      pose proof (C09.ProofsDiv.inv_spec p Hp c Hm) as HI.
      transitivity (zr' ((c * C09.Model.inv p c) mod p)); [rewrite zrMod, zrM; ring|]. rewrite HI. apply (zr_1 R rO rI radd rmul rsub ropp Rth).
    - destruct (Z.leb_spec (C09.Model.deg F) 0) as [HF|HF]; [lia|]. cbn [orb] in E.
      destruct (invmod_loop p (S (length F)) (pdivc p a (C09.Model.lc a)) (pdivc p F (C09.Model.lc F))
                            (C09.Model.red p [C09.Model.inv p (C09.Model.lc a)]) []) as [[s g]|] eqn:EL; [|discriminate].
      destruct g as [|g0 g]; try discriminate. destruct g0 as [|[g0|g0|]|]; try discriminate. destruct g as [|g1 g]; try discriminate.
      inversion E; subst r.
      destruct (ok_pdivc a (C09.Model.lc a)) as [C1 S1]. destruct (ok_pdivc F (C09.Model.lc F)) as [C2 S2].
      assert (I0 : sem' (C09.Model.red p [C09.Model.inv p (C09.Model.lc a)]) *' sem' a = sem' (pdivc p a (C09.Model.lc a))).
      { rewrite sem_const, S1. reflexivity. }
      assert (I1 : sem' [] *' sem' a = sem' (pdivc p F (C09.Model.lc F))).
      { rewrite S2, root. cbn [sem]. ring. }
      destruct (invmod_loop_ok (sem' a) _ _ _ _ _ s [1] C1 C2 (C09.ProofsAlg.canon_red p Hp _) (C09.ProofsAlg.canon_nil p) I0 I1 EL) as [HS HC].
      split; [exact HC|]. rewrite HS. cbn [sem]. rewrite (zr_1 R rO rI radd rmul rsub ropp Rth). ring.
  Qed.

  Lemma ext_inv_ok : ext_inv_spec.
  Proof.
    split; [intros a r; apply e_inv_ok|].
    intros a b r Ca Cb E. unfold e_div in E. destruct (e_inv p F b) as [ib|] eqn:EI; [|discriminate]. inversion E; subst r.
    destruct (e_inv_ok b ib Cb EI) as [Ci Hi].
    destruct (ok_modin _ _ (ok_pmul a ib)) as [[C S] Sm]. unfold e_mul. split; [split; assumption|].
    rewrite S. transitivity (sem' a *' (sem' ib *' sem' b)); [ring|]. rewrite Hi. ring.
  Qed.

End ExtSem.
