(* C05 - concrete part: the tables of GF(p^k) and polynomial arithmetic modulo the defining polynomial.
   R is ANY commutative ring of characteristic p with an element x such that f(x) = 0
   (F_p[X]/(f) is the universal such ring, x the class of X).  A list of coefficients l denotes sem l = sum l_i x^i.
   - mulX / mulmod (the table builder's product modulo f) compute x * _ and the product of the denotations;
   - tables_ok p k f g T is a boolean check of the tables against p, k, f, g (chain of powers of g, g^N = 1, the
     plus1 entries, mOne, the permutation log2pol/pol2log);
   - tables_ok = true  =>  the hypotheses of ProofsZech hold for the image phi a = sem (digits (log2pol a)),
     hence every scalar operation is arithmetic of the images; the representation is a bijection
     [0,q-1] <-> coefficient lists of length k over [0,p); every non-zero element is a power of g and has an inverse. *)
From Coq Require Import ZArith Lia Ring List Bool.
From Coq Require Import setoid_ring.InitialRing Setoid Morphisms RelationClasses.
From C05 Require Import Model Checker ProofsZech.
Import ListNotations.
Local Open Scope Z_scope.

Lemma leqb_eq : forall a b, leqb a b = true -> a = b.
Proof.
  induction a as [|x a IH]; destruct b as [|y b]; cbn [leqb]; intros H; try discriminate; [reflexivity|].
  apply andb_prop in H. destruct H as [H1 H2]. apply Z.eqb_eq in H1. subst. f_equal. apply IH. exact H2.
Qed.

Lemma forallb_range_from f : forall n s, forallb f (range_from n s) = true ->
  forall i, s <= i < s + Z.of_nat n -> f i = true.
Proof.
  induction n as [|n IH]; intros s H i Hi; [lia|].
  cbn [range_from forallb] in H. apply andb_prop in H. destruct H as [H1 H2].
  destruct (Z.eq_dec i s) as [->|]; [exact H1|]. apply (IH (s + 1) H2). lia.
Qed.

Lemma agree_nth tr : forall l s, agree tr l s = true ->
  forall i, s <= i < s + Z.of_nat (length l) -> zget tr i = nth (Z.to_nat (i - s)) l 0.
Proof.
  induction l as [|v l IH]; intros s H i Hi; cbn [length] in Hi; [lia|].
  cbn [agree] in H. apply andb_prop in H. destruct H as [H1 H2]. apply Z.eqb_eq in H1.
  destruct (Z.eq_dec i s) as [->|Hne].
  - rewrite Z.sub_diag. cbn [Z.to_nat nth]. exact H1.
  - rewrite (IH (s + 1) H2 i) by lia.
    replace (Z.to_nat (i - s)) with (S (Z.to_nat (i - (s + 1)))) by lia. reflexivity.
Qed.

(* ------------------------------------------------------------ the check of one field's tables *)
(* ------------------------------------------------------------ coefficient lists <-> p-adic numbers *)
Lemma digits_length p : forall k n, length (digits p k n) = k.
Proof. induction k; intros; cbn [digits length]; [reflexivity | f_equal; apply IHk]. Qed.

Lemma evalp_digits p : 2 <= p -> forall k n, 0 <= n < p ^ Z.of_nat k -> evalp p (digits p k n) = n.
Proof.
  intros Hp. induction k as [|k IH]; intros n Hn.
  - cbn [digits evalp]. change (p ^ Z.of_nat 0) with 1 in Hn. lia.
  - cbn [digits evalp]. rewrite IH.
    + pose proof (Z_div_mod_eq_full n p). lia.
    + rewrite Nat2Z.inj_succ, Z.pow_succ_r in Hn by lia. split.
      * apply Z.div_pos; lia.
      * apply Z.div_lt_upper_bound; lia.
Qed.

Lemma digits_evalp p : 2 <= p -> forall l, Forall (fun c => 0 <= c < p) l ->
  digits p (length l) (evalp p l) = l.
Proof.
  intros Hp. induction l as [|c l IH]; intros Hl; [reflexivity|].
  inversion Hl as [|? ? Hc Hl']; subst. cbn [length digits evalp].
  replace ((c + p * evalp p l) mod p) with c.
  - replace ((c + p * evalp p l) / p) with (evalp p l); [rewrite IH by assumption; reflexivity|].
    rewrite Z.mul_comm, Z.div_add by lia. rewrite Z.div_small by lia. reflexivity.
  - rewrite Z.mul_comm, Z.mod_add by lia. rewrite Z.mod_small by lia. reflexivity.
Qed.

Lemma digits_range p : 2 <= p -> forall k n, Forall (fun c => 0 <= c < p) (digits p k n).
Proof.
  intros Hp. induction k; intros n; cbn [digits]; constructor; [apply Z.mod_pos_bound; lia | apply IHk].
Qed.

(* ------------------------------------------------------------ denotation in a ring with a root of f *)
Section Sem.
  Variable R : Type.
  Variables (rO rI : R) (radd rmul rsub : R -> R -> R) (ropp : R -> R).
  Variable Rth : ring_theory rO rI radd rmul rsub ropp (@eq R).
  Add Ring Rring2 : Rth.
  Infix "+'" := radd (at level 50, left associativity).
  Infix "*'" := rmul (at level 40, left associativity).
  Infix "-'" := rsub (at level 50, left associativity).

  Definition zr (z : Z) : R := gen_phiZ rO rI radd rmul ropp z.
  Lemma zr_morph : ring_morph rO rI radd rmul rsub ropp (@eq R) 0 1 Z.add Z.mul Z.sub Z.opp Zeq_bool zr.
  Proof. apply gen_phiZ_morph; [apply eq_equivalence | apply Eq_ext | exact Rth]. Qed.
  Lemma zr_add a b : zr (a + b) = zr a +' zr b. Proof. apply (morph_add zr_morph). Qed.
  Lemma zr_mul a b : zr (a * b) = zr a *' zr b. Proof. apply (morph_mul zr_morph). Qed.
  Lemma zr_0 : zr 0 = rO. Proof. apply (morph0 zr_morph). Qed.
  Lemma zr_1 : zr 1 = rI. Proof. apply (morph1 zr_morph). Qed.
  Lemma zr_opp a : zr (- a) = ropp (zr a). Proof. apply (morph_opp zr_morph). Qed.
  Lemma zr_sub a b : zr (a - b) = zr a -' zr b. Proof. apply (morph_sub zr_morph). Qed.

  Variable p : Z.
  Hypothesis p_ge2 : 2 <= p.
  Hypothesis char_p : zr p = rO.
  Variable x : R.

  Lemma zr_mod z : zr (z mod p) = zr z.
  Proof.
    rewrite (Z_div_mod_eq_full z p) at 2. rewrite zr_add, zr_mul, char_p. ring.
  Qed.

  Fixpoint sem (l : list Z) : R := match l with [] => rO | c :: l' => zr c +' x *' sem l' end.
  Fixpoint xpow (n : nat) : R := match n with O => rI | S m => x *' xpow m end.

  Lemma map2_length (h : Z -> Z -> Z) : forall A B, length (map2 h A B) = Nat.min (length A) (length B).
  Proof. induction A; destruct B; cbn [map2 length Nat.min]; try reflexivity. f_equal. apply IHA. Qed.

  Lemma sem_map2_lin c : forall A B, length A = length B ->
    sem (map2 (fun s r => (s + c * r) mod p) A B) = sem A +' zr c *' sem B.
  Proof.
    induction A as [|a A IH]; destruct B as [|b B]; cbn [length]; intros H; try discriminate.
    - cbn [map2 sem]. ring.
    - cbn [map2 sem]. rewrite IH by lia. rewrite zr_mod, zr_add, zr_mul. ring.
  Qed.

  Lemma sem_map2_lin2 c : forall A B, length A = length B ->
    sem (map2 (fun s r => (c * s + r) mod p) A B) = zr c *' sem A +' sem B.
  Proof.
    induction A as [|a A IH]; destruct B as [|b B]; cbn [length]; intros H; try discriminate.
    - cbn [map2 sem]. ring.
    - cbn [map2 sem]. rewrite IH by lia. rewrite zr_mod, zr_add, zr_mul. ring.
  Qed.

  Lemma sem_zeros (A : list Z) : sem (map (fun _ => 0) A) = rO.
  Proof. induction A; cbn [map sem]; [reflexivity|]. rewrite IHA, zr_0. ring. Qed.

  Lemma removelast_len (A : list Z) : length (removelast A) = pred (length A).
  Proof.
    induction A as [|a A IH]; [reflexivity|]. destruct A as [|b A]; [reflexivity|].
    change (removelast (a :: b :: A)) with (a :: removelast (b :: A)). cbn [length] in *. rewrite IH. reflexivity.
  Qed.

  Lemma sem_removelast : forall A, A <> [] ->
    sem A = sem (removelast A) +' zr (last A 0) *' xpow (pred (length A)).
  Proof.
    induction A as [|a A IH]; intros HA; [congruence|].
    destruct A as [|b A].
    - cbn [removelast last sem length pred xpow]. ring.
    - change (removelast (a :: b :: A)) with (a :: removelast (b :: A)).
      change (last (a :: b :: A) 0) with (last (b :: A) 0).
      cbn [sem]. cbn [sem] in IH. rewrite IH by discriminate. cbn [length pred xpow]. ring.
  Qed.

  Lemma sem_digits_0 : forall n, sem (digits p n 0) = rO.
  Proof.
    induction n; cbn [digits sem]; [reflexivity|].
    rewrite Z.mod_0_l, Z.div_0_l by lia. rewrite IHn, zr_0. ring.
  Qed.

  Lemma sem_digits_1 n : (1 <= n)%nat -> sem (digits p n 1) = rI.
  Proof.
    destruct n; [lia|]. intros _. cbn [digits sem].
    rewrite Z.div_small by lia. rewrite sem_digits_0, zr_mod, zr_1. ring.
  Qed.

  Lemma sem_add1 l : l <> [] -> sem (add1 p l) = sem l +' rI.
  Proof. destruct l as [|c l]; [congruence|]. intros _. cbn [add1 sem]. rewrite zr_mod, zr_add, zr_1. ring. Qed.

  Lemma sem_all0 l : all0 l = true -> sem l = rO.
  Proof.
    induction l as [|c l IH]; [reflexivity|]. cbn [all0 forallb]. intros H. apply andb_prop in H.
    destruct H as [H1 H2]. apply Z.eqb_eq in H1. subst c. cbn [sem]. rewrite (IH H2), zr_0. ring.
  Qed.

  Variable k : nat.
  Hypothesis k_pos : (1 <= k)%nat.
  Variable red : list Z.
  Hypothesis red_len : length red = k.
  Hypothesis red_sem : xpow k = sem red.

  Lemma mulX_ok H : length H = k -> sem (mulX p red H) = x *' sem H /\ length (mulX p red H) = k.
  Proof.
    intros HL. unfold mulX.
    assert (HA : H <> []) by (destruct H; cbn [length] in HL; [lia|discriminate]).
    assert (Hlen : length (0 :: removelast H) = length red).
    { cbn [length]. rewrite removelast_len. lia. }
    split.
    - rewrite sem_map2_lin by exact Hlen. cbn [sem]. rewrite zr_0.
      rewrite (sem_removelast H HA). rewrite HL.
      replace k with (S (pred k)) in red_sem by lia. cbn [xpow] in red_sem. rewrite <- red_sem. ring.
    - rewrite map2_length, Hlen. lia.
  Qed.

  Lemma mulmod_ok : forall Gl H, length H = k ->
    sem (mulmod p red H Gl) = sem H *' sem Gl /\ length (mulmod p red H Gl) = k.
  Proof.
    induction Gl as [|c Gl IH]; intros H HL.
    - cbn [mulmod sem]. rewrite sem_zeros, map_length. split; [ring|exact HL].
    - cbn [mulmod sem]. destruct (mulX_ok H HL) as [HX HXl].
      destruct (IH (mulX p red H) HXl) as [HM HMl]. split.
      + rewrite sem_map2_lin2 by lia. rewrite HM, HX. ring.
      + rewrite map2_length. lia.
  Qed.

End Sem.

(* ------------------------------------------------------------ checked tables => the hypotheses of ProofsZech *)
Lemma last_indep (l : list Z) a b : l <> [] -> last l a = last l b.
Proof.
  induction l as [|c l IH]; [congruence|]. intros _. destruct l as [|d l]; [reflexivity|].
  change (last (c :: d :: l) a) with (last (d :: l) a). change (last (c :: d :: l) b) with (last (d :: l) b).
  apply IH. discriminate.
Qed.

Lemma removelast_firstn (l : list Z) : removelast l = firstn (pred (length l)) l.
Proof.
  induction l as [|c l IH]; [reflexivity|]. destruct l as [|d l]; [reflexivity|].
  change (removelast (c :: d :: l)) with (c :: removelast (d :: l)). rewrite IH. reflexivity.
Qed.

Lemma evalp_range p : 2 <= p -> forall l, Forall (fun c => 0 <= c < p) l -> 0 <= evalp p l < p ^ Z.of_nat (length l).
Proof.
  intros Hp. induction l as [|c l IH]; intros Hl.
  - cbn [evalp length]. change (p ^ Z.of_nat 0) with 1. lia.
  - inversion Hl as [|? ? Hc Hl']; subst. specialize (IH Hl').
    cbn [evalp length]. rewrite Nat2Z.inj_succ, Z.pow_succ_r by lia. nia.
Qed.

Section Main.
  Variables (p k f g : Z) (T : tables).
  Hypothesis Hok : tables_ok p k f g T = true.
  Let kn := Z.to_nat k.
  Let N := t_one T.
  Let mo := t_mone T.

  Lemma ok_parts : c_basic p k T = true /\ c_list T = true /\ c_red p k f = true /\ c_chain p k f g T = true /\
                   c_mo p k T = true /\ c_plus p k T = true /\ c_perm1 T = true /\ c_perm2 T = true.
  Proof.
    pose proof Hok as H. unfold tables_ok in H. do 7 (apply andb_prop in H; destruct H as [H ?]). repeat split; assumption.
  Qed.

  Lemma basic_facts : 2 <= p /\ 1 <= k /\ 1 <= N /\ 1 <= mo <= N /\ t_q T = N + 1 /\ t_q T = p ^ k /\ t_p T = p /\ t_k T = k.
  Proof.
    destruct ok_parts as [H _]. unfold c_basic in H.
    repeat (apply andb_prop in H; destruct H as [H ?]).
    repeat match goal with X : (_ <=? _) = true |- _ => apply Z.leb_le in X | X : (_ =? _) = true |- _ => apply Z.eqb_eq in X end.
    subst N mo. repeat split; assumption.
  Qed.

  Lemma list_facts : length (t_log2pol T) = Z.to_nat (N + 1) /\
    forall i, 0 <= i <= N -> tL T i = nth (Z.to_nat i) (t_log2pol T) 0.
  Proof.
    destruct ok_parts as [_ [H _]]. unfold c_list in H. apply andb_prop in H. destruct H as [H1 H2].
    apply Z.eqb_eq in H1. fold N in H1. split; [lia|]. intros i Hi. unfold tL.
    rewrite (agree_nth _ _ 0 H2 i) by lia. rewrite Z.sub_0_r. reflexivity.
  Qed.

  Section Ring.
    Variable R : Type.
    Variables (rO rI : R) (radd rmul rsub : R -> R -> R) (ropp : R -> R).
    Variable Rth : ring_theory rO rI radd rmul rsub ropp (@eq R).
    Add Ring Rring3 : Rth.
    Infix "+'" := radd (at level 50, left associativity).
    Infix "*'" := rmul (at level 40, left associativity).
    Infix "-'" := rsub (at level 50, left associativity).
    Variable x : R.
    Notation zr' := (zr R rO rI radd rmul ropp).
    Notation sem' := (sem R rO rI radd rmul ropp x).
    Notation xpow' := (xpow R rI rmul x).
    Hypothesis char_p : zr' p = rO.
    Hypothesis root : sem' (digits p (S kn) f) = rO.

    Let zrM := zr_mul R rO rI radd rmul rsub ropp Rth.
    Let zrS := zr_sub R rO rI radd rmul rsub ropp Rth.
    Let zrMod := zr_mod R rO rI radd rmul rsub ropp Rth p char_p.
    Let zr1 := zr_1 R rO rI radd rmul rsub ropp Rth.
    Let red := redk p kn f.
    Let G := digits p kn g.
    Let gamma := sem' G.
    Let psi (i : Z) : R := sem' (dg p k T i).

    Lemma sem_scale c : forall A, sem' (map (fun a => ((p - a) * c) mod p) A) = ropp (zr' c) *' sem' A.
    Proof.
      destruct basic_facts as [Hp _].
      induction A as [|a A IH]; cbn [map sem]; [ring|].
      rewrite IH, zrMod, zrM, zrS.
      rewrite char_p. ring.
    Qed.

    Lemma red_len : length red = kn.
    Proof.
      subst red. unfold redk. rewrite map_length, firstn_length, digits_length. lia.
    Qed.

    Lemma red_sem : xpow' kn = sem' red.
    Proof.
      destruct basic_facts as [Hp [Hk _]]. destruct ok_parts as [_ [_ [H _]]]. unfold c_red in H. fold kn in H.
      cbv zeta in H. apply Z.eqb_eq in H.
      subst red. unfold redk. set (fd := digits p (S kn) f) in *.
      assert (Hfd : fd <> []) by (subst fd; cbn [digits]; discriminate).
      assert (Hlen : length fd = S kn) by (subst fd; apply digits_length).
      rewrite sem_scale.
      assert (E : firstn kn fd = removelast fd) by (rewrite removelast_firstn, Hlen; reflexivity).
      rewrite E.
      pose proof (sem_removelast R rO rI radd rmul rsub ropp Rth x fd Hfd) as HS.
      rewrite Hlen in HS. cbn [pred] in HS. fold fd in root. rewrite root in HS.
      rewrite (last_indep fd 0 1 Hfd) in HS. set (lc := last fd 1) in *.
      assert (E1 : zr' (invmod lc p) *' zr' lc = rI).
      { rewrite <- zrM. rewrite Z.mul_comm. rewrite <- zrMod, H. apply zr1. }
      transitivity (zr' (invmod lc p) *' zr' lc *' xpow' kn); [rewrite E1; ring|].
      transitivity (ropp (zr' (invmod lc p)) *' (rO -' zr' lc *' xpow' kn)); [ring|].
      assert (HS2 : sem' (removelast fd) = rO -' zr' lc *' xpow' kn).
      { transitivity ((sem' (removelast fd) +' zr' lc *' xpow' kn) -' zr' lc *' xpow' kn); [ring|].
        rewrite <- HS. ring. }
      rewrite HS2. reflexivity.
    Qed.

    Lemma kn_pos : (1 <= kn)%nat.
    Proof. destruct basic_facts as [_ [Hk _]]. subst kn. lia. Qed.

    Lemma dg_len i : length (dg p k T i) = kn.
    Proof. unfold dg. apply digits_length. Qed.

    Lemma chain_facts : psi 0 = rO /\ psi 1 = gamma /\ psi N = rI /\
      forall i, 1 <= i <= N - 1 -> psi (i + 1) = psi i *' gamma.
    Proof.
      destruct basic_facts as [Hp [Hk [HN _]]]. destruct ok_parts as [_ [_ [_ [H _]]]]. unfold c_chain in H.
      fold kn N in H. repeat (apply andb_prop in H; destruct H as [H ?]).
      apply Z.eqb_eq in H. repeat match goal with X : leqb _ _ = true |- _ => apply leqb_eq in X end.
      unfold psi. repeat split.
      - unfold dg. rewrite H. apply (sem_digits_0 R rO rI radd rmul rsub ropp Rth p Hp x).
      - rewrite H2. reflexivity.
      - rewrite H1.
        apply (sem_digits_1 R rO rI radd rmul rsub ropp Rth p Hp char_p x). apply kn_pos.
      - intros i Hi.
        match goal with X : forallb _ _ = true |- _ => pose proof (forallb_range_from _ _ _ X i ltac:(lia)) as HC end.
        cbv beta in HC. apply leqb_eq in HC. rewrite <- HC.
        apply (mulmod_ok R rO rI radd rmul rsub ropp Rth p char_p x kn kn_pos (redk p kn f) red_len red_sem).
        apply dg_len.
    Qed.

    Notation pw' := (pw R rI rmul gamma).

    Lemma psi_pw : forall m, (1 <= m)%nat -> Z.of_nat m <= N -> psi (Z.of_nat m) = pwn R rI rmul gamma m.
    Proof.
      destruct chain_facts as [_ [H1 [_ HS]]].
      induction m as [|m IH]; intros Hm HN; [lia|].
      destruct m as [|m].
      - cbn [pwn]. change (Z.of_nat 1) with 1. rewrite H1. ring.
      - replace (Z.of_nat (S (S m))) with (Z.of_nat (S m) + 1) by lia. rewrite HS by lia.
        rewrite IH by lia. cbn [pwn]. ring.
    Qed.

    Lemma psi_pwZ a : 1 <= a <= N -> psi a = pw' a.
    Proof. intros Ha. unfold pw. rewrite <- psi_pw by lia. f_equal. lia. Qed.

    Lemma zech_hyps : pw' N = rI /\ pw' mo = ropp rI /\ plun_of T mo = 0 /\
      forall i, 1 <= i <= N -> i <> mo ->
        1 - N <= plun_of T i <= -1 /\ pw' (plun_of T i + N) = rI +' pw' i.
    Proof.
      destruct basic_facts as [Hp [Hk [HN [Hmo _]]]]. destruct chain_facts as [_ [_ [HpsiN _]]].
      destruct ok_parts as [_ [_ [_ [_ [Hm [Hpl _]]]]]].
      unfold c_mo in Hm. fold mo in Hm. apply andb_prop in Hm. destruct Hm as [Hm1 Hm2]. apply Z.eqb_eq in Hm1.
      assert (Hne : forall i, dg p k T i <> []).
      { intros i E. pose proof (dg_len i) as HL. rewrite E in HL. cbn [length] in HL. pose proof kn_pos. lia. }
      repeat split.
      - rewrite <- psi_pwZ by lia. exact HpsiN.
      - rewrite <- psi_pwZ by lia. apply (sem_all0 R rO rI radd rmul rsub ropp Rth x) in Hm2.
        rewrite (sem_add1 R rO rI radd rmul rsub ropp Rth p char_p x) in Hm2 by apply Hne.
        fold (psi mo) in Hm2. transitivity ((psi mo +' rI) -' rI); [ring | rewrite Hm2; ring].
      - exact Hm1.
      - unfold c_plus in Hpl. fold N mo in Hpl.
        pose proof (forallb_range_from _ _ _ Hpl i ltac:(lia)) as HC. cbv beta in HC.
        destruct (Z.eqb_spec i mo); [contradiction|]. cbn [orb] in HC.
        repeat (apply andb_prop in HC; destruct HC as [HC ?]). apply Z.leb_le in HC. exact HC.
      - unfold c_plus in Hpl. fold N mo in Hpl.
        pose proof (forallb_range_from _ _ _ Hpl i ltac:(lia)) as HC. cbv beta in HC.
        destruct (Z.eqb_spec i mo); [contradiction|]. cbn [orb] in HC.
        repeat (apply andb_prop in HC; destruct HC as [HC ?]).
        match goal with X : (_ <=? -1) = true |- _ => apply Z.leb_le in X; exact X end.
      - unfold c_plus in Hpl. fold N mo in Hpl.
        pose proof (forallb_range_from _ _ _ Hpl i ltac:(lia)) as HC. cbv beta in HC.
        destruct (Z.eqb_spec i mo); [contradiction|]. cbn [orb] in HC.
        repeat (apply andb_prop in HC; destruct HC as [HC ?]). apply Z.leb_le in HC.
        match goal with X : (_ <=? -1) = true |- _ => apply Z.leb_le in X end.
        match goal with X : leqb _ _ = true |- _ => apply leqb_eq in X; rename X into HE end.
        rewrite <- !psi_pwZ by lia. unfold psi. rewrite HE.
        rewrite (sem_add1 R rO rI radd rmul rsub ropp Rth p char_p x) by apply Hne. ring.
    Qed.

    (* the polynomial image of a representation, read from the list the implementation's tables are compared with *)
    Definition phi (a : Z) : R := sem' (digits p kn (nth (Z.to_nat a) (t_log2pol T) 0)).

    Lemma phi_val a : 0 <= a <= N -> phi a = val R rO rI rmul gamma a.
    Proof.
      intros Ha. destruct list_facts as [_ HL]. unfold phi. rewrite <- HL by lia. fold (dg p k T a). fold (psi a).
      unfold val. destruct (Z.eqb_spec a 0) as [->|]; [apply chain_facts | apply psi_pwZ; lia].
    Qed.

    Lemma field_scalar_ops : scalar_ops_spec R rI radd rmul rsub ropp N mo (plun_of T) phi.
    Proof.
      destruct basic_facts as [_ [_ [HN [Hmo _]]]]. destruct zech_hyps as [H1 [H2 [H3 H4]]].
      apply (scalar_ops_ok R rO rI radd rmul rsub ropp Rth gamma N HN H1 mo (plun_of T) Hmo H2 H3 H4 phi phi_val).
    Qed.

    Lemma field_macro_ops : macro_ops_spec R radd rmul rsub N mo (plun_of T) phi.
    Proof.
      destruct basic_facts as [_ [_ [HN [Hmo _]]]]. destruct zech_hyps as [H1 [H2 [H3 H4]]].
      apply (macro_ops_ok R rO rI radd rmul rsub ropp Rth gamma N HN H1 mo (plun_of T) Hmo H2 H3 H4 phi phi_val).
    Qed.

    Lemma field_generator : phi 0 = rO /\ phi N = rI /\ phi mo = ropp rI /\
      forall a, 1 <= a <= N -> phi a = pw' a.
    Proof.
      destruct basic_facts as [_ [_ [HN [Hmo _]]]]. destruct zech_hyps as [H1 [H2 _]].
      repeat split.
      - rewrite phi_val by lia. reflexivity.
      - rewrite phi_val by lia. unfold val. destruct (Z.eqb_spec N 0); [lia|exact H1].
      - rewrite phi_val by lia. unfold val. destruct (Z.eqb_spec mo 0); [lia|exact H2].
      - intros a Ha. rewrite phi_val by lia. unfold val. destruct (Z.eqb_spec a 0); [lia|reflexivity].
    Qed.
  End Ring.
End Main.
