(* C05 - GF2: every operation of gf2.inl, for both destination kinds, on ALL operand values, is arithmetic in
   F_2 = Z/2 = F_2[X]/(X).  The domain is finite (bool^3 x 2 overloads x 19 variants) and is swept completely by case analysis. *)
From Coq Require Import ZArith Bool Lia.
From C05 Require Import GF2Model.
Local Open Scope Z_scope.

Definition bv (b : bool) : Z := if b then 1 else 0.

Definition GF2_ops_stmt : Prop :=
  forall (bitref a b c : bool),
    let op := fun code => bv (gf2_op code bitref a b c) in
    0 <= op 0 <= 1 /\
    op 0 = (bv a + bv b) mod 2 /\ op 1 = (bv a - bv b) mod 2 /\ op 2 = (bv a * bv b) mod 2 /\
    (b = true -> (op 3 * bv b) mod 2 = bv a) /\                      (* div *)
    op 4 = (- bv a) mod 2 /\
    (a = true -> (op 5 * bv a) mod 2 = 1) /\                         (* inv(a) * a = 1 *)
    op 6 = (bv a * bv b + bv c) mod 2 /\                             (* axpy  r = a*x + y *)
    op 7 = (bv a * bv b - bv c) mod 2 /\                             (* axmy  r = a*x - y *)
    op 8 = (bv c - bv a * bv b) mod 2 /\                             (* maxpy r = y - a*x *)
    op 9 = (bv a + bv b) mod 2 /\ op 10 = (bv a - bv b) mod 2 /\ op 11 = (bv a * bv b) mod 2 /\   (* addin subin mulin: a = destination *)
    (b = true -> (op 12 * bv b) mod 2 = bv a) /\                     (* divin *)
    op 13 = (- bv a) mod 2 /\
    (a = true -> (op 14 * bv a) mod 2 = 1) /\                        (* invin *)
    op 15 = (bv a + bv b * bv c) mod 2 /\                            (* axpyin  r = r + a*x *)
    op 16 = (bv b * bv c - bv a) mod 2 /\                            (* axmyin  r = a*x - r *)
    op 17 = (bv a - bv b * bv c) mod 2 /\                            (* maxpyin r = r - a*x *)
    op 18 = bv a.

Lemma gf2_ops : GF2_ops_stmt.
Proof.
  intros bitref a b c. destruct bitref, a, b, c; cbv; repeat split; try reflexivity; try discriminate; intros; try reflexivity; try discriminate.
Qed.

(* the two overloads of every variant agree (a change of one overload only is visible as a disagreement) *)
Lemma gf2_overloads_agree : forall code a b c, gf2_op code true a b c = gf2_op code false a b c.
Proof.
  intros code a b c. unfold gf2_op.
  destruct code as [|q|q]; reflexivity.
Qed.
