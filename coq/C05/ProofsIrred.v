(* C05 - the stored modulus is irreducible and the advertised generator is primitive, as statements about polynomials
   over F_p (definitions of coq/C09: irreducible_def = no factorisation into two non-constant canonical polynomials;
   npow = power modulo F by repeated multiplication), decided per field by the verified checkers. *)
From Coq Require Import ZArith Lia List Bool Znumtheory.
From C09 Require Model ProofsAlg ProofsDiv ProofsIrr.
From C05 Require Import Model Checker PrimeB.
Import ListNotations.
Local Open Scope Z_scope.

Definition Modulus_irreducible_stmt : Prop :=
  forall p k f g, fg_ok p k f g = true ->
    prime p /\ 1 <= k /\ C09.ProofsAlg.canon p (fpoly p k f) /\ C09.Model.deg (fpoly p k f) = k /\
    C09.ProofsIrr.irreducible_def p (fpoly p k f).

Definition Generator_primitive_stmt : Prop :=
  forall p k f g, fg_ok p k f g = true ->
    let F := fpoly p k f in
    let A := C09.Model.pmod p (gpoly p k g) F in
    let N := Z.to_nat (p ^ k - 1) in
    (1 <= N)%nat /\ C09.Model.npow p A F N = C09.Model.pone /\
    forall i, (1 <= i < N)%nat -> C09.Model.npow p A F i <> C09.Model.pone.

Lemma fg_parts p k f g : fg_ok p k f g = true ->
  prime p /\ 1 <= k /\ 1 <= p ^ k - 1 /\ C09.Model.deg (fpoly p k f) = k /\
  C09.Model.irreducible_b p (fpoly p k f) = true /\
  C09.Model.brute_order p (gpoly p k g) (fpoly p k f) (p ^ k - 1) = p ^ k - 1.
Proof.
  unfold fg_ok. intros H. do 5 (apply andb_prop in H; destruct H as [H ?]).
  apply primeb_spec in H.
  repeat match goal with X : (_ <=? _) = true |- _ => apply Z.leb_le in X | X : (_ =? _) = true |- _ => apply Z.eqb_eq in X end.
  repeat match goal with |- _ /\ _ => split end; assumption.
Qed.

Lemma modulus_irreducible : Modulus_irreducible_stmt.
Proof.
  intros p k f g H. destruct (fg_parts p k f g H) as [Hp [Hk [_ [Hd [Hi _]]]]].
  assert (Hc : C09.ProofsAlg.canon p (fpoly p k f)) by (apply C09.ProofsAlg.canon_red; exact Hp).
  repeat match goal with |- _ /\ _ => split end; try assumption.
  exact (C09.ProofsIrr.irreducible_b_sound p Hp (fpoly p k f) Hc Hi).
Qed.

Lemma generator_primitive : Generator_primitive_stmt.
Proof.
  intros p k f g H. cbv zeta. destruct (fg_parts p k f g H) as [Hp [Hk [HN [_ [_ Ho]]]]].
  pose proof (C09.ProofsIrr.brute_order_spec p (gpoly p k g) (fpoly p k f) (p ^ k - 1)) as S.
  cbv zeta in S. rewrite Ho in S.
  split; [lia|].
  destruct S as [[E _]|[m [E [Hm [H1 H2]]]]]; [lia|].
  assert (Em : m = Z.to_nat (p ^ k - 1)) by lia. subst m. split; assumption.
Qed.
