(* C05 - the statements of the property theorems and their proofs from ProofsZech / ProofsArr / ProofsField. *)
From Coq Require Import ZArith Lia Ring List Bool.
From Coq Require Import Znumtheory.
From C09 Require Model ProofsAlg ProofsIrr.
From C05 Require Import Model Checker ExtModel ProofsZech ProofsArr ProofsField ProofsIrred ProofsExt.
Import ListNotations.
Local Open Scope Z_scope.

(* (1) all fields, all elements: in ANY commutative ring R, for ANY g with g^N = 1 and ANY table plun satisfying the
   invariant, every scalar member function and every macro of gfq.inl returns a representation in [0,N] whose value
   (0 -> 0, i -> g^i) is the ring operation on the values of its operands; inv a * a = 1, (a / b) * b = a. *)
Definition Zech_ops_stmt : Prop :=
  forall (R : Type) (rO rI : R) (radd rmul rsub : R -> R -> R) (ropp : R -> R),
    ring_theory rO rI radd rmul rsub ropp (@eq R) ->
  forall (g : R) (N : Z), 1 <= N -> pw R rI rmul g N = rI ->
  forall (mo : Z) (plun : Z -> Z), 1 <= mo <= N -> pw R rI rmul g mo = ropp rI -> plun mo = 0 ->
    (forall i, 1 <= i <= N -> i <> mo ->
       1 - N <= plun i <= -1 /\ pw R rI rmul g (plun i + N) = radd rI (pw R rI rmul g i)) ->
    scalar_ops_spec R rI radd rmul rsub ropp N mo plun (val R rO rI rmul g) /\
    macro_ops_spec R radd rmul rsub N mo plun (val R rO rI rmul g).

Lemma zech_ops : Zech_ops_stmt.
Proof.
  intros R rO rI radd rmul rsub ropp Rth g N HN HgN mo plun Hmo Hgmo Hpl HTI. split.
  - apply (scalar_ops_ok R rO rI radd rmul rsub ropp Rth g N HN HgN mo plun Hmo Hgmo Hpl HTI). intros; reflexivity.
  - apply (macro_ops_ok R rO rI radd rmul rsub ropp Rth g N HN HgN mo plun Hmo Hgmo Hpl HTI). intros; reflexivity.
Qed.

(* (2) one field: if the boolean check tables_ok accepts the tables T for (p,k,f,g) then, in ANY commutative ring R of
   characteristic p with an element x such that f(x) = 0 (F_p[X]/(f) with x = class of X is the universal one), the
   polynomial image  phi a = sum_i c_i x^i  (c = the k p-adic digits of log2pol[a])  turns every scalar operation and
   every macro into the ring operation; phi 0 = 0, phi one = 1, phi mOne = -1 and phi a = (image of g)^a. *)
Definition Field_ops_stmt : Prop :=
  forall (p k f g : Z) (T : tables), tables_ok p k f g T = true ->
  forall (R : Type) (rO rI : R) (radd rmul rsub : R -> R -> R) (ropp : R -> R),
    ring_theory rO rI radd rmul rsub ropp (@eq R) ->
  forall x : R,
    zr R rO rI radd rmul ropp p = rO ->
    sem R rO rI radd rmul ropp x (digits p (S (Z.to_nat k)) f) = rO ->
    let ph := phi p k T R rO rI radd rmul ropp x in
    let gamma := sem R rO rI radd rmul ropp x (digits p (Z.to_nat k) g) in
    scalar_ops_spec R rI radd rmul rsub ropp (t_one T) (t_mone T) (plun_of T) ph /\
    macro_ops_spec R radd rmul rsub (t_one T) (t_mone T) (plun_of T) ph /\
    ph 0 = rO /\ ph (t_one T) = rI /\ ph (t_mone T) = ropp rI /\
    (forall a, 1 <= a <= t_one T -> ph a = pw R rI rmul gamma a).

Lemma field_ops : Field_ops_stmt.
Proof.
  intros p k f g T Hok R rO rI radd rmul rsub ropp Rth x Hc Hr ph gamma.
  split; [|split].
  - apply (field_scalar_ops p k f g T Hok R rO rI radd rmul rsub ropp Rth x Hc Hr).
  - apply (field_macro_ops p k f g T Hok R rO rI radd rmul rsub ropp Rth x Hc Hr).
  - apply (field_generator p k f g T Hok R rO rI radd rmul rsub ropp Rth x Hc Hr).
Qed.

(* (3) the representation is a bijection: tables_ok => q = p^k, log2pol and pol2log are inverse permutations of [0,q),
   and the k p-adic digits are a bijection between [0,q) and the coefficient lists of length k over [0,p)
   (the polynomials of degree < k); cardinality/characteristic/exponent of the tables are p^k, p, k. *)
Definition Repr_bijection_stmt : Prop :=
  forall (p k f g : Z) (T : tables), tables_ok p k f g T = true ->
    let q := p ^ k in
    let kn := Z.to_nat k in
    let l2p := fun a => nth (Z.to_nat a) (t_log2pol T) 0 in
    let p2l := fun j => zget (t_pol2log T) j in
    2 <= p /\ 1 <= k /\ t_q T = q /\ t_one T = q - 1 /\ t_p T = p /\ t_k T = k /\
    (forall a, 0 <= a < q -> 0 <= l2p a < q /\ p2l (l2p a) = a) /\
    (forall j, 0 <= j < q -> 0 <= p2l j < q /\ l2p (p2l j) = j) /\
    (forall n, 0 <= n < q -> length (digits p kn n) = kn /\ Forall (fun c => 0 <= c < p) (digits p kn n) /\
                             evalp p (digits p kn n) = n) /\
    (forall l, length l = kn -> Forall (fun c => 0 <= c < p) l -> 0 <= evalp p l < q /\ digits p kn (evalp p l) = l).

Lemma repr_bijection : Repr_bijection_stmt.
Proof.
  intros p k f g T Hok q kn l2p p2l.
  destruct (basic_facts p k f g T Hok) as [Hp [Hk [HN [Hmo [Hq1 [Hq2 [Hpp Hkk]]]]]]].
  destruct (list_facts p k f g T Hok) as [_ HL].
  destruct (ok_parts p k f g T Hok) as [_ [_ [_ [_ [_ [_ [P1 P2]]]]]]].
  assert (Hkn : Z.of_nat kn = k) by (subst kn; lia).
  repeat split; try assumption; try lia.
  - unfold c_perm1 in P1. pose proof (forallb_range_from _ _ _ P1 a ltac:(subst q; lia)) as HC. cbv beta in HC.
    repeat (apply andb_prop in HC; destruct HC as [HC ?]). apply Z.leb_le in HC.
    subst l2p. cbv beta. rewrite <- HL by (subst q; lia). exact HC.
  - unfold c_perm1 in P1. pose proof (forallb_range_from _ _ _ P1 a ltac:(subst q; lia)) as HC. cbv beta in HC.
    repeat (apply andb_prop in HC; destruct HC as [HC ?]).
    match goal with X : (_ <? _) = true |- _ => apply Z.ltb_lt in X end.
    subst l2p. cbv beta. rewrite <- HL by (subst q; lia). subst q. lia.
  - unfold c_perm1 in P1. pose proof (forallb_range_from _ _ _ P1 a ltac:(subst q; lia)) as HC. cbv beta in HC.
    repeat (apply andb_prop in HC; destruct HC as [HC ?]).
    match goal with X : (_ =? _) = true |- _ => apply Z.eqb_eq in X; rename X into HE end.
    subst l2p p2l. cbv beta. rewrite <- HL by (subst q; lia). exact HE.
  - unfold c_perm2 in P2. pose proof (forallb_range_from _ _ _ P2 j ltac:(subst q; lia)) as HC. cbv beta in HC.
    repeat (apply andb_prop in HC; destruct HC as [HC ?]). apply Z.leb_le in HC. exact HC.
  - unfold c_perm2 in P2. pose proof (forallb_range_from _ _ _ P2 j ltac:(subst q; lia)) as HC. cbv beta in HC.
    repeat (apply andb_prop in HC; destruct HC as [HC ?]).
    match goal with X : (_ <? _) = true |- _ => apply Z.ltb_lt in X end. subst p2l q. cbv beta. unfold tP in *. lia.
  - unfold c_perm2 in P2. pose proof (forallb_range_from _ _ _ P2 j ltac:(subst q; lia)) as HC. cbv beta in HC.
    repeat (apply andb_prop in HC; destruct HC as [HC ?]). apply Z.leb_le in HC.
    match goal with X : (_ <? _) = true |- _ => apply Z.ltb_lt in X end.
    match goal with X : (_ =? _) = true |- _ => apply Z.eqb_eq in X; rename X into HE end.
    subst l2p p2l. cbv beta. unfold tP in *. rewrite <- HL by lia. exact HE.
  - apply digits_length.
  - apply digits_range. exact Hp.
  - apply evalp_digits; [exact Hp|]. rewrite Hkn. subst q. lia.
  - pose proof (evalp_range p Hp l H0). lia.
  - pose proof (evalp_range p Hp l H0) as HR. rewrite H, Hkn in HR. subst q. lia.
  - rewrite <- H. apply digits_evalp; assumption.
Qed.

(* (3b) Extension<BaseField> over a prime field (ExtModel.v, written after extension.h): in any commutative ring of
   characteristic p with a root x of the stored irreducible F, add/sub/neg/mul/axpy/axpyin/maxpy/maxpyin/axmy/axmyin are the
   ring operations on the denotations; results canonical and of degree < deg F.  (F need not be irreducible for this.) *)
Definition Ext_ops_stmt : Prop :=
  forall (R : Type) (rO rI : R) (radd rmul rsub : R -> R -> R) (ropp : R -> R),
    ring_theory rO rI radd rmul rsub ropp (@eq R) ->
  forall p, prime p -> forall x : R, zr R rO rI radd rmul ropp p = rO ->
  forall F, C09.ProofsAlg.canon p F -> 1 <= C09.Model.deg F -> sem R rO rI radd rmul ropp x F = rO ->
    ext_ops_spec R rO rI radd rmul rsub ropp p x F.
Lemma ext_ops : Ext_ops_stmt.
Proof. exact ext_ops_ok. Qed.

(* (3c) Extension inv / div / invin / divin (Poly1Dom::invmod, a monic-normalised extended Euclid): PARTIAL correctness - whenever the
   model returns an answer r for inv a, r * a = 1 in the ring (and (a/b) * b = a, degree < deg F); that the model always answers
   for an irreducible F and a <> 0 is not proved: the correspondence run reports a model without answer as a broken obligation. *)
Definition Ext_inv_stmt : Prop :=
  forall (R : Type) (rO rI : R) (radd rmul rsub : R -> R -> R) (ropp : R -> R),
    ring_theory rO rI radd rmul rsub ropp (@eq R) ->
  forall p, prime p -> forall x : R, zr R rO rI radd rmul ropp p = rO ->
  forall F, C09.ProofsAlg.canon p F -> 1 <= C09.Model.deg F -> sem R rO rI radd rmul ropp x F = rO ->
    ext_inv_spec R rO rI radd rmul ropp p x F.
Lemma ext_inv : Ext_inv_stmt.
Proof. exact ext_inv_ok. Qed.
Example ext_inv_example : e_inv 3 [1; 0; 1] [0; 1] = Some [0; 2] /\ e_div 3 [1; 0; 1] [2; 1] [1; 2] = Some [2].
Proof. vm_compute. split; reflexivity. Qed.

(* (3d) the per-field certificate the check evaluates on every run: for the (p,k,f,g) a field object reports, if the two extracted
   boolean checkers answer true - fg_ok p k f g, and tables_ok on the tables the model's builder computes from (p,k,f,g) (the check
   also compares these tables entry by entry with the implementation's) - then ALL of the following hold for that field:
   p is prime, f is irreducible of degree k over F_p, g has order exactly p^k - 1 modulo f, cardinality / characteristic / exponent
   are p^k, p, k, the representation is a bijection with the polynomials of degree < k, and in every commutative ring of
   characteristic p with a root x of f every scalar operation and macro is the ring operation on the polynomial images
   (inv a * a = 1 and (a/b) * b = a are part of scalar_ops_spec). *)
Definition Certified_field_stmt : Prop :=
  forall p k f g, fg_ok p k f g = true ->
  let T := mk_tables p k f g in
  tables_ok p k f g T = true ->
    (prime p /\ 1 <= k /\ C09.Model.deg (fpoly p k f) = k /\ C09.ProofsIrr.irreducible_def p (fpoly p k f)) /\
    (let Fp := fpoly p k f in let A := C09.Model.pmod p (gpoly p k g) Fp in let N := Z.to_nat (p ^ k - 1) in
     C09.Model.npow p A Fp N = C09.Model.pone /\ forall i, (1 <= i < N)%nat -> C09.Model.npow p A Fp i <> C09.Model.pone) /\
    (t_q T = p ^ k /\ t_one T = p ^ k - 1 /\ t_p T = p /\ t_k T = k /\
     (forall a, 0 <= a < p ^ k -> 0 <= nth (Z.to_nat a) (t_log2pol T) 0 < p ^ k /\
                                  zget (t_pol2log T) (nth (Z.to_nat a) (t_log2pol T) 0) = a)) /\
    (forall (R : Type) (rO rI : R) (radd rmul rsub : R -> R -> R) (ropp : R -> R),
       ring_theory rO rI radd rmul rsub ropp (@eq R) ->
     forall x : R, zr R rO rI radd rmul ropp p = rO -> sem R rO rI radd rmul ropp x (digits p (S (Z.to_nat k)) f) = rO ->
       let ph := phi p k T R rO rI radd rmul ropp x in
       scalar_ops_spec R rI radd rmul rsub ropp (t_one T) (t_mone T) (plun_of T) ph /\
       macro_ops_spec R radd rmul rsub (t_one T) (t_mone T) (plun_of T) ph /\
       ph 0 = rO /\ ph (t_one T) = rI /\ ph (t_mone T) = ropp rI).
Lemma certified_field : Certified_field_stmt.
Proof.
  intros p k f g Hfg T Hok.
  destruct (modulus_irreducible p k f g Hfg) as [Hp [Hk [_ [Hd Hi]]]].
  destruct (generator_primitive p k f g Hfg) as [_ [Hg1 Hg2]].
  pose proof (repr_bijection p k f g T Hok) as HB. cbv zeta in HB.
  destruct HB as [_ [_ [Hq [Ho [Hpp [Hkk [HL _]]]]]]].
  split; [split; [exact Hp|split; [exact Hk|split; [exact Hd|exact Hi]]]|]. split; [split; [exact Hg1|exact Hg2]|]. split.
  - split; [exact Hq|split; [exact Ho|split; [exact Hpp|split; [exact Hkk|]]]]. intros a Ha. exact (HL a Ha).
  - intros R rO rI radd rmul rsub ropp Rth x Hc Hr ph.
    destruct (field_ops p k f g T Hok R rO rI radd rmul rsub ropp Rth x Hc Hr) as [H1 [H2 [H3 [H4 [H5 _]]]]].
    split; [exact H1|split; [exact H2|split; [exact H3|split; [exact H4|exact H5]]]].
Qed.
Example certified_field_GF9 : fg_ok 3 2 14 3 = true /\ tables_ok 3 2 14 3 (mk_tables 3 2 14 3) = true.
Proof. vm_compute. split; reflexivity. Qed.

(* (4) array forms and dotprod: see ProofsArr (array_forms_spec, dotprod_spec, pre_decrement_loop_is_wrong). *)

(* ------------------------------------------------------------ the hypotheses are satisfiable: concrete fields,
   tables built by the model's builder (the one compared with the implementation's tables), checked by computation *)
Example GF2_ok   : tables_ok 2 1 2 1 (mk_tables 2 1 2 1) = true.        Proof. vm_compute. reflexivity. Qed.
Example GF3_ok   : tables_ok 3 1 3 2 (mk_tables 3 1 3 2) = true.        Proof. vm_compute. reflexivity. Qed.
Example GF4_ok   : tables_ok 2 2 7 2 (mk_tables 2 2 7 2) = true.        Proof. vm_compute. reflexivity. Qed.
Example GF7_ok   : tables_ok 7 1 7 3 (mk_tables 7 1 7 3) = true.        Proof. vm_compute. reflexivity. Qed.
Example GF8_ok   : tables_ok 2 3 11 2 (mk_tables 2 3 11 2) = true.      Proof. vm_compute. reflexivity. Qed.
Example GF9_ok   : tables_ok 3 2 14 3 (mk_tables 3 2 14 3) = true.      Proof. vm_compute. reflexivity. Qed.
Example GF256_ok : tables_ok 2 8 285 2 (mk_tables 2 8 285 2) = true.    Proof. vm_compute. reflexivity. Qed.
(* a reducible modulus, a non-primitive generator are rejected *)
Example GF9_X_not_primitive_rejected : tables_ok 3 2 10 3 (mk_tables 3 2 10 3) = false.  Proof. vm_compute. reflexivity. Qed.
Example GF9_reducible_modulus_rejected : tables_ok 3 2 11 4 (mk_tables 3 2 11 4) = false. Proof. vm_compute. reflexivity. Qed.
Example GF7_nonprimitive_rejected : tables_ok 7 1 7 2 (mk_tables 7 1 7 2) = false. Proof. vm_compute. reflexivity. Qed.

(* fg_ok (irreducibility / primitivity by the verified checkers) on the same fields *)
Example GF9_fg_ok   : fg_ok 3 2 14 3 = true.    Proof. vm_compute. reflexivity. Qed.
Example GF256_fg_ok : fg_ok 2 8 285 2 = true.   Proof. vm_compute. reflexivity. Qed.
Example GF7_fg_ok   : fg_ok 7 1 7 3 = true.     Proof. vm_compute. reflexivity. Qed.
Example GF9_reducible_fg_rejected : fg_ok 3 2 11 4 = false.   Proof. vm_compute. reflexivity. Qed.
Example GF9_X_not_primitive_fg_rejected : fg_ok 3 2 10 3 = false.   Proof. vm_compute. reflexivity. Qed.
Example GF4_composite_p_rejected : fg_ok 4 1 4 3 = false.   Proof. vm_compute. reflexivity. Qed.
