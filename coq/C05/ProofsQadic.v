(* C05 - the q-adic transform of GFqExtFast: decoding a Kronecker-packed accumulator (init(double)) gives the polynomial whose
   coefficients are the digits of the accumulator modulo p, reduced modulo f; accumulated products of packed elements have
   digits below 2^bits as long as n*k*(p-1)^2 <= 2^bits - 1; the bound of the source as found (2^bits) is refuted. *)
From Coq Require Import ZArith Lia List Bool Ring Ring_theory.
From C09 Require Model.
From C05 Require Import Model Checker QadicModel ProofsField.
Import ListNotations.
Local Open Scope Z_scope.
Ltac Zify.zify_post_hook ::= Z.div_mod_to_equations.

(* ------------------------------------------------------------ REDQ: the digits u_j are (d / B^j) mod p *)
Fixpoint suffix_vals (B : Z) (vs : list Z) : list Z :=
  match vs with [] => [] | v :: vs' => evalp B vs :: suffix_vals B vs' end.

Lemma evalp_nonneg B : 0 < B -> forall vs, Forall (fun v => 0 <= v < B) vs -> 0 <= evalp B vs.
Proof.
  intros HB. induction 1 as [|v vs Hv _ IH]; cbn [evalp]; [lia|]. nia.
Qed.

Lemma evalp_shift B v vs : 0 < B -> 0 <= v < B -> evalp B (v :: vs) / B = evalp B vs.
Proof.
  intros HB Hv. cbn [evalp]. rewrite Z.mul_comm, Z.div_add by lia. rewrite Z.div_small by lia. lia.
Qed.

Lemma redq_loop_spec p B : 0 < p -> 0 < B -> forall vs v, Forall (fun v => 0 <= v < B) (v :: vs) ->
  redq_loop (length vs) p B (evalp B (v :: vs)) (evalp B (v :: vs) / p) = map (fun D => D mod p) (suffix_vals B vs).
Proof.
  intros Hp HB. induction vs as [|w vs IH]; intros v HF; [reflexivity|].
  inversion HF as [|? ? Hv HF']; subst.
  cbn [length redq_loop suffix_vals map].
  rewrite Z.div_div by lia. rewrite (Z.mul_comm p B), <- Z.div_div by lia.
  rewrite (evalp_shift B v (w :: vs) HB Hv).
  f_equal.
  - pose proof (evalp_nonneg B HB _ HF'). set (D := evalp B (w :: vs)) in *. clearbody D.
    rewrite Z.mod_eq by lia. lia.
  - apply IH. exact HF'.
Qed.

Lemma redq_spec p B : 2 <= p -> 0 < B -> forall vs v, Forall (fun v => 0 <= v < B) (v :: vs) ->
  redq p B (length vs) (evalp B (v :: vs)) = map (fun D => D mod p) (suffix_vals B (v :: vs)).
Proof.
  intros Hp HB vs v HF. unfold redq.
  pose proof (evalp_nonneg B HB _ HF) as Hd. set (d := evalp B (v :: vs)) in *.
  assert (E : d - d / p * p = d mod p) by (rewrite Z.mod_eq by lia; lia).
  rewrite E. assert (Hm : 0 <= d mod p < p) by (apply Z.mod_pos_bound; lia).
  destruct (Z.eqb_spec (d mod p) p) as [Heq|_]; [lia|].
  change (suffix_vals B (v :: vs)) with (d :: suffix_vals B vs). cbn [map]. f_equal.
  unfold d. apply redq_loop_spec; [lia|exact HB|exact HF].
Qed.

Lemma residues_spec p B : 2 <= p -> forall vs, vs <> [] ->
  residues p (B mod p) (map (fun D => D mod p) (suffix_vals B vs)) = map (fun v => v mod p) vs.
Proof.
  intros Hp. induction vs as [|v vs IH]; intros HN; [congruence|].
  destruct vs as [|w vs].
  - cbn [suffix_vals map residues evalp]. f_equal. rewrite Z.mul_0_r, Z.add_0_r. rewrite Z.mod_mod by lia. reflexivity.
  - change (suffix_vals B (v :: w :: vs)) with (evalp B (v :: w :: vs) :: suffix_vals B (w :: vs)).
    cbn [map]. change (suffix_vals B (w :: vs)) with (evalp B (w :: vs) :: suffix_vals B vs) at 1.
    cbn [map residues]. f_equal.
    + change (evalp B (v :: w :: vs)) with (v + B * evalp B (w :: vs)).
      set (D := evalp B (w :: vs)). clearbody D.
      rewrite <- Zminus_mod_idemp_l. rewrite Zminus_mod_idemp_l.
      rewrite <- (Zminus_mod_idemp_r _ (B mod p * (D mod p))). rewrite <- Zmult_mod. rewrite Zminus_mod_idemp_r.
      rewrite Zminus_mod_idemp_l. f_equal. ring.
    + change (evalp B (w :: vs) mod p :: map (fun D => D mod p) (suffix_vals B vs))
        with (map (fun D => D mod p) (suffix_vals B (w :: vs))).
      apply IH. discriminate.
Qed.

(* the residues the tables are indexed/filled with are the digits of the accumulator modulo p *)
Lemma redq_residues p B : 2 <= p -> 0 < B -> forall vs, vs <> [] -> Forall (fun v => 0 <= v < B) vs ->
  residues p (B mod p) (redq p B (pred (length vs)) (evalp B vs)) = map (fun v => v mod p) vs.
Proof.
  intros Hp HB vs HN HF. destruct vs as [|v vs]; [congruence|]. cbn [length pred].
  rewrite redq_spec by assumption. apply residues_spec; [exact Hp|discriminate].
Qed.

(* ------------------------------------------------------------ ring semantics of the decode *)
Section QSem.
  Variable R : Type.
  Variables (rO rI : R) (radd rmul rsub : R -> R -> R) (ropp : R -> R).
  Variable Rth : ring_theory rO rI radd rmul rsub ropp (@eq R).
  Add Ring Rring3 : Rth.
  Notation zr := (zr R rO rI radd rmul ropp).
  Variable p : Z.
  Hypothesis p_ge2 : 2 <= p.
  Hypothesis char_p : zr p = rO.
  Variable x : R.
  Notation sem := (sem R rO rI radd rmul ropp x).
  Notation xpow := (xpow R rI rmul x).
  Variable k : nat.
  Hypothesis k_pos : (1 <= k)%nat.
  Variable red : list Z.
  Hypothesis red_len : length red = k.
  Hypothesis red_sem : xpow k = sem red.

  Lemma sem_app : forall l1 l2, sem (l1 ++ l2) = radd (sem l1) (rmul (xpow (length l1)) (sem l2)).
  Proof.
    induction l1 as [|c l1 IH]; intros l2; cbn [app sem length xpow ProofsField.sem ProofsField.xpow].
    - ring.
    - rewrite IH. ring.
  Qed.

  Lemma sem_mod_map : forall l, sem (map (fun v => v mod p) l) = sem l.
  Proof.
    induction l as [|c l IH]; cbn [map sem ProofsField.sem]; [reflexivity|].
    rewrite IH. rewrite (zr_mod R rO rI radd rmul rsub ropp Rth p char_p). reflexivity.
  Qed.

  Lemma sem_map2_add : forall A Bl, length A = length Bl ->
    sem (map2 (fun a b => (a + b) mod p) A Bl) = radd (sem A) (sem Bl).
  Proof.
    induction A as [|a A IH]; destruct Bl as [|b Bl]; cbn [length]; intros H; try discriminate.
    - cbn [map2 sem ProofsField.sem]. ring.
    - cbn [map2 sem ProofsField.sem]. rewrite IH by lia.
      rewrite (zr_mod R rO rI radd rmul rsub ropp Rth p char_p), (zr_add R rO rI radd rmul rsub ropp Rth). ring.
  Qed.

  Lemma iter_mulX : forall n H, length H = k ->
    sem (iter_n n (mulX p red) H) = rmul (xpow n) (sem H) /\ length (iter_n n (mulX p red) H) = k.
  Proof.
    induction n as [|n IH]; intros H HL; cbn [iter_n xpow ProofsField.xpow].
    - split; [ring|exact HL].
    - destruct (IH H HL) as [HS HLn].
      destruct (mulX_ok R rO rI radd rmul rsub ropp Rth p char_p x k k_pos red red_len red_sem _ HLn) as [HX HXl].
      split; [|exact HXl]. rewrite HX, HS. ring.
  Qed.

  Lemma q_combine_sem mu : length mu = (2 * k - 1)%nat ->
    sem (q_combine p red k mu) = sem mu /\ length (q_combine p red k mu) = k.
  Proof.
    intros HL. unfold q_combine.
    assert (Hhi : length (skipn (pred k) mu) = k) by (rewrite skipn_length; lia).
    assert (Hlo : length (firstn (pred k) mu ++ [0]) = k).
    { rewrite app_length, firstn_length. cbn [length]. lia. }
    destruct (iter_mulX (pred k) _ Hhi) as [HS HLn].
    split.
    - rewrite sem_map2_add by lia. rewrite HS.
      assert (E : sem mu = radd (sem (firstn (pred k) mu)) (rmul (xpow (pred k)) (sem (skipn (pred k) mu)))).
      { rewrite <- (firstn_skipn (pred k) mu) at 1. rewrite sem_app. rewrite firstn_length.
        replace (Nat.min (pred k) (length mu)) with (pred k) by lia. reflexivity. }
      rewrite E. rewrite sem_app. cbn [sem ProofsField.sem].
      rewrite (zr_0 R rO rI radd rmul rsub ropp Rth). ring.
    - rewrite map2_length. lia.
  Qed.
End QSem.

(* ------------------------------------------------------------ packed products: Kronecker substitution is a ring morphism, digit bound *)
Lemma evalp_paddZ B : forall a b, evalp B (C09.Model.paddZ a b) = evalp B a + evalp B b.
Proof.
  induction a as [|x a IH]; intros b; [reflexivity|]. destruct b as [|y b]; cbn [C09.Model.paddZ evalp]; [lia|].
  rewrite IH. ring.
Qed.
Lemma evalp_pscaleZ B c : forall a, evalp B (C09.Model.pscaleZ c a) = c * evalp B a.
Proof.
  unfold C09.Model.pscaleZ. induction a as [|x a IH]; cbn [map evalp]; [ring|]. rewrite IH. ring.
Qed.
Lemma evalp_pmulZ B : forall a b, evalp B (C09.Model.pmulZ a b) = evalp B a * evalp B b.
Proof.
  induction a as [|x a IH]; intros b; cbn [C09.Model.pmulZ evalp]; [ring|].
  rewrite evalp_paddZ, evalp_pscaleZ. cbn [evalp]. rewrite IH. ring.
Qed.

Definition bounded (M : Z) (l : list Z) : Prop := Forall (fun c => 0 <= c <= M) l.

Lemma bounded_paddZ M N : 0 <= M -> 0 <= N -> forall a b, bounded M a -> bounded N b -> bounded (M + N) (C09.Model.paddZ a b).
Proof.
  intros HM HN a b Ha. revert b. induction Ha as [|x a Hx Ha IH]; intros b Hb.
  - cbn [C09.Model.paddZ]. eapply Forall_impl; [|exact Hb]. cbv beta. intros c Hc. lia.
  - destruct Hb as [|y b Hy Hb].
    + cbn [C09.Model.paddZ]. constructor; [lia|]. eapply Forall_impl; [|exact Ha]. cbv beta. intros; lia.
    + cbn [C09.Model.paddZ]. constructor; [lia|]. apply IH. exact Hb.
Qed.

Lemma bounded_pscaleZ c M : 0 <= c -> forall a, bounded M a -> bounded (c * M) (C09.Model.pscaleZ c a).
Proof.
  intros Hc a Ha. unfold C09.Model.pscaleZ. induction Ha as [|x a Hx Ha IH]; cbn [map]; constructor; [nia|exact IH].
Qed.

(* every coefficient of the integer product of two polynomials with coefficients in [0,M] and at most k terms is <= k*M^2 *)
Lemma bounded_pmulZ M : 0 <= M -> forall a b, bounded M a -> bounded M b ->
  bounded (Z.of_nat (length a) * (M * M)) (C09.Model.pmulZ a b).
Proof.
  intros HM a b Ha Hb. induction Ha as [|x a Hx Ha IH]; cbn [C09.Model.pmulZ length]; [constructor|].
  replace (Z.of_nat (S (length a)) * (M * M)) with (M * M + Z.of_nat (length a) * (M * M)) by lia.
  apply bounded_paddZ; [nia|nia| |].
  - eapply Forall_impl; [|apply (bounded_pscaleZ x M); [lia|exact Hb]]. cbv beta. intros c Hc. nia.
  - constructor; [nia|exact IH].
Qed.

(* sum of n products (as lists: the accumulator before packing) *)
Fixpoint acc_products (ps : list (list Z * list Z)) : list Z :=
  match ps with [] => [] | (a, b) :: ps' => C09.Model.paddZ (C09.Model.pmulZ a b) (acc_products ps') end.

Lemma evalp_acc B : forall ps, evalp B (acc_products ps) = fold_right (fun ab s => evalp B (fst ab) * evalp B (snd ab) + s) 0 ps.
Proof.
  induction ps as [|[a b] ps IH]; cbn [acc_products fold_right fst snd evalp]; [reflexivity|].
  rewrite evalp_paddZ, evalp_pmulZ, IH. reflexivity.
Qed.

Lemma bounded_acc M k : 0 <= M -> forall ps,
  Forall (fun ab => bounded M (fst ab) /\ bounded M (snd ab) /\ (length (fst ab) <= k)%nat) ps ->
  bounded (Z.of_nat (length ps) * (Z.of_nat k * (M * M))) (acc_products ps).
Proof.
  intros HM ps HF. induction HF as [|[a b] ps [Ha [Hb Hl]] HF IH]; cbn [acc_products length]; [constructor|].
  cbn [fst snd] in *.
  replace (Z.of_nat (S (length ps)) * (Z.of_nat k * (M * M)))
    with (Z.of_nat k * (M * M) + Z.of_nat (length ps) * (Z.of_nat k * (M * M))) by lia.
  apply bounded_paddZ; [nia|nia| |exact IH].
  eapply Forall_impl; [|apply (bounded_pmulZ M HM a b Ha Hb)]. cbv beta. intros c Hc. nia.
Qed.

Lemma length_paddZ : forall a b, length (C09.Model.paddZ a b) = Nat.max (length a) (length b).
Proof.
  induction a as [|x a IH]; intros b; [reflexivity|]. destruct b as [|y b]; cbn [C09.Model.paddZ length]; [reflexivity|].
  rewrite IH. reflexivity.
Qed.
Lemma length_pmulZ : forall a b, a <> [] -> b <> [] -> length (C09.Model.pmulZ a b) = (length a + length b - 1)%nat.
Proof.
  induction a as [|x a IH]; intros b Ha Hb; [congruence|].
  cbn [C09.Model.pmulZ]. rewrite length_paddZ. unfold C09.Model.pscaleZ. rewrite map_length. cbn [length].
  destruct a as [|y a].
  - cbn [C09.Model.pmulZ length]. destruct b; [congruence|cbn [length]; lia].
  - rewrite IH by (try discriminate; assumption). cbn [length]. destruct b; [congruence|cbn [length]; lia].
Qed.
Lemma length_acc k : (1 <= k)%nat -> forall ps, ps <> [] ->
  Forall (fun ab => length (fst ab) = k /\ length (snd ab) = k) ps -> length (acc_products ps) = (2 * k - 1)%nat.
Proof.
  intros Hk ps HN HF. induction HF as [|[a b] ps [Ha Hb] HF IH]; [congruence|].
  cbn [fst snd] in *. cbn [acc_products]. rewrite length_paddZ.
  rewrite length_pmulZ by (intro E; rewrite E in *; cbn [length] in *; lia).
  destruct ps as [|ab ps]; [cbn [acc_products length]; lia|].
  rewrite IH by discriminate. lia.
Qed.

Section QSem2.
  Variable R : Type.
  Variables (rO rI : R) (radd rmul rsub : R -> R -> R) (ropp : R -> R).
  Variable Rth : ring_theory rO rI radd rmul rsub ropp (@eq R).
  Add Ring Rring4 : Rth.
  Notation zr := (zr R rO rI radd rmul ropp).
  Variable x : R.
  Notation sem := (sem R rO rI radd rmul ropp x).

  Lemma sem_paddZ : forall a b, sem (C09.Model.paddZ a b) = radd (sem a) (sem b).
  Proof.
    induction a as [|c a IH]; intros b; [cbn [C09.Model.paddZ ProofsField.sem]; ring|].
    destruct b as [|d b]; cbn [C09.Model.paddZ ProofsField.sem]; [ring|].
    rewrite IH, (zr_add R rO rI radd rmul rsub ropp Rth). ring.
  Qed.
  Lemma sem_pscaleZ c : forall a, sem (C09.Model.pscaleZ c a) = rmul (zr c) (sem a).
  Proof.
    unfold C09.Model.pscaleZ. induction a as [|d a IH]; cbn [map ProofsField.sem]; [ring|].
    rewrite IH, (zr_mul R rO rI radd rmul rsub ropp Rth). ring.
  Qed.
  Lemma sem_pmulZ : forall a b, sem (C09.Model.pmulZ a b) = rmul (sem a) (sem b).
  Proof.
    induction a as [|c a IH]; intros b; cbn [C09.Model.pmulZ ProofsField.sem]; [ring|].
    rewrite sem_paddZ, sem_pscaleZ. cbn [ProofsField.sem]. rewrite IH, (zr_0 R rO rI radd rmul rsub ropp Rth). ring.
  Qed.
  Lemma sem_acc : forall ps, sem (acc_products ps) = fold_right (fun ab s => radd (rmul (sem (fst ab)) (sem (snd ab))) s) rO ps.
  Proof.
    induction ps as [|[a b] ps IH]; cbn [acc_products fold_right fst snd ProofsField.sem]; [reflexivity|].
    rewrite sem_paddZ, sem_pmulZ, IH. reflexivity.
  Qed.
End QSem2.

(* n <= num/(p-1)/(p-1)/k  =>  n*k*(p-1)^2 <= num *)
Lemma maxn_bound num p k n : 2 <= p -> 1 <= k -> 0 <= n <= q_maxn num p k -> n * (k * ((p - 1) * (p - 1))) <= num.
Proof.
  intros Hp Hk [Hn0 Hn]. unfold q_maxn in Hn.
  assert (H1 : n * k <= num / (p - 1) / (p - 1)).
  { pose proof (Z.mul_div_le (num / (p - 1) / (p - 1)) k ltac:(lia)). nia. }
  assert (H2 : n * k * (p - 1) <= num / (p - 1)).
  { pose proof (Z.mul_div_le (num / (p - 1)) (p - 1) ltac:(lia)). nia. }
  pose proof (Z.mul_div_le num (p - 1) ltac:(lia)). nia.
Qed.

(* ------------------------------------------------------------ statements *)
(* (a) REDQ: for every accumulator d = sum v_i B^i with digits 0 <= v_i < B, the residues computed by the shift loop of
       init(double) and combined as builddoubletables combines them are the digits modulo p *)
Definition Redq_stmt : Prop :=
  forall p B vs, 2 <= p -> 0 < B -> vs <> [] -> Forall (fun v => 0 <= v < B) vs ->
    residues p (B mod p) (redq p B (pred (length vs)) (q_pack B vs)) = map (fun v => v mod p) vs.
Lemma redq_ok : Redq_stmt.
Proof. intros p B vs Hp HB HN HF. unfold q_pack. apply redq_residues; assumption. Qed.

(* (b) decode: in any commutative ring of characteristic p with a root x of f (tables accepted by tables_ok: f has an invertible
       leading coefficient), init(double) of a packed accumulator with 2k-1 digits below B denotes sum_i v_i x^i *)
Definition Qadic_decode_stmt : Prop :=
  forall (p k f g : Z) (T : tables), tables_ok p k f g T = true ->
  forall (R : Type) (rO rI : R) (radd rmul rsub : R -> R -> R) (ropp : R -> R),
    ring_theory rO rI radd rmul rsub ropp (@eq R) ->
  forall x : R,
    zr R rO rI radd rmul ropp p = rO ->
    sem R rO rI radd rmul ropp x (digits p (S (Z.to_nat k)) f) = rO ->
  forall B vs, 0 < B -> length vs = (2 * Z.to_nat k - 1)%nat -> Forall (fun v => 0 <= v < B) vs ->
    let e := q_init p (Z.to_nat k) f B (q_pack B vs) in
    length e = Z.to_nat k /\ sem R rO rI radd rmul ropp x e = sem R rO rI radd rmul ropp x vs.
Lemma qadic_decode : Qadic_decode_stmt.
Proof.
  intros p k f g T Hok R rO rI radd rmul rsub ropp Rth x Hc Hr B vs HB HL HF e.
  destruct (basic_facts p k f g T Hok) as [Hp [Hk _]].
  assert (Hkn : (1 <= Z.to_nat k)%nat) by lia.
  assert (HN : vs <> []) by (destruct vs; [cbn [length] in HL; lia|discriminate]).
  subst e. unfold q_init.
  replace (2 * Z.to_nat k - 2)%nat with (pred (length vs)) by lia.
  rewrite (redq_ok p B vs Hp HB HN HF).
  pose proof (red_len p k f T) as RL.
  pose proof (red_sem p k f g T Hok R rO rI radd rmul rsub ropp Rth x Hc Hr) as RS.
  destruct (q_combine_sem R rO rI radd rmul rsub ropp Rth p Hc x (Z.to_nat k) Hkn _ RL RS (map (fun v => v mod p) vs)) as [HS HLn].
  { rewrite map_length. exact HL. }
  split; [exact HLn|]. rewrite HS. apply (sem_mod_map R rO rI radd rmul rsub ropp Rth p Hc).
Qed.

(* (c) delayed reduction: n products of packed elements (coefficients in [0,p-1], k of them) accumulated without reduction decode to
       the sum of the products in the ring, provided n <= (B-1)/(p-1)/(p-1)/k  [maxdot() after the repair: _MASK/(P-1)/(P-1)/e] *)
Definition Qadic_dot_stmt : Prop :=
  forall (p k f g : Z) (T : tables), tables_ok p k f g T = true ->
  forall (R : Type) (rO rI : R) (radd rmul rsub : R -> R -> R) (ropp : R -> R),
    ring_theory rO rI radd rmul rsub ropp (@eq R) ->
  forall x : R,
    zr R rO rI radd rmul ropp p = rO ->
    sem R rO rI radd rmul ropp x (digits p (S (Z.to_nat k)) f) = rO ->
  forall B (ps : list (list Z * list Z)), 0 < B -> ps <> [] ->
    Forall (fun ab => (length (fst ab) = Z.to_nat k /\ length (snd ab) = Z.to_nat k) /\
                      bounded (p - 1) (fst ab) /\ bounded (p - 1) (snd ab)) ps ->
    Z.of_nat (length ps) <= q_maxn (B - 1) p k ->
    let d := fold_right (fun ab s => q_pack B (fst ab) * q_pack B (snd ab) + s) 0 ps in
    let S := sem R rO rI radd rmul ropp x in
    S (q_init p (Z.to_nat k) f B d) = fold_right (fun ab s => radd (rmul (S (fst ab)) (S (snd ab))) s) rO ps.
Lemma qadic_dot : Qadic_dot_stmt.
Proof.
  intros p k f g T Hok R rO rI radd rmul rsub ropp Rth x Hc Hr B ps HB HN HF Hn d S.
  destruct (basic_facts p k f g T Hok) as [Hp [Hk _]].
  assert (Hkn : (1 <= Z.to_nat k)%nat) by lia.
  assert (Ed : d = q_pack B (acc_products ps)) by (subst d; unfold q_pack; rewrite evalp_acc; reflexivity).
  assert (HLen : length (acc_products ps) = (2 * Z.to_nat k - 1)%nat).
  { apply length_acc; [exact Hkn|exact HN|]. eapply Forall_impl; [|exact HF]. cbv beta. intros ab H. tauto. }
  assert (HBd : bounded (Z.of_nat (length ps) * (Z.of_nat (Z.to_nat k) * ((p - 1) * (p - 1)))) (acc_products ps)).
  { apply bounded_acc; [lia|]. eapply Forall_impl; [|exact HF]. cbv beta. intros ab [[H1 H2] [H3 H4]]. repeat split; try assumption. lia. }
  pose proof (maxn_bound (B - 1) p k (Z.of_nat (length ps)) Hp Hk ltac:(lia)) as HM.
  rewrite Z2Nat.id in HBd by lia.
  assert (HFd : Forall (fun v => 0 <= v < B) (acc_products ps)).
  { eapply Forall_impl; [|exact HBd]. cbv beta. intros c Hc'. lia. }
  destruct (qadic_decode p k f g T Hok R rO rI radd rmul rsub ropp Rth x Hc Hr B (acc_products ps) HB HLen HFd) as [_ HS].
  subst S. rewrite Ed, HS. apply (sem_acc R rO rI radd rmul rsub ropp Rth).
Qed.

(* (d) the bound of the source as found, _maxn = _BASE/(P-1)/(P-1)/e, is one too large whenever k(p-1)^2 divides 2^bits:
       GF(2^2), f = X^2+X+1, B = 2^17: maxdot = 65536 products (1+X)*(1+X) have the true sum 0 (all digits even) but a digit of
       the accumulator reaches B and the decode returns the element 1+X (p-adic 3); one product fewer decodes correctly
       (65535 (1+X)^2 = 1 + X^2 = X, p-adic 2) *)
Definition Maxdot_of_source_refuted_stmt : Prop :=
  let B := 2 ^ 17 in
  q_maxn B 2 2 = 65536 /\ q_maxn (B - 1) 2 2 = 65535 /\
  Forall (fun c => c mod 2 = 0) (C09.Model.pscaleZ 65536 (C09.Model.pmulZ [1; 1] [1; 1])) /\
  q_initZ 2 2 7 17 (65536 * (q_pack B [1; 1] * q_pack B [1; 1])) = 3 /\
  q_initZ 2 2 7 17 (65535 * (q_pack B [1; 1] * q_pack B [1; 1])) = 2.
Lemma maxdot_of_source_refuted : Maxdot_of_source_refuted_stmt.
Proof. vm_compute. repeat split; repeat constructor. Qed.

(* hypotheses of (b)/(c) are satisfiable: GF(3^2), f = X^2+1, accepted tables; the packed element 2+X, a packed accumulator *)
Example qadic_example : tables_ok 3 2 10 4 (mk_tables 3 2 10 4) = true /\ q_initZ 3 2 10 17 (2 + 2 ^ 17) = 5 /\
  q_initZ 3 2 10 17 (5 + 7 * 2 ^ 17 + 4 * 2 ^ 34) = 4 /\ 2 <= q_maxn (2 ^ 17 - 1) 3 2.
Proof. vm_compute. repeat split; discriminate. Qed.
