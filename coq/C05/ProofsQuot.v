(* C05 - the ring-level theorems instantiated in the concrete quotient ring F_p[X]/(F) of QuotRing.v: the statements become
   equalities between canonical coefficient lists computed with C09's padd / psub / pscale / pmul / pmod, and the polynomial
   image of the representations is injective (no degenerate reading of "any ring R with p = 0 and a root of f"). *)
From Coq Require Import ZArith Lia List Bool Ring Ring_theory Znumtheory.
From C09 Require Model ProofsAlg ProofsDiv ProofsIrr.
From C05 Require Import Model Checker ProofsZech ProofsField ProofsIrred QuotRing ProofsProps.
Import ListNotations.
Local Open Scope Z_scope.

(* the polynomial of a representation: the k p-adic digits of log2pol[a], normalised (no trailing zeros) *)
Definition pol (p k : Z) (T : tables) (a : Z) : list Z :=
  C09.Model.red p (digits p (Z.to_nat k) (nth (Z.to_nat a) (t_log2pol T) 0)).

(* (A) an admissible ring exists and is faithful: for p prime and a modulus of degree k >= 1 the quotient Q is a commutative ring with
   p = 0, the class of X is a root of f, 1 <> 0, and the denotation is injective on the coefficient lists of length k over [0,p) *)
Definition Admissible_ring_stmt : Prop :=
  forall p k f (Hp : prime p), 1 <= k ->
  let F := fpoly p k f in
  forall (Fc : C09.ProofsAlg.canon p F) (Fd : 1 <= C09.Model.deg F), C09.Model.deg F = k ->
  let R := Q p F in
  let r0 := q0 p Hp F Fd in let r1 := q1 p Hp F Fd in
  let add := qadd p Hp F in let mul := qmul p Hp F Fc Fd in let sub := qsub p Hp F in let opp := qopp p Hp F in
  let x := qX p Hp F Fc Fd in
  ring_theory r0 r1 add mul sub opp (@eq R) /\
  zr R r0 r1 add mul opp p = r0 /\
  sem R r0 r1 add mul opp x (digits p (S (Z.to_nat k)) f) = r0 /\
  r1 <> r0 /\
  (forall n m, 0 <= n < p ^ k -> 0 <= m < p ^ k ->
     sem R r0 r1 add mul opp x (digits p (Z.to_nat k) n) = sem R r0 r1 add mul opp x (digits p (Z.to_nat k) m) -> n = m).
Lemma admissible_ring : Admissible_ring_stmt.
Proof.
  intros p k f Hp Hk F Fc Fd Hd R r0 r1 add mul sub opp x.
  assert (P2 : 2 <= p) by (destruct Hp; lia).
  split; [apply Q_ring|]. split; [apply Q_char|]. split; [apply Q_root; reflexivity|]. split; [apply Q_nontrivial|].
  intros n m Hn Hm H.
  assert (Hkn : Z.of_nat (Z.to_nat k) = k) by lia.
  assert (C : forall j, coeffs p (Z.to_nat (C09.Model.deg F)) (digits p (Z.to_nat k) j)).
  { intros j. split; [rewrite digits_length, Hd; reflexivity|apply digits_range; exact P2]. }
  pose proof (semQ_injective p Hp F Fc Fd _ _ (C n) (C m) H) as E.
  rewrite <- (evalp_digits p P2 (Z.to_nat k) n), <- (evalp_digits p P2 (Z.to_nat k) m) by (rewrite Hkn; lia).
  rewrite E. reflexivity.
Qed.

(* (B) one field, concretely: tables accepted by tables_ok, (p,k,f,g) accepted by fg_ok.  With P a = the polynomial of the
   representation a and M u v = pmod (pmul u v) F, every scalar member function IS polynomial arithmetic modulo F on the
   polynomials of its operands, and P is injective on the representations (with Repr_bijection: a bijection onto the canonical
   polynomials of degree < k) *)
Definition Field_ops_concrete_stmt : Prop :=
  forall p k f g T, fg_ok p k f g = true -> tables_ok p k f g T = true ->
  let F := fpoly p k f in
  let P := pol p k T in
  let N := t_one T in let mo := t_mone T in let pl := plun_of T in
  let M := fun u v => C09.Model.pmod p (C09.Model.pmul p u v) F in
  let add := C09.Model.padd p in let sub := C09.Model.psub p in
  (forall a b c, 0 <= a <= N -> 0 <= b <= N -> 0 <= c <= N ->
     P (f_add N pl a b) = add (P a) (P b) /\ P (f_addin N pl a b) = add (P a) (P b) /\
     P (f_sub N mo pl a b) = sub (P a) (P b) /\ P (f_subin N mo pl a b) = sub (P a) (P b) /\
     P (f_mul N a b) = M (P a) (P b) /\ P (f_mulin N a b) = M (P a) (P b) /\
     P (f_neg N mo a) = C09.Model.pscale p (-1) (P a) /\ P (f_negin N mo a) = C09.Model.pscale p (-1) (P a) /\
     (b <> 0 -> M (P (f_div N a b)) (P b) = P a) /\ (b <> 0 -> M (P (f_divin N a b)) (P b) = P a) /\
     (a <> 0 -> M (P (f_inv N a)) (P a) = [1]) /\ (a <> 0 -> M (P (f_invin N a)) (P a) = [1]) /\
     P (f_axpy N pl a b c) = add (M (P a) (P b)) (P c) /\
     P (f_axpyin N pl a b c) = add (P a) (M (P b) (P c)) /\
     P (f_maxpyin N mo pl a b c) = sub (P a) (M (P b) (P c)) /\
     P (f_axmyin N mo pl a b c) = sub (M (P b) (P c)) (P a) /\
     P (f_axmy N mo pl a b c) = sub (M (P a) (P b)) (P c) /\
     P (f_maxpy N mo pl a b c) = sub (P c) (M (P a) (P b))) /\
  (forall a b, 0 <= a <= N -> 0 <= b <= N -> P a = P b -> a = b) /\
  P 0 = [] /\ P N = [1] /\ P mo = C09.Model.pscale p (-1) [1].

Lemma field_ops_concrete : Field_ops_concrete_stmt.
Proof.
  intros p k f g T Hfg Hok F P N mo pl M add sub.
  destruct (modulus_irreducible p k f g Hfg) as [Hp [Hk [Fc [Hd _]]]]. fold F in Fc, Hd.
  assert (Fd : 1 <= C09.Model.deg F) by lia.
  assert (P2 : 2 <= p) by (destruct Hp; lia).
  destruct (admissible_ring p k f Hp Hk Fc Fd Hd) as [Rth [Hc [Hr [_ Hinj]]]].
  set (R := Q p F) in *.
  set (r0 := q0 p Hp F Fd) in *. set (r1 := q1 p Hp F Fd) in *.
  set (radd := qadd p Hp F) in *. set (rmul := qmul p Hp F Fc Fd) in *. set (rsub := qsub p Hp F) in *. set (ropp := qopp p Hp F) in *.
  set (x := qX p Hp F Fc Fd) in *.
  destruct (field_ops p k f g T Hok R r0 r1 radd rmul rsub ropp Rth x Hc Hr) as [HS [_ [H0 [H1 [Hm _]]]]].
  set (ph := phi p k T R r0 r1 radd rmul ropp x) in *.
  assert (QP : forall a, qv p F (ph a) = P a).
  { intros a. unfold ph, phi. rewrite (semQ_cls p Hp F Fc Fd). apply qcls_short.
    unfold small. rewrite digits_length. unfold C09.Model.deg in Hd. lia. }
  assert (one1 : qv p F r1 = [1]).
  { cbn [qv r1 q1]. apply C09.ProofsAlg.canon_red_id. split; [repeat constructor; lia|cbn [last]; lia]. }
  split; [|split; [|split; [|split]]].
  - intros a b c Ha Hb Hcc. destruct (HS a b c Ha Hb Hcc) as
      [A1 [A2 [A3 [A4 [A5 [A6 [A7 [A8 [A9 [A10 [A11 [A12 [A13 [A14 [A15 [A16 [A17 A18]]]]]]]]]]]]]]]]].
    repeat match goal with
    | |- _ /\ _ => split
    | |- _ -> _ => intro
    end.
    + destruct A1 as [_ E]. apply (f_equal (qv p F)) in E. rewrite QP in E. cbn [qv radd qadd] in E. rewrite !QP in E. exact E.
    + destruct A2 as [_ E]. apply (f_equal (qv p F)) in E. rewrite QP in E. cbn [qv radd qadd] in E. rewrite !QP in E. exact E.
    + destruct A3 as [_ E]. apply (f_equal (qv p F)) in E. rewrite QP in E. cbn [qv rsub qsub] in E. rewrite !QP in E. exact E.
    + destruct A4 as [_ E]. apply (f_equal (qv p F)) in E. rewrite QP in E. cbn [qv rsub qsub] in E. rewrite !QP in E. exact E.
    + destruct A5 as [_ E]. apply (f_equal (qv p F)) in E. rewrite QP in E. cbn [qv rmul qmul] in E. rewrite !QP in E. exact E.
    + destruct A6 as [_ E]. apply (f_equal (qv p F)) in E. rewrite QP in E. cbn [qv rmul qmul] in E. rewrite !QP in E. exact E.
    + destruct A7 as [_ E]. apply (f_equal (qv p F)) in E. rewrite QP in E. cbn [qv ropp qopp] in E. rewrite !QP in E. exact E.
    + destruct A8 as [_ E]. apply (f_equal (qv p F)) in E. rewrite QP in E. cbn [qv ropp qopp] in E. rewrite !QP in E. exact E.
    + destruct (A9 H) as [_ E]. apply (f_equal (qv p F)) in E. cbn [qv rmul qmul] in E. rewrite !QP in E. exact E.
    + destruct (A10 H) as [_ E]. apply (f_equal (qv p F)) in E. cbn [qv rmul qmul] in E. rewrite !QP in E. exact E.
    + destruct (A11 H) as [_ E]. apply (f_equal (qv p F)) in E. rewrite one1 in E. cbn [qv rmul qmul] in E. rewrite !QP in E. exact E.
    + destruct (A12 H) as [_ E]. apply (f_equal (qv p F)) in E. rewrite one1 in E. cbn [qv rmul qmul] in E. rewrite !QP in E. exact E.
    + destruct A13 as [_ E]. apply (f_equal (qv p F)) in E. rewrite QP in E. cbn [qv radd qadd rmul qmul] in E. rewrite !QP in E. exact E.
    + destruct A14 as [_ E]. apply (f_equal (qv p F)) in E. rewrite QP in E. cbn [qv radd qadd rmul qmul] in E. rewrite !QP in E. exact E.
    + destruct A15 as [_ E]. apply (f_equal (qv p F)) in E. rewrite QP in E. cbn [qv rsub qsub rmul qmul] in E. rewrite !QP in E. exact E.
    + destruct A16 as [_ E]. apply (f_equal (qv p F)) in E. rewrite QP in E. cbn [qv rsub qsub rmul qmul] in E. rewrite !QP in E. exact E.
    + destruct A17 as [_ E]. apply (f_equal (qv p F)) in E. rewrite QP in E. cbn [qv rsub qsub rmul qmul] in E. rewrite !QP in E. exact E.
    + destruct A18 as [_ E]. apply (f_equal (qv p F)) in E. rewrite QP in E. cbn [qv rsub qsub rmul qmul] in E. rewrite !QP in E. exact E.
  - intros a b Ha Hb E.
    pose proof (repr_bijection p k f g T Hok) as HB. cbv zeta in HB.
    destruct HB as [_ [_ [Hq [Ho [_ [_ [HL _]]]]]]]. fold N in Ho.
    assert (Ea : ph a = ph b) by (apply Q_eq; rewrite !QP; exact E).
    destruct (HL a ltac:(lia)) as [Ra Ia]. destruct (HL b ltac:(lia)) as [Rb Ib].
    unfold ph, phi in Ea. apply Hinj in Ea; [|lia|lia]. rewrite <- Ia, <- Ib, Ea. reflexivity.
  - rewrite <- QP, H0. reflexivity.
  - rewrite <- QP. unfold N. rewrite H1. exact one1.
  - rewrite <- QP. unfold mo. rewrite Hm. cbn [qv ropp qopp]. rewrite one1. reflexivity.
Qed.
Example field_ops_concrete_GF9 : fg_ok 3 2 14 3 = true /\ tables_ok 3 2 14 3 (mk_tables 3 2 14 3) = true /\
  pol 3 2 (mk_tables 3 2 14 3) (f_mul 8 3 5) = C09.Model.pmod 3 (C09.Model.pmul 3 (pol 3 2 (mk_tables 3 2 14 3) 3) (pol 3 2 (mk_tables 3 2 14 3) 5)) (fpoly 3 2 14).
Proof. vm_compute. repeat split. Qed.

(* (C) the hypotheses of the Extension theorems (C05_extension_ops_are_quotient_ring_operations, C05_extension_inv_div_partial) and
   of the q-adic theorems are satisfiable in a non-degenerate way: instantiated in Q *)
Lemma ext_ops_in_quotient : forall p (Hp : prime p) F (Fc : C09.ProofsAlg.canon p F) (Fd : 1 <= C09.Model.deg F),
  ProofsExt.ext_ops_spec (Q p F) (q0 p Hp F Fd) (q1 p Hp F Fd) (qadd p Hp F) (qmul p Hp F Fc Fd) (qsub p Hp F) (qopp p Hp F) p (qX p Hp F Fc Fd) F /\
  q1 p Hp F Fd <> q0 p Hp F Fd.
Proof.
  intros p Hp F Fc Fd. split; [|apply Q_nontrivial].
  apply ext_ops.
  - apply Q_ring.
  - exact Hp.
  - apply Q_char.
  - exact Fc.
  - exact Fd.
  - apply Q_root. apply C09.ProofsAlg.canon_red_id. exact Fc.
Qed.
Example ext_ops_hypotheses_GF9 : prime 3 -> C09.ProofsAlg.canon 3 [1; 0; 1] /\ 1 <= C09.Model.deg [1; 0; 1].
Proof. intros _. split; [split; [repeat constructor; lia|cbn [last]; lia]|cbv; discriminate]. Qed.
