(* C05 - the table builder on a proved family of fields: for EVERY prime power q <= 32 (and every prime field up to GF(127) with
   the modulus X the implementation uses for k = 1), every modulus f (any polynomial
   of degree <= k given p-adically, monic or not) and every generator g that the verified checkers accept as irreducible /
   primitive (fg_ok), the tables computed by the model's builder mk_tables pass tables_ok - complete sweep inside the kernel. *)
From Coq Require Import ZArith Lia List Bool.
From C05 Require Import Model Checker.
Import ListNotations.
Local Open Scope Z_scope.

Definition sweep_bounds : list (Z * Z) :=
  [(2,1);(2,2);(2,3);(2,4);(2,5);(3,1);(3,2);(3,3);(5,1);(5,2);(7,1);(11,1);(13,1)].
(* prime fields: the constructor stores no modulus for k = 1 (the check passes f = p, the polynomial X) *)
Definition sweep_primes : list Z :=
  [17;19;23;29;31;37;41;43;47;53;59;61;67;71;73;79;83;89;97;101;103;107;109;113;127].
Definition sweep_prime (p : Z) : bool :=
  forallb (fun g => implb (fg_ok p 1 p g) (tables_ok p 1 p g (mk_tables p 1 p g))) (range p).
Definition sweep_one (pk : Z * Z) : bool :=
  let (p, k) := pk in
  forallb (fun f => forallb (fun g => implb (fg_ok p k f g) (tables_ok p k f g (mk_tables p k f g))) (range (p ^ k)))
          (range (p ^ (k + 1))).

Lemma in_range_from : forall n s i, s <= i < s + Z.of_nat n -> In i (range_from n s).
Proof.
  induction n as [|n IH]; intros s i H; [lia|]. cbn [range_from].
  destruct (Z.eq_dec i s) as [->|]; [left; reflexivity|right; apply IH; lia].
Qed.
Lemma in_range n i : 0 <= i < n -> In i (range n).
Proof. intros H. unfold range. apply in_range_from. lia. Qed.

Lemma sweep_all : forallb sweep_one sweep_bounds = true.
Proof. vm_cast_no_check (@eq_refl bool true). Qed.

Lemma sweep_primes_all : forallb sweep_prime sweep_primes = true.
Proof. vm_cast_no_check (@eq_refl bool true). Qed.

Definition Builder_accepted_bounded_stmt : Prop :=
  (forall p k f g, In (p, k) sweep_bounds -> 0 <= f < p ^ (k + 1) -> 0 <= g < p ^ k ->
     fg_ok p k f g = true -> tables_ok p k f g (mk_tables p k f g) = true) /\
  (forall p g, In p sweep_primes -> 0 <= g < p ->
     fg_ok p 1 p g = true -> tables_ok p 1 p g (mk_tables p 1 p g) = true).

Lemma builder_accepted_bounded : Builder_accepted_bounded_stmt.
Proof.
  split.
  - intros p k f g Hin Hf Hg Hok.
    pose proof (proj1 (forallb_forall _ _) sweep_all (p, k) Hin) as H1. unfold sweep_one in H1.
    pose proof (proj1 (forallb_forall _ _) H1 f (in_range _ _ Hf)) as H2. cbv beta in H2.
    pose proof (proj1 (forallb_forall _ _) H2 g (in_range _ _ Hg)) as H3. cbv beta in H3.
    rewrite Hok in H3. exact H3.
  - intros p g Hin Hg Hok.
    pose proof (proj1 (forallb_forall _ _) sweep_primes_all p Hin) as H1. unfold sweep_prime in H1.
    pose proof (proj1 (forallb_forall _ _) H1 g (in_range _ _ Hg)) as H3. cbv beta in H3.
    rewrite Hok in H3. exact H3.
Qed.
